#!/usr/bin/env python3
"""Orchestrator of the xsel verification machinery (DESIGN.md 2.3, 13).

  run.py setup                         build the Coq development, extract, build driver, translator, harness
  run.py check Cnn [--tier quick|thorough]
  run.py replay <file>
"""
import fcntl
import json
import os
import re
import shutil
import subprocess
import sys
import time

VERIF = os.path.dirname(os.path.abspath(__file__))
REPO = os.environ.get("VERIF_REPO", "/repo")
COQ = os.path.join(VERIF, "coq")
OCAML = os.path.join(VERIF, "ocaml")
BUILD = os.path.join(VERIF, "build")
OUT = os.environ.get("VERIF_OUT", VERIF)   # evidence/ and replays/ go here (self-test runs against mutants use a scratch dir)
GOENV = dict(os.environ, GOFLAGS="-mod=mod", GOPROXY="off", GOSUMDB="off", GOTOOLCHAIN="local", CGO_ENABLED=os.environ.get("CGO_ENABLED", "1"))
HOOK_TAG = "verif"

TRUSTED_BASE = [
    "Coq 8.16.1 kernel (coqc; vm_compute used in FactsCheck, witness lemmas and the cases.v cross-check; no native_compute)",
    "axioms: none (Print Assumptions of every property theorem is parsed on every run and listed under 'axioms')",
    "extraction: ExtrOcamlBasic only (Extract Inductive bool/option/unit/list/prod/sumbool/sumor; inlined andb/orb/negb/fst/snd); nat/N/Z/positive stay Coq datatypes; OCaml 4.13.1",
    "hand-written glue: ocaml/driver.ml (S-expression reader, printers, int<->N/Z conversions), harness/*.go (generators, projection of observables, shrinking), run.py, tools/facts",
    "modelled, not verified: Go's execution of the hand-written code (tied by the correspondence check only), the gogll-generated parser/lexer, encoding/xml, encoding/json, x/net/html, reflect, strconv, sort, IEEE arithmetic of the CPU, scheduler/memory model, OS",
]


def sh(cmd, cwd=None, env=None, timeout=None, check=True, capture=True):
    p = subprocess.run(cmd, cwd=cwd, env=env, timeout=timeout, shell=isinstance(cmd, str),
                       stdout=subprocess.PIPE if capture else None, stderr=subprocess.STDOUT if capture else None, text=True, errors="replace")
    if check and p.returncode != 0:
        raise RuntimeError("command failed (%s): %s\n%s" % (p.returncode, cmd, (p.stdout or "")[-4000:]))
    return p


class Lock:
    def __init__(self, name):
        os.makedirs(BUILD, exist_ok=True)
        self.path = os.path.join(BUILD, name + ".lock")

    def __enter__(self):
        self.f = open(self.path, "w")
        fcntl.flock(self.f, fcntl.LOCK_EX)
        return self

    def __exit__(self, *a):
        fcntl.flock(self.f, fcntl.LOCK_UN)
        self.f.close()


def coq_sources():
    out = []
    for line in open(os.path.join(COQ, "_CoqProject")):
        line = line.strip()
        if line.endswith(".v"):
            out.append(line)
    return out


def build_coq():
    """Full .vo build of the hand-written development (no-op when up to date)."""
    with Lock("coq"):
        if not os.path.exists(os.path.join(COQ, "Makefile")) or \
                os.path.getmtime(os.path.join(COQ, "Makefile")) < os.path.getmtime(os.path.join(COQ, "_CoqProject")):
            sh("coq_makefile -f _CoqProject -o Makefile", cwd=COQ)
        p = sh("timeout 3000 make -j16", cwd=COQ, check=False)
        if p.returncode != 0:
            return False, p.stdout[-3000:]
        return True, ""


def build_model():
    """Extraction + OCaml driver; rebuilt when the model sources are newer."""
    with Lock("ocaml"):
        exe = os.path.join(OCAML, "xmodel")
        newest = max(os.path.getmtime(os.path.join(COQ, f)) for f in coq_sources())
        newest = max(newest, os.path.getmtime(os.path.join(OCAML, "driver.ml")))
        if os.path.exists(exe) and os.path.getmtime(exe) >= newest:
            return
        sh("coqc -R ../coq XV ../coq/Extract/Extract.v", cwd=OCAML)
        for junk in ("Extract.vo", "Extract.glob", "Extract.vos", "Extract.vok", ".Extract.aux"):
            for d in (OCAML, os.path.join(COQ, "Extract")):
                try:
                    os.remove(os.path.join(d, junk))
                except OSError:
                    pass
        sh("ocamlfind ocamlopt -O3 -w -a xmodel.mli xmodel.ml driver.ml -o xmodel", cwd=OCAML)


def scratch_dir():
    d = os.path.join(BUILD, "run-%d-%d" % (os.getpid(), int(time.time() * 1000)))
    os.makedirs(d)
    return d


def build_harness(scratch, race=False):
    """go build of the harness against the CURRENT working tree of the repository, hooks enabled."""
    hd = os.path.join(scratch, "harness")
    os.makedirs(hd)
    src = os.environ.get("VERIF_HARNESS", os.path.join(VERIF, "harness"))   # development override only
    for f in os.listdir(src):
        if f.endswith(".go"):
            shutil.copy(os.path.join(src, f), hd)
    with open(os.path.join(hd, "go.mod"), "w") as f:
        f.write("module xvh\n\ngo 1.20\n\nrequire github.com/ChrisTrenkamp/xsel v0.0.0\n\nreplace github.com/ChrisTrenkamp/xsel => %s\n" % REPO)
    shutil.copy(os.path.join(REPO, "go.sum"), hd)
    cmd = ["go", "build", "-tags", HOOK_TAG, "-o", "xvh"]
    if race:
        cmd.insert(2, "-race")
    p = sh(cmd + ["."], cwd=hd, env=GOENV, check=False)
    if p.returncode != 0:
        return None, p.stdout[-3000:]
    return os.path.join(hd, "xvh"), ""


def theorem_names(prop):
    path = os.path.join(COQ, "Props", prop + ".v")
    if not os.path.exists(path):
        return []
    return re.findall(r"^\s*(?:Theorem|Lemma|Corollary|Example)\s+(\w+)", open(path).read(), re.M)


def audit(prop, scratch):
    """Print Assumptions of every theorem of Props/Cnn.v, re-checked by coqc on this run."""
    names = theorem_names(prop)
    if not names:
        return {"obligations": 0, "discharged": 0, "axioms": {}, "theorems": [], "ok": False, "log": "no Props/%s.v" % prop}
    src = os.path.join(scratch, "Audit_%s.v" % prop)
    with open(src, "w") as f:
        f.write("From XV Require Import Props.%s.\n" % prop)
        for n in names:
            f.write('Goal True. idtac "@@ %s". Abort.\nPrint Assumptions %s.\n' % (n, n))
    p = sh("timeout 600 coqc -R %s XV %s" % (COQ, src), cwd=scratch, check=False)
    axioms, cur, discharged = {}, None, 0
    for line in p.stdout.splitlines():
        m = re.match(r"@@ (\w+)", line)
        if m:
            cur = m.group(1)
            axioms[cur] = None
            continue
        if cur and axioms[cur] is None:
            if "Closed under the global context" in line:
                axioms[cur] = []
            elif line.startswith("Axioms:"):
                axioms[cur] = ["<axioms>"]
        elif cur and axioms[cur] and line.strip() and not line.startswith("@@"):
            axioms[cur].append(line.strip())
    for n in names:
        if axioms.get(n) == []:
            discharged += 1
    return {"obligations": len(names), "discharged": discharged if p.returncode == 0 else 0,
            "axioms": {k: v for k, v in axioms.items() if v}, "theorems": names, "ok": p.returncode == 0, "log": p.stdout[-2000:]}


def load_known():
    path = os.path.join(VERIF, "known_findings.json")
    if not os.path.exists(path):
        return {"open": [], "fixed": []}
    return json.load(open(path))


def sx_parse(s):
    """tiny S-expression reader (for the cases.v cross-check)"""
    toks = re.findall(r"\(|\)|[^\s()]+", s)
    pos = 0

    def item():
        nonlocal pos
        t = toks[pos]
        pos += 1
        if t == "(":
            out = []
            while toks[pos] != ")":
                out.append(item())
            pos += 1
            return out
        return t
    return item()


def run_check(prop, tier):
    t0 = time.time()
    seed = int(os.environ.get("VERIF_SEED", "1") or "1")
    tier = os.environ.get("VERIF_TIER", tier) or tier
    os.makedirs(os.path.join(OUT, "evidence"), exist_ok=True)
    os.makedirs(os.path.join(OUT, "replays"), exist_ok=True)
    scratch = scratch_dir()
    lines, violations, broken = [], [], []
    stats = {"evaluations": 0, "distinct_nontrivial": 0, "samples": [], "distribution": {}, "mismatches": [], "rule": ""}
    au = {"obligations": 0, "discharged": 0, "axioms": {}, "theorems": [], "ok": False}
    known_printed = []
    try:
        ok, log = build_coq()
        if not ok:
            broken.append(("coq-build", "the Coq development does not build:\n" + log))
        else:
            build_model()
            au = audit(prop, scratch)
            if not au["ok"] or au["discharged"] != au["obligations"] or au["axioms"]:
                broken.append(("audit", "property theorems of %s are not all closed under the global context: %s\n%s" % (prop, au["axioms"], au.get("log", ""))))
            if tier == "thorough":
                # the independent checker re-checks Props/Cnn.vo and everything it depends on
                ck = sh("timeout 3000 coqchk -silent -o -R . XV XV.Props.%s" % prop, cwd=COQ, check=False)
                out = ck.stdout or ""
                fine = (ck.returncode == 0 and "Axioms: <none>" in out and "type-in-type: <none>" in out
                        and "unsafe (co)fixpoints: <none>" in out and "positivity is assumed: <none>" in out)
                au["coqchk"] = "coqchk -silent -o XV.Props.%s: %s" % (prop, "accepted; no axioms, no type-in-type, no unsafe fixpoints, no assumed positivity" if fine else "REJECTED or not clean")
                if not fine:
                    broken.append(("coqchk", out[-1500:]))
            from tools import facts as factsmod  # noqa
            fres = factsmod.check(prop, REPO, scratch, COQ)
            au["obligations"] += fres["obligations"]
            au["discharged"] += fres["discharged"]
            au["facts"] = fres["summary"]
            if fres["broken"]:
                broken.append(("facts", fres["broken"]))
        exe, log = build_harness(scratch, race=(prop == "C14"))
        cli = None
        if exe is not None and prop in ("C14", "C20"):
            cli = os.path.join(scratch, "xsel-cli")
            pc = sh(["go", "build"] + (["-race"] if prop == "C14" else []) + ["-o", cli, "./xsel"], cwd=REPO, env=GOENV, check=False)
            if pc.returncode != 0:
                broken.append(("cli-build", "the command does not build: " + pc.stdout[-1500:]))
                cli = None
        if exe is None:
            broken.append(("harness-build", "the harness does not build against %s:\n%s" % (REPO, log)))
        elif os.path.exists(os.path.join(OCAML, "xmodel")):
            run_tier = tier if not broken else "thorough"   # a broken obligation escalates the search for a failing input
            statf = os.path.join(scratch, prop + ".json")
            p = sh([exe, "-prop", prop, "-tier", run_tier, "-seed", str(seed), "-model", os.path.join(OCAML, "xmodel"),
                    "-out", statf, "-replays", os.path.join(OUT, "replays")] + (["-cli", cli] if cli else []), cwd=scratch, env=GOENV, check=False,
                   timeout=7200)
            if "DATA RACE" in (p.stdout or ""):
                rp_path = os.path.join(OUT, "replays", "%s-data-race.json" % prop)
                i0 = p.stdout.index("DATA RACE")
                json.dump({"property": prop, "kind": "race-report", "note": "the Go race detector reported a data race while goroutines shared one tree, one compiled expression and one set of bindings",
                           "report": p.stdout[max(0, i0 - 200):i0 + 3000]}, open(rp_path, "w"), indent=1)
                violations.append((rp_path, "the race detector reports a data race during concurrent Exec: " + p.stdout[i0:i0 + 600].replace("\n", " | ")))
            if os.path.exists(statf):
                stats = json.load(open(statf))
            else:
                broken.append(("harness-run", "the harness did not finish: " + p.stdout[-2000:]))
            # known findings: replay every open witness
            kf = load_known()
            open_ids = set()
            for e in kf.get("open", []):
                if e["property"] != prop:
                    continue
                open_ids.add(e["id"])
                w = os.path.join(VERIF, e["witness"])
                rp = sh([exe, "-replay", w, "-model", os.path.join(OCAML, "xmodel")] + (["-cli", cli] if cli else []), cwd=scratch, env=GOENV, check=False)
                if rp.returncode not in (0, 1):
                    broken.append(("corpus", "cannot replay the witness %s: %s" % (w, rp.stdout[-300:])))
                if rp.returncode == 1 or (stats.get("known_findings") or {}).get(e["id"], 0) > 0:
                    known_printed.append("KNOWN-FINDING: property=%s %s" % (prop, e["what"]))
            nfixed = 0
            for e in kf.get("fixed", []):
                for wrel in e.get("witnesses", []):
                    if not os.path.basename(wrel).startswith(prop + "-"):
                        continue            # a witness is replayed by the check of the family that found it
                    w = os.path.join(VERIF, wrel)
                    rp = sh([exe, "-replay", w, "-model", os.path.join(OCAML, "xmodel")] + (["-cli", cli] if cli else []), cwd=scratch, env=GOENV, check=False)
                    nfixed += 1
                    if rp.returncode == 1:
                        violations.append((w, "a repaired defect has returned (%s %s): %s" % (e["commit"], e["what"], rp.stdout[-400:])))
                    elif rp.returncode != 0:
                        broken.append(("corpus", "cannot replay %s: %s" % (w, rp.stdout[-300:])))
            stats.setdefault("distribution", {})["corpus:fixed-finding-witnesses-replayed"] = nfixed
            for m in stats.get("mismatches") or []:
                if m.get("known_finding") and m["known_finding"] in open_ids:
                    continue
                violations.append((m["replay"], m["summary"]))
            # cross-check a sample of the extracted model's answers inside Coq
            cc = os.path.splitext(statf)[0] + ".coqcases"
            if os.path.exists(cc) and not broken:
                from tools import coqcases
                r = coqcases.check(cc, scratch, COQ, limit=40 if run_tier == "quick" else 300)
                au["vm_compute_crosscheck"] = r["summary"]
                if r["bad"]:
                    broken.append(("extraction-crosscheck", r["bad"]))
    except Exception as e:  # the check itself failed: that is a broken check, reported as such
        broken.append(("internal", repr(e)))

    for line in known_printed:
        print(line)
    exit_code = 0
    for path, what in violations:
        print("VIOLATION property=%s replay=%s" % (prop, path))
        print("  " + what[:500])
        exit_code = 1
    if broken and not violations:
        rp = os.path.join(OUT, "replays", "%s-broken-obligation.json" % prop)
        json.dump({"property": prop, "broken": [{"what": a, "detail": b} for a, b in broken],
                   "note": "a proof obligation or the model/code tie no longer checks; the thorough search found no failing input"}, open(rp, "w"), indent=1)
        print("VIOLATION property=%s replay=%s no-failing-input-found" % (prop, rp))
        for a, b in broken:
            print("  broken: %s: %s" % (a, b[:800]))
        exit_code = 1

    axioms_used = sorted({a for v in au.get("axioms", {}).values() for a in v})
    ev = {
        "property_id": prop, "tier": tier if tier in ("quick", "thorough") else "quick", "seed": seed, "level": "proof",
        "coverage": {
            "obligations": max(au["obligations"], 1), "discharged": au["discharged"],
            "checker_cmd": "coq_makefile -f coq/_CoqProject && make (full .vo build); coqc Audit_%s.v (Print Assumptions of every theorem of coq/Props/%s.v); coqc FactsCheck_%s.v on facts regenerated from %s" % (prop, prop, prop, REPO),
            "trusted_base": TRUSTED_BASE,
            "theorems": au.get("theorems", []),
            "axioms": axioms_used,
            "facts": au.get("facts", ""),
            "vm_compute_crosscheck": au.get("vm_compute_crosscheck", ""), "coqchk": au.get("coqchk", "not run in the quick tier"),
            "evaluations": stats.get("evaluations", 0), "distinct_nontrivial": stats.get("distinct_nontrivial", 0),
            "rule": stats.get("rule", ""), "samples": (stats.get("samples") or [])[:12] or ["(none)"],
            "distribution": stats.get("distribution", {}),
            "known_findings_reproduced": known_printed,
            "explanation": "theorems about the Coq model (coq/Props/%s.v) + per-run tie to the source: regenerated facts re-proved by coqc, differential correspondence of the extracted model with the implementation built from the current working tree" % prop,
        },
        "assumptions": ["the correspondence check ties the hand-written model to the Go code on the generated inputs only; its bounds are stated in 'rule'"],
        "wall_s": round(time.time() - t0, 2),
        "violations": len(violations) + (1 if broken and not violations else 0),
    }
    json.dump(ev, open(os.path.join(OUT, "evidence", prop + ".json"), "w"), indent=1)
    shutil.rmtree(scratch, ignore_errors=True)
    print("%s %s: obligations %d/%d, evaluations %d (distinct non-trivial %d), violations %d, %.1fs" % (
        prop, tier, au["discharged"], au["obligations"], stats.get("evaluations", 0), stats.get("distinct_nontrivial", 0), ev["violations"], ev["wall_s"]))
    return exit_code


def main():
    if len(sys.argv) < 2:
        print(__doc__)
        return 2
    cmd = sys.argv[1]
    if cmd == "setup":
        ok, log = build_coq()
        if not ok:
            print(log)
            return 1
        build_model()
        scratch = scratch_dir()
        try:
            exe, log = build_harness(scratch)
            if exe is None:
                print(log)
                return 1
        finally:
            shutil.rmtree(scratch, ignore_errors=True)
        print("setup ok")
        return 0
    if cmd == "check":
        prop = sys.argv[2]
        tier = "quick"
        if "--tier" in sys.argv:
            tier = sys.argv[sys.argv.index("--tier") + 1]
        return run_check(prop, tier)
    if cmd == "replay":
        build_coq()
        build_model()
        scratch = scratch_dir()
        try:
            exe, log = build_harness(scratch)
            if exe is None:
                print(log)
                return 2
            p = sh([exe, "-replay", os.path.abspath(sys.argv[2]), "-model", os.path.join(OCAML, "xmodel")], cwd=scratch, env=GOENV, check=False)
            print(p.stdout)
            return p.returncode
        finally:
            shutil.rmtree(scratch, ignore_errors=True)
    print(__doc__)
    return 2


if __name__ == "__main__":
    sys.path.insert(0, VERIF)
    sys.exit(main())
