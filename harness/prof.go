package main

import (
	"fmt"
	"os"
	"time"
)

var tImpl, tModel time.Duration

func profReport() {
	if os.Getenv("VERIF_PROF") != "" {
		fmt.Fprintf(os.Stderr, "impl %v model %v\n", tImpl, tModel)
	}
}
