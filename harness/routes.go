//go:build verif

package main

import (
	"fmt"
	"math"
	"strings"

	"github.com/ChrisTrenkamp/xsel"
	"github.com/ChrisTrenkamp/xsel/node"
	"github.com/ChrisTrenkamp/xsel/store"
)

// Alternate routes to the same semantics. The properties are stated for the library, not for one way of
// calling it: every so often a query that was answered through Exec + the With* options over the in-memory
// store is asked again
//   - through ExecAsString / ExecAsNumber / ExecAsNodeset ("like Exec, except it returns ..."),
//   - with the bindings installed by a ContextApply that REPLACES the three maps (what the command does) and
//     through WithVariableName / WithFunctionName,
//   - over a caller-implemented store.Cursor that wraps the tree and hands out a fresh Cursor value on every
//     navigation (same Pos(), same Node()),
// and the answers must be the answer of the main route.

// viewCursor: a caller's own Cursor implementation over the in-memory tree; no two navigations return the
// same Go value.
type viewCursor struct{ in store.Cursor }

func view(c store.Cursor) store.Cursor {
	if c == nil {
		return nil
	}
	return &viewCursor{c}
}
func views(l []store.Cursor) []store.Cursor {
	out := make([]store.Cursor, len(l))
	for i, c := range l {
		out[i] = view(c)
	}
	return out
}
func (v *viewCursor) Pos() int                   { return v.in.Pos() }
func (v *viewCursor) Node() node.Node            { return v.in.Node() }
func (v *viewCursor) Namespaces() []store.Cursor { return views(v.in.Namespaces()) }
func (v *viewCursor) Attributes() []store.Cursor { return views(v.in.Attributes()) }
func (v *viewCursor) Children() []store.Cursor   { return views(v.in.Children()) }
func (v *viewCursor) Parent() store.Cursor       { return view(v.in.Parent()) }

func unview(c store.Cursor) store.Cursor {
	for {
		v, ok := c.(*viewCursor)
		if !ok {
			return c
		}
		c = v.in
	}
}

// replacingSettings: the same bindings as Env.Settings, installed by one ContextApply that assigns new maps
func (e *Env) replacingSettings(root store.Cursor) []xsel.ContextApply {
	inner := e.Settings(root)
	return []xsel.ContextApply{func(c *xsel.ContextSettings) {
		fresh := xsel.ContextSettings{
			NamespaceDecls:  map[string]string{},
			FunctionLibrary: map[xsel.XmlName]xsel.Function{},
			Variables:       map[xsel.XmlName]xsel.Result{},
		}
		for _, s := range inner {
			s(&fresh)
		}
		c.NamespaceDecls = fresh.NamespaceDecls
		c.FunctionLibrary = fresh.FunctionLibrary
		c.Variables = fresh.Variables
	}}
}

var routeTick int
var routeCounts = map[string]int{}

// alternateRoutes returns "" when every alternate route agrees with the main answer, else a description.
func alternateRoutes(root store.Cursor, start Path, env *Env, g *xsel.Grammar, res xsel.Result, err error) (out string) {
	if allRoutes {
		for k := 0; k < 3; k++ {
			if m := oneRoute(k, root, start, env, g, res, err); m != "" {
				return m
			}
		}
		return ""
	}
	// every third evaluation among the first 9000 of a run, every 33rd after that
	routeTick++
	if routeTick%3 != 0 || routeTick > 9000 && routeTick%33 != 0 {
		return ""
	}
	return oneRoute((routeTick/3)%3, root, start, env, g, res, err)
}

// allRoutes: a replay asks every route
var allRoutes bool

func oneRoute(k int, root store.Cursor, start Path, env *Env, g *xsel.Grammar, res xsel.Result, err error) (out string) {
	defer func() {
		if r := recover(); r != nil {
			out = fmt.Sprintf("alternate route panicked: %v", r)
		}
	}()
	main := projectResult(res, err)
	c := cursorAt(root, start)
	routeCounts[[]string{"ExecAsString/Number/Nodeset", "bindings-by-replacing-the-maps", "caller-implemented-Cursor"}[k]]++
	switch k {
	case 0:
		// the typed entry points
		s, serr := xsel.ExecAsString(c, g, env.Settings(root)...)
		if (serr != nil) != (err != nil) {
			return fmt.Sprintf("ExecAsString error %v, Exec error %v", serr, err)
		}
		if err == nil {
			if s != res.String() {
				return fmt.Sprintf("ExecAsString gives %q, Exec(...).String() %q", s, res.String())
			}
			n, nerr := xsel.ExecAsNumber(c, g, env.Settings(root)...)
			if nerr != nil || math.Float64bits(n) != math.Float64bits(res.Number()) && !(math.IsNaN(n) && math.IsNaN(res.Number())) {
				return fmt.Sprintf("ExecAsNumber gives %v (%v), Exec(...).Number() %v", n, nerr, res.Number())
			}
			ns, nserr := xsel.ExecAsNodeset(c, g, env.Settings(root)...)
			if _, isNS := res.(xsel.NodeSet); isNS != (nserr == nil) {
				return fmt.Sprintf("ExecAsNodeset error %v for a result of type %T", nserr, res)
			}
			if nserr == nil && projectResult(ns, nil) != main {
				return fmt.Sprintf("ExecAsNodeset gives %s, Exec %s", projectResult(ns, nil), main)
			}
		}
	case 1:
		// bindings installed by replacing the maps
		r2, err2 := xsel.Exec(c, g, env.replacingSettings(root)...)
		if p2 := projectResult(r2, err2); p2 != main {
			return fmt.Sprintf("with the bindings installed by a ContextApply that assigns its own maps: %s, with WithNS/WithVariableNS/WithFunctionNS: %s", p2, main)
		}
	case 2:
		// a caller-implemented Cursor
		vroot := view(root)
		r3, err3 := xsel.Exec(cursorAt(vroot, start), g, env.Settings(vroot)...)
		if p3 := projectResult(r3, err3); p3 != main {
			return fmt.Sprintf("over a caller-implemented Cursor (fresh values on every navigation): %s, over the in-memory store: %s", p3, main)
		}
	}
	return ""
}

type routeMismatch struct{ msg string }

func (r routeMismatch) Error() string { return "ROUTE " + r.msg }

func isRoute(err error) (string, bool) {
	if err == nil {
		return "", false
	}
	if strings.HasPrefix(err.Error(), "ROUTE ") {
		return err.Error(), true
	}
	return "", false
}
