//go:build verif

package main

import (
	"fmt"
	"math"
	"strings"

	"github.com/ChrisTrenkamp/xsel"
	"github.com/ChrisTrenkamp/xsel/node"
	"github.com/ChrisTrenkamp/xsel/store"
)

// Alternate routes to the same semantics. The properties are stated for the library, not for one way of
// calling it: every so often a query that was answered through Exec + the With* options over the in-memory
// store is asked again
//   - through ExecAsString / ExecAsNumber / ExecAsNodeset ("like Exec, except it returns ..."),
//   - with the bindings installed by a ContextApply that REPLACES the three maps (what the command does) and
//     through WithVariableName / WithFunctionName,
//   - over a caller-implemented store.Cursor that wraps the tree and hands out a fresh Cursor value on every
//     navigation (same Pos(), same Node()),
// and the answers must be the answer of the main route.

// viewCursor: a caller's own Cursor implementation over the in-memory tree; no two navigations return the
// same Go value.
type viewCursor struct{ in store.Cursor }

func view(c store.Cursor) store.Cursor {
	if c == nil {
		return nil
	}
	return &viewCursor{c}
}
func views(l []store.Cursor) []store.Cursor {
	if len(l) == 0 {
		return nil // "no children" may be the nil slice
	}
	// the slice handed out has spare capacity that belongs to the caller (an arena of child lists back to back): the
	// cells behind the length hold a sentinel and must still hold it afterwards
	out := make([]store.Cursor, len(l), len(l)+2)
	for i, c := range l {
		out[i] = view(c)
	}
	full := out[:len(l)+2]
	full[len(l)], full[len(l)+1] = arenaSentinel, arenaSentinel
	if len(arenaGuards) < 4096 {
		arenaGuards = append(arenaGuards, full)
	}
	return out
}

var arenaSentinel store.Cursor = &viewCursor{}
var arenaGuards [][]store.Cursor

// arenaTouched reports (and forgets) whether the library wrote behind the length of a slice a Cursor handed out
func arenaTouched() bool {
	bad := false
	for _, g := range arenaGuards {
		if g[len(g)-1] != arenaSentinel || g[len(g)-2] != arenaSentinel {
			bad = true
		}
	}
	arenaGuards = arenaGuards[:0]
	return bad
}

// positions need not be contiguous: every position is stretched (the root stays 0, the order is kept)
func (v *viewCursor) Pos() int                   { return 3*v.in.Pos() - v.in.Pos()%2 }
func (v *viewCursor) Node() node.Node            { return v.in.Node() }
func (v *viewCursor) Namespaces() []store.Cursor { return views(v.in.Namespaces()) }
func (v *viewCursor) Attributes() []store.Cursor { return views(v.in.Attributes()) }
func (v *viewCursor) Children() []store.Cursor   { return views(v.in.Children()) }
func (v *viewCursor) Parent() store.Cursor       { return view(v.in.Parent()) }

func unview(c store.Cursor) store.Cursor {
	for {
		v, ok := c.(*viewCursor)
		if !ok {
			return c
		}
		c = v.in
	}
}

// replacingSettings: the same bindings as Env.Settings, installed by one ContextApply that assigns new maps
func (e *Env) replacingSettings(root store.Cursor) []xsel.ContextApply {
	inner := e.Settings(root)
	return []xsel.ContextApply{func(c *xsel.ContextSettings) {
		fresh := xsel.ContextSettings{
			NamespaceDecls:  map[string]string{},
			FunctionLibrary: map[xsel.XmlName]xsel.Function{},
			Variables:       map[xsel.XmlName]xsel.Result{},
		}
		for _, s := range inner {
			s(&fresh)
		}
		c.NamespaceDecls = fresh.NamespaceDecls
		c.FunctionLibrary = fresh.FunctionLibrary
		c.Variables = fresh.Variables
	}}
}

var routeTick int
var routeCounts = map[string]int{}

// alternateRoutes returns "" when every alternate route agrees with the main answer, else a description.
func alternateRoutes(root store.Cursor, start Path, env *Env, g *xsel.Grammar, res xsel.Result, err error) (out string) {
	if allRoutes {
		for k := 0; k < 3; k++ {
			if m := oneRoute(k, root, start, env, g, res, err); m != "" {
				return m
			}
		}
		return ""
	}
	// every third evaluation among the first 9000 of a run, every 33rd after that
	routeTick++
	if routeTick%3 != 0 || routeTick > 9000 && routeTick%33 != 0 {
		return ""
	}
	return oneRoute((routeTick/3)%3, root, start, env, g, res, err)
}

// allRoutes: a replay asks every route
var allRoutes bool

func oneRoute(k int, root store.Cursor, start Path, env *Env, g *xsel.Grammar, res xsel.Result, err error) (out string) {
	defer func() {
		if r := recover(); r != nil {
			out = fmt.Sprintf("alternate route panicked: %v", r)
		}
	}()
	main := projectResult(res, err)
	c := cursorAt(root, start)
	routeCounts[[]string{"ExecAsString/Number/Nodeset", "bindings-by-replacing-the-maps", "caller-implemented-Cursor"}[k]]++
	switch k {
	case 0:
		// the typed entry points
		s, serr := xsel.ExecAsString(c, g, env.Settings(root)...)
		if (serr != nil) != (err != nil) {
			return fmt.Sprintf("ExecAsString error %v, Exec error %v", serr, err)
		}
		if err == nil {
			if s != res.String() {
				return fmt.Sprintf("ExecAsString gives %q, Exec(...).String() %q", s, res.String())
			}
			n, nerr := xsel.ExecAsNumber(c, g, env.Settings(root)...)
			if nerr != nil || math.Float64bits(n) != math.Float64bits(res.Number()) && !(math.IsNaN(n) && math.IsNaN(res.Number())) {
				return fmt.Sprintf("ExecAsNumber gives %v (%v), Exec(...).Number() %v", n, nerr, res.Number())
			}
			ns, nserr := xsel.ExecAsNodeset(c, g, env.Settings(root)...)
			if _, isNS := res.(xsel.NodeSet); isNS != (nserr == nil) {
				return fmt.Sprintf("ExecAsNodeset error %v for a result of type %T", nserr, res)
			}
			if nserr == nil && projectResult(ns, nil) != main {
				return fmt.Sprintf("ExecAsNodeset gives %s, Exec %s", projectResult(ns, nil), main)
			}
		}
	case 1:
		// bindings installed by replacing the maps
		r2, err2 := xsel.Exec(c, g, env.replacingSettings(root)...)
		if p2 := projectResult(r2, err2); p2 != main {
			return fmt.Sprintf("with the bindings installed by a ContextApply that assigns its own maps: %s, with WithNS/WithVariableNS/WithFunctionNS: %s", p2, main)
		}
	case 2:
		// a caller-implemented Cursor
		vroot := view(root)
		r3, err3 := xsel.Exec(cursorAt(vroot, start), g, env.Settings(vroot)...)
		if arenaTouched() {
			return "over a caller-implemented Cursor: the library wrote into the spare capacity of a slice that Children() / Attributes() / Namespaces() returned (the caller's arena)"
		}
		if p3 := projectResult(r3, err3); p3 != main {
			return fmt.Sprintf("over a caller-implemented Cursor (fresh values on every navigation): %s, over the in-memory store: %s", p3, main)
		}
	}
	return ""
}

type routeMismatch struct{ msg string }

func (r routeMismatch) Error() string { return "ROUTE " + r.msg }

func isRoute(err error) (string, bool) {
	if err == nil {
		return "", false
	}
	if strings.HasPrefix(err.Error(), "ROUTE ") {
		return err.Error(), true
	}
	return "", false
}

// ---- aftermath: exceptional events between ordinary evaluations ----
//
// Every so often, BEFORE an ordinary evaluation, the harness makes the library fail in the same process: queries that
// carry bindings and return an error half-way (an unbound variable in a later argument, an unknown function in a
// predicate, a user function that fails on a later context node, a user function that panics after sibling axes were
// walked) and a string-value that panics half-way (a caller-implemented Cursor whose Children() gives out). The
// failures must be reported as errors - and must leave nothing behind: the ordinary evaluation that follows is
// compared with the model like any other.

type poisonCursor struct {
	in   store.Cursor
	fuse *int
}

func (v *poisonCursor) wrap(l []store.Cursor) []store.Cursor {
	out := make([]store.Cursor, len(l))
	for i, c := range l {
		out[i] = &poisonCursor{c, v.fuse}
	}
	return out
}
func (v *poisonCursor) Pos() int                   { return v.in.Pos() }
func (v *poisonCursor) Node() node.Node            { return v.in.Node() }
func (v *poisonCursor) Namespaces() []store.Cursor { return v.wrap(v.in.Namespaces()) }
func (v *poisonCursor) Attributes() []store.Cursor { return v.wrap(v.in.Attributes()) }
func (v *poisonCursor) Parent() store.Cursor {
	if p := v.in.Parent(); p != nil {
		return &poisonCursor{p, v.fuse}
	}
	return nil
}
func (v *poisonCursor) Children() []store.Cursor {
	*v.fuse--
	if *v.fuse <= 0 {
		panic("poisoned cursor: Children() gives out")
	}
	return v.wrap(v.in.Children())
}

var aftermathExprs []*xsel.Grammar
var aftermathTick int
var aftermathCount = map[string]int{}

func aftermath(root store.Cursor) string {
	if allRoutes {
		// a replay (or a case that asks for everything): every exceptional event, each followed by every probe
		for k := 0; k <= 6; k++ {
			for p := range aftermathProbes {
				if m := eventThenProbe(root, k, p); m != "" {
					return m
				}
			}
		}
		return ""
	}
	aftermathTick++
	if aftermathTick%61 != 0 {
		return ""
	}
	n := aftermathTick / 61
	return eventThenProbe(root, n%7, (n/7+n)%len(aftermathProbes))
}

// what a failure leaves behind is seen by the FIRST ordinary evaluation after it (a successful evaluation usually cleans
// up): besides the family's own next query, one of these probes - a different one each time - is evaluated on the
// family's current document right before and right after the event, and must give the same answer both times
var aftermathProbes = []string{
	"//*", "//*/following-sibling::node()", "//*/preceding-sibling::*[1]", "//node()/preceding::*[1]", "string(/)", "concat('x', 'y', string-length(/))",
	"count(//node() | //@*)", "//@*/..", "substring(string(/*), 2, 3)", "//*[last()]/following::node()[1]", "sum(//*[. = number(.)])", "normalize-space(/)",
}
var probeExprs []*xsel.Grammar

func runProbe(root store.Cursor, p int) string {
	defer func() { recover() }()
	if probeExprs == nil {
		for _, t := range aftermathProbes {
			g := xsel.MustBuildExpr(t)
			probeExprs = append(probeExprs, &g)
		}
	}
	r, err := xsel.Exec(root, probeExprs[p])
	return projectResult(r, err)
}

func eventThenProbe(root store.Cursor, k, p int) string {
	before := runProbe(root, p)
	if m := aftermathEvent(root, k); m != "" {
		return m
	}
	if after := runProbe(root, p); after != before {
		return fmt.Sprintf("after exceptional event #%d (a query that failed on ANOTHER document), %s on this document gives %s; before the event it gave %s", k, aftermathProbes[p], after, before)
	}
	return ""
}

// the exceptional events happen on ANOTHER document (what they leave behind - cached node lists, child indexes keyed
// by position, half-written string-values - is then visibly foreign to the query that follows)
var staleRoot store.Cursor

func aftermathEvent(_ store.Cursor, k int) (complaint string) {
	if staleRoot == nil {
		c, err := xsel.ReadXml(strings.NewReader(`<stale xmlns:st="urn:stale" id="s0">abc<item n="1">stale1<k/></item><item n="2">stale2</item><x><item n="3">stale3</item><y/><z>z</z></x><st:w>w</st:w></stale>`))
		if err != nil {
			return "cannot build the stale document: " + err.Error()
		}
		staleRoot = c
	}
	root := staleRoot
	defer func() {
		if r := recover(); r != nil {
			complaint = fmt.Sprintf("a failing query panicked out of Exec: %v", r)
		}
	}()
	if aftermathExprs == nil {
		for _, t := range []string{
			"concat('id-', 'x', $nosuchvariable)",
			"//*[nosuchfunction()]",
			"//node()[flaky()]",
			"//*/preceding-sibling::node()/boom()",
			"/descendant-or-self::node()/following-sibling::*[boom()]",
			"count(//* | //@*) + number(stale:x)",
		} {
			g := xsel.MustBuildExpr(t)
			aftermathExprs = append(aftermathExprs, &g)
		}
	}
	calls := 0
	settings := []xsel.ContextApply{
		xsel.WithNS("stalens", "urn:stale"), xsel.WithNS("p", "urn:stale"),
		xsel.WithVariable("stalevar", xsel.Number(42)), xsel.WithVariable("n", xsel.String("stale")),
		xsel.WithFunction("count", func(c xsel.Context, args ...xsel.Result) (xsel.Result, error) { return xsel.Number(-1), nil }),
		xsel.WithFunction("flaky", func(c xsel.Context, args ...xsel.Result) (xsel.Result, error) {
			calls++
			if calls > 2 {
				return nil, fmt.Errorf("flaky() fails on a later context node")
			}
			return xsel.Bool(true), nil
		}),
		xsel.WithFunction("boom", func(c xsel.Context, args ...xsel.Result) (xsel.Result, error) { panic("boom() panics") }),
	}
	if k < len(aftermathExprs) {
		aftermathCount["failing-query-with-bindings"]++
		res, err := xsel.Exec(root, aftermathExprs[k], settings...)
		// (only #0 and #5 fail on every document: the others need an element, three nodes, a sibling)
		if err == nil && (k == 0 || k == 5) {
			return fmt.Sprintf("failing query #%d returned %s and no error", k, projectResult(res, nil))
		}
		return ""
	}
	// a string-value that panics half-way, over a caller-implemented Cursor
	aftermathCount["string-value-panics-half-way"]++
	fuse := 3
	g := xsel.MustBuildExpr("concat(string(/), string-length(/), number(/*))")
	xsel.Exec(&poisonCursor{root, &fuse}, &g)
	return ""
}

// ---- caller-implemented Result ----
//
// A Result is whatever implements String() / Number() / Bool(): the conversions applied to a bound value or to what a
// custom function returns are the value's OWN methods, not the XPath conversions of its string. callerResult is such a
// value whose three faces are unrelated ("12.5 kg" / 12.5 / false).
type callerResult struct {
	S string
	N float64
	B bool
}

func (c *callerResult) String() string  { return c.S }
func (c *callerResult) Number() float64 { return c.N }
func (c *callerResult) Bool() bool      { return c.B }

// callerResultCases: every expression is evaluated with $c bound to the caller's value (and f() returning it) and
// again with $c bound to the library's own Number / String / Bool of the face that the context asks for; the two
// answers must be the same. Returns a description of the first disagreement.
func callerResultCases(root store.Cursor, which string) string {
	vals := []*callerResult{{"12.5 kg", 12.5, false}, {"3rd", 3, true}, {"", 2, true}, {"0", 7, false}, {"yes", 1, true}, {"NaN", -0.5, false}}
	type ctx struct {
		face string
		expr string
	}
	ctxs := []ctx{
		{"num", "$c + 1"}, {"num", "$c * 2"}, {"num", "7 - $c"}, {"num", "-$c"}, {"num", "$c mod 2"}, {"num", "10 div $c"}, {"num", "floor($c)"}, {"num", "round($c)"}, {"num", "number($c)"},
		{"num", "substring('abcdefgh', $c)"}, {"num", "substring('abcdefgh', 2, $c)"}, {"num", "$c < 4"}, {"num", "f() + 1"}, {"num", "substring('abcdefgh', f())"}, {"num", "sum(/*) + f()"},
		{"str", "string($c)"}, {"str", "concat($c, '|', f())"}, {"str", "string-length($c)"}, {"str", "contains($c, 'k')"}, {"str", "normalize-space($c)"}, {"str", "starts-with($c, '1')"},
		{"str", "translate($c, 'k', 'K')"}, {"str", "$c = 'yes'"},
		{"bool", "boolean($c)"}, {"bool", "not($c)"}, {"bool", "$c and true()"}, {"bool", "$c or false()"}, {"bool", "count(//*[$c])"}, {"bool", "count(//*[f()])"}, {"bool", "$c = true()"},
	}
	for _, cv := range vals {
		for _, cx := range ctxs {
			if which != "all" && which != cx.face {
				continue
			}
			var lib xsel.Result
			switch cx.face {
			case "num":
				lib = xsel.Number(cv.N)
			case "str":
				lib = xsel.String(cv.S)
			default:
				lib = xsel.Bool(cv.B)
			}
			g, err := xsel.BuildExpr(cx.expr)
			if err != nil {
				return "cannot build " + cx.expr
			}
			run := func(v xsel.Result) string {
				defer func() { recover() }()
				r, e := xsel.Exec(root, &g, xsel.WithVariable("c", v), xsel.WithFunction("f", func(xsel.Context, ...xsel.Result) (xsel.Result, error) { return v, nil }))
				return projectResult(r, e)
			}
			callerCount++
			if a, b := run(cv), run(lib); a != b {
				return fmt.Sprintf("%s with $c (and f()) a caller's Result {String %q, Number %v, Bool %v} gives %s; with the library's own value of that face (%v) it gives %s", cx.expr, cv.S, cv.N, cv.B, a, lib, b)
			}
		}
	}
	return ""
}

var callerCount int

// checkCallerResults runs the caller-implemented-Result cases on one document of a family and reports a disagreement
// as a violation of the family's property
func (rn *Runner) checkCallerResults(d *Doc, which string) {
	if m := callerResultCases(d.Root, which); m != "" && !rn.TooMany() {
		rn.Report(&Replay{Family: "caller-implemented-Result", Clause: "a bound value / a function result is converted by its own String(), Number(), Bool()", Kind: "callerresult",
			Events: d.Events, Doc: showEvents(d.Events), Text: which, Impl: m, Model: ""}, m)
	}
}
