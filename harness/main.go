package main

import (
	"encoding/json"
	"flag"
	"fmt"
	"github.com/ChrisTrenkamp/xsel"
	"os"
	"strconv"
	"strings"
)

var families = map[string]func(rn *Runner){}

var rules = map[string]string{}

func main() {
	prop := flag.String("prop", "", "property id")
	tier := flag.String("tier", "quick", "quick|thorough")
	seed := flag.Uint64("seed", 1, "PRNG seed")
	model := flag.String("model", "", "path of the extracted model driver")
	out := flag.String("out", "", "stats JSON to write")
	replays := flag.String("replays", "replays", "directory for replay files")
	replay := flag.String("replay", "", "replay file to re-run")
	flag.StringVar(&cliPath, "cli", "", "path of the freshly built xsel command (C14, C20)")
	flag.Parse()

	if s := os.Getenv("VERIF_SEED"); s != "" && !isFlagSet("seed") {
		if v, err := strconv.ParseUint(s, 10, 64); err == nil {
			*seed = v
		}
	}

	m, err := StartModel(*model)
	if err != nil {
		fmt.Fprintln(os.Stderr, "cannot start model:", err)
		os.Exit(2)
	}
	defer m.Close()

	if *replay != "" {
		os.Exit(doReplay(m, *replay))
	}

	fam, ok := families[*prop]
	if !ok {
		fmt.Fprintln(os.Stderr, "unknown property", *prop)
		os.Exit(2)
	}
	rn := &Runner{
		M: m, R: NewRng(*seed), Seed: *seed, Tier: *tier, Prop: *prop, ReplayDir: *replays, maxMis: 25,
		St: &Stats{Property: *prop, Tier: *tier, Seed: *seed, Dist: map[string]int{}, distinct: map[string]bool{}, Rule: rules[*prop]},
	}
	fam(rn)
	rn.Finish(*out)
	for _, mm := range rn.St.Mismatches {
		fmt.Printf("MISMATCH property=%s family=%s clause=%s replay=%s :: %s\n", mm.Property, mm.Family, mm.Clause, mm.Replay, mm.Summary)
	}
	fmt.Printf("evaluations=%d distinct_nontrivial=%d mismatches=%d\n", rn.St.Evaluations, rn.St.Nontrivial, len(rn.St.Mismatches))
}

func isFlagSet(name string) bool {
	set := false
	flag.Visit(func(f *flag.Flag) {
		if f.Name == name {
			set = true
		}
	})
	return set
}

func doReplay(m *Model, file string) int {
	data, err := os.ReadFile(file)
	if err != nil {
		fmt.Fprintln(os.Stderr, err)
		return 2
	}
	var rp Replay
	if err := json.Unmarshal(data, &rp); err != nil {
		fmt.Fprintln(os.Stderr, err)
		return 2
	}
	rn := &Runner{M: m, R: NewRng(rp.Seed), Seed: rp.Seed, Tier: "quick", Prop: rp.Property, ReplayDir: os.TempDir(), maxMis: 0,
		St: &Stats{Dist: map[string]int{}, distinct: map[string]bool{}}}
	h, ok := replayers[rp.Kind]
	if !ok {
		fmt.Fprintln(os.Stderr, "no replayer for kind", rp.Kind)
		return 2
	}
	impl, model, agreeNow := h(rn, &rp)
	fmt.Printf("property: %s\nfamily: %s\nclause: %s\n", rp.Property, rp.Family, rp.Clause)
	if rp.Text != "" {
		fmt.Printf("xpath: %s\nstart: %s\ndocument: %s\n", rp.Text, rp.Start, rp.Doc)
	}
	fmt.Printf("implementation now: %s\nmodel now:          %s\nrecorded impl:      %s\nrecorded model:     %s\n", impl, model, rp.Impl, rp.Model)
	if agreeNow {
		fmt.Println("AGREE (the recorded disagreement does not reproduce)")
		return 0
	}
	fmt.Println("DISAGREE (reproduces)")
	return 1
}

var replayers = map[string]func(rn *Runner, rp *Replay) (impl, model string, agree bool){
	// the value of /*/@x after ReadXml, against the value XML 1.0 section 3.3.3 prescribes (rp.Model)
	"xmlattr": func(rn *Runner, rp *Replay) (string, string, bool) {
		c, err := xsel.ReadXml(strings.NewReader(rp.Input))
		if err != nil {
			return "E", rp.Model, false
		}
		g := xsel.MustBuildExpr("string(/*/@x)")
		r, _ := xsel.Exec(c, &g)
		got := fmt.Sprintf("%q", r.String())
		return got, rp.Model, got == rp.Model
	},
	"callerresult": func(rn *Runner, rp *Replay) (string, string, bool) {
		d := rn.NewDoc(rp.Events)
		m := callerResultCases(d.Root, rp.Text)
		return m, "", m == ""
	},
	"query": func(rn *Runner, rp *Replay) (string, string, bool) {
		d := rn.NewDoc(rp.Events)
		env := rp.Env
		if env == nil {
			env = &Env{}
		}
		start := parsePath(rp.Start)
		allRoutes = true
		res, err, p := execImpl(d.Root, start, env, rp.Text)
		impl := ""
		if p != nil {
			impl = fmt.Sprintf("PANIC %v", p)
		} else if err != nil && len(err.Error()) > 7 && err.Error()[:7] == "build: " {
			impl = "E build " + err.Error()
		} else {
			impl = projectResult(res, err)
		}
		model := rn.M.Ask(fmt.Sprintf("(q %d %s %s %s)", d.ID, start.Sx(), env.Sx(), rp.ExprSx))
		return impl, model, agree(impl, model)
	},
}
