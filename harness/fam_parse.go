package main

import (
	"fmt"
	"os"
	"strings"

	"github.com/ChrisTrenkamp/xsel"
)

func init() {
	families["C08"] = famC08
	rules["C08"] = "random ASTs over all operators (towers mixing or/and/=/!=/</<=/>/>=/+/-/*/div/mod/unary minus/|), paths with all abbreviations, predicates, filter expressions, calls, variables, literals and numerals, with names containing '-', '.', digits and names that spell axes and node types; " +
		"each rendered with minimal parentheses, with redundant parentheses, with arbitrary legal whitespace and in three canonical forms of Syn/Render.v - steps in full, abbreviated, abbreviated with redundant parentheses everywhere and random runs of space/tab/CR/LF between the tokens, and the same three with NO optional white space (a space only where two tokens would run together) - (which the model parser provably reads back to the AST: Syn/LexThm.v, Syn/LexMin.v): BuildExpr must accept every rendering and the compiled query must evaluate like the AST (the model evaluator on the AST), i.e. identically across renderings; " +
		"the model's own parser must read every rendering back to an AST with the same value (validates the string side of the model); hand-picked token-boundary cases (a-b, a -b, a - b, * * *, a*b, child::child, 4 div 2, //*, /*); " +
		"non-expressions: character- and token-level mutations of valid renderings: accepted/rejected and the value must agree with the model parser (spec), so nothing is accepted with a part ignored; " +
		"disagreements explained by the three lexical restrictions of the generated lexer are the open known finding; 200 repeated BuildExpr of one string must evaluate identically; non-trivial: the expression has >= 2 binary operators of different precedence or an abbreviation; distinct by text"
}

// opTower builds an expression tree over scalar leaves that exercises precedence and associativity.
func (g *ExprGen) opTower(depth int) Expr {
	r := g.R
	if depth <= 0 || r.Chance(1, 5) {
		switch r.Intn(9) {
		case 0:
			return num(g.NumLiteralText())
		case 1:
			return lit(pick(r, []string{"", "a", "1", "x y", "it's", "é", "10", "abc"}))
		case 2:
			return call("count", &EPath{Abs: true, Steps: []*Stp{{Axis: "descendant-or-self", Test: NodeTest{Kind: "node"}, Abbrev: true}, g.Step(0, 0)}})
		case 3:
			if r.Chance(1, 3) {
				// a path continued after a filter expression, with / and with //
				f := &EFilter{E: &EPath{Abs: true, Steps: g.Steps(0, 1, 0)}, Steps: g.Steps(0, 1+r.Intn(2), 0)}
				if r.Bool() {
					f.Steps = append([]*Stp{{Axis: "descendant-or-self", Test: NodeTest{Kind: "node"}, Abbrev: true}}, f.Steps...)
				}
				if r.Bool() {
					f.Preds = []Expr{g.Pred(0)}
				}
				return f
			}
			return &EPath{Abs: r.Bool(), Steps: g.Steps(0, 1+r.Intn(2), 2)}
		case 4:
			return call(pick(r, []string{"true", "false"}))
		case 5:
			return call("string-length", lit(pick(r, []string{"abc", ""})))
		case 6:
			return &EVar{RawQ{Local: pick(r, []string{"n", "s", "x-y", "a.b"})}}
		default:
			return num(pick(r, []string{"1", "2", "3", "0", "10", "0.5", "7"}))
		}
	}
	switch r.Intn(14) {
	case 0:
		return &ENeg{g.opTower(depth - 1)}
	case 1:
		return bin("|", g.NodeSet(1, 2), g.NodeSet(1, 2))
	default:
		op := pick(r, []string{"or", "and", "=", "!=", "<", "<=", ">", ">=", "+", "-", "*", "div", "mod", "+", "-", "*", "and", "or"})
		return bin(op, g.opTower(depth-1), g.opTower(depth-1))
	}
}

var tokenCases = []string{"(/r)//child", "(/*)//child", "(/r)[1]//child", "(/r)/child", "(/r)//a", "(/r)/descendant-or-self::node()/child", "(//a)[2]//child", "(/r)//child/..", "(/r)//@id", "/*/a * 3", "/*/a*3", "/* * 2", "/*/* * /*/*", "/*/a * 3 = 15", "/*//a + 1", "(/*/a) * 3", "/*/a div 2", "/*/a mod 2", "/*/a - 1", "a-b", "a -b", "a - b", "a- b", "* * *", "a*b", "a * b", "child::child", "child::child/child::*", "4 div 2", "4div 2", "//*", "/*", "/ *", "/", "/ | /", "*", ". * .", "..", "../..", ".//.",
	"a.b", "a.b.c", "a-1", "a - 1", "a -1", "n1", "-1", "--1", "- -1", "1 - -1", "text", "text()", "comment", "node", "self", "self::self", "ancestor", "@child", "@*", "attribute::*", "processing-instruction('t')", "processing-instruction()",
	"p:a", "p:*", "*:a", "child::p:a", "$n", "$n+1", "$x-y", "$n -1", "$n - 1", "1+2*3", "1*2+3", "(1+2)*3", "8 div 4 div 2", "7 mod 4 mod 2", "1 - 2 - 3", "1 < 2 < 3", "1 = 1 = 1", "1 != 2 = 3", "3 > 2 > 1", "1 or 0 and 0", "not(1) or 1",
	"1 | 2", "//a | //b | //c", "(//a)[1]", "(//a)[last()]/..", "//a[1][1]", "//a[position() = last()]", "count(//a)", "count( //a )", "count(//a,//b)", "concat('a','b','c')", "string()", "string(  )", "f()", "p:f(1)", "last ( )",
	"child :: a", "a / b", "a // b", "a [ 1 ]", "@ id", "( 1 )", "((1))", "(((//a)))", "1 +", "+1", "1 1", "a b", "//", "///a", "a//", "a/", "[1]", "a[]", "a[1", "a]", "(1", "1)", "count(", "count(1,)", "$", "$ n", "'abc", "\"abc", "!", "1 ! = 2", "a::b", "child::", "::a", "@", "@@a", "a@b",
	"1.5", ".5", "5.", "1.5.2", "1..2", "1e3", "0x10", "a:b:c", "p:", ":a", "*:*", "p:*:a", "#obj", "#arr/*", "a#", "//#obj/a", "é", "//é/@é", "a b", "1 div", "div", "mod", "and", "or", "//div", "a div b", "div div div", "and and and", "_a", "//_a", "a_b",
	"child:self", "child:child", "self:child", "self:self", "text:text", "text:self", "child:text", "text:child", "child::child:self", "self::child:self", "child::text:self", "child:*", "text:*", "child:self | text:self", "child:self + 1", "child:a", "p:self", "p:child", "q:text", "child:div", "@child:self",
	"string-length('a b')", "string-length('a  b')", "string-length('a\tb')", "string-length( 'a b' )", "concat('x  y', '|', 'x y')", "concat('x y', '|', 'x  y')", "'  ' = ' '", "\"a\nb\" = 'a b'",
	// literals whose content begins or ends with the OTHER kind of quote: the value is everything between the delimiters
	// XPath has no escapes: a backslash in a literal is a backslash (the generated lexer has its own idea of escapes - open
	// finding C08-lexical-restrictions - so no case here has a backslash before a quote, or in a double-quoted literal before
	// anything but \\ " n r t)
	"'C:\\temp\\new'", "string-length('a\\tb')", "'a\\\\b'", "'a\\nb' = 'a\\nb'", "translate('\\t', 't', '/')", "string-length(\"\\r\\n\")",
	"\"'\"", "'\"'", "\"''\"", "string-length(\"'\")", "string-length('\"\"')", "concat(\"'\", 'x', \"'\")", "\"'x\"", "'x\"'", "\"it's'\" = \"it's\"", "string-length(\"'a'\")", "'\"' = \"'\"", "translate(\"'a'\", \"'\", '\"')"}

func famC08(rn *Runner) {
	ndocs := rn.Scale(6, 40)
	for di := 0; di < ndocs && !rn.TooMany(); di++ {
		d := rn.genDoc(rn.Scale(35, 90))
		env := stdEnv()
		env.Vars = append(env.Vars, VarBind{"", "n", VarVal{Kind: "num", Num: 3}}, VarBind{"", "s", VarVal{Kind: "str", Str: "str"}},
			VarBind{"", "x-y", VarVal{Kind: "num", Num: 7}}, VarBind{"", "a.b", VarVal{Kind: "bool", B: true}}, VarBind{"", "x", VarVal{Kind: "num", Num: 10}}, VarBind{"", "y", VarVal{Kind: "num", Num: 4}})
		env.Funs = append(env.Funs, FunBind{"", "f", UFun{Kind: "argcount"}}, FunBind{"urn:u1", "f", UFun{Kind: "ctxpos"}})
		g := NewExprGen(rn.R.Fork(), d, env)
		g.Locals = append(g.Locals, "a-b", "a.b", "n1", "child", "descendant", "ancestor", "node", "comment", "text", "self", "parent", "attribute", "namespace", "following", "preceding", "processing-instruction", "x-1")
		r := rn.R.Fork()
		check := func(text, family string, e Expr, nontrivial bool) string {
			// implementation on the text
			start := Path{}
			impl := (&QCase{Doc: d, Start: start, Env: env, Text: text}).RunImpl()
			if strings.HasPrefix(impl, "E") && !strings.HasPrefix(impl, "E panic") {
				impl = "E"
			}
			// the model's parser on the text, then its evaluator
			pqCmd := fmt.Sprintf("(pq %d (p) %s 0 %s)", d.ID, env.Sx(), sxStr(text))
			spec := rn.M.Ask(pqCmd)
			if strings.HasPrefix(spec, "E") {
				spec = "E"
			}
			if len(rn.CoqCases) < 400 && rn.St.Evaluations%11 == 0 {
				// for the vm_compute cross-check of the extracted parser + evaluator
				rn.CoqCases = append(rn.CoqCases, sxEvents(d.Events)+"\t"+pqCmd+"\t"+spec)
			}
			rn.Eval(family+"|"+text+"|"+fmt.Sprint(d.ID), nontrivial)
			rn.Count("family:" + family)
			if spec == "E" {
				rn.Count("verdict:" + family + ":rejected")
			} else {
				rn.Count("verdict:" + family + ":accepted")
			}
			if e != nil {
				// the AST the text was rendered from
				ast := rn.M.Ask((&QCase{Doc: d, Start: start, Env: env, E: e}).ModelCmd())
				if strings.HasPrefix(ast, "E") {
					ast = "E"
				}
				if !agree(spec, ast) && !(spec == "E" && ast == "E") {
					rn.Report(&Replay{Family: family + "-model", Clause: "the model parser reads a rendering back to its AST", Kind: "parse", Events: d.Events, Doc: showEvents(d.Events), Env: env, Text: text, ExprSx: SxExpr(e), Impl: spec, Model: ast},
						fmt.Sprintf("MODEL INCONSISTENCY: %q parses to a tree evaluating to %s, the generating AST evaluates to %s", text, spec, ast))
					return impl
				}
			}
			if agree(impl, spec) || (impl == "E" && spec == "E") {
				return impl
			}
			asis := rn.M.Ask(fmt.Sprintf("(pq %d (p) %s 1 %s)", d.ID, env.Sx(), sxStr(text)))
			anyReading := false
			for _, alt := range strings.Split(asis, " || ") {
				if strings.HasPrefix(alt, "E") {
					alt = "E"
				}
				if agree(impl, alt) || (impl == "E" && alt == "E") {
					anyReading = true
				}
			}
			if anyReading {
				if rn.St.Known == nil {
					rn.St.Known = map[string]int{}
				}
				rn.St.Known["C08-lexical-restrictions"]++
				return impl
			}
			if !rn.TooMany() {
				sx := ""
				if e != nil {
					sx = SxExpr(e)
				}
				rn.Report(&Replay{Family: family, Clause: "BuildExpr accepts exactly the expressions and the query evaluates as the grammar structures it", Kind: "parse", Events: d.Events, Doc: showEvents(d.Events), Env: env, Text: text, ExprSx: sx, Impl: impl, Model: spec},
					fmt.Sprintf("%q: implementation %s, model parser + evaluator %s", text, impl, spec))
			}
			return impl
		}
		if di == 0 {
			// a fixed document on which the readings of the token-boundary cases differ in value
			keep := d
			d = rn.NewDoc([]Event{{Kind: EvStart, B: "r"}, {Kind: EvStart, B: "a"}, {Kind: EvAttr, B: "id", C: "1"}, {Kind: EvText, A: "5"}, {Kind: EvEnd},
				{Kind: EvStart, B: "a"}, {Kind: EvText, A: "7"}, {Kind: EvStart, B: "child"}, {Kind: EvText, A: "3"}, {Kind: EvEnd}, {Kind: EvEnd},
				{Kind: EvStart, B: "b"}, {Kind: EvText, A: "2"}, {Kind: EvEnd}, {Kind: EvStart, B: "a-b"}, {Kind: EvText, A: "4"}, {Kind: EvEnd},
				{Kind: EvStart, A: "urn:u1", B: "a"}, {Kind: EvText, A: "9"}, {Kind: EvEnd}, {Kind: EvStart, B: "text"}, {Kind: EvEnd},
				// names made of reserved words, in the namespaces the prefixes child/self (urn:u1) and text (urn:u2) are bound to
				{Kind: EvStart, A: "urn:u1", B: "self"}, {Kind: EvText, A: "11"}, {Kind: EvEnd}, {Kind: EvStart, A: "urn:u1", B: "child"}, {Kind: EvText, A: "12"}, {Kind: EvEnd},
				{Kind: EvStart, A: "urn:u2", B: "text"}, {Kind: EvText, A: "13"}, {Kind: EvEnd}, {Kind: EvStart, A: "urn:u1", B: "text"}, {Kind: EvText, A: "14"}, {Kind: EvEnd},
				{Kind: EvStart, A: "urn:u2", B: "self"}, {Kind: EvText, A: "15"}, {Kind: EvEnd}, {Kind: EvEnd}})
			for _, t := range tokenCases {
				check(t, "token-boundaries", nil, true)
				for _, ctx := range []string{"/r/", "count(", "/r[", "2 + "} {
					// the same case as a sub-expression
					closer := map[string]string{"/r/": "", "count(": ")", "/r[": "]", "2 + ": ""}[ctx]
					check(ctx+t+closer, "token-boundaries", nil, true)
				}
			}
			rn.DropDoc(d)
			d = keep
		}
		n := rn.Scale(300, 1200)
		for i := 0; i < n && !rn.TooMany(); i++ {
			var e Expr
			switch r.Intn(4) {
			case 0:
				e = g.NodeSet(2, 4)
			default:
				e = g.opTower(2 + r.Intn(3))
			}
			minimal := Render(e, RenderOpts{})
			nontrivial := strings.Count(SxExpr(e), "(ar ")+strings.Count(SxExpr(e), "(cmp ")+strings.Count(SxExpr(e), "(or ")+strings.Count(SxExpr(e), "(and ") >= 2 || strings.Contains(minimal, "//") || strings.Contains(minimal, "@")
			if i < 3 && di == 0 {
				rn.Sample(minimal)
			}
			r0 := check(minimal, "minimal-parentheses", e, nontrivial)
			variants := []string{Render(e, RenderOpts{R: r, ExtraParen: true}), Render(e, RenderOpts{R: r, ExtraWS: true}), Render(e, RenderOpts{R: r, ExtraWS: true, ExtraParen: true}), Render(e, RenderOpts{NoAbbrev: true})}
			fams := []string{"redundant-parentheses", "arbitrary-whitespace", "parentheses-and-whitespace", "expanded-abbreviations"}
			for k, v := range variants {
				if v == minimal {
					continue
				}
				rv := check(v, fams[k], e, nontrivial)
				if rv != r0 && !(strings.HasPrefix(rv, "L") && strings.HasPrefix(r0, "L") && agree(rv, r0)) && !rn.TooMany() {
					rn.Report(&Replay{Family: fams[k], Clause: "all renderings of one AST evaluate identically", Kind: "parse", Events: d.Events, Doc: showEvents(d.Events), Env: env, Text: v, ExprSx: SxExpr(e), Impl: rv, Model: r0, Note: "minimal rendering: " + minimal},
						fmt.Sprintf("%q evaluates to %s but %q (the same AST) to %s", v, rv, minimal, r0))
				}
			}
			// the canonical renderings of Syn/Render.v (steps in full / abbreviated), which Syn/LexThm.v proves the
			// model parser reads back to this AST
			for _, ab := range []string{"0", "1", "2", "3", "4", "5"} {
				fam := map[string]string{"0": "canonical-rendering", "1": "canonical-abbreviated", "2": "canonical-redundant-parentheses",
					"3": "canonical-abbreviated-no-optional-whitespace", "4": "canonical-rendering-no-optional-whitespace", "5": "canonical-redundant-parentheses-no-optional-whitespace"}[ab]
				can := rn.M.Ask("(render " + ab + " " + SxExpr(e) + ")")
				if len(rn.CoqCases) < 400 && i%9 == 0 {
					rn.CoqCases = append(rn.CoqCases, "()\t(render "+ab+" "+SxExpr(e)+")\t"+can)
				}
				if strings.HasPrefix(can, "S ") {
					text := decodeStr(can)
					if ab == "2" || ab == "5" {
						text = respace(r, text) // the white-space theorems: any non-empty run of space/tab/CR/LF where there is a space
					}
					rc := check(text, fam, e, nontrivial)
					if rc != r0 && !(strings.HasPrefix(rc, "L") && strings.HasPrefix(r0, "L") && agree(rc, r0)) && !rn.TooMany() {
						rn.Report(&Replay{Family: fam, Clause: "all renderings of one AST evaluate identically", Kind: "parse", Events: d.Events, Doc: showEvents(d.Events), Env: env, Text: text, ExprSx: SxExpr(e), Impl: rc, Model: r0, Note: "minimal rendering: " + minimal},
							fmt.Sprintf("%q evaluates to %s but %q (the same AST) to %s", text, rc, minimal, r0))
					}
				} else {
					rn.Count(fam + ":none (" + can + ")")
				}
			}
			// non-expressions: mutations of a valid rendering
			for k := 0; k < 3; k++ {
				m := mutateExpr(r, minimal)
				if m != minimal {
					check(m, "mutated", nil, true)
				}
			}
		}
		// BuildExpr of the same string many times (the GLL bookkeeping iterates Go maps)
		for k := 0; k < rn.Scale(3, 10); k++ {
			e := g.opTower(3)
			text := Render(e, RenderOpts{})
			first := ""
			for j := 0; j < 200; j++ {
				gr, err := xsel.BuildExpr(text)
				out := "E"
				if err == nil {
					res, xerr := xsel.Exec(d.Root, &gr, env.Settings(d.Root)...)
					out = projectResult(res, xerr)
				}
				if j == 0 {
					first = out
				} else if out != first {
					rn.Report(&Replay{Family: "repeated-build", Clause: "BuildExpr of the same string always yields an equivalent query", Kind: "parse", Events: d.Events, Doc: showEvents(d.Events), Env: env, Text: text, ExprSx: SxExpr(e), Impl: out, Model: first},
						fmt.Sprintf("BuildExpr(%q) #%d evaluates to %s, #0 to %s", text, j, out, first))
					break
				}
			}
			rn.Eval("repeat|"+text, true)
		}
		rn.DropDoc(d)
	}
}

func mutateExpr(r *Rng, s string) string {
	b := []rune(s)
	if len(b) == 0 {
		return "("
	}
	p := r.Intn(len(b))
	ins := []string{"(", ")", "[", "]", "/", "//", "'", "\"", "::", "@", "*", "|", "$", ":", " div ", " and ", " or ", " mod ", "<", ">", "=", "!=", ",", ".", "..", "-", "+", " ", "1", "a", "1.", "_", "5"}
	switch r.Intn(6) {
	case 0:
		return string(b[:p]) + string(b[p+1:])
	case 1, 2:
		return string(b[:p]) + pick(r, ins) + string(b[p:])
	case 3:
		return string(b[:p])
	case 4:
		q := r.Intn(len(b))
		b[p], b[q] = b[q], b[p]
		return string(b)
	default:
		return string(b[:p]) + pick(r, ins) + string(b[p+1:])
	}
}

func init() {
	replayers["parse"] = func(rn *Runner, rp *Replay) (string, string, bool) {
		d := rn.NewDoc(rp.Events)
		env := rp.Env
		if env == nil {
			env = &Env{}
		}
		impl := (&QCase{Doc: d, Start: Path{}, Env: env, Text: rp.Text}).RunImpl()
		if strings.HasPrefix(impl, "E") && !strings.HasPrefix(impl, "E panic") {
			impl = "E"
		}
		spec := rn.M.Ask(fmt.Sprintf("(pq %d (p) %s 0 %s)", d.ID, env.Sx(), sxStr(rp.Text)))
		if strings.HasPrefix(spec, "E") {
			spec = "E"
		}
		if os.Getenv("XVH_SHOW_ASIS") != "" {
			fmt.Println("as-is model:", rn.M.Ask(fmt.Sprintf("(pq %d (p) %s 1 %s)", d.ID, env.Sx(), sxStr(rp.Text))))
		}
		return impl, spec, agree(impl, spec) || (impl == "E" && spec == "E")
	}
}

// respace replaces the single space after each token of a canonical text (outside string literals) by a random
// non-empty run of XML white space
func respace(r *Rng, s string) string {
	var b strings.Builder
	var quote rune
	for _, c := range s {
		switch {
		case quote != 0:
			b.WriteRune(c)
			if c == quote {
				quote = 0
			}
		case c == '"' || c == '\'':
			quote = c
			b.WriteRune(c)
		case c == ' ':
			for k := 1 + r.Intn(3); k > 0; k-- {
				b.WriteString(pick(r, []string{" ", "\t", "\n", "\r", " "}))
			}
		default:
			b.WriteRune(c)
		}
	}
	return b.String()
}
