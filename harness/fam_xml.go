package main

import (
	"bytes"
	"encoding/xml"
	"fmt"
	"io"
	"strings"

	"github.com/ChrisTrenkamp/xsel"
	"golang.org/x/net/html/charset"
)

func init() {
	families["C09"] = famC09
	rules["C09"] = "abstract namespace-conformant documents (prefixes p/q/r/ns1, default namespace declared / re-declared / undeclared with xmlns=\"\", the xml prefix declared explicitly, prefixed and unprefixed attributes, mixed content, comments, PIs, prolog and epilog; one document in a hundred nested 130-520 deep with white-space-only text at the depths around multiples of 64) " +
		"serialised with random choices (attribute order and quoting, text as plain text / CDATA sections / character and entity references in several pieces, CR LF line ends, self-closing tags, XML declaration, DOCTYPE, white space between prolog items, " +
		"encodings UTF-8 / ISO-8859-1 / windows-1252 / US-ASCII); (a) xsel.ReadXml tree vs the XPath data model computed by the model from the ABSTRACT document, (b) vs the adapter model run on the token stream recorded from encoding/xml on the same bytes, " +
		"(c) malformed texts (truncation, deleted/inserted bytes, mismatched end tags, undefined entities, invalid characters, invalid UTF-8): must be an error exactly when the recorded stream ends in a decoder error, never a tree with a nil error; " +
		"non-trivial: the document has a namespace declaration or mixed text pieces and >= 3 elements; distinct by bytes"
	// the abstract document (expr_sx) against the implementation on the given bytes
	replayers["xmlspec"] = func(rn *Runner, rp *Replay) (string, string, bool) {
		impl := readXmlImpl([]byte(rp.Input))
		spec := rn.M.Ask(fmt.Sprintf("(xmlspec (%s))", rp.ExprSx))
		return impl, spec, impl == spec
	}
	replayers["xml"] = func(rn *Runner, rp *Replay) (string, string, bool) {
		impl, model := xmlCase(rn, []byte(rp.Input))
		return impl, model, impl == model
	}
}

type XRaw struct {
	Decl         bool
	Prefix, URI  string // declaration
	APrefix      string // attribute as written
	Space, Local string // attribute, expanded
	Value        string
}

type XPiece struct {
	Mode string // plain cdata ref
	Text string // the characters it contributes (after line-end normalisation)
	Src  string // how it is written
}

type XItem struct {
	Kind        string // e t c p decl dir ws
	Prefix      string
	Space       string
	Local       string
	Raw         []XRaw
	Kids        []*XItem
	Pieces      []XPiece
	Text        string // comment / PI data / decl pseudo-attributes
	Target      string
	SelfClosing bool
}

type xmlGen struct {
	r      *Rng
	budget int
	latin  bool // only characters below U+0100 (8-bit encodings)
	ascii  bool
	deep   int // when > 0: a chain of elements down to this depth
}

var xmlLocals = []string{"a", "b", "c", "item", "x-y", "a.b", "_u", "é", "data", "B", "n1"}
var xmlURIs = []string{"urn:u1", "urn:u2", "http://example.com/ns", "urn:x"}
var xmlPrefixes = []string{"p", "q", "r", "ns1"}

func (g *xmlGen) chars() []string {
	base := []string{"a", "b", "xyz", " ", "1", "42", "-", "3.5", "hello world", "<", "&", ">", "\"", "'", "]]", "tab\there", "line\nbreak", "  ", "é", "ü", "ÿ", "x=y", ";"}
	if g.ascii {
		return base[:20]
	}
	if !g.latin {
		base = append(base, "日本", "\U0001F600", "€", "ǅ", "é̂")
	}
	return base
}

func escText(s string) string {
	s = strings.ReplaceAll(s, "&", "&amp;")
	s = strings.ReplaceAll(s, "<", "&lt;")
	s = strings.ReplaceAll(s, ">", "&gt;") // keeps "]]>" out of plain text
	return s
}

func (g *xmlGen) piece() XPiece {
	r := g.r
	t := pick(r, g.chars())
	switch r.Intn(6) {
	case 0:
		if !strings.Contains(t, "]]") {
			return XPiece{Mode: "cdata", Text: t, Src: "<![CDATA[" + t + "]]>"}
		}
	case 1:
		// numeric / named references
		var b strings.Builder
		for _, c := range t {
			switch {
			case c == '<' && r.Bool():
				b.WriteString("&lt;")
			case c == '&' && r.Bool():
				b.WriteString("&amp;")
			case c == '"' && r.Bool():
				b.WriteString("&quot;")
			case c == '\'' && r.Bool():
				b.WriteString("&apos;")
			case r.Bool():
				fmt.Fprintf(&b, "&#x%X;", c)
			default:
				fmt.Fprintf(&b, "&#%d;", c)
			}
		}
		return XPiece{Mode: "ref", Text: t, Src: b.String()}
	case 2:
		// a line end written CR LF or CR: normalised to LF by the XML processor
		return XPiece{Mode: "plain", Text: "x\ny", Src: pick(r, []string{"x\r\ny", "x\ry", "x\ny"})}
	case 3:
		// a carriage return written as a reference survives
		return XPiece{Mode: "ref", Text: "\r", Src: "&#13;"}
	case 4:
		// an EMPTY CDATA section: no characters (on its own it is no text node at all)
		if r.Chance(1, 2) {
			return XPiece{Mode: "cdata", Text: "", Src: "<![CDATA[]]>"}
		}
	}
	return XPiece{Mode: "plain", Text: t, Src: escText(t)}
}

func (g *xmlGen) text() *XItem {
	it := &XItem{Kind: "t"}
	for n := 1 + g.r.Intn(3); n > 0; n-- {
		it.Pieces = append(it.Pieces, g.piece())
	}
	return it
}

func (g *xmlGen) comment() *XItem {
	return &XItem{Kind: "c", Text: pick(g.r, []string{"", " c ", "x", "a - b", "<b>&amp;", "note"})}
}

func (g *xmlGen) pi() *XItem {
	return &XItem{Kind: "p", Target: pick(g.r, []string{"t", "php", "xml-stylesheet", "Xml2"}), Text: pick(g.r, []string{"", "x", "href=\"a.css\" type='text/css'", "echo 1; ", "a?b"})}
}

func attrVal(g *xmlGen) string {
	// (tab, LF, CR in a value are written as character references - see escAttr -, which must SURVIVE: only literal
	// white space is normalised by an XML processor)
	return pick(g.r, []string{"", "1", "v", "a b", "x&y", "<tag>", "it's", "say \"hi\"", "é", "007", " pad ", "a\tb", "x\ny", "\r", " \n "})
}

func (g *xmlGen) elem(scope map[string]string, depth int) *XItem {
	r := g.r
	g.budget--
	it := &XItem{Kind: "e"}
	sc := map[string]string{}
	for k, v := range scope {
		sc[k] = v
	}
	declared := map[string]bool{}
	if r.Chance(2, 5) {
		for n := 1 + r.Intn(2); n > 0; n-- {
			p := pick(r, xmlPrefixes)
			if declared[p] {
				continue
			}
			declared[p] = true
			u := pick(r, xmlURIs)
			sc[p] = u
			it.Raw = append(it.Raw, XRaw{Decl: true, Prefix: p, URI: u})
		}
	}
	if r.Chance(1, 10) {
		// the xml prefix may be declared explicitly (with its fixed URI); it is in scope everywhere anyway
		it.Raw = append(it.Raw, XRaw{Decl: true, Prefix: "xml", URI: xmlNS})
	}
	if r.Chance(1, 4) {
		u := pick(r, xmlURIs)
		if _, has := sc[""]; (has && r.Chance(1, 2)) || (!has && r.Chance(1, 6)) {
			u = "" // xmlns="" undeclares the default namespace (and is legal, and means nothing, where there is none)
		}
		if u == "" {
			delete(sc, "")
		} else {
			sc[""] = u
		}
		it.Raw = append(it.Raw, XRaw{Decl: true, Prefix: "", URI: u})
	}
	// the element's name
	var prefixes []string
	for p := range sc {
		if p != "" {
			prefixes = append(prefixes, p)
		}
	}
	sortStrings(prefixes)
	if len(prefixes) > 0 && r.Chance(1, 3) {
		it.Prefix = pick(r, prefixes)
		it.Space = sc[it.Prefix]
	} else {
		it.Space = sc[""]
	}
	it.Local = pick(r, xmlLocals)
	if (g.ascii || g.latin) && it.Local == "é" && g.ascii {
		it.Local = "e"
	}
	// attributes: distinct qualified AND expanded names
	seenQ, seenX := map[string]bool{}, map[string]bool{}
	for n := r.Intn(4); n > 0; n-- {
		a := XRaw{Local: pick(r, []string{"id", "n", "class", "a", "b"}), Value: attrVal(g)}
		if len(prefixes) > 0 && r.Chance(1, 3) {
			a.APrefix = pick(r, prefixes)
			a.Space = sc[a.APrefix]
		}
		if r.Chance(1, 8) {
			a.APrefix, a.Space, a.Local, a.Value = "xml", xmlNS, "lang", pick(r, []string{"en", "de-CH", ""})
		}
		if g.ascii {
			a.Value = strings.Map(func(c rune) rune {
				if c > 127 {
					return 'e'
				}
				return c
			}, a.Value)
		}
		q, x := a.APrefix+":"+a.Local, a.Space+"|"+a.Local
		if seenQ[q] || seenX[x] {
			continue
		}
		seenQ[q], seenX[x] = true, true
		it.Raw = append(it.Raw, a)
	}
	// attribute order is a serialisation choice
	for i := len(it.Raw) - 1; i > 0; i-- {
		j := r.Intn(i + 1)
		it.Raw[i], it.Raw[j] = it.Raw[j], it.Raw[i]
	}
	if depth < 5 {
		lastText := false
		for n := r.Intn(5); n > 0 && g.budget > 0; n-- {
			switch k := r.Intn(10); {
			case k < 5:
				it.Kids = append(it.Kids, g.elem(sc, depth+1))
				lastText = false
			case k < 8:
				if !lastText {
					it.Kids = append(it.Kids, g.text())
					lastText = true
				}
			case k == 8:
				it.Kids = append(it.Kids, g.comment())
				lastText = false
			default:
				it.Kids = append(it.Kids, g.pi())
				lastText = false
			}
		}
	}
	it.SelfClosing = len(it.Kids) == 0 && r.Bool()
	return it
}

func sortStrings(a []string) {
	for i := 1; i < len(a); i++ {
		for j := i; j > 0 && a[j] < a[j-1]; j-- {
			a[j], a[j-1] = a[j-1], a[j]
		}
	}
}

func (g *xmlGen) ws() *XItem {
	return &XItem{Kind: "t", Pieces: []XPiece{{Mode: "plain", Text: "\n", Src: pick(g.r, []string{"\n", " ", "\n  ", "\t\n", "\r\n"})}}}
}

func (g *xmlGen) doc(enc string) []*XItem {
	r := g.r
	var items []*XItem
	if enc != "" || r.Chance(1, 2) {
		d := `version="1.0"`
		if enc != "" {
			d += ` encoding="` + enc + `"`
		}
		if r.Chance(1, 4) {
			d += ` standalone="yes"`
		}
		items = append(items, &XItem{Kind: "decl", Text: d})
	}
	misc := func() {
		for r.Chance(1, 3) {
			switch r.Intn(3) {
			case 0:
				items = append(items, g.comment())
			case 1:
				items = append(items, g.pi())
			default:
				if len(items) == 0 || items[len(items)-1].Kind != "t" {
					items = append(items, g.ws())
				}
			}
		}
	}
	if len(items) > 0 && r.Chance(1, 2) {
		items = append(items, g.ws())
	}
	misc()
	if r.Chance(1, 4) {
		items = append(items, &XItem{Kind: "dir", Text: pick(r, []string{"DOCTYPE r", "DOCTYPE r SYSTEM \"r.dtd\"", "DOCTYPE r [<!ELEMENT r ANY>]"})})
		if r.Chance(1, 2) {
			items = append(items, g.ws())
		}
		misc()
	}
	root := g.elem(map[string]string{}, 1)
	if g.deep > 0 {
		// a chain nested far deeper than any small counter, white-space-only text around the powers of two
		cur := root
		cur.SelfClosing = false
		dflt := ""
		for _, a := range root.Raw {
			if a.Decl && a.Prefix == "" {
				dflt = a.URI
			}
		}
		for lvl := 2; lvl <= g.deep; lvl++ {
			kid := &XItem{Kind: "e", Local: pick(r, []string{"a", "b", "c"}), Space: dflt}
			if lvl%64 >= 62 || lvl%64 <= 2 {
				sp := pick(r, []string{" ", "\n", "  "})
				if n := len(cur.Kids); n > 0 && cur.Kids[n-1].Kind == "t" {
					cur.Kids[n-1].Pieces = append(cur.Kids[n-1].Pieces, XPiece{Mode: "plain", Text: sp, Src: sp})
				} else {
					cur.Kids = append(cur.Kids, &XItem{Kind: "t", Pieces: []XPiece{{Mode: "plain", Text: sp, Src: sp}}})
				}
			}
			cur.Kids = append(cur.Kids, kid)
			cur = kid
		}
		cur.Kids = append(cur.Kids, &XItem{Kind: "t", Pieces: []XPiece{{Mode: "plain", Text: " ", Src: " "}}})
	}
	items = append(items, root)
	misc()
	// a byte order mark in front of everything (UTF-8 only): not part of the document
	if enc == "" && len(items) > 0 && items[0].Kind != "t" && r.Chance(1, 4) {
		items = append([]*XItem{{Kind: "t", Pieces: []XPiece{{Mode: "plain", Text: "\ufeff", Src: "\ufeff"}}}}, items...)
	}
	return items
}

func escAttr(s string, q byte) string {
	s = strings.ReplaceAll(s, "&", "&amp;")
	s = strings.ReplaceAll(s, "<", "&lt;")
	s = strings.ReplaceAll(s, "\t", "&#9;")
	s = strings.ReplaceAll(s, "\n", "&#10;")
	s = strings.ReplaceAll(s, "\r", "&#13;")
	if q == '"' {
		s = strings.ReplaceAll(s, "\"", "&quot;")
	} else {
		s = strings.ReplaceAll(s, "'", "&apos;")
	}
	return s
}

func (it *XItem) render(r *Rng, b *strings.Builder) {
	switch it.Kind {
	case "e":
		name := it.Local
		if it.Prefix != "" {
			name = it.Prefix + ":" + it.Local
		}
		b.WriteString("<" + name)
		for _, a := range it.Raw {
			q := byte('"')
			if r.Chance(1, 3) {
				q = '\''
			}
			b.WriteString(pick(r, []string{" ", " ", "\n  ", "  "}))
			switch {
			case a.Decl && a.Prefix == "":
				fmt.Fprintf(b, "xmlns=%c%s%c", q, escAttr(a.URI, q), q)
			case a.Decl:
				fmt.Fprintf(b, "xmlns:%s=%c%s%c", a.Prefix, q, escAttr(a.URI, q), q)
			case a.APrefix != "":
				fmt.Fprintf(b, "%s:%s=%c%s%c", a.APrefix, a.Local, q, escAttr(a.Value, q), q)
			default:
				fmt.Fprintf(b, "%s%s=%s%c%s%c", a.Local, pick(r, []string{"", " "}), pick(r, []string{"", " "}), q, escAttr(a.Value, q), q)
			}
		}
		if it.SelfClosing {
			b.WriteString(pick(r, []string{"/>", " />"}))
			return
		}
		b.WriteString(">")
		for _, k := range it.Kids {
			k.render(r, b)
		}
		b.WriteString("</" + name + pick(r, []string{"", " "}) + ">")
	case "t":
		for _, p := range it.Pieces {
			b.WriteString(p.Src)
		}
	case "c":
		b.WriteString("<!--" + it.Text + "-->")
	case "p":
		if it.Text == "" {
			b.WriteString("<?" + it.Target + "?>")
		} else {
			b.WriteString("<?" + it.Target + " " + it.Text + "?>")
		}
	case "decl":
		b.WriteString("<?xml " + it.Text + "?>")
	case "dir":
		b.WriteString("<!" + it.Text + ">")
	}
}

func (it *XItem) Sx() string {
	switch it.Kind {
	case "e":
		var raws, kids []string
		for _, a := range it.Raw {
			if a.Decl {
				raws = append(raws, fmt.Sprintf("(d %s %s)", sxStr(a.Prefix), sxStr(a.URI)))
			} else {
				raws = append(raws, fmt.Sprintf("(a %s %s %s)", sxStr(a.Space), sxStr(a.Local), sxStr(a.Value)))
			}
		}
		for _, k := range it.Kids {
			kids = append(kids, k.Sx())
		}
		return fmt.Sprintf("(e %s %s (%s) (%s))", sxStr(it.Space), sxStr(it.Local), strings.Join(raws, " "), strings.Join(kids, " "))
	case "t":
		var ps []string
		for _, p := range it.Pieces {
			ps = append(ps, sxStr(p.Text))
		}
		return "(t (" + strings.Join(ps, " ") + "))"
	case "c":
		return "(c " + sxStr(it.Text) + ")"
	case "p":
		return fmt.Sprintf("(p %s %s)", sxStr(it.Target), sxStr(it.Text))
	case "decl":
		return "(decl " + sxStr(it.Text) + ")"
	}
	return "dir"
}

func encodeBytes(text, enc string) ([]byte, bool) {
	switch enc {
	case "", "UTF-8", "utf-8":
		return []byte(text), true
	case "US-ASCII":
		for _, c := range text {
			if c > 127 {
				return nil, false
			}
		}
		return []byte(text), true
	}
	var out []byte
	for _, c := range text {
		switch {
		case c < 0x80 || (c >= 0xA0 && c <= 0xFF):
			out = append(out, byte(c))
		case enc == "windows-1252" && c == '€':
			out = append(out, 0x80)
		case enc == "ISO-8859-1" && c >= 0x80 && c < 0xA0:
			out = append(out, byte(c))
		default:
			return nil, false
		}
	}
	return out, true
}

func recordXmlTokens(data []byte) (toks []string, final string) {
	dec := xml.NewDecoder(bytes.NewReader(data))
	dec.CharsetReader = charset.NewReaderLabel
	for {
		tok, err := dec.Token()
		if err == io.EOF {
			return toks, "eof"
		}
		if err != nil {
			return toks, "err"
		}
		switch t := tok.(type) {
		case xml.StartElement:
			var as []string
			for _, a := range t.Attr {
				as = append(as, fmt.Sprintf("(%s %s %s)", sxStr(a.Name.Space), sxStr(a.Name.Local), sxStr(a.Value)))
			}
			toks = append(toks, fmt.Sprintf("(st %s %s (%s))", sxStr(t.Name.Space), sxStr(t.Name.Local), strings.Join(as, " ")))
		case xml.EndElement:
			toks = append(toks, "end")
		case xml.CharData:
			toks = append(toks, "(ch "+sxStr(string(t))+")")
		case xml.Comment:
			toks = append(toks, "(cm "+sxStr(string(t))+")")
		case xml.ProcInst:
			toks = append(toks, fmt.Sprintf("(pi %s %s)", sxStr(t.Target), sxStr(string(t.Inst))))
		case xml.Directive:
			toks = append(toks, "dir")
		}
	}
}

var xmlReads int

// readXmlImpl reads the text through both routes - ReadXml(in) and ReadXml(in, option) with an option that changes
// nothing (the command always passes one) - and answers with the tree when they agree
func readXmlImpl(data []byte) string {
	xmlReads++
	if xmlReads%5 == 0 {
		if c, err := xsel.ReadXml(&failingReader{data: []byte(`<?xml version="1.0"?><stale xmlns:s="urn:stale"><a>lost<b>`)}); err == nil {
			return fmt.Sprintf("ACCEPTED an input whose reader failed (cursor nil: %v)", c == nil)
		}
	}
	a := readXmlRoute(data, false)
	b := readXmlRoute(data, true)
	if a != b {
		return "ROUTE-MISMATCH ReadXml(in): " + a + " ReadXml(in, option): " + b
	}
	return a
}

func readXmlRoute(data []byte, withOption bool) (out string) {
	defer func() {
		if r := recover(); r != nil {
			out = fmt.Sprintf("PANIC %v", r)
		}
	}()
	var c xsel.Cursor
	var err error
	if withOption {
		c, err = xsel.ReadXml(readerFor(data, xmlReads), func(d *xml.Decoder) { d.Strict = true })
	} else {
		c, err = xsel.ReadXml(readerFor(data, xmlReads+1))
	}
	if err != nil {
		return "E"
	}
	if c == nil {
		return "NIL-NIL"
	}
	var b strings.Builder
	dumpTree(c, true, &b)
	return b.String()
}

func xmlCase(rn *Runner, data []byte) (impl, model string) {
	impl = readXmlImpl(data)
	toks, final := recordXmlTokens(data)
	model = rn.M.Ask(fmt.Sprintf("(xml (%s) %s)", strings.Join(toks, " "), final))
	return impl, model
}

func famC09(rn *Runner) {
	n := rn.Scale(700, 15000)
	for i := 0; i < n && !rn.TooMany(); i++ {
		r := rn.R.Fork()
		enc := ""
		switch r.Intn(8) {
		case 0:
			enc = "ISO-8859-1"
		case 1:
			enc = "windows-1252"
		case 2:
			enc = "US-ASCII"
		case 3:
			enc = "UTF-8"
		}
		g := &xmlGen{r: r, budget: rn.Scale(25, 80), latin: enc == "ISO-8859-1" || enc == "windows-1252", ascii: enc == "US-ASCII"}
		if i%100 == 9 {
			g.deep = pick(r, []int{130, 258, 300, 520})
			g.budget = 6
		}
		items := g.doc(enc)
		var b strings.Builder
		var sx []string
		for _, it := range items {
			it.render(r, &b)
			sx = append(sx, it.Sx())
		}
		text := b.String()
		data, ok := encodeBytes(text, enc)
		if !ok {
			continue
		}
		if i < 3 {
			rn.Sample(text)
		}
		rn.Eval(string(data), strings.Count(text, "</") >= 3 && (strings.Contains(text, "xmlns") || strings.Contains(text, "CDATA")))
		rn.Count("encoding:" + enc)
		impl := readXmlImpl(data)
		spec := rn.M.Ask(fmt.Sprintf("(xmlspec (%s))", strings.Join(sx, " ")))
		if impl != spec {
			rn.Report(&Replay{Family: "xml-data-model", Clause: "tree = XPath data model of the abstract document", Kind: "xml", Input: string(data), Impl: impl, Model: spec},
				fmt.Sprintf("ReadXml(%q): implementation %s, data model %s", text, impl, spec))
			continue
		}
		_, model := xmlCase(rn, data)
		if impl != model {
			rn.Report(&Replay{Family: "xml-adapter", Clause: "tree = adapter model on the recorded tokens", Kind: "xml", Input: string(data), Impl: impl, Model: model},
				fmt.Sprintf("ReadXml(%q): implementation %s, adapter model %s", text, impl, model))
			continue
		}
		// malformed variants
		for k := 0; k < 5 && len(data) > 2; k++ {
			var d2 []byte
			kind := ""
			switch r.Intn(7) {
			case 0:
				d2, kind = append([]byte{}, data[:1+r.Intn(len(data)-1)]...), "truncated"
			case 1:
				p := r.Intn(len(data))
				d2, kind = append(append([]byte{}, data[:p]...), data[p+1:]...), "byte-deleted"
			case 2:
				p := r.Intn(len(data))
				ins := pick(r, []string{"<", ">", "&", "&bogus;", "\x01", "\xff", "</zz>", "\"", "<x>", "]]>", "&nbsp;", "&eacute;", "&copy;", "&mdash;", "&AMP;", "&#0;", "&#xD800;", "&#x110000;"})
				d2, kind = append(append(append([]byte{}, data[:p]...), ins...), data[p:]...), "inserted:"+fmt.Sprintf("%q", ins)
			case 3:
				d2, kind = bytes.Replace(data, []byte("</"), []byte("</zz"), 1), "mismatched-end-tag"
			case 4:
				d2, kind = bytes.Replace(data, []byte("&amp;"), []byte(pick(r, []string{"&nosuch;", "&nbsp;", "&eacute;", "&hellip;", "&Amp;"})), 1), "undefined-entity"
			case 5:
				d2, kind = bytes.Replace(data, []byte(">"), []byte(">\x02"), 1), "invalid-character"
			default:
				d2, kind = append(append([]byte{}, data...), pick(r, []string{"<", "<a>", "&", "x"})...), "trailing-garbage"
			}
			if bytes.Equal(d2, data) {
				continue
			}
			i2, m2 := xmlCase(rn, d2)
			rn.Eval(kind+"|"+string(d2), i2 == "E")
			kk := kind
			if strings.HasPrefix(kk, "inserted") {
				kk = "inserted"
			}
			if i2 == "E" {
				rn.Count("malformed:" + kk + ":error")
			} else {
				rn.Count("malformed:" + kk + ":accepted")
			}
			if i2 != m2 && !rn.TooMany() {
				rn.Report(&Replay{Family: "xml-malformed", Clause: kind + ": error/tree equals the adapter model on the recorded tokens", Kind: "xml", Input: string(d2), Impl: i2, Model: m2},
					fmt.Sprintf("ReadXml(%q) [%s]: implementation %s, adapter model %s", string(d2), kind, i2, m2))
			}
		}
	}
}
