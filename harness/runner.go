package main

import (
	"crypto/sha1"
	"encoding/hex"
	"encoding/json"
	"fmt"
	"os"
	"path/filepath"
	"sort"
	"strings"
	"time"
)

type Mismatch struct {
	Property string `json:"property"`
	Family   string `json:"family"`
	Clause   string `json:"clause"`
	Summary  string `json:"summary"`
	Impl     string `json:"impl"`
	Model    string `json:"model"`
	Replay   string `json:"replay"`
	KF       string `json:"known_finding,omitempty"`
}

type Stats struct {
	Property    string         `json:"property"`
	Tier        string         `json:"tier"`
	Seed        uint64         `json:"seed"`
	Evaluations int            `json:"evaluations"`
	Nontrivial  int            `json:"distinct_nontrivial"`
	Rule        string         `json:"rule"`
	Samples     []string       `json:"samples"`
	Dist        map[string]int `json:"distribution"`
	Mismatches  []Mismatch     `json:"mismatches"`
	Known       map[string]int `json:"known_findings"` // open known findings recognised (id -> cases)
	ModelLog    []string       `json:"-"`
	distinct    map[string]bool
}

type Replay struct {
	Property string  `json:"property"`
	Family   string  `json:"family"`
	Clause   string  `json:"clause"`
	Seed     uint64  `json:"seed"`
	Kind     string  `json:"kind"` // query | tree | ...
	Events   []Event `json:"events,omitempty"`
	Start    string  `json:"start,omitempty"`
	Env      *Env    `json:"env,omitempty"`
	Text     string  `json:"xpath,omitempty"`
	ExprSx   string  `json:"expr_sx,omitempty"`
	Doc      string  `json:"doc_readable,omitempty"`
	Input    string  `json:"input,omitempty"` // family-specific payload
	Impl     string  `json:"impl"`
	Model    string  `json:"model"`
	Note     string  `json:"note,omitempty"`
}

type Runner struct {
	M           *Model
	R           *Rng
	Seed        uint64
	Tier        string
	Prop        string
	St          *Stats
	ReplayDir   string
	nextDoc     int
	maxMis      int
	docsMade    int
	stressEvery int      // when > 0, every n-th generated document carries DocGen.stressElem
	CoqCases    []string // model commands with the model's answers, for the vm_compute cross-check
	pending     []pendingQuery
}

func (rn *Runner) Thorough() bool { return rn.Tier == "thorough" }

// Scale picks the quick or the thorough size.
func (rn *Runner) Scale(quick, thorough int) int {
	if rn.Thorough() {
		return thorough
	}
	return quick
}

func (rn *Runner) Count(key string) { rn.St.Dist[key]++ }

func (rn *Runner) Sample(s string) {
	if len(rn.St.Samples) < 12 {
		rn.St.Samples = append(rn.St.Samples, s)
	}
}

func (rn *Runner) Eval(key string, nontrivial bool) {
	rn.St.Evaluations++
	if nontrivial {
		h := sha1.Sum([]byte(key))
		k := string(h[:8])
		if !rn.St.distinct[k] {
			rn.St.distinct[k] = true
			rn.St.Nontrivial++
		}
	}
}

func (rn *Runner) TooMany() bool { return len(rn.St.Mismatches) >= rn.maxMis }

func (rn *Runner) Report(rp *Replay, summary string) {
	rp.Property = rn.Prop
	rp.Seed = rn.Seed
	data, _ := json.MarshalIndent(rp, "", " ")
	h := sha1.Sum(data)
	name := fmt.Sprintf("%s-%s.json", rn.Prop, hex.EncodeToString(h[:6]))
	os.MkdirAll(rn.ReplayDir, 0o755)
	path := filepath.Join(rn.ReplayDir, name)
	os.WriteFile(path, data, 0o644)
	if len(summary) > 400 {
		summary = strings.ToValidUTF8(summary[:400], "") + "..."
	}
	rn.St.Mismatches = append(rn.St.Mismatches, Mismatch{
		Property: rn.Prop, Family: rp.Family, Clause: rp.Clause, Summary: summary,
		Impl: rp.Impl, Model: rp.Model, Replay: path,
	})
}

// NewDoc builds the document on both sides.
func (rn *Runner) NewDoc(evs []Event) *Doc {
	rn.nextDoc++
	d := &Doc{ID: rn.nextDoc, Events: evs}
	root, err := buildImpl(evs)
	if err != nil {
		panic(fmt.Sprintf("scripted parser build failed: %v", err))
	}
	d.Root = root
	d.Paths = allPaths(root, nil, nil)
	if r := rn.M.Ask(fmt.Sprintf("(doc %d %s)", d.ID, sxEvents(evs))); r != "ok" {
		panic("model doc: " + r)
	}
	return d
}

func (rn *Runner) DropDoc(d *Doc) {
	rn.Flush()
	rn.M.Ask(fmt.Sprintf("(drop %d)", d.ID))
}

type pendingQuery struct {
	q          *QCase
	clause     string
	impl       string
	nontrivial func(res string) bool
}

// CheckQuery runs one query case on the implementation at once and queues the model's
// side; the comparison happens when the queue is flushed (pipelined co-process).
func (rn *Runner) CheckQuery(q *QCase, clause string, nontrivial func(res string) bool) (string, bool) {
	t0 := time.Now()
	impl := q.RunImpl()
	tImpl += time.Since(t0)
	rn.pending = append(rn.pending, pendingQuery{q, clause, impl, nontrivial})
	if len(rn.pending) >= 512 {
		rn.Flush()
	}
	return impl, true
}

func (rn *Runner) Flush() {
	if len(rn.pending) == 0 {
		return
	}
	batch := rn.pending
	rn.pending = nil
	cmds := make([]string, len(batch))
	for i, p := range batch {
		cmds[i] = p.q.ModelCmd()
	}
	t0 := time.Now()
	answers := rn.M.AskAll(cmds)
	tModel += time.Since(t0)
	for i, p := range batch {
		q, impl, model := p.q, p.impl, answers[i]
		key := q.Family + "|" + q.Text + "|" + q.Start.String() + "|" + fmt.Sprint(q.Doc.ID) + "|" + q.Env.Show()
		rn.Eval(key, p.nontrivial != nil && p.nontrivial(model))
		rn.Count("result:" + resultKind(model))
		rn.Count("family:" + q.Family)
		if len(rn.CoqCases) < 400 && rn.St.Evaluations%7 == 0 {
			rn.CoqCases = append(rn.CoqCases, sxEvents(q.Doc.Events)+"\t"+cmds[i]+"\t"+model)
		}
		if !agree(impl, model) && strings.Contains(q.Text, "round") {
			// the one defect that stays open in the evaluator (round() sends negative ties away from
			// zero; an existing test pins it): recognised with the model's literal transcription of
			// it, and with nothing else (DESIGN 8)
			if asis := rn.M.Ask(strings.Replace(cmds[i], "(q ", "(qa ", 1)); agree(impl, asis) {
				if rn.St.Known == nil {
					rn.St.Known = map[string]int{}
				}
				rn.St.Known["C06-round-negative-ties"]++
				continue
			}
		}
		if !agree(impl, model) && !rn.TooMany() {
			q2, impl2, model2 := rn.shrinkQuery(q, impl, model)
			rn.Report(&Replay{
				Family: q2.Family, Clause: p.clause, Kind: "query", Events: q2.Doc.Events, Start: q2.Start.String(),
				Env: q2.Env, Text: q2.Text, ExprSx: SxExpr(q2.E), Doc: showEvents(q2.Doc.Events), Impl: impl2, Model: model2,
			}, fmt.Sprintf("%s from %s on <%s>: implementation %s, model %s", q2.Text, q2.Start, showEvents(q2.Doc.Events), impl2, model2))
		}
	}
}

func resultKind(s string) string {
	if s == "" {
		return "?"
	}
	switch s[0] {
	case 'L':
		if len(strings.Fields(s)) == 1 {
			return "empty-nodeset"
		}
		return "nodeset"
	case 'N':
		return "number"
	case 'S':
		return "string"
	case 'B':
		return "boolean"
	case 'E':
		return "error"
	}
	return "?"
}

func (rn *Runner) Finish(out string) {
	for k, n := range routeCounts {
		rn.St.Dist["alternate-route:"+k] += n
	}
	if callerCount > 0 {
		rn.St.Dist["caller-implemented-Result:cases"] += callerCount
	}
	for k, n := range aftermathCount {
		rn.St.Dist["aftermath:"+k] += n
	}
	rn.Flush()
	profReport()
	keys := make([]string, 0, len(rn.St.Dist))
	for k := range rn.St.Dist {
		keys = append(keys, k)
	}
	sort.Strings(keys)
	data, _ := json.MarshalIndent(rn.St, "", " ")
	os.WriteFile(out, data, 0o644)
	if len(rn.CoqCases) > 0 {
		os.WriteFile(strings.TrimSuffix(out, ".json")+".coqcases", []byte(strings.Join(rn.CoqCases, "\n")+"\n"), 0o644)
	}
}
