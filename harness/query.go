package main

import (
	"fmt"
	"math"
	"strings"

	"github.com/ChrisTrenkamp/xsel"
	"github.com/ChrisTrenkamp/xsel/store"
)

// ---- binding environments ----

type VarVal struct {
	Kind  string // nodes num str bool
	Num   float64
	Str   string
	B     bool
	Nodes []Path
}

func (v VarVal) Sx() string {
	switch v.Kind {
	case "nodes":
		parts := []string{"(nodes"}
		for _, p := range v.Nodes {
			parts = append(parts, p.Sx())
		}
		return strings.Join(parts, " ") + ")"
	case "num":
		return fmt.Sprintf("(n %s)", showNum(v.Num))
	case "str":
		return fmt.Sprintf("(str %s)", sxStr(v.Str))
	}
	if v.B {
		return "(b 1)"
	}
	return "(b 0)"
}

func (v VarVal) Show() string {
	switch v.Kind {
	case "nodes":
		parts := []string{}
		for _, p := range v.Nodes {
			parts = append(parts, p.String())
		}
		return "nodes[" + strings.Join(parts, " ") + "]"
	case "num":
		return fmt.Sprintf("num(%v=%s)", v.Num, showNum(v.Num))
	case "str":
		return fmt.Sprintf("str(%q)", v.Str)
	}
	return fmt.Sprintf("bool(%v)", v.B)
}

var emptySets int

func (v VarVal) ToResult(root store.Cursor) xsel.Result {
	switch v.Kind {
	case "nodes":
		if len(v.Nodes) == 0 {
			emptySets++
			if emptySets%2 == 0 {
				return xsel.NodeSet(nil) // a caller's `var keep NodeSet` that nothing was appended to
			}
		}
		ns := make(xsel.NodeSet, 0, len(v.Nodes))
		for _, p := range v.Nodes {
			ns = append(ns, cursorAt(root, p))
		}
		return ns
	case "num":
		return xsel.Number(v.Num)
	case "str":
		return xsel.String(v.Str)
	}
	return xsel.Bool(v.B)
}

type UFun struct {
	Kind  string // arg ctxpos ctxnodes const argcount
	K     int
	Const VarVal
}

func (f UFun) Sx() string {
	switch f.Kind {
	case "arg":
		return fmt.Sprintf("(arg %d)", f.K)
	case "const":
		return fmt.Sprintf("(const %s)", f.Const.Sx())
	}
	return f.Kind
}

type NSBind struct{ Prefix, URI string }
type VarBind struct {
	Space, Local string
	V            VarVal
}
type FunBind struct {
	Space, Local string
	F            UFun
}

type Env struct {
	NS   []NSBind
	Vars []VarBind
	Funs []FunBind
}

func (e *Env) Sx() string {
	var ns, vs, fs []string
	for _, b := range e.NS {
		ns = append(ns, fmt.Sprintf("(ns %s %s)", sxStr(b.Prefix), sxStr(b.URI)))
	}
	for _, b := range e.Vars {
		vs = append(vs, fmt.Sprintf("(v %s %s %s)", sxStr(b.Space), sxStr(b.Local), b.V.Sx()))
	}
	for _, b := range e.Funs {
		fs = append(fs, fmt.Sprintf("(fn %s %s %s)", sxStr(b.Space), sxStr(b.Local), b.F.Sx()))
	}
	return fmt.Sprintf("(%s) (%s) (%s)", strings.Join(ns, " "), strings.Join(vs, " "), strings.Join(fs, " "))
}

func (e *Env) Show() string {
	var parts []string
	for _, b := range e.NS {
		parts = append(parts, fmt.Sprintf("ns %s=%s", b.Prefix, b.URI))
	}
	for _, b := range e.Vars {
		parts = append(parts, fmt.Sprintf("$%s=%s", showQ(b.Space, b.Local), b.V.Show()))
	}
	for _, b := range e.Funs {
		parts = append(parts, fmt.Sprintf("fn %s=%s", showQ(b.Space, b.Local), b.F.Sx()))
	}
	return strings.Join(parts, "; ")
}

// Settings turns the environment into the library's options. The instrumented
// user functions implement the behaviours the model's [ufun] describes.
func (e *Env) Settings(root store.Cursor) []xsel.ContextApply {
	var out []xsel.ContextApply
	for _, b := range e.NS {
		out = append(out, xsel.WithNS(b.Prefix, b.URI))
	}
	for _, b := range e.Vars {
		out = append(out, xsel.WithVariableNS(b.Space, b.Local, b.V.ToResult(root)))
	}
	for _, b := range e.Funs {
		f := b.F
		var fn xsel.Function
		switch f.Kind {
		case "arg":
			fn = func(c xsel.Context, args ...xsel.Result) (xsel.Result, error) {
				if f.K >= len(args) {
					return nil, fmt.Errorf("missing argument")
				}
				return args[f.K], nil
			}
		case "ctxpos":
			fn = func(c xsel.Context, args ...xsel.Result) (xsel.Result, error) {
				return xsel.Number(c.ContextPosition() + 1), nil
			}
		case "ctxnodes":
			fn = func(c xsel.Context, args ...xsel.Result) (xsel.Result, error) {
				return c.Result(), nil
			}
		case "const":
			cv := f.Const.ToResult(root)
			fn = func(c xsel.Context, args ...xsel.Result) (xsel.Result, error) { return cv, nil }
		case "argcount":
			fn = func(c xsel.Context, args ...xsel.Result) (xsel.Result, error) {
				return xsel.Number(len(args)), nil
			}
		}
		out = append(out, xsel.WithFunctionNS(b.Space, b.Local, fn))
	}
	return out
}

// ---- one query case ----

type Doc struct {
	ID     int
	Events []Event
	Root   store.Cursor
	Paths  []Path // every node, document order
}

type QCase struct {
	Doc    *Doc
	Start  Path
	Env    *Env
	E      Expr
	Text   string // the rendering given to BuildExpr
	Family string
}

func execImpl(root store.Cursor, start Path, env *Env, text string) (res xsel.Result, err error, panicked interface{}) {
	defer func() {
		if r := recover(); r != nil {
			panicked = r
		}
	}()
	g, berr := buildCached(text)
	if berr != nil {
		return nil, fmt.Errorf("build: %v", berr), nil
	}
	c := cursorAt(root, start)
	if !noRoutes {
		if m := aftermath(root); m != "" {
			return nil, routeMismatch{m}, nil
		}
	}
	res, err = xsel.Exec(c, g, env.Settings(root)...)
	if !noRoutes {
		if m := alternateRoutes(root, start, env, g, res, err); m != "" {
			return nil, routeMismatch{m}, nil
		}
	}
	return res, err, nil
}

// noRoutes: the families about purity and concurrency count evaluations and must not be given extra ones
var noRoutes bool

// compiled expressions are shared by all later executions of the same text
var exprCache = map[string]*xsel.Grammar{}
var exprErr = map[string]error{}

func buildCached(text string) (*xsel.Grammar, error) {
	if g, ok := exprCache[text]; ok {
		return g, exprErr[text]
	}
	if len(exprCache) > 4000 { // a compiled expression holds its whole parse forest: keep the cache small
		exprCache = map[string]*xsel.Grammar{}
		exprErr = map[string]error{}
	}
	g, err := xsel.BuildExpr(text)
	if err != nil {
		exprCache[text] = nil
		exprErr[text] = err
		return nil, err
	}
	exprCache[text] = &g
	return &g, nil
}

func (q *QCase) RunImpl() string {
	res, err, p := execImpl(q.Doc.Root, q.Start, q.Env, q.Text)
	if p != nil {
		return fmt.Sprintf("PANIC %v", p)
	}
	if err != nil && strings.HasPrefix(err.Error(), "build: ") {
		return "E build " + err.Error()
	}
	return projectResult(res, err)
}

func (q *QCase) ModelCmd() string {
	return fmt.Sprintf("(q %d %s %s %s)", q.Doc.ID, q.Start.Sx(), q.Env.Sx(), SxExpr(q.E))
}

// ---- comparison of projected observables ----

func pathLess(a, b Path) bool {
	rank := func(k byte) int {
		switch k {
		case 'n':
			return 0
		case 'a':
			return 1
		}
		return 2
	}
	for i := 0; i < len(a) && i < len(b); i++ {
		if a[i] != b[i] {
			if a[i].K != b[i].K {
				return rank(a[i].K) < rank(b[i].K)
			}
			return a[i].I < b[i].I
		}
	}
	return len(a) < len(b)
}

func parseNodeList(s string) []string {
	f := strings.Fields(s)
	if len(f) == 0 {
		return nil
	}
	return f[1:]
}

func strictlyDescending(ps []string) bool {
	for i := 1; i < len(ps); i++ {
		if !pathLess(parsePath(ps[i]), parsePath(ps[i-1])) {
			return false
		}
	}
	return len(ps) > 1
}

func strictlyAscending(ps []string) bool {
	for i := 1; i < len(ps); i++ {
		if !pathLess(parsePath(ps[i-1]), parsePath(ps[i])) {
			return false
		}
	}
	return true
}

// agree decides whether the implementation's and the model's observables are
// the same up to the latitude the properties leave (DESIGN 11).
func agree(impl, model string) bool {
	if impl == model {
		return true
	}
	if strings.HasPrefix(impl, "E") && model == "E" {
		return !strings.HasPrefix(impl, "E panic") // an internal panic error is never an acceptable error
	}
	if strings.HasPrefix(impl, "L") && strings.HasPrefix(model, "L") {
		a, b := parseNodeList(impl), parseNodeList(model)
		if len(a) != len(b) || !strictlyDescending(b) {
			return false
		}
		for i := range a {
			if a[i] != b[len(b)-1-i] {
				return false
			}
		}
		return true // a reverse-axis result delivered in ascending order
	}
	return false
}

func bitsOf(s string) (uint64, bool) {
	if !strings.HasPrefix(s, "N ") {
		return 0, false
	}
	var u uint64
	_, err := fmt.Sscanf(s[2:], "%x", &u)
	return u, err == nil
}

func floatOf(s string) (float64, bool) {
	u, ok := bitsOf(s)
	return math.Float64frombits(u), ok
}
