package main

import (
	"fmt"
	"math"
	"strconv"
	"strings"
)

// ---- expression generators ----

var allAxes = []string{"child", "descendant", "descendant-or-self", "parent", "ancestor", "ancestor-or-self",
	"following-sibling", "preceding-sibling", "following", "preceding", "attribute", "namespace", "self"}

var reservedOps = map[string]bool{"div": true, "mod": true, "and": true, "or": true}

type ExprGen struct {
	R        *Rng
	Doc      *Doc
	Env      *Env
	Locals   []string // local names usable in name tests
	Prefixes []string // bound prefixes
	NodeVars []string // names of node-set variables in Env
	NumVars  []string
	StrVars  []string
	NodeFuns []string // user functions returning node-sets (ctxnodes)
	Unbound  bool     // allow references to unbound names
}

func stdEnv() *Env {
	return &Env{NS: []NSBind{{"p", "urn:u1"}, {"q", "urn:u2"}, {"r", "http://example.com/ns"}, {"p2", "urn:u1"}, {"xml", xmlNS},
		{"child", "urn:u1"}, {"text", "urn:u2"}, {"self", "urn:u1"}, {"none", ""}, {"", "urn:u2"}}} // "none" is BOUND, to the empty URI: none:x is the no-namespace x
}

func NewExprGen(r *Rng, d *Doc, env *Env) *ExprGen {
	g := &ExprGen{R: r, Doc: d, Env: env,
		Locals: []string{"a", "b", "c", "d", "item", "x-y", "é", "self", "text", "id", "n", "class", "lang", "nope", "child", "descendant", "node", "a", "b"}}
	for _, b := range env.NS {
		if b.Prefix != "" { // the empty prefix can be bound, but not written
			g.Prefixes = append(g.Prefixes, b.Prefix)
		}
	}
	for _, v := range env.Vars {
		if v.Space != "" {
			continue
		}
		switch v.V.Kind {
		case "nodes":
			g.NodeVars = append(g.NodeVars, v.Local)
		case "num":
			g.NumVars = append(g.NumVars, v.Local)
		case "str":
			g.StrVars = append(g.StrVars, v.Local)
		}
	}
	for _, f := range env.Funs {
		if f.Space == "" && f.F.Kind == "ctxnodes" {
			g.NodeFuns = append(g.NodeFuns, f.Local)
		}
	}
	return g
}

func num(t string) *ENum { return &ENum{t} }
func lit(v string) *ELit { return &ELit{v} }
func call(name string, args ...Expr) *ECall {
	return &ECall{RawQ{Local: name}, args}
}
func bin(op string, a, b Expr) *EBin { return &EBin{op, a, b} }

func (g *ExprGen) NodeTest(axis string) NodeTest {
	r := g.R
	if axis == "namespace" {
		// name tests on the namespace axis follow the library's own rule (outside C01)
		return pick(r, []NodeTest{{Kind: "any"}, {Kind: "node"}, {Kind: "node"}, {Kind: "text"}})
	}
	switch r.Intn(12) {
	case 0, 1:
		return NodeTest{Kind: "any"}
	case 2, 3:
		return NodeTest{Kind: "node"}
	case 4:
		return NodeTest{Kind: "text"}
	case 5:
		return pick(r, []NodeTest{{Kind: "comment"}, {Kind: "pi"}, {Kind: "pit", Local: "t"}, {Kind: "pit", Local: "php"}})
	case 6:
		if len(g.Prefixes) > 0 {
			return NodeTest{Kind: "nsany", Prefix: pick(r, g.Prefixes)}
		}
	case 7:
		return NodeTest{Kind: "localany", Local: pick(r, g.Locals)}
	case 8:
		if len(g.Prefixes) > 0 {
			return NodeTest{Kind: "qn", Prefix: pick(r, g.Prefixes), Local: pick(r, g.Locals)}
		}
	}
	return NodeTest{Kind: "name", Local: pick(r, g.Locals)}
}

func (g *ExprGen) Axis() string {
	r := g.R
	if r.Chance(2, 5) {
		return "child"
	}
	return pick(r, allAxes)
}

func (g *ExprGen) Step(depth int, predChance int) *Stp {
	r := g.R
	ax := g.Axis()
	s := &Stp{Axis: ax, Test: g.NodeTest(ax), Abbrev: r.Chance(2, 3)}
	if ax == "self" || ax == "parent" {
		if r.Chance(1, 2) {
			s.Test = NodeTest{Kind: "node"}
		}
	}
	for depth > 0 && r.Chance(predChance, 10) && len(s.Preds) < 3 {
		s.Preds = append(s.Preds, g.Pred(depth-1))
	}
	return s
}

func (g *ExprGen) Steps(depth, n, predChance int) []*Stp {
	var ss []*Stp
	for i := 0; i < n; i++ {
		// after a reverse-axis step the input of // arrives in reverse document order: make that common
		afterReverse := i > 0 && reverseAxes[ss[len(ss)-1].Axis] && g.R.Chance(1, 2)
		if afterReverse || i > 0 && g.R.Chance(1, 5) || (i == 0 && n > 1 && g.R.Chance(1, 6)) {
			ss = append(ss, &Stp{Axis: "descendant-or-self", Test: NodeTest{Kind: "node"}, Abbrev: true})
		}
		ss = append(ss, g.Step(depth, predChance))
	}
	return ss
}

var reverseAxes = map[string]bool{"ancestor": true, "ancestor-or-self": true, "preceding": true, "preceding-sibling": true}

// a number-valued predicate that depends on the context node (several positions can match)
func (g *ExprGen) CtxNumber() Expr {
	r := g.R
	one := func() *EPath { return &EPath{Steps: []*Stp{g.Step(0, 0)}} }
	switch r.Intn(8) {
	case 0:
		return call("position")
	case 1:
		return call("count", one())
	case 2:
		return call("number", &EPath{Steps: []*Stp{{Axis: "attribute", Test: NodeTest{Kind: "any"}, Abbrev: true}}})
	case 3:
		return bin("+", call("count", one()), num("1"))
	case 4:
		return bin("-", bin("+", call("last"), num("1")), call("position"))
	case 5:
		return call("string-length")
	case 6:
		return call("number", one())
	}
	return call("count", &EPath{Steps: []*Stp{{Axis: pick(r, []string{"child", "preceding-sibling", "ancestor", "attribute"}), Test: NodeTest{Kind: pick(r, []string{"any", "node"})}}}})
}

// a filter over a bound node-set inside a predicate: the binding is read again while the step iterates
func (g *ExprGen) VarFilterPred(name string) Expr {
	r := g.R
	f := &EFilter{E: &EVar{RawQ{Local: name}}, Preds: []Expr{pick(r, []Expr{num("1"), num("2"), call("last")})}}
	if r.Chance(1, 2) {
		return f
	}
	return bin("=", call("count", bin("|", f, &EPath{Steps: []*Stp{{Axis: "parent", Test: NodeTest{Kind: "node"}, Abbrev: true}}})), num("1"))
}

func (g *ExprGen) Path(depth int, predChance int) *EPath {
	r := g.R
	p := &EPath{Abs: r.Chance(1, 2)}
	n := 1 + r.Intn(3)
	if p.Abs && r.Chance(1, 12) {
		return p // "/"
	}
	p.Steps = g.Steps(depth, n, predChance)
	return p
}

// small integers around the likely sizes, fractions, out-of-range values
func (g *ExprGen) PosNumber() Expr {
	r := g.R
	switch r.Intn(10) {
	case 0:
		return num("0")
	case 1:
		return num(pick(r, []string{"1.5", "2.5", "0.5", "1.0", "2.0", "1.000001"}))
	case 2:
		return &ENeg{num("1")}
	case 3:
		return bin("div", num("0"), num("0"))
	case 4:
		return num(strconv.Itoa(5 + r.Intn(100)))
	case 5:
		return bin("div", num("1"), num("0"))
	case 6:
		// a hair off an integer: [n] selects only when n IS a position
		k := strconv.Itoa(1 + r.Intn(3))
		return pick(r, []Expr{
			bin("*", bin("+", num("0.1"), num("0.2")), num("10")), // 3.0000000000000004
			num("0.9999999999"), num("1.0000000001"), num("2.0000000000001"), num("1.9999999999999"),
			bin("-", call("last"), num("0.0000000001")), bin("+", num(k), num("0.00000000001")),
			bin("-", num(k), bin("div", num("1"), num("100000000000"))),
		})
	}
	return num(strconv.Itoa(1 + r.Intn(4)))
}

// PrincipalPred: a predicate made of ELEMENT name tests, for a step on the attribute or the
// namespace axis (inside the predicate the principal node type is that of the inner axes)
func (g *ExprGen) PrincipalPred() Expr {
	r := g.R
	nm := func() NodeTest {
		if r.Chance(1, 3) {
			return NodeTest{Kind: "any"}
		}
		return NodeTest{Kind: "name", Local: pick(r, g.Locals)}
	}
	up := &Stp{Axis: "parent", Test: NodeTest{Kind: "node"}, Abbrev: true}
	switch r.Intn(7) {
	case 0:
		return &EPath{Steps: []*Stp{up, {Axis: "child", Test: nm(), Abbrev: true}}}
	case 1:
		return &EPath{Steps: []*Stp{{Axis: "parent", Test: nm()}}}
	case 2:
		return bin(">=", call("count", &EPath{Steps: []*Stp{up, {Axis: "child", Test: nm(), Abbrev: true}}}), num("1"))
	case 3:
		return &EPath{Abs: true, Steps: []*Stp{{Axis: "child", Test: nm(), Abbrev: true}}}
	case 4:
		return &EPath{Steps: []*Stp{up, {Axis: "child", Test: nm(), Abbrev: true, Preds: []Expr{pick(r, []Expr{call("last"), num("1"), num("2")})}}}}
	case 5:
		return &EPath{Steps: []*Stp{{Axis: "ancestor", Test: nm()}}}
	}
	return &EPath{Steps: []*Stp{up, {Axis: pick(r, []string{"following-sibling", "preceding-sibling", "descendant"}), Test: nm()}}}
}

func (g *ExprGen) Pred(depth int) Expr {
	r := g.R
	switch r.Intn(17) {
	case 0, 1, 2:
		return g.PosNumber()
	case 14, 15:
		return g.CtxNumber()
	case 16:
		if len(g.NodeVars) > 0 {
			return g.VarFilterPred(pick(r, g.NodeVars))
		}
		return g.CtxNumber()
	case 3:
		return call("last")
	case 4:
		return bin("-", call("last"), num(strconv.Itoa(r.Intn(3))))
	case 5:
		return bin(pick(r, []string{"=", "!=", "<", "<=", ">", ">="}), call("position"), g.PosNumber())
	case 6:
		return bin("=", call("position"), call("last"))
	case 7:
		return bin("mod", call("position"), num("2"))
	case 8:
		if depth > 0 {
			return &EPath{Steps: g.Steps(depth-1, 1+r.Intn(2), 3)}
		}
		return &EPath{Steps: []*Stp{g.Step(0, 0)}}
	case 9:
		return bin(pick(r, []string{"=", "!=", "<", ">"}), &EPath{Steps: []*Stp{g.Step(0, 0)}}, pick(r, []Expr{num("1"), num("2"), lit("abc"), lit("1"), num("10")}))
	case 10:
		return pick(r, []Expr{lit(""), lit("x"), call("true"), call("false"), call("not", call("position")),
			// a STRING that reads as a number is converted with boolean(), not compared with the position
			lit("2"), lit("0"), lit(" 1 "), lit("1.5"), call("string", call("position")), call("string", num("2")),
			call("string", &EPath{Steps: []*Stp{{Axis: "attribute", Test: NodeTest{Kind: "any"}, Abbrev: true}}}), call("normalize-space", lit(" 3 ")), call("concat", lit("1"), lit(""))})
	case 11:
		if depth > 0 {
			return bin(pick(r, []string{"and", "or"}), g.Pred(depth-1), g.Pred(depth-1))
		}
	case 12:
		return bin("=", call("count", &EPath{Steps: []*Stp{g.Step(0, 0)}}), num(strconv.Itoa(r.Intn(3))))
	case 13:
		if depth > 0 {
			// an absolute path inside a predicate
			return &EPath{Abs: true, Steps: g.Steps(depth-1, 1+r.Intn(2), 2)}
		}
	}
	return g.PosNumber()
}

// NodeSet generates a node-set valued expression.
func (g *ExprGen) NodeSet(depth int, predChance int) Expr {
	r := g.R
	if depth <= 0 {
		return g.Path(0, 0)
	}
	switch r.Intn(12) {
	case 0, 1:
		return bin("|", g.NodeSet(depth-1, predChance), g.NodeSet(depth-1, predChance))
	case 2, 3:
		// (E)[p] and (E)[p]/steps
		f := &EFilter{E: g.NodeSet(depth-1, predChance)}
		for r.Chance(2, 3) && len(f.Preds) < 2 {
			f.Preds = append(f.Preds, g.Pred(depth-1))
		}
		if r.Chance(1, 2) {
			f.Steps = g.Steps(depth-1, 1+r.Intn(2), predChance)
		}
		return f
	case 4:
		if len(g.NodeVars) > 0 {
			f := &EFilter{E: &EVar{RawQ{Local: pick(r, g.NodeVars)}}}
			if r.Chance(1, 2) {
				f.Preds = append(f.Preds, g.Pred(depth-1))
			}
			if r.Chance(2, 3) {
				f.Steps = g.Steps(depth-1, 1+r.Intn(2), predChance)
			}
			if len(f.Preds) == 0 && len(f.Steps) == 0 {
				return f.E
			}
			return f
		}
	case 5:
		if len(g.NodeFuns) > 0 {
			f := &EFilter{E: call(pick(r, g.NodeFuns))}
			if r.Chance(1, 2) {
				f.Preds = append(f.Preds, g.Pred(depth-1))
			}
			f.Steps = g.Steps(depth-1, 1+r.Intn(2), predChance)
			return f
		}
	}
	return g.Path(depth, predChance)
}

// ---- scalars ----

var doubleClasses = []float64{0, math.Copysign(0, -1), 1, -1, 0.5, -0.5, 1.5, -1.5, 2.5, -2.5, 0.49999999999999994, -0.49999999999999994,
	math.NaN(), math.Inf(1), math.Inf(-1), 5e-324, -5e-324, 2.2250738585072014e-308, 1.7976931348623157e308, -1.7976931348623157e308,
	9007199254740992, 9007199254740993, 9007199254740991, -9007199254740992, 4503599627370496.5, 4503599627370495.5, 1e21, 1e22, 1e23, -1e21, 9.223372036854775807e18, 1.8446744073709552e19,
	1e-7, 1e-6, 123456789.123456789, 0.1, 0.2, 0.30000000000000004, 3, 7, 10, 100, 255, 256, 65535, 2147483647, 2147483648, -2147483649, 4294967296,
	1.0000000000000002, 0.9999999999999999, 5.5, -5.5, 2, -2, 1e15, 1e16, 1e17, 123456789012345680, 4.35, 0.000001, 1e-10, 3.5, -3.5, 1e300, 1e-300}

func (g *ExprGen) Double() float64 {
	r := g.R
	switch r.Intn(6) {
	case 0:
		// random bit pattern; three quarters of them with a moderate exponent
		f := math.Float64frombits(r.Next())
		if r.Chance(3, 4) && !math.IsNaN(f) && !math.IsInf(f, 0) && f != 0 {
			fr, _ := math.Frexp(f)
			f = math.Ldexp(fr, r.Intn(140)-70)
		}
		return f
	case 1:
		// small integer-ish
		return float64(r.Intn(41)-20) / float64(pick(r, []int{1, 1, 2, 4, 10}))
	case 2:
		// a power of two and its neighbours
		e := r.Intn(140) - 70
		f := math.Ldexp(1, e)
		switch r.Intn(3) {
		case 0:
			return math.Nextafter(f, 0)
		case 1:
			return math.Nextafter(f, math.Inf(1))
		}
		return f
	}
	return pick(r, doubleClasses)
}

var unicodePool = []string{"", "a", "abc", "é", "héllo wörld", "日本語", "á", "\U0001F600", "x\U0001F600y", " ", " a ", "  a  b  ", "\t\n x \r\n",
	"a b", " pad ", "-", "--", "a-b", "1", "12", "12345", " 12 ", "1.5", "abcdefghij", "ÀÉÎ", "ß", "ǅ", "aaa", "abab", "ab", "ba", "b", "xyz",
	"<&>\"'", "a'b", "tab\there", "𝒳𝒴", "é̂", "İ", "ı"}

func (g *ExprGen) Str() string {
	r := g.R
	if r.Chance(1, 5) {
		// concatenation of two pool entries
		return pick(r, unicodePool) + pick(r, unicodePool)
	}
	return pick(r, unicodePool)
}

var numberStrings = []string{"1", "12", " 12 ", "\t12\n", "-1", "- 1", "-", ".", ".5", "5.", "-.5", "1.5", "01", "00.10", "1e3", "1E3", "+1", "0x10", "1_0", "Infinity", "-Infinity",
	"inf", "nan", "NaN", "１", " 12", "12 ", "1 2", "", " ", "abc", "1a", "--1", "-0", "0", "0.0", "-0.0", "123456789012345678901234567890", "0.1", "0.30000000000000004",
	"10000000000000000000000000000000000000000000000000000000000000000000000000000000000000000000000000000000000000000000000000000000000000000000000000000000000000000000000000000000000000000000000000000000000000000000000000000000000000000000000000000000000000000000000000000000000000000000000000000000000000000000000000000000000000000000000000000000000000000000000000000000000000000000000000000000000000000", "9007199254740993", "179769313486231580793728971405303415079934132710037826936173778980444968292764750946649017977587207096330286416692887910946555547851940402630657488671505820681908902000708383676273854845817711531764475730270069855571366959622842914819860834936475292719074168444365510704342711559699508093042880177904174497791.9", "4.9e-324", "0.000000000000000000000000000000000000000000000001", "1.",
	"1.5.2", "1..2", "٣", "1 ", "\r\n7\r\n", "-\t7", "0x1p4", "1d", "1f", "1e", "e1", ".e1", "0.", "-.", "+.5", "2147483648", "4294967296", "1000000000000000000000",
	"0.5", "-0.5", "1.5", "-1.5", "2.5", "-2.5",
	"\u00a05", "5\u00a0", "\u20037", "7\u3000", "\u00852", "\v3", "4\f", "\u00a0 6 \u00a0", "\ufeff8",
	" -5", "\n\t-7.5\n", " -.5 ", "  -0", "\r-12.", " - 5", "-5 ", " -",
	// 16- and 17-digit integers: beyond 2^53 a digit-by-digit accumulation in a double rounds twice
	"99999999999999999", "28264523581331114", "90071992547409931", "12345678901234567", "9007199254740993", "-99999999999999999", "18014398509481985", "4611686018427387905"}

// A number as an expression: a literal when the value has a plain numeral, else a variable.
func (g *ExprGen) NumLiteralText() string {
	r := g.R
	switch r.Intn(6) {
	case 0:
		return strconv.Itoa(r.Intn(1000))
	case 1:
		return fmt.Sprintf("%d.%d", r.Intn(100), r.Intn(1000))
	case 2:
		return fmt.Sprintf(".%d", r.Intn(1000))
	case 3:
		return pick(r, []string{"0", "1", "2", "10", "0.5", "1.5", "2.5", "0.1", "0.2", "00012", "3.0", "9007199254740993", "0.49999999999999994", "1000000000000000000000", "123456789012345678901234567890.5", "4.35", "0.000001", "1" + strings.Repeat("0", 320), strings.Repeat("9", 400) + ".5", "0." + strings.Repeat("0", 400) + "1"})
	}
	return strconv.Itoa(r.Intn(12))
}
