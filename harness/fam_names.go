package main

import (
	"fmt"
	"github.com/ChrisTrenkamp/xsel"
	"strings"
)

func init() {
	families["C11"] = famC11
	families["C12"] = famC12
	rules["C11"] = "binding environments (aliases p/p2 for one URI, prefixes that differ between document and query, rebinding, variables of all four types incl. namespaced and node-set variables, user functions shadowing builtins " +
		"that echo arguments/context) x documents x expressions with prefixed name tests, variable references and calls; unbound prefix/variable/function references; metamorphic: consistent prefix renaming in query+bindings, and renaming the prefixes of the document's namespace declarations; " +
		"non-trivial: the expression mentions a prefix, variable or user function and does not return the empty node-set"
	rules["C12"] = "every node of every generated document as context x {name, local-name, namespace-uri} in zero- and one-argument form (arguments from reverse axes so that first-in-document-order differs from first-in-list), count() incl. non-node-set arguments, " +
		"lang(L) for language tags/ranges (primary only, region/script/private-use subtags, empty, case variants, zh/zh-TW/zh-Hant, three-letter codes) against xml:lang placements incl. empty values; non-trivial: result is not the empty string/false"
}

func randomEnv(rn *Runner, d *Doc) *Env {
	r := rn.R
	env := &Env{}
	uris := []string{"urn:u1", "urn:u2", "http://example.com/ns", "urn:other"}
	// prefixes that spell axis names and node types are legal NCNames (dedicated productions)
	for _, p := range []string{"p", "q", "r", "p2", "xml", "w", "child", "self", "text", "descendant"} {
		switch {
		case p == "xml":
			if r.Chance(1, 2) {
				env.NS = append(env.NS, NSBind{p, xmlNS})
			}
		case p == "p2":
			env.NS = append(env.NS, NSBind{p, "urn:u1"})
		case r.Chance(4, 5):
			env.NS = append(env.NS, NSBind{p, pick(r, uris)})
		}
	}
	// a binding for the empty prefix means nothing in XPath 1.0: unprefixed names are in no namespace
	if r.Chance(1, 3) {
		env.NS = append(env.NS, NSBind{"", pick(r, uris)})
	}
	// a prefix BOUND to the empty URI: none:x is the x in no namespace (bound is not the same as non-empty)
	if r.Chance(2, 3) {
		env.NS = append(env.NS, NSBind{"none", ""})
	}
	mkVal := func() VarVal {
		switch r.Intn(4) {
		case 0:
			var ps []Path
			for _, p := range d.Paths {
				if r.Chance(1, 6) {
					ps = append(ps, p)
				}
			}
			if r.Chance(1, 3) { // reverse order: a variable is returned exactly as bound
				for i, j := 0, len(ps)-1; i < j; i, j = i+1, j-1 {
					ps[i], ps[j] = ps[j], ps[i]
				}
			}
			return VarVal{Kind: "nodes", Nodes: ps}
		case 1:
			return VarVal{Kind: "num", Num: pick(r, doubleClasses)}
		case 2:
			return VarVal{Kind: "str", Str: pick(r, unicodePool)}
		}
		return VarVal{Kind: "bool", B: r.Bool()}
	}
	for _, n := range []string{"x", "y", "a", "x-y"} {
		if r.Chance(3, 4) {
			env.Vars = append(env.Vars, VarBind{"", n, mkVal()})
		}
	}
	env.Vars = append(env.Vars, VarBind{"urn:u1", "x", mkVal()}, VarBind{"urn:u2", "x", mkVal()})
	mkFun := func() UFun {
		switch r.Intn(5) {
		case 0:
			return UFun{Kind: "arg", K: r.Intn(3)}
		case 1:
			return UFun{Kind: "ctxpos"}
		case 2:
			return UFun{Kind: "ctxnodes"}
		case 3:
			return UFun{Kind: "const", Const: mkVal()}
		}
		return UFun{Kind: "argcount"}
	}
	for _, n := range []string{"f", "g", "count", "string", "position", "last", "true"} {
		if r.Chance(2, 3) {
			env.Funs = append(env.Funs, FunBind{"", n, mkFun()})
		}
	}
	env.Funs = append(env.Funs, FunBind{"urn:u1", "f", mkFun()}, FunBind{"urn:u2", "count", mkFun()})
	return env
}

func (g *ExprGen) anyArg(depth int) Expr {
	r := g.R
	switch r.Intn(7) {
	case 0:
		return num(g.NumLiteralText())
	case 1:
		return lit(pick(r, []string{"", "a", "abc", "1", "é"}))
	case 2:
		return g.NodeSet(depth, 2)
	case 3:
		return g.bindingRef(depth)
	case 4:
		return call("position")
	case 5:
		return call(pick(r, []string{"true", "false"}))
	}
	return &EPath{Steps: []*Stp{g.Step(0, 0)}}
}

// bindingRef: an expression that refers to a variable or calls a function through the bindings.
func (g *ExprGen) bindingRef(depth int) Expr {
	r := g.R
	prefixes := []string{"p", "q", "p2", "zz"}
	switch r.Intn(6) {
	case 0:
		return &EVar{RawQ{Local: pick(r, []string{"x", "y", "a", "x-y", "nope"})}}
	case 1:
		return &EVar{RawQ{HasPrefix: true, Prefix: pick(r, prefixes), Local: "x"}}
	case 2, 3:
		c := &ECall{Q: RawQ{Local: pick(r, []string{"f", "g", "count", "string", "position", "last", "true", "nofn"})}}
		for i := r.Intn(4); i > 0 && depth > 0; i-- {
			c.Args = append(c.Args, g.anyArg(depth-1))
		}
		return c
	case 4:
		c := &ECall{Q: RawQ{HasPrefix: true, Prefix: pick(r, prefixes), Local: pick(r, []string{"f", "count"})}}
		for i := r.Intn(3); i > 0 && depth > 0; i-- {
			c.Args = append(c.Args, g.anyArg(depth-1))
		}
		return c
	}
	// inside a predicate: the context node and position reach the function
	return &EPath{Abs: true, Steps: []*Stp{{Axis: "descendant", Test: NodeTest{Kind: "any"}, Preds: []Expr{g.bindingPred(depth)}}}}
}

func (g *ExprGen) bindingPred(depth int) Expr {
	r := g.R
	c := &ECall{Q: RawQ{Local: pick(r, []string{"f", "g", "position", "count"})}}
	for i := r.Intn(3); i > 0; i-- {
		c.Args = append(c.Args, g.anyArg(0))
	}
	return c
}

func mentionsBinding(e Expr) bool {
	s := SxExpr(e)
	return strings.Contains(s, "(var ") || strings.Contains(s, "(call ") || strings.Contains(s, "(qn ") || strings.Contains(s, "(nsany ")
}

// renamePrefixes applies a prefix renaming to an expression (copy).
func renamePrefixes(e Expr, m map[string]string) Expr {
	rq := func(q RawQ) RawQ {
		if q.HasPrefix {
			if n, ok := m[q.Prefix]; ok {
				q.Prefix = n
			}
		}
		return q
	}
	var re func(e Expr) Expr
	rs := func(ss []*Stp) []*Stp {
		out := make([]*Stp, len(ss))
		for i, s := range ss {
			c := *s
			if n, ok := m[c.Test.Prefix]; ok && (c.Test.Kind == "qn" || c.Test.Kind == "nsany") {
				c.Test.Prefix = n
			}
			// namespace::NAME resolves NAME through the bindings (the library's URI rule): it is a prefix too
			if n, ok := m[c.Test.Local]; ok && c.Axis == "namespace" && c.Test.Kind == "name" {
				c.Test.Local = n
			}
			c.Q = rq(c.Q)
			c.Preds = nil
			for _, p := range s.Preds {
				c.Preds = append(c.Preds, re(p))
			}
			c.Args = nil
			for _, a := range s.Args {
				c.Args = append(c.Args, re(a))
			}
			out[i] = &c
		}
		return out
	}
	re = func(e Expr) Expr {
		switch v := e.(type) {
		case *EBin:
			return &EBin{v.Op, re(v.A), re(v.B)}
		case *ENeg:
			return &ENeg{re(v.A)}
		case *EVar:
			return &EVar{rq(v.Q)}
		case *ECall:
			c := &ECall{Q: rq(v.Q)}
			for _, a := range v.Args {
				c.Args = append(c.Args, re(a))
			}
			return c
		case *EPath:
			return &EPath{v.Abs, rs(v.Steps)}
		case *EFilter:
			f := &EFilter{E: re(v.E), Steps: rs(v.Steps)}
			for _, p := range v.Preds {
				f.Preds = append(f.Preds, re(p))
			}
			return f
		}
		return e
	}
	return re(e)
}

// reservedNamesDoc: elements and attributes whose names are spelled like axis names and node types, in the namespaces
// that prefixes spelled the same way are bound to (a FIXED case: every prefix x local pair is asked on every run)
func reservedNamesCases(rn *Runner) {
	st := func(sp, n string) Event { return Event{Kind: EvStart, A: sp, B: n} }
	at := func(sp, l, v string) Event { return Event{Kind: EvAttr, A: sp, B: l, C: v} }
	tx := func(v string) Event { return Event{Kind: EvText, A: v} }
	end := Event{Kind: EvEnd}
	evs := []Event{st("", "r"), {Kind: EvNs, A: "u", B: "urn:u1"}, {Kind: EvNs, A: "w", B: "urn:u2"}}
	words := []string{"child", "self", "text", "node", "descendant", "comment", "ancestor", "attribute"}
	for i, w := range words {
		evs = append(evs, st("urn:u1", w), at("urn:u1", words[(i+1)%len(words)], "a"+w), at("urn:u2", w, "b"+w), tx("1"+w), end)
		evs = append(evs, st("urn:u2", w), at("urn:u1", w, "c"+w), tx("2"+w), end, st("", w), tx("0"+w), end)
	}
	evs = append(evs, end)
	d := rn.NewDoc(evs)
	env := &Env{NS: []NSBind{{"child", "urn:u1"}, {"self", "urn:u1"}, {"descendant", "urn:u1"}, {"text", "urn:u2"}, {"node", "urn:u2"}, {"attribute", "urn:u2"}, {"p", "urn:u1"}, {"none", ""}}}
	dos := &Stp{Axis: "descendant-or-self", Test: NodeTest{Kind: "node"}, Abbrev: true}
	for _, pfx := range []string{"child", "self", "descendant", "text", "node", "attribute", "p", "none"} {
		for _, l := range append(words, "r", "nope") {
			for _, ax := range []string{"child", "attribute"} {
				for _, t := range []NodeTest{{Kind: "qn", Prefix: pfx, Local: l}} {
					e := &EPath{Abs: true, Steps: []*Stp{dos, {Axis: ax, Test: t, Abbrev: true}}}
					q := &QCase{Doc: d, Start: Path{}, Env: env, E: e, Text: Render(e, RenderOpts{}), Family: "reserved-word-names"}
					rn.CheckQuery(q, "a name test p:x is {binding of p}x, whatever words p and x are spelled like", nonEmptyNodes)
				}
			}
		}
		e := &EPath{Abs: true, Steps: []*Stp{dos, {Axis: "child", Test: NodeTest{Kind: "nsany", Prefix: pfx}, Abbrev: true}}}
		rn.CheckQuery(&QCase{Doc: d, Start: Path{}, Env: env, E: e, Text: Render(e, RenderOpts{}), Family: "reserved-word-names"}, "p:* is every element in the binding of p", nonEmptyNodes)
	}
	// no binding at all (and only a variable, only a function): a prefix the DOCUMENT declares is still not one the QUERY has bound
	for ei, env0 := range []*Env{{}, {Vars: []VarBind{numVar("n", 1)}}, {NS: []NSBind{{"zz", "urn:zz"}}}} {
		for _, pfx := range []string{"u", "w", "xml", "xmlns"} {
			for _, e := range []Expr{
				&EPath{Abs: true, Steps: []*Stp{dos, {Axis: "child", Test: NodeTest{Kind: "nsany", Prefix: pfx}, Abbrev: true}}},
				&EPath{Abs: true, Steps: []*Stp{dos, {Axis: "child", Test: NodeTest{Kind: "qn", Prefix: pfx, Local: "child"}, Abbrev: true}}},
				&EPath{Abs: true, Steps: []*Stp{dos, {Axis: "attribute", Test: NodeTest{Kind: "qn", Prefix: pfx, Local: "self"}, Abbrev: true}}},
				call("count", &EPath{Abs: true, Steps: []*Stp{{Axis: "child", Test: NodeTest{Kind: "name", Local: "r"}, Abbrev: true}, {Axis: "child", Test: NodeTest{Kind: "nsany", Prefix: pfx}, Abbrev: true}}}),
			} {
				for _, start := range []Path{{}, {{'c', 0}}} {
					rn.CheckQuery(&QCase{Doc: d, Start: start, Env: env0, E: e, Text: Render(e, RenderOpts{}), Family: "reserved-word-names"},
						fmt.Sprintf("a prefix the query has not bound is an error, whatever the document declares (environment %d)", ei), nil)
				}
			}
		}
	}
	rn.DropDoc(d)
}

func famC11(rn *Runner) {
	reservedNamesCases(rn)
	for di := 0; di < rn.Scale(10, 150) && !rn.TooMany(); di++ {
		d := rn.genDoc(rn.Scale(45, 120))
		rn.checkCallerResults(d, "all") // a caller-implemented Result as variable and function result

		// the same document with the prefixes of its namespace declarations renamed
		evs2 := append([]Event{}, d.Events...)
		ren := map[string]string{"p": "pp", "q": "alpha", "r": "q", "": "dflt"}
		for i, e := range evs2 {
			if e.Kind == EvNs {
				if n, ok := ren[e.A]; ok && !(e.A == "" && e.B == "") {
					evs2[i].A = n
				}
			}
		}
		d2 := rn.NewDoc(evs2)
		for k := 0; k < rn.Scale(4, 8) && !rn.TooMany(); k++ {
			env := randomEnv(rn, d)
			g := NewExprGen(rn.R.Fork(), d, env)
			g.Prefixes = []string{"p", "q", "r", "p2", "w", "zz", "child", "self", "text", "descendant", "none", "none"} // none is BOUND, to the empty URI
			for i := 0; i < rn.Scale(150, 400) && !rn.TooMany(); i++ {
				var e Expr
				switch rn.R.Intn(5) {
				case 0, 1:
					e = g.bindingRef(2)
				case 2:
					// prefixed name tests on elements and attributes
					ss := []*Stp{{Axis: "descendant-or-self", Test: NodeTest{Kind: "node"}, Abbrev: true}}
					t := pick(rn.R, []NodeTest{{Kind: "qn", Prefix: pick(rn.R, g.Prefixes), Local: pick(rn.R, g.Locals)}, {Kind: "nsany", Prefix: pick(rn.R, g.Prefixes)},
						{Kind: "localany", Local: pick(rn.R, g.Locals)}, {Kind: "name", Local: pick(rn.R, g.Locals)}})
					ax := pick(rn.R, []string{"child", "attribute", "child", "self", "ancestor", "following-sibling"})
					if rn.R.Chance(1, 5) {
						// namespace::NAME: NAME is resolved through the QUERY's bindings (the library's URI rule) - the prefixes the
						// document happens to use, the implicit xml node included, do not enter into it
						ax = "namespace"
						t = NodeTest{Kind: "name", Local: pick(rn.R, []string{"p", "q", "r", "p2", "xml", "w", "zz", "child", "self"})}
					}
					ss = append(ss, &Stp{Axis: ax, Test: t, Abbrev: rn.R.Bool() && ax != "namespace"})
					e = &EPath{Abs: true, Steps: ss}
				case 3:
					e = bin(pick(rn.R, []string{"=", "+", "or", "|"}), g.bindingRef(1), g.anyArg(1))
				default:
					e = g.NodeSet(2, 3)
				}
				start := Path{}
				if !containsAbs(e) {
					start = pick(rn.R, d.Paths)
				}
				q := &QCase{Doc: d, Start: start, Env: env, E: e, Text: Render(e, RenderOpts{R: rn.R}), Family: "bindings"}
				if i < 3 && k == 0 && di == 0 {
					rn.Sample(q.Text + " with " + env.Show())
				}
				mb := mentionsBinding(e)
				r1, _ := rn.CheckQuery(q, "names resolve through the query's bindings", func(res string) bool { return mb && res != "L" })
				// consistent renaming of prefixes in the query and its bindings
				if rn.R.Chance(1, 3) {
					m := map[string]string{"p": "q", "q": "p", "p2": "second", "r": "rr", "w": "w0", "child": "text", "text": "ancestor", "self": "comment"}
					env2 := &Env{Vars: env.Vars, Funs: env.Funs}
					for _, b := range env.NS {
						if n, ok := m[b.Prefix]; ok {
							env2.NS = append(env2.NS, NSBind{n, b.URI})
						} else {
							env2.NS = append(env2.NS, b)
						}
					}
					e2 := renamePrefixes(e, m)
					q2 := &QCase{Doc: d, Start: start, Env: env2, E: e2, Text: Render(e2, RenderOpts{}), Family: "prefix-renaming"}
					r2, _ := rn.CheckQuery(q2, "invariant under consistent prefix renaming", func(res string) bool { return mb && res != "L" })
					if r1 != r2 && !(strings.HasPrefix(r1, "E") && strings.HasPrefix(r2, "E")) && !rn.TooMany() {
						rn.Report(&Replay{Family: "prefix-renaming", Clause: "result invariant under consistent renaming of prefixes in query and bindings", Kind: "query", Events: d.Events,
							Start: start.String(), Env: env, Text: q.Text, ExprSx: SxExpr(e), Doc: showEvents(d.Events), Impl: r1, Model: r2, Note: "renamed: " + q2.Text + " with " + env2.Show()},
							fmt.Sprintf("%s gives %s but the renamed %s gives %s", q.Text, r1, q2.Text, r2))
					}
				}
				// the document re-serialised with other prefixes (no namespace axis in the expression)
				// (not from a namespace node: which namespace node a path denotes depends on the prefixes)
				if rn.R.Chance(1, 3) && !strings.Contains(SxExpr(e), "(ax namespace") && !strings.Contains(SxExpr(e), "(nodes ") && !strings.Contains(env.Sx(), "(nodes (p") && !strings.Contains(start.String(), ".n") {
					q3 := &QCase{Doc: d2, Start: start, Env: env, E: e, Text: q.Text, Family: "document-prefixes"}
					r3, _ := rn.CheckQuery(q3, "invariant under re-serialising the document with other prefixes", func(res string) bool { return mb && res != "L" })
					if r1 != r3 && !(strings.HasPrefix(r1, "E") && strings.HasPrefix(r3, "E")) && !rn.TooMany() {
						rn.Report(&Replay{Family: "document-prefixes", Clause: "result does not depend on the prefixes used in the document", Kind: "query", Events: d2.Events,
							Start: start.String(), Env: env, Text: q.Text, ExprSx: SxExpr(e), Doc: showEvents(d2.Events), Impl: r3, Model: r1, Note: "model column = result on the document with the original prefixes"},
							fmt.Sprintf("%s gives %s on the document and %s after renaming its namespace prefixes", q.Text, r1, r3))
					}
				}
			}
		}
		// "a variable evaluates to exactly the bound value" - also the second time, also when the value is a node-set the
		// library itself returned (with spare capacity) and the variable has meanwhile been an operand
		{
			env := stdEnv()
			g := NewExprGen(rn.R.Fork(), d, env)
			for i := 0; i < rn.Scale(30, 120) && !rn.TooMany(); i++ {
				ea := g.NodeSet(1, 2)
				gr, err := buildCached(Render(ea, RenderOpts{}))
				if err != nil {
					continue
				}
				res, xerr := xsel.Exec(d.Root, gr, env.Settings(d.Root)...)
				A, ok := res.(xsel.NodeSet)
				if !ok || xerr != nil || len(A) == 0 {
					continue
				}
				if rn.R.Chance(1, 2) {
					// the caller may hold the nodes in any order: a variable is that value, in that order
					for i := len(A) - 1; i > 0; i-- {
						j := rn.R.Intn(i + 1)
						A[i], A[j] = A[j], A[i]
					}
				}
				bound := append(xsel.NodeSet{}, A...)
				var ps []Path
				for _, c := range A {
					p, _ := pathOf(c)
					ps = append(ps, p)
				}
				env2 := &Env{NS: env.NS, Vars: []VarBind{{"", "held", VarVal{Kind: "nodes", Nodes: ps}}}}
				settings := append(env.Settings(d.Root), xsel.WithVariable("held", A))
				hv := &EVar{RawQ{Local: "held"}}
				other := g.NodeSet(1, 1)
				var trace []string
				for _, e := range []Expr{hv, bin("|", hv, other), hv, &EFilter{E: hv, Preds: []Expr{call("last")}}, call("count", bin("|", hv, &EPath{Abs: true})), hv, call("string", hv)} {
					text := Render(e, RenderOpts{})
					gr, err := buildCached(text)
					if err != nil {
						continue
					}
					r2, x2 := xsel.Exec(d.Root, gr, settings...)
					impl := projectResult(r2, x2)
					model := rn.M.Ask((&QCase{Doc: d, Start: Path{}, Env: env2, E: e}).ModelCmd())
					for i := range bound {
						if A[i] != bound[i] {
							// the bound value itself was rewritten (compared cell by cell: node-set answers are otherwise compared as sets)
							impl = fmt.Sprintf("REWRITTEN the bound node-set: cell %d changed; answer %s", i, impl)
							break
						}
					}
					trace = append(trace, text)
					rn.Eval("heldvar|"+fmt.Sprint(d.ID)+Render(ea, RenderOpts{})+strings.Join(trace, ";"), len(trace) > 1)
					if !agree(impl, model) && !rn.TooMany() {
						rn.Report(&Replay{Family: "variable-keeps-its-value", Clause: "a variable evaluates to exactly the bound value, every time", Kind: "query", Events: d.Events, Start: ".", Env: env2,
							Text: text, ExprSx: SxExpr(e), Doc: showEvents(d.Events), Impl: impl, Model: model,
							Note: fmt.Sprintf("$held = the node-set returned by %s; evaluated in order: %s", Render(ea, RenderOpts{}), strings.Join(trace, " ; "))},
							fmt.Sprintf("with $held the result of %s, after [%s]: %s gives %s, expected %s", Render(ea, RenderOpts{}), strings.Join(trace, " ; "), text, impl, model))
						break
					}
				}
			}
		}
		rn.DropDoc(d)
		rn.DropDoc(d2)
	}
}

// langDoc: every xml:lang situation in one fixed tree - an empty value below a non-empty one, a re-declaration, a lang
// attribute in no / another namespace before and after xml:lang, none in scope, values that differ only in case
func langDoc(rn *Runner) *Doc {
	x := "http://www.w3.org/XML/1998/namespace"
	st := func(n string) Event { return Event{Kind: EvStart, B: n} }
	at := func(sp, l, v string) Event { return Event{Kind: EvAttr, A: sp, B: l, C: v} }
	tx := func(v string) Event { return Event{Kind: EvText, A: v} }
	end := Event{Kind: EvEnd}
	return rn.NewDoc([]Event{st("r"), {Kind: EvNs, A: "u", B: "urn:u1"},
		st("none"), tx("t"), end,
		st("en"), at(x, "lang", "en"), tx("t"),
		st("empty"), at(x, "lang", ""), at("", "id", "1"), tx("t"), st("below"), tx("t"), end, end,
		st("gb"), at("", "lang", "de"), at(x, "lang", "EN-gb"), tx("t"), {Kind: EvComment, A: "c"}, end,
		st("after"), at(x, "lang", "fr-CA"), at("urn:u1", "lang", "zh"), at("", "lang", "en"), st("k"), end, end,
		st("plain"), at("", "lang", "en"), tx("t"), end,
		end,
		st("x"), at(x, "lang", "x-klingon"), st("y"), at(x, "lang", "en-GB-x-priv"), {Kind: EvPI, A: "t", B: "d"}, end, end,
		end})
}

func famC12(rn *Runner) {
	langs := []string{"en", "EN", "en-US", "en-us", "en-GB", "zh", "zh-TW", "ZH-tw", "zh-Hant", "de", "", "fr", "fr-CA", "x", "x-klingon", "eng", "en-GB-x-priv", "en-GB-x", "e", "zh-", "-", "EN-gb"}
	// the fixed tree: every language from every node
	{
		d := langDoc(rn)
		for _, p := range d.Paths {
			for _, l := range langs {
				rn.scalar(d, stdEnv(), p, call("lang", lit(l)), "lang-fixed-tree", "lang(L) against the nearest xml:lang (which may be empty)", true)
			}
		}
		rn.DropDoc(d)
	}
	for di := 0; di < rn.Scale(10, 150) && !rn.TooMany(); di++ {
		d := rn.genDoc(rn.Scale(50, 130))
		env := envShuffled(rn, d)
		g := NewExprGen(rn.R.Fork(), d, env)
		uo := unorderedOperands(rn)
		for pi, p := range d.Paths {
			for k := 0; k < 2; k++ {
				rn.scalar(d, env, p, call(pick(rn.R, []string{"name", "local-name", "namespace-uri"}), uo[(pi*2+k)%len(uo)]), "name-functions-unordered", "name of the first node in document order, whatever the stored order", true)
			}
			for _, f := range []string{"name", "local-name", "namespace-uri"} {
				rn.scalar(d, env, p, call(f), "name-functions", "name of the context node", true)
				rn.scalar(d, env, p, call(f, &EPath{Steps: []*Stp{{Axis: pick(rn.R, []string{"ancestor", "ancestor-or-self", "preceding", "preceding-sibling", "parent", "following", "namespace", "attribute"}),
					Test: pick(rn.R, []NodeTest{{Kind: "node"}, {Kind: "any"}})}}}), "name-functions", "name of the first node in document order", true)
			}
			for k := 0; k < 5; k++ {
				l := pick(rn.R, langs)
				r := rn.scalar(d, env, p, call("lang", lit(l)), "lang", "lang(L) against the nearest xml:lang", true)
				if di == 0 && len(rn.St.Samples) < 4 && r == "B 1" {
					rn.Sample(fmt.Sprintf("lang('%s') from %s -> %s", l, p, r))
				}
			}
		}
		for i := 0; i < rn.Scale(150, 400) && !rn.TooMany(); i++ {
			ns := g.NodeSet(1, 2)
			start := Path{}
			if !containsAbs(ns) {
				start = pick(rn.R, d.Paths)
			}
			rn.scalar(d, env, start, call(pick(rn.R, []string{"name", "local-name", "namespace-uri", "count"}), ns), "name-functions", "function of a node-set argument", true)
			// P/f() for node functions, lang from several context nodes
			if rn.R.Chance(1, 4) {
				rn.scalar(d, env, start, call("count", pick(rn.R, []Expr{num("1"), lit("a"), call("true"), lit(""), call("false"), num("0"), bin("div", num("0"), num("0")), call("string", &EPath{Steps: []*Stp{{Axis: "child", Test: NodeTest{Kind: "name", Local: "nope"}}}}), bin("=", lit("a"), lit("b"))})), "count-non-nodeset", "count of a non-node-set is an error", true)
			}
		}
		rn.DropDoc(d)
	}
}
