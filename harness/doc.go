package main

import (
	"fmt"
	"strings"
)

// ---- abstract documents and parser events ----

const xmlNS = "http://www.w3.org/XML/1998/namespace"

type QName struct{ Space, Local string }

type NSDecl struct{ Prefix, URI string }

type Attr struct {
	Name  QName
	Value string
}

type NodeKind int

const (
	KElem NodeKind = iota
	KText
	KComment
	KPI
)

type Node struct {
	Kind   NodeKind
	Name   QName    // element
	NS     []NSDecl // namespace events emitted for the element (in order)
	Attrs  []Attr
	Kids   []*Node
	Value  string // text, comment, PI data
	Target string // PI
}

type EvKind int

const (
	EvStart EvKind = iota
	EvNs
	EvAttr
	EvText
	EvComment
	EvPI
	EvEnd
)

type Event struct {
	Kind    EvKind
	A, B, C string // start: space,local; ns: prefix,uri; attr: space,local,value; text/comment: value; pi: target,data
}

func eventsOf(kids []*Node, out []Event) []Event {
	for _, n := range kids {
		switch n.Kind {
		case KElem:
			out = append(out, Event{Kind: EvStart, A: n.Name.Space, B: n.Name.Local})
			for _, d := range n.NS {
				out = append(out, Event{Kind: EvNs, A: d.Prefix, B: d.URI})
			}
			for _, a := range n.Attrs {
				out = append(out, Event{Kind: EvAttr, A: a.Name.Space, B: a.Name.Local, C: a.Value})
			}
			out = eventsOf(n.Kids, out)
			out = append(out, Event{Kind: EvEnd})
		case KText:
			out = append(out, Event{Kind: EvText, A: n.Value})
		case KComment:
			out = append(out, Event{Kind: EvComment, A: n.Value})
		case KPI:
			out = append(out, Event{Kind: EvPI, A: n.Target, B: n.Value})
		}
	}
	return out
}

// ---- S-expression encoding for the model ----

func sxStr(s string) string {
	var b strings.Builder
	b.WriteString("(s")
	for _, r := range s {
		fmt.Fprintf(&b, " %d", r)
	}
	b.WriteString(")")
	return b.String()
}

func sxEvents(evs []Event) string {
	var b strings.Builder
	b.WriteString("(")
	for i, e := range evs {
		if i > 0 {
			b.WriteString(" ")
		}
		switch e.Kind {
		case EvStart:
			fmt.Fprintf(&b, "(start %s %s)", sxStr(e.A), sxStr(e.B))
		case EvNs:
			fmt.Fprintf(&b, "(nsd %s %s)", sxStr(e.A), sxStr(e.B))
		case EvAttr:
			fmt.Fprintf(&b, "(attr %s %s %s)", sxStr(e.A), sxStr(e.B), sxStr(e.C))
		case EvText:
			fmt.Fprintf(&b, "(text %s)", sxStr(e.A))
		case EvComment:
			fmt.Fprintf(&b, "(comment %s)", sxStr(e.A))
		case EvPI:
			fmt.Fprintf(&b, "(pi %s %s)", sxStr(e.A), sxStr(e.B))
		case EvEnd:
			b.WriteString("end")
		}
	}
	b.WriteString(")")
	return b.String()
}

func showEvents(evs []Event) string {
	var b strings.Builder
	for _, e := range evs {
		switch e.Kind {
		case EvStart:
			fmt.Fprintf(&b, "<%s ", showQ(e.A, e.B))
		case EvNs:
			fmt.Fprintf(&b, "ns(%q=%q) ", e.A, e.B)
		case EvAttr:
			fmt.Fprintf(&b, "@%s=%q ", showQ(e.A, e.B), e.C)
		case EvText:
			fmt.Fprintf(&b, "text(%q) ", e.A)
		case EvComment:
			fmt.Fprintf(&b, "comment(%q) ", e.A)
		case EvPI:
			fmt.Fprintf(&b, "pi(%q,%q) ", e.A, e.B)
		case EvEnd:
			b.WriteString("/> ")
		}
	}
	return strings.TrimSpace(b.String())
}

func showQ(space, local string) string {
	if space == "" {
		return local
	}
	return "{" + space + "}" + local
}

// ---- generator ----

type DocGen struct {
	R        *Rng
	MaxNodes int
	MaxDepth int
	count    int
	Locals   []string
	URIs     []string
	Prefixes []string
	Texts    []string
	Langs    []string
	Stress   bool // add one element with the large shapes of stressElem
}

func NewDocGen(r *Rng, maxNodes, maxDepth int) *DocGen {
	return &DocGen{
		R: r, MaxNodes: maxNodes, MaxDepth: maxDepth,
		Locals:   []string{"a", "b", "c", "d", "item", "x-y", "div", "é", "a", "b", "child", "descendant", "node", "text", "self"},
		URIs:     []string{"", "", "urn:u1", "urn:u2", "http://example.com/ns"},
		Prefixes: []string{"", "p", "q", "r", "P", "\u212a", "k"}, // prefixes are compared exactly: p / P, k / the Kelvin sign are different prefixes
		Texts: []string{"1", "2", "10", "9", " 12 ", "3.5", "-4", "abc", "", "x y", "NaN", "1e3", "0", "-0", "007",
			" ", "\t\n", "héllo", "日本", "á", "1 2", ".5", "5.", "+1", "Infinity", "100", "0.1", "true", "b", "zz", "\u00a02", "3\u2003", "\u30004\u0085",
			" -5", "\n\t-7.5\n", " -.5 ", "- 3", "-\t2", "false", "0"},
		Langs: []string{"en", "en-US", "EN-gb", "zh", "ZH-tw", "zh-Hant", "de", "", "fr-CA", "x-klingon", "eng", "en-GB-x-priv"},
	}
}

func (g *DocGen) text() string { return pick(g.R, g.Texts) }

func (g *DocGen) leaf() *Node {
	g.count++
	switch g.R.Intn(6) {
	case 0:
		return &Node{Kind: KComment, Value: g.text()}
	case 1:
		return &Node{Kind: KPI, Target: pick(g.R, []string{"t", "xml-stylesheet", "php", "t"}), Value: g.text()}
	default:
		return &Node{Kind: KText, Value: g.text()}
	}
}

func (g *DocGen) elem(depth int) *Node {
	g.count++
	n := &Node{Kind: KElem, Name: QName{pick(g.R, g.URIs), pick(g.R, g.Locals)}}
	// namespace events: the built-in parsers always emit xml first
	if g.R.Chance(2, 3) {
		n.NS = append(n.NS, NSDecl{"xml", xmlNS})
	}
	nns := g.R.Intn(4)
	if g.R.Chance(1, 2) {
		nns = 0
	}
	for i := 0; i < nns; i++ {
		d := NSDecl{pick(g.R, g.Prefixes), pick(g.R, g.URIs)}
		// a prefix with an empty URI only makes sense for the default namespace
		if d.URI == "" && d.Prefix != "" {
			d.URI = "urn:u1"
		}
		n.NS = append(n.NS, d)
	}
	// the same prefix announced again on this element after other declarations
	// (a Parser may do that; the store replaces in place), sometimes the xml prefix
	if len(n.NS) >= 2 && g.R.Chance(1, 4) {
		again := n.NS[g.R.Intn(len(n.NS)-1)]
		n.NS = append(n.NS, NSDecl{again.Prefix, pick(g.R, []string{again.URI, "urn:u2", "urn:u3"})})
	}
	// undeclaring the default namespace while other bindings are inherited
	if depth > 1 && g.R.Chance(1, 8) {
		n.NS = append(n.NS, NSDecl{"", ""})
	}
	nat := g.R.Intn(4)
	if g.R.Chance(1, 3) {
		nat = 0
	}
	seen := map[QName]bool{}
	for i := 0; i < nat; i++ {
		a := Attr{QName{"", pick(g.R, []string{"id", "a", "b", "n", "class"})}, g.text()}
		if g.R.Chance(1, 5) {
			a.Name.Space = pick(g.R, g.URIs)
		}
		if g.R.Chance(1, 6) {
			a = Attr{QName{xmlNS, "lang"}, pick(g.R, g.Langs)}
			// the XHTML idiom: a lang attribute in no (or another) namespace written BEFORE xml:lang
			if other := (QName{pick(g.R, []string{"", "", "urn:u1"}), "lang"}); g.R.Chance(1, 2) && !seen[other] && !seen[a.Name] {
				seen[other] = true
				n.Attrs = append(n.Attrs, Attr{other, pick(g.R, g.Langs)})
			}
		}
		if seen[a.Name] {
			continue
		}
		seen[a.Name] = true
		n.Attrs = append(n.Attrs, a)
	}
	if depth < g.MaxDepth {
		nk := g.R.Intn(5)
		for i := 0; i < nk && g.count < g.MaxNodes; i++ {
			if g.R.Chance(3, 5) {
				n.Kids = append(n.Kids, g.elem(depth+1))
			} else {
				n.Kids = append(n.Kids, g.leaf())
			}
		}
	}
	return n
}

// stressElem: shapes past the small sizes that optimised code paths like to special-case - many namespace nodes and
// attributes on one element, more than 64 like-named children with non-integer values, a long nesting chain
func (g *DocGen) stressElem() *Node {
	n := &Node{Kind: KElem, Name: QName{"", "big"}}
	n.NS = append(n.NS, NSDecl{"xml", xmlNS})
	for i, k := 0, 5+g.R.Intn(5); i < k; i++ {
		n.NS = append(n.NS, NSDecl{fmt.Sprintf("n%d", i), fmt.Sprintf("urn:n%d", i)})
	}
	for i, k := 0, 5+g.R.Intn(8); i < k; i++ {
		n.Attrs = append(n.Attrs, Attr{QName{"", fmt.Sprintf("k%d", i)}, g.text()})
	}
	for i, k := 0, 66+g.R.Intn(6); i < k; i++ {
		n.Kids = append(n.Kids, &Node{Kind: KElem, Name: QName{"", "item"},
			Kids: []*Node{{Kind: KText, Value: pick(g.R, []string{"0.1", "0.1", "0.2", "1", "2.5", "10", "0.3"})}}})
	}
	cur := n
	for i, k := 0, 18+g.R.Intn(6); i < k; i++ {
		kid := &Node{Kind: KElem, Name: QName{"", pick(g.R, []string{"d", "a", "b"})}}
		if i == 3 {
			kid.NS = []NSDecl{{"xml", xmlNS}, {"p", "urn:u1"}}
			kid.Attrs = []Attr{{QName{"", "id"}, "3"}}
		}
		cur.Kids = append(cur.Kids, kid)
		cur = kid
	}
	cur.Kids = append(cur.Kids, &Node{Kind: KText, Value: "deep"})
	g.count += 120
	return n
}

// Top generates the children of the root: optional prolog comments/PIs/text,
// one or more elements (a scripted Parser is not bound by XML well-formedness),
// optional epilog.
func (g *DocGen) Top() []*Node {
	g.count = 0
	var kids []*Node
	for g.R.Chance(1, 3) {
		kids = append(kids, g.leaf())
	}
	kids = append(kids, g.elem(1))
	if g.Stress {
		kids = append(kids, g.stressElem())
	}
	for g.R.Chance(1, 4) && g.count < g.MaxNodes {
		if g.R.Chance(1, 2) {
			kids = append(kids, g.elem(1))
		} else {
			kids = append(kids, g.leaf())
		}
	}
	return kids
}
