package main

import (
	"encoding/json"
	"fmt"
	"github.com/ChrisTrenkamp/xsel/node"
	"github.com/ChrisTrenkamp/xsel/parser"
	"io"
	"strconv"
	"strings"

	"github.com/ChrisTrenkamp/xsel"
)

func init() {
	families["C16"] = famC16
	rules["C16"] = "JSON values (objects/arrays nested up to depth 6 and, in one case of sixty, chains of depth 7-70 with a member after every container-valued member, empty containers, duplicate/odd/empty/unicode keys, scalars of every type at top level and inside, several concatenated top-level values) rendered with random whitespace, escapes and number spellings; " +
		"(a) xsel.ReadJson tree vs the README mapping computed by the model from the VALUE, (b) vs the adapter model run on the token stream recorded from encoding/json on the same bytes (the oracle assumption tokens = toks(value) is measured), " +
		"(c) truncations at every kind of boundary and byte mutations: error/non-error and tree must equal the adapter model on the recorded tokens; non-trivial: a container with at least one nested container or 3 members; distinct by text"
	replayers["json"] = func(rn *Runner, rp *Replay) (string, string, bool) {
		impl, model := jsonCase(rn, rp.Input)
		return impl, model, impl == model
	}
}

type JVal struct {
	Kind    string // str num bool null arr obj
	S       string // string value / number literal as spelled
	B       bool
	Items   []*JVal
	Keys    []string
	Members []*JVal
}

var jsonKeys = []string{"a", "b", "id", "name", "#obj", "#arr", "", "x y", "é", "key with \"quotes\"", "a", "0", "日本", "k\n", "\U0001F600", "true", "null", "{", "]", ":"}
var jsonStrs = []string{"", "a", "héllo", "tab\there", "quote\"", "back\\slash", " ", "\U0001F600", "line\nbreak", " ", "null", "1", "</x>", "ünï", "{", "}", "[", "]", ",", ":", "{}", "[]"}
var jsonNums = []string{"0", "-0", "1", "-1", "12", "1.5", "-2.25", "1e3", "1E-3", "1.0", "100", "0.1", "1e21", "1e-7", "123456789012345678", "2.5e+2", "9007199254740993", "4.9e-324", "1.7976931348623157e308", "0.30000000000000004", "3.0e0", "10", "1e100"}

func genJVal(r *Rng, depth int, budget *int) *JVal {
	*budget--
	k := r.Intn(10)
	if depth <= 0 || *budget <= 0 {
		k = r.Intn(5)
	}
	switch k {
	case 0:
		return &JVal{Kind: "str", S: pick(r, jsonStrs)}
	case 1, 2:
		return &JVal{Kind: "num", S: pick(r, jsonNums)}
	case 3:
		return &JVal{Kind: "bool", B: r.Bool()}
	case 4:
		return &JVal{Kind: "null"}
	case 5, 6, 7:
		v := &JVal{Kind: "arr"}
		for n := r.Intn(5); n > 0 && *budget > 0; n-- {
			v.Items = append(v.Items, genJVal(r, depth-1, budget))
		}
		return v
	}
	v := &JVal{Kind: "obj"}
	for n := r.Intn(5); n > 0 && *budget > 0; n-- {
		v.Keys = append(v.Keys, pick(r, jsonKeys))
		v.Members = append(v.Members, genJVal(r, depth-1, budget))
	}
	return v
}

func jsonWS(r *Rng) string {
	if r == nil || r.Chance(2, 3) {
		return ""
	}
	return pick(r, []string{" ", "\n", "\t", "  ", "\r\n", " \n "})
}

func jsonQuote(r *Rng, s string) string {
	var b strings.Builder
	b.WriteByte('"')
	for _, c := range s {
		switch {
		case c == '"':
			b.WriteString(`\"`)
		case c == '\\':
			b.WriteString(`\\`)
		case c < 0x20:
			fmt.Fprintf(&b, `\u%04x`, c)
		case c == '/' && r.Chance(1, 2):
			b.WriteString(`\/`)
		case c > 0x7f && c < 0x10000 && r.Chance(1, 3):
			fmt.Fprintf(&b, `\u%04x`, c)
		default:
			b.WriteRune(c)
		}
	}
	b.WriteByte('"')
	return b.String()
}

func (v *JVal) Render(r *Rng, b *strings.Builder) {
	switch v.Kind {
	case "str":
		b.WriteString(jsonQuote(r, v.S))
	case "num":
		b.WriteString(v.S)
	case "bool":
		b.WriteString(strconv.FormatBool(v.B))
	case "null":
		b.WriteString("null")
	case "arr":
		b.WriteString("[" + jsonWS(r))
		for i, x := range v.Items {
			if i > 0 {
				b.WriteString(jsonWS(r) + "," + jsonWS(r))
			}
			x.Render(r, b)
		}
		b.WriteString(jsonWS(r) + "]")
	case "obj":
		b.WriteString("{" + jsonWS(r))
		for i, x := range v.Members {
			if i > 0 {
				b.WriteString(jsonWS(r) + "," + jsonWS(r))
			}
			b.WriteString(jsonQuote(r, v.Keys[i]) + jsonWS(r) + ":" + jsonWS(r))
			x.Render(r, b)
		}
		b.WriteString(jsonWS(r) + "}")
	}
}

// the text node the README documents for a scalar
func scalarText(v *JVal) string {
	switch v.Kind {
	case "str":
		return v.S
	case "num":
		f, _ := strconv.ParseFloat(v.S, 64)
		return strconv.FormatFloat(f, 'g', -1, 64)
	case "bool":
		return strconv.FormatBool(v.B)
	}
	return "null"
}

func (v *JVal) Sx() string {
	switch v.Kind {
	case "arr":
		parts := []string{"(arr"}
		for _, x := range v.Items {
			parts = append(parts, x.Sx())
		}
		return strings.Join(parts, " ") + ")"
	case "obj":
		parts := []string{"(obj"}
		for i, x := range v.Members {
			parts = append(parts, "("+sxStr(v.Keys[i])+" "+x.Sx()+")")
		}
		return strings.Join(parts, " ") + ")"
	}
	return "(sc " + sxStr(scalarText(v)) + ")"
}

func (v *JVal) TokSx(out *[]string) {
	switch v.Kind {
	case "arr":
		*out = append(*out, "(o arr)")
		for _, x := range v.Items {
			x.TokSx(out)
		}
		*out = append(*out, "(c arr)")
	case "obj":
		*out = append(*out, "(o obj)")
		for i, x := range v.Members {
			*out = append(*out, "(v "+sxStr(v.Keys[i])+")")
			x.TokSx(out)
		}
		*out = append(*out, "(c obj)")
	default:
		*out = append(*out, "(v "+sxStr(scalarText(v))+")")
	}
}

// recordTokens: what encoding/json hands out for these bytes, in the model's vocabulary
func recordTokens(text string) (toks []string, final string) {
	dec := json.NewDecoder(strings.NewReader(text))
	for {
		tok, err := dec.Token()
		if err == io.EOF {
			return toks, "eof"
		}
		if err != nil {
			return toks, "err"
		}
		switch t := tok.(type) {
		case json.Delim:
			switch t.String() {
			case "{":
				toks = append(toks, "(o obj)")
			case "}":
				toks = append(toks, "(c obj)")
			case "[":
				toks = append(toks, "(o arr)")
			case "]":
				toks = append(toks, "(c arr)")
			}
		case bool:
			toks = append(toks, "(v "+sxStr(strconv.FormatBool(t))+")")
		case float64:
			toks = append(toks, "(v "+sxStr(strconv.FormatFloat(t, 'g', -1, 64))+")")
		case string:
			toks = append(toks, "(v "+sxStr(t)+")")
		default:
			toks = append(toks, "(v "+sxStr("null")+")")
		}
	}
}

var jsonReads int

// jsonEventBalance pulls the events of parser.ReadJson as a caller's own store would: no end event may close nothing
func jsonEventBalance(text string) string {
	defer func() { recover() }()
	p := parser.ReadJson(strings.NewReader(text))
	depth := 0
	for k := 0; k < 1000000; k++ {
		n, end, err := p.Pull()
		if err != nil {
			return ""
		}
		if end {
			depth--
			if depth < 0 {
				return fmt.Sprintf("event %d of parser.ReadJson(%q) is an end event while no element is open", k, text)
			}
			continue
		}
		if _, ok := n.(node.Element); ok {
			if _, isAttr := n.(node.Attribute); !isAttr {
				depth++
			}
		}
	}
	return ""
}

func readJsonImpl(text string) (out string) {
	if m := jsonEventBalance(text); m != "" {
		return "UNBALANCED " + m
	}
	defer func() {
		if r := recover(); r != nil {
			out = fmt.Sprintf("PANIC %v", r)
		}
	}()
	jsonReads++
	if jsonReads%5 == 0 {
		if c, err := xsel.ReadJson(&failingReader{data: []byte(`{"stale": [1, {"lost": `)}); err == nil {
			return fmt.Sprintf("ACCEPTED an input whose reader failed (cursor nil: %v)", c == nil)
		}
	}
	c, err := xsel.ReadJson(readerFor([]byte(text), jsonReads))
	if err != nil {
		return "E"
	}
	if c == nil {
		return "NIL-NIL"
	}
	var b strings.Builder
	dumpTree(c, true, &b)
	return b.String()
}

func jsonCase(rn *Runner, text string) (impl, model string) {
	impl = readJsonImpl(text)
	toks, final := recordTokens(text)
	model = rn.M.Ask(fmt.Sprintf("(json (%s) %s)", strings.Join(toks, " "), final))
	return impl, model
}

// deepJ: containers nested to the given depth; at every level the container-valued member is followed by another member
func deepJ(r *Rng, depth int) *JVal {
	if depth <= 0 {
		return &JVal{Kind: "num", S: pick(r, jsonNums)}
	}
	inner := deepJ(r, depth-1)
	if r.Chance(1, 3) {
		return &JVal{Kind: "arr", Items: []*JVal{inner, {Kind: "str", S: "after"}}}
	}
	return &JVal{Kind: "obj", Keys: []string{"k", "z"}, Members: []*JVal{inner, {Kind: "num", S: "2"}}}
}

func famC16(rn *Runner) {
	n := rn.Scale(1500, 30000)
	for i := 0; i < n && !rn.TooMany(); i++ {
		r := rn.R.Fork()
		var vals []*JVal
		nv := 1
		if r.Chance(1, 5) {
			nv = 1 + r.Intn(3)
		}
		if r.Chance(1, 40) {
			nv = 0
		}
		budget := rn.Scale(40, 150)
		for k := 0; k < nv; k++ {
			vals = append(vals, genJVal(r, 1+r.Intn(6), &budget))
		}
		if i%60 == 7 {
			// nesting beyond the initial capacity of any stack (8, 16, 32, 64 and their neighbours)
			vals = []*JVal{deepJ(r, pick(r, []int{7, 8, 9, 15, 16, 17, 31, 32, 33, 63, 64, 65, 70}))}
		}
		if deep := []int{127, 128, 129, 255, 256, 257, 511, 512, 513, 600, 1023, 1024, 1025, 2049}; i%60 == 31 && i/60 < len(deep) {
			// and beyond any limit a reader might think generous (every run, the same depths)
			vals = []*JVal{deepJ(r, deep[i/60])}
		}
		var b strings.Builder
		var sx, want []string
		for k, v := range vals {
			if k > 0 {
				b.WriteString(pick(r, []string{" ", "\n", "  "}))
			}
			b.WriteString(jsonWS(r))
			v.Render(r, &b)
			sx = append(sx, v.Sx())
			v.TokSx(&want)
		}
		text := b.String()
		if i < 4 {
			rn.Sample(text)
		}
		nontrivial := strings.Count(text, "[")+strings.Count(text, "{") >= 2 || strings.Count(text, ":") >= 3
		rn.Eval(text, nontrivial)
		rn.Count(fmt.Sprintf("top-level-values:%d", nv))
		// (a) against the README mapping of the VALUE
		impl := readJsonImpl(text)
		spec := rn.M.Ask(fmt.Sprintf("(jsonspec (%s))", strings.Join(sx, " ")))
		if impl != spec {
			rn.Report(&Replay{Family: "json-mapping", Clause: "tree = README mapping of the value", Kind: "json", Input: text, Impl: impl, Model: spec},
				fmt.Sprintf("ReadJson(%q): implementation %s, documented mapping %s", text, impl, spec))
			continue
		}
		// (b) the adapter model on the recorded tokens; the oracle assumption is measured
		toks, final := recordTokens(text)
		if strings.Join(toks, " ") != strings.Join(want, " ") || final != "eof" {
			rn.Count("oracle:tokens-differ-from-toks(value)")
		}
		_, model := jsonCase(rn, text)
		if impl != model {
			rn.Report(&Replay{Family: "json-adapter", Clause: "tree = adapter model on the recorded tokens", Kind: "json", Input: text, Impl: impl, Model: model},
				fmt.Sprintf("ReadJson(%q): implementation %s, adapter model %s", text, impl, model))
			continue
		}
		// (c) truncations and mutations
		for k := 0; k < 6 && len(text) > 0; k++ {
			var t2, kind string
			switch r.Intn(4) {
			case 0, 1:
				t2, kind = text[:r.Intn(len(text))], "truncated"
			case 2:
				p := r.Intn(len(text))
				t2, kind = text[:p]+text[p+1:], "byte-deleted"
			default:
				p := r.Intn(len(text))
				t2, kind = text[:p]+pick(r, []string{"]", "}", ",", "{", "[", ":", "\"", "x", "0", " "})+text[p:], "byte-inserted"
			}
			i2, m2 := jsonCase(rn, t2)
			rn.Eval(kind+"|"+t2, i2 == "E")
			if i2 == "E" {
				rn.Count("malformed:" + kind + ":error")
			} else {
				rn.Count("malformed:" + kind + ":accepted")
			}
			if i2 != m2 && !rn.TooMany() {
				rn.Report(&Replay{Family: "json-malformed", Clause: kind + " JSON: error/tree equals the adapter model on the recorded tokens", Kind: "json", Input: t2, Impl: i2, Model: m2},
					fmt.Sprintf("ReadJson(%q) [%s]: implementation %s, adapter model %s", t2, kind, i2, m2))
			}
		}
	}
}
