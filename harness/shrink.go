package main

// shrinkQuery minimises a disagreeing query case while the disagreement persists.
func (rn *Runner) shrinkQuery(q *QCase, impl, model string) (*QCase, string, string) {
	cur, ci, cm := q, impl, model
	budget := 400
	if len(q.Doc.Events) > 1000 {
		budget = 0 // the large documents are fixed ones with minimal queries; an attempt costs the model seconds
	}
	try := func(c *QCase) bool {
		if budget <= 0 {
			return false
		}
		budget--
		i := c.RunImpl()
		m := rn.M.Ask(c.ModelCmd())
		if len(m) > 0 && m[0] == '!' {
			return false
		}
		if !agree(i, m) {
			cur, ci, cm = c, i, m
			return true
		}
		return false
	}
	for progress := true; progress && budget > 0; {
		progress = false
		for _, e := range reductions(cur.E) {
			c := *cur
			c.E = e
			c.Text = Render(e, RenderOpts{})
			if try(&c) {
				progress = true
				break
			}
		}
	}
	return cur, ci, cm
}

func replaceIdx(es []Expr, i int, e Expr) []Expr {
	out := append([]Expr{}, es...)
	out[i] = e
	return out
}

func dropIdx[T any](xs []T, i int) []T {
	out := append([]T{}, xs[:i]...)
	return append(out, xs[i+1:]...)
}

func stepReductions(ss []*Stp, rebuild func([]*Stp) Expr) []Expr {
	var out []Expr
	if len(ss) > 1 {
		for i := range ss {
			out = append(out, rebuild(dropIdx(ss, i)))
		}
	}
	for i, s := range ss {
		if s.IsCall {
			for j, a := range s.Args {
				for _, r := range reductions(a) {
					c := *s
					c.Args = replaceIdx(s.Args, j, r)
					ns := append([]*Stp{}, ss...)
					ns[i] = &c
					out = append(out, rebuild(ns))
				}
			}
			continue
		}
		for j, p := range s.Preds {
			c := *s
			c.Preds = dropIdx(s.Preds, j)
			ns := append([]*Stp{}, ss...)
			ns[i] = &c
			out = append(out, rebuild(ns))
			for _, r := range reductions(p) {
				c2 := *s
				c2.Preds = replaceIdx(s.Preds, j, r)
				ns2 := append([]*Stp{}, ss...)
				ns2[i] = &c2
				out = append(out, rebuild(ns2))
			}
		}
	}
	return out
}

// reductions lists one-step simplifications of an expression.
func reductions(e Expr) []Expr {
	var out []Expr
	switch v := e.(type) {
	case *EBin:
		out = append(out, v.A, v.B)
		for _, r := range reductions(v.A) {
			out = append(out, &EBin{v.Op, r, v.B})
		}
		for _, r := range reductions(v.B) {
			out = append(out, &EBin{v.Op, v.A, r})
		}
	case *ENeg:
		out = append(out, v.A)
		for _, r := range reductions(v.A) {
			out = append(out, &ENeg{r})
		}
	case *ECall:
		for i, a := range v.Args {
			out = append(out, a)
			for _, r := range reductions(a) {
				out = append(out, &ECall{v.Q, replaceIdx(v.Args, i, r)})
			}
		}
	case *EPath:
		out = append(out, stepReductions(v.Steps, func(ss []*Stp) Expr { return &EPath{v.Abs, ss} })...)
		for _, s := range v.Steps {
			for _, p := range s.Preds {
				out = append(out, p)
			}
		}
	case *EFilter:
		out = append(out, v.E)
		if len(v.Steps) > 0 {
			out = append(out, &EFilter{v.E, v.Preds, nil})
		}
		for i := range v.Preds {
			out = append(out, &EFilter{v.E, dropIdx(v.Preds, i), v.Steps})
		}
		for _, r := range reductions(v.E) {
			out = append(out, &EFilter{r, v.Preds, v.Steps})
		}
		for i, p := range v.Preds {
			for _, r := range reductions(p) {
				out = append(out, &EFilter{v.E, replaceIdx(v.Preds, i, r), v.Steps})
			}
		}
		out = append(out, stepReductions(v.Steps, func(ss []*Stp) Expr { return &EFilter{v.E, v.Preds, ss} })...)
	}
	return out
}
