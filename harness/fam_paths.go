package main

import (
	"fmt"
	"github.com/ChrisTrenkamp/xsel"
	"strings"
)

func init() {
	families["C01"] = famC01
	families["C02"] = famC02
	families["C03"] = famC03
	families["C18"] = famC18
	rules["C01"] = "per generated document (scripted parser, all node kinds, namespaces declared/inherited/overridden, top-level comments/PIs): EVERY node as context x 13 axes x 12 node tests (enumerated), " +
		"plus random multi-step paths with abbreviations (@ . .. // implicit child) and absolute paths nested in predicates and arguments, reverse-axis steps continued with //, " +
		"and the node universe of each document (all namespace nodes, all attributes, all tree nodes, their unions and counts); observable: list of result node paths (identity by Parent()/list membership, never Pos()) vs the extracted model; " +
		"non-trivial: non-empty result; distinct by (document, start node, expression text)"
	rules["C02"] = "paths whose steps/filter expressions carry 1-3 predicates (integers in and out of range, k+0.5, NaN, last(), last()-k, position() op k, context-dependent numbers such as count(x), number(@*), position(), last()+1-position(), boolean, node-set, string, nested, absolute paths, filters over bound node-sets $v[k]) from every 3rd node of each document; " +
		"filter expressions (E)[p], (E)[p]/s, $v/s, f()//s; metamorphic pairs P[n] vs P[position()=n], P[last()] vs P[position()=last()] on the implementation; non-trivial: result non-empty and smaller than the unfiltered step result"
	rules["C03"] = "node-set valued expressions of every family (multi-context steps, //x/.., ancestor::* from siblings, attribute/namespace steps after reverse steps, unions); checked on the implementation's output directly " +
		"(no duplicate paths, every path valid, strictly monotone in true document order, ascending when no reverse axis/for unions) and against the model; union laws A|B=B|A, (A|B)|C=A|(B|C), A|A=A, count(A|B)=count(A)+count(B)-|A and B| across separately executed queries, and again on the node-sets two queries RETURNED, bound as $A and $B (the caller's slices, with their spare capacity) and combined repeatedly; non-trivial: >= 2 nodes"
	rules["C18"] = "every node of each document as starting cursor x relative expressions (may leave the subtree); every split point of generated paths P/R: Exec(root,P/R) vs union over n in Exec(root,P) of Exec(n,R); P/f() vs f(P) for the context-dependent builtins; non-trivial: non-empty result"
}

func nonEmptyNodes(res string) bool { return strings.HasPrefix(res, "L ") }
func twoNodes(res string) bool      { return len(strings.Fields(res)) >= 3 }

func (rn *Runner) genDoc(maxNodes int) *Doc {
	g := NewDocGen(rn.R.Fork(), maxNodes, 6)
	rn.docsMade++
	g.Stress = rn.stressEvery > 0 && rn.docsMade%rn.stressEvery == 1 // families that opt in get the large shapes in some documents
	top := g.Top()
	d := rn.NewDoc(eventsOf(top, nil))
	rn.Count(fmt.Sprintf("doc-nodes:%d", (len(d.Paths)/20)*20))
	return d
}

var c01Tests = []NodeTest{{Kind: "any"}, {Kind: "node"}, {Kind: "text"}, {Kind: "comment"}, {Kind: "pi"}, {Kind: "pit", Local: "t"},
	{Kind: "name", Local: "a"}, {Kind: "name", Local: "nope"}, {Kind: "nsany", Prefix: "p"}, {Kind: "localany", Local: "b"},
	{Kind: "qn", Prefix: "p", Local: "a"}, {Kind: "qn", Prefix: "q", Local: "item"}, {Kind: "name", Local: "lang"}, {Kind: "qn", Prefix: "xml", Local: "lang"},
	{Kind: "name", Local: "p"}, {Kind: "name", Local: "text"}, {Kind: "qn", Prefix: "child", Local: "descendant"}, {Kind: "qn", Prefix: "text", Local: "node"},
	// an UNBOUND prefix: an error, not the no-namespace names
	{Kind: "nsany", Prefix: "zz"}, {Kind: "qn", Prefix: "zz", Local: "a"}}

func famC01(rn *Runner) {
	env := stdEnv()
	ndocs := rn.Scale(10, 150)
	for di := 0; di < ndocs && !rn.TooMany(); di++ {
		d := rn.genDoc(rn.Scale(40, 120))
		if di == 0 {
			rn.Sample("document: " + showEvents(d.Events))
		}
		// enumerated single steps from every node
		for _, start := range d.Paths {
			for _, ax := range allAxes {
				for _, t := range c01Tests {
					if ax == "namespace" && !(t.Kind == "any" || t.Kind == "node" || t.Kind == "text" || t.Kind == "comment" || t.Kind == "pi") {
						continue
					}
					e := &EPath{Steps: []*Stp{{Axis: ax, Test: t}}}
					q := &QCase{Doc: d, Start: start, Env: env, E: e, Text: Render(e, RenderOpts{}), Family: "axis-step"}
					rn.CheckQuery(q, "axis::node-test selects exactly the XPath set", nonEmptyNodes)
					if rn.TooMany() {
						return
					}
				}
			}
		}
		rn.Sample(fmt.Sprintf("enumerated %d nodes x 13 axes x %d node tests", len(d.Paths), len(c01Tests)))
		// abbreviations vs expansions, random multi-step paths, absolute paths in predicates/arguments
		g := NewExprGen(rn.R.Fork(), d, env)
		n := rn.Scale(400, 1500)
		for i := 0; i < n && !rn.TooMany(); i++ {
			var e Expr
			fam := "multi-step"
			switch rn.R.Intn(4) {
			case 0:
				fam = "absolute-nested"
				inner := &EPath{Abs: true, Steps: g.Steps(1, 1+rn.R.Intn(2), 0)}
				switch rn.R.Intn(3) {
				case 0:
					e = &EPath{Abs: rn.R.Bool(), Steps: []*Stp{g.Step(0, 0), {Axis: "child", Test: NodeTest{Kind: "any"}, Preds: []Expr{inner}, Abbrev: true}}}
				case 1:
					e = call("count", inner)
				default:
					e = &EPath{Steps: []*Stp{{Axis: "descendant-or-self", Test: NodeTest{Kind: "node"}, Preds: []Expr{bin("=", call("count", inner), call("count", &EPath{Abs: true, Steps: inner.Steps}))}}}}
				}
			case 1:
				// a name test inside a predicate of an attribute / namespace step: the principal node
				// type of the enclosing step's axis must not leak into the nested expression
				fam = "nested-principal-type"
				var inner Expr = &EPath{Abs: rn.R.Chance(1, 4), Steps: g.Steps(0, 1+rn.R.Intn(2), 0)}
				if rn.R.Chance(1, 3) {
					inner = bin("=", call("count", inner), num(fmt.Sprint(rn.R.Intn(3))))
				}
				outer := &Stp{Axis: pick(rn.R, []string{"attribute", "attribute", "namespace"}), Test: NodeTest{Kind: pick(rn.R, []string{"any", "node"})}, Preds: []Expr{inner}}
				if outer.Axis == "attribute" {
					outer.Abbrev = rn.R.Bool()
				}
				e = &EPath{Abs: true, Steps: []*Stp{{Axis: "descendant-or-self", Test: NodeTest{Kind: "node"}, Abbrev: true}, outer}}
			default:
				e = g.Path(1, 0)
			}
			start := pick(rn.R, d.Paths)
			if containsAbs(e) {
				start = Path{} // absolute paths are only checked with Exec on the root cursor (DESIGN 11)
			}
			q := &QCase{Doc: d, Start: start, Env: env, E: e, Text: Render(e, RenderOpts{R: rn.R}), Family: fam}
			if i < 3 {
				rn.Sample(q.Text + " from " + start.String())
			}
			rn.CheckQuery(q, "multi-step path / abbreviation / absolute path", nonEmptyNodes)
			// the same AST without abbreviations must give the same answer
			if rn.R.Chance(1, 3) {
				q2 := *q
				q2.Text = Render(e, RenderOpts{NoAbbrev: true})
				q2.Family = "expanded-form"
				rn.CheckQuery(&q2, "abbreviated form equals its expansion", nonEmptyNodes)
			}
		}
		// the whole node universe and its kinds: distinct nodes must stay distinct when sets are merged
		dos := &Stp{Axis: "descendant-or-self", Test: NodeTest{Kind: "node"}, Abbrev: true}
		allNs := &EPath{Abs: true, Steps: []*Stp{dos, {Axis: "namespace", Test: NodeTest{Kind: "node"}}}}
		allAt := &EPath{Abs: true, Steps: []*Stp{dos, {Axis: "attribute", Test: NodeTest{Kind: "any"}, Abbrev: true}}}
		allTree := &EPath{Abs: true, Steps: []*Stp{{Axis: "descendant-or-self", Test: NodeTest{Kind: "node"}}}}
		allEl := &EPath{Abs: true, Steps: []*Stp{dos, {Axis: "child", Test: NodeTest{Kind: "any"}, Abbrev: true}}}
		for _, e := range []Expr{allNs, allAt, allTree, bin("|", allNs, allEl), bin("|", allAt, allNs), bin("|", bin("|", allTree, allAt), allNs),
			&EPath{Abs: true, Steps: []*Stp{dos, {Axis: "child", Test: NodeTest{Kind: "any"}, Abbrev: true}, {Axis: "namespace", Test: NodeTest{Kind: "any"}}}},
			call("count", bin("|", bin("|", allTree, allAt), allNs))} {
			q := &QCase{Doc: d, Start: Path{}, Env: env, E: e, Text: Render(e, RenderOpts{}), Family: "universe"}
			rn.CheckQuery(q, "every node of the document, by kind and all together", func(string) bool { return true })
		}
		// a reverse-axis step that selects several nodes, continued with // (its input arrives in reverse document order)
		for i := 0; i < rn.Scale(60, 200) && !rn.TooMany(); i++ {
			rev := &Stp{Axis: pick(rn.R, []string{"ancestor", "ancestor-or-self", "preceding", "preceding-sibling"}), Test: pick(rn.R, []NodeTest{{Kind: "any"}, {Kind: "node"}})}
			last := g.Step(0, 0)
			last.Axis, last.Abbrev = "child", true
			if last.Test.Kind == "text" || rn.R.Chance(1, 3) {
				last.Test = NodeTest{Kind: pick(rn.R, []string{"any", "node"})}
			}
			e := &EPath{Steps: []*Stp{rev, dos, last}}
			q := &QCase{Doc: d, Start: pick(rn.R, d.Paths), Env: env, E: e, Text: Render(e, RenderOpts{R: rn.R}), Family: "reverse-then-descendants"}
			rn.CheckQuery(q, "E//x is E/descendant-or-self::node()/x whatever order E arrives in", twoNodes)
		}
		rn.DropDoc(d)
	}
}

func containsAbs(e Expr) bool {
	found := false
	var we func(e Expr)
	ws := func(ss []*Stp) {
		for _, s := range ss {
			for _, p := range s.Preds {
				we(p)
			}
			for _, a := range s.Args {
				we(a)
			}
		}
	}
	we = func(e Expr) {
		switch v := e.(type) {
		case *EBin:
			we(v.A)
			we(v.B)
		case *ENeg:
			we(v.A)
		case *ECall:
			for _, a := range v.Args {
				we(a)
			}
		case *EPath:
			if v.Abs {
				found = true
			}
			ws(v.Steps)
		case *EFilter:
			we(v.E)
			for _, p := range v.Preds {
				we(p)
			}
			ws(v.Steps)
		}
	}
	we(e)
	return found
}

// envWithNodeVars binds $v (document order), $w (reverse order) and the function nodes().
func envWithNodeVars(rn *Runner, d *Doc) *Env {
	env := stdEnv()
	var fw, bw []Path
	for _, p := range d.Paths {
		if rn.R.Chance(1, 4) {
			fw = append(fw, p)
		}
	}
	for i := len(d.Paths) - 1; i >= 0; i-- {
		if rn.R.Chance(1, 5) {
			bw = append(bw, d.Paths[i])
		}
	}
	env.Vars = append(env.Vars, VarBind{"", "v", VarVal{Kind: "nodes", Nodes: fw}}, VarBind{"", "w", VarVal{Kind: "nodes", Nodes: bw}})
	env.Funs = append(env.Funs, FunBind{"", "nodes", UFun{Kind: "ctxnodes"}})
	return env
}

// envShuffled binds $u to 3-8 nodes in a random order (the first in document order is usually neither first nor last)
// and $w to a selection in reverse document order.
func envShuffled(rn *Runner, d *Doc) *Env {
	env := envWithNodeVars(rn, d)
	n := 3 + rn.R.Intn(6)
	var us []Path
	for i := 0; i < n && i < len(d.Paths); i++ {
		us = append(us, pick(rn.R, d.Paths))
	}
	for i := len(us) - 1; i > 0; i-- {
		j := rn.R.Intn(i + 1)
		us[i], us[j] = us[j], us[i]
	}
	env.Vars = append(env.Vars, VarBind{"", "u", VarVal{Kind: "nodes", Nodes: us}})
	return env
}

// unorderedOperands: node-set arguments whose stored order is not document order, and sets mixing the
// attributes and namespace nodes of one element
func unorderedOperands(rn *Runner) []Expr {
	at := &EPath{Steps: []*Stp{{Axis: "attribute", Test: NodeTest{Kind: "any"}, Abbrev: true}}}
	ns := &EPath{Steps: []*Stp{{Axis: "namespace", Test: NodeTest{Kind: "any"}}}}
	anc := &EPath{Steps: []*Stp{{Axis: "ancestor-or-self", Test: NodeTest{Kind: "any"}}, {Axis: "attribute", Test: NodeTest{Kind: "any"}, Abbrev: true}}}
	ch := &EPath{Steps: []*Stp{{Axis: "child", Test: NodeTest{Kind: "node"}}}}
	return []Expr{v("u"), v("w"), bin("|", at, ns), bin("|", ns, at), bin("|", ch, bin("|", ns, at)), anc,
		&EPath{Steps: []*Stp{{Axis: "preceding-sibling", Test: NodeTest{Kind: "node"}}}}, &EPath{Steps: []*Stp{{Axis: "preceding", Test: NodeTest{Kind: "any"}}}},
		&EFilter{E: v("u"), Steps: []*Stp{{Axis: "self", Test: NodeTest{Kind: "node"}, Abbrev: true}}}}
}

func famC02(rn *Runner) {
	ndocs := rn.Scale(12, 200)
	for di := 0; di < ndocs && !rn.TooMany(); di++ {
		d := rn.genDoc(rn.Scale(45, 130))
		env := envShuffled(rn, d) // $v in document order, $w in reverse, $u in an arbitrary order
		g := NewExprGen(rn.R.Fork(), d, env)
		n := rn.Scale(700, 2500)
		for i := 0; i < n && !rn.TooMany(); i++ {
			var e Expr
			fam := "step-predicates"
			switch rn.R.Intn(7) {
			case 0, 1:
				p := g.Path(2, 7)
				e = p
			case 6:
				// a predicate of element name tests on an attribute / namespace step
				fam = "predicates-on-attribute-and-namespace-steps"
				st := &Stp{Axis: pick(rn.R, []string{"attribute", "attribute", "namespace"}), Test: NodeTest{Kind: "any"}, Preds: []Expr{g.PrincipalPred()}}
				if st.Axis == "attribute" {
					st.Abbrev = rn.R.Chance(1, 2)
					if rn.R.Chance(1, 3) {
						st.Test = NodeTest{Kind: "name", Local: pick(rn.R, g.Locals)}
					}
				}
				if rn.R.Chance(1, 3) {
					st.Preds = append(st.Preds, g.Pred(0))
				}
				e = &EPath{Abs: true, Steps: []*Stp{{Axis: "descendant-or-self", Test: NodeTest{Kind: "node"}, Abbrev: true}, st}}
			case 5:
				// $w/step[$w[k]]: the bound node-set is read (and filtered) again while the step iterates over it
				fam = "binding-reread"
				name := pick(rn.R, []string{"v", "w", "w", "u"})
				st := &Stp{Axis: pick(rn.R, []string{"child", "child", "self", "descendant", "attribute", "parent"}), Test: NodeTest{Kind: "node"}, Preds: []Expr{g.VarFilterPred(name)}}
				if st.Axis == "child" || st.Axis == "attribute" {
					st.Test = NodeTest{Kind: "any"}
				}
				e = &EFilter{E: &EVar{RawQ{Local: name}}, Steps: []*Stp{st}}
			case 2:
				fam = "filter-expr"
				f := &EFilter{E: g.NodeSet(1, 3)}
				if rn.R.Chance(1, 4) {
					// a caller-supplied node-set in an arbitrary order: numbered in document order all the same
					f.E = &EVar{RawQ{Local: pick(rn.R, []string{"u", "u", "w"})}}
				}
				f.Preds = append(f.Preds, g.Pred(1))
				if rn.R.Chance(1, 2) {
					f.Preds = append(f.Preds, g.Pred(1))
				}
				if rn.R.Chance(1, 2) {
					f.Steps = g.Steps(1, 1+rn.R.Intn(2), 3)
				}
				e = f
			case 3:
				fam = "filter-path"
				var base Expr
				switch rn.R.Intn(3) {
				case 0:
					base = &EVar{RawQ{Local: pick(rn.R, []string{"v", "w", "u"})}}
				case 1:
					base = call("nodes")
				default:
					base = g.Path(1, 3)
				}
				ff := &EFilter{E: base, Steps: g.Steps(1, 1+rn.R.Intn(2), 5)}
				if rn.R.Chance(1, 3) {
					// (E)//step: the abbreviated continuation
					ff.Steps = append([]*Stp{{Axis: "descendant-or-self", Test: NodeTest{Kind: "node"}, Abbrev: true}}, ff.Steps...)
				}
				e = ff
			default:
				fam = "reverse-axis-predicates"
				ax := pick(rn.R, []string{"ancestor", "ancestor-or-self", "preceding", "preceding-sibling"})
				s := &Stp{Axis: ax, Test: pick(rn.R, []NodeTest{{Kind: "any"}, {Kind: "node"}}), Preds: []Expr{g.Pred(1)}}
				if rn.R.Chance(1, 3) {
					s.Preds = append(s.Preds, g.Pred(0))
				}
				e = &EPath{Abs: true, Steps: []*Stp{{Axis: "descendant-or-self", Test: NodeTest{Kind: "node"}, Abbrev: true}, g.Step(0, 0), s}}
			}
			start := Path{}
			if !containsAbs(e) {
				start = pick(rn.R, d.Paths)
			}
			q := &QCase{Doc: d, Start: start, Env: env, E: e, Text: Render(e, RenderOpts{R: rn.R}), Family: fam}
			if i < 4 && di == 0 {
				rn.Sample(q.Text + " from " + start.String())
			}
			rn.CheckQuery(q, "predicate numbering / context size / filter expressions", nonEmptyNodes)
		}
		// a filter expression with a RELATIVE operand inside a step predicate: the operand is evaluated anew for every context node
		// (every axis x [1], [2], [last()]; no random draw)
		for _, ax := range allAxes {
			for pi, pr := range []Expr{num("1"), num("2"), call("last")} {
				t := NodeTest{Kind: "node"}
				if ax == "child" || ax == "attribute" || ax == "descendant" {
					t = NodeTest{Kind: "any"}
				}
				f := &EFilter{E: &EPath{Steps: []*Stp{{Axis: ax, Test: t}}}, Preds: []Expr{pr}}
				var e Expr = &EPath{Abs: true, Steps: []*Stp{{Axis: "descendant-or-self", Test: NodeTest{Kind: "node"}, Abbrev: true}, {Axis: "child", Test: NodeTest{Kind: "any"}, Abbrev: true, Preds: []Expr{f}}}}
				if pi == 1 {
					// the same operand text twice in one query, and the filtered node used further
					e = &EPath{Abs: true, Steps: []*Stp{{Axis: "descendant-or-self", Test: NodeTest{Kind: "node"}, Abbrev: true}, {Axis: "child", Test: NodeTest{Kind: "any"}, Abbrev: true,
						Preds: []Expr{bin("=", call("count", &EFilter{E: f.E, Preds: []Expr{num("1")}, Steps: []*Stp{{Axis: "ancestor-or-self", Test: NodeTest{Kind: "node"}}}}), call("count", &EPath{Steps: []*Stp{{Axis: "ancestor-or-self", Test: NodeTest{Kind: "node"}}}}))}}}}
				}
				rn.CheckQuery(&QCase{Doc: d, Start: Path{}, Env: env, E: e, Text: Render(e, RenderOpts{}), Family: "filter-expr-in-predicate"},
					"a filter expression in a predicate is evaluated for each context node", nonEmptyNodes)
			}
		}
		// metamorphic pairs on the implementation alone
		for i := 0; i < rn.Scale(150, 500) && !rn.TooMany(); i++ {
			base := g.Path(1, 0)
			if len(base.Steps) == 0 {
				continue
			}
			k := fmt.Sprint(1 + rn.R.Intn(4))
			withPred := func(p Expr) Expr {
				ss := append([]*Stp{}, base.Steps...)
				last := *ss[len(ss)-1]
				last.Preds = append(append([]Expr{}, last.Preds...), p)
				ss[len(ss)-1] = &last
				return &EPath{Abs: base.Abs, Steps: ss}
			}
			pairs := [][2]Expr{
				{withPred(num(k)), withPred(bin("=", call("position"), num(k)))},
				{withPred(call("last")), withPred(bin("=", call("position"), call("last")))},
			}
			for _, pr := range pairs {
				start := Path{}
				t1, t2 := Render(pr[0], RenderOpts{}), Render(pr[1], RenderOpts{})
				q1 := &QCase{Doc: d, Start: start, Env: env, E: pr[0], Text: t1, Family: "metamorphic"}
				q2 := &QCase{Doc: d, Start: start, Env: env, E: pr[1], Text: t2, Family: "metamorphic"}
				r1, _ := rn.CheckQuery(q1, "[n] is [position()=n]", nonEmptyNodes)
				r2, _ := rn.CheckQuery(q2, "[n] is [position()=n]", nonEmptyNodes)
				if r1 != r2 && !rn.TooMany() {
					rn.Report(&Replay{Family: "metamorphic", Clause: "[n] == [position()=n] / [last()] == [position()=last()]", Kind: "query", Events: d.Events,
						Start: start.String(), Env: env, Text: t1, ExprSx: SxExpr(pr[0]), Doc: showEvents(d.Events), Impl: r1, Model: r2,
						Note: "second query: " + t2}, fmt.Sprintf("%s gives %s but %s gives %s", t1, r1, t2, r2))
				}
			}
		}
		rn.DropDoc(d)
	}
}

// nodeSetInvariants checks C03's clauses directly on an implementation result.
func nodeSetInvariants(d *Doc, res string, wantAscending bool) string {
	if !strings.HasPrefix(res, "L") {
		return ""
	}
	ps := parseNodeList(res)
	seen := map[string]bool{}
	for _, p := range ps {
		if p == "?" {
			return "a returned cursor is not a node of the queried document"
		}
		if seen[p] {
			return "duplicate node " + p
		}
		seen[p] = true
		if cursorAt(d.Root, parsePath(p)) == nil {
			return "node not in document " + p
		}
	}
	if wantAscending {
		if !strictlyAscending(ps) {
			return "not in ascending document order"
		}
	} else if !strictlyAscending(ps) && !strictlyDescending(ps) {
		return "neither ascending nor descending document order"
	}
	return ""
}

func usesReverseAxis(e Expr) bool {
	s := SxExpr(e)
	for _, ax := range []string{"(ax ancestor", "(ax preceding"} {
		if strings.Contains(s, ax) {
			return true
		}
	}
	return strings.Contains(s, "(var ") // a variable is returned as bound
}

func famC03(rn *Runner) {
	ndocs := rn.Scale(12, 200)
	for di := 0; di < ndocs && !rn.TooMany(); di++ {
		d := rn.genDoc(rn.Scale(45, 130))
		env := envWithNodeVars(rn, d)
		g := NewExprGen(rn.R.Fork(), d, env)
		n := rn.Scale(700, 2500)
		for i := 0; i < n && !rn.TooMany(); i++ {
			var e Expr
			switch rn.R.Intn(6) {
			case 0:
				// //x/.. , ancestor::* from siblings, attributes after reverse steps
				mid := pick(rn.R, []*Stp{{Axis: "parent", Test: NodeTest{Kind: "node"}, Abbrev: true}, {Axis: "ancestor", Test: NodeTest{Kind: "any"}},
					{Axis: "ancestor-or-self", Test: NodeTest{Kind: "any"}}, {Axis: "preceding-sibling", Test: NodeTest{Kind: "node"}}, {Axis: "preceding", Test: NodeTest{Kind: "any"}}})
				ss := []*Stp{{Axis: "descendant-or-self", Test: NodeTest{Kind: "node"}, Abbrev: true}, g.Step(0, 0), mid}
				if rn.R.Chance(1, 2) {
					ss = append(ss, pick(rn.R, []*Stp{{Axis: "attribute", Test: NodeTest{Kind: "any"}, Abbrev: true}, {Axis: "namespace", Test: NodeTest{Kind: "any"}},
						{Axis: "child", Test: NodeTest{Kind: "node"}}, {Axis: "following-sibling", Test: NodeTest{Kind: "node"}}}))
				}
				e = &EPath{Abs: true, Steps: ss}
			case 1:
				e = bin("|", g.NodeSet(1, 2), g.NodeSet(1, 2))
			case 2:
				// nodes of different kinds of the same elements: dedupe must not confuse them
				P := g.Steps(0, 1+rn.R.Intn(2), 0)
				with := func(s *Stp) Expr { return &EPath{Abs: true, Steps: append(append([]*Stp{}, P...), s)} }
				e = bin("|", with(&Stp{Axis: "namespace", Test: NodeTest{Kind: "node"}}),
					bin("|", with(&Stp{Axis: "attribute", Test: NodeTest{Kind: "any"}, Abbrev: true}), with(&Stp{Axis: "child", Test: NodeTest{Kind: "node"}})))
			default:
				e = g.NodeSet(2, 2)
			}
			start := Path{}
			if !containsAbs(e) {
				start = pick(rn.R, d.Paths)
			}
			q := &QCase{Doc: d, Start: start, Env: env, E: e, Text: Render(e, RenderOpts{R: rn.R}), Family: "nodeset-invariants"}
			if i < 4 && di == 0 {
				rn.Sample(q.Text)
			}
			impl, _ := rn.CheckQuery(q, "node-set equals the model's", twoNodes)
			_, isUnion := e.(*EBin)
			if s := nodeSetInvariants(d, impl, isUnion || !usesReverseAxis(e)); s != "" && !rn.TooMany() {
				rn.Report(&Replay{Family: "nodeset-invariants", Clause: s, Kind: "query", Events: d.Events, Start: start.String(), Env: env, Text: q.Text,
					ExprSx: SxExpr(e), Doc: showEvents(d.Events), Impl: impl, Model: "invariant: " + s}, q.Text+": "+s+": "+impl)
			}
		}
		// union laws across separately executed queries
		for i := 0; i < rn.Scale(120, 400) && !rn.TooMany(); i++ {
			a, b, c := g.NodeSet(1, 2), g.NodeSet(1, 2), g.NodeSet(1, 2)
			run := func(e Expr) string {
				q := &QCase{Doc: d, Start: Path{}, Env: env, E: e, Text: Render(e, RenderOpts{}), Family: "union-laws"}
				r, _ := rn.CheckQuery(q, "union", twoNodes)
				return r
			}
			check := func(name string, x, y Expr) {
				rx, ry := run(x), run(y)
				if rx != ry && !rn.TooMany() {
					rn.Report(&Replay{Family: "union-laws", Clause: name, Kind: "query", Events: d.Events, Start: ".", Env: env, Text: Render(x, RenderOpts{}),
						ExprSx: SxExpr(x), Doc: showEvents(d.Events), Impl: rx, Model: ry, Note: "other side: " + Render(y, RenderOpts{})},
						fmt.Sprintf("%s: %s = %s but %s = %s", name, Render(x, RenderOpts{}), rx, Render(y, RenderOpts{}), ry))
				}
			}
			check("commutative", bin("|", a, b), bin("|", b, a))
			check("associative", bin("|", bin("|", a, b), c), bin("|", a, &EFilter{E: bin("|", b, c)}))
			check("idempotent", bin("|", a, a), bin("|", a, &EPath{Abs: true, Steps: []*Stp{{Axis: "child", Test: NodeTest{Kind: "name", Local: "nope"}}}}))
			// count(A|B) = count(A)+count(B)-count(common)
			ra, rb, rab := parseNodeList(run(a)), parseNodeList(run(b)), parseNodeList(run(bin("|", a, b)))
			common := 0
			inA := map[string]bool{}
			for _, p := range ra {
				inA[p] = true
			}
			for _, p := range rb {
				if inA[p] {
					common++
				}
			}
			if len(rab) != len(ra)+len(rb)-common && !rn.TooMany() {
				rn.Report(&Replay{Family: "union-laws", Clause: "inclusion-exclusion", Kind: "query", Events: d.Events, Start: ".", Env: env,
					Text: Render(bin("|", a, b), RenderOpts{}), ExprSx: SxExpr(bin("|", a, b)), Doc: showEvents(d.Events),
					Impl: fmt.Sprint(len(rab)), Model: fmt.Sprint(len(ra) + len(rb) - common)}, "count(A|B) != count(A)+count(B)-common")
			}
		}
		// the same laws on RESULTS THE CALLER HOLDS: the node-sets returned by two queries (with whatever spare capacity the
		// library left in them) are bound as $A and $B and combined repeatedly; every answer must be the one the model gives
		// for the node-sets as first returned
		for i := 0; i < rn.Scale(40, 150) && !rn.TooMany(); i++ {
			ea, eb := g.NodeSet(1, 2), g.NodeSet(1, 2)
			exec := func(e Expr) (xsel.NodeSet, bool) {
				gr, err := buildCached(Render(e, RenderOpts{}))
				if err != nil {
					return nil, false
				}
				res, xerr := xsel.Exec(d.Root, gr, env.Settings(d.Root)...)
				ns, ok := res.(xsel.NodeSet)
				return ns, ok && xerr == nil
			}
			A, okA := exec(ea)
			B, okB := exec(eb)
			if !okA || !okB || len(A)+len(B) == 0 {
				continue
			}
			snap := func(ns xsel.NodeSet) []Path {
				var ps []Path
				for _, c := range ns {
					p, _ := pathOf(c)
					ps = append(ps, p)
				}
				return ps
			}
			env2 := &Env{NS: env.NS, Funs: env.Funs, Vars: append(append([]VarBind{}, env.Vars...),
				VarBind{"", "A", VarVal{Kind: "nodes", Nodes: snap(A)}}, VarBind{"", "B", VarVal{Kind: "nodes", Nodes: snap(B)}})}
			settings := append(env.Settings(d.Root), xsel.WithVariable("A", A), xsel.WithVariable("B", B))
			va, vb := &EVar{RawQ{Local: "A"}}, &EVar{RawQ{Local: "B"}}
			var trace []string
			for _, e := range []Expr{bin("|", va, vb), bin("|", vb, va), bin("|", va, va), bin("|", va, vb), call("count", bin("|", vb, va)), va, vb} {
				text := Render(e, RenderOpts{})
				gr, err := buildCached(text)
				if err != nil {
					continue
				}
				res, xerr := xsel.Exec(d.Root, gr, settings...)
				impl := projectResult(res, xerr)
				model := rn.M.Ask((&QCase{Doc: d, Start: Path{}, Env: env2, E: e}).ModelCmd())
				trace = append(trace, text)
				rn.Eval("held|"+fmt.Sprint(d.ID)+Render(ea, RenderOpts{})+"|"+Render(eb, RenderOpts{})+"|"+strings.Join(trace, ";"), len(A) >= 1 && len(B) >= 1)
				if !agree(impl, model) && !rn.TooMany() {
					rn.Report(&Replay{Family: "union-laws-held-results", Clause: "unions of node-sets the caller holds, evaluated repeatedly", Kind: "query", Events: d.Events, Start: ".", Env: env2,
						Text: text, ExprSx: SxExpr(e), Doc: showEvents(d.Events), Impl: impl, Model: model,
						Note: fmt.Sprintf("$A = result of %s, $B = result of %s (the slices as returned); evaluated in order: %s", Render(ea, RenderOpts{}), Render(eb, RenderOpts{}), strings.Join(trace, " ; "))},
						fmt.Sprintf("with $A, $B the results of %s and %s, after [%s]: %s gives %s, expected %s", Render(ea, RenderOpts{}), Render(eb, RenderOpts{}), strings.Join(trace, " ; "), text, impl, model))
					break
				}
			}
		}
		rn.DropDoc(d)
	}
}

func famC18(rn *Runner) {
	ndocs := rn.Scale(10, 150)
	ctxFns := []string{"name", "local-name", "namespace-uri", "string", "string-length", "normalize-space", "number"}
	for di := 0; di < ndocs && !rn.TooMany(); di++ {
		d := rn.genDoc(rn.Scale(40, 120))
		env := stdEnv()
		g := NewExprGen(rn.R.Fork(), d, env)
		// relative expressions from every node
		for _, start := range d.Paths {
			for k := 0; k < rn.Scale(6, 12) && !rn.TooMany(); k++ {
				var e Expr = &EPath{Steps: g.Steps(1, 1+rn.R.Intn(3), 2)}
				if rn.R.Chance(1, 5) {
					e = call(pick(rn.R, []string{"count", "string", "name"}), e)
				}
				if rn.R.Chance(1, 8) {
					e = bin("=", call("position"), call("last")) // position 1, size 1
				}
				if containsAbs(e) {
					continue
				}
				q := &QCase{Doc: d, Start: start, Env: env, E: e, Text: Render(e, RenderOpts{R: rn.R}), Family: "sub-query"}
				if k == 0 && len(rn.St.Samples) < 5 {
					rn.Sample(q.Text + " from " + start.String())
				}
				rn.CheckQuery(q, "Exec from any cursor uses it as context node, position 1, size 1", nonEmptyNodes)
			}
		}
		// lang() as a sub-query from every node, in a predicate of a relative step and as a function step (no random draw): what it
		// answers depends on this document's xml:lang attributes, whatever was asked of earlier documents
		for pi, start := range d.Paths {
			if pi >= 60 {
				break
			}
			l := []string{"en", "fr", "zh", "en-US", "de"}[pi%5]
			for _, e := range []Expr{call("lang", lit(l)),
				call("count", &EPath{Steps: []*Stp{{Axis: "descendant-or-self", Test: NodeTest{Kind: "node"}, Preds: []Expr{call("lang", lit(l))}}}}),
				&EPath{Steps: []*Stp{{Axis: "ancestor-or-self", Test: NodeTest{Kind: "any"}}, {IsCall: true, Q: RawQ{Local: "lang"}, Args: []Expr{lit(l)}}}}} {
				rn.CheckQuery(&QCase{Doc: d, Start: start, Env: env, E: e, Text: Render(e, RenderOpts{}), Family: "sub-query"},
					"lang() from any cursor looks at that cursor's own ancestors", nil)
			}
		}
		// composition: P/R from the root = union of R from each node of P
		for i := 0; i < rn.Scale(200, 600) && !rn.TooMany(); i++ {
			P := &EPath{Abs: true, Steps: g.Steps(1, 1+rn.R.Intn(2), 3)}
			R := g.Steps(1, 1+rn.R.Intn(2), 3)
			if i%8 == 0 {
				// an attribute or namespace node together with its own ancestors in P (it has a parent without being a
				// descendant of it), and a suffix that can return the node itself
				dos := &Stp{Axis: "descendant-or-self", Test: NodeTest{Kind: "node"}, Abbrev: true}
				P = &EPath{Abs: true, Steps: []*Stp{dos, {Axis: pick(rn.R, []string{"attribute", "namespace"}), Test: NodeTest{Kind: "any"}},
					{Axis: "ancestor-or-self", Test: NodeTest{Kind: "node"}}}}
				R = [][]*Stp{{dos, {Axis: "self", Test: NodeTest{Kind: "node"}, Abbrev: true}}, {dos, {Axis: "self", Test: NodeTest{Kind: "node"}}},
					{dos, {Axis: "parent", Test: NodeTest{Kind: "node"}, Abbrev: true}}, {{Axis: "descendant-or-self", Test: NodeTest{Kind: "node"}}}}[(i/8)%4]
			}
			if containsAbs(&EPath{Steps: R}) {
				continue
			}
			whole := &EPath{Abs: true, Steps: append(append([]*Stp{}, P.Steps...), R...)}
			qw := &QCase{Doc: d, Start: Path{}, Env: env, E: whole, Text: Render(whole, RenderOpts{}), Family: "composition"}
			rw, _ := rn.CheckQuery(qw, "P/R", nonEmptyNodes)
			qp := &QCase{Doc: d, Start: Path{}, Env: env, E: P, Text: Render(P, RenderOpts{}), Family: "composition"}
			rp, _ := rn.CheckQuery(qp, "P", nonEmptyNodes)
			if !strings.HasPrefix(rp, "L") || !strings.HasPrefix(rw, "L") {
				continue
			}
			union := map[string]bool{}
			rel := &EPath{Steps: R}
			rtext := Render(rel, RenderOpts{})
			bad := false
			for _, n := range parseNodeList(rp) {
				qr := &QCase{Doc: d, Start: parsePath(n), Env: env, E: rel, Text: rtext, Family: "composition"}
				rr, _ := rn.CheckQuery(qr, "R from a node of P", nonEmptyNodes)
				if !strings.HasPrefix(rr, "L") {
					bad = true
					break
				}
				for _, x := range parseNodeList(rr) {
					union[x] = true
				}
			}
			if bad {
				continue
			}
			got := map[string]bool{}
			for _, x := range parseNodeList(rw) {
				got[x] = true
			}
			same := len(got) == len(union)
			for x := range got {
				if !union[x] {
					same = false
				}
			}
			if !same && !rn.TooMany() {
				rn.Report(&Replay{Family: "composition", Clause: "P/R = union of R from each node of P", Kind: "query", Events: d.Events, Start: ".", Env: env,
					Text: qw.Text, ExprSx: SxExpr(whole), Doc: showEvents(d.Events), Impl: rw, Model: fmt.Sprint(len(union)) + " nodes in the union",
					Note: "P = " + qp.Text + " ; R = " + rtext}, fmt.Sprintf("%s selects %d nodes, the union of %s over %s selects %d", qw.Text, len(got), rtext, qp.Text, len(union)))
			}
		}
		// P/f() = f(P)
		for i := 0; i < rn.Scale(100, 300) && !rn.TooMany(); i++ {
			P := &EPath{Abs: true, Steps: g.Steps(1, 1+rn.R.Intn(2), 3)}
			if rn.R.Chance(1, 3) {
				// a prefix that ends in a reverse axis: the node-set is held nearest-first
				P.Steps = append(P.Steps, &Stp{Axis: pick(rn.R, []string{"ancestor", "ancestor-or-self", "preceding", "preceding-sibling"}),
					Test: pick(rn.R, []NodeTest{{Kind: "any"}, {Kind: "node"}})})
			}
			fn := pick(rn.R, ctxFns)
			e1 := &EPath{Abs: true, Steps: append(append([]*Stp{}, P.Steps...), &Stp{IsCall: true, Q: RawQ{Local: fn}})}
			e2 := call(fn, P)
			q1 := &QCase{Doc: d, Start: Path{}, Env: env, E: e1, Text: Render(e1, RenderOpts{}), Family: "function-step"}
			q2 := &QCase{Doc: d, Start: Path{}, Env: env, E: e2, Text: Render(e2, RenderOpts{}), Family: "function-step"}
			r1, _ := rn.CheckQuery(q1, "P/f()", func(s string) bool { return s != "S _" })
			r2, _ := rn.CheckQuery(q2, "f(P)", func(s string) bool { return s != "S _" })
			if r1 != r2 && !rn.TooMany() {
				rn.Report(&Replay{Family: "function-step", Clause: "P/f() = f(P)", Kind: "query", Events: d.Events, Start: ".", Env: env, Text: q1.Text,
					ExprSx: SxExpr(e1), Doc: showEvents(d.Events), Impl: r1, Model: r2, Note: "other side: " + q2.Text}, fmt.Sprintf("%s = %s but %s = %s", q1.Text, r1, q2.Text, r2))
			}
		}
		rn.DropDoc(d)
	}
}
