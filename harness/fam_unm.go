package main

import (
	"encoding/json"
	"fmt"
	"math"
	"os"
	"reflect"
	"strconv"
	"strings"

	"github.com/ChrisTrenkamp/xsel"
)

func init() {
	families["C19"] = famC19
	rules["C19"] = "target types built with reflect.StructOf (fields of every supported kind behind 0-3 pointers, nested structs, slices of scalars/structs/pointers, untagged fields, tags that fail to compile, maps/arrays/channels/[][]T with tags) plus a static family " +
		"(unexported tagged fields of scalar, slice, struct and pointer type, at the top and nested); target values: zero and pre-populated (non-nil pointers, existing slice contents), passed as *T, **T, ***T with nil links at every position, T (non-pointer), nil, nil pointers, slices with and without a pointer; " +
		"results: one node, several nodes, the empty node-set, numbers, strings, booleans; observable: error/non-error/panic and the complete target value after the call (a type/value descriptor is derived by reflection and compared with the model's), " +
		"freshness of pointer fields (new address, old pointee unchanged), field values equal separate Exec calls by construction of the model; out-of-range float->integer conversions are not compared; non-trivial: the call succeeds and changes the target; distinct by (type, value, result, document)"
	// static tags need their AST by hand
	tagAST[`a`] = &EPath{Steps: []*Stp{{Axis: "child", Test: NodeTest{Kind: "name", Local: "a"}}}}
	tagAST[`b`] = &EPath{Steps: []*Stp{{Axis: "child", Test: NodeTest{Kind: "name", Local: "b"}}}}
	tagAST[`*`] = &EPath{Steps: []*Stp{{Axis: "child", Test: NodeTest{Kind: "any"}, Abbrev: true}}}
	tagAST[`count(*)`] = call("count", &EPath{Steps: []*Stp{{Axis: "child", Test: NodeTest{Kind: "any"}, Abbrev: true}}})
	tagAST[`count(preceding-sibling::*)`] = call("count", &EPath{Steps: []*Stp{{Axis: "preceding-sibling", Test: NodeTest{Kind: "any"}}}})
	// Go types cannot be rebuilt from a file: the family is re-run from the recorded seed and
	// the recorded case is looked up among the disagreements it finds now
	replayers["unm"] = func(rn *Runner, rp *Replay) (string, string, bool) {
		rn.Prop, rn.maxMis, rn.Tier = "C19", 1000, "quick"
		famC19(rn)
		rn.Flush()
		for _, m := range rn.St.Mismatches {
			data, err := os.ReadFile(m.Replay)
			if err == nil && strings.Contains(string(data), jsonEscape(rp.Input)) {
				return m.Impl, m.Model, false
			}
		}
		return "(agrees with the model now)", rp.Model, true
	}
}

var tagAST = map[string]Expr{}

func jsonEscape(s string) string {
	b, _ := json.Marshal(s)
	return string(b[1 : len(b)-1])
}

type unexp struct {
	a string `xsel:"a"`
	B string `xsel:"b"`
}
type unexp2 struct {
	B string `xsel:"b"`
	a *int   `xsel:"a"`
	C bool
}

// unexported tagged fields of composite type: the field is filled by recursion and then cannot be set
type unexp3 struct {
	B     string   `xsel:"b"`
	items []string `xsel:"a"`
	C     string   `xsel:"a"`
}
type unexp4 struct {
	inner struct {
		X string `xsel:"b"`
	} `xsel:"a"`
	B string `xsel:"b"`
}
type unexp5 struct {
	B   string `xsel:"b"`
	ptr *[]int `xsel:"a"`
	sp  *struct {
		X string `xsel:"a"`
	} `xsel:"b"`
	D []string `xsel:"b"`
}

// a nested slice of structs whose elements fail or succeed depending on the data (a struct field needs a non-empty
// node-set): used from many nodes in one run, so that failures half-way through a slice are followed by ordinary
// calls with the same type
type afterRow struct {
	Name string `xsel:"a"`
	Has  bool   `xsel:"a"` // a non-empty node-set is true whatever its text says ("0", "false")
	HasP *bool  `xsel:"b"`
	Sub  struct {
		V string `xsel:"count(*)"`
	} `xsel:"b"`
}
type afterTop struct {
	Rows []afterRow `xsel:"*"`
	N    int        `xsel:"count(*)"`
}

// two DIFFERENT struct types with the same package-qualified name (function-local types), the same field names
// and different tags: whatever is remembered per type must be remembered per reflect.Type
func sameNameA() reflect.Type {
	type Row struct {
		Name string `xsel:"a"`
		N    int    `xsel:"count(*)"`
	}
	return reflect.TypeOf(Row{})
}
func sameNameB() reflect.Type {
	type Row struct {
		Name string `xsel:"b"`
		N    int    `xsel:"count(preceding-sibling::*)"`
	}
	return reflect.TypeOf(Row{})
}

// ---- descriptors by reflection ----

func typeSx(t reflect.Type) string {
	if definedScalar(t) {
		return "other" // a defined scalar type: nothing the library produces is assignable to it
	}
	switch t.Kind() {
	case reflect.String:
		return "str"
	case reflect.Bool:
		return "bool"
	case reflect.Int, reflect.Int64:
		return "(num i 64 1)"
	case reflect.Int8:
		return "(num i 8 1)"
	case reflect.Int16:
		return "(num i 16 1)"
	case reflect.Int32:
		return "(num i 32 1)"
	case reflect.Uint, reflect.Uint64:
		return "(num i 64 0)"
	case reflect.Uint8:
		return "(num i 8 0)"
	case reflect.Uint16:
		return "(num i 16 0)"
	case reflect.Uint32:
		return "(num i 32 0)"
	case reflect.Float32:
		return "(num f32)"
	case reflect.Float64:
		return "(num f64)"
	case reflect.Pointer:
		return "(ptr " + typeSx(t.Elem()) + ")"
	case reflect.Slice:
		return "(slice " + typeSx(t.Elem()) + ")"
	case reflect.Struct:
		parts := []string{"(struct"}
		for i := 0; i < t.NumField(); i++ {
			f := t.Field(i)
			ex := 0
			if f.IsExported() {
				ex = 1
			}
			tag := f.Tag.Get("xsel")
			tsx := "notag"
			if tag != "" {
				if e, ok := tagAST[tag]; ok && e != nil {
					tsx = "(tag " + SxExpr(e) + ")"
				} else {
					tsx = "badtag"
				}
			}
			parts = append(parts, fmt.Sprintf("(%d %s %s)", ex, tsx, typeSx(f.Type)))
		}
		return strings.Join(parts, " ") + ")"
	}
	return "other"
}

func isIntKind(k reflect.Kind) bool {
	return k >= reflect.Int && k <= reflect.Uintptr
}

// valueSx: the value as the model's input; valueShow: in the model's output format
// definedScalar: a defined type whose underlying kind is not a struct (the descriptor calls it "other": see typeSx)
func definedScalar(t reflect.Type) bool {
	return t.PkgPath() != "" && t.Name() != "" && t.Kind() != reflect.Struct
}

func valueSx(v reflect.Value) string {
	if definedScalar(v.Type()) {
		return "other"
	}
	switch v.Kind() {
	case reflect.String:
		return "(s " + sxStr(v.String()) + ")"
	case reflect.Bool:
		if v.Bool() {
			return "(b 1)"
		}
		return "(b 0)"
	case reflect.Float32, reflect.Float64:
		return "(n " + showNum(v.Float()) + ")"
	case reflect.Pointer:
		if v.IsNil() {
			return "nilptr"
		}
		return "(ptr " + valueSx(v.Elem()) + ")"
	case reflect.Slice:
		parts := []string{"(slice"}
		for i := 0; i < v.Len(); i++ {
			parts = append(parts, valueSx(v.Index(i)))
		}
		return strings.Join(parts, " ") + ")"
	case reflect.Struct:
		parts := []string{"(struct"}
		for i := 0; i < v.NumField(); i++ {
			parts = append(parts, valueSx(v.Field(i)))
		}
		return strings.Join(parts, " ") + ")"
	}
	if isIntKind(v.Kind()) {
		if v.CanInt() {
			return "(n " + showNum(float64(v.Int())) + ")"
		}
		return "(n " + showNum(float64(v.Uint())) + ")"
	}
	return "other"
}

func valueShow(v reflect.Value) string {
	if definedScalar(v.Type()) {
		return "o"
	}
	switch v.Kind() {
	case reflect.String:
		return "s[" + showStr(v.String()) + "]"
	case reflect.Bool:
		if v.Bool() {
			return "b1"
		}
		return "b0"
	case reflect.Float32, reflect.Float64:
		return "n" + showNum(v.Float())
	case reflect.Pointer:
		if v.IsNil() {
			return "nil"
		}
		return "&" + valueShow(v.Elem())
	case reflect.Slice:
		var parts []string
		for i := 0; i < v.Len(); i++ {
			parts = append(parts, valueShow(v.Index(i)))
		}
		return "[" + strings.Join(parts, ",") + "]"
	case reflect.Struct:
		var parts []string
		for i := 0; i < v.NumField(); i++ {
			parts = append(parts, valueShow(v.Field(i)))
		}
		return "{" + strings.Join(parts, ",") + "}"
	}
	if isIntKind(v.Kind()) {
		if v.CanInt() {
			return "n" + showNum(float64(v.Int()))
		}
		return "n" + showNum(float64(v.Uint()))
	}
	return "o"
}

// sameUpToUnspec compares the implementation's value with the model's, where the
// model says "u" for conversions Go leaves implementation-defined.
func sameUpToUnspec(impl, model string) bool {
	split := func(s string) []string {
		var out []string
		cur := ""
		depth := 0
		for _, c := range s {
			switch c {
			case '[':
				if strings.HasPrefix(cur, "s") && depth == 0 && cur == "s" {
					depth++
					cur += "["
					continue
				}
			case ']':
				if depth > 0 {
					depth--
					cur += "]"
					continue
				}
			}
			if depth > 0 {
				cur += string(c)
				continue
			}
			switch c {
			case '[', ']', '{', '}', ',', '&':
				if cur != "" {
					out = append(out, cur)
					cur = ""
				}
				out = append(out, string(c))
			default:
				cur += string(c)
			}
		}
		if cur != "" {
			out = append(out, cur)
		}
		return out
	}
	a, b := split(impl), split(model)
	if len(a) != len(b) {
		return false
	}
	for i := range a {
		if a[i] == b[i] {
			continue
		}
		if b[i] == "u" && strings.HasPrefix(a[i], "n") {
			continue
		}
		return false
	}
	return true
}

// ---- generators ----

var scalarTypes = []reflect.Type{reflect.TypeOf(""), reflect.TypeOf(true), reflect.TypeOf(int(0)), reflect.TypeOf(int8(0)), reflect.TypeOf(int16(0)), reflect.TypeOf(int32(0)),
	reflect.TypeOf(int64(0)), reflect.TypeOf(uint(0)), reflect.TypeOf(uint8(0)), reflect.TypeOf(uint16(0)), reflect.TypeOf(uint32(0)), reflect.TypeOf(uint64(0)),
	reflect.TypeOf(float32(0)), reflect.TypeOf(float64(0)), reflect.TypeOf(""), reflect.TypeOf(int(0))}

// defined types with a supported underlying kind: a converted value is not ASSIGNABLE to them (only convertible)
type definedStr string
type definedInt int
type definedF64 float64
type definedBool bool
type definedU8 uint8

var otherTypes = []reflect.Type{reflect.TypeOf(map[string]int{}), reflect.TypeOf([2]int{}), reflect.TypeOf(make(chan int)), reflect.TypeOf(func() {}), reflect.TypeOf((*interface{})(nil)).Elem(),
	reflect.TypeOf(definedStr("")), reflect.TypeOf(definedInt(0)), reflect.TypeOf(definedF64(0)), reflect.TypeOf(definedBool(false)), reflect.TypeOf(definedU8(0))}

type unmGen struct {
	r *Rng
	g *ExprGen
}

func (u *unmGen) tagFor(t reflect.Type) string {
	r := u.r
	var e Expr
	base := t
	for base.Kind() == reflect.Pointer {
		base = base.Elem()
	}
	switch {
	case r.Chance(1, 80):
		return "///" // does not compile
	case (base.Kind() == reflect.Uint64 || base.Kind() == reflect.Uint) && r.Chance(1, 3):
		// the upper half of the unsigned range: representable, and above every signed integer
		e = num(pick(r, []string{"9223372036854775808", "9223372036854777856", "18446744073709549568", "13835058055282163712", "9223372036854775807"}))
	case base.Kind() == reflect.Slice && r.Chance(1, 4):
		// a bound node-set in the order it was bound (other fields may have filtered it before)
		e = &EVar{RawQ{Local: pick(r, []string{"u", "w", "u", "v"})}}
	case base.Kind() == reflect.Slice || base.Kind() == reflect.Struct:
		e = &EPath{Abs: r.Chance(1, 4), Steps: u.g.Steps(0, 1+r.Intn(2), 0)}
		if base.Kind() == reflect.Struct && r.Chance(2, 3) {
			// usually exactly one node
			e = &EFilter{E: e, Preds: []Expr{num("1")}}
		}
	default:
		switch r.Intn(9) {
		case 8:
			// a bound node-set whose stored order is not document order, used bare
			e = &EVar{RawQ{Local: pick(r, []string{"u", "u", "w", "v"})}}
			if r.Chance(1, 2) {
				// a filter over the binding (which must not reorder what the other fields see)
				e = &EFilter{E: e, Preds: []Expr{pick(r, []Expr{num("1"), call("last"), num("2")})}}
			}
		case 6, 7:
			// a node-set whose stored order is reverse document order: the conversions use the first node in DOCUMENT order
			e = &EPath{Steps: []*Stp{{Axis: pick(r, []string{"preceding-sibling", "preceding", "ancestor-or-self", "ancestor"}), Test: NodeTest{Kind: pick(r, []string{"node", "any", "text"})}}}}
			if r.Chance(1, 3) {
				e.(*EPath).Steps = append(u.g.Steps(0, 1, 0), e.(*EPath).Steps...)
			}
		case 0:
			e = call("count", &EPath{Steps: u.g.Steps(0, 1, 0)})
		case 1:
			e = bin(pick(r, []string{"+", "*", "div", "-"}), num(u.g.NumLiteralText()), num(pick(r, []string{"0", "3", "0.5", "1000000", "300", "70000", "5000000000", "20000000000000000000", "9223372036854775808", "9223372036854777856", "18446744073709549568", "13835058055282163712"})))
		case 2:
			e = call("string-length", call("string"))
		case 3:
			e = bin("=", &EPath{Steps: []*Stp{u.g.Step(0, 0)}}, lit(pick(r, []string{"1", "abc", ""})))
		case 4:
			e = lit(pick(r, []string{"", "text", "12", "-7.9", "1e3", "é"}))
		default:
			e = &EPath{Abs: r.Chance(1, 5), Steps: u.g.Steps(0, 1+r.Intn(2), 0)}
		}
	}
	text := Render(e, RenderOpts{})
	tagAST[text] = e
	return text
}

func (u *unmGen) fieldType(depth int) reflect.Type {
	r := u.r
	var t reflect.Type
	switch k := r.Intn(20); {
	case k < 10:
		t = pick(r, scalarTypes)
	case k < 13 && depth > 0:
		t = u.structType(depth - 1)
	case k < 16:
		// slices
		switch r.Intn(12) {
		case 0, 5, 6:
			if depth > 0 {
				t = reflect.SliceOf(u.structType(depth - 1))
			} else {
				t = reflect.SliceOf(pick(r, scalarTypes))
			}
		case 1, 7:
			t = reflect.SliceOf(reflect.PointerTo(pick(r, scalarTypes)))
		case 2:
			t = reflect.SliceOf(reflect.SliceOf(pick(r, scalarTypes)))
		case 3:
			t = reflect.SliceOf(pick(r, otherTypes))
		default:
			t = reflect.SliceOf(pick(r, scalarTypes))
		}
	case k < 17 && r.Chance(1, 4):
		t = pick(r, otherTypes)
	default:
		t = pick(r, scalarTypes)
	}
	for n := 0; n < 3 && r.Chance(1, 4); n++ {
		t = reflect.PointerTo(t)
	}
	return t
}

func (u *unmGen) structType(depth int) reflect.Type {
	r := u.r
	var fields []reflect.StructField
	for i, n := 0, 1+r.Intn(5); i < n; i++ {
		ft := u.fieldType(depth)
		f := reflect.StructField{Name: fmt.Sprintf("F%d", i), Type: ft}
		if r.Chance(3, 4) {
			f.Tag = reflect.StructTag(`xsel:` + strconv.Quote(u.tagFor(ft)))
		}
		fields = append(fields, f)
	}
	return reflect.StructOf(fields)
}

// populate gives settable value v random contents (pointers non-nil, slices non-empty sometimes)
func (u *unmGen) populate(v reflect.Value, depth int) {
	r := u.r
	switch v.Kind() {
	case reflect.String:
		v.SetString(pick(r, []string{"", "old", "x"}))
	case reflect.Bool:
		v.SetBool(r.Bool())
	case reflect.Float32, reflect.Float64:
		v.SetFloat(float64(r.Intn(5)))
	case reflect.Pointer:
		if r.Chance(1, 2) && depth > 0 {
			p := reflect.New(v.Type().Elem())
			u.populate(p.Elem(), depth-1)
			v.Set(p)
		}
	case reflect.Slice:
		if r.Chance(1, 3) && depth > 0 {
			for n := 1 + r.Intn(2); n > 0; n-- {
				e := reflect.New(v.Type().Elem()).Elem()
				u.populate(e, depth-1)
				v.Set(reflect.Append(v, e))
			}
		}
	case reflect.Struct:
		for i := 0; i < v.NumField(); i++ {
			if v.Field(i).CanSet() {
				u.populate(v.Field(i), depth)
			}
		}
	default:
		if isIntKind(v.Kind()) {
			if v.CanInt() {
				v.SetInt(int64(r.Intn(5)))
			} else {
				v.SetUint(uint64(r.Intn(5)))
			}
		}
	}
}

type ptrRecord struct {
	path   string
	old    reflect.Value // the old pointer
	before string
}

// collectPtrs records every non-nil pointer field with a tag, at any depth below settable structs.
func collectPtrs(v reflect.Value, path string, out *[]ptrRecord) {
	switch v.Kind() {
	case reflect.Pointer:
		if !v.IsNil() {
			collectPtrs(v.Elem(), path+"*", out)
		}
	case reflect.Struct:
		for i := 0; i < v.NumField(); i++ {
			f := v.Field(i)
			sf := v.Type().Field(i)
			if f.Kind() == reflect.Pointer && !f.IsNil() && sf.Tag.Get("xsel") != "" && sf.IsExported() {
				*out = append(*out, ptrRecord{path: fmt.Sprintf("%s.%d", path, i), old: reflect.ValueOf(f.Interface()), before: valueShow(f.Elem())})
			}
		}
	}
}

func callUnmarshal(res xsel.Result, target any, settings []xsel.ContextApply) (out string) {
	defer func() {
		if r := recover(); r != nil {
			out = fmt.Sprintf("PANIC %v", r)
		}
	}()
	if err := xsel.Unmarshal(res, target, settings...); err != nil {
		if strings.Contains(err.Error(), "xpath query panic") {
			return "E panic " + err.Error()
		}
		return "E"
	}
	return "OK"
}

var fixedUnm *Doc

// fixedUnmDoc: <r><g><x><a>1</a><b><k/></b></x><x><a>2</a><b/></x></g><h><x><a>3</a><b/></x><x><a>4</a></x></h></r>
func fixedUnmDoc(rn *Runner) *Doc {
	st := func(n string) Event { return Event{Kind: EvStart, B: n} }
	tx := func(v string) Event { return Event{Kind: EvText, A: v} }
	end := Event{Kind: EvEnd}
	return rn.NewDoc([]Event{st("r"),
		st("g"), st("x"), st("a"), tx("0"), end, st("b"), st("k"), end, end, end, st("x"), st("a"), tx("false"), end, st("b"), tx(" 0 "), end, end, end,
		st("h"), st("x"), st("a"), tx("3"), end, st("b"), end, end, st("x"), st("a"), tx("4"), end, end, end,
		end})
}

func famC19(rn *Runner) {
	ndocs := rn.Scale(10, 120)
	for di := 0; di < ndocs && !rn.TooMany(); di++ {
		d := rn.genDoc(rn.Scale(40, 100))
		env := envShuffled(rn, d) // $u: nodes in a random order, $w: reverse document order, $v: document order
		u := &unmGen{r: rn.R.Fork(), g: NewExprGen(rn.R.Fork(), d, env)}
		settings := env.Settings(d.Root)
		for i := 0; i < rn.Scale(250, 700) && !rn.TooMany(); i++ {
			r := u.r
			// the first cases of every document are a fixed history over a fixed tree: the same struct type filled from
			// <g> (every row complete), from <h> (the second row has no <b>: the call fails half-way through the slice) and
			// from <g> again - what a failed call leaves behind must not reach the next one
			d, env, settings := d, env, settings
			fixed := i < 4
			if fixed {
				if fixedUnm == nil {
					fixedUnm = fixedUnmDoc(rn)
				}
				d, env = fixedUnm, stdEnv()
				settings = env.Settings(d.Root)
			}
			// the result handed to Unmarshal
			var res VarVal
			switch k := r.Intn(24); {
			case k < 19:
				res = VarVal{Kind: "nodes", Nodes: []Path{pick(r, d.Paths)}}
			case k < 21:
				res = VarVal{Kind: "nodes", Nodes: []Path{{}}}
			case k < 22 && k >= 21:
				var ps []Path
				for _, p := range d.Paths {
					if r.Chance(1, 8) {
						ps = append(ps, p)
					}
				}
				res = VarVal{Kind: "nodes", Nodes: ps}
			case k == 22:
				res = VarVal{Kind: "num", Num: pick(r, doubleClasses)}
			case k == 23 && r.Bool():
				res = VarVal{Kind: "str", Str: pick(r, unicodePool)}
			default:
				res = VarVal{Kind: "bool", B: r.Bool()}
			}
			// the base type and value
			var bt reflect.Type
			switch k := r.Intn(14); {
			case k < 8:
				bt = u.structType(2)
			case k == 8:
				bt = pick(r, []reflect.Type{reflect.TypeOf(unexp{}), reflect.TypeOf(unexp3{}), reflect.TypeOf(unexp4{}), sameNameA(), sameNameB(), reflect.SliceOf(sameNameB()), reflect.SliceOf(sameNameA()), reflect.TypeOf(afterTop{}), reflect.TypeOf(afterTop{}), reflect.TypeOf(afterTop{})})
			case k == 9:
				bt = pick(r, []reflect.Type{reflect.TypeOf(unexp2{}), reflect.TypeOf(unexp5{}), reflect.TypeOf([]unexp3{}), reflect.TypeOf(struct {
					A string `xsel:"a"`
					N unexp4 `xsel:"b"`
				}{})})
			case k < 12:
				bt = reflect.SliceOf(pick(r, []reflect.Type{reflect.TypeOf(""), reflect.TypeOf(0), reflect.TypeOf(int8(0)), reflect.TypeOf(float32(0)), reflect.TypeOf(true),
					reflect.PointerTo(reflect.TypeOf("")), reflect.PointerTo(reflect.PointerTo(reflect.TypeOf(0))), u.structType(1), reflect.PointerTo(u.structType(1)),
					reflect.SliceOf(reflect.TypeOf(0)), reflect.TypeOf(map[string]int{}), reflect.TypeOf(uint16(0))}))
			case k == 12:
				bt = pick(r, otherTypes[:3])
			default:
				bt = pick(r, scalarTypes)
			}
			if fixed {
				bt = reflect.TypeOf(afterTop{})
				res = VarVal{Kind: "nodes", Nodes: []Path{{{'c', 0}, {'c', []int{0, 1, 0, 1}[i]}}}}
			}
			base := reflect.New(bt) // *T, pointee settable
			if r.Chance(1, 2) && !fixed {
				u.populate(base.Elem(), 2)
			}
			// how it is passed
			var target any
			var tv reflect.Value
			mode := r.Intn(12)
			if r.Chance(1, 2) || fixed {
				mode = 0
			}
			switch {
			case mode < 5:
				tv = base // *T
			case mode == 5:
				p2 := reflect.New(base.Type())
				p2.Elem().Set(base)
				tv = p2 // **T
			case mode == 6:
				p2 := reflect.New(base.Type())
				p2.Elem().Set(base)
				p3 := reflect.New(p2.Type())
				p3.Elem().Set(p2)
				tv = p3 // ***T
			case mode == 7:
				tv = reflect.New(base.Type()) // **T with a nil inner pointer
			case mode == 8:
				p2 := reflect.New(base.Type())
				p3 := reflect.New(p2.Type())
				p3.Elem().Set(p2)
				tv = p3 // ***T with the innermost link nil
			case mode == 9:
				tv = reflect.Zero(base.Type()) // (*T)(nil)
			case mode == 10:
				tv = base.Elem() // T, not behind a pointer
			default:
				target = nil
			}
			tsx := "nil"
			before := "nil"
			if tv.IsValid() {
				target = tv.Interface()
				tsx = fmt.Sprintf("(tv %s %s)", typeSx(tv.Type()), valueSx(tv))
				before = valueShow(tv)
			}
			var ptrs []ptrRecord
			if tv.IsValid() {
				collectPtrs(tv, "", &ptrs)
			}
			cmd := fmt.Sprintf("(unm %d (p) %s %s %s)", d.ID, env.Sx(), res.Sx(), tsx)
			impl := callUnmarshal(res.ToResult(d.Root), target, settings)
			after := before
			if impl == "OK" && tv.IsValid() {
				after = valueShow(tv)
				impl = "OK " + after
			}
			model := rn.M.Ask(cmd)
			key := tsx + "|" + res.Sx() + "|" + fmt.Sprint(d.ID)
			rn.Eval(key, strings.HasPrefix(impl, "OK") && after != before)
			rn.Count("outcome:" + strings.Fields(model + " ?")[0])
			rn.Count(fmt.Sprintf("passed-as:%d", mode))
			if i < 2 && di == 0 {
				rn.Sample(fmt.Sprintf("type %s value %s result %s -> %s", typeSx(bt), before, res.Show(), model))
			}
			ok := impl == model
			if !ok && strings.HasPrefix(impl, "OK ") && strings.HasPrefix(model, "OK ") {
				ok = sameUpToUnspec(impl[3:], model[3:])
			}
			if !ok {
				rn.Report(&Replay{Family: "unmarshal", Clause: "target value / error after Unmarshal", Kind: "unm", Events: d.Events, Doc: showEvents(d.Events),
					Input: fmt.Sprintf("case %d of document %d (seed %d): type %s, value before %s, result %s, model command %s", i, di, rn.Seed, typeSx(bt), before, res.Show(), cmd),
					Impl:  impl, Model: model},
					fmt.Sprintf("Unmarshal(%s into %s = %s): implementation %s, model %s", res.Show(), tsx, before, impl, model))
				continue
			}
			// pointer fields are freshly allocated: the old pointee is not written through
			if strings.HasPrefix(impl, "OK") {
				for _, pr := range ptrs {
					if now := valueShow(pr.old.Elem()); now != pr.before {
						rn.Report(&Replay{Family: "unmarshal-alias", Clause: "pointer fields are freshly allocated", Kind: "unm", Events: d.Events, Doc: showEvents(d.Events),
							Input: fmt.Sprintf("case %d of document %d (seed %d): type %s, field %s", i, di, rn.Seed, typeSx(bt), pr.path), Impl: "old pointee now " + now, Model: "old pointee stays " + pr.before},
							fmt.Sprintf("Unmarshal wrote through the pointer previously held by field %s: %s -> %s", pr.path, pr.before, now))
						break
					}
				}
			}
		}
		rn.DropDoc(d)
	}
	_ = math.Pi
}
