package main

import (
	"fmt"
	"io"
	"math"
	"strings"

	"github.com/ChrisTrenkamp/xsel"
	"github.com/ChrisTrenkamp/xsel/node"
	"github.com/ChrisTrenkamp/xsel/store"
)

// ---- node types handed to the store by the scripted parser ----

type sElem struct{ space, local string }

func (e sElem) Space() string { return e.space }
func (e sElem) Local() string { return e.local }

type sNs struct{ prefix, uri string }

func (n sNs) Prefix() string         { return n.prefix }
func (n sNs) NamespaceValue() string { return n.uri }

type sAttr struct{ space, local, value string }

func (a sAttr) Space() string          { return a.space }
func (a sAttr) Local() string          { return a.local }
func (a sAttr) AttributeValue() string { return a.value }

type sText struct{ value string }

func (t sText) CharDataValue() string { return t.value }

type sComment struct{ value string }

func (c sComment) CommentValue() string { return c.value }

type sPI struct{ target, value string }

func (p sPI) Target() string        { return p.target }
func (p sPI) ProcInstValue() string { return p.value }

// scriptParser replays a fixed event list through the parser.Parser interface.
type scriptParser struct {
	evs []Event
	i   int
	err error // returned instead of io.EOF at the end, if set
}

func (s *scriptParser) Pull() (node.Node, bool, error) {
	if s.i >= len(s.evs) {
		if s.err != nil {
			return nil, false, s.err
		}
		return nil, false, io.EOF
	}
	e := s.evs[s.i]
	s.i++
	switch e.Kind {
	case EvStart:
		return sElem{e.A, e.B}, false, nil
	case EvNs:
		return sNs{e.A, e.B}, false, nil
	case EvAttr:
		return sAttr{e.A, e.B, e.C}, false, nil
	case EvText:
		return sText{e.A}, false, nil
	case EvComment:
		return sComment{e.A}, false, nil
	case EvPI:
		return sPI{e.A, e.B}, false, nil
	}
	return nil, true, nil
}

func buildImpl(evs []Event) (store.Cursor, error) {
	c, err := store.CreateInMemory(&scriptParser{evs: evs})
	if err != nil {
		return nil, err
	}
	return c, nil
}

// ---- node identity: paths ----

type Step struct {
	K byte // 'c', 'a', 'n'
	I int
}
type Path []Step

func (p Path) String() string {
	var b strings.Builder
	b.WriteString(".")
	for i, s := range p {
		if i > 0 {
			b.WriteString(".")
		}
		fmt.Fprintf(&b, "%c%d", s.K, s.I)
	}
	return b.String()
}

func (p Path) Sx() string {
	var b strings.Builder
	b.WriteString("(p")
	for _, s := range p {
		fmt.Fprintf(&b, " (%c %d)", s.K, s.I)
	}
	b.WriteString(")")
	return b.String()
}

func parsePath(s string) Path {
	var p Path
	for _, part := range strings.Split(strings.TrimPrefix(s, "."), ".") {
		if part == "" {
			continue
		}
		var i int
		fmt.Sscanf(part[1:], "%d", &i)
		p = append(p, Step{part[0], i})
	}
	return p
}

// pathOf locates a cursor by walking Parent() and finding it by identity in the
// parent's three lists; it never looks at Pos().
func pathOf(c store.Cursor) (Path, bool) {
	var rev []Step
	if c == nil {
		return nil, false // a nil cursor in a result: reported as "?" and compared like any other answer
	}
	c = unview(c)
	for depth := 0; ; depth++ {
		if depth > 100000 {
			return nil, false
		}
		par := c.Parent()
		if par == nil {
			return nil, false
		}
		if par == c {
			break
		}
		found := false
		for i, x := range par.Children() {
			if x == c {
				rev = append(rev, Step{'c', i})
				found = true
				break
			}
		}
		if !found {
			for i, x := range par.Attributes() {
				if x == c {
					rev = append(rev, Step{'a', i})
					found = true
					break
				}
			}
		}
		if !found {
			for i, x := range par.Namespaces() {
				if x == c {
					rev = append(rev, Step{'n', i})
					found = true
					break
				}
			}
		}
		if !found {
			return nil, false
		}
		c = par
	}
	p := make(Path, len(rev))
	for i := range rev {
		p[i] = rev[len(rev)-1-i]
	}
	return p, true
}

func cursorAt(root store.Cursor, p Path) store.Cursor {
	c := root
	for _, s := range p {
		var l []store.Cursor
		switch s.K {
		case 'c':
			l = c.Children()
		case 'a':
			l = c.Attributes()
		case 'n':
			l = c.Namespaces()
		}
		if s.I >= len(l) {
			return nil
		}
		c = l[s.I]
	}
	return c
}

// allPaths lists every node of the implementation's tree in document order.
func allPaths(c store.Cursor, at Path, out []Path) []Path {
	out = append(out, append(Path{}, at...))
	for i := range c.Namespaces() {
		out = append(out, append(append(Path{}, at...), Step{'n', i}))
	}
	for i := range c.Attributes() {
		out = append(out, append(append(Path{}, at...), Step{'a', i}))
	}
	for i, k := range c.Children() {
		out = allPaths(k, append(append(Path{}, at...), Step{'c', i}), out)
	}
	return out
}

// ---- canonical rendering shared with the OCaml driver ----

func showStr(s string) string {
	if s == "" {
		return "_"
	}
	parts := make([]string, 0, len(s))
	for _, r := range s {
		parts = append(parts, fmt.Sprint(int(r)))
	}
	return strings.Join(parts, ".")
}

func unshowStr(s string) string {
	if s == "_" || s == "" {
		return ""
	}
	var b strings.Builder
	for _, part := range strings.Split(s, ".") {
		var i int
		fmt.Sscanf(part, "%d", &i)
		b.WriteRune(rune(i))
	}
	return b.String()
}

// dumpTree renders the implementation's tree with every Pos(), in the model's format.
// A child whose Parent() is not the lister is marked with '!'.
func dumpTree(c store.Cursor, isRoot bool, b *strings.Builder) {
	n := c.Node()
	kids := func() {
		fmt.Fprintf(b, "[")
		for _, x := range c.Namespaces() {
			ns, ok := x.Node().(node.Namespace)
			if !ok {
				b.WriteString("?")
				continue
			}
			if x.Parent() != c {
				b.WriteString("!")
			}
			fmt.Fprintf(b, "N(%d,%s,%s)", x.Pos(), showStr(ns.Prefix()), showStr(ns.NamespaceValue()))
		}
		fmt.Fprintf(b, "][")
		for _, x := range c.Attributes() {
			a, ok := x.Node().(node.Attribute)
			if !ok {
				b.WriteString("?")
				continue
			}
			if x.Parent() != c {
				b.WriteString("!")
			}
			fmt.Fprintf(b, "A(%d,%s,%s,%s)", x.Pos(), showStr(a.Space()), showStr(a.Local()), showStr(a.AttributeValue()))
		}
		fmt.Fprintf(b, "]{")
		for _, x := range c.Children() {
			if x.Parent() != c {
				b.WriteString("!")
			}
			dumpTree(x, false, b)
		}
		fmt.Fprintf(b, "}")
	}
	if isRoot {
		fmt.Fprintf(b, "E(%d,_,_)", c.Pos())
		kids()
		return
	}
	switch v := n.(type) {
	case node.Namespace, node.Attribute:
		b.WriteString("?")
	case node.CharData:
		fmt.Fprintf(b, "T(%d,%s)", c.Pos(), showStr(v.CharDataValue()))
	case node.Comment:
		fmt.Fprintf(b, "C(%d,%s)", c.Pos(), showStr(v.CommentValue()))
	case node.ProcInst:
		fmt.Fprintf(b, "P(%d,%s,%s)", c.Pos(), showStr(v.Target()), showStr(v.ProcInstValue()))
	case node.Element:
		fmt.Fprintf(b, "E(%d,%s,%s)", c.Pos(), showStr(v.Space()), showStr(v.Local()))
		kids()
	default:
		b.WriteString("?")
	}
}

// ---- results ----

func showNum(f float64) string {
	if math.IsNaN(f) {
		return "7ff8000000000000"
	}
	return fmt.Sprintf("%016x", math.Float64bits(f))
}

// projectResult renders an Exec outcome in the model's answer format.
func projectResult(r xsel.Result, err error) string {
	if err != nil {
		if m, ok := isRoute(err); ok {
			return m
		}
		if strings.Contains(err.Error(), "xpath query panic") {
			return "E panic " + err.Error()
		}
		return "E"
	}
	switch v := r.(type) {
	case xsel.NodeSet:
		parts := []string{"L"}
		for _, c := range v {
			p, ok := pathOf(c)
			if !ok {
				parts = append(parts, "?")
			} else {
				parts = append(parts, p.String())
			}
		}
		return strings.Join(parts, " ")
	case xsel.Number:
		return "N " + showNum(float64(v))
	case xsel.String:
		return "S " + showStr(string(v))
	case xsel.Bool:
		if v {
			return "B 1"
		}
		return "B 0"
	case nil:
		return "NIL"
	}
	return "?"
}
