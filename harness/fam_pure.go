package main

import (
	"fmt"
	"strings"

	"github.com/ChrisTrenkamp/xsel"
	"github.com/ChrisTrenkamp/xsel/store"
)

func init() {
	families["C13"] = famC13
	rules["C13"] = "histories of 6-14 (thorough: up to 60) calls over ONE document, shared compiled expressions and caller-held node-sets: Exec of node-set/scalar expressions (unions over variables, $v[1], ($w)[last()], node()[p] on the child axis, filter expressions, prefixed variable/function references), " +
		"re-execution of earlier calls, the same expression text under DIFFERENT bindings, Unmarshal into struct and slice targets; node-set variables are sub-slices with spare capacity of arrays the harness keeps (also in reverse document order); " +
		"checked: every result equals the history-free model; deep snapshot of the tree (shape, data, every Pos(), list order) identical before/after; every caller-held array identical (cursor identity and order, including the cells beyond the slice length); " +
		"re-executions and fresh BuildExpr of the same text give the same result; non-trivial: the history re-uses an expression or a node-set and contains a union, predicate or filter; distinct by the history text"
	replayers["history"] = func(rn *Runner, rp *Replay) (string, string, bool) {
		rn.Prop, rn.maxMis, rn.Tier = "C13", 1000, "quick"
		famC13(rn)
		rn.Flush()
		for _, m := range rn.St.Mismatches {
			if m.Summary == rp.Note || strings.HasPrefix(m.Summary, rp.Note) {
				return m.Impl, m.Model, false
			}
		}
		return "(no such disagreement now)", rp.Model, true
	}
}

// a node-set the caller holds: arr is the whole backing array, the variable is arr[:n]
type heldSet struct {
	name  string
	arr   xsel.NodeSet
	n     int
	ident []store.Cursor // copy of arr taken at creation
}

func (h *heldSet) changed() string {
	for i, c := range h.ident {
		if h.arr[i] != c {
			return fmt.Sprintf("cell %d of the array behind $%s was overwritten", i, h.name)
		}
	}
	return ""
}

func famC13(rn *Runner) {
	noRoutes = true
	ndocs := rn.Scale(150, 2000)
	for di := 0; di < ndocs && !rn.TooMany(); di++ {
		d := rn.genDoc(rn.Scale(40, 110))
		var before strings.Builder
		dumpTree(d.Root, true, &before)
		r := rn.R.Fork()
		// caller-held node-sets with spare capacity; v in document order, w reversed
		mkHeld := func(name string, reverse bool) (*heldSet, VarVal) {
			var ps []Path
			for _, p := range d.Paths {
				if r.Chance(1, 4) {
					ps = append(ps, p)
				}
			}
			if reverse {
				for i, j := 0, len(ps)-1; i < j; i, j = i+1, j-1 {
					ps[i], ps[j] = ps[j], ps[i]
				}
			}
			n := len(ps) - r.Intn(len(ps)/2+1) // the variable is a prefix: the rest is spare capacity holding other nodes
			arr := make(xsel.NodeSet, len(ps), len(ps)+4)
			for i, p := range ps {
				arr[i] = cursorAt(d.Root, p)
			}
			h := &heldSet{name: name, arr: arr, n: n, ident: append([]store.Cursor{}, arr...)}
			return h, VarVal{Kind: "nodes", Nodes: ps[:n]}
		}
		hv, vv := mkHeld("v", false)
		hw, vw := mkHeld("w", true)
		// two binding environments that differ in what the prefixes and variables mean
		envA, envB := stdEnv(), stdEnv()
		envB.NS = []NSBind{{"p", "urn:u2"}, {"q", "urn:u1"}, {"r", "urn:x"}} // (xml is NOT bound here: nothing may bind it behind the caller's back)
		for _, e := range []*Env{envA, envB} {
			e.Vars = append(e.Vars, VarBind{"", "v", vv}, VarBind{"", "w", vw})
			e.Funs = append(e.Funs, FunBind{"", "nodes", UFun{Kind: "ctxnodes"}})
		}
		envA.Vars = append(envA.Vars, VarBind{"urn:u1", "x", VarVal{Kind: "num", Num: 1}}, VarBind{"urn:u2", "x", VarVal{Kind: "num", Num: 2}})
		envB.Vars = append(envB.Vars, VarBind{"urn:u1", "x", VarVal{Kind: "num", Num: 10}}, VarBind{"urn:u2", "x", VarVal{Kind: "str", Str: "two"}})
		envA.Funs = append(envA.Funs, FunBind{"urn:u1", "f", UFun{Kind: "argcount"}})
		envB.Funs = append(envB.Funs, FunBind{"urn:u2", "f", UFun{Kind: "ctxpos"}})
		// the library must receive the caller's slices themselves (with their spare capacity)
		// ... every other call through ONE ContextApply that installs the caller's own three maps (what the command does):
		// those maps are the caller's data too, and must hold exactly what they held
		own := map[*Env]*ownMaps{}
		calls := 0
		settings := func(e *Env) []xsel.ContextApply {
			s := e.Settings(d.Root)
			s = append(s, xsel.WithVariable("v", hv.arr[:hv.n]), xsel.WithVariable("w", hw.arr[:hw.n]))
			calls++
			if calls%2 == 0 {
				return s
			}
			if own[e] == nil {
				own[e] = newOwnMaps(s)
			}
			o := own[e]
			return []xsel.ContextApply{func(c *xsel.ContextSettings) {
				c.NamespaceDecls, c.Variables, c.FunctionLibrary = o.ns, o.vars, o.funs
			}}
		}
		g := NewExprGen(r.Fork(), d, envA)
		type hcall struct {
			e     Expr
			text  string
			start Path
			env   *Env
			impl  string
		}
		var hist []hcall
		var trace []string
		nsteps := rn.Scale(6, 20) + r.Intn(rn.Scale(9, 40))
		interesting := false
		for k := 0; k < nsteps && !rn.TooMany(); k++ {
			var c hcall
			switch {
			case len(hist) > 0 && r.Chance(1, 4):
				c = hist[r.Intn(len(hist))] // the same call again
				interesting = true
			case len(hist) > 0 && r.Chance(1, 5):
				c = hist[r.Intn(len(hist))] // the same expression under the other bindings
				if c.env == envA {
					c.env = envB
				} else {
					c.env = envA
				}
				c.impl = ""
				interesting = true
			default:
				var e Expr
				switch r.Intn(9) {
				case 0:
					e = bin("|", &EVar{RawQ{Local: pick(r, []string{"v", "w"})}}, g.NodeSet(1, 2))
				case 1:
					e = &EFilter{E: &EVar{RawQ{Local: pick(r, []string{"v", "w"})}}, Preds: []Expr{pick(r, []Expr{num("1"), call("last"), num("2")})}}
				case 2:
					e = bin("|", g.NodeSet(1, 2), &EVar{RawQ{Local: pick(r, []string{"v", "w"})}})
				case 3:
					// child::node()[p]: the node test that passes its input through
					e = &EPath{Abs: true, Steps: append(g.Steps(0, 1, 0), &Stp{Axis: "child", Test: NodeTest{Kind: "node"}, Preds: []Expr{g.Pred(1)}})}
				case 4:
					e = &EVar{RawQ{HasPrefix: true, Prefix: pick(r, []string{"p", "q"}), Local: "x"}}
				case 5:
					e = &ECall{Q: RawQ{HasPrefix: true, Prefix: pick(r, []string{"p", "q"}), Local: "f"}, Args: []Expr{num("1")}}
				case 6:
					e = call("count", bin("|", &EVar{RawQ{Local: "w"}}, &EVar{RawQ{Local: "v"}}))
				default:
					e = g.NodeSet(2, 3)
				}
				c = hcall{e: e, text: Render(e, RenderOpts{R: r}), env: pick(r, []*Env{envA, envB})}
				if !containsAbs(e) {
					c.start = pick(r, d.Paths)
				}
			}
			res, err, p := func() (xsel.Result, error, interface{}) {
				var pn interface{}
				defer func() {
					if x := recover(); x != nil {
						pn = x
					}
				}()
				gr, berr := buildCached(c.text)
				if r.Chance(1, 6) {
					fresh, ferr := xsel.BuildExpr(c.text) // BuildExpr of the same string: an equivalent query
					if ferr == nil {
						gr = &fresh
					}
					berr = ferr
				}
				if berr != nil {
					return nil, fmt.Errorf("build: %v", berr), pn
				}
				rs, e2 := xsel.Exec(cursorAt(d.Root, c.start), gr, settings(c.env)...)
				return rs, e2, pn
			}()
			impl := ""
			switch {
			case p != nil:
				impl = fmt.Sprintf("PANIC %v", p)
			case err != nil && strings.HasPrefix(err.Error(), "build: "):
				impl = "E build"
			default:
				impl = projectResult(res, err)
			}
			step := fmt.Sprintf("%s from %s [%s]", c.text, c.start, map[bool]string{true: "A", false: "B"}[c.env == envA])
			trace = append(trace, step)
			q := &QCase{Doc: d, Start: c.start, Env: c.env, E: c.e, Text: c.text, Family: "history"}
			model := rn.M.Ask(q.ModelCmd())
			rn.St.Evaluations++
			fail := func(clause, what string) {
				sum := fmt.Sprintf("after the history [%s]: %s", strings.Join(trace, " ; "), what)
				rn.Report(&Replay{Family: "history", Clause: clause, Kind: "history", Events: d.Events, Doc: showEvents(d.Events), Text: c.text, Start: c.start.String(),
					Env: c.env, ExprSx: SxExpr(c.e), Impl: impl, Model: model, Note: sum, Input: strings.Join(trace, "\n")}, sum)
			}
			if !agree(impl, model) {
				fail("the result depends only on cursor, expression and bindings", fmt.Sprintf("step %d gives %s, the history-free model %s", k, impl, model))
				break
			}
			if c.impl != "" && c.impl != impl {
				fail("repeats agree", fmt.Sprintf("step %d gave %s now and %s earlier", k, impl, c.impl))
				break
			}
			c.impl = impl
			hist = append(hist, c)
			bad := ""
			for _, o := range own {
				if s := o.changed(); s != "" {
					bad = s
				}
			}
			if bad != "" {
				fail("the binding maps keep exactly their contents", bad)
				break
			}
			if s := hv.changed(); s != "" {
				fail("a node-set passed in as a variable keeps its contents and order", s)
				break
			}
			if s := hw.changed(); s != "" {
				fail("a node-set passed in as a variable keeps its contents and order", s)
				break
			}
			var now strings.Builder
			dumpTree(d.Root, true, &now)
			if now.String() != before.String() {
				fail("the document tree is unchanged", "the tree changed: "+firstDiff(before.String(), now.String()))
				break
			}
			if strings.Contains(c.text, "|") || strings.Contains(c.text, "[") {
				interesting = interesting || len(hist) > 2
			}
		}
		rn.Eval(strings.Join(trace, ";"), interesting)
		rn.Count(fmt.Sprintf("history-length:%d", (len(trace)/5)*5))
		if di < 2 {
			rn.Sample(strings.Join(trace, " ; "))
		}
		rn.DropDoc(d)
	}
}

func firstDiff(a, b string) string {
	i := 0
	for i < len(a) && i < len(b) && a[i] == b[i] {
		i++
	}
	lo := i - 30
	if lo < 0 {
		lo = 0
	}
	end := func(s string) int {
		if i+40 < len(s) {
			return i + 40
		}
		return len(s)
	}
	return fmt.Sprintf("...%s  became  ...%s", a[lo:end(a)], b[lo:end(b)])
}

// ownMaps: the three binding maps as a caller owns them, and what they held when he handed them over
type ownMaps struct {
	ns     map[string]string
	vars   map[xsel.XmlName]xsel.Result
	funs   map[xsel.XmlName]xsel.Function
	nsSnap map[string]string
	nvars  int
	nfuns  int
}

func newOwnMaps(settings []xsel.ContextApply) *ownMaps {
	c := xsel.ContextSettings{NamespaceDecls: map[string]string{}, Variables: map[xsel.XmlName]xsel.Result{}, FunctionLibrary: map[xsel.XmlName]xsel.Function{}}
	for _, s := range settings {
		s(&c)
	}
	o := &ownMaps{ns: c.NamespaceDecls, vars: c.Variables, funs: c.FunctionLibrary, nsSnap: map[string]string{}, nvars: len(c.Variables), nfuns: len(c.FunctionLibrary)}
	for k, v := range o.ns {
		o.nsSnap[k] = v
	}
	return o
}

func (o *ownMaps) changed() string {
	if len(o.vars) != o.nvars || len(o.funs) != o.nfuns {
		return fmt.Sprintf("Exec changed the caller's own binding maps: %d variables (were %d), %d functions (were %d)", len(o.vars), o.nvars, len(o.funs), o.nfuns)
	}
	if len(o.ns) != len(o.nsSnap) {
		return fmt.Sprintf("Exec changed the caller's own namespace map: %d bindings, were %d", len(o.ns), len(o.nsSnap))
	}
	for k, v := range o.nsSnap {
		if w, ok := o.ns[k]; !ok || w != v {
			return fmt.Sprintf("Exec changed the caller's own namespace map: prefix %q is now bound to %q (ok=%v), was %q", k, w, ok, v)
		}
	}
	return ""
}
