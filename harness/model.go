package main

import (
	"bufio"
	"fmt"
	"io"
	"os"
	"os/exec"
	"strings"
)

// Model is the OCaml program extracted from the Coq model, run as a co-process.
type Model struct {
	cmd  *exec.Cmd
	in   io.WriteCloser
	out  *bufio.Reader
	path string
	Log  []string // the command lines sent (for the vm_compute cross-check sample)
}

func StartModel(path string) (*Model, error) {
	cmd := exec.Command(path)
	in, err := cmd.StdinPipe()
	if err != nil {
		return nil, err
	}
	outp, err := cmd.StdoutPipe()
	if err != nil {
		return nil, err
	}
	cmd.Stderr = os.Stderr
	if err := cmd.Start(); err != nil {
		return nil, err
	}
	return &Model{cmd: cmd, in: in, out: bufio.NewReaderSize(outp, 1<<20), path: path}, nil
}

func (m *Model) Ask(line string) string {
	if strings.ContainsAny(line, "\n") {
		panic("newline in model command")
	}
	if _, err := io.WriteString(m.in, line+"\n(sync)\n"); err != nil {
		panic(fmt.Sprintf("model write: %v", err))
	}
	resp, err := m.out.ReadString('\n')
	if err != nil {
		panic(fmt.Sprintf("model read: %v (command %.200s)", err, line))
	}
	return strings.TrimRight(resp, "\n")
}

// AskAll pipelines many commands: a writer goroutine feeds the co-process while the
// answers are read, so the cost of a pipe round trip is paid once per batch.
func (m *Model) AskAll(lines []string) []string {
	done := make(chan error, 1)
	go func() {
		var b strings.Builder
		for _, l := range lines {
			b.WriteString(l)
			b.WriteString("\n")
			if b.Len() > 1<<16 {
				if _, err := io.WriteString(m.in, b.String()); err != nil {
					done <- err
					return
				}
				b.Reset()
			}
		}
		b.WriteString("(sync)\n")
		_, err := io.WriteString(m.in, b.String())
		done <- err
	}()
	out := make([]string, len(lines))
	for i := range lines {
		resp, err := m.out.ReadString('\n')
		if err != nil {
			panic(fmt.Sprintf("model read: %v", err))
		}
		out[i] = strings.TrimRight(resp, "\n")
	}
	if err := <-done; err != nil {
		panic(fmt.Sprintf("model write: %v", err))
	}
	return out
}

func (m *Model) Close() {
	m.in.Close()
	m.cmd.Wait()
}
