package main

import (
	"bufio"
	"fmt"
	"io"
	"os"
	"os/exec"
	"strings"
)

// Model is the OCaml program extracted from the Coq model, run as a co-process.
type Model struct {
	cmd  *exec.Cmd
	in   io.WriteCloser
	out  *bufio.Reader
	path string
	Log  []string // the command lines sent (for the vm_compute cross-check sample)
}

func StartModel(path string) (*Model, error) {
	cmd := exec.Command(path)
	in, err := cmd.StdinPipe()
	if err != nil {
		return nil, err
	}
	outp, err := cmd.StdoutPipe()
	if err != nil {
		return nil, err
	}
	cmd.Stderr = os.Stderr
	if err := cmd.Start(); err != nil {
		return nil, err
	}
	return &Model{cmd: cmd, in: in, out: bufio.NewReaderSize(outp, 1<<20), path: path}, nil
}

func (m *Model) Ask(line string) string {
	if strings.ContainsAny(line, "\n") {
		panic("newline in model command")
	}
	if _, err := io.WriteString(m.in, line+"\n"); err != nil {
		panic(fmt.Sprintf("model write: %v", err))
	}
	resp, err := m.out.ReadString('\n')
	if err != nil {
		panic(fmt.Sprintf("model read: %v (command %.200s)", err, line))
	}
	return strings.TrimRight(resp, "\n")
}

func (m *Model) Close() {
	m.in.Close()
	m.cmd.Wait()
}
