package main

import (
	"fmt"
	"strings"
	"unicode"
)

// ---- the model's AST, with rendering hints that never reach the model ----

type Expr interface{}

type EBin struct {
	Op   string // or and = != < <= > >= + - * div mod |
	A, B Expr
}
type ENeg struct{ A Expr }
type ELit struct{ V string }
type ENum struct{ Text string }
type RawQ struct {
	HasPrefix bool
	Prefix    string
	Local     string
}
type EVar struct{ Q RawQ }
type ECall struct {
	Q    RawQ
	Args []Expr
}
type EPath struct {
	Abs   bool
	Steps []*Stp
}
type EFilter struct {
	E     Expr
	Preds []Expr
	Steps []*Stp
}

type NodeTest struct {
	Kind   string // node text comment pi pit any nsany localany qn name
	Prefix string
	Local  string // also the PI target
}

type Stp struct {
	IsCall bool
	Axis   string
	Test   NodeTest
	Preds  []Expr
	Q      RawQ
	Args   []Expr
	// rendering hints
	Abbrev bool // @x, x, ., .. where the step allows it; as // when it is descendant-or-self::node() before another step
}

func (q RawQ) String() string {
	if q.HasPrefix {
		return q.Prefix + ":" + q.Local
	}
	return q.Local
}

func (q RawQ) Sx() string {
	if q.HasPrefix {
		return fmt.Sprintf("(q %s %s)", sxStr(q.Prefix), sxStr(q.Local))
	}
	return fmt.Sprintf("(q %s)", sxStr(q.Local))
}

var cmpNames = map[string]string{"=": "eq", "!=": "ne", "<": "lt", "<=": "le", ">": "gt", ">=": "ge"}
var arNames = map[string]string{"+": "add", "-": "sub", "*": "mul", "div": "div", "mod": "mod"}

func sxExprs(es []Expr) string {
	parts := make([]string, len(es))
	for i, e := range es {
		parts[i] = SxExpr(e)
	}
	return strings.Join(parts, " ")
}

func sxSteps(ss []*Stp) string {
	parts := make([]string, len(ss))
	for i, s := range ss {
		parts[i] = s.Sx()
	}
	return strings.Join(parts, " ")
}

func SxExpr(e Expr) string {
	switch v := e.(type) {
	case *EBin:
		switch v.Op {
		case "or", "and":
			return fmt.Sprintf("(%s %s %s)", v.Op, SxExpr(v.A), SxExpr(v.B))
		case "|":
			return fmt.Sprintf("(union %s %s)", SxExpr(v.A), SxExpr(v.B))
		}
		if n, ok := cmpNames[v.Op]; ok {
			return fmt.Sprintf("(cmp %s %s %s)", n, SxExpr(v.A), SxExpr(v.B))
		}
		return fmt.Sprintf("(ar %s %s %s)", arNames[v.Op], SxExpr(v.A), SxExpr(v.B))
	case *ENeg:
		return fmt.Sprintf("(neg %s)", SxExpr(v.A))
	case *ELit:
		return fmt.Sprintf("(lit %s)", sxStr(v.V))
	case *ENum:
		return fmt.Sprintf("(num %s)", sxStr(v.Text))
	case *EVar:
		return fmt.Sprintf("(var %s)", v.Q.Sx())
	case *ECall:
		if len(v.Args) == 0 {
			return fmt.Sprintf("(call %s)", v.Q.Sx())
		}
		return fmt.Sprintf("(call %s %s)", v.Q.Sx(), sxExprs(v.Args))
	case *EPath:
		abs := 0
		if v.Abs {
			abs = 1
		}
		if len(v.Steps) == 0 {
			return fmt.Sprintf("(path %d)", abs)
		}
		return fmt.Sprintf("(path %d %s)", abs, sxSteps(v.Steps))
	case *EFilter:
		return fmt.Sprintf("(filter %s (%s) (%s))", SxExpr(v.E), sxExprs(v.Preds), sxSteps(v.Steps))
	}
	panic(fmt.Sprintf("SxExpr: %T", e))
}

func (t NodeTest) Sx() string {
	switch t.Kind {
	case "node", "text", "comment", "pi", "any":
		return t.Kind
	case "pit":
		return fmt.Sprintf("(pit %s)", sxStr(t.Local))
	case "nsany":
		return fmt.Sprintf("(nsany %s)", sxStr(t.Prefix))
	case "localany":
		return fmt.Sprintf("(localany %s)", sxStr(t.Local))
	case "qn":
		return fmt.Sprintf("(qn %s %s)", sxStr(t.Prefix), sxStr(t.Local))
	case "name":
		return fmt.Sprintf("(name %s)", sxStr(t.Local))
	}
	panic("nodetest " + t.Kind)
}

func (s *Stp) Sx() string {
	if s.IsCall {
		if len(s.Args) == 0 {
			return fmt.Sprintf("(fcall %s)", s.Q.Sx())
		}
		return fmt.Sprintf("(fcall %s %s)", s.Q.Sx(), sxExprs(s.Args))
	}
	if len(s.Preds) == 0 {
		return fmt.Sprintf("(ax %s %s)", s.Axis, s.Test.Sx())
	}
	return fmt.Sprintf("(ax %s %s %s)", s.Axis, s.Test.Sx(), sxExprs(s.Preds))
}

// ---- rendering to XPath text ----

type RenderOpts struct {
	R          *Rng // nil: deterministic minimal rendering
	ExtraWS    bool // random legal whitespace between tokens
	ExtraParen bool // redundant parentheses around sub-expressions
	NoAbbrev   bool // never use abbreviations
}

type renderer struct {
	o    RenderOpts
	toks []string
}

func (r *renderer) emit(t string) { r.toks = append(r.toks, t) }

func level(e Expr) int {
	switch v := e.(type) {
	case *EBin:
		switch v.Op {
		case "or":
			return 1
		case "and":
			return 2
		case "=", "!=":
			return 3
		case "<", "<=", ">", ">=":
			return 4
		case "+", "-":
			return 5
		case "*", "div", "mod":
			return 6
		case "|":
			return 8
		}
	case *ENeg:
		return 7
	}
	return 9
}

func (r *renderer) sub(e Expr, min int) {
	paren := level(e) < min
	if !paren && r.o.ExtraParen && r.o.R != nil && r.o.R.Chance(1, 4) {
		paren = true
	}
	// a bare "/" followed by an operator is ambiguous ("/ * 2"): always parenthesise it as an operand
	if p, ok := e.(*EPath); ok && p.Abs && len(p.Steps) == 0 && min > 0 {
		paren = true
	}
	if paren {
		r.emit("(")
		r.expr(e)
		r.emit(")")
	} else {
		r.expr(e)
	}
}

func quote(s string) string {
	if !strings.Contains(s, "'") {
		return "'" + s + "'"
	}
	return "\"" + s + "\""
}

func (r *renderer) expr(e Expr) {
	switch v := e.(type) {
	case *EBin:
		l := level(v)
		r.sub(v.A, l)
		r.emit(v.Op)
		r.sub(v.B, l+1)
	case *ENeg:
		r.emit("-")
		r.sub(v.A, 7)
	case *ELit:
		r.emit(quote(v.V))
	case *ENum:
		r.emit(v.Text)
	case *EVar:
		r.emit("$" + v.Q.String())
	case *ECall:
		r.call(v.Q, v.Args)
	case *EPath:
		r.steps(v.Steps, v.Abs, false)
	case *EFilter:
		switch v.E.(type) {
		case *ELit, *ENum, *EVar, *ECall:
			r.expr(v.E)
		default:
			r.emit("(")
			r.expr(v.E)
			r.emit(")")
		}
		for _, p := range v.Preds {
			r.emit("[")
			r.sub(p, 0)
			r.emit("]")
		}
		if len(v.Steps) > 0 {
			r.steps(v.Steps, false, true)
		}
	default:
		panic(fmt.Sprintf("render: %T", e))
	}
}

func (r *renderer) call(q RawQ, args []Expr) {
	r.emit(q.String())
	r.emit("(")
	for i, a := range args {
		if i > 0 {
			r.emit(",")
		}
		r.sub(a, 0)
	}
	r.emit(")")
}

func isDS(s *Stp) bool {
	return !s.IsCall && s.Axis == "descendant-or-self" && s.Test.Kind == "node" && len(s.Preds) == 0
}

// steps renders a step list. abs: preceded by the root; cont: continues a filter expression.
func (r *renderer) steps(ss []*Stp, abs bool, cont bool) {
	if abs && len(ss) == 0 {
		r.emit("/")
		return
	}
	needSep := abs || cont
	for i := 0; i < len(ss); i++ {
		s := ss[i]
		if isDS(s) && s.Abbrev && !r.o.NoAbbrev && i+1 < len(ss) && (needSep || i > 0) {
			r.emit("//")
			i++
			r.step(ss[i])
			needSep = true
			continue
		}
		if needSep || i > 0 {
			r.emit("/")
		}
		r.step(s)
		needSep = true
	}
}

func (t NodeTest) String() string {
	switch t.Kind {
	case "node":
		return "node()"
	case "text":
		return "text()"
	case "comment":
		return "comment()"
	case "pi":
		return "processing-instruction()"
	case "pit":
		return "processing-instruction(" + quote(t.Local) + ")"
	case "any":
		return "*"
	case "nsany":
		return t.Prefix + ":*"
	case "localany":
		return "*:" + t.Local
	case "qn":
		return t.Prefix + ":" + t.Local
	}
	return t.Local
}

func (r *renderer) nodeTest(t NodeTest) {
	switch t.Kind {
	case "node", "text", "comment", "pi":
		name := map[string]string{"node": "node", "text": "text", "comment": "comment", "pi": "processing-instruction"}[t.Kind]
		r.emit(name)
		r.emit("(")
		r.emit(")")
	case "pit":
		r.emit("processing-instruction")
		r.emit("(")
		r.emit(quote(t.Local))
		r.emit(")")
	default:
		// QName tokens: no whitespace inside (the library tolerates some; DESIGN 11 latitude)
		r.emit(t.String())
	}
}

func (r *renderer) step(s *Stp) {
	if s.IsCall {
		r.call(s.Q, s.Args)
		return
	}
	ab := s.Abbrev && !r.o.NoAbbrev
	switch {
	case ab && s.Axis == "self" && s.Test.Kind == "node" && len(s.Preds) == 0:
		r.emit(".")
		return
	case ab && s.Axis == "parent" && s.Test.Kind == "node" && len(s.Preds) == 0:
		r.emit("..")
		return
	case ab && s.Axis == "child":
	case ab && s.Axis == "attribute":
		r.emit("@")
	default:
		r.emit(s.Axis)
		r.emit("::")
	}
	r.nodeTest(s.Test)
	for _, p := range s.Preds {
		r.emit("[")
		r.sub(p, 0)
		r.emit("]")
	}
}

func isNameChar(c rune) bool {
	return unicode.IsLetter(c) || unicode.IsDigit(c) || c == '-' || c == '.' || c == '_' || c == '#' || c == ':' || c == '*' || unicode.Is(unicode.Mn, c)
}

func isWordTok(t string) bool {
	r := []rune(t)
	return len(r) > 0 && (unicode.IsLetter(r[0]) || r[0] == '#' || r[0] == '$' || r[0] == '*' && len(r) > 1)
}

func needSpace(a, b string) bool {
	ra, rb := []rune(a), []rune(b)
	la, fb := ra[len(ra)-1], rb[0]
	// word operators always get spaces
	switch a {
	case "or", "and", "div", "mod":
		return true
	}
	switch b {
	case "or", "and", "div", "mod":
		return true
	}
	// a name (or number) followed by something that would extend it
	if (isWordTok(a) || unicode.IsDigit(ra[0]) || ra[0] == '.') && (isNameChar(la) || la == '.') {
		if unicode.IsLetter(fb) || unicode.IsDigit(fb) || fb == '-' || fb == '.' || fb == '_' || fb == '#' || fb == '$' {
			return true
		}
		// "a *" is fine; "a*" too; but "p:*" style tokens are emitted whole
	}
	// "*" followed by ":" would read as *:x ; "- -" fine
	if a == "*" && (fb == ':') {
		return true
	}
	if la == '.' && fb == '.' {
		return true
	}
	if (la == '/' && fb == '/') || (la == '<' && fb == '=') || (la == '>' && fb == '=') || (la == '!' && fb == '=') {
		return true
	}
	if la == ':' && fb == ':' {
		return true
	}
	return false
}

var wsChoices = []string{" ", "  ", "\t", "\n", "\r\n", " \t "}

func Render(e Expr, o RenderOpts) string {
	r := &renderer{o: o}
	r.expr(e)
	var b strings.Builder
	for i, t := range r.toks {
		if i > 0 {
			prev := r.toks[i-1]
			sep := ""
			if needSpace(prev, t) {
				sep = " "
			}
			if o.ExtraWS && o.R != nil && o.R.Chance(1, 3) {
				// no whitespace between '$' and the name is possible anyway (one token);
				// axis "::" and names are separate tokens, whitespace is legal there
				sep = pick(o.R, wsChoices)
			}
			b.WriteString(sep)
		} else if o.ExtraWS && o.R != nil && o.R.Chance(1, 4) {
			b.WriteString(pick(o.R, wsChoices))
		}
		b.WriteString(t)
	}
	if o.ExtraWS && o.R != nil && o.R.Chance(1, 4) {
		b.WriteString(pick(o.R, wsChoices))
	}
	return b.String()
}
