package main

import (
	"fmt"
	"github.com/ChrisTrenkamp/xsel"
	"os"
	"os/exec"
	"runtime/debug"
	"strings"

	"github.com/ChrisTrenkamp/xsel/store"
)

func init() {
	families["C10"] = famC10
	rules["C10"] = "trees ReadXml builds from generated XML texts (declarations and attributes in any order) checked against the Cursor contract directly; event streams: events_of(random tree) with random surplus end events at depth 0, namespace re-declarations and empty default declarations; " +
		"observable: full dump of the store's tree (shape, node data, every Pos(), Parent() identity of every listed cursor) vs the model's build; " +
		"non-trivial: the tree has >= 2 elements and at least one namespace node; distinct by hash of the event list; plus flat 10^6-event streams under a 1 MiB stack limit"
	replayers["tree"] = func(rn *Runner, rp *Replay) (string, string, bool) {
		impl, model, _ := treeCase(rn, rp.Events)
		return impl, model, impl == model
	}
}

// withSurplusEnds inserts end events where the stream is at depth 0.
func withSurplusEnds(r *Rng, evs []Event) []Event {
	var out []Event
	depth := 0
	for _, e := range evs {
		if depth == 0 && r.Chance(1, 4) {
			out = append(out, Event{Kind: EvEnd})
		}
		out = append(out, e)
		switch e.Kind {
		case EvStart:
			depth++
		case EvEnd:
			depth--
		}
	}
	if r.Chance(1, 3) {
		out = append(out, Event{Kind: EvEnd})
	}
	return out
}

func treeCase(rn *Runner, evs []Event) (impl, model string, nodes int) {
	root, err := buildImpl(evs)
	if err != nil {
		return "E " + err.Error(), "", 0
	}
	var b strings.Builder
	dumpTree(root, true, &b)
	impl = b.String()
	rn.nextDoc++
	id := rn.nextDoc
	rn.M.Ask(fmt.Sprintf("(doc %d %s)", id, sxEvents(evs)))
	model = rn.M.Ask(fmt.Sprintf("(dump %d)", id))
	rn.M.Ask(fmt.Sprintf("(drop %d)", id))
	return impl, model, len(allPaths(root, nil, nil))
}

// contractChecks tests the Cursor contract on the implementation's tree directly.
func contractChecks(root store.Cursor) string {
	if root.Pos() != 0 {
		return "root position is not 0"
	}
	seen := map[int]bool{}
	last := -1
	var walk func(c store.Cursor) string
	visit := func(c, parent store.Cursor, what string) string {
		if c.Parent() != parent {
			return what + " whose Parent() is not the lister"
		}
		if seen[c.Pos()] {
			return fmt.Sprintf("duplicate position %d", c.Pos())
		}
		seen[c.Pos()] = true
		if c.Pos() <= last {
			return fmt.Sprintf("position %d after %d in document order", c.Pos(), last)
		}
		last = c.Pos()
		return ""
	}
	walk = func(c store.Cursor) string {
		for _, n := range c.Namespaces() {
			if s := visit(n, c, "namespace node"); s != "" {
				return s
			}
		}
		for _, a := range c.Attributes() {
			if s := visit(a, c, "attribute"); s != "" {
				return s
			}
		}
		for _, k := range c.Children() {
			if s := visit(k, c, "child"); s != "" {
				return s
			}
			if s := walk(k); s != "" {
				return s
			}
		}
		return ""
	}
	seen[0] = true
	last = 0
	return walk(root)
}

func init() {
	replayers["xmltree"] = func(rn *Runner, rp *Replay) (string, string, bool) {
		root, err := xsel.ReadXml(strings.NewReader(rp.Input))
		if err != nil {
			return "parse error: " + err.Error(), rp.Model, true
		}
		s := contractChecks(root)
		return s, "Cursor contract", s == ""
	}
}

// manyNamespaces: an element with n declarations of its own, descendants that inherit them all, redeclare some, undeclare the
// default one (n around and past 64 and 128)
func manyNamespaces(n int) []Event {
	st := func(nm string) Event { return Event{Kind: EvStart, B: nm} }
	ns := func(p, u string) Event { return Event{Kind: EvNs, A: p, B: u} }
	end := Event{Kind: EvEnd}
	evs := []Event{st("r"), ns("", "urn:d")}
	for k := 1; k < n; k++ {
		evs = append(evs, ns(fmt.Sprintf("p%d", k), fmt.Sprintf("urn:%d", k)))
	}
	evs = append(evs, Event{Kind: EvAttr, B: "a", C: "1"},
		st("c"), ns(fmt.Sprintf("p%d", n-1), "urn:other"), ns("extra", "urn:extra"), st("g"), ns("", ""), st("h"), end, end, end,
		st("e"), Event{Kind: EvText, A: "t"}, end, end)
	return evs
}

func famC10(rn *Runner) {
	for _, n := range []int{3, 63, 64, 65, 66, 127, 128, 129, 300} {
		evs := manyNamespaces(n)
		impl, model, _ := treeCase(rn, evs)
		rn.Eval(sxEvents(evs), true)
		rn.Count("many-namespaces")
		if impl != model {
			rn.Report(&Replay{Family: "store-dump", Clause: "each element owns its namespace nodes: all the inherited ones, overridden by prefix", Kind: "tree",
				Events: evs, Doc: showEvents(evs), Impl: impl, Model: model},
				fmt.Sprintf("store tree differs from the model for an element with %d namespace declarations: implementation %.300s, model %.300s", n, impl, model))
			continue
		}
		root, _ := buildImpl(evs)
		if s := contractChecks(root); s != "" {
			rn.Report(&Replay{Family: "store-contract", Clause: s, Kind: "tree", Events: evs, Doc: showEvents(evs), Impl: impl, Model: model, Note: s},
				"Cursor contract broken: "+s)
		}
	}
	ndocs := rn.Scale(300, 6000)
	for i := 0; i < ndocs && !rn.TooMany(); i++ {
		g := NewDocGen(rn.R.Fork(), rn.Scale(40, 150), 6)
		top := g.Top()
		evs := eventsOf(top, nil)
		if rn.R.Chance(1, 2) {
			evs = withSurplusEnds(rn.R, evs)
		}
		impl, model, nodes := treeCase(rn, evs)
		nons := strings.Count(model, "N(")
		rn.Eval(sxEvents(evs), strings.Count(model, "E(") >= 3 && nons >= 1)
		rn.Count(fmt.Sprintf("nodes:%d", (nodes/20)*20))
		if i < 3 {
			rn.Sample(showEvents(evs))
		}
		if impl != model {
			evs2, i2, m2 := shrinkEvents(rn, evs, func(a, b string) bool { return a != b })
			rn.Report(&Replay{Family: "store-dump", Clause: "tree mirrors the stream; Pos numbering; ownership", Kind: "tree",
				Events: evs2, Doc: showEvents(evs2), Impl: i2, Model: m2},
				fmt.Sprintf("store tree differs from the model for <%s>: implementation %s, model %s", showEvents(evs2), i2, m2))
			continue
		}
		root, _ := buildImpl(evs)
		if s := contractChecks(root); s != "" {
			rn.Report(&Replay{Family: "store-contract", Clause: s, Kind: "tree", Events: evs, Doc: showEvents(evs), Impl: impl, Model: model, Note: s},
				"Cursor contract broken: "+s)
		}
	}
	// the built-in parsers meet the Parser contract too: trees built by ReadXml from generated texts honour the Cursor contract
	for i := 0; i < rn.Scale(300, 4000) && !rn.TooMany(); i++ {
		r := rn.R.Fork()
		g := &xmlGen{r: r, budget: rn.Scale(25, 80)}
		var b strings.Builder
		for _, it := range g.doc("") {
			it.render(r, &b)
		}
		text := b.String()
		root, err := xsel.ReadXml(strings.NewReader(text))
		if err != nil {
			continue
		}
		rn.Eval("xml|"+text, strings.Contains(text, "xmlns") && strings.Count(text, "=") >= 3)
		rn.Count("built-in-parser:xml")
		if s := contractChecks(root); s != "" {
			rn.Report(&Replay{Family: "store-contract-xml", Clause: s, Kind: "xmltree", Input: text, Impl: s, Model: "Cursor contract", Note: s},
				fmt.Sprintf("Cursor contract broken for the tree ReadXml builds from %q: %s", text, s))
		}
	}
	// stack clause: a flat stream of 10^6 (thorough: 10^7) events under a lowered stack limit, in a subprocess
	n := rn.Scale(1000000, 10000000)
	cmd := exec.Command(os.Args[0], "-stackprobe", fmt.Sprint(n))
	outp, err := cmd.CombinedOutput()
	rn.Eval(fmt.Sprintf("flat-%d", n), true)
	rn.Count("flat-stream-events:" + fmt.Sprint(n))
	if err != nil || !strings.Contains(string(outp), "stackprobe ok") {
		tail := string(outp)
		if len(tail) > 300 {
			tail = tail[:300]
		}
		rn.Report(&Replay{Family: "store-stack", Clause: "stack bounded by nesting depth", Kind: "stack", Input: fmt.Sprint(n),
			Impl: "process failed: " + tail, Model: "survives"}, fmt.Sprintf("flat stream of %d events exhausted a 1 MiB goroutine stack", n))
	}
}

func init() {
	replayers["stack"] = func(rn *Runner, rp *Replay) (string, string, bool) {
		cmd := exec.Command(os.Args[0], "-stackprobe", rp.Input)
		outp, err := cmd.CombinedOutput()
		if err != nil || !strings.Contains(string(outp), "stackprobe ok") {
			return "process failed", "survives", false
		}
		return "survives", "survives", true
	}
	if len(os.Args) == 3 && os.Args[1] == "-stackprobe" {
		var n int
		fmt.Sscan(os.Args[2], &n)
		debug.SetMaxStack(1 << 20)
		evs := make([]Event, 0, n)
		evs = append(evs, Event{Kind: EvStart, B: "r"})
		for len(evs) < n-1 {
			evs = append(evs, Event{Kind: EvStart, B: "i"}, Event{Kind: EvText, A: "x"}, Event{Kind: EvEnd})
		}
		evs = append(evs, Event{Kind: EvEnd})
		root, err := buildImpl(evs)
		if err != nil || len(root.Children()) != 1 {
			fmt.Println("stackprobe failed", err)
			os.Exit(1)
		}
		fmt.Println("stackprobe ok", len(root.Children()[0].Children()))
		os.Exit(0)
	}
}

// shrinkEvents removes balanced pieces of the stream while the two sides still differ.
func shrinkEvents(rn *Runner, evs []Event, differ func(impl, model string) bool) ([]Event, string, string) {
	cur := evs
	ci, cm, _ := treeCase(rn, cur)
	budget := 300
	for progress := true; progress && budget > 0; {
		progress = false
		for i := 0; i < len(cur) && budget > 0; i++ {
			var cand []Event
			if cur[i].Kind == EvStart {
				// remove the whole element
				depth, j := 0, i
				for ; j < len(cur); j++ {
					if cur[j].Kind == EvStart {
						depth++
					} else if cur[j].Kind == EvEnd {
						depth--
						if depth == 0 {
							break
						}
					}
				}
				if j >= len(cur) {
					continue
				}
				cand = append(append([]Event{}, cur[:i]...), cur[j+1:]...)
			} else if cur[i].Kind == EvEnd {
				continue
			} else {
				cand = append(append([]Event{}, cur[:i]...), cur[i+1:]...)
			}
			budget--
			i2, m2, _ := treeCase(rn, cand)
			if differ(i2, m2) {
				cur, ci, cm = cand, i2, m2
				progress = true
				break
			}
		}
	}
	return cur, ci, cm
}
