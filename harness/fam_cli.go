package main

import (
	"bytes"
	"encoding/json"
	"encoding/xml"
	"fmt"
	"golang.org/x/net/html/charset"
	"io"
	"io/fs"
	"mime"
	"os"
	"os/exec"
	"path/filepath"
	"sort"
	"strings"
	"sync"

	"github.com/ChrisTrenkamp/xsel"
	"github.com/ChrisTrenkamp/xsel/node"
	"github.com/ChrisTrenkamp/xsel/store"
)

var cliPath string // the freshly built xsel command (set by -cli)

func init() {
	families["C20"] = famC20
	families["C14"] = famC14
	rules["C20"] = "generated directory trees (xml/svg/xhtml/html/htm/json files, nested directories, unknown extensions, malformed documents, dangling links) x flag combinations (-a -m -n -r -t -s -v -u -e, stdin) x expressions (node-sets, numbers, strings, empty results, bindings); " +
		"the freshly built command's stdout must equal, byte for byte, the records the CLI model derives from the library's own results for each processed file (file order = walk order); -m records are checked by re-parsing each record and comparing it with the selected subtree; " +
		"failing inputs must produce a diagnostic on stderr; non-trivial: at least two files produce output; distinct by (tree, flags, expression)"
	rules["C14"] = "one tree, one compiled expression and one set of bindings (including a caller-held node-set variable in reverse document order used with predicates and unions) used by 8-64 goroutines at once in a race-detector build: every concurrent result must equal the serial result, " +
		"the caller's node-set must be unchanged, and the race detector must stay silent; the race-built CLI is run with -c 8 / -c 32 and -c 1 over 24-60 files (with -a and large per-file blocks): same multiset of per-file blocks, every block contiguous; " +
		"non-trivial: an expression with a union, a predicate on a variable or a reverse axis; distinct by (document, expression)"
	// -m on one document: the record must parse back to the selected node
	replayers["clim"] = func(rn *Runner, rp *Replay) (string, string, bool) {
		dir, _ := os.MkdirTemp(".", "clim")
		defer os.RemoveAll(dir)
		os.WriteFile(filepath.Join(dir, "w.xml"), []byte(rp.Input), 0o644)
		out, _, _ := runCli(dir, []string{"-x", rp.Text, "-m", "-n", "w.xml"}, "")
		c, err := xsel.ReadXml(strings.NewReader(rp.Input))
		if err != nil {
			return "unparsable witness", "", true
		}
		g, _ := buildCached(rp.Text)
		res, _ := xsel.Exec(c, g)
		ns, _ := res.(xsel.NodeSet)
		lines := strings.Split(strings.TrimSuffix(out, "\n"), "\n")
		if len(ns) == 0 || len(lines) != len(ns) {
			return out, fmt.Sprint(len(ns)) + " records", false
		}
		for i, n := range ns {
			var s1, s2 strings.Builder
			mShape(n, &s1)
			back, perr := xsel.ReadXml(strings.NewReader(lines[i]))
			if perr == nil {
				shapeOf(back, &s2)
			}
			if perr != nil || normShape(s1.String()) != normShape(s2.String()) {
				return "record " + lines[i] + " parses back to " + s2.String(), s1.String(), false
			}
		}
		return out, "round-trips", true
	}
	// the same for a JSON document
	replayers["climj"] = func(rn *Runner, rp *Replay) (string, string, bool) {
		dir, _ := os.MkdirTemp(".", "climj")
		defer os.RemoveAll(dir)
		os.WriteFile(filepath.Join(dir, "w.json"), []byte(rp.Input), 0o644)
		out, _, _ := runCli(dir, []string{"-x", rp.Text, "-m", "-n", "w.json"}, "")
		c, err := xsel.ReadJson(strings.NewReader(rp.Input))
		if err != nil {
			return "unparsable witness", "", true
		}
		g, _ := buildCached(rp.Text)
		res, _ := xsel.Exec(c, g)
		ns, _ := res.(xsel.NodeSet)
		lines := strings.Split(strings.TrimSuffix(out, "\n"), "\n")
		if len(ns) == 0 || len(lines) != len(ns) {
			return out, fmt.Sprint(len(ns)) + " records", false
		}
		for i, n := range ns {
			var s1, s2 strings.Builder
			mShape(n, &s1)
			back, perr := xsel.ReadXml(strings.NewReader(lines[i]))
			if perr == nil {
				shapeOf(back, &s2)
			}
			if perr != nil || normShape(s1.String()) != normShape(s2.String()) {
				return "record " + lines[i] + " parses back to " + s2.String(), s1.String(), false
			}
		}
		return out, "round-trips", true
	}
	replayers["cli"] = func(rn *Runner, rp *Replay) (string, string, bool) {
		rn.Prop, rn.maxMis, rn.Tier = rp.Property, 1000, "quick"
		families[rp.Property](rn)
		for _, m := range rn.St.Mismatches {
			if strings.HasPrefix(m.Summary, rp.Note) {
				return m.Impl, m.Model, false
			}
		}
		return "(no such disagreement now)", rp.Model, true
	}
}

// ---- documents as events, for the model ----

func eventsOfCursor(c store.Cursor, out []Event) []Event {
	for _, k := range c.Children() {
		switch v := k.Node().(type) {
		case node.Element:
			out = append(out, Event{Kind: EvStart, A: v.Space(), B: v.Local()})
			for _, n := range k.Namespaces() {
				ns := n.Node().(node.Namespace)
				out = append(out, Event{Kind: EvNs, A: ns.Prefix(), B: ns.NamespaceValue()})
			}
			for _, a := range k.Attributes() {
				at := a.Node().(node.Attribute)
				out = append(out, Event{Kind: EvAttr, A: at.Space(), B: at.Local(), C: at.AttributeValue()})
			}
			out = eventsOfCursor(k, out)
			out = append(out, Event{Kind: EvEnd})
		case node.CharData:
			out = append(out, Event{Kind: EvText, A: v.CharDataValue()})
		case node.Comment:
			out = append(out, Event{Kind: EvComment, A: v.CommentValue()})
		case node.ProcInst:
			out = append(out, Event{Kind: EvPI, A: v.Target(), B: v.ProcInstValue()})
		}
	}
	return out
}

// ---- the file tree ----

type cliFile struct {
	rel     string
	content string
	link    string // dangling symlink target
}

var cliXmlDocs = []string{
	`<r><a id="1">x</a><a id="2">y<b/>z</a><c>3</c></r>`,
	`<?xml version="1.0"?><r xmlns:p="urn:u1"><p:a>1</p:a><a>2</a><!-- c --><?pi d?></r>`,
	`<r><a>line1
line2</a><a/></r>`,
	`<r><!-- a
b --><a k="v&#10;w">t</a></r>`,
	`<r><a>&co;</a></r>`,
	`<r><a id="&co;">x &co; y</a><a>&lt;</a></r>`,
	`<r><a>1</a><a>2</a><a>3</a></r>`,
	`<r><unclosed></r>`,
	`<r xmlns="urn:u1"><a b="c"/><a>é</a></r>`,
	``,
	`<r xmlns:p="urn:u1"><a p:id="7" id="3" xml:lang="en">t</a><p:b p:k="v" k="w"><c p:z="1" xmlns:q="urn:u2" q:z="2"/></p:b></r>`,
	`<r xmlns:p="urn:u1" xmlns:q="urn:u2"><a q:id="1" p:id="2">x</a><a id="0" xml:space="preserve"> y </a></r>`,
	// elements named like HTML void elements, with content; an entity that only HTML defines
	`<r><link>u</link><meta>m</meta><a>1</a><br>x</br><a>2</a></r>`,
	`<r><a>caf&eacute;</a><a>2</a></r>`,
	// declared encodings other than UTF-8 (the bytes are in that encoding)
	"<?xml version=\"1.0\" encoding=\"ISO-8859-1\"?><r><a id=\"\xe9\">caf\xe9</a><a>2</a></r>",
	"<?xml version=\"1.0\" encoding=\"windows-1252\"?><r><a>\x80 5</a><a>\x93q\x94</a></r>",
}
var cliHtmlDocs = []string{`<!DOCTYPE html><html><body><a id="1">x</a><p>y<a>z</a></p></body></html>`, `<html><body>no doctype</body></html>`, `<!DOCTYPE html><a>1<a>2`}
var cliJsonDocs = []string{`{"a": 1, "b": [1, 2, {"a": "x"}]}`, `[{"a": true}, {"a": null}]`, `{"a": 1`, `"scalar"`, `{"a": "line\nbreak"}`}

func genCliTree(r *Rng, root string, nfiles int) []cliFile {
	var files []cliFile
	dirs := []string{"", "d1", "d1/sub", "d2", "e"}
	exts := []string{".xml", ".xml", ".xml", ".html", ".htm", ".json", ".json", ".svg", ".xhtml", ".txt", ".dat", "", ".xml"}
	used := map[string]bool{}
	for i := 0; i < nfiles; i++ {
		ext := pick(r, exts)
		// names the shell, printf-style formatting or a path splitter could trip over
		name := fmt.Sprintf("%s%d%s", pick(r, []string{"f", "a", "z", "doc", "f", "a", "50%off", "a b", "%s%d", "x:y"}), r.Intn(30), ext)
		rel := filepath.Join(pick(r, dirs), name)
		if used[rel] {
			continue
		}
		used[rel] = true
		f := cliFile{rel: rel}
		switch {
		case r.Chance(1, 15):
			f.link = "/nonexistent/target"
		case ext == ".html" || ext == ".htm":
			f.content = pick(r, cliHtmlDocs)
		case ext == ".json":
			f.content = pick(r, cliJsonDocs)
		default:
			f.content = pick(r, cliXmlDocs)
		}
		files = append(files, f)
	}
	for _, f := range files {
		p := filepath.Join(root, f.rel)
		os.MkdirAll(filepath.Dir(p), 0o755)
		if f.link != "" {
			os.Symlink(f.link, p)
		} else {
			os.WriteFile(p, []byte(f.content), 0o644)
		}
	}
	return files
}

type cliRun struct {
	flags                    []string // as passed
	all, m, n, rec, unstrict bool
	ftype                    string
	ns                       [][2]string
	vars                     [][2]string
	ents                     [][2]string
	expr                     string
	e                        Expr
	args                     []string
	stdin                    string
}

func runCli(dir string, args []string, stdin string) (stdout, stderr string, err error) {
	cmd := exec.Command(cliPath, args...)
	cmd.Dir = dir
	var so, se bytes.Buffer
	cmd.Stdout, cmd.Stderr = &so, &se
	if stdin != "" {
		cmd.Stdin = strings.NewReader(stdin)
	}
	err = cmd.Run()
	return so.String(), se.String(), err
}

// parseLikeCli mirrors createCursor / the type detection of the command through the library API
func parseLikeCli(path string, data []byte, run *cliRun) (store.Cursor, bool) {
	pt := run.ftype
	if pt == "" {
		media, _, err := mime.ParseMediaType(mime.TypeByExtension(filepath.Ext(path)))
		if err != nil {
			return nil, false
		}
		switch {
		case strings.Contains(media, "xml"):
			pt = "xml"
		case strings.Contains(media, "html"):
			pt = "html"
		case strings.Contains(media, "json"):
			pt = "json"
		default:
			return nil, false
		}
	}
	var c store.Cursor
	var err error
	switch pt {
	case "xml":
		c, err = xsel.ReadXml(bytes.NewReader(data), func(d *xml.Decoder) {
			d.Strict = !run.unstrict
			ents := map[string]string{}
			for _, e := range run.ents {
				ents[e[0]] = e[1]
			}
			d.Entity = ents
		})
	case "html":
		c, err = xsel.ReadHtml(bytes.NewReader(data))
	case "json":
		c, err = xsel.ReadJson(bytes.NewReader(data))
		// "unparsable inputs produce a diagnostic": whether a file IS JSON is decided by encoding/json, independently
		// of the library's adapter (which must reject what is not one JSON value)
		// (a stream of zero or more values, which is what the adapter documents)
		dec := json.NewDecoder(bytes.NewReader(data))
		for {
			var v any
			if derr := dec.Decode(&v); derr == io.EOF {
				break
			} else if derr != nil {
				return nil, false
			}
		}
	}
	if pt == "xml" && (err != nil || c == nil) {
		// "files are parsed ...; unparsable inputs produce a diagnostic": whether a file IS parsable XML is decided by an
		// encoding/xml decoder of the harness's own, configured like the command's (strictness, entities, charset reader)
		if xmlParsableIndependently(data, run) {
			cliAlarm = fmt.Sprintf("%s is well-formed XML for encoding/xml under the command's settings, but the library's route with options rejects it: %v", path, err)
		}
	}
	if err != nil || c == nil {
		return nil, false
	}
	return c, true
}

// cliAlarm: set by parseLikeCli when the library refuses what an independent decoder accepts
var cliAlarm string

func xmlParsableIndependently(data []byte, run *cliRun) bool {
	d := xml.NewDecoder(bytes.NewReader(data))
	d.CharsetReader = charset.NewReaderLabel
	d.Strict = !run.unstrict
	ents := map[string]string{}
	for _, e := range run.ents {
		ents[e[0]] = e[1]
	}
	d.Entity = ents
	depth, elems := 0, 0
	for {
		t, err := d.Token()
		if err == io.EOF {
			return depth == 0 && elems > 0
		}
		if err != nil {
			return false
		}
		switch t.(type) {
		case xml.StartElement:
			depth++
			elems++
		case xml.EndElement:
			depth--
		}
	}
}

func shapeOf(c store.Cursor, b *strings.Builder) {
	switch v := c.Node().(type) {
	case node.Element:
		fmt.Fprintf(b, "<{%s}%s", v.Space(), v.Local())
		var as []string
		for _, a := range c.Attributes() {
			at := a.Node().(node.Attribute)
			as = append(as, fmt.Sprintf(" {%s}%s=%q", at.Space(), at.Local(), at.AttributeValue()))
		}
		sort.Strings(as)
		b.WriteString(strings.Join(as, "") + ">")
		for _, k := range c.Children() {
			shapeOf(k, b)
		}
		b.WriteString("</>")
	case node.CharData:
		fmt.Fprintf(b, "T%q", v.CharDataValue())
	case node.Comment:
		fmt.Fprintf(b, "C%q", v.CommentValue())
	case node.ProcInst:
		fmt.Fprintf(b, "P%q%q", v.Target(), v.ProcInstValue())
	default:
		for _, k := range c.Children() {
			shapeOf(k, b)
		}
	}
}

// mShape: what the -m record of a node must parse back to. Attribute and namespace nodes have no XML serialisation of
// their own; the command writes them as processing instructions <?attribute:[URI:]local value?> and <?namespace:prefix URI?>,
// from which name and value must be recoverable.
func mShape(c store.Cursor, b *strings.Builder) {
	switch v := c.Node().(type) {
	case node.Attribute:
		t := "attribute:"
		if v.Space() != "" {
			t += v.Space() + ":"
		}
		fmt.Fprintf(b, "P%q%q", t+v.Local(), v.AttributeValue())
	case node.Namespace:
		fmt.Fprintf(b, "P%q%q", "namespace:"+v.Prefix(), v.NamespaceValue())
	default:
		shapeOf(c, b)
	}
}

// hasNonXmlName: an element or attribute in the subtree whose name is not an XML name (the JSON mapping's
// #obj / #arr, JSON keys such as "1" or "a b"): its serialisation is not well-formed XML
func hasNonXmlName(c store.Cursor) bool {
	bad := func(n string) bool {
		for i, r := range n {
			letter := r == '_' || r >= 'a' && r <= 'z' || r >= 'A' && r <= 'Z' || r >= 0xC0
			if !(letter || i > 0 && (r >= '0' && r <= '9' || r == '-' || r == '.' || r == 0xB7)) {
				return true
			}
		}
		return n == ""
	}
	if e, ok := c.Node().(node.Element); ok {
		if bad(e.Local()) {
			return true
		}
		for _, a := range c.Attributes() {
			if bad(a.Node().(node.Attribute).Local()) {
				return true
			}
		}
	}
	for _, k := range c.Children() {
		if hasNonXmlName(k) {
			return true
		}
	}
	return false
}

// hasEmptyName: the subtree has an element or attribute whose local name is empty (the JSON member "")
func hasEmptyName(c store.Cursor) bool {
	switch v := c.Node().(type) {
	case node.Element:
		if v.Local() == "" {
			return true
		}
	case node.Attribute:
		return false // printed in its PI form: see piFormEncodable
	}
	for _, a := range c.Attributes() {
		if a.Node().(node.Attribute).Local() == "" {
			return true
		}
	}
	for _, k := range c.Children() {
		if _, ok := k.Node().(node.Element); ok && hasEmptyName(k) {
			return true
		}
	}
	return false
}

// piFormEncodable: encoding/xml refuses a processing instruction whose target is not an XML name or whose data contains "?>"
func piFormEncodable(c store.Cursor) bool {
	var target, val string
	switch v := c.Node().(type) {
	case node.Attribute:
		target, val = v.Space()+":"+v.Local(), v.AttributeValue()
	case node.Namespace:
		target, val = v.Prefix(), v.NamespaceValue()
	default:
		return true
	}
	if strings.Contains(val, "?>") {
		return false
	}
	for _, r := range target {
		if r < 0x80 && !(r >= 'a' && r <= 'z' || r >= 'A' && r <= 'Z' || r >= '0' && r <= '9' || r == '.' || r == '_' || r == ':' || r == '-') {
			return false
		}
	}
	return true
}

// mergeText joins adjacent text in a shape (a re-parse merges text nodes that were siblings)
func hasNewlineInCommentOrPI(c store.Cursor) bool {
	switch v := c.Node().(type) {
	case node.Attribute:
		return strings.Contains(v.AttributeValue(), "\n") // printed in its PI form
	case node.Namespace:
		return strings.Contains(v.NamespaceValue(), "\n")
	}
	switch v := c.Node().(type) {
	case node.Comment:
		return strings.Contains(v.CommentValue(), "\n")
	case node.ProcInst:
		return strings.Contains(v.ProcInstValue(), "\n")
	}
	for _, k := range c.Children() {
		if hasNewlineInCommentOrPI(k) {
			return true
		}
	}
	return false
}

func famC20(rn *Runner) {
	if cliPath == "" {
		panic("C20 needs -cli")
	}
	base, _ := os.MkdirTemp(".", "clitree")
	defer os.RemoveAll(base)
	n := rn.Scale(300, 4000)
	for ci := 0; ci < n && !rn.TooMany(); ci++ {
		r := rn.R.Fork()
		dir := filepath.Join(base, fmt.Sprintf("t%d", ci))
		os.MkdirAll(dir, 0o755)
		files := genCliTree(r, dir, 3+r.Intn(7))
		run := &cliRun{all: r.Chance(1, 3), m: r.Chance(1, 4), n: r.Chance(1, 3), rec: r.Chance(1, 2), unstrict: r.Chance(1, 4)}
		if r.Chance(1, 6) {
			run.ftype = pick(r, []string{"xml", "html", "json"})
		}
		// the first cases are about what FOLLOWS a record that could not be printed: -m over a file with a node that the
		// encoder refuses part-way (open findings), then ordinary files - their records must be exactly theirs
		aftermath := ci < 12
		if aftermath {
			for _, f := range files {
				os.Remove(filepath.Join(dir, f.rel))
			}
			files = []cliFile{
				{rel: "a0.xml", content: cliXmlDocs[10]},
				{rel: "b0.xml", content: cliXmlDocs[0]},
				{rel: "c0.json", content: `{"a":{"x":1,"":2},"b":3}`},
				{rel: "d0.xml", content: cliXmlDocs[6]},
				{rel: "e0.xml", content: cliXmlDocs[11]},
				{rel: "f0.xml", content: cliXmlDocs[1]},
			}
			for _, f := range files {
				os.WriteFile(filepath.Join(dir, f.rel), []byte(f.content), 0o644)
			}
			run = &cliRun{all: ci%3 == 0, m: true, n: ci%4 == 3}
		}
		env := &Env{}
		type ex struct {
			text string
			e    Expr
		}
		pa := func(abs bool, steps ...*Stp) Expr { return &EPath{Abs: abs, Steps: steps} }
		dos := &Stp{Axis: "descendant-or-self", Test: NodeTest{Kind: "node"}, Abbrev: true}
		name := func(l string) *Stp { return &Stp{Axis: "child", Test: NodeTest{Kind: "name", Local: l}, Abbrev: true} }
		exprs := []Expr{
			pa(true, dos, name("a")), call("count", pa(true, dos, &Stp{Axis: "child", Test: NodeTest{Kind: "any"}, Abbrev: true})),
			call("string", pa(true, &Stp{Axis: "child", Test: NodeTest{Kind: "any"}, Abbrev: true})), pa(true, dos, &Stp{Axis: "attribute", Test: NodeTest{Kind: "any"}, Abbrev: true}),
			pa(true), pa(true, dos, &Stp{Axis: "child", Test: NodeTest{Kind: "text"}, Abbrev: true}), pa(true, dos, &Stp{Axis: "child", Test: NodeTest{Kind: "comment"}, Abbrev: true}),
			bin("div", num("1"), num("0")), pa(true, dos, name("nope")), pa(true, dos, &Stp{Axis: "child", Test: NodeTest{Kind: "qn", Prefix: "p", Local: "a"}, Abbrev: true}),
			bin("=", &EVar{RawQ{Local: "x"}}, lit("val")), pa(true, dos, &Stp{Axis: "child", Test: NodeTest{Kind: "pi"}, Abbrev: true}),
			pa(true, &Stp{Axis: "child", Test: NodeTest{Kind: "any"}, Abbrev: true}), pa(true, dos, &Stp{Axis: "child", Test: NodeTest{Kind: "name", Local: "a"}, Preds: []Expr{num("2")}, Abbrev: true}),
			pa(true, dos, &Stp{Axis: "namespace", Test: NodeTest{Kind: "any"}}),
			// -v binds a STRING, whatever it looks like: a[$x] is a[boolean($x)], @id = $x compares strings
			pa(true, dos, &Stp{Axis: "child", Test: NodeTest{Kind: "name", Local: "a"}, Preds: []Expr{&EVar{RawQ{Local: "x"}}}, Abbrev: true}),
			call("boolean", &EVar{RawQ{Local: "x"}}),
			pa(true, dos, &Stp{Axis: "child", Test: NodeTest{Kind: "name", Local: "a"}, Preds: []Expr{bin("=", pa(false, &Stp{Axis: "attribute", Test: NodeTest{Kind: "name", Local: "id"}, Abbrev: true}), &EVar{RawQ{Local: "x"}})}, Abbrev: true}),
		}
		run.e = pick(r, exprs)
		if aftermath {
			run.e = []Expr{exprs[3], exprs[12], exprs[14], exprs[0]}[ci%4] // //@*, /*, //namespace::*, //a
		}
		run.expr = Render(run.e, RenderOpts{})
		run.ns = [][2]string{{"p", "urn:u1"}}
		env.NS = []NSBind{{"p", "urn:u1"}}
		run.vars = [][2]string{{"x", pick(r, []string{"val", "other", "2", "0", "1.5", "02", "-3", ""})}}
		env.Vars = []VarBind{{"", "x", VarVal{Kind: "str", Str: run.vars[0][1]}}}
		if r.Chance(1, 2) {
			run.ents = [][2]string{{"co", "ACME"}}
		}
		args := []string{"-x", run.expr, "-s", "p=urn:u1", "-v", "x=" + run.vars[0][1]}
		for _, e := range run.ents {
			args = append(args, "-e", e[0]+"="+e[1])
		}
		for _, f := range []struct {
			on   bool
			flag string
		}{{run.all, "-a"}, {run.m, "-m"}, {run.n, "-n"}, {run.rec, "-r"}, {run.unstrict, "-u"}} {
			if f.on {
				args = append(args, f.flag)
			}
		}
		if run.ftype != "" {
			args = append(args, "-t", run.ftype)
		}
		// arguments: some files, some directories, sometimes stdin
		var targets []string
		for _, f := range files {
			if r.Chance(1, 3) {
				targets = append(targets, f.rel)
			}
		}
		for _, d := range []string{"d1", "d2", "e", "."} {
			if r.Chance(1, 3) {
				if _, err := os.Stat(filepath.Join(dir, d)); err == nil {
					targets = append(targets, d)
				}
			}
		}
		if len(targets) == 0 {
			targets = []string{"."}
		}
		if aftermath {
			targets = []string{"a0.xml", "b0.xml", "c0.json", "d0.xml", "e0.xml", "f0.xml"}
		}
		stdin := ""
		if run.ftype != "" && r.Chance(1, 4) {
			targets = append(targets, "-")
			stdin = pick(r, cliXmlDocs[:4])
			if run.ftype == "json" {
				stdin = cliJsonDocs[0]
			} else if run.ftype == "html" {
				stdin = cliHtmlDocs[0]
			}
		}
		args = append(args, targets...)
		stdout, stderr, err := runCli(dir, args, stdin)
		// the expected output through the library and the model
		var processed []string // in walk order
		for _, t := range targets {
			if t == "-" {
				processed = append(processed, "-")
				continue
			}
			filepath.WalkDir(filepath.Join(dir, t), func(p string, d fs.DirEntry, werr error) error {
				if werr != nil {
					return nil
				}
				if !d.IsDir() {
					rel, _ := filepath.Rel(dir, p)
					if t == "." {
						rel = p[len(dir)+1:]
					}
					processed = append(processed, relArg(t, dir, p))
					_ = rel
					return nil
				}
				if run.rec {
					return nil
				}
				return fs.SkipDir
			})
		}
		var fileSx []string
		nOut := 0
		type expNode struct {
			c store.Cursor
		}
		var mNodes []expNode // nodes whose -m records are expected, in output order
		wantDiag := 0
		var diagPaths []string // every failing input is named by its own diagnostic
		knownNewline := false
		var docIDs []int
		for _, p := range processed {
			var data []byte
			var rerr error
			if p == "-" {
				data = []byte(stdin)
			} else {
				data, rerr = os.ReadFile(filepath.Join(dir, p))
			}
			isStdin := "0"
			if p == "-" {
				isStdin = "1"
			}
			if rerr != nil {
				fileSx = append(fileSx, fmt.Sprintf("(%s %s none none)", sxStr(p), isStdin))
				wantDiag++
				diagPaths = append(diagPaths, p)
				continue
			}
			c, ok := parseLikeCli(p, data, run)
			if cliAlarm != "" && !rn.TooMany() {
				rn.Report(&Replay{Family: "cli-independent-xml", Clause: "a parsable file is parsed", Kind: "xml", Input: string(data), Text: run.expr, Impl: "rejected", Model: "parsable", Note: cliAlarm}, cliAlarm)
			}
			cliAlarm = ""
			if !ok {
				fileSx = append(fileSx, fmt.Sprintf("(%s %s none none)", sxStr(p), isStdin))
				wantDiag++
				diagPaths = append(diagPaths, p)
				continue
			}
			rn.nextDoc++
			id := rn.nextDoc
			docIDs = append(docIDs, id)
			evs := eventsOfCursor(c, nil)
			rn.M.Ask(fmt.Sprintf("(doc %d %s)", id, sxEvents(evs)))
			g, _ := buildCached(run.expr)
			res, xerr := xsel.Exec(c, g, env.Settings(c)...)
			if xerr != nil {
				fileSx = append(fileSx, fmt.Sprintf("(%s %s %d none)", sxStr(p), isStdin, id))
				wantDiag++
				diagPaths = append(diagPaths, p)
				continue
			}
			var val string
			switch v := res.(type) {
			case xsel.NodeSet:
				parts := []string{"(nodes"}
				for _, x := range v {
					if run.m && hasEmptyName(x) {
						// open known finding C20-m-empty-name: encoding/xml refuses a start tag (or attribute) with no name - a JSON
						// member named "" - part-way through the record; the command reports it and prints nothing more for this file
						if rn.St.Known == nil {
							rn.St.Known = map[string]int{}
						}
						rn.St.Known["C20-m-empty-name"]++
						wantDiag++
						diagPaths = append(diagPaths, p)
						break
					}
					if run.m && !piFormEncodable(x) {
						// open known finding C20-m-pi-form-not-encodable: the command stops printing this file's records here
						// and reports the encoder's error; the as-is expectation is the records before this node
						if rn.St.Known == nil {
							rn.St.Known = map[string]int{}
						}
						rn.St.Known["C20-m-pi-form-not-encodable"]++
						wantDiag++
						diagPaths = append(diagPaths, p)
						break
					}
					pp, _ := pathOf(x)
					parts = append(parts, pp.Sx())
					if run.m {
						mNodes = append(mNodes, expNode{x})
						if hasNewlineInCommentOrPI(x) {
							knownNewline = true
						}
					}
				}
				val = strings.Join(parts, " ") + ")"
				if len(parts) > 1 {
					nOut++
				}
			case xsel.Number:
				val = "(n " + showNum(float64(v)) + ")"
				nOut++
			case xsel.String:
				val = "(str " + sxStr(string(v)) + ")"
				nOut++
			case xsel.Bool:
				val = "(b 0)"
				if bool(v) {
					val = "(b 1)"
				}
				nOut++
			}
			fileSx = append(fileSx, fmt.Sprintf("(%s %s %d %s)", sxStr(p), isStdin, id, val))
		}
		b2i := func(b bool) int {
			if b {
				return 1
			}
			return 0
		}
		model := rn.M.Ask(fmt.Sprintf("(cli (%d %d %d %d) (%s))", b2i(run.all), b2i(run.m), b2i(run.n), b2i(run.rec), strings.Join(fileSx, " ")))
		for _, id := range docIDs {
			rn.M.Ask(fmt.Sprintf("(drop %d)", id))
		}
		want := decodeStr(model)
		key := strings.Join(args, " ") + "|" + fmt.Sprint(files)
		rn.Eval(key, nOut >= 2)
		rn.Count(fmt.Sprintf("files-with-output:%d", nOut))
		if ci < 3 {
			rn.Sample(fmt.Sprintf("xsel %s  (files: %v) -> %q", strings.Join(args, " "), processed, stdout))
		}
		report := func(clause, what string) {
			sum := fmt.Sprintf("case %d: xsel %s in a tree with %v: %s", ci, strings.Join(args, " "), files, what)
			rn.Report(&Replay{Family: "cli", Clause: clause, Kind: "cli", Input: strings.Join(args, " "), Impl: stdout, Model: want, Note: fmt.Sprintf("case %d:", ci)}, sum)
		}
		_ = err
		if !run.m || !strings.Contains(want, "\x01") {
			if stdout != want {
				report("stdout = the records of the library's results", fmt.Sprintf("stdout %q, expected %q (stderr %q)", stdout, want, stderr))
				continue
			}
		} else {
			// -m: same lines, the serialisation re-parsed and compared with the selected subtree
			gotLines := strings.Split(strings.TrimSuffix(stdout, "\n"), "\n")
			wantLines := strings.Split(strings.TrimSuffix(want, "\n"), "\n")
			if stdout == "" {
				gotLines = nil
			}
			if want == "" {
				wantLines = nil
			}
			if len(gotLines) != len(wantLines) {
				report("-m: one single-line record per node", fmt.Sprintf("%d lines, expected %d records: stdout %q", len(gotLines), len(wantLines), stdout))
				continue
			}
			bad := ""
			mi := 0
			for i, wl := range wantLines {
				k := strings.IndexByte(wl, 1)
				if k < 0 {
					if gotLines[i] != wl {
						bad = fmt.Sprintf("record %d is %q, expected %q", i, gotLines[i], wl)
						break
					}
					continue
				}
				if mi >= len(mNodes) {
					bad = "more -m records than selected nodes"
					break
				}
				c := mNodes[mi].c
				mi++
				prefix := wl[:k]
				if !strings.HasPrefix(gotLines[i], prefix) {
					bad = fmt.Sprintf("record %d %q does not start with %q", i, gotLines[i], prefix)
					break
				}
				body := gotLines[i][len(prefix):]
				back, perr := xsel.ReadXml(strings.NewReader(body))
				var s1, s2 strings.Builder
				mShape(c, &s1)
				if perr == nil {
					shapeOf(back, &s2)
				}
				if (perr != nil || normShape(s1.String()) != normShape(s2.String())) && hasNewlineInCommentOrPI(c) {
					// open known finding C20-newline-in-comment-or-pi: recognised by its matcher, nothing else
					if rn.St.Known == nil {
						rn.St.Known = map[string]int{}
					}
					rn.St.Known["C20-newline-in-comment-or-pi"]++
					continue
				}
				if (perr != nil || normShape(s1.String()) != normShape(s2.String())) && hasNonXmlName(c) {
					// open known finding C20-m-names-not-xml: recognised by its matcher, nothing else
					if rn.St.Known == nil {
						rn.St.Known = map[string]int{}
					}
					rn.St.Known["C20-m-names-not-xml"]++
					continue
				}
				if perr != nil || normShape(s1.String()) != normShape(s2.String()) {
					bad = fmt.Sprintf("record %d %q does not parse back to the node: %s vs %s (%v)", i, body, s1.String(), s2.String(), perr)
					break
				}
			}
			if bad != "" {
				report("-m record parses back to the same node", bad)
				continue
			}
		}
		if wantDiag > 0 && strings.TrimSpace(stderr) == "" {
			report("failing inputs produce a diagnostic on stderr", fmt.Sprintf("%d inputs fail but stderr is empty", wantDiag))
		} else {
			// ... one per failing input: each diagnostic names its file
			need := map[string]int{}
			for _, dp := range diagPaths {
				if dp != "-" {
					need[dp]++
				}
			}
			for dp, k := range need {
				if got := strings.Count(stderr, "file "+dp+":") + strings.Count(stderr, "file "+dp+"\n"); got < k {
					report("every failing input produces its own diagnostic on stderr", fmt.Sprintf("%s fails %d time(s) but stderr names it %d time(s): %q", dp, k, got, stderr))
					break
				}
			}
		}
		_ = knownNewline
		os.RemoveAll(dir)
	}
}

func relArg(t, dir, p string) string {
	// the path as the command prints it: the argument joined with the walk's relative part
	rel, _ := filepath.Rel(filepath.Join(dir, t), p)
	if rel == "." {
		return t
	}
	return filepath.Join(t, rel)
}

// adjacent text nodes become one when a record is parsed back
func normShape(s string) string {
	for {
		i := strings.Index(s, `"T"`)
		if i < 0 {
			return s
		}
		s = s[:i] + s[i+3:]
	}
}

func decodeStr(ans string) string {
	if !strings.HasPrefix(ans, "S ") {
		return "?" + ans
	}
	body := ans[2:]
	if body == "_" {
		return ""
	}
	var b strings.Builder
	for _, f := range strings.Split(body, ".") {
		var c int
		fmt.Sscan(f, &c)
		b.WriteRune(rune(c))
	}
	return b.String()
}

// ---- C14 ----

func famC14(rn *Runner) {
	noRoutes = true
	ndocs := rn.Scale(4, 60)
	workers := rn.Scale(12, 64)
	for di := 0; di < ndocs && !rn.TooMany(); di++ {
		d := rn.genDoc(rn.Scale(60, 150))
		r := rn.R.Fork()
		env := stdEnv()
		var ps []Path
		for i := len(d.Paths) - 1; i >= 0; i-- {
			if r.Chance(1, 3) {
				ps = append(ps, d.Paths[i])
			}
		}
		held := make(xsel.NodeSet, len(ps), len(ps)+8)
		for i, p := range ps {
			held[i] = cursorAt(d.Root, p)
		}
		ident := append([]store.Cursor{}, held...)
		env.Vars = append(env.Vars, VarBind{"", "w", VarVal{Kind: "nodes", Nodes: ps}})
		settings := append(env.Settings(d.Root), xsel.WithVariable("w", held))
		g := NewExprGen(r.Fork(), d, env)
		var exprs []Expr
		for k := 0; k < rn.Scale(10, 30); k++ {
			switch r.Intn(6) {
			case 0:
				exprs = append(exprs, &EFilter{E: &EVar{RawQ{Local: "w"}}, Preds: []Expr{pick(r, []Expr{num("1"), call("last")})}})
			case 1:
				exprs = append(exprs, bin("|", &EVar{RawQ{Local: "w"}}, g.NodeSet(1, 2)))
			case 2:
				exprs = append(exprs, bin("|", g.NodeSet(1, 2), &EVar{RawQ{Local: "w"}}))
			case 3:
				exprs = append(exprs, call("count", bin("|", &EVar{RawQ{Local: "w"}}, &EVar{RawQ{Local: "w"}})))
			default:
				exprs = append(exprs, g.NodeSet(2, 3))
			}
		}
		// every axis selector from every node, so that each helper of the evaluator runs in several goroutines at once
		for _, ax := range allAxes {
			dos := &Stp{Axis: "descendant-or-self", Test: NodeTest{Kind: "node"}, Abbrev: true}
			st := &Stp{Axis: ax, Test: NodeTest{Kind: pick(r, []string{"node", "any"})}}
			exprs = append(exprs, &EPath{Abs: true, Steps: []*Stp{dos, st}})
			if r.Chance(1, 2) {
				exprs = append(exprs, call("count", &EPath{Abs: true, Steps: []*Stp{dos, {Axis: "attribute", Test: NodeTest{Kind: "any"}, Abbrev: true}, st}}))
			}
		}
		exprs = append(exprs, call("string", &EPath{Abs: true}), call("sum", &EPath{Abs: true, Steps: []*Stp{{Axis: "descendant", Test: NodeTest{Kind: "text"}}}}),
			&EPath{Abs: true, Steps: []*Stp{{Axis: "descendant", Test: NodeTest{Kind: "any"}, Preds: []Expr{call("lang", lit("en"))}}}},
			call("translate", call("normalize-space", &EPath{Abs: true}), lit("abc"), lit("AB")))
		type job struct {
			text   string
			gr     *xsel.Grammar
			serial string
			e      Expr
		}
		var jobs []job
		for _, e := range exprs {
			text := Render(e, RenderOpts{})
			gr, err := buildCached(text)
			if err != nil {
				continue
			}
			res, xerr := xsel.Exec(d.Root, gr, settings...)
			serial := projectResult(res, xerr)
			q := &QCase{Doc: d, Start: Path{}, Env: env, E: e, Text: text, Family: "concurrent"}
			model := rn.M.Ask(q.ModelCmd())
			if !agree(serial, model) {
				rn.Report(&Replay{Family: "concurrent", Clause: "serial result equals the model", Kind: "query", Events: d.Events, Start: ".", Env: env, Text: text, ExprSx: SxExpr(e), Doc: showEvents(d.Events), Impl: serial, Model: model},
					fmt.Sprintf("%s: serial %s, model %s", text, serial, model))
				continue
			}
			jobs = append(jobs, job{text, gr, serial, e})
		}
		var wg sync.WaitGroup
		var mu sync.Mutex
		bad := ""
		for w := 0; w < workers; w++ {
			wg.Add(1)
			go func(w int) {
				defer wg.Done()
				for rep := 0; rep < 6; rep++ {
					for i := range jobs {
						j := jobs[(i+w)%len(jobs)]
						res, err := xsel.Exec(d.Root, j.gr, settings...)
						if got := projectResult(res, err); got != j.serial {
							mu.Lock()
							if bad == "" {
								bad = fmt.Sprintf("%s: concurrent result %s, serial result %s", j.text, got, j.serial)
							}
							mu.Unlock()
						}
					}
				}
			}(w)
		}
		wg.Wait()
		rn.St.Evaluations += workers * 6 * len(jobs)
		for _, j := range jobs {
			rn.Eval(j.text+fmt.Sprint(d.ID), strings.Contains(j.text, "|") || strings.Contains(j.text, "$w[") || usesReverseAxis(j.e))
		}
		rn.Count(fmt.Sprintf("goroutines:%d", workers))
		if di == 0 && len(jobs) > 0 {
			rn.Sample(fmt.Sprintf("%d goroutines x 6 rounds x %d expressions, e.g. %s", workers, len(jobs), jobs[0].text))
		}
		if bad != "" {
			rn.Report(&Replay{Family: "concurrent", Clause: "every concurrent Exec returns the serial result", Kind: "cli", Events: d.Events, Doc: showEvents(d.Events), Impl: bad, Model: "serial", Note: "concurrent"}, "concurrent: "+bad)
		}
		for i, c := range ident {
			if held[i] != c {
				rn.Report(&Replay{Family: "concurrent", Clause: "the shared node-set variable is not written", Kind: "cli", Events: d.Events, Doc: showEvents(d.Events), Impl: fmt.Sprintf("cell %d changed", i), Model: "unchanged", Note: "concurrent"},
					fmt.Sprintf("concurrent: cell %d of the caller's node-set bound to $w was overwritten", i))
				break
			}
		}
		rn.DropDoc(d)
	}
	if cliPath != "" {
		cliConcurrency(rn)
	}
}

// the CLI under -c N vs -c 1: same blocks, each contiguous
func cliConcurrency(rn *Runner) {
	base, _ := os.MkdirTemp(".", "clic")
	defer os.RemoveAll(base)
	r := rn.R.Fork()
	for round := 0; round < rn.Scale(2, 12) && !rn.TooMany(); round++ {
		dir := filepath.Join(base, fmt.Sprintf("r%d", round))
		os.MkdirAll(dir, 0o755)
		nfiles := 24 + r.Intn(rn.Scale(12, 40))
		items := pick(r, []int{5, 300, 9000})
		if !rn.Thorough() {
			items = []int{4000, 40}[round%2]
		}
		for i := 0; i < nfiles; i++ {
			var b strings.Builder
			// namespace declarations of its own in every file (the workers parse concurrently)
			fmt.Fprintf(&b, `<r xmlns:p="urn:p%d" xmlns:q="urn:q%d" xmlns="urn:d%d">`, i, i, i)
			for k := 0; k < items; k++ {
				fmt.Fprintf(&b, `<a xmlns="">f%d-%d</a>`, i, k)
			}
			b.WriteString("</r>")
			os.WriteFile(filepath.Join(dir, fmt.Sprintf("f%03d.xml", i)), []byte(b.String()), 0o644)
		}
		mode := pick(r, []string{"-a", "-a", "-m", ""})
		args := []string{"-x", "//a", "-r"}
		if round%3 == 2 {
			// the namespace nodes of the document element: each file's own URIs
			args = []string{"-x", "/*/namespace::*", "-r"}
			mode = "-a"
		}
		if mode != "" {
			args = append(args, mode)
		}
		serial, _, _ := runCli(dir, append(append([]string{}, args...), "-c", "1", "."), "")
		blocksOf := func(out string) (map[string]string, string) {
			blocks := map[string]string{}
			last := ""
			closed := map[string]bool{}
			for _, line := range strings.SplitAfter(out, "\n") {
				if line == "" {
					continue
				}
				k := strings.Index(line, ": ")
				if k < 0 {
					return nil, "a line without a file prefix: " + line
				}
				p := line[:k]
				if p != last {
					if closed[p] {
						return nil, "the block of " + p + " is not contiguous"
					}
					if last != "" {
						closed[last] = true
					}
					last = p
				}
				blocks[p] += line
			}
			return blocks, ""
		}
		sb, serr := blocksOf(serial)
		if serr != "" || len(sb) != nfiles {
			rn.Report(&Replay{Family: "cli-concurrency", Clause: "-c 1 reference", Kind: "cli", Input: strings.Join(args, " "), Impl: serr, Model: fmt.Sprint(nfiles) + " blocks", Note: "cli-concurrency"}, "cli-concurrency: -c 1 output is not one block per file: "+serr)
			continue
		}
		for rep := 0; rep < rn.Scale(2, 8); rep++ {
			cN := pick(r, []string{"8", "32"})
			out, stderr, _ := runCli(dir, append(append([]string{}, args...), "-c", cN, "."), "")
			rn.St.Evaluations++
			if strings.Contains(stderr, "DATA RACE") {
				rn.Report(&Replay{Family: "cli-concurrency", Clause: "no data races in the command", Kind: "cli", Input: strings.Join(args, " "), Impl: stderr[:min(len(stderr), 1500)], Model: "silent", Note: "cli-concurrency"},
					"cli-concurrency: the race detector reports a data race in the command under -c "+cN)
				break
			}
			cb, cerr := blocksOf(out)
			if cerr == "" {
				if len(cb) != len(sb) {
					cerr = fmt.Sprintf("%d blocks under -c %s, %d under -c 1", len(cb), cN, len(sb))
				}
				for p, blk := range sb {
					if cb[p] != blk && cerr == "" {
						cerr = "the block of " + p + " differs from the -c 1 block"
					}
				}
			}
			if cerr != "" {
				rn.Report(&Replay{Family: "cli-concurrency", Clause: "-c N prints the same per-file blocks as -c 1, each contiguous", Kind: "cli", Input: strings.Join(args, " ") + " -c " + cN, Impl: cerr, Model: "same blocks", Note: "cli-concurrency"},
					fmt.Sprintf("cli-concurrency: xsel %s -c %s over %d files of %d items: %s", strings.Join(args, " "), cN, nfiles, items, cerr))
				break
			}
		}
		rn.Eval(fmt.Sprintf("cli-c-%d-%d-%s", nfiles, items, mode), true)
		rn.Count(fmt.Sprintf("cli-files:%d items:%d", (nfiles/10)*10, items))
		os.RemoveAll(dir)
	}
}

func min(a, b int) int {
	if a < b {
		return a
	}
	return b
}
