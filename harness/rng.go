package main

// splitmix64: every random choice of the harness derives from one state.
type Rng struct{ s uint64 }

func NewRng(seed uint64) *Rng { return &Rng{s: seed*0x9E3779B97F4A7C15 + 0x1234567} }

func (r *Rng) Next() uint64 {
	r.s += 0x9E3779B97F4A7C15
	z := r.s
	z = (z ^ (z >> 30)) * 0xBF58476D1CE4E5B9
	z = (z ^ (z >> 27)) * 0x94D049BB133111EB
	return z ^ (z >> 31)
}

// Intn returns a value in [0,n).
func (r *Rng) Intn(n int) int {
	if n <= 0 {
		return 0
	}
	return int(r.Next() % uint64(n))
}

func (r *Rng) Bool() bool { return r.Next()&1 == 1 }

// Chance returns true with probability num/den.
func (r *Rng) Chance(num, den int) bool { return r.Intn(den) < num }

func (r *Rng) Fork() *Rng { return NewRng(r.Next()) }

func pick[T any](r *Rng, xs []T) T { return xs[r.Intn(len(xs))] }
