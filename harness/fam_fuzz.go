package main

import (
	"bytes"
	"fmt"
	"github.com/ChrisTrenkamp/xsel/node"
	"github.com/ChrisTrenkamp/xsel/store"
	"os"
	"os/exec"
	"reflect"
	"strings"

	"github.com/ChrisTrenkamp/xsel"
)

func init() {
	families["C15"] = famC15
	rules["C15"] = "malformed streams through every public entry point, in a child process (so that an abort of the process is observed) with every call under recover: random bytes and token-level mutations of valid expressions into BuildExpr; " +
		"mutated / truncated / random XML, HTML and JSON into ReadXml / ReadHtml / ReadJson; every generated well-typed query from every node of generated documents (all axes from attribute and namespace nodes, positional arithmetic, string functions with extreme positions) into Exec, " +
		"with adversarial bindings (nil variables, functions that return errors, unbound names); every target shape (nil, non-pointers, nil pointers at every depth, maps, arrays, channels, [][]T) into Unmarshal; " +
		"violations: a panic escaping, a dead child, a nil result with a nil error, an 'xpath query panic' error for a well-typed query; non-trivial: the call returned an error; distinct by (entry point, input)"
	replayers["fuzz"] = func(rn *Runner, rp *Replay) (string, string, bool) {
		out := fuzzOne(rp.Family, rp.Input, rp.Text)
		return out, "value or non-nil error", !strings.HasPrefix(out, "VIOLATION")
	}
	if len(os.Args) >= 4 && os.Args[1] == "-fuzzchild" {
		fuzzChild(os.Args[2], os.Args[3])
		os.Exit(0)
	}
}

// fuzzOne runs one input through one entry point under recover.
func fuzzOne(entry, input, extra string) (out string) {
	defer func() {
		if r := recover(); r != nil {
			out = fmt.Sprintf("VIOLATION panic: %v", r)
		}
	}()
	switch entry {
	case "expr":
		g, err := xsel.BuildExpr(input)
		if err != nil {
			return "E"
		}
		if g.BSR == nil {
			return "VIOLATION BuildExpr returned an empty grammar and a nil error"
		}
		// executing whatever compiled must not panic either
		c, _ := xsel.ReadXml(strings.NewReader(`<r xmlns:p="urn:u1" a="1"><a>1</a><p:b>x</p:b><!-- c --><?p d?></r>`))
		res, xerr := xsel.Exec(c, &g, xsel.WithNS("p", "urn:u1"), xsel.WithVariable("v", xsel.Number(1)))
		if xerr == nil && res == nil {
			return "VIOLATION Exec returned a nil result and a nil error"
		}
		if xerr != nil {
			return "EX"
		}
		return "OK"
	case "xml", "html", "json":
		var c xsel.Cursor
		var err error
		switch entry {
		case "xml":
			c, err = xsel.ReadXml(bytes.NewReader([]byte(input)))
		case "html":
			c, err = xsel.ReadHtml(bytes.NewReader([]byte(input)))
		default:
			c, err = xsel.ReadJson(bytes.NewReader([]byte(input)))
		}
		if err != nil {
			return "E"
		}
		if c == nil || reflect.ValueOf(c).IsNil() {
			return "VIOLATION nil cursor and nil error"
		}
		// the tree must be usable
		g := xsel.MustBuildExpr("count(//node()) + count(//@*) + string-length(string(/))")
		if _, xerr := xsel.Exec(c, &g); xerr != nil {
			return "VIOLATION the returned tree cannot be queried: " + xerr.Error()
		}
		return "OK"
	case "exec":
		c, err := xsel.ReadXml(strings.NewReader(extra))
		if err != nil {
			return "E"
		}
		g, berr := xsel.BuildExpr(input)
		if berr != nil {
			return "E"
		}
		settings := []xsel.ContextApply{xsel.WithNS("p", "urn:u1"), xsel.WithVariable("nilvar", nil),
			xsel.WithFunction("fails", func(xsel.Context, ...xsel.Result) (xsel.Result, error) { return nil, fmt.Errorf("user error") }),
			xsel.WithVariable("n", xsel.Number(2)), xsel.WithVariable("s", xsel.String("héllo"))}
		// from every node of the document
		all := xsel.MustBuildExpr("//node() | //@* | //namespace::* | /")
		nodes, _ := xsel.Exec(c, &all)
		ns, _ := nodes.(xsel.NodeSet)
		for _, n := range ns {
			res, xerr := xsel.Exec(n, &g, settings...)
			if xerr == nil && res == nil {
				return "VIOLATION Exec returned a nil result and a nil error"
			}
			if xerr != nil && strings.Contains(xerr.Error(), "xpath query panic") {
				return "VIOLATION internal panic error for a well-typed query: " + xerr.Error()
			}
		}
		// the same query over a caller-implemented Cursor that is a struct VALUE with a slice inside (not comparable with ==)
		// and builds a fresh value on every navigation
		fuzzTick++
		if fuzzTick%4 == 0 {
			var walk func(c store.Cursor, at []int) string
			walk = func(c store.Cursor, at []int) string {
				res, xerr := xsel.Exec(c, &g, settings...)
				if xerr == nil && res == nil {
					return "VIOLATION Exec over a caller-implemented Cursor returned a nil result and a nil error"
				}
				if xerr != nil && strings.Contains(xerr.Error(), "xpath query panic") {
					return "VIOLATION internal panic error for a well-typed query over a caller-implemented Cursor (a struct value that == cannot compare): " + xerr.Error()
				}
				if len(at) < 3 {
					for i, k := range c.Children() {
						if m := walk(k, append(append([]int{}, at...), i)); m != "OK" {
							return m
						}
					}
					for _, k := range c.Attributes() {
						if m := walk(k, at); m != "OK" {
							return m
						}
					}
				}
				return "OK"
			}
			if m := walk(valueCursor{c, nil}, nil); m != "OK" {
				return m
			}
		}
		return "OK"
	case "unmarshal":
		c, _ := xsel.ReadXml(strings.NewReader(`<r><a>1</a><a>2</a></r>`))
		g := xsel.MustBuildExpr(input)
		res, _ := xsel.Exec(c, &g)
		for i, tgt := range unmarshalTargets() {
			func() {
				defer func() {
					if r := recover(); r != nil {
						out = fmt.Sprintf("VIOLATION Unmarshal panicked on target #%d (%T): %v", i, tgt, r)
					}
				}()
				xsel.Unmarshal(res, tgt)
			}()
			if strings.HasPrefix(out, "VIOLATION") {
				return out
			}
		}
		return "OK"
	}
	return "?"
}

type fzS struct {
	A string   `xsel:"a"`
	B []int    `xsel:"a"`
	C **string `xsel:"a[1]"`
	d int      `xsel:"a"`
}

func unmarshalTargets() []any {
	var np *fzS
	var npp **fzS = &np
	var nps *[]string
	var npps **[]string = &nps
	var nppps ***[]string = &npps
	var m map[string]int
	s := fzS{}
	sl := []string{}
	ps := &s
	var iface interface{} = &s
	return []any{nil, s, &s, &ps, np, npp, nps, npps, nppps, sl, &sl, m, &m, [2]int{}, &[2]int{}, make(chan int), 42, "x", &[][]int{}, &[]map[string]int{}, &[]*fzS{}, &[]**int{},
		&iface, func() {}, &struct {
			X chan int `xsel:"a"`
		}{}, &struct {
			X [1]int `xsel:"a"`
		}{}, &struct {
			X *[]**fzS `xsel:"a"`
		}{}, new(*int), new(int),
		// defined types with supported underlying kinds (convertible, not assignable), as targets, fields, elements
		new(definedStr), new(definedInt), &[]definedStr{}, &[]*definedF64{}, &struct {
			ID definedStr  `xsel:"a"`
			N  *definedInt `xsel:"count(*)"`
			B  definedBool `xsel:"true()"`
			L  []definedU8 `xsel:"*"`
		}{}}
}

// the child: reads cases "entry\x00input\x00extra\n" (hex-free: inputs are written length-prefixed) from a file
func fuzzChild(casefile, outfile string) {
	data, err := os.ReadFile(casefile)
	if err != nil {
		os.Exit(3)
	}
	f, _ := os.Create(outfile)
	defer f.Close()
	recs := bytes.Split(data, []byte{0xff, 0xfe, 0xfd, '\n'})
	for i, rec := range recs {
		parts := bytes.SplitN(rec, []byte{0xff, 0xfe, 0xfc}, 3)
		if len(parts) != 3 {
			continue
		}
		fmt.Fprintf(f, "%d START\n", i)
		f.Sync()
		out := fuzzOne(string(parts[0]), string(parts[1]), string(parts[2]))
		fmt.Fprintf(f, "%d %s\n", i, strings.ReplaceAll(out, "\n", " "))
	}
	fmt.Fprintln(f, "DONE")
}

type fuzzCase struct{ entry, input, extra string }

func mutate(r *Rng, s string) string {
	if len(s) == 0 {
		return pick(r, []string{"", "<", "[", "\x00"})
	}
	b := []byte(s)
	for n := 1 + r.Intn(3); n > 0; n-- {
		p := r.Intn(len(b))
		switch r.Intn(5) {
		case 0:
			b = append(b[:p], b[p+1:]...)
		case 1:
			b = append(b[:p], append([]byte(pick(r, []string{"(", ")", "[", "]", "/", "//", "'", "\"", "::", "@", "*", "|", "$", ":", " div ", "<", ">", "&", "{", "}", ",", "\x00", "\xff", "1e9", "--"})), b[p:]...)...)
		case 2:
			b = b[:p]
		case 3:
			q := r.Intn(len(b))
			b[p], b[q] = b[q], b[p]
		default:
			b[p] = byte(r.Intn(256))
		}
		if len(b) == 0 {
			break
		}
	}
	return string(b)
}

func famC15(rn *Runner) {
	r := rn.R.Fork()
	var cases []fuzzCase
	d := rn.genDoc(40)
	g := NewExprGen(r.Fork(), d, stdEnv())
	n := rn.Scale(12000, 200000)
	xmlDoc := `<r xmlns:p="urn:u1" xmlns="urn:d" a="1" xml:lang="en"><a id="x">1<b/>2</a><p:b>x</p:b><!-- c --><?p d?><c xmlns="">t</c></r>`
	// documents nested past any limit a reader might think generous, whole and cut short
	for _, depth := range []int{513, 600, 1025, 5000} {
		for _, c := range []fuzzCase{
			{"json", strings.Repeat("[", depth) + "1" + strings.Repeat("]", depth), ""},
			{"json", strings.Repeat(`{"a":`, depth) + "1" + strings.Repeat("}", depth), ""},
			{"json", strings.Repeat(`[{"a":`, depth/2) + "1" + strings.Repeat("}]", depth/2), ""},
			{"json", strings.Repeat("[", depth) + "1" + strings.Repeat("]", depth/2), ""},
			{"json", strings.Repeat("[", depth/2) + "1" + strings.Repeat("]", depth), ""},
			{"xml", strings.Repeat("<a>", depth) + "1" + strings.Repeat("</a>", depth), ""},
			{"xml", strings.Repeat("<a>", depth) + "1" + strings.Repeat("</a>", depth/2), ""},
			{"html", strings.Repeat("<div>", depth) + "1" + strings.Repeat("</div>", depth), ""},
			{"html", strings.Repeat("<b><i>", depth/2) + "1", ""},
			{"exec", "string(/)", strings.Repeat("<a>", depth) + "1" + strings.Repeat("</a>", depth)},
			{"exec", "count(//*[parent::*]) + count(//text()/ancestor-or-self::node()[1])", strings.Repeat("<a>", depth) + "1" + strings.Repeat("</a>", depth)},
		} {
			if c.entry == "exec" && depth > 700 {
				continue
			}
			cases = append(cases, c)
		}
	}
	for i := 0; i < n; i++ {
		switch k := r.Intn(20); {
		case k < 5:
			e := g.NodeSet(2, 4)
			cases = append(cases, fuzzCase{"expr", mutate(r, Render(e, RenderOpts{R: r})), ""})
		case k == 5:
			b := make([]byte, r.Intn(24))
			for j := range b {
				b[j] = byte(r.Intn(256))
			}
			cases = append(cases, fuzzCase{pick(r, []string{"expr", "xml", "html", "json"}), string(b), ""})
		case k < 9:
			cases = append(cases, fuzzCase{"xml", mutate(r, pick(r, append(cliXmlDocs, xmlDoc))), ""})
		case k < 11:
			cases = append(cases, fuzzCase{"html", mutate(r, genHtml(r, 3+r.Intn(15))), ""})
		case k < 13:
			var b strings.Builder
			bud := 20
			genJVal(r, 3, &bud).Render(r, &b)
			cases = append(cases, fuzzCase{"json", mutate(r, b.String()), ""})
		case k < 19:
			// well-typed queries from every node (incl. attribute and namespace nodes)
			var e Expr
			switch r.Intn(7) {
			case 6:
				// sizes past any fixed buffer: many arguments, many predicates, many steps, long names and literals
				switch r.Intn(4) {
				case 0:
					var args []Expr
					for k, n := 0, 9+r.Intn(40); k < n; k++ {
						args = append(args, pick(r, []Expr{lit("x"), num("1"), &EVar{RawQ{Local: "s"}}, call("name")}))
					}
					e = call(pick(r, []string{"concat", "concat", "f", "count", "string"}), args...)
				case 1:
					st := &Stp{Axis: "descendant-or-self", Test: NodeTest{Kind: "node"}}
					for k, n := 0, 9+r.Intn(20); k < n; k++ {
						st.Preds = append(st.Preds, pick(r, []Expr{call("true"), num("1"), bin("=", call("position"), call("position"))}))
					}
					e = &EPath{Abs: true, Steps: []*Stp{st}}
				case 2:
					var ss []*Stp
					for k, n := 0, 17+r.Intn(60); k < n; k++ {
						ss = append(ss, &Stp{Axis: pick(r, []string{"descendant-or-self", "ancestor-or-self", "self"}), Test: NodeTest{Kind: "node"}})
					}
					e = &EPath{Abs: r.Bool(), Steps: ss}
				default:
					e = call("string-length", lit(strings.Repeat(pick(r, []string{"a", "\u00e9", "ab "}), 70+r.Intn(4000))))
				}
			case 0:
				if r.Chance(1, 4) {
					// comparisons in which one node-set is EMPTY (there is no first node to take)
					none := &EPath{Abs: true, Steps: []*Stp{{Axis: "descendant", Test: NodeTest{Kind: "name", Local: "nosuchelement"}}}}
					some := &EPath{Abs: true, Steps: []*Stp{{Axis: "descendant-or-self", Test: NodeTest{Kind: "node"}, Abbrev: true}, {Axis: pick(r, []string{"child", "attribute"}), Test: NodeTest{Kind: "any"}, Abbrev: true}}}
					op := pick(r, []string{"!=", "=", "<", "<=", ">", ">="})
					e = pick(r, []Expr{bin(op, some, none), bin(op, none, some), bin(op, none, none),
						&EPath{Abs: true, Steps: []*Stp{{Axis: "descendant", Test: NodeTest{Kind: "any"}, Preds: []Expr{bin(op, &EPath{Steps: []*Stp{{Axis: "self", Test: NodeTest{Kind: "node"}, Abbrev: true}}}, none)}}}}})
					break
				}
				ax := pick(r, allAxes)
				e = &EPath{Steps: []*Stp{{Axis: ax, Test: g.NodeTest(ax)}, g.Step(1, 3)}}
			case 1:
				if r.Chance(1, 3) {
					// characters to REMOVE whose index lies between the character count and the byte count of the third argument
					e = call("translate", lit(pick(r, []string{"a-b-c", "abcdef", "x\u00e9y-z", "\U0001F600abc"})), lit(pick(r, []string{"abc-", "abcdef", "-xyz\u00e9", "c\U0001F600ba"})),
						lit(pick(r, []string{"\u00e9", "\u65e5\u672c", "\U0001F600", "\u00e9\u00e8", "x\u00e9"})))
					break
				}
				e = call("substring", lit(pick(r, unicodePool)), bin("div", num(pick(r, []string{"1", "0", "-1"})), num("0")), num(pick(r, []string{"5", "0.5", "1e300"})))
			case 2:
				e = bin(pick(r, []string{"mod", "div", "+", "*"}), num(g.NumLiteralText()), pick(r, []Expr{num("0"), num("0.5"), bin("div", num("1"), num("0")), &EVar{RawQ{Local: "n"}}}))
			case 3:
				e = call(pick(r, []string{"round", "floor", "ceiling", "string", "number"}), bin("*", num("1"+strings.Repeat("0", r.Intn(330))), num(g.NumLiteralText())))
			case 4:
				e = pick(r, []Expr{&EVar{RawQ{Local: "nilvar"}}, call("fails"), &EVar{RawQ{Local: "unbound"}}, call("nofn"), &EVar{RawQ{HasPrefix: true, Prefix: "zz", Local: "x"}},
					call("translate", &EVar{RawQ{Local: "s"}}, lit("é"), lit("")), call("lang", lit(""))})
			default:
				e = g.NodeSet(2, 4)
			}
			cases = append(cases, fuzzCase{"exec", Render(e, RenderOpts{}), xmlDoc})
		default:
			cases = append(cases, fuzzCase{"unmarshal", pick(r, []string{"//a", "/r", "1", "'s'", "//nope", "/", "//a | /r", "true()"}), ""})
		}
	}
	// hand the cases to a child process in chunks; a dead child is a violation
	chunk := 500
	for lo := 0; lo < len(cases) && !rn.TooMany(); lo += chunk {
		hi := lo + chunk
		if hi > len(cases) {
			hi = len(cases)
		}
		var buf bytes.Buffer
		for _, c := range cases[lo:hi] {
			buf.WriteString(c.entry)
			buf.Write([]byte{0xff, 0xfe, 0xfc})
			buf.WriteString(c.input)
			buf.Write([]byte{0xff, 0xfe, 0xfc})
			buf.WriteString(c.extra)
			buf.Write([]byte{0xff, 0xfe, 0xfd, '\n'})
		}
		cf := fmt.Sprintf("fuzz-cases-%d.bin", lo)
		of := fmt.Sprintf("fuzz-out-%d.txt", lo)
		os.WriteFile(cf, buf.Bytes(), 0o644)
		cmd := exec.Command(os.Args[0], "-fuzzchild", cf, of)
		outp, err := cmd.CombinedOutput()
		res, _ := os.ReadFile(of)
		lines := strings.Split(string(res), "\n")
		done := false
		lastStart := -1
		for _, l := range lines {
			if l == "DONE" {
				done = true
				continue
			}
			var idx int
			var rest string
			if n, _ := fmt.Sscanf(l, "%d", &idx); n != 1 {
				continue
			}
			if k := strings.IndexByte(l, ' '); k >= 0 {
				rest = l[k+1:]
			}
			if rest == "START" {
				lastStart = idx
				continue
			}
			c := cases[lo+idx]
			rn.Eval(c.entry+"|"+c.input, rest == "E" || rest == "EX")
			rn.Count("entry:" + c.entry + ":" + strings.Fields(rest + " ?")[0])
			if strings.HasPrefix(rest, "VIOLATION") {
				rn.Report(&Replay{Family: c.entry, Clause: "no panic, no nil/nil, no internal panic error", Kind: "fuzz", Input: c.input, Text: c.extra, Impl: rest, Model: "value or non-nil error"},
					fmt.Sprintf("%s(%q): %s", c.entry, c.input, rest))
			}
		}
		if !done || err != nil {
			c := fuzzCase{"?", "", ""}
			if lastStart >= 0 {
				c = cases[lo+lastStart]
			}
			tail := string(outp)
			if len(tail) > 600 {
				tail = tail[len(tail)-600:]
			}
			rn.Report(&Replay{Family: c.entry, Clause: "the process survives", Kind: "fuzz", Input: c.input, Text: c.extra, Impl: "child process died: " + tail, Model: "survives"},
				fmt.Sprintf("the process died while running %s(%q): %s", c.entry, c.input, tail))
		}
		os.Remove(cf)
		os.Remove(of)
	}
	if len(cases) > 3 {
		for _, c := range cases[:3] {
			rn.Sample(fmt.Sprintf("%s(%q)", c.entry, c.input))
		}
	}
	rn.DropDoc(d)
}

var fuzzTick int

// valueCursor: a caller's Cursor implemented as a struct value holding a slice (values of this type cannot be
// compared with ==; doing so panics at run time)
type valueCursor struct {
	in   store.Cursor
	path []int
}

func (v valueCursor) wrap(l []store.Cursor) []store.Cursor {
	if len(l) == 0 {
		return nil
	}
	out := make([]store.Cursor, len(l))
	for i, c := range l {
		out[i] = valueCursor{c, append(append([]int{}, v.path...), i)}
	}
	return out
}
func (v valueCursor) Pos() int                   { return v.in.Pos() * 10 }
func (v valueCursor) Node() node.Node            { return v.in.Node() }
func (v valueCursor) Namespaces() []store.Cursor { return v.wrap(v.in.Namespaces()) }
func (v valueCursor) Attributes() []store.Cursor { return v.wrap(v.in.Attributes()) }
func (v valueCursor) Children() []store.Cursor   { return v.wrap(v.in.Children()) }
func (v valueCursor) Parent() store.Cursor {
	p := v.in.Parent()
	if len(v.path) == 0 {
		return valueCursor{p, nil}
	}
	return valueCursor{p, v.path[:len(v.path)-1]}
}
