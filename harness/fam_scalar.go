package main

import (
	"fmt"
	"math"
	"strings"

	"github.com/ChrisTrenkamp/xsel"
)

func init() {
	families["C04"] = famC04
	families["C05"] = famC05
	families["C06"] = famC06
	families["C07"] = famC07
	rules["C04"] = "doubles by class (zeros, subnormals, powers of two and neighbours, 2^53+-1, >2^63, <1e-7, 17-digit cases, random bit patterns) bound as variables; strings from the XPath Number grammar with legal whitespace plus near-misses " +
		"(1e3 +1 0x10 1_0 Infinity inf nan '- 5' full-width digits, 310-digit numerals); string-value of EVERY node of generated documents (also through GetCursorString); node-set conversions incl. reverse-axis node-sets; " +
		"conversions reached through operators and builtin arguments; observable: result bits (one NaN), strings, booleans; non-trivial: input outside {0,1,'','0','1'}"
	rules["C05"] = "operand pairs over the four types: node-sets of 0-4 nodes (numeric, non-numeric, whitespace-padded, '10' vs '9' texts and attributes), numbers incl. NaN/inf/-0, strings, booleans; both orders x six operators; " +
		"derived identities on the implementation (L<R == R>L, L<=R == R>=L, symmetry of = and !=); non-trivial: operand types differ or a node-set has >= 2 nodes"
	rules["C06"] = "pairs/tuples of doubles by class through variables and numeric literals x (+ - * div mod, unary -), floor/ceiling/round, the same operators and functions over STRING operands from the Number-grammar pool (incl. numerals padded with non-XML white space such as U+00A0), sum/count over node-sets of numeric and non-numeric text; observable: result bit pattern (one NaN); " +
		"round() of a negative tie is compared with the library's documented-by-test behaviour and reported as the known finding; non-trivial: an operand is not a small non-negative integer"
	rules["C07"] = "strings from a Unicode pool (ASCII, 2/3/4-byte, combining marks, NBSP and other non-XML whitespace, empty) as variables and literals x positions/lengths by double class x the nine string functions incl. zero-argument forms; " +
		"observable: result string/number/boolean and utf8.ValidString; non-trivial: an argument is non-ASCII or a numeric argument is not a small integer"
}

func numVar(name string, f float64) VarBind { return VarBind{"", name, VarVal{Kind: "num", Num: f}} }
func strVar(name, s string) VarBind         { return VarBind{"", name, VarVal{Kind: "str", Str: s}} }
func boolVar(name string, b bool) VarBind   { return VarBind{"", name, VarVal{Kind: "bool", B: b}} }
func v(name string) *EVar                   { return &EVar{RawQ{Local: name}} }

func notTrivialStr(s string) bool {
	return !(s == "S _" || s == "S 48" || s == "S 49" || s == "B 0" || s == "B 1" && false)
}

func (rn *Runner) scalar(d *Doc, env *Env, start Path, e Expr, fam, clause string, nontrivial bool) string {
	q := &QCase{Doc: d, Start: start, Env: env, E: e, Text: Render(e, RenderOpts{R: rn.R}), Family: fam}
	r, _ := rn.CheckQuery(q, clause, func(string) bool { return nontrivial })
	return r
}

func trivialDouble(f float64) bool { return f == 0 || f == 1 }

func famC04(rn *Runner) {
	d := rn.genDoc(60)
	rn.checkCallerResults(d, "all") // a caller-implemented Result as variable and function result

	g := NewExprGen(rn.R.Fork(), d, stdEnv())
	// (a) doubles
	n := rn.Scale(3000, 60000)
	for i := 0; i < n && !rn.TooMany(); i++ {
		var f float64
		if i < len(doubleClasses) {
			f = doubleClasses[i]
		} else {
			f = g.Double()
		}
		env := &Env{Vars: []VarBind{numVar("n", f)}}
		nt := !trivialDouble(f)
		rn.Count("double:" + classOf(f))
		r := rn.scalar(d, env, Path{}, call("string", v("n")), "number-to-string", "number -> string", nt)
		if i < 3 {
			rn.Sample(fmt.Sprintf("string($n) with $n=%v -> %s", f, r))
		}
		// the relational clause of the property, checked on the implementation's own output
		if strings.HasPrefix(r, "S ") && (i < len(doubleClasses) || i%4 == 0 && math.Abs(f) < 1e60 && math.Abs(f) > 1e-60) {
			ok := rn.M.Ask(fmt.Sprintf("(numstrok %s %s)", showNum(f), sxStr(unshowStr(r[2:]))))
			if ok != "B 1" && !rn.TooMany() {
				rn.Report(&Replay{Family: "number-to-string", Clause: "rendering is NaN/Infinity/-Infinity/0 or a plain decimal that reads back to the same double", Kind: "query",
					Events: d.Events, Start: ".", Env: env, Text: "string($n)", ExprSx: SxExpr(call("string", v("n"))), Impl: r, Model: "num_string_ok = false"},
					fmt.Sprintf("string(%v) = %q is not an acceptable rendering", f, unshowStr(r[2:])))
			}
		}
		rn.scalar(d, env, Path{}, call("boolean", v("n")), "number-to-boolean", "number -> boolean", nt)
		if i%3 == 0 {
			rn.scalar(d, env, Path{}, call("not", v("n")), "number-to-boolean", "not()", nt)
			if moderate := math.Abs(f) < 1e60 && math.Abs(f) > 1e-60; moderate || f == 0 || i < len(doubleClasses) || i%12 == 0 {
				rn.scalar(d, env, Path{}, call("number", call("string", v("n"))), "number-string-number", "string(number) reads back", nt)
			}
			rn.scalar(d, env, Path{}, call("concat", v("n"), lit("|")), "implicit-conversion", "argument conversion", nt)
			rn.scalar(d, env, Path{}, call("string-length", v("n")), "implicit-conversion", "argument conversion", nt)
			rn.scalar(d, env, Path{}, &EFilter{E: &EPath{Abs: true, Steps: []*Stp{{Axis: "descendant", Test: NodeTest{Kind: "any"}}}}, Preds: []Expr{v("n")}}, "predicate-truth", "numeric predicate", nt)
		}
	}
	// (b) strings -> numbers
	strs := append([]string{}, numberStrings...)
	for i := 0; i < rn.Scale(300, 5000); i++ {
		// grammar-derived numerals with optional whitespace, and single-character mutations of them
		s := g.NumLiteralText()
		if rn.R.Chance(1, 2) {
			s = "-" + s
		}
		if rn.R.Chance(1, 2) {
			s = pick(rn.R, []string{" ", "\t", "\n", "\r\n", "  "}) + s
		}
		if rn.R.Chance(1, 2) {
			s += pick(rn.R, []string{" ", "\t", "\n", "\r", "  "})
		}
		if rn.R.Chance(1, 3) && len(s) > 0 {
			k := rn.R.Intn(len(s) + 1)
			s = s[:k] + pick(rn.R, []string{"e", "E", "+", "-", ".", " ", "x", "_", " ", "١", "0", "9"}) + s[k:]
		}
		strs = append(strs, s)
	}
	for i, s := range strs {
		if rn.TooMany() {
			break
		}
		env := &Env{Vars: []VarBind{strVar("s", s)}}
		nt := !(s == "" || s == "0" || s == "1")
		r := rn.scalar(d, env, Path{}, call("number", v("s")), "string-to-number", "string -> number", nt)
		if i < 3 {
			rn.Sample(fmt.Sprintf("number($s) with $s=%q -> %s", s, r))
		}
		rn.scalar(d, env, Path{}, bin("+", v("s"), num("0")), "implicit-conversion", "operand conversion", nt)
		rn.scalar(d, env, Path{}, call("boolean", v("s")), "string-to-boolean", "string -> boolean", nt)
		rn.scalar(d, env, Path{}, bin("<", v("s"), num("5")), "implicit-conversion", "operand conversion", nt)
		// a number compared with a string by = / != : the string is converted with number()
		rn.scalar(d, env, Path{}, bin("=", call("number", v("s")), v("s")), "implicit-conversion", "number = string compares numbers", nt)
		rn.scalar(d, env, Path{}, bin("!=", v("s"), call("number", v("s"))), "implicit-conversion", "string != number compares numbers", nt)
		rn.scalar(d, env, Path{}, bin("=", v("s"), num(pick(rn.R, []string{"12", "1", "0", "0.5", "1000", "1.5"}))), "implicit-conversion", "string = number compares numbers", nt)
		rn.scalar(d, env, Path{}, call("floor", v("s")), "implicit-conversion", "argument conversion", nt)
		if !strings.ContainsAny(s, "'\"\\") {
			rn.scalar(d, env, Path{}, call("number", lit(s)), "string-to-number", "string literal -> number", nt)
		}
	}
	// booleans
	for _, b := range []bool{true, false} {
		env := &Env{Vars: []VarBind{boolVar("b", b)}}
		for _, e := range []Expr{call("string", v("b")), call("number", v("b")), bin("+", v("b"), num("1")), call("concat", v("b"), lit("")), call("boolean", v("b")), bin("=", v("b"), lit("x")), call("string", call("true")), call("number", call("false"))} {
			rn.scalar(d, env, Path{}, e, "boolean-conversions", "boolean -> string/number", true)
		}
	}
	rn.DropDoc(d)
	// (c) string-values of every node; node-set conversions
	for di := 0; di < rn.Scale(8, 120) && !rn.TooMany(); di++ {
		d := rn.genDoc(rn.Scale(50, 140))
		env := envShuffled(rn, d)
		g := NewExprGen(rn.R.Fork(), d, env)
		uo := unorderedOperands(rn)
		for pi, p := range d.Paths {
			// node-sets whose stored order is not document order; attributes and namespace nodes of one element together
			// sum() converts the string-value of EACH node with number(): exponents, a leading +, Infinity, hex are NaN there too
			if pi%4 == 0 {
				rn.scalar(d, env, p, call("sum", &EPath{Steps: []*Stp{{Axis: "descendant-or-self", Test: NodeTest{Kind: "node"}, Abbrev: true}, {Axis: "child", Test: NodeTest{Kind: "text"}, Abbrev: true}}}), "sum-converts-with-number", "sum() applies number() to the string-value of each node", true)
				rn.scalar(d, env, p, call("sum", &EPath{Steps: []*Stp{{Axis: "attribute", Test: NodeTest{Kind: "any"}, Abbrev: true}}}), "sum-converts-with-number", "sum() applies number() to the string-value of each node", true)
			}
			// the node-set itself as the answer: ExecAsString / ExecAsNumber convert it as string() / number() would
			allRoutes = pi%2 == 0 // every route for this answer (the typed entry points above all), on every other node
			rn.scalar(d, env, p, uo[pi%len(uo)], "nodeset-answer-unordered", "a node-set answer converts through its first node in document order (ExecAsString, ExecAsNumber)", true)
			allRoutes = false
			for k := 0; k < 3; k++ {
				a := uo[(pi*3+k)%len(uo)]
				f := pick(rn.R, []string{"string", "number", "string", "normalize-space", "string-length"})
				rn.scalar(d, env, p, call(f, a), "nodeset-conversion-unordered", "node-set -> string/number uses the first node in document order, whatever the stored order", true)
			}
			rn.scalar(d, env, p, call("string", &EPath{Steps: []*Stp{{Axis: "self", Test: NodeTest{Kind: "node"}, Abbrev: true}}}), "string-value", "string-value of a node", true)
			// GetCursorString directly
			got := "S " + showStr(xsel.GetCursorString(cursorAt(d.Root, p)))
			want := rn.M.Ask(fmt.Sprintf("(sv %d %s)", d.ID, p.Sx()))
			rn.Eval("sv|"+fmt.Sprint(d.ID)+p.String(), got != "S _")
			if got != want && !rn.TooMany() {
				rn.Report(&Replay{Family: "string-value", Clause: "GetCursorString", Kind: "query", Events: d.Events, Start: p.String(), Env: env, Text: "string(.)",
					ExprSx: "(call (q (s 115 116 114 105 110 103)) (path 0 (ax self node)))", Doc: showEvents(d.Events), Impl: got, Model: want},
					fmt.Sprintf("GetCursorString of %s: implementation %s, model %s", p, got, want))
			}
			// both operands node-sets: every pair is compared as numbers by the relational operators - also a node with itself,
			// also two nodes with the same non-numeric string-value
			for _, op := range []string{"<=", ">=", "<", "="} {
				self := &EPath{Steps: []*Stp{{Axis: "self", Test: NodeTest{Kind: "node"}, Abbrev: true}}}
				sibs := &EPath{Steps: []*Stp{{Axis: "parent", Test: NodeTest{Kind: "node"}, Abbrev: true}, {Axis: "child", Test: NodeTest{Kind: "node"}}}}
				rn.scalar(d, env, p, bin(op, self, self), "nodeset-vs-nodeset", "node-set op node-set converts both string-values with number() for the relational operators", true)
				if pi%3 == 0 {
					rn.scalar(d, env, p, bin(op, self, sibs), "nodeset-vs-nodeset", "node-set op node-set converts both string-values with number() for the relational operators", true)
				}
			}
			rn.scalar(d, env, p, call("number"), "zero-argument-forms", "number() of the context node", true)
			rn.scalar(d, env, p, call("string-length"), "zero-argument-forms", "string-length() of the context node", true)
		}
		// a node-set compared with a boolean is converted with boolean() - also by the relational operators, also when empty
		emptyNS := &EPath{Abs: true, Steps: []*Stp{{Axis: "child", Test: NodeTest{Kind: "name", Local: "nope"}}}}
		someNS := &EPath{Abs: true, Steps: []*Stp{{Axis: "descendant-or-self", Test: NodeTest{Kind: "node"}}}}
		for _, op := range []string{"<", "<=", ">", ">=", "=", "!="} {
			for _, ns := range []Expr{emptyNS, someNS} {
				for _, b := range []Expr{call("true"), call("false")} {
					rn.scalar(d, env, Path{}, bin(op, ns, b), "nodeset-vs-boolean", "node-set op boolean converts the node-set with boolean()", true)
					rn.scalar(d, env, Path{}, bin(op, b, ns), "nodeset-vs-boolean", "boolean op node-set converts the node-set with boolean()", true)
				}
			}
		}
		for i := 0; i < rn.Scale(250, 800) && !rn.TooMany(); i++ {
			ns := g.NodeSet(1, 2)
			start := Path{}
			if !containsAbs(ns) {
				start = pick(rn.R, d.Paths)
			}
			f := pick(rn.R, []string{"string", "number", "boolean", "not", "string-length", "normalize-space"})
			rn.scalar(d, env, start, call(f, ns), "nodeset-conversion", "node-set -> string/number/boolean (first node in document order)", true)
			if rn.R.Chance(1, 3) {
				rn.scalar(d, env, start, bin(pick(rn.R, []string{"+", "*", "-"}), ns, num("1")), "nodeset-conversion", "node-set operand", true)
			}
		}
		rn.DropDoc(d)
	}
}

func classOf(f float64) string {
	switch {
	case math.IsNaN(f):
		return "nan"
	case math.IsInf(f, 0):
		return "inf"
	case f == 0:
		return "zero"
	case math.Abs(f) < 2.2250738585072014e-308:
		return "subnormal"
	case math.Abs(f) < 1e-7:
		return "tiny"
	case math.Abs(f) >= 9.223372036854775807e18:
		return "huge"
	case math.Abs(f) >= 9007199254740992:
		return "above-2^53"
	case f == math.Trunc(f):
		return "integer"
	}
	return "fraction"
}

// operandPool builds comparison/arithmetics operands over a document.
func operandPool(rn *Runner, d *Doc, g *ExprGen) []Expr {
	ops := []Expr{
		num("1"), num("2"), num("10"), num("9"), num("0"), num("3.5"), &ENeg{num("4")}, bin("div", num("0"), num("0")), bin("div", num("1"), num("0")), bin("div", &ENeg{num("1")}, num("0")), &ENeg{num("0")},
		lit("1"), lit("10"), lit("9"), lit(" 12 "), lit("abc"), lit(""), lit("NaN"), lit("1e3"), lit("b"), lit("-4"), lit("x y"), lit("true"), lit("\u00a09"), lit("10\u2003"), lit(" -4"), lit("\n-9\t"),
		call("true"), call("false"),
		&EPath{Abs: true, Steps: []*Stp{{Axis: "child", Test: NodeTest{Kind: "name", Local: "nope"}}}}, // empty
		&EPath{Abs: true, Steps: []*Stp{{Axis: "descendant", Test: NodeTest{Kind: "text"}}}},
		&EPath{Abs: true, Steps: []*Stp{{Axis: "descendant", Test: NodeTest{Kind: "any"}}, {Axis: "attribute", Test: NodeTest{Kind: "any"}, Abbrev: true}}},
		&EPath{Abs: true, Steps: []*Stp{{Axis: "descendant", Test: NodeTest{Kind: "any"}}}},
		&EPath{Abs: true},
		v("n"), v("s"),
		v("u"), v("w"), // caller-supplied node-sets: arbitrary order, reverse document order
		v("e"), // a caller-supplied EMPTY node-set (nil or empty slice)
	}
	for i := 0; i < 6; i++ {
		ops = append(ops, g.NodeSet(1, 3))
	}
	return ops
}

func isNodeSetExpr(e Expr) bool {
	switch e.(type) {
	case *EPath, *EFilter:
		return true
	case *EBin:
		return e.(*EBin).Op == "|"
	}
	return false
}

// bigNodeSetComparisons: the one node that decides an existential comparison is the LAST of 1100 (past 1024), the first,
// or one in the middle; on either side; against a number, a string and other node-sets
func bigNodeSetComparisons(rn *Runner) {
	const n = 1100
	st := func(nm string) Event { return Event{Kind: EvStart, B: nm} }
	tx := func(v string) Event { return Event{Kind: EvText, A: v} }
	end := Event{Kind: EvEnd}
	evs := []Event{st("r")}
	for k := 1; k <= n; k++ {
		evs = append(evs, st("i"), tx(fmt.Sprint(k)), end)
	}
	evs = append(evs, st("k"), tx(fmt.Sprint(n)), end, st("m"), tx("1050"), end, st("z"), tx("0"), end, st("big"), tx(fmt.Sprint(n+1)), end, end)
	d := rn.NewDoc(evs)
	env := stdEnv()
	path := func(names ...string) Expr {
		ss := []*Stp{}
		for _, nm := range names {
			ss = append(ss, &Stp{Axis: "child", Test: NodeTest{Kind: "name", Local: nm}, Abbrev: true})
		}
		return &EPath{Abs: true, Steps: ss}
	}
	is := path("r", "i")
	others := []Expr{num(fmt.Sprint(n)), num("1099.5"), lit(fmt.Sprint(n)), path("r", "k"), path("r", "big"),
		&EPath{Abs: true, Steps: []*Stp{{Axis: "child", Test: NodeTest{Kind: "name", Local: "r"}, Abbrev: true}, {Axis: "child", Test: NodeTest{Kind: "name", Local: "i"}, Abbrev: true, Preds: []Expr{bin(">", call("position"), num("1098"))}}}}}
	for _, o := range others {
		for _, op := range []string{"=", "!=", "<", "<=", ">", ">="} {
			rn.scalar(d, env, Path{}, bin(op, is, o), "comparison-large-node-set", "existential over ALL the nodes of the operand", true)
			rn.scalar(d, env, Path{}, bin(op, o, is), "comparison-large-node-set", "existential over ALL the nodes of the operand", true)
		}
	}
	rn.DropDoc(d)
}

func famC05(rn *Runner) {
	rn.stressEvery = 4 // node-sets of more than 64 nodes on both sides
	cmpOps := []string{"=", "!=", "<", "<=", ">", ">="}
	mirror := map[string]string{"<": ">", "<=": ">=", ">": "<", ">=": "<=", "=": "=", "!=": "!="}
	bigNodeSetComparisons(rn)
	for di := 0; di < rn.Scale(8, 100) && !rn.TooMany(); di++ {
		d := rn.genDoc(rn.Scale(40, 100))
		rn.checkCallerResults(d, "all") // a caller-implemented Result as variable and function result

		// $u: 3-6 nodes in an arbitrary order, $w: 3-6 nodes in reverse document order (small: the bindings travel with every query)
		env := stdEnv()
		var us, ws []Path
		// (nodes deep in the tree: the string-value of a large subtree is a numeral of hundreds of digits, and the model
		// converts it exactly for every pair)
		for k, n := 0, 3+rn.R.Intn(4); k < 40 && len(us) < n; k++ {
			if p := pick(rn.R, d.Paths); len(p) >= 3 {
				us = append(us, p)
			}
		}
		for i := len(d.Paths) - 1; i >= 0 && len(ws) < 6; i-- {
			if rn.R.Chance(1, 4) && len(d.Paths[i]) >= 3 {
				ws = append(ws, d.Paths[i])
			}
		}
		g := NewExprGen(rn.R.Fork(), d, env) // before $u and $w are bound: the random operands do not filter them in predicates
		env.Vars = append(env.Vars, VarBind{"", "u", VarVal{Kind: "nodes", Nodes: us}}, VarBind{"", "w", VarVal{Kind: "nodes", Nodes: ws}}, VarBind{"", "e", VarVal{Kind: "nodes"}})
		env.Vars = append(env.Vars, numVar("n", g.Double()), strVar("s", pick(rn.R, numberStrings)))
		pool := operandPool(rn, d, g)
		if di == 0 {
			rn.Sample(fmt.Sprintf("%d operands x %d operands x 6 operators, e.g. %s", len(pool), len(pool), Render(bin("<", pool[25], pool[2]), RenderOpts{})))
		}
		for _, a := range pool {
			for _, b := range pool {
				nt := isNodeSetExpr(a) || isNodeSetExpr(b) || fmt.Sprintf("%T", a) != fmt.Sprintf("%T", b)
				for _, op := range cmpOps {
					e := bin(op, a, b)
					r1 := rn.scalar(d, env, Path{}, e, "comparison", "L op R", nt)
					// derived identity on the implementation alone
					r2 := rn.scalar(d, env, Path{}, bin(mirror[op], b, a), "comparison-mirror", "R op' L", nt)
					if r1 != r2 && !rn.TooMany() {
						rn.Report(&Replay{Family: "comparison-mirror", Clause: "L<R == R>L, L<=R == R>=L, = and != symmetric", Kind: "query", Events: d.Events, Start: ".", Env: env,
							Text: Render(e, RenderOpts{}), ExprSx: SxExpr(e), Doc: showEvents(d.Events), Impl: r1, Model: r2, Note: "mirrored: " + Render(bin(mirror[op], b, a), RenderOpts{})},
							fmt.Sprintf("%s = %s but %s = %s", Render(e, RenderOpts{}), r1, Render(bin(mirror[op], b, a), RenderOpts{}), r2))
					}
					if rn.TooMany() {
						return
					}
				}
			}
		}
		rn.DropDoc(d)
	}
}

func famC06(rn *Runner) {
	d := rn.genDoc(60)
	rn.checkCallerResults(d, "num") // a caller-implemented Result as variable and function result

	g := NewExprGen(rn.R.Fork(), d, stdEnv())
	arOps := []string{"+", "-", "*", "div", "mod"}
	n := rn.Scale(2500, 50000)
	for i := 0; i < n && !rn.TooMany(); i++ {
		var a, b float64
		if i < len(doubleClasses)*8 {
			a, b = doubleClasses[i%len(doubleClasses)], doubleClasses[(i*7+i/len(doubleClasses))%len(doubleClasses)]
		} else {
			a, b = g.Double(), g.Double()
		}
		env := &Env{Vars: []VarBind{numVar("a", a), numVar("b", b)}}
		nt := !(a == math.Trunc(a) && a >= 0 && a < 100 && b == math.Trunc(b) && b >= 0 && b < 100)
		rn.Count("a:" + classOf(a))
		for _, op := range arOps {
			r := rn.scalar(d, env, Path{}, bin(op, v("a"), v("b")), "arithmetic", "binary operator on doubles", nt)
			if i < 2 && op == "mod" {
				rn.Sample(fmt.Sprintf("$a mod $b with a=%v b=%v -> %s", a, b, r))
			}
		}
		rn.scalar(d, env, Path{}, &ENeg{v("a")}, "arithmetic", "unary minus", nt)
		rn.scalar(d, env, Path{}, call("floor", v("a")), "floor-ceiling-round", "floor", nt)
		rn.scalar(d, env, Path{}, call("ceiling", v("a")), "floor-ceiling-round", "ceiling", nt)
		rn.roundCase(d, env, a, nt)
	}
	// numeric literals and literal arithmetic
	for i := 0; i < rn.Scale(600, 6000) && !rn.TooMany(); i++ {
		t1, t2 := g.NumLiteralText(), g.NumLiteralText()
		e := bin(pick(rn.R, arOps), num(t1), num(t2))
		rn.scalar(d, &Env{}, Path{}, e, "numeric-literals", "literal parsing and arithmetic", true)
		rn.scalar(d, &Env{}, Path{}, num(t1), "numeric-literals", "literal parsing", true)
	}
	// operands that are strings: converted as by number() (the Number grammar with XML white space only)
	for i, sv := range numberStrings {
		env := &Env{Vars: []VarBind{strVar("s", sv), numVar("b", g.Double())}}
		nt := !isASCII(sv) || i%2 == 0
		for _, op := range arOps {
			rn.scalar(d, env, Path{}, bin(op, v("s"), v("b")), "string-operands", "operands are converted with number()", nt)
			rn.scalar(d, env, Path{}, bin(op, num("7"), v("s")), "string-operands", "operands are converted with number()", nt)
		}
		rn.scalar(d, env, Path{}, &ENeg{v("s")}, "string-operands", "unary minus converts with number()", nt)
		for _, f := range []string{"floor", "ceiling", "round"} {
			rn.scalar(d, env, Path{}, call(f, v("s")), "string-operands", f+" converts with number()", nt)
		}
	}
	rn.DropDoc(d)
	// sum and count over node-sets (some documents have more than 64 like-named elements with non-integer values)
	rn.stressEvery = 3
	for di := 0; di < rn.Scale(8, 100) && !rn.TooMany(); di++ {
		d := rn.genDoc(rn.Scale(50, 140))
		env := stdEnv()
		g := NewExprGen(rn.R.Fork(), d, env)
		for _, t := range []string{"item", "a", "b"} {
			all := &EPath{Abs: true, Steps: []*Stp{{Axis: "descendant", Test: NodeTest{Kind: "name", Local: t}}}}
			rn.scalar(d, env, Path{}, call("sum", all), "sum", "sum over every element of one name (left to right, no compensation)", true)
			rn.scalar(d, env, Path{}, call("sum", &EPath{Abs: true, Steps: []*Stp{{Axis: "descendant", Test: NodeTest{Kind: "name", Local: t}}, {Axis: "child", Test: NodeTest{Kind: "text"}}}}), "sum", "sum over text nodes", true)
		}
		for i := 0; i < rn.Scale(200, 600) && !rn.TooMany(); i++ {
			ns := g.NodeSet(1, 2)
			start := Path{}
			if !containsAbs(ns) {
				start = pick(rn.R, d.Paths)
			}
			r := rn.scalar(d, env, start, call("sum", ns), "sum", "sum of number(string-value) without truncation", true)
			if i == 0 && di == 0 {
				rn.Sample("sum(" + Render(ns, RenderOpts{}) + ") -> " + r)
			}
			rn.scalar(d, env, start, call("count", ns), "count", "count is the set size", true)
		}
		// node-set operands whose stored order is not document order: the operand is number(string-value of the
		// FIRST node in document order)
		uenv := envShuffled(rn, d)
		uo := unorderedOperands(rn)
		for k := 0; k < rn.Scale(60, 300) && !rn.TooMany(); k++ {
			a := pick(rn.R, uo)
			start := pick(rn.R, d.Paths)
			var e Expr
			switch rn.R.Intn(5) {
			case 0:
				e = bin(pick(rn.R, arOps), a, num("1"))
			case 1:
				e = bin(pick(rn.R, arOps), num("7"), a)
			case 2:
				e = &ENeg{a}
			case 3:
				e = call(pick(rn.R, []string{"floor", "ceiling", "round", "number"}), a)
			default:
				e = bin(pick(rn.R, arOps), a, pick(rn.R, uo))
			}
			rn.scalar(d, uenv, start, e, "nodeset-operands-unordered", "a node-set operand converts through its first node in document order, whatever the stored order", true)
		}
		rn.DropDoc(d)
	}
}

// roundCase: round() is compared with the model of what the library computes; a
// negative tie (x < -0.5 with fractional part exactly .5) is the known finding F5.
func (rn *Runner) roundCase(d *Doc, env *Env, a float64, nt bool) {
	rn.scalar(d, env, Path{}, call("round", v("a")), "floor-ceiling-round", "round", nt)
}

var nearTies = []float64{0.49999999999999994, -0.49999999999999994, 1.4999999999999998, 2.4999999999999996, 1.5000000000000002, 0.5000000000000001,
	-0.5000000000000001, -1.5000000000000002, 3.4999999999999996, 4503599627370497, 4503599627370495.5}

func famC07(rn *Runner) {
	d := rn.genDoc(40)
	rn.checkCallerResults(d, "all") // a caller-implemented Result as variable and function result

	g := NewExprGen(rn.R.Fork(), d, stdEnv())
	n := rn.Scale(2500, 40000)
	for i := 0; i < n && !rn.TooMany(); i++ {
		s, t, u := g.Str(), g.Str(), g.Str()
		p, l := g.Double(), g.Double()
		if rn.R.Chance(2, 3) {
			p = float64(rn.R.Intn(9)-2) + pick(rn.R, []float64{0, 0, 0.5, 0.49, -0.5, 0.51})
			l = float64(rn.R.Intn(8)-1) + pick(rn.R, []float64{0, 0, 0.5, 0.49, 1.5})
			// the doubles next to a tie: adding 0.5 to them rounds, so floor(x+0.5) is not round(x)
			switch rn.R.Intn(8) {
			case 0:
				p = pick(rn.R, nearTies)
			case 1:
				l = pick(rn.R, nearTies)
			}
		}
		env := &Env{Vars: []VarBind{strVar("s", s), strVar("t", t), strVar("u", u), numVar("p", p), numVar("l", l)}}
		nt := !isASCII(s+t+u) || p != math.Trunc(p) || l != math.Trunc(l)
		cases := []Expr{
			call("concat", v("s"), v("t")), call("concat", v("s"), v("t"), v("u"), v("p")),
			call("starts-with", v("s"), v("t")), call("contains", v("s"), v("t")),
			call("substring-before", v("s"), v("t")), call("substring-after", v("s"), v("t")),
			call("substring", v("s"), v("p")), call("substring", v("s"), v("p"), v("l")),
			call("string-length", v("s")), call("normalize-space", v("s")),
			call("translate", v("s"), v("t"), v("u")),
			// t taken from inside s so that the search functions hit
			call("substring-before", v("s"), call("substring", v("s"), num("2"), num("1"))),
			call("substring-after", v("s"), call("substring", v("s"), num("2"), num("2"))),
			call("contains", call("concat", v("t"), v("s"), v("u")), v("s")),
			call("translate", v("s"), v("s"), v("t")),
		}
		for k, e := range cases {
			r := rn.scalar(d, env, Path{}, e, "string-functions", "XPath 4.2 string function", nt)
			if i < 2 && k == 7 {
				rn.Sample(fmt.Sprintf("substring($s,$p,$l) with s=%q p=%v l=%v -> %s", s, p, l, r))
			}
			if strings.HasPrefix(r, "PANIC") || strings.Contains(r, "�") {
				continue
			}
		}
		if i%50 == 0 {
			// literals holding characters no XML document can hold (C0 controls, U+FFFE, U+FFFF), DEL, NEL, no-break and other spaces,
			// a byte order mark: a literal is its characters, all of them
			for _, c := range []string{"\x01", "\x08", "\x0b", "\x0c", "\x1f", "\x7f", "\u0085", "\u00a0", "\u2028", "\u3000", "\ufeff", "\ufffe", "\uffff", "\ufffd"} {
				q := "a" + c + "b" + c
				rn.scalar(d, env, Path{}, call("string-length", lit(q)), "string-functions", "literal with an unusual character", true)
				rn.scalar(d, env, Path{}, call("concat", lit(c), v("s"), lit(q)), "string-functions", "literal with an unusual character", true)
				rn.scalar(d, env, Path{}, call("contains", lit(q), lit(c)), "string-functions", "literal with an unusual character", true)
				rn.scalar(d, env, Path{}, call("substring-after", lit(q), lit(c)), "string-functions", "literal with an unusual character", true)
				rn.scalar(d, env, Path{}, call("translate", lit(q), lit(c), lit("-")), "string-functions", "literal with an unusual character", true)
				rn.scalar(d, env, Path{}, call("normalize-space", lit(" "+c+" x "+c)), "string-functions", "literal with an unusual character", true)
				rn.scalar(d, env, Path{}, bin("=", lit(q), lit("ab")), "string-functions", "literal with an unusual character", true)
				rn.scalar(d, env, Path{}, call("boolean", lit(c)), "string-functions", "literal with an unusual character", true)
			}
			// literals whose value begins or ends with a quote of the other kind
			for _, q := range []string{"'", "\"", "'x", "x'", "\"x\"", "it's", "''", "'\u00e9"} {
				rn.scalar(d, env, Path{}, call("string-length", lit(q)), "string-functions", "literal with a quote at its edge", true)
				rn.scalar(d, env, Path{}, call("concat", lit(q), v("s"), lit(q)), "string-functions", "literal with a quote at its edge", true)
				rn.scalar(d, env, Path{}, call("contains", v("s"), lit(q)), "string-functions", "literal with a quote at its edge", true)
			}
			// translate with a long second argument that repeats characters (the FIRST occurrence decides)
			alpha := []rune("abcdefghijklmnopqrstuvwxyz\u00e9\u65e5")
			var from, to []rune
			for k, n := 0, 17+rn.R.Intn(30); k < n; k++ {
				from = append(from, pick(rn.R, alpha[:8+rn.R.Intn(20)]))
				if rn.R.Chance(5, 6) {
					to = append(to, pick(rn.R, []rune("ABCDEFGHIJKLMNOPQRSTUVWXYZ0123456789")))
				}
			}
			env2 := &Env{Vars: []VarBind{strVar("s", s+"banana abcdefghij"), strVar("f", string(from)), strVar("t", string(to))}}
			rn.scalar(d, env2, Path{}, call("translate", v("s"), v("f"), v("t")), "string-functions", "translate with more than 16 mapped characters, some repeated", true)
			rn.scalar(d, env2, Path{}, call("translate", v("f"), v("f"), v("t")), "string-functions", "translate with more than 16 mapped characters, some repeated", true)
			// functions with many arguments
			var many []Expr
			for k, n := 0, 9+rn.R.Intn(8); k < n; k++ {
				many = append(many, pick(rn.R, []Expr{v("s"), v("t"), v("p"), lit("-"), num("1")}))
			}
			rn.scalar(d, env, Path{}, call("concat", many...), "string-functions", "concat with nine or more arguments", true)
		}
		// literals (no quote/backslash characters)
		if !strings.ContainsAny(s+t, "'\"\\") && i%4 == 0 {
			rn.scalar(d, env, Path{}, call("contains", lit(s), lit(t)), "string-functions", "literal arguments", nt)
			rn.scalar(d, env, Path{}, call("translate", lit(s), lit(t), lit(u0(u))), "string-functions", "literal arguments", nt)
		}
	}
	rn.DropDoc(d)
	// zero-argument forms from every node
	for di := 0; di < rn.Scale(4, 40) && !rn.TooMany(); di++ {
		d := rn.genDoc(60)
		env := stdEnv()
		dot := &EPath{Steps: []*Stp{{Axis: "self", Test: NodeTest{Kind: "node"}, Abbrev: true}}}
		at := &EPath{Steps: []*Stp{{Axis: "attribute", Test: NodeTest{Kind: "any"}, Abbrev: true}}}
		kid := &EPath{Steps: []*Stp{{Axis: "child", Test: NodeTest{Kind: "node"}}}}
		up := &EPath{Steps: []*Stp{{Axis: "parent", Test: NodeTest{Kind: "node"}, Abbrev: true}}}
		for pi, p := range d.Paths {
			for _, f := range []string{"string", "string-length", "normalize-space"} {
				rn.scalar(d, env, p, call(f), "zero-argument-forms", "f() = f(string(.))", true)
			}
			// several arguments that all depend on the context node: each is evaluated in the call's own context
			ctxArgs := []Expr{
				call("concat", at, lit("|"), dot, lit("|"), call("name"), lit("|"), kid),
				call("substring-before", dot, kid), call("substring-after", up, dot), call("contains", up, dot),
				call("starts-with", call("name"), call("local-name")), call("translate", dot, at, call("name")),
				call("concat", call("string-length"), lit("/"), call("count", kid), lit("/"), call("position"), lit("/"), call("last")),
				call("substring", dot, call("count", kid), call("string-length", call("name"))),
			}
			for k := 0; k < 3; k++ {
				rn.scalar(d, env, p, ctxArgs[(pi*3+k)%len(ctxArgs)], "context-dependent-arguments", "every argument is evaluated with the call's context node", true)
			}
		}
		// the same inside a path: P/f(a, b) and P[f(a, b)]
		for i := 0; i < rn.Scale(40, 200) && !rn.TooMany(); i++ {
			f := pick(rn.R, []Expr{call("concat", at, lit("-"), dot), call("substring-before", dot, at), call("concat", call("name"), kid, at)})
			fc := f.(*ECall)
			e := &EPath{Abs: true, Steps: []*Stp{{Axis: "descendant", Test: NodeTest{Kind: "any"}, Preds: []Expr{num(fmt.Sprint(1 + rn.R.Intn(3)))}}, {IsCall: true, Q: fc.Q, Args: fc.Args}}}
			rn.scalar(d, env, Path{}, e, "context-dependent-arguments", "function-call step with several context-dependent arguments", true)
		}
		rn.DropDoc(d)
	}
}

func u0(s string) string {
	if strings.ContainsAny(s, "'\"\\") {
		return "z"
	}
	return s
}

func isASCII(s string) bool {
	for _, r := range s {
		if r > 127 {
			return false
		}
	}
	return true
}
