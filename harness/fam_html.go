package main

import (
	"bytes"
	"fmt"
	"io"
	"strings"
	"testing/iotest"

	"github.com/ChrisTrenkamp/xsel"
	"golang.org/x/net/html"
)

func init() {
	families["C17"] = famC17
	rules["C17"] = "tag soup built from a pool of start/end tags (block, inline, table, list, void, raw-text, template, select, svg and math foreign content, prefixed names), attributes (duplicates, xmlns, xmlns:xlink, xlink:href, xml:lang, colons also at the start of a name, empty values, five to a dozen attributes on one element), text, entities, comments, " +
		"misnested and unclosed tags, content after </body> and </html>, with and without a leading doctype; html.Parse's DOM is dumped by an independent recursive walk and handed to the walk model; observable: the full cursor tree from xsel.ReadHtml " +
		"(names, attributes, text, comments, every Pos()) or the error; non-trivial: the DOM has >= 6 element nodes; distinct by bytes"
	replayers["html"] = func(rn *Runner, rp *Replay) (string, string, bool) {
		impl, model := htmlCase(rn, []byte(rp.Input))
		return impl, model, impl == model
	}
}

func dumpDom(n *html.Node, b *strings.Builder) {
	switch n.Type {
	case html.ElementNode:
		b.WriteString("(e " + sxStr(n.Data) + " (")
		for i, a := range n.Attr {
			if i > 0 {
				b.WriteString(" ")
			}
			fmt.Fprintf(b, "(%s %s %s)", sxStr(a.Namespace), sxStr(a.Key), sxStr(a.Val))
		}
		b.WriteString(") (")
		first := true
		for c := n.FirstChild; c != nil; c = c.NextSibling {
			if !first {
				b.WriteString(" ")
			}
			first = false
			dumpDom(c, b)
		}
		b.WriteString("))")
	case html.TextNode:
		b.WriteString("(t " + sxStr(n.Data) + ")")
	case html.CommentNode:
		b.WriteString("(c " + sxStr(n.Data) + ")")
	case html.DoctypeNode:
		b.WriteString("doctype")
	default:
		b.WriteString("(c " + sxStr("?unexpected node type") + ")")
	}
}

var htmlReads int

// failingReader delivers its data in two pieces and then fails with an error that is not io.EOF
type failingReader struct {
	data []byte
	n    int
}

func (f *failingReader) Read(p []byte) (int, error) {
	if f.n >= len(f.data) {
		return 0, fmt.Errorf("read failed: connection reset")
	}
	k := copy(p, f.data[f.n:min(len(f.data), f.n+len(f.data)/2+1)])
	f.n += k
	return k, nil
}

// readerFor: the same bytes behind the kinds of io.Reader a caller may pass - everything at once, the last piece
// together with io.EOF, half of what is asked for, one byte at a time
func readerFor(data []byte, k int) io.Reader {
	switch k % 4 {
	case 1:
		return iotest.DataErrReader(bytes.NewReader(data))
	case 2:
		return iotest.HalfReader(bytes.NewReader(data))
	case 3:
		if len(data) < 4000 {
			return iotest.OneByteReader(bytes.NewReader(data))
		}
	}
	return bytes.NewReader(data)
}

func readHtmlImpl(data []byte) (out string) {
	defer func() {
		if r := recover(); r != nil {
			out = fmt.Sprintf("PANIC %v", r)
		}
	}()
	htmlReads++
	if htmlReads%5 == 0 {
		// an input that fails part-way with a non-EOF error: it must be reported, and leave nothing behind for the next document
		c, err := xsel.ReadHtml(&failingReader{data: []byte(`<!DOCTYPE html><html class="stale"><head><title>lost</title></head><body><p id="lost">x`)})
		if err == nil {
			return fmt.Sprintf("ACCEPTED an input whose reader failed (cursor nil: %v)", c == nil)
		}
	}
	c, err := xsel.ReadHtml(readerFor(data, htmlReads))
	if err != nil {
		return "E"
	}
	if c == nil {
		return "NIL-NIL"
	}
	var b strings.Builder
	dumpTree(c, true, &b)
	return b.String()
}

func htmlCase(rn *Runner, data []byte) (impl, model string) {
	impl = readHtmlImpl(data)
	doc, err := html.Parse(bytes.NewReader(data))
	if err != nil {
		return impl, "E"
	}
	var b strings.Builder
	b.WriteString("(html (")
	first := true
	for c := doc.FirstChild; c != nil; c = c.NextSibling {
		if !first {
			b.WriteString(" ")
		}
		first = false
		dumpDom(c, &b)
	}
	b.WriteString("))")
	return impl, rn.M.Ask(b.String())
}

var htmlTags = []string{"div", "p", "span", "a", "b", "i", "ul", "li", "table", "tr", "td", "th", "tbody", "h1", "section", "em", "form", "select", "option",
	"template", "svg", "math", "mi", "rect", "svg:rect", "a:b:c", "x-custom", "title", "head", "body", "html", "pre", "button", "nobr", "dl", "dd", "dt", "caption", "colgroup", "frameset", "foreignObject", "desc"}
var htmlVoid = []string{"br", "img", "input", "hr", "meta", "link", "col", "wbr"}
var htmlAttrs = []string{`id="x"`, `class="a b"`, `id="dup" id="dup2"`, `xmlns="http://www.w3.org/2000/svg"`, `xmlns:xlink="http://www.w3.org/1999/xlink"`, `xlink:href="#a"`, `xml:lang="en"`,
	`data-x='1'`, `disabled`, `a:b="c"`, `xmlns:foo="urn:foo"`, `href=/x/y`, `title="&amp;&lt;"`, `XMLNS="u"`, `x:xmlns="q"`, `lang=de`, `definitionurl="u"`, `viewbox="0 0 1 1"`,
	`:title="msg"`, `:x`, `::y="1"`, `:="c"`, `k1=1 k2=2 k3=3 k4=4 k5=5`, `m1 m2 m3 m4 m5 m6 m7 m8 m9`, `rel="noopener"`}
var htmlTexts = []string{"text", " ", "a &amp; b", "&lt;tag&gt;", "é", "\n  ", "x<y", "1 > 0", "&nbsp;", "日本", "&#128512;", "&bogus;", "tab\there"}

func genHtml(r *Rng, n int) string {
	var b strings.Builder
	switch r.Intn(12) {
	case 0:
		// no doctype: must be rejected
	case 1:
		b.WriteString("<!-- early --><!DOCTYPE html>")
	case 2:
		b.WriteString("<!doctype html PUBLIC \"-//W3C//DTD HTML 4.01//EN\">")
	case 3:
		b.WriteString(" \n<!DOCTYPE html>")
	case 4:
		b.WriteString("<!DOCTYPE html><!-- saved from url=(0014)about:internet --><!--[if lt IE 9]><p>old</p><![endif]-->\n<!-- third -->")
	case 5:
		// UTF-8 after more than a kilobyte of ASCII (nothing in the first 1024 bytes says which encoding this is)
		b.WriteString("<!DOCTYPE html><html><head><style>" + strings.Repeat("p > a { color: red } ", 60+r.Intn(40)) + "</style></head><body title=\"caf\u00e9\"><p>\u00fcn\u00ef \u65e5\u672c</p><!-- \u00e9 -->")
	default:
		b.WriteString("<!DOCTYPE html>")
	}
	var open []string
	for i := 0; i < n; i++ {
		switch k := r.Intn(20); {
		case k < 7:
			t := pick(r, htmlTags)
			b.WriteString("<" + t)
			for r.Chance(1, 3) {
				b.WriteString(" " + pick(r, htmlAttrs))
			}
			if r.Chance(1, 12) {
				b.WriteString("/")
			}
			b.WriteString(">")
			open = append(open, t)
		case k < 9:
			t := pick(r, htmlVoid)
			b.WriteString("<" + t)
			if r.Chance(1, 2) {
				b.WriteString(" " + pick(r, htmlAttrs))
			}
			b.WriteString(pick(r, []string{">", "/>", " />"}))
		case k < 13:
			if len(open) > 0 {
				j := len(open) - 1
				if r.Chance(1, 5) {
					j = r.Intn(len(open)) // misnested
				}
				b.WriteString("</" + open[j] + ">")
				open = append(open[:j], open[j+1:]...)
			} else {
				b.WriteString("</" + pick(r, htmlTags) + ">")
			}
		case k < 17:
			b.WriteString(pick(r, htmlTexts))
		case k == 17:
			b.WriteString("<!--" + pick(r, []string{"c", "", " x ", "a-b", "<div>"}) + "-->")
		case k == 18:
			b.WriteString(pick(r, []string{"<script>if (a<b) {}</script>", "<style>p>a{}</style>", "<noscript><p>no <b>script</b></p><img src=x></noscript>", "<head><noscript><link rel=x><style>a{}</style></noscript></head>", "<noscript>plain</noscript>", "<textarea><b>x</textarea>", "<![CDATA[x]]>", "<?php x ?>", "</html><!-- after html -->", "</body>trailing"}))
		default:
			b.WriteString("<" + pick(r, []string{"", "1", "/", "!", "a b=", "a b='"}))
		}
	}
	if r.Chance(1, 3) {
		b.WriteString("</body></html>" + pick(r, []string{"", "<!-- end -->", "<!-- a --><!-- b -->", "\n", "text after"}))
	}
	return b.String()
}

func famC17(rn *Runner) {
	n := rn.Scale(3000, 60000)
	for i := 0; i < n && !rn.TooMany(); i++ {
		r := rn.R.Fork()
		text := genHtml(r, 3+r.Intn(rn.Scale(30, 80)))
		data := []byte(text)
		impl, model := htmlCase(rn, data)
		if i < 3 {
			rn.Sample(text)
		}
		rn.Eval(text, strings.Count(model, "E(") >= 7)
		switch {
		case model == "E":
			rn.Count("result:rejected")
		default:
			rn.Count("result:tree")
		}
		if impl != model {
			rn.Report(&Replay{Family: "html-walk", Clause: "cursor tree = DOM of x/net/html", Kind: "html", Input: text, Impl: impl, Model: model},
				fmt.Sprintf("ReadHtml(%q): implementation %s, walk model on html.Parse's DOM %s", text, impl, model))
		}
	}
}
