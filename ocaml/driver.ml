(* Driver around the extracted model: one S-expression command per input line,
   one answer per output line. Hand-written glue (trusted base): the reader, the
   printers and the int <-> nat/N/Z/positive conversions. *)
module M = Xmodel

(* ---------- S-expressions ---------- *)
type sx = A of string | L of sx list

let parse_sx (s : string) : sx =
  let n = String.length s in
  let pos = ref 0 in
  let rec skip () = if !pos < n && (s.[!pos] = ' ' || s.[!pos] = '\t' || s.[!pos] = '\r') then (incr pos; skip ()) in
  let rec item () =
    skip ();
    if !pos >= n then failwith "eof"
    else if s.[!pos] = '(' then begin
      incr pos;
      let acc = ref [] in
      let rec loop () =
        skip ();
        if !pos >= n then failwith "unclosed"
        else if s.[!pos] = ')' then incr pos
        else (acc := item () :: !acc; loop ()) in
      loop ();
      L (List.rev !acc)
    end else begin
      let st = !pos in
      while !pos < n && s.[!pos] <> ' ' && s.[!pos] <> '(' && s.[!pos] <> ')' do incr pos done;
      A (String.sub s st (!pos - st))
    end in
  item ()

(* ---------- conversions ---------- *)
let rec pos_of_int n =
  if n = 1 then M.XH else if n land 1 = 0 then M.XO (pos_of_int (n lsr 1)) else M.XI (pos_of_int (n lsr 1))
let n_of_int n = if n = 0 then M.N0 else M.Npos (pos_of_int n)
let z_of_int n = if n = 0 then M.Z0 else if n > 0 then M.Zpos (pos_of_int n) else M.Zneg (pos_of_int (-n))
let rec nat_of_int n = if n <= 0 then M.O else M.S (nat_of_int (n - 1))
let rec int_of_pos = function M.XH -> 1 | M.XO p -> 2 * int_of_pos p | M.XI p -> 2 * int_of_pos p + 1
let int_of_n = function M.N0 -> 0 | M.Npos p -> int_of_pos p
let int_of_z = function M.Z0 -> 0 | M.Zpos p -> int_of_pos p | M.Zneg p -> - (int_of_pos p)
let rec int_of_nat = function M.O -> 0 | M.S k -> 1 + int_of_nat k

(* unsigned 64-bit patterns *)
let rec i64_of_pos = function
  | M.XH -> 1L
  | M.XO p -> Int64.shift_left (i64_of_pos p) 1
  | M.XI p -> Int64.logor (Int64.shift_left (i64_of_pos p) 1) 1L
let i64_of_z = function M.Z0 -> 0L | M.Zpos p -> i64_of_pos p | M.Zneg _ -> 0L
let z_of_i64 (x : int64) : M.z =
  (* build from the most significant bit down *)
  let r = ref None in
  for i = 63 downto 0 do
    let b = Int64.logand (Int64.shift_right_logical x i) 1L = 1L in
    r := (match !r with
          | None -> if b then Some M.XH else None
          | Some p -> Some (if b then M.XI p else M.XO p))
  done;
  match !r with None -> M.Z0 | Some p -> M.Zpos p

let z_of_hex (h : string) : M.z = z_of_i64 (Int64.of_string ("0x" ^ h))
let hex_of_z (z : M.z) : string = Printf.sprintf "%016Lx" (i64_of_z z)

(* ---------- readers ---------- *)
let int_of_sx = function A a -> int_of_string a | _ -> failwith "int expected"

let str_of_sx = function
  | L (A "s" :: cs) -> List.map (fun c -> n_of_int (int_of_sx c)) cs
  | _ -> failwith "string expected"

let qname_of a b = { M.q_space = str_of_sx a; M.q_local = str_of_sx b }

let event_of_sx = function
  | A "end" -> M.EvEnd
  | L [A "start"; a; b] -> M.EvStart (qname_of a b)
  | L [A "nsd"; a; b] -> M.EvNs (str_of_sx a, str_of_sx b)
  | L [A "attr"; a; b; v] -> M.EvAttr (qname_of a b, str_of_sx v)
  | L [A "text"; v] -> M.EvLeaf (M.LText (str_of_sx v))
  | L [A "comment"; v] -> M.EvLeaf (M.LComment (str_of_sx v))
  | L [A "pi"; t; d] -> M.EvLeaf (M.LPI (str_of_sx t, str_of_sx d))
  | _ -> failwith "event expected"

let step_of_sx = function
  | L [A "c"; i] -> M.SCh (nat_of_int (int_of_sx i))
  | L [A "a"; i] -> M.SAt (nat_of_int (int_of_sx i))
  | L [A "n"; i] -> M.SNs (nat_of_int (int_of_sx i))
  | _ -> failwith "step expected"

let path_of_sx = function
  | L (A "p" :: steps) -> List.map step_of_sx steps
  | _ -> failwith "path expected"

let rec value_of_sx = function
  | L (A "nodes" :: ps) -> M.VNodes (List.map path_of_sx ps)
  | L [A "n"; A h] -> M.VNum (M.f_of_bits (z_of_hex h))
  | L [A "str"; v] -> M.VStr (str_of_sx v)
  | L [A "b"; A "1"] -> M.VBool true
  | L [A "b"; A "0"] -> M.VBool false
  | _ -> failwith "value expected"

let axis_of = function
  | "child" -> M.Child | "descendant" -> M.Descendant | "descendant-or-self" -> M.DescendantOrSelf
  | "parent" -> M.Parent | "ancestor" -> M.Ancestor | "ancestor-or-self" -> M.AncestorOrSelf
  | "following-sibling" -> M.FollowingSibling | "preceding-sibling" -> M.PrecedingSibling
  | "following" -> M.Following | "preceding" -> M.Preceding | "attribute" -> M.Attribute
  | "namespace" -> M.Namespace | "self" -> M.Self
  | a -> failwith ("axis " ^ a)

let nodetest_of_sx = function
  | A "node" -> M.NTNode | A "text" -> M.NTText | A "comment" -> M.NTComment | A "pi" -> M.NTPI
  | A "any" -> M.NTAny
  | L [A "pit"; v] -> M.NTPITarget (str_of_sx v)
  | L [A "nsany"; v] -> M.NTNsAny (str_of_sx v)
  | L [A "localany"; v] -> M.NTLocalAny (str_of_sx v)
  | L [A "qn"; a; b] -> M.NTQName (str_of_sx a, str_of_sx b)
  | L [A "name"; v] -> M.NTName (str_of_sx v)
  | _ -> failwith "nodetest expected"

let rawq_of_sx = function
  | L [A "q"; l] -> (None, str_of_sx l)
  | L [A "q"; p; l] -> (Some (str_of_sx p), str_of_sx l)
  | _ -> failwith "qname expected"

let cmpop_of = function
  | "eq" -> M.CEq | "ne" -> M.CNe | "lt" -> M.CLt | "le" -> M.CLe | "gt" -> M.CGt | "ge" -> M.CGe
  | a -> failwith ("cmpop " ^ a)
let arop_of = function
  | "add" -> M.AAdd | "sub" -> M.ASub | "mul" -> M.AMul | "div" -> M.ADiv | "mod" -> M.AMod
  | a -> failwith ("arop " ^ a)

let rec expr_of_sx = function
  | L [A "or"; a; b] -> M.EOr (expr_of_sx a, expr_of_sx b)
  | L [A "and"; a; b] -> M.EAnd (expr_of_sx a, expr_of_sx b)
  | L [A "cmp"; A op; a; b] -> M.ECmp (cmpop_of op, expr_of_sx a, expr_of_sx b)
  | L [A "ar"; A op; a; b] -> M.EArith (arop_of op, expr_of_sx a, expr_of_sx b)
  | L [A "neg"; a] -> M.ENeg (expr_of_sx a)
  | L [A "union"; a; b] -> M.EUnion (expr_of_sx a, expr_of_sx b)
  | L [A "lit"; v] -> M.ELit (str_of_sx v)
  | L [A "num"; v] -> M.ENum (str_of_sx v)
  | L [A "var"; q] -> M.EVar (rawq_of_sx q)
  | L (A "call" :: q :: args) -> M.ECall (rawq_of_sx q, List.map expr_of_sx args)
  | L (A "path" :: A abs :: steps) -> M.EPath (abs = "1", List.map stp_of_sx steps)
  | L [A "filter"; e; L preds; L steps] ->
      M.EFilter (expr_of_sx e, List.map expr_of_sx preds, List.map stp_of_sx steps)
  | _ -> failwith "expr expected"
and stp_of_sx = function
  | L (A "ax" :: A a :: t :: preds) -> M.SAxis (axis_of a, nodetest_of_sx t, List.map expr_of_sx preds)
  | L (A "fcall" :: q :: args) -> M.SCall (rawq_of_sx q, List.map expr_of_sx args)
  | _ -> failwith "step expected"

let ufun_of_sx = function
  | L [A "arg"; k] -> M.UArg (nat_of_int (int_of_sx k))
  | A "ctxpos" -> M.UCtxPos
  | A "ctxnodes" -> M.UCtxNodes
  | L [A "const"; v] -> M.UConst (value_of_sx v)
  | A "argcount" -> M.UArgCount
  | _ -> failwith "ufun expected"

(* ---------- printers ---------- *)
let show_str (v : M.str) : string =
  match v with
  | [] -> "_"
  | _ -> String.concat "." (List.map (fun c -> string_of_int (int_of_n c)) v)

let show_step = function
  | M.SCh i -> "c" ^ string_of_int (int_of_nat i)
  | M.SAt i -> "a" ^ string_of_int (int_of_nat i)
  | M.SNs i -> "n" ^ string_of_int (int_of_nat i)

let show_path (p : M.path) : string = "." ^ String.concat "." (List.map show_step p)

let show_num (x : M.spec_float) : string = hex_of_z (M.bits_of_f x)

let show_value = function
  | M.VNodes l -> String.concat " " ("L" :: List.map show_path l)
  | M.VNum x -> "N " ^ show_num x
  | M.VStr v -> "S " ^ show_str v
  | M.VBool b -> if b then "B 1" else "B 0"

let show_res = function M.Ok v -> show_value v | M.Err -> "E"

let rec dump_node (b : Buffer.t) (n : M.anode) : unit =
  match n with
  | M.AElem (pos, nm, nss, ats, kids) ->
      Buffer.add_string b (Printf.sprintf "E(%d,%s,%s)[" (int_of_z pos) (show_str nm.M.q_space) (show_str nm.M.q_local));
      List.iter (fun a -> Buffer.add_string b (Printf.sprintf "N(%d,%s,%s)" (int_of_z a.M.ns_pos) (show_str a.M.ns_prefix) (show_str a.M.ns_uri))) nss;
      Buffer.add_string b "][";
      List.iter (fun a -> Buffer.add_string b (Printf.sprintf "A(%d,%s,%s,%s)" (int_of_z a.M.at_pos) (show_str a.M.at_name.M.q_space) (show_str a.M.at_name.M.q_local) (show_str a.M.at_val))) ats;
      Buffer.add_string b "]{";
      List.iter (dump_node b) kids;
      Buffer.add_string b "}"
  | M.ALeaf (pos, M.LText v) -> Buffer.add_string b (Printf.sprintf "T(%d,%s)" (int_of_z pos) (show_str v))
  | M.ALeaf (pos, M.LComment v) -> Buffer.add_string b (Printf.sprintf "C(%d,%s)" (int_of_z pos) (show_str v))
  | M.ALeaf (pos, M.LPI (t, d)) -> Buffer.add_string b (Printf.sprintf "P(%d,%s,%s)" (int_of_z pos) (show_str t) (show_str d))

(* ---------- Unmarshal targets ---------- *)
let rec gty_of_sx = function
  | A "str" -> M.TStr | A "bool" -> M.TBool | A "other" -> M.TOther
  | L [A "num"; A "f32"] -> M.TNum M.KF32
  | L [A "num"; A "f64"] -> M.TNum M.KF64
  | L [A "num"; A "i"; bits; sg] -> M.TNum (M.KInt (z_of_int (int_of_sx bits), int_of_sx sg = 1))
  | L [A "ptr"; t] -> M.TPtr (gty_of_sx t)
  | L [A "slice"; t] -> M.TSlice (gty_of_sx t)
  | L (A "struct" :: fs) ->
      M.TStruct (List.map (function
        | L [ex; tag; t] ->
            let tg = (match tag with
                      | A "notag" -> M.NoTag | A "badtag" -> M.BadTag
                      | L [A "tag"; e] -> M.Tag (expr_of_sx e)
                      | _ -> failwith "tag") in
            ((int_of_sx ex = 1, tg), gty_of_sx t)
        | _ -> failwith "field") fs)
  | _ -> failwith "gty"

let rec gval_of_sx = function
  | L [A "s"; v] -> M.GStr (str_of_sx v)
  | L [A "b"; A "1"] -> M.GBool true
  | L [A "b"; A "0"] -> M.GBool false
  | L [A "n"; A h] -> M.GNum (M.f_of_bits (z_of_hex h))
  | A "nilptr" -> M.GPtr None
  | L [A "ptr"; v] -> M.GPtr (Some (gval_of_sx v))
  | L (A "slice" :: vs) -> M.GSlice (List.map gval_of_sx vs)
  | L (A "struct" :: vs) -> M.GStruct (List.map gval_of_sx vs)
  | A "other" -> M.GOther
  | _ -> failwith "gval"

let rec show_gval = function
  | M.GStr v -> "s[" ^ show_str v ^ "]"
  | M.GBool b -> if b then "b1" else "b0"
  | M.GNum x -> "n" ^ show_num x
  | M.GUnspec -> "u"
  | M.GPtr None -> "nil"
  | M.GPtr (Some v) -> "&" ^ show_gval v
  | M.GSlice l -> "[" ^ String.concat "," (List.map show_gval l) ^ "]"
  | M.GStruct l -> "{" ^ String.concat "," (List.map show_gval l) ^ "}"
  | M.GOther -> "o"

(* ---------- commands ---------- *)
let docs : (int, M.anode) Hashtbl.t = Hashtbl.create 16

let handle (line : string) : string =
  match parse_sx line with
  | L [A "doc"; id; L evs] ->
      Hashtbl.replace docs (int_of_sx id) (M.build (List.map event_of_sx evs)); "ok"
  | L [A "drop"; id] -> Hashtbl.remove docs (int_of_sx id); "ok"
  | L [A "dump"; id] ->
      let b = Buffer.create 256 in dump_node b (Hashtbl.find docs (int_of_sx id)); Buffer.contents b
  | L [A (("q" | "qa") as cmd); id; root; L nss; L vars; L funs; e] ->
      let d = Hashtbl.find docs (int_of_sx id) in
      let en = { M.e_doc = d; M.e_root = path_of_sx root;
                 M.e_ns = List.map (function L [A "ns"; a; b] -> (str_of_sx a, str_of_sx b) | _ -> failwith "ns") nss;
                 M.e_vars = List.map (function L [A "v"; a; b; v] -> (qname_of a b, value_of_sx v) | _ -> failwith "var") vars;
                 M.e_funs = List.map (function L [A "fn"; a; b; f] -> (qname_of a b, ufun_of_sx f) | _ -> failwith "fn") funs;
                 M.e_asis = (cmd = "qa") } in
      show_res (M.exec en (expr_of_sx e))
  | L [A "json"; L toks; A final] ->
      let tok = function
        | L [A "o"; A "arr"] -> M.TOpen M.JArrS | L [A "o"; A "obj"] -> M.TOpen M.JObjS
        | L [A "c"; A "arr"] -> M.TClose M.JArrS | L [A "c"; A "obj"] -> M.TClose M.JObjS
        | L [A "v"; v] -> M.TVal (str_of_sx v)
        | _ -> failwith "json token" in
      (match M.read_json_result (List.map tok toks) (final = "err") with
       | M.JTree t -> let b = Buffer.create 256 in dump_node b t; Buffer.contents b
       | M.JError -> "E"
       | M.JPanicked -> "PANIC"
       | M.JNoFuel -> "NOFUEL")
  | L [A "jsonspec"; L vals] ->
      let rec jv = function
        | L [A "sc"; v] -> M.JScalar (str_of_sx v)
        | L (A "arr" :: items) -> M.JArr (List.map jv items)
        | L (A "obj" :: ms) -> M.JObj (List.map (function L [k; v] -> (str_of_sx k, jv v) | _ -> failwith "member") ms)
        | _ -> failwith "json value" in
      let b = Buffer.create 256 in dump_node b (M.json_spec_tree (List.map jv vals)); Buffer.contents b
  | L [A "xml"; L toks; A final] ->
      let attr = function L [a; b; v] -> (qname_of a b, str_of_sx v) | _ -> failwith "xml attr" in
      let tok = function
        | L [A "st"; a; b; L attrs] -> M.XStart (qname_of a b, List.map attr attrs)
        | A "end" -> M.XEnd
        | L [A "ch"; v] -> M.XChar (str_of_sx v)
        | L [A "cm"; v] -> M.XCommentT (str_of_sx v)
        | L [A "pi"; t; i] -> M.XProcInst (str_of_sx t, str_of_sx i)
        | A "dir" -> M.XDirective
        | _ -> failwith "xml token" in
      (match M.read_xml (List.map tok toks) (final = "err") with
       | Some t -> let b = Buffer.create 256 in dump_node b t; Buffer.contents b
       | None -> "E")
  | L [A "xmlspec"; L items] ->
      let raw = function
        | L [A "d"; p; u] -> M.RDecl (str_of_sx p, str_of_sx u)
        | L [A "a"; a; b; v] -> M.RAttr (qname_of a b, str_of_sx v)
        | _ -> failwith "raw attr" in
      let rec item = function
        | L [A "e"; a; b; L raws; L kids] -> M.XE (qname_of a b, List.map raw raws, List.map item kids)
        | L [A "t"; L pieces] -> M.XT (List.map str_of_sx pieces)
        | L [A "c"; v] -> M.XC (str_of_sx v)
        | L [A "p"; t; d] -> M.XP (str_of_sx t, str_of_sx d)
        | L [A "decl"; i] -> M.XDeclItem (str_of_sx i)
        | A "dir" -> M.XDirItem
        | _ -> failwith "xml item" in
      let b = Buffer.create 256 in
      dump_node b (M.build (M.dm_list M.Z0 (List.map item items))); Buffer.contents b
  | L [A "html"; L nodes] ->
      let rec dn = function
        | L [A "e"; name; L attrs; L kids] ->
            M.DElem (str_of_sx name,
                     List.map (function L [n; k; v] -> { M.ha_ns = str_of_sx n; M.ha_key = str_of_sx k; M.ha_val = str_of_sx v }
                                      | _ -> failwith "html attr") attrs,
                     List.map dn kids)
        | L [A "t"; v] -> M.DText (str_of_sx v)
        | L [A "c"; v] -> M.DComment (str_of_sx v)
        | A "doctype" -> M.DDoctype
        | _ -> failwith "html node" in
      (match M.read_html (List.map dn nodes) with
       | M.HTree t -> let b = Buffer.create 256 in dump_node b t; Buffer.contents b
       | M.HError -> "E"
       | M.HPanicked -> "PANIC"
       | M.HNoFuel -> "NOFUEL")
  | L [A "unm"; id; root; L nss; L vars; L funs; result; target] ->
      let d = Hashtbl.find docs (int_of_sx id) in
      let en = { M.e_doc = d; M.e_root = path_of_sx root;
                 M.e_ns = List.map (function L [A "ns"; a; b] -> (str_of_sx a, str_of_sx b) | _ -> failwith "ns") nss;
                 M.e_vars = List.map (function L [A "v"; a; b; v] -> (qname_of a b, value_of_sx v) | _ -> failwith "var") vars;
                 M.e_funs = List.map (function L [A "fn"; a; b; f] -> (qname_of a b, ufun_of_sx f) | _ -> failwith "fn") funs;
                 M.e_asis = false } in
      let tg = (match target with
                | A "nil" -> M.TgNil
                | L [A "tv"; t; v] -> M.TgVal (gty_of_sx t, gval_of_sx v)
                | _ -> failwith "target") in
      (match M.unmarshal_top en (value_of_sx result) tg with
       | M.UOk g -> "OK " ^ show_gval g
       | M.UErr -> "E"
       | M.UPanic -> "PANIC"
       | M.UFuel -> "FUEL")
  | L [A "cli"; L [a; m; n; r]; L files] ->
      let fl = { M.f_all = (int_of_sx a = 1); M.f_xml = (int_of_sx m = 1); M.f_noname = (int_of_sx n = 1); M.f_rec = (int_of_sx r = 1) } in
      (* the serialisation of -m is an oracle: a marker naming the node *)
      let ser _ (p : M.path) : M.str =
        n_of_int 1 :: List.map (fun c -> n_of_int (Char.code c)) (List.init (String.length (show_path p)) (String.get (show_path p))) @ [n_of_int 2] in
      let file = function
        | L [path; A stdin; A "none"; A "none"] -> (((str_of_sx path, stdin = "1"), M.AElem (M.Z0, { M.q_space = []; M.q_local = [] }, [], [], [])), None)
        | L [path; A stdin; id; A "none"] -> (((str_of_sx path, stdin = "1"), Hashtbl.find docs (int_of_sx id)), None)
        | L [path; A stdin; id; v] -> (((str_of_sx path, stdin = "1"), Hashtbl.find docs (int_of_sx id)), Some (value_of_sx v))
        | _ -> failwith "cli file" in
      "S " ^ show_str (M.cli_stdout ser fl (List.map file files))
  | L [A "pq"; id; root; L nss; L vars; L funs; A asis; text] ->
      let run e =
        let d = Hashtbl.find docs (int_of_sx id) in
        let en = { M.e_doc = d; M.e_root = path_of_sx root;
                   M.e_ns = List.map (function L [A "ns"; a; b] -> (str_of_sx a, str_of_sx b) | _ -> failwith "ns") nss;
                   M.e_vars = List.map (function L [A "v"; a; b; v] -> (qname_of a b, value_of_sx v) | _ -> failwith "var") vars;
                   M.e_funs = List.map (function L [A "fn"; a; b; f] -> (qname_of a b, ufun_of_sx f) | _ -> failwith "fn") funs;
                   M.e_asis = false } in
        show_res (M.exec en e) in
      if asis = "1" then
        (* the matcher of the open finding C08-lexical-restrictions: every reading the generated lexer/grammar allows *)
        (match M.parse_string_readings (str_of_sx text) with
         | [] -> "E build"
         | es -> String.concat " || " (List.sort_uniq compare (List.map run es)))
      else
        (match M.parse_string false (str_of_sx text) with
         | None -> "E build"
         | Some e -> run e)
  | L [A "render"; A mode; e] ->
      let rec nat_of n = if n <= 0 then M.O else M.S (nat_of (n - 1)) in
      (match M.canonical_text_ws (nat_of (int_of_string mode)) (expr_of_sx e) with
       | None -> "E not-canonical"
       | Some s -> "S " ^ show_str s)
  | L [A "sv"; id; p] -> "S " ^ show_str (M.string_value (Hashtbl.find docs (int_of_sx id)) (path_of_sx p))
  | L [A "tostr"; A h] -> "S " ^ show_str (M.num_to_str (M.f_of_bits (z_of_hex h)))
  | L [A "tonum"; v] -> "N " ^ show_num (M.str_to_num (str_of_sx v))
  | L [A "numstrok"; A h; v] -> if M.num_string_ok (M.f_of_bits (z_of_hex h)) (str_of_sx v) then "B 1" else "B 0"
  | _ -> "?"

let slowlog = (try Sys.getenv "XMODEL_SLOW" <> "" with Not_found -> false)

let () =
  try
    while true do
      let line = input_line stdin in
      if line = "(sync)" then flush stdout
      else begin
        let t0 = if slowlog then Sys.time () else 0.0 in
        let out = try handle line with e -> "! " ^ Printexc.to_string e in
        if slowlog && Sys.time () -. t0 > 0.02 then
          prerr_endline (Printf.sprintf "SLOW %.3f %s" (Sys.time () -. t0) (String.sub line 0 (min 300 (String.length line))));
        print_string out; print_char '\n'
      end
    done
  with End_of_file -> ()
