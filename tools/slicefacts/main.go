// slicefacts: per-run translator for the slice discipline of C13/C14 (DESIGN 7).
// For every append(x, ...) and sort.Sort(T(x)) in the non-test files of a package
// directory, classify the operand x as
//
//	fresh   - a local initialised in the same function by make, a composite literal, nil, a
//	          declaration without value, append on a fresh value, a conversion of a fresh value,
//	          or a call of a package function whose result is fresh (returns only fresh values);
//	          or a parameter of a package function all of whose call sites pass a fresh value;
//	foreign - anything else (a value obtained by type assertion, a field, the result of a
//	          method such as Cursor.Children(), a re-slice of a foreign value, ...).
//
// Output: one line per site: "<file>:<func> <append|sort> <operand> <fresh|foreign>".
package main

import (
	"fmt"
	"go/ast"
	"go/parser"
	"go/token"
	"os"
	"path/filepath"
	"sort"
	"strings"
)

type site struct {
	file, fn, kind, operand string
	class                   string // fresh | foreign | param:<fn>:<idx>
}

type fnInfo struct {
	decl    *ast.FuncDecl
	file    string
	params  map[string]int
	locals  map[string]string // name -> class
	returns []string          // classes of returned expressions
}

var funcs = map[string]*fnInfo{}
var callArgs = map[string][][]string{} // callee -> list of arg-class lists
var paramClass = map[string]string{}   // "fn:idx" -> fresh|foreign
var retFresh = map[string]bool{}

func classOf(fi *fnInfo, e ast.Expr) string {
	switch v := e.(type) {
	case *ast.Ident:
		if v.Name == "nil" {
			return "fresh"
		}
		if c, ok := fi.locals[v.Name]; ok {
			return c
		}
		if idx, ok := fi.params[v.Name]; ok {
			return fmt.Sprintf("param:%s:%d", fi.decl.Name.Name, idx)
		}
		return "foreign"
	case *ast.CompositeLit:
		return "fresh"
	case *ast.ParenExpr:
		return classOf(fi, v.X)
	case *ast.StarExpr:
		return classOf(fi, v.X) // *p where p points to the caller's slice
	case *ast.UnaryExpr:
		if v.Op == token.AND {
			return classOf(fi, v.X)
		}
		return "foreign"
	case *ast.SliceExpr:
		return classOf(fi, v.X) // a re-slice shares the array
	case *ast.CallExpr:
		if id, ok := v.Fun.(*ast.Ident); ok {
			switch id.Name {
			case "make":
				return "fresh"
			case "append":
				if len(v.Args) > 0 {
					return classOf(fi, v.Args[0])
				}
			}
			if _, isFn := funcs[id.Name]; isFn {
				return "ret:" + id.Name
			}
			// a conversion T(x)
			if len(v.Args) == 1 {
				return classOf(fi, v.Args[0])
			}
		}
		return "foreign"
	}
	return "foreign"
}

func resolve(c string, depth int) string {
	if depth > 20 {
		return "foreign"
	}
	switch {
	case c == "fresh" || c == "foreign":
		return c
	case strings.HasPrefix(c, "param:"):
		if r, ok := paramClass[strings.TrimPrefix(c, "param:")]; ok {
			return r
		}
		return "foreign"
	case strings.HasPrefix(c, "ret:"):
		if retFresh[strings.TrimPrefix(c, "ret:")] {
			return "fresh"
		}
		return "foreign"
	}
	return "foreign"
}

func main() {
	dir := os.Args[1]
	fset := token.NewFileSet()
	files, _ := filepath.Glob(filepath.Join(dir, "*.go"))
	sort.Strings(files)
	var sites []*site
	type pending struct {
		fi   *fnInfo
		body *ast.BlockStmt
	}
	var todo []pending
	for _, f := range files {
		if strings.HasSuffix(f, "_test.go") {
			continue
		}
		af, err := parser.ParseFile(fset, f, nil, 0)
		if err != nil {
			fmt.Fprintln(os.Stderr, err)
			os.Exit(2)
		}
		for _, d := range af.Decls {
			fd, ok := d.(*ast.FuncDecl)
			if !ok || fd.Body == nil {
				continue
			}
			fi := &fnInfo{decl: fd, file: filepath.Base(f), params: map[string]int{}, locals: map[string]string{}}
			idx := 0
			for _, p := range fd.Type.Params.List {
				for _, n := range p.Names {
					fi.params[n.Name] = idx
					idx++
				}
			}
			if fd.Recv == nil {
				funcs[fd.Name.Name] = fi
			}
			todo = append(todo, pending{fi, fd.Body})
		}
	}
	// pass 1: locals (in source order; a variable re-assigned from a foreign value becomes foreign)
	for _, p := range todo {
		fi := p.fi
		ast.Inspect(p.body, func(n ast.Node) bool {
			switch v := n.(type) {
			case *ast.AssignStmt:
				if len(v.Lhs) == len(v.Rhs) {
					for i, l := range v.Lhs {
						id, ok := l.(*ast.Ident)
						if !ok || id.Name == "_" {
							continue
						}
						if _, isParam := fi.params[id.Name]; isParam && v.Tok != token.DEFINE {
							// assignment to a parameter: its class from now on is the join
							c := classOf(fi, v.Rhs[i])
							if c != fmt.Sprintf("param:%s:%d", fi.decl.Name.Name, fi.params[id.Name]) {
								if old, ok := fi.locals[id.Name]; !ok || old == "fresh" {
									fi.locals[id.Name] = c
								}
							}
							continue
						}
						c := classOf(fi, v.Rhs[i])
						if old, seen := fi.locals[id.Name]; seen && v.Tok != token.DEFINE {
							if old != c && !(strings.HasPrefix(c, "param:") || strings.HasPrefix(c, "ret:")) && c != "fresh" {
								fi.locals[id.Name] = "foreign"
							} else if old == "fresh" || old == c {
								fi.locals[id.Name] = c
							}
						} else {
							fi.locals[id.Name] = c
						}
					}
				} else {
					// x, ok := y.(T) and multi-value calls: foreign
					for _, l := range v.Lhs {
						if id, ok := l.(*ast.Ident); ok && id.Name != "_" {
							fi.locals[id.Name] = "foreign"
						}
					}
				}
			case *ast.DeclStmt:
				if gd, ok := v.Decl.(*ast.GenDecl); ok {
					for _, s := range gd.Specs {
						if vs, ok := s.(*ast.ValueSpec); ok {
							for i, n := range vs.Names {
								if i < len(vs.Values) {
									fi.locals[n.Name] = classOf(fi, vs.Values[i])
								} else {
									fi.locals[n.Name] = "fresh" // zero value: nil slice
								}
							}
						}
					}
				}
			case *ast.RangeStmt:
				for _, e := range []ast.Expr{v.Key, v.Value} {
					if id, ok := e.(*ast.Ident); ok && id.Name != "_" {
						fi.locals[id.Name] = "foreign"
					}
				}
			}
			return true
		})
	}
	// pass 2: sites, call arguments, returns
	for _, p := range todo {
		fi := p.fi
		ast.Inspect(p.body, func(n ast.Node) bool {
			switch v := n.(type) {
			case *ast.ReturnStmt:
				for _, r := range v.Results {
					fi.returns = append(fi.returns, classOf(fi, r))
				}
			case *ast.CallExpr:
				if id, ok := v.Fun.(*ast.Ident); ok {
					if id.Name == "append" && len(v.Args) > 0 {
						sites = append(sites, &site{fi.file, fi.decl.Name.Name, "append", exprString(v.Args[0]), classOf(fi, v.Args[0])})
					}
					if _, isFn := funcs[id.Name]; isFn {
						var cs []string
						for _, a := range v.Args {
							cs = append(cs, classOf(fi, a))
						}
						callArgs[id.Name] = append(callArgs[id.Name], cs)
					}
				}
				if sel, ok := v.Fun.(*ast.SelectorExpr); ok {
					if x, ok := sel.X.(*ast.Ident); ok && x.Name == "sort" && (sel.Sel.Name == "Sort" || sel.Sel.Name == "Stable") && len(v.Args) == 1 {
						sites = append(sites, &site{fi.file, fi.decl.Name.Name, "sort", exprString(v.Args[0]), classOf(fi, v.Args[0])})
					}
				}
			}
			return true
		})
	}
	// fixpoint over parameters and results (optimistic start, then demote)
	for name, fi := range funcs {
		for _, idx := range fi.params {
			paramClass[fmt.Sprintf("%s:%d", name, idx)] = "fresh"
		}
		retFresh[name] = len(fi.returns) > 0
	}
	for changed := true; changed; {
		changed = false
		for name, fi := range funcs {
			for _, idx := range fi.params {
				key := fmt.Sprintf("%s:%d", name, idx)
				if paramClass[key] != "fresh" {
					continue
				}
				calls := callArgs[name]
				ok := len(calls) > 0
				for _, cs := range calls {
					if idx >= len(cs) || resolve(cs[idx], 0) != "fresh" {
						ok = false
					}
				}
				if !ok {
					paramClass[key] = "foreign"
					changed = true
				}
			}
			if retFresh[name] {
				for _, c := range fi.returns {
					if resolve(c, 0) != "fresh" {
						retFresh[name] = false
						changed = true
						break
					}
				}
			}
		}
	}
	for _, s := range sites {
		fmt.Printf("%s:%s %s %s %s\n", s.file, s.fn, s.kind, strings.ReplaceAll(s.operand, " ", ""), resolve(s.class, 0))
	}
}

func exprString(e ast.Expr) string {
	switch v := e.(type) {
	case *ast.Ident:
		return v.Name
	case *ast.SelectorExpr:
		return exprString(v.X) + "." + v.Sel.Name
	case *ast.CallExpr:
		if len(v.Args) == 1 {
			return exprString(v.Fun) + "(" + exprString(v.Args[0]) + ")"
		}
		return exprString(v.Fun) + "(...)"
	case *ast.SliceExpr:
		return exprString(v.X) + "[:]"
	case *ast.IndexExpr:
		return exprString(v.X) + "[i]"
	case *ast.ParenExpr:
		return "(" + exprString(v.X) + ")"
	case *ast.StarExpr:
		return "*" + exprString(v.X)
	}
	return "expr"
}
