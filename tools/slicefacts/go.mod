module slicefacts

go 1.20
