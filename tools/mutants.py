#!/usr/bin/env python3
"""Self-test of the checks against seeded changes (DESIGN 14). Development tooling, not a
registered command.

  tools/mutants.py import <dir> <name> <prop>   validate a candidate (patch.diff + demo) in a scratch worktree and
                                                keep it as seeded/<name>/ when it (a) applies, (b) builds, (c) keeps the
                                                existing suite green, (d) makes the demonstration fail, which passes
                                                on the unchanged tree
  tools/mutants.py run [name ...] [--tier quick] [--props C01,C03]
                                                run the property's check (and any --props) against each seeded change in a
                                                scratch worktree (VERIF_REPO), record the outcome in seeded/<name>/result.json
"""
import json
import os
import re
import shutil
import subprocess
import sys
import time

VERIF = os.path.dirname(os.path.dirname(os.path.abspath(__file__)))
REPO = "/repo"
SCRATCH = "/tmp/mw"
GOENV = dict(os.environ, GOFLAGS="-mod=mod", GOPROXY="off", GOSUMDB="off", GOTOOLCHAIN="local")


def sh(cmd, cwd=None, env=None, timeout=3600):
    p = subprocess.run(cmd, cwd=cwd, env=env or GOENV, shell=isinstance(cmd, str), stdout=subprocess.PIPE, stderr=subprocess.STDOUT, text=True, errors="replace", timeout=timeout)
    return p.returncode, p.stdout


def worktree(name):
    os.makedirs(SCRATCH, exist_ok=True)
    wt = os.path.join(SCRATCH, name)
    if os.path.exists(wt):
        sh(["git", "-C", REPO, "worktree", "remove", "--force", wt])
        shutil.rmtree(wt, ignore_errors=True)
    rc, out = sh(["git", "-C", REPO, "worktree", "add", "--detach", wt, "HEAD"])
    if rc != 0:
        raise RuntimeError(out)
    return wt


def drop(wt):
    sh(["git", "-C", REPO, "worktree", "remove", "--force", wt])
    shutil.rmtree(wt, ignore_errors=True)


def demo_place(demo):
    if demo.endswith(".sh"):
        return None
    m = re.search(r"place in:\s*(\S+)", open(demo).read())
    d = m.group(1).strip("`'\"") if m else "."
    return d.rstrip("/") or "."


def run_demo(wt, demo):
    if demo.endswith(".sh"):
        return sh(["bash", demo, wt], cwd=wt)
    place = demo_place(demo)
    dst = os.path.join(wt, place, "zz_demo_test.go")
    shutil.copy(demo, dst)
    try:
        return sh("go test -vet=off -count=1 -run 'TestDemo$' ./%s" % place, cwd=wt)
    finally:
        os.remove(dst)


def cmd_import(src, name, prop):
    patch = os.path.join(src, "patch.diff")
    demo = None
    for f in ("demo_test.go", "demo.sh"):
        if os.path.exists(os.path.join(src, f)):
            demo = os.path.join(src, f)
    if not os.path.exists(patch) or demo is None:
        print("missing patch.diff or demo in", src)
        return 1
    wt = worktree("import-" + name)
    ran = []
    try:
        rc, out = run_demo(wt, demo)
        ran.append("demo on unchanged tree: rc=%d" % rc)
        if rc != 0:
            print(name, "REJECTED: demo fails on the unchanged tree\n", out[-800:])
            return 1
        rc, out = sh(["git", "-C", wt, "apply", patch])
        ran.append("git apply patch.diff: rc=%d" % rc)
        if rc != 0:
            print(name, "REJECTED: patch does not apply\n", out[-800:])
            return 1
        rc, out = sh("go build ./... && go test -vet=off -count=1 ./...", cwd=wt)
        ran.append("go build ./... && go test -vet=off -count=1 ./... with the change: rc=%d" % rc)
        if rc != 0:
            print(name, "REJECTED: build or existing tests fail with the change\n", out[-800:])
            return 1
        rc, out = run_demo(wt, demo)
        ran.append("demo with the change: rc=%d" % rc)
        if rc == 0:
            print(name, "REJECTED: demo passes with the change")
            return 1
        demo_tail = out[-600:]
    finally:
        drop(wt)
    dst = os.path.join(VERIF, "seeded", name)
    os.makedirs(dst, exist_ok=True)
    shutil.copy(patch, os.path.join(dst, "patch.diff"))
    shutil.copy(demo, os.path.join(dst, os.path.basename(demo)))
    needs = ""
    mt = os.path.join(src, "meta.txt")
    if os.path.exists(mt):
        needs = open(mt).read()
    json.dump({"property": prop, "needs_to_manifest": needs, "confirmed_by": ran, "demo_failure_excerpt": demo_tail,
               "origin": "independent sub-agent given only the property text and a scratch worktree"},
              open(os.path.join(dst, "meta.json"), "w"), indent=1)
    print(name, "kept")
    return 0


def cmd_run(names, tier, props):
    if not names:
        names = sorted(os.listdir(os.path.join(VERIF, "seeded")))
    summary = []
    for name in names:
        d = os.path.join(VERIF, "seeded", name)
        if not os.path.exists(os.path.join(d, "meta.json")):
            continue
        meta = json.load(open(os.path.join(d, "meta.json")))
        plist = props or [meta["property"]] + meta.get("also_check", [])
        wt = worktree("run-" + name)
        out_dir = os.path.join(SCRATCH, "out-" + name)
        shutil.rmtree(out_dir, ignore_errors=True)
        os.makedirs(out_dir)
        res = {}
        try:
            rc, out = sh(["git", "-C", wt, "apply", os.path.join(d, "patch.diff")])
            if rc != 0:
                print(name, "patch no longer applies")
                continue
            for prop in plist:
                t0 = time.time()
                env = dict(os.environ, VERIF_REPO=wt, VERIF_OUT=out_dir)
                rc, out = sh(["python3", os.path.join(VERIF, "run.py"), "check", prop, "--tier", tier], cwd=VERIF, env=env, timeout=7200)
                vio = [l for l in out.splitlines() if l.startswith("VIOLATION")]
                detail = [l.strip() for l in out.splitlines() if l.startswith("  ")][:3]
                res[prop] = {"exit": rc, "violation_lines": vio[:5], "detail": detail, "wall_s": round(time.time() - t0, 1),
                             "caught": rc == 1 and bool(vio), "no_failing_input": any("no-failing-input-found" in v for v in vio)}
                print("%-14s %s tier=%s exit=%d caught=%s %s" % (name, prop, tier, rc, res[prop]["caught"], (vio[:1] or [""])[0][:150]))
        finally:
            drop(wt)
            shutil.rmtree(out_dir, ignore_errors=True)
        old = {}
        rp = os.path.join(d, "result.json")
        if os.path.exists(rp):
            old = json.load(open(rp))
        old.update({"%s@%s" % (p, tier): r for p, r in res.items()})
        json.dump(old, open(rp, "w"), indent=1)
        summary.append((name, res))
    return 0


def main():
    a = sys.argv[1:]
    if a and a[0] == "import":
        return cmd_import(a[1], a[2], a[3])
    if a and a[0] == "run":
        tier, props, names = "quick", None, []
        i = 1
        while i < len(a):
            if a[i] == "--tier":
                tier = a[i + 1]
                i += 2
            elif a[i] == "--props":
                props = a[i + 1].split(",")
                i += 2
            else:
                names.append(a[i])
                i += 1
        return cmd_run(names, tier, props)
    print(__doc__)
    return 2


if __name__ == "__main__":
    sys.exit(main())
