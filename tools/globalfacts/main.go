// globalfacts: for each Go package directory given, list every place where a function other than init
// writes package-level state: assignment / op-assignment / ++ / -- to a package-level variable (or to an
// element, field or pointee of one), taking its address, delete(), and method calls on package-level
// variables whose declared type or initialiser comes from package sync (sync.Map, sync.Mutex, sync.Pool, atomic.*).
// Output: one line per site "file:line function variable kind".  Syntactic (go/ast with the parser's
// file-scope resolution); identifiers declared locally shadow package-level names.
package main

import (
	"fmt"
	"go/ast"
	"go/parser"
	"go/token"
	"os"
	"path/filepath"
	"sort"
	"strings"
)

func exprString(e ast.Expr) string {
	switch v := e.(type) {
	case *ast.Ident:
		return v.Name
	case *ast.SelectorExpr:
		return exprString(v.X) + "." + v.Sel.Name
	case *ast.StarExpr:
		return "*" + exprString(v.X)
	case *ast.CallExpr:
		return exprString(v.Fun) + "(...)"
	case *ast.CompositeLit:
		if v.Type != nil {
			return exprString(v.Type) + "{...}"
		}
	case *ast.UnaryExpr:
		return v.Op.String() + exprString(v.X)
	case *ast.ArrayType:
		return "[]" + exprString(v.Elt)
	case *ast.MapType:
		return "map[" + exprString(v.Key) + "]" + exprString(v.Value)
	}
	return "?"
}

func main() {
	var lines []string
	for _, dir := range os.Args[1:] {
		fset := token.NewFileSet()
		pkgs, err := parser.ParseDir(fset, dir, func(fi os.FileInfo) bool { return !strings.HasSuffix(fi.Name(), "_test.go") }, 0)
		if err != nil {
			fmt.Fprintln(os.Stderr, err)
			os.Exit(2)
		}
		for _, pkg := range pkgs {
			// package-level variables and whether they are synchronisation objects
			vars := map[string]bool{}   // name -> is a sync/atomic object
			decl := map[*ast.Object]bool{}
			for _, f := range pkg.Files {
				for _, d := range f.Decls {
					gd, ok := d.(*ast.GenDecl)
					if !ok || gd.Tok != token.VAR {
						continue
					}
					for _, sp := range gd.Specs {
						vs := sp.(*ast.ValueSpec)
						syncy := false
						txt := ""
						if vs.Type != nil {
							txt += exprString(vs.Type)
						}
						for _, v := range vs.Values {
							txt += " " + exprString(v)
						}
						if strings.Contains(txt, "sync.") || strings.Contains(txt, "atomic.") {
							syncy = true
						}
						for _, n := range vs.Names {
							vars[n.Name] = syncy
							if n.Obj != nil {
								decl[n.Obj] = true
							}
						}
					}
				}
			}
			isPkgVar := func(id *ast.Ident) bool {
				if _, ok := vars[id.Name]; !ok {
					return false
				}
				if id.Obj == nil {
					return true // unresolved in this file: declared in another file of the package
				}
				return decl[id.Obj]
			}
			var root func(e ast.Expr) *ast.Ident
			root = func(e ast.Expr) *ast.Ident {
				switch v := e.(type) {
				case *ast.Ident:
					return v
				case *ast.IndexExpr:
					return root(v.X)
				case *ast.SelectorExpr:
					return root(v.X)
				case *ast.StarExpr:
					return root(v.X)
				case *ast.ParenExpr:
					return root(v.X)
				case *ast.SliceExpr:
					return root(v.X)
				}
				return nil
			}
			for fname, f := range pkg.Files {
				for _, d := range f.Decls {
					fd, ok := d.(*ast.FuncDecl)
					if !ok || fd.Body == nil || (fd.Name.Name == "init" && fd.Recv == nil) {
						continue
					}
					site := func(pos token.Pos, id *ast.Ident, kind string) {
						p := fset.Position(pos)
						lines = append(lines, fmt.Sprintf("%s/%s:%d %s %s %s", filepath.Base(dir), filepath.Base(fname), p.Line, fd.Name.Name, id.Name, kind))
					}
					ast.Inspect(fd.Body, func(n ast.Node) bool {
						switch v := n.(type) {
						case *ast.AssignStmt:
							if v.Tok == token.DEFINE {
								return true
							}
							for _, l := range v.Lhs {
								if id := root(l); id != nil && isPkgVar(id) {
									site(v.Pos(), id, "assign")
								}
							}
						case *ast.IncDecStmt:
							if id := root(v.X); id != nil && isPkgVar(id) {
								site(v.Pos(), id, "incdec")
							}
						case *ast.UnaryExpr:
							if v.Op == token.AND {
								if id := root(v.X); id != nil && isPkgVar(id) {
									site(v.Pos(), id, "address")
								}
							}
						case *ast.CallExpr:
							if fn, ok := v.Fun.(*ast.Ident); ok && fn.Name == "delete" && len(v.Args) > 0 {
								if id := root(v.Args[0]); id != nil && isPkgVar(id) {
									site(v.Pos(), id, "delete")
								}
							}
							if sel, ok := v.Fun.(*ast.SelectorExpr); ok {
								if id := root(sel.X); id != nil && isPkgVar(id) && vars[id.Name] {
									site(v.Pos(), id, "sync-method:"+sel.Sel.Name)
								}
							}
						case *ast.RangeStmt:
							if v.Tok == token.ASSIGN {
								for _, l := range []ast.Expr{v.Key, v.Value} {
									if l != nil {
										if id := root(l); id != nil && isPkgVar(id) {
											site(v.Pos(), id, "assign")
										}
									}
								}
							}
						}
						return true
					})
				}
			}
		}
	}
	sort.Strings(lines)
	for _, l := range lines {
		fmt.Println(l)
	}
}
