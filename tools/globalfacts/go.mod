module globalfacts

go 1.21
