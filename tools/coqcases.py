"""Cross-check of the extracted OCaml model against the Coq kernel's VM: a sample of
the model commands the harness sent (with the answers the OCaml program gave) is
turned into Gallina terms and re-evaluated with vm_compute."""
import os
import re
import subprocess


def sx_parse(s):
    toks = re.findall(r"\(|\)|[^\s()]+", s)
    pos = 0

    def item():
        nonlocal pos
        t = toks[pos]
        pos += 1
        if t == "(":
            out = []
            while toks[pos] != ")":
                out.append(item())
            pos += 1
            return out
        return t
    return item()


def gstr(sx):
    assert sx[0] == "s", sx
    return "[" + "; ".join(x + "%N" for x in sx[1:]) + "]"


def glist(items):
    return "[" + "; ".join(items) + "]"


def gq(a, b):
    return "(QN %s %s)" % (gstr(a), gstr(b))


def gevent(e):
    if e == "end":
        return "EvEnd"
    k = e[0]
    if k == "start":
        return "EvStart %s" % gq(e[1], e[2])
    if k == "nsd":
        return "EvNs %s %s" % (gstr(e[1]), gstr(e[2]))
    if k == "attr":
        return "EvAttr %s %s" % (gq(e[1], e[2]), gstr(e[3]))
    if k == "text":
        return "EvLeaf (LText %s)" % gstr(e[1])
    if k == "comment":
        return "EvLeaf (LComment %s)" % gstr(e[1])
    if k == "pi":
        return "EvLeaf (LPI %s %s)" % (gstr(e[1]), gstr(e[2]))
    raise ValueError(e)


def gpath(p):
    assert p[0] == "p"
    m = {"c": "SCh", "a": "SAt", "n": "SNs"}
    return glist(["%s %s" % (m[s[0]], s[1]) for s in p[1:]])


def gvalue(v):
    k = v[0]
    if k == "nodes":
        return "(VNodes %s)" % glist([gpath(p) for p in v[1:]])
    if k == "n":
        return "(VNum (f_of_bits %d%%Z))" % int(v[1], 16)
    if k == "str":
        return "(VStr %s)" % gstr(v[1])
    if k == "b":
        return "(VBool %s)" % ("true" if v[1] == "1" else "false")
    raise ValueError(v)


AXES = {"child": "Child", "descendant": "Descendant", "descendant-or-self": "DescendantOrSelf", "parent": "Parent",
        "ancestor": "Ancestor", "ancestor-or-self": "AncestorOrSelf", "following-sibling": "FollowingSibling",
        "preceding-sibling": "PrecedingSibling", "following": "Following", "preceding": "Preceding",
        "attribute": "Attribute", "namespace": "Namespace", "self": "Self"}
CMP = {"eq": "CEq", "ne": "CNe", "lt": "CLt", "le": "CLe", "gt": "CGt", "ge": "CGe"}
AR = {"add": "AAdd", "sub": "ASub", "mul": "AMul", "div": "ADiv", "mod": "AMod"}


def gtest(t):
    if isinstance(t, str):
        return {"node": "NTNode", "text": "NTText", "comment": "NTComment", "pi": "NTPI", "any": "NTAny"}[t]
    k = t[0]
    if k == "pit":
        return "(NTPITarget %s)" % gstr(t[1])
    if k == "nsany":
        return "(NTNsAny %s)" % gstr(t[1])
    if k == "localany":
        return "(NTLocalAny %s)" % gstr(t[1])
    if k == "qn":
        return "(NTQName %s %s)" % (gstr(t[1]), gstr(t[2]))
    if k == "name":
        return "(NTName %s)" % gstr(t[1])
    raise ValueError(t)


def grawq(q):
    if len(q) == 2:
        return "(None, %s)" % gstr(q[1])
    return "(Some %s, %s)" % (gstr(q[1]), gstr(q[2]))


def gexpr(e):
    k = e[0]
    if k in ("or", "and"):
        return "(%s %s %s)" % ("EOr" if k == "or" else "EAnd", gexpr(e[1]), gexpr(e[2]))
    if k == "cmp":
        return "(ECmp %s %s %s)" % (CMP[e[1]], gexpr(e[2]), gexpr(e[3]))
    if k == "ar":
        return "(EArith %s %s %s)" % (AR[e[1]], gexpr(e[2]), gexpr(e[3]))
    if k == "neg":
        return "(ENeg %s)" % gexpr(e[1])
    if k == "union":
        return "(EUnion %s %s)" % (gexpr(e[1]), gexpr(e[2]))
    if k == "lit":
        return "(ELit %s)" % gstr(e[1])
    if k == "num":
        return "(ENum %s)" % gstr(e[1])
    if k == "var":
        return "(EVar %s)" % grawq(e[1])
    if k == "call":
        return "(ECall %s %s)" % (grawq(e[1]), glist([gexpr(a) for a in e[2:]]))
    if k == "path":
        return "(EPath %s %s)" % ("true" if e[1] == "1" else "false", glist([gstep(s) for s in e[2:]]))
    if k == "filter":
        return "(EFilter %s %s %s)" % (gexpr(e[1]), glist([gexpr(p) for p in e[2]]), glist([gstep(s) for s in e[3]]))
    raise ValueError(e)


def gstep(s):
    if s[0] == "ax":
        return "(SAxis %s %s %s)" % (AXES[s[1]], gtest(s[2]), glist([gexpr(p) for p in s[3:]]))
    if s[0] == "fcall":
        return "(SCall %s %s)" % (grawq(s[1]), glist([gexpr(a) for a in s[2:]]))
    raise ValueError(s)


def gufun(f):
    if f == "ctxpos":
        return "UCtxPos"
    if f == "ctxnodes":
        return "UCtxNodes"
    if f == "argcount":
        return "UArgCount"
    if f[0] == "arg":
        return "(UArg %s)" % f[1]
    if f[0] == "const":
        return "(UConst %s)" % gvalue(f[1])
    raise ValueError(f)


def ganswer(a):
    a = a.strip()
    if a == "E":
        return "Err"
    if a.startswith("L"):
        ps = a.split()[1:]
        m = {"c": "SCh", "a": "SAt", "n": "SNs"}
        out = []
        for p in ps:
            steps = [x for x in p.lstrip(".").split(".") if x]
            out.append(glist(["%s %s" % (m[s[0]], s[1:]) for s in steps]))
        return "(Ok (VNodes %s))" % glist(out)
    if a.startswith("N "):
        return "(Ok (VNum (f_of_bits %d%%Z)))" % int(a[2:], 16)
    if a.startswith("S "):
        body = a[2:]
        if body == "_":
            return "(Ok (VStr []))"
        return "(Ok (VStr %s))" % glist([x + "%N" for x in body.split(".")])
    if a.startswith("B "):
        return "(Ok (VBool %s))" % ("true" if a[2:] == "1" else "false")
    raise ValueError(a)


def check(casefile, scratch, coqdir, limit=40):
    lines = [l.rstrip("\n") for l in open(casefile) if l.strip()]
    step = max(1, len(lines) // limit)
    lines = lines[::step][:limit]
    docs, cases, pcases, rcases = {}, [], [], []
    for l in lines:
        evs, cmd, ans = l.split("\t")
        c = sx_parse(cmd)
        if c[0] == "render":
            # (render mode expr): the canonical text of an AST, or none
            want = "None" if ans.startswith("E") else "(Some %s)" % ganswer(ans)[len("(Ok (VStr "):-2]
            rcases.append("(%s, %s, %s)" % (c[1], gexpr(c[2]), want))
            continue
        if evs not in docs:
            docs[evs] = "doc%d" % len(docs)
        if c[0] == "pq":
            # (pq id root ns vars funs asis text): the model parser on the text, then the evaluator
            en = "(Env %s %s %s %s %s false)" % (docs[evs], gpath(c[2]),
                                            glist(["(%s, %s)" % (gstr(x[1]), gstr(x[2])) for x in c[3]]),
                                            glist(["(%s, %s)" % (gq(x[1], x[2]), gvalue(x[3])) for x in c[4]]),
                                            glist(["(%s, %s)" % (gq(x[1], x[2]), gufun(x[3])) for x in c[5]]))
            pcases.append("(%s, %s, %s)" % (en, gstr(c[7]), ganswer("E" if ans.startswith("E") else ans)))
            continue
        assert c[0] == "q"
        en = "(Env %s %s %s %s %s false)" % (docs[evs], gpath(c[2]),
                                        glist(["(%s, %s)" % (gstr(x[1]), gstr(x[2])) for x in c[3]]),
                                        glist(["(%s, %s)" % (gq(x[1], x[2]), gvalue(x[3])) for x in c[4]]),
                                        glist(["(%s, %s)" % (gq(x[1], x[2]), gufun(x[3])) for x in c[5]]))
        cases.append("(%s, %s, %s)" % (en, gexpr(c[6]), ganswer(ans)))
    src = os.path.join(scratch, "cases.v")
    with open(src, "w") as f:
        f.write("From XV Require Import Base.Str Base.Num Doc.Tree Doc.Store Xp.Ast Xp.Values Xp.Eval Xp.Check.\n")
        f.write("Local Open Scope nat_scope.\n")
        for evs, name in docs.items():
            f.write("Definition %s : anode := build %s.\n" % (name, glist([gevent(e) for e in sx_parse(evs)])))
        f.write("Definition cases : list (env * expr * res value) :=\n %s.\n" % glist(cases).replace("; (Env", ";\n (Env"))
        if pcases or rcases:
            f.write("From XV Require Import Syn.Parse Syn.Render Syn.LexThm Syn.LexMin.\n")
            f.write("Definition pcases : list (env * str * res value) :=\n %s.\n" % glist(pcases).replace("; (Env", ";\n (Env"))
            f.write("Definition rcases : list (nat * expr * option str) :=\n %s.\n" % glist(rcases))
            f.write("Definition run_text (en : env) (t : str) : res value := match parse_string false t with Some e => exec en e | None => Err end.\n")
            f.write("Definition pbad := filter (fun c => match c with (en, t, want) => negb (res_eqb (run_text en t) want) end) pcases.\n")
            f.write("Definition ostr_eqb (a b : option str) := match a, b with Some x, Some y => str_eqb x y | None, None => true | _, _ => false end.\n")
            f.write("Definition rbad := filter (fun c => match c with (m, e, want) => negb (ostr_eqb (canonical_text_ws m e) want) end) rcases.\n")
            f.write("Definition M := Eval vm_compute in (mismatches 0 cases, length pbad, length rbad).\nPrint M.\n")
        else:
            f.write("Definition M := Eval vm_compute in mismatches 0 cases.\nPrint M.\n")
    p = subprocess.run("timeout 900 coqc -R %s XV %s" % (coqdir, src), shell=True, cwd=scratch, stdout=subprocess.PIPE, stderr=subprocess.STDOUT, text=True)
    out = p.stdout
    flat = out.replace("\n", " ")
    if pcases or rcases:
        ok = p.returncode == 0 and re.search(r"M\s*=\s*\(\[\s*\],\s*0,\s*0\)", flat) is not None
    else:
        ok = p.returncode == 0 and re.search(r"M\s*=\s*\[\s*\]", flat) is not None
    ncases = len(cases) + len(pcases) + len(rcases)
    return {"summary": "%d model answers of the extracted OCaml program (%d evaluations, %d parse-and-evaluate, %d canonical renderings) re-evaluated by vm_compute in coqc: %s" % (ncases, len(cases), len(pcases), len(rcases), "all equal" if ok else "DIFFERENCES"),
            "bad": "" if ok else "extracted model and vm_compute disagree (or cases.v failed): " + out[-1500:]}
