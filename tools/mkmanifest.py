#!/usr/bin/env python3
"""Writes /verif/MANIFEST.json from the table below (kept valid at all times)."""
import json
import os

VERIF = os.path.dirname(os.path.dirname(os.path.abspath(__file__)))

TB = ("Trusted: Coq 8.16.1 kernel incl. vm_compute (no native_compute); no axioms at all - Print Assumptions of every property theorem is parsed on every run; "
      "ExtrOcamlBasic extraction + OCaml 4.13.1; hand-written glue (ocaml/driver.ml, harness/*.go, run.py, tools/*.py). "
      "The Go code is tied to the model by regenerated facts (re-proved per run) and by differential correspondence on generated inputs only.")

# id -> (technique, level text, design_ref, note-extra)
CHECKS = {
    "C01": ("Coq theorem select_exact (selectors = XPath axis relations on node paths) + differential correspondence (every node x 13 axes x 18 node tests per document)",
            "Theorems: for every document whose positions follow document order (every store-built tree, C10), every valid context node of every kind and every axis, the model selector returns exactly the valid nodes the axis relation relates to it, in axis order; "
            "the five-way partition (total and disjoint), the four converse pairs, the root clauses; node tests by kind / principal node type; absolute paths start at the root. "
            "Tie: per-run facts (axis switch, implicit-child list, absolute-path handlers) proved by coqc + exhaustive-per-document correspondence and random multi-step paths.", "5 C01, 15", ""),
    "C02": ("Coq theorems on the predicate evaluator + correspondence + metamorphic identities",
            "Theorems: candidates per context node in axis order; position = index, size = number of candidates; [n] is [position()=n] for every number-valued predicate; NaN/fractions/out-of-range select nothing; successive predicates renumber; results are ordered sub-sequences; "
            "filter expressions number in document order and a continued path starts from the filtered nodes. Tie: facts (filter-path handlers, position/last registered) + correspondence over predicate-bearing paths and filter paths.", "5 C02, 15", ""),
    "C03": ("Coq theorems on sort-by-Pos/dedup and union + validity of every returned node (bridge to C10) + correspondence + direct invariant checks on every returned node-set",
            "Theorems (all inputs): every step/union/filter result is strictly monotone in Pos (so duplicate-free, never mixed); every node an evaluation returns is a node of the document; hence for every document-ordered tree (every store-built tree, C10) "
            "results are strictly ascending in DOCUMENT order (descending after a reverse axis), and union is commutative and associative as equality of evaluation results and idempotent up to cleanup - with no hypothesis left about positions. "
            "Tie: correspondence of node-set valued expressions; invariants also checked directly on the implementation's output in true document order.", "5 C03, 15", ""),
    "C04": ("Coq theorems on the conversion functions (SpecFloat doubles, code-point strings) + correspondence by double/string class",
            "Theorems: string-value = concatenated descendant text (all trees); node-set -> string uses the first node in document order; the XPath Number grammar (accepted numerals convert to the correctly rounded value; any other character makes NaN); special renderings; "
            "boolean conversions; the conversions are the ones operators, predicates and builtin arguments apply. Not proved: that the model's shortest-digit generator always satisfies the relational rendering clause (checked on the implementation's strings). Tie: facts + correspondence.", "5 C04, 15", ""),
    "C05": ("Coq theorems on the comparison cascade + correspondence over operand type pairs",
            "Theorems (all operand values): existential semantics for every node-set pairing, typed cascade otherwise, relational always numeric, NaN unordered, empty node-set false, compare_flip (L<R iff R>L, L<=R iff R>=L, = and != symmetric). "
            "Tie: correspondence (4x4 types x 6 operators x both orders, enumerated per document).", "5 C05, 15", ""),
    "C06": ("Coq theorems on floor/ceiling/round/mod/sum over exact dyadic arithmetic + correspondence by double class",
            "Theorems: round = the integer n with n-1/2 <= x < n+1/2 on the exact value; floor bounds; mod = remainder of the exact scaled operands with the dividend's sign and all special cases; sum is a left fold of number(); totality of the operators and functions; "
            "the library's round() differs from XPath round() on negative ties and nowhere else (open known finding). Tie: facts + correspondence on result bit patterns.", "5 C06, 15", ""),
    "C07": ("Coq theorems on the string functions over code-point lists + correspondence over a Unicode pool",
            "Theorems: contains/starts-with/substring-before/after as list decompositions with the shortest prefix, substring as an IEEE window over 1-based positions, normalize-space (words, idempotence), translate (simultaneous, first occurrence), membership (UTF-8 validity preserved). "
            "Tie: facts (functions registered) + correspondence.", "5 C07, 15", ""),
    "C08": ("Coq round-trip theorem for the model parser (parse_string (render e) = Some e for every well-formed AST) + per-run grammar/handler table proofs by coqc + correspondence of the implementation with the model parser on canonical texts, other renderings and mutated strings",
            "Theorems: the model lexer and parser read every canonical rendering of EVERY well-formed AST - steps in full or abbreviated with . .. @ implicit child and //, the parentheses the nine precedence levels require plus any number of redundant pairs around any sub-expressions, any legal white space between tokens (any run of space/tab/CR/LF, none at all wherever the next character cannot extend the token) - (left associativity, steps, predicates, filter expressions, calls; no bound on size, explicit fuel) back to exactly that AST, hence abbreviated forms equal their expansions and redundant parentheses and whitespace change nothing; the precedence table is a function. "
            "Per run (proved by coqc on tables regenerated from the source): grammar text = generated parser tables; every production with two or more nonterminal children has a handler; handlers index only children that exist; core library registered. "
            "Not covered by the theorem: the generated GLL parser itself, which is compared with the model parser on six canonical texts of every generated AST (three with no optional white space), on renderings with minimal/redundant parentheses and arbitrary whitespace, on token-boundary cases and on mutated strings.", "5 C08, 15.2",
            " gogll's generation of parser.go/lexer.go from the grammar is trusted and exercised, not proved."),
    "C09": ("Coq model of the XML adapter over encoding/xml tokens + data-model theorem + correspondence on generated XML texts",
            "Theorems: for every well-formed abstract document under all serialisation choices the adapter's events are the XPath data model (declarations vs attributes, merged character data, XML declaration, DOCTYPE, top-level white space); namespace scoping of the store; a decoder error never yields a tree. "
            "Tie: ReadXml tree vs the model on the abstract document AND on the token stream recorded from encoding/xml for the same bytes; malformed texts.", "5 C09, 15",
            " encoding/xml (bytes to tokens, entities, charsets) is an oracle whose token stream is recorded by the harness."),
    "C10": ("Coq invariant proof over the store's event consumer + correspondence on scripted parser streams + 10^6-event stack probe",
            "Theorems (all conforming streams): Pos is strictly increasing in document order (unique; 0 only at the root; element < namespaces < attributes < children), inherited namespace nodes are fresh nodes of the element, and with its own declarations they bind, for every prefix, what the element declares or else what its parent has in scope, however many bindings those are (xmlns=\"\" removes the default one). "
            "Tie: fact 'createInMemory is a loop' + full-tree dump correspondence incl. every Pos() and Parent() identity. Stack use of the real goroutine is measured (partial clause).", "5 C10, 15", ""),
    "C11": ("Coq theorems on name resolution incl. renaming invariance for all expressions + correspondence under varied binding environments and instrumented user functions",
            "Theorems: variables return exactly the bound value, user functions take precedence over builtins and receive the evaluated arguments and context, unbound references are errors, name tests use only the query's bindings; "
            "invariance under consistent prefix renaming for every expression (nested induction over the AST). Tie: correspondence incl. metamorphic renamings.", "5 C11, 15", ""),
    "C12": ("Coq theorems on name()/local-name()/namespace-uri()/lang()/count() + correspondence from every node",
            "Theorems: name parts by node kind on the first node in document order; name = local-name or {uri}local; lang = ASCII-case-insensitive equality or prefix followed by '-' against the nearest xml:lang of the ancestor-or-self elements; count of a non-node-set is an error. Tie: facts + correspondence.", "5 C12, 15", ""),
    "C13": ("Coq slice/heap model with frame theorem over call histories + per-run proof that every append/sort site in exec/ writes a fresh slice (go/ast translator) + history correspondence with deep snapshots",
            "Theorems: for every heap and every history of allocations, appends (in place when capacity allows) and in-place sorts obeying the discipline, every pre-existing array is unchanged; the repaired union writes only arrays it allocated; refutation of the union as it was. "
            "Per run: every append / sort.Sort site of exec/ is classified fresh (proved by coqc over the extracted table). Tie: histories of Exec over shared cursors, expressions and caller-held node-sets with spare capacity; deep before/after snapshots; history-free model.", "5 C13, 15",
            " That the Go code performs no other writes rests on the syntactic discipline check plus the snapshots, not on a Go semantics."),
    "C14": ("Coq interleaving theorem (read-only shared state) + the C13 discipline per run + race-detector build: concurrent vs serial results, CLI -c N vs -c 1",
            "Theorems: for every schedule, threads that do not write shared locations leave the shared state unchanged and compute their solo results; no conflicting access pairs; CLI output is the per-file blocks in completion order, each contiguous. "
            "Runtime side (Go memory model, scheduler, write atomicity) is measured with a -race build of harness and command: partial clause.", "5 C14, 15", ""),
    "C15": ("Coq no-panic theorems (Unmarshal's reflection dispatch, JSON adapter stack, HTML walk, slice bounds of the axis helpers) + per-run facts + subprocess fuzzing of every public entry point",
            "Theorems: Unmarshal never reaches a reflect operation outside its domain for any well-typed target; the JSON adapter never pops an empty stack on value tokens; the HTML walk runs to EOF; children[index+1:] and children[:index] are in bounds under the code's guards. "
            "Per run: handlers index only existing children, Exec recovers. Totality of the third-party and generated parsers on arbitrary bytes is fuzzed in a child process, not proved (partial clause).", "5 C15, 15", ""),
    "C16": ("Coq model of the JSON adapter state machine + theorem (adapter = README mapping) + correspondence on generated JSON texts",
            "Theorems (all JSON value lists, any nesting): the adapter's event stream is the documented #obj/#arr mapping; a token stream that stops inside a container ends in an error. Tie: ReadJson tree vs the mapping of the VALUE and vs the adapter model on the recorded tokens; truncations/mutations.", "5 C16, 15",
            " encoding/json's tokenizer is an oracle."),
    "C17": ("Coq model of the HTML adapter's DOM walk + mirror theorem + correspondence against x/net/html's DOM on generated tag soup",
            "Theorem: for every DOM that starts with the doctype the flag-driven walk emits exactly the events of the DOM (nothing skipped or duplicated), then EOF; attribute filtering lemmas. Tie: ReadHtml tree vs the walk model on html.Parse's DOM dumped by an independent recursive walk.", "5 C17, 15",
            " The HTML5 parsing algorithm itself is x/net/html (oracle)."),
    "C18": ("Coq composition theorems + correspondence from every starting node and every split point",
            "Theorems: evaluating P followed by R is evaluating R from the result of P; a step over a node-set selects exactly the union of the step from each node; Exec seeds position 1 / size 1; P/f() is f in the context of P. Tie: correspondence incl. P/f() = f(P) after reverse axes.", "5 C18, 15", ""),
    "C19": ("Coq model of the reflection dispatch with explicit panics + no-panic theorem + correspondence on reflect.StructOf-generated target types",
            "Theorems: the dispatch never reaches a panicking reflect operation (all fuel, results, well-typed targets); tagged fields get converted results behind freshly allocated pointers, untagged fields are untouched, slices grow by one element per node; unsupported targets and wrong-shaped results are errors. "
            "Tie: complete target value after xsel.Unmarshal (descriptor derived by reflection) vs the model; pointer freshness checked directly.", "5 C19, 15",
            " reflect is modelled from its documentation."),
    "C20": ("Coq model of the CLI's records and file walk + theorems + byte-for-byte correspondence with the freshly built command on generated directory trees",
            "Theorems: number and shape of records per result/flag combination, single-line -m records, prefix rule, failing files print nothing and affect nothing else, directories need -r. Tie: stdout of the built command vs the model's records computed from the library's own results; -m records re-parsed and compared with the selected subtree.", "5 C20, 15",
            " OS, filesystem, mime tables and encoding/xml's encoder are observed, not proved."),
}

PENDING_REASON = "not claimed yet: the check for this property is still being built (see DESIGN.md 12); no technique other than Coq proof is substituted"


def main():
    claimed = [l.strip() for l in open(os.path.join(VERIF, "tools", "claimed.txt")) if l.strip() and not l.startswith("#")]
    checks, na = [], []
    for pid in sorted(CHECKS):
        tech, text, ref, extra = CHECKS[pid]
        if pid not in claimed:
            na.append({"property_id": pid, "reason": PENDING_REASON})
            continue
        checks.append({
            "property_id": pid,
            "quick_cmd": "python3 run.py check %s --tier quick" % pid,
            "thorough_cmd": "python3 run.py check %s --tier thorough" % pid,
            "evidence_file": "/verif/evidence/%s.json" % pid,
            "replay_cmd_template": "python3 run.py replay {path}",
            "engine": "coq-proof+correspondence",
            "level_claimed": {"category": "proof", "text": text, "design_ref": ref},
            "level_note": TB + extra,
            "technique": tech,
        })
    man = {
        "version": 1,
        "setup_cmd": "python3 run.py setup",
        "hooks": {
            "guard": "verif",
            "enable": "go build -tags verif (set by run.py when it builds the harness against /repo's working tree)",
            "baseline_off_cmd": "cd /repo && GOFLAGS=-mod=mod GOPROXY=off GOSUMDB=off GOTOOLCHAIN=local go test -vet=off -count=1 ./...",
            "source_commits": [l.strip() for l in open(os.path.join(VERIF, "tools", "hook_commits.txt")) if l.strip()] if os.path.exists(os.path.join(VERIF, "tools", "hook_commits.txt")) else [],
            "add_only": True,
        },
        "engines": [{
            "name": "coq-proof+correspondence", "path": "/verif/run.py",
            "serves_properties": claimed,
            "kind_free_text": "Coq 8.16 development (coq/), per-run translator (tools/facts.py) re-proved by coqc, OCaml-extracted model (ocaml/) run against the Go implementation by a Go harness (harness/), vm_compute cross-check of the extraction",
        }],
        "checks": checks,
        "notes": "All checks are machine-checked proof in Coq about a model, tied to /repo's current working tree on every run (DESIGN.md 2).",
        "not_applicable": na,
    }
    json.dump(man, open(os.path.join(VERIF, "MANIFEST.json"), "w"), indent=1)
    print("claimed:", claimed)


if __name__ == "__main__":
    main()
