#!/usr/bin/env python3
"""Writes /verif/MANIFEST.json from the table below (kept valid at all times)."""
import json
import os

VERIF = os.path.dirname(os.path.dirname(os.path.abspath(__file__)))

TB = ("Trusted: Coq 8.16.1 kernel incl. vm_compute (no native_compute); no axioms (Print Assumptions parsed on every run); "
      "ExtrOcamlBasic extraction + OCaml 4.13.1; hand-written glue (ocaml/driver.ml, harness/*.go, run.py, tools/*.py). "
      "The Go code is tied to the model by regenerated facts (re-proved per run) and by differential correspondence on generated inputs only.")

# id -> (technique, level text, design_ref, note-extra)
CHECKS = {
    "C01": ("Coq theorems on the axis/node-test model + differential correspondence (every node x 13 axes x 14 node tests per document)",
            "Theorems: the selectors of the model compute exactly the declarative XPath axis relations on node paths (partition, converses, root clauses); "
            "the model is tied to exec/axisselectors.go and contextfn_paths.go by per-run facts (axis switch, implicit-child list, absolute-path handlers) and by exhaustive-per-document correspondence.", "5 C01", ""),
    "C02": ("Coq theorems on the predicate evaluator + correspondence + metamorphic identities",
            "Theorems: [n] is [position()=n]; last() is the number of candidates that reached the predicate; successive predicates renumber; results are order-preserving sub-sequences; filter expressions number in document order. "
            "Tie: facts (handlers for filter paths registered) + correspondence over predicate-bearing paths.", "5 C02", ""),
    "C03": ("Coq theorems on sort-by-Pos/dedup and union + correspondence + direct invariant checks on every returned node-set",
            "Theorems (all inputs): every step/union/filter result is strictly monotone in Pos (so duplicate-free, never mixed); union is commutative, associative, idempotent as list equality. "
            "Tie: correspondence of node-set valued expressions; invariants also checked directly on the implementation's output in true document order.", "5 C03", ""),
    "C04": ("Coq theorems on the conversion functions (SpecFloat doubles, code-point strings) + correspondence by double/string class",
            "Theorems: string-value, number/boolean/string conversions incl. the XPath Number grammar, special values, read-back of number rendering. Tie: facts (string/number/boolean/not registered) + correspondence.", "5 C04", ""),
    "C05": ("Coq theorems on the comparison cascade + correspondence over operand type pairs",
            "Theorems: existential semantics, NaN, empty node-sets, L<R iff R>L, symmetry of = and !=, witness that = and != can both hold. Tie: correspondence (4x4 types x 6 operators x both orders).", "5 C05", ""),
    "C06": ("Coq theorems on floor/ceiling/round/mod/sum over exact dyadic arithmetic + correspondence by double class",
            "Theorems: floor/round characterisations on exact values, fmod division identity and sign, sum without truncation, count; refutation lemma for the known negative-tie rounding. Tie: facts + correspondence on result bit patterns.", "5 C06", ""),
    "C07": ("Coq theorems on the string functions over code-point lists + correspondence over a Unicode pool",
            "Theorems: contains/starts-with/substring-before/after decompositions, substring by IEEE comparisons, normalize-space, translate, string-length = number of characters. Tie: facts (functions registered) + correspondence.", "5 C07", ""),
    "C08": ("per-run regenerated grammar/handler facts proved by coqc + render/parse correspondence of generated ASTs and malformed strings",
            "Per run: grammar text = generated parser tables; every production with two or more nonterminal children has a handler (nothing silently dropped); handlers index only children that exist; core library registered. "
            "Correspondence: every generated AST under minimal/redundant parentheses and arbitrary legal whitespace must compile and evaluate like the model of the AST; mutated strings must be rejected or evaluate like a model AST.", "5 C08",
            " gogll's generation of parser.go/lexer.go from the grammar is trusted and exercised, not proved."),
    "C09": ("Coq model of the XML adapter over encoding/xml tokens + theorems + correspondence on generated XML texts",
            "Theorems about the adapter model (namespace declarations vs attributes, character-data merging, XML declaration skipped) composed with the store model; tie: correspondence on serialisations of abstract documents and malformed texts.", "5 C09",
            " encoding/xml (bytes to tokens) is an oracle whose token stream is recorded by the harness."),
    "C10": ("Coq invariant proof over the store's event consumer + correspondence on scripted parser streams + 10^6-event stack probe",
            "Theorems (all conforming streams): Pos is strictly increasing in document order (unique; 0 only at the root; element < namespaces < attributes < children), every element owns its namespace nodes. "
            "Tie: fact 'createInMemory is a loop' + full-tree dump correspondence incl. every Pos() and Parent() identity. Stack use of the real goroutine is measured (partial clause).", "5 C10", ""),
    "C11": ("Coq theorems on name resolution + correspondence under varied binding environments and instrumented user functions",
            "Theorems: variables return exactly the bound value, user functions take precedence over builtins and receive the evaluated arguments and context, unbound references are errors, name tests use only the query's bindings; renaming invariance. Tie: correspondence.", "5 C11", ""),
    "C12": ("Coq theorems on name()/local-name()/namespace-uri()/lang()/count() + correspondence from every node",
            "Theorems: lang matching is ASCII-case-insensitive equality or prefix followed by '-'; name functions by node kind on the first node in document order. Tie: facts + correspondence.", "5 C12", ""),
    "C13": ("Coq slice/heap model with frame theorem over call histories + history correspondence with deep snapshots",
            "Theorems: operations that write only freshly allocated arrays leave every pre-existing array unchanged, for every history; determinism of the model. Tie: histories of Exec/Unmarshal over shared cursors, expressions and result slices with deep before/after snapshots.", "5 C13",
            " That the Go code performs no other writes rests on the snapshots, not on a Go semantics."),
    "C14": ("Coq interleaving theorem (read-only shared state) + race-detector stress and CLI -c N vs -c 1 comparison",
            "Theorem: for every interleaving, threads that do not write shared locations compute their solo results; CLI output is a permutation of intact per-file blocks. Runtime side (Go memory model, scheduler, write atomicity) is measured with -race builds: partial clause.", "5 C14", ""),
    "C15": ("Coq no-panic theorems for the index arithmetic of the model + per-run facts + malformed-input streams through every public entry point",
            "Theorems: slice/index primitives of the modelled code never leave their domain; per run: handlers only index existing children, Exec recovers. Fuzz streams (subprocess-observed) for the third-party/generated parsers: partial clause.", "5 C15", ""),
    "C16": ("Coq model of the JSON adapter state machine + theorem (adapter = README mapping) + correspondence on generated JSON texts",
            "Theorem (all JSON values, any nesting): the adapter's event stream for the tokens of a value list is the documented #obj/#arr mapping; truncation is an error. Tie: correspondence incl. truncations/mutations.", "5 C16",
            " encoding/json's tokenizer is an oracle."),
    "C17": ("Coq model of the HTML adapter's DOM walk + theorem + correspondence against x/net/html's DOM on generated tag soup",
            "Theorem: the flag-driven walk emits exactly the events of the DOM (nothing skipped or duplicated). Tie: correspondence against an independent recursive walk of html.Parse's DOM.", "5 C17",
            " The HTML5 parsing algorithm itself is x/net/html (oracle)."),
    "C18": ("Coq composition theorems + correspondence from every starting node and every split point",
            "Theorems: evaluating P followed by R is evaluating R from the result of P; a step over a node-set is the cleaned union of the step from each node. Tie: correspondence incl. P/f() = f(P).", "5 C18", ""),
    "C19": ("Coq model of the reflection dispatch with explicit panics + no-panic theorem + correspondence on generated target types",
            "Theorems: the dispatch never reaches a panicking reflect operation; supported targets get converted values, unsupported ones an error. Tie: field values vs separate Exec calls on generated struct/slice types.", "5 C19",
            " reflect is modelled from its documentation."),
    "C20": ("Coq model of the CLI's record formatting + theorems + correspondence with the freshly built binary on generated directory trees",
            "Theorems: number and shape of records per result/flag combination, prefix rule. Tie: stdout of the binary vs records derived from the library API.", "5 C20",
            " OS, filesystem, mime tables and encoding/xml's encoder are observed, not proved."),
}

PENDING_REASON = "not claimed yet: the check for this property is still being built (see DESIGN.md 12); no technique other than Coq proof is substituted"


def main():
    claimed = [l.strip() for l in open(os.path.join(VERIF, "tools", "claimed.txt")) if l.strip() and not l.startswith("#")]
    checks, na = [], []
    for pid in sorted(CHECKS):
        tech, text, ref, extra = CHECKS[pid]
        if pid not in claimed:
            na.append({"property_id": pid, "reason": PENDING_REASON})
            continue
        checks.append({
            "property_id": pid,
            "quick_cmd": "python3 run.py check %s --tier quick" % pid,
            "thorough_cmd": "python3 run.py check %s --tier thorough" % pid,
            "evidence_file": "/verif/evidence/%s.json" % pid,
            "replay_cmd_template": "python3 run.py replay {path}",
            "engine": "coq-proof+correspondence",
            "level_claimed": {"category": "proof", "text": text, "design_ref": ref},
            "level_note": TB + extra,
            "technique": tech,
        })
    man = {
        "version": 1,
        "setup_cmd": "python3 run.py setup",
        "hooks": {
            "guard": "verif",
            "enable": "go build -tags verif (set by run.py when it builds the harness against /repo's working tree)",
            "baseline_off_cmd": "cd /repo && GOFLAGS=-mod=mod GOPROXY=off GOSUMDB=off GOTOOLCHAIN=local go test -vet=off -count=1 ./...",
            "source_commits": [l.strip() for l in open(os.path.join(VERIF, "tools", "hook_commits.txt")) if l.strip()] if os.path.exists(os.path.join(VERIF, "tools", "hook_commits.txt")) else [],
            "add_only": True,
        },
        "engines": [{
            "name": "coq-proof+correspondence", "path": "/verif/run.py",
            "serves_properties": claimed,
            "kind_free_text": "Coq 8.16 development (coq/), per-run translator (tools/facts.py) re-proved by coqc, OCaml-extracted model (ocaml/) run against the Go implementation by a Go harness (harness/), vm_compute cross-check of the extraction",
        }],
        "checks": checks,
        "notes": "All checks are machine-checked proof in Coq about a model, tied to /repo's current working tree on every run (DESIGN.md 2).",
        "not_applicable": na,
    }
    json.dump(man, open(os.path.join(VERIF, "MANIFEST.json"), "w"), indent=1)
    print("claimed:", claimed)


if __name__ == "__main__":
    main()
