"""The per-run translator (DESIGN 7): table-like parts of the source are re-derived from
the repository's current working tree and written as Coq definitions (Facts.v);
FactsCheck_Cnn.v is compiled by coqc on every run and proves, by computation over these
finite tables, the decidable side conditions the general theorems rest on."""
import glob
import os
import re
import subprocess


def cstr(s):
    return '"' + s.replace('"', '""') + '"'


def clist(items):
    return "[" + "; ".join(items) + "]"


def read(path):
    with open(path, encoding="utf-8") as f:
        return f.read()


def strip_comments(src):
    src = re.sub(r"/\*.*?\*/", "", src, flags=re.S)
    return re.sub(r"//[^\n]*", "", src)


# ---------- grammar ----------

def grammar_from_text(repo):
    """syntax rules (upper-case names) of grammar/xpath_grammar.txt: NT -> alternatives -> symbols"""
    text = read(os.path.join(repo, "grammar", "xpath_grammar.txt"))
    rules = []
    # a rule starts at a line beginning with an identifier followed by ':' and ends at the next ';' outside quotes
    i = 0
    n = len(text)
    for m in re.finditer(r"^([A-Za-z_]\w*)\s*:", text, re.M):
        if m.start() < i:
            continue
        name = m.group(1)
        j = m.end()
        body = []
        while j < n:
            c = text[j]
            if c == '"' or c == "'":
                k = j + 1
                while k < n and text[k] != c:
                    if text[k] == "\\":
                        k += 1
                    k += 1
                body.append(text[j:k + 1])
                j = k + 1
                continue
            if c == ";":
                break
            body.append(c)
            j += 1
        i = j + 1
        if not name[0].isupper():
            continue                    # lexical rule
        alts = []
        cur = []
        for tok in re.findall(r'"(?:[^"\\]|\\.)*"|\||[A-Za-z_]\w*', "".join(body)):
            if tok == "|":
                alts.append(cur)
                cur = []
            elif tok.startswith('"'):
                cur.append("T:" + tok[1:-1])
            elif tok[0].isupper():
                cur.append("N:" + tok)
            else:
                cur.append("T:" + tok)   # token class (ncname, digits, ...)
        alts.append(cur)
        rules.append((name, alts))
    return rules


def grammar_from_slots(repo):
    """the productions the generated parser really uses (slot.go), terminals named via symbols.go"""
    sym = read(os.path.join(repo, "grammar", "parser", "symbols", "symbols.go"))
    m = re.search(r"var tToString = \[\]string \{(.*?)\n\}", sym, re.S)
    tnames = re.findall(r'^\s*"((?:[^"\\]|\\.)*)",\s*/\* T_(\d+) \*/', m.group(1), re.M)
    tmap = {int(i): s.replace('\\"', '"').replace("\\\\", "\\") for s, i in tnames}
    slot = read(os.path.join(repo, "grammar", "parser", "slot", "slot.go"))
    prods = {}
    for m in re.finditer(r"symbols\.NT_(\w+),\s*(\d+),\s*(\d+),\s*symbols\.Symbols\{(.*?)\}", slot, re.S):
        nt, alt, pos, body = m.group(1), int(m.group(2)), int(m.group(3)), m.group(4)
        if pos != 0:
            continue
        syms = []
        for s in re.findall(r"symbols\.(NT_\w+|T_\d+)", body):
            if s.startswith("NT_"):
                syms.append("N:" + s[3:])
            else:
                syms.append("T:" + tmap[int(s[2:])])
        prods.setdefault(nt, {})[alt] = syms
    return [(nt, [alts[k] for k in sorted(alts)]) for nt, alts in prods.items()]


# ---------- evaluator tables ----------

def handler_table(repo):
    out = []
    for f in sorted(glob.glob(os.path.join(repo, "exec", "*.go"))):
        if f.endswith("_test.go"):
            continue
        src = strip_comments(read(f))
        out += re.findall(r"contextFunctions\[symbols\.NT_(\w+)\]\s*=\s*(\w+)", src)
    return out


def func_body(src, name):
    m = re.search(r"^func (?:\([^)]*\)\s*)?%s\(" % re.escape(name), src, re.M)
    if not m:
        return None
    i = src.index("{", m.end())
    depth, j = 0, i
    while j < len(src):
        if src[j] == "{":
            depth += 1
        elif src[j] == "}":
            depth -= 1
            if depth == 0:
                return src[i:j + 1]
        j += 1
    return None


def builtin_table(repo):
    src = strip_comments(read(os.path.join(repo, "exec", "function.go")))
    m = re.search(r"var builtinFunctions = map\[XmlName\]Function\{(.*?)\n\}", src, re.S)
    entries = re.findall(r'\{"([^"]*)",\s*"([^"]+)"\}:\s*(\w+)(\.build\(\))?', m.group(1))
    overloads = {}
    for name, body in re.findall(r"var (\w+) = overloadHelper\{(.*?)\}", src, re.S):
        overloads[name] = [int(x) for x in re.findall(r"(\d+)\s*:", body)]
    out = []
    for space, local, fn, build in entries:
        if build:
            ar = overloads.get(fn, [])
        else:
            body = func_body(src, fn) or ""
            # "len(args) != k" guards
            ks = [int(x) for x in re.findall(r"len\(args\)\s*!=\s*(\d+)", body)]
            ar = sorted(set(ks))
        out.append((space, local, ar))
    return out


def axis_switch(repo):
    src = strip_comments(read(os.path.join(repo, "exec", "contextfn_paths.go")))
    body = func_body(src, "execAxisName") or ""
    return re.findall(r'case "([\w-]+)":\s*result = (\w+)\(nodeSet\)', body)


def implicit_child(repo):
    src = strip_comments(read(os.path.join(repo, "exec", "contextfn_paths.go")))
    body = func_body(src, "execStep") or ""
    m = re.search(r"case ((?:symbols\.NT_\w+,?\s*)+):\s*implicitChild = true", body)
    if not m:
        m = re.search(r"case ((?:symbols\.NT_\w+,?\s*)+):\s*nodeSet, ok", body)
    if not m:
        return []
    return re.findall(r"NT_(\w+)", m.group(1))


def store_self_calls(repo):
    src = strip_comments(read(os.path.join(repo, "store", "inmemory.go")))
    body = func_body(src, "createInMemory") or ""
    return len(re.findall(r"\bcreateInMemory\(", body))


def recover_sites(repo):
    src = strip_comments(read(os.path.join(repo, "exec", "exec.go")))
    body = func_body(src, "execRecover") or ""
    return len(re.findall(r"recover\(\)", body))


def slice_sites(repo, scratch):
    """append / sort.Sort sites of exec/ with the freshness class of their operand (tools/slicefacts, go/ast)"""
    here = os.path.dirname(os.path.abspath(__file__))
    exe = os.path.join(scratch, "slicefacts")
    env = dict(os.environ, GOFLAGS="-mod=mod", GOPROXY="off", GOSUMDB="off", GOTOOLCHAIN="local")
    if not os.path.exists(exe):
        subprocess.run(["go", "build", "-o", exe, "."], cwd=os.path.join(here, "slicefacts"), env=env, check=True,
                       stdout=subprocess.PIPE, stderr=subprocess.STDOUT)
    out = subprocess.run([exe, os.path.join(repo, "exec")], stdout=subprocess.PIPE, stderr=subprocess.STDOUT, text=True, check=True).stdout
    sites = []
    for line in out.splitlines():
        f = line.split()
        if len(f) == 4:
            sites.append((f[0] + " " + f[1], f[2], f[3] == "fresh"))
    return sites


GLOBAL_PKGS = ["", "exec", "store", "parser", "node", "grammar"]   # hand-written packages (grammar: grammar.go only, not the generated sub-packages)


def global_write_sites(repo, scratch):
    """writes to package-level state outside init() in the library packages (tools/globalfacts, go/ast)"""
    here = os.path.dirname(os.path.abspath(__file__))
    exe = os.path.join(scratch, "globalfacts")
    env = dict(os.environ, GOFLAGS="-mod=mod", GOPROXY="off", GOSUMDB="off", GOTOOLCHAIN="local")
    if not os.path.exists(exe):
        subprocess.run(["go", "build", "-o", exe, "."], cwd=os.path.join(here, "globalfacts"), env=env, check=True,
                       stdout=subprocess.PIPE, stderr=subprocess.STDOUT)
    dirs = [os.path.join(repo, d) if d else repo for d in GLOBAL_PKGS]
    dirs = [d for d in dirs if os.path.isdir(d)]
    out = subprocess.run([exe] + dirs, stdout=subprocess.PIPE, stderr=subprocess.STDOUT, text=True, check=True).stdout
    sites = []
    for line in out.splitlines():
        f = line.split()
        if len(f) == 4:
            sites.append((f[0] + " " + f[1], f[2] + " " + f[3]))
    return len(dirs), sites


def cli_facts(repo):
    """stdout write sites of the CLI worker and its flags"""
    src = strip_comments(read(os.path.join(repo, "xsel", "xsel.go")))
    body = func_body(src, "executeXpath") or ""
    prints = len(re.findall(r"fmt\.Print(?:f|ln)?\(", body)) + len(re.findall(r"os\.Stdout", body))
    other = 0
    for fn in ("writeResult", "writeXmlResult", "runXpathOnFile", "runXpathOnStdin", "walker"):
        b = func_body(src, fn) or ""
        other += len(re.findall(r"fmt\.Print(?:f|ln)?\(", b)) + len(re.findall(r"os\.Stdout", b))
    flags = re.findall(r'flag\.(?:Int|Bool|String)\("(\w+)"', src) + re.findall(r'flag\.Var\(\w+, "(\w+)"', src)
    return {"worker_stdout_writes": prints, "other_stdout_writes": other, "flags": sorted(flags)}


def gather(repo, scratch=None):
    extra = {}
    if scratch is not None:
        extra["slice_sites"] = slice_sites(repo, scratch)
        extra["global_pkgs"], extra["global_write_sites"] = global_write_sites(repo, scratch)
    extra["cli"] = cli_facts(repo)
    return dict(extra, **{
        "g_text": grammar_from_text(repo),
        "g_slots": grammar_from_slots(repo),
        "handlers": handler_table(repo),
        "builtins": builtin_table(repo),
        "axes": axis_switch(repo),
        "implicit_child": implicit_child(repo),
        "store_self_calls": store_self_calls(repo),
        "recover_sites": recover_sites(repo),
    })


def coq_grammar(g):
    return clist(["(%s, %s)" % (cstr(nt), clist([clist([cstr(s) for s in alt]) for alt in alts])) for nt, alts in g])


def write_facts(facts, path, extra=""):
    with open(path, "w", encoding="utf-8") as f:
        f.write("(* regenerated from the repository's working tree on every run by tools/facts.py *)\n")
        f.write("From Coq Require Import String List.\nImport ListNotations.\nLocal Open Scope string_scope.\n")
        f.write("Definition g_text : list (string * list (list string)) :=\n %s.\n" % coq_grammar(facts["g_text"]))
        f.write("Definition g_slots : list (string * list (list string)) :=\n %s.\n" % coq_grammar(facts["g_slots"]))
        f.write("Definition handlers : list (string * string) :=\n %s.\n" % clist(["(%s, %s)" % (cstr(a), cstr(b)) for a, b in facts["handlers"]]))
        f.write("Definition builtins : list (string * string * list nat) :=\n %s.\n" % clist(
            ["(%s, %s, %s)" % (cstr(a), cstr(b), clist([str(k) for k in ar])) for a, b, ar in facts["builtins"]]))
        f.write("Definition axis_switch : list (string * string) :=\n %s.\n" % clist(["(%s, %s)" % (cstr(a), cstr(b)) for a, b in facts["axes"]]))
        f.write("Definition implicit_child : list string :=\n %s.\n" % clist([cstr(a) for a in facts["implicit_child"]]))
        f.write("Definition store_self_calls : nat := %d.\n" % facts["store_self_calls"])
        f.write("Definition recover_sites : nat := %d.\n" % facts["recover_sites"])
        f.write("Definition slice_sites : list (string * string * bool) :=\n %s.\n" % clist(
            ["(%s, %s, %s)" % (cstr(a), cstr(b), "true" if c else "false") for a, b, c in facts.get("slice_sites", [])]))
        f.write("Definition global_pkgs : nat := %d.\nDefinition global_write_sites : list (string * string) :=\n %s.\n" % (
            facts.get("global_pkgs", 0), clist(["(%s, %s)" % (cstr(a), cstr(b)) for a, b in facts.get("global_write_sites", [])])))
        f.write("Definition cli_worker_stdout_writes : nat := %d.\nDefinition cli_other_stdout_writes : nat := %d.\n" % (
            facts["cli"]["worker_stdout_writes"], facts["cli"]["other_stdout_writes"]))
        f.write("Definition cli_flags : list string :=\n %s.\n" % clist([cstr(x) for x in facts["cli"]["flags"]]))
        f.write(extra)


CHECKS = {
    # property -> list of (lemma name, Coq boolean expression over the facts)
    "C01": [("axis_switch_ok", "check_axis_switch axis_switch"),
            ("implicit_child_ok", "check_implicit_child g_slots implicit_child"),
            ("absolute_paths_handled", "check_handled handlers [\"AbsoluteLocationPathOnly\"; \"AbsoluteLocationPathWithRelative\"; \"AbbreviatedAbsoluteLocationPath\"]")],
    "C02": [("filter_paths_handled", "check_handled handlers [\"Predicate\"; \"FilterExprWithPredicate\"; \"PathExprFilterWithPath\"; \"PathExprFilterWithAbbreviatedPath\"]"),
            ("position_last_registered", "check_builtins builtins [\"position\"; \"last\"]")],
    "C04": [("conversion_functions_registered", "check_builtins builtins [\"string\"; \"number\"; \"boolean\"; \"not\"]")],
    "C06": [("numeric_functions_registered", "check_builtins builtins [\"sum\"; \"count\"; \"floor\"; \"ceiling\"; \"round\"]")],
    "C07": [("string_functions_registered", "check_builtins builtins [\"concat\"; \"starts-with\"; \"contains\"; \"substring-before\"; \"substring-after\"; \"substring\"; \"string-length\"; \"normalize-space\"; \"translate\"]")],
    "C08": [("grammar_text_is_parser_tables", "grammar_eqb g_text g_slots"),
            ("nothing_silently_dropped", "check_no_dropped g_slots handlers"),
            ("binary_handlers_have_two_children", "check_two_children g_slots handlers"),
            ("core_library_registered", "check_builtins builtins xpath_core_library")],
    "C10": [("store_is_a_loop", "Nat.eqb store_self_calls 0")],
    "C12": [("node_functions_registered", "check_builtins builtins [\"name\"; \"local-name\"; \"namespace-uri\"; \"count\"; \"lang\"]")],
    "C13": [("every_append_and_sort_site_is_fresh", "check_slice_discipline slice_sites"),
            ("no_package_level_state_is_written", "check_no_global_writes global_pkgs global_write_sites")],
    "C14": [("every_append_and_sort_site_is_fresh", "check_slice_discipline slice_sites"),
            ("no_package_level_state_is_written", "check_no_global_writes global_pkgs global_write_sites"),
            ("one_stdout_write_per_file", "Nat.eqb cli_worker_stdout_writes 1 && Nat.eqb cli_other_stdout_writes 0")],
    "C15": [("binary_handlers_have_two_children", "check_two_children g_slots handlers"),
            ("exec_recovers", "Nat.eqb recover_sites 1")],
    "C20": [("one_stdout_write_per_file", "Nat.eqb cli_worker_stdout_writes 1 && Nat.eqb cli_other_stdout_writes 0"),
            ("flags_are_the_documented_ones", "strs_eqb cli_flags [\"a\"; \"c\"; \"e\"; \"m\"; \"n\"; \"r\"; \"s\"; \"t\"; \"u\"; \"v\"; \"x\"]")],
}


def check(prop, repo, scratch, coqdir):
    checks = CHECKS.get(prop, [])
    if not checks:
        return {"obligations": 0, "discharged": 0, "summary": "no regenerated facts for this property", "broken": ""}
    try:
        facts = gather(repo, scratch)
    except Exception as e:
        return {"obligations": len(checks), "discharged": 0, "summary": "translator failed", "broken": "tools/facts.py could not read the source: %r" % (e,)}
    fdir = os.path.join(scratch, "facts")
    os.makedirs(fdir, exist_ok=True)
    write_facts(facts, os.path.join(fdir, "Facts.v"))
    p = subprocess.run("timeout 600 coqc -R %s XV -Q . XF Facts.v" % coqdir, shell=True, cwd=fdir, stdout=subprocess.PIPE, stderr=subprocess.STDOUT, text=True)
    if p.returncode != 0:
        return {"obligations": len(checks), "discharged": 0, "summary": "Facts.v does not compile", "broken": p.stdout[-1500:]}
    discharged, failed = 0, []
    for name, expr in checks:
        src = os.path.join(fdir, "FactsCheck_%s_%s.v" % (prop, name))
        with open(src, "w") as f:
            f.write("From Coq Require Import String List.\nImport ListNotations.\nFrom Coq Require Import Bool.\nFrom XV Require Import Syn.Expected.\nFrom XF Require Import Facts.\nLocal Open Scope string_scope.\nLocal Open Scope bool_scope.\n")
            f.write("Lemma %s : %s = true.\nProof. vm_compute. reflexivity. Qed.\n" % (name, expr))
        q = subprocess.run("timeout 600 coqc -R %s XV -Q . XF %s" % (coqdir, os.path.basename(src)), shell=True, cwd=fdir,
                           stdout=subprocess.PIPE, stderr=subprocess.STDOUT, text=True)
        if q.returncode == 0:
            discharged += 1
        else:
            failed.append("%s : %s = true does not hold of the current source" % (name, expr))
    return {"obligations": len(checks), "discharged": discharged,
            "summary": "facts regenerated from %s (%d productions from slot.go, %d handlers, %d builtins); FactsCheck lemmas %d/%d proved by coqc" % (
                repo, sum(len(a) for _, a in facts["g_slots"]), len(facts["handlers"]), len(facts["builtins"]), discharged, len(checks)),
            "broken": "; ".join(failed)}


if __name__ == "__main__":
    import json
    import sys
    print(json.dumps(gather(sys.argv[1] if len(sys.argv) > 1 else "/repo"), indent=1, ensure_ascii=False)[:6000])
