#!/usr/bin/env python3
"""Runs the quick (or thorough) check of every claimed property, a few at a time, and prints one line each.
Development helper: evidence files are (re)written by the checks themselves."""
import subprocess, sys, os, concurrent.futures as cf
V = os.path.dirname(os.path.dirname(os.path.abspath(__file__)))
tier = sys.argv[1] if len(sys.argv) > 1 else "quick"
props = [l.strip() for l in open(os.path.join(V, "tools", "claimed.txt")) if l.strip()]
if len(sys.argv) > 2:
    props = sys.argv[2:]
def run(p):
    r = subprocess.run(["python3", os.path.join(V, "run.py"), "check", p, "--tier", tier], cwd=V, stdout=subprocess.PIPE, stderr=subprocess.STDOUT, text=True, errors="replace")
    lines = [l for l in r.stdout.splitlines() if not l.startswith("WARNING")]
    return p, r.returncode, lines
with cf.ThreadPoolExecutor(max_workers=4) as ex:
    for p, rc, lines in ex.map(run, props):
        print(p, "exit", rc, "|", " || ".join(l[:160] for l in lines[-3:]))
