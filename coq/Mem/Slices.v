(** Go slices over a heap of backing arrays (C13, C14): [append] writes IN PLACE when
    the capacity allows and allocates otherwise, [sort.Sort] permutes in place.
    The frame theorem: a history of operations that only write arrays allocated
    during the history leaves every array that existed before it unchanged — the
    caller's documents (the store's child lists), node-sets (including sub-slices
    with spare capacity) and bindings. The per-run translator (tools/slicefacts)
    proves of the current source that every append / sort site in exec/ operates on
    such a fresh slice. *)
From Coq Require Import List Arith Lia Sorting.Permutation.
Import ListNotations.

Definition heap := list (list nat).          (* array id = index; cells hold node positions *)

Record slice := Sl { s_arr : nat; s_off : nat; s_len : nat; s_cap : nat }.

Definition arr_of (h : heap) (a : nat) : list nat := nth a h [].

Definition contents (h : heap) (s : slice) : list nat := firstn (s_len s) (skipn (s_off s) (arr_of h (s_arr s))).

Fixpoint set_nth {A} (i : nat) (x : A) (l : list A) : list A :=
  match l, i with
  | [], _ => []
  | _ :: r, O => x :: r
  | y :: r, S k => y :: set_nth k x r
  end.

Definition write (h : heap) (a i x : nat) : heap := set_nth a (set_nth i x (arr_of h a)) h.

(** make([]T, 0, cap) *)
Definition go_make (h : heap) (cap : nat) : heap * slice :=
  (h ++ [repeat 0 cap], Sl (length h) 0 0 cap).

(** append(s, x): in place while len < cap, else a new array (doubled) *)
Definition go_append (h : heap) (s : slice) (x : nat) : heap * slice :=
  if Nat.ltb (s_len s) (s_cap s) then
    (write h (s_arr s) (s_off s + s_len s) x, Sl (s_arr s) (s_off s) (S (s_len s)) (s_cap s))
  else
    let c := 2 * s_cap s + 1 in
    (h ++ [contents h s ++ x :: repeat 0 (c - S (s_len s))], Sl (length h) 0 (S (s_len s)) c).

Fixpoint go_append_all (h : heap) (s : slice) (xs : list nat) : heap * slice :=
  match xs with
  | [] => (h, s)
  | x :: r => let '(h', s') := go_append h s x in go_append_all h' s' r
  end.

(** s[lo:hi] shares the array *)
Definition go_reslice (s : slice) (lo hi : nat) : slice := Sl (s_arr s) (s_off s + lo) (hi - lo) (s_cap s - lo).

Fixpoint insert_sorted (x : nat) (l : list nat) : list nat :=
  match l with [] => [x] | y :: r => if Nat.leb x y then x :: l else y :: insert_sorted x r end.
Definition sorted_of (l : list nat) : list nat := fold_right insert_sorted [] l.

(** sort.Sort on the slice: the cells off..off+len of its array are overwritten *)
Definition go_sort (h : heap) (s : slice) : heap :=
  let a := arr_of h (s_arr s) in
  set_nth (s_arr s) (firstn (s_off s) a ++ sorted_of (contents h s) ++ skipn (s_off s + s_len s) a) h.

(** ** operations of a query, by the array they WRITE *)
Inductive op :=
| OMake (cap : nat)
| OAppend (s : slice) (x : nat)
| OSort (s : slice).

Definition run_op (h : heap) (o : op) : heap :=
  match o with
  | OMake c => fst (go_make h c)
  | OAppend s x => fst (go_append h s x)
  | OSort s => go_sort h s
  end.

(** the discipline: writes go to arrays allocated after the boundary [n0] *)
Definition fresh_op (n0 : nat) (o : op) : Prop :=
  match o with
  | OMake _ => True
  | OAppend s _ => n0 <= s_arr s
  | OSort s => n0 <= s_arr s
  end.

(** ** the union operator as it was on the pinned tree, and as it is now *)
(** as-is: append the right operand onto the LEFT OPERAND'S slice, sort in place *)
Definition union_asis (h : heap) (l r : slice) : heap * slice :=
  let '(h1, s1) := go_append_all h l (contents h r) in (go_sort h1 s1, s1).

(** repaired: copy both operands into a fresh slice, then sort *)
Definition union_fixed (h : heap) (l r : slice) : heap * slice :=
  let '(h0, s0) := go_make h (s_len l + s_len r) in
  let '(h1, s1) := go_append_all h0 s0 (contents h l) in
  let '(h2, s2) := go_append_all h1 s1 (contents h r) in
  (go_sort h2 s2, s2).
