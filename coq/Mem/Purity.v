(** C13: the frame theorem over histories, the repaired union, the refutation of the
    union as it was on the pinned tree. *)
From Coq Require Import List Arith Lia.
From XV Require Import Mem.Slices.
Import ListNotations.

Lemma nth_set_nth_other {A} (a b : nat) (x d : A) l : a <> b -> nth a (set_nth b x l) d = nth a l d.
Proof.
  revert a b; induction l as [|y r IH]; intros a b H; [destruct b; reflexivity|].
  destruct b, a; simpl; try reflexivity; try congruence. apply IH. congruence.
Qed.

Lemma length_set_nth {A} i (x : A) l : length (set_nth i x l) = length l.
Proof. revert i; induction l as [|y r IH]; intros [|i]; simpl; auto. Qed.

Lemma arr_of_app_old h extra a : a < length h -> arr_of (h ++ extra) a = arr_of h a.
Proof. intros H. unfold arr_of. now rewrite app_nth1. Qed.

Lemma run_op_length h o : length h <= length (run_op h o).
Proof.
  destruct o as [c|s x|s]; simpl.
  - rewrite app_length. simpl. lia.
  - unfold go_append. destruct (Nat.ltb (s_len s) (s_cap s)); simpl.
    + unfold write. now rewrite length_set_nth.
    + rewrite app_length. simpl. lia.
  - unfold go_sort. now rewrite length_set_nth.
Qed.

(** one operation that writes a fresh array leaves the old arrays alone *)
Theorem frame_op n0 h o a : n0 <= length h -> fresh_op n0 o -> a < n0 -> arr_of (run_op h o) a = arr_of h a.
Proof.
  intros Hn Hf Ha. destruct o as [c|s x|s]; simpl in *.
  - apply arr_of_app_old. lia.
  - unfold go_append. destruct (Nat.ltb (s_len s) (s_cap s)); simpl.
    + unfold write, arr_of. apply nth_set_nth_other. lia.
    + apply arr_of_app_old. lia.
  - unfold go_sort, arr_of. apply nth_set_nth_other. lia.
Qed.

(** THE frame theorem: any history of operations obeying the discipline *)
Theorem frame_history n0 ops : forall h, n0 <= length h -> Forall (fresh_op n0) ops ->
  forall a, a < n0 -> arr_of (fold_left run_op ops h) a = arr_of h a.
Proof.
  induction ops as [|o ops IH]; intros h Hn Hf a Ha; [reflexivity|].
  inversion Hf as [|? ? Ho Hops]; subst. simpl.
  rewrite IH; auto.
  - now apply (frame_op n0).
  - pose proof (run_op_length h o). lia.
Qed.

(** so every slice the caller held before the history still has its contents and order *)
Corollary callers_slices_unchanged n0 ops h s : n0 <= length h -> Forall (fresh_op n0) ops ->
  s_arr s < n0 -> contents (fold_left run_op ops h) s = contents h s.
Proof. intros Hn Hf Hs. unfold contents. now rewrite (frame_history n0 ops h Hn Hf). Qed.

(** ** the repaired union writes only arrays it allocated *)
Lemma go_append_frame n0 h s x : n0 <= length h -> n0 <= s_arr s -> s_arr s < length h ->
  let '(h', s') := go_append h s x in
  (forall a, a < n0 -> arr_of h' a = arr_of h a) /\ n0 <= s_arr s' /\ s_arr s' < length h' /\ length h <= length h'.
Proof.
  intros Hn Hs Hl. unfold go_append. destruct (Nat.ltb (s_len s) (s_cap s)); simpl.
  - repeat split; auto.
    + intros a Ha. unfold write, arr_of. apply nth_set_nth_other. lia.
    + unfold write. now rewrite length_set_nth.
    + unfold write. rewrite length_set_nth. lia.
  - repeat split; try (rewrite app_length; simpl; lia); try lia.
    intros a Ha. apply arr_of_app_old. lia.
Qed.

Lemma go_append_all_frame n0 xs : forall h s, n0 <= length h -> n0 <= s_arr s -> s_arr s < length h ->
  let '(h', s') := go_append_all h s xs in
  (forall a, a < n0 -> arr_of h' a = arr_of h a) /\ n0 <= s_arr s' /\ s_arr s' < length h' /\ length h <= length h'.
Proof.
  induction xs as [|x xs IH]; intros h s Hn Hs Hl; simpl.
  - repeat split; auto.
  - pose proof (go_append_frame n0 h s x Hn Hs Hl) as H1.
    destruct (go_append h s x) as [h1 s1]. destruct H1 as (F1 & A1 & B1 & C1).
    assert (Hn1 : n0 <= length h1) by lia.
    pose proof (IH h1 s1 Hn1 A1 B1) as H2. destruct (go_append_all h1 s1 xs) as [h2 s2].
    destruct H2 as (F2 & A2 & B2 & C2). repeat split; auto; try lia.
    intros a Ha. rewrite F2, F1; auto.
Qed.

Theorem union_fixed_frame h l r a : a < length h -> arr_of (fst (union_fixed h l r)) a = arr_of h a.
Proof.
  intros Ha. unfold union_fixed.
  set (n0 := length h).
  assert (H0 : let '(h0, s0) := go_make h (s_len l + s_len r) in
               (forall a, a < n0 -> arr_of h0 a = arr_of h a) /\ n0 <= s_arr s0 /\ s_arr s0 < length h0 /\ n0 <= length h0).
  { simpl. repeat split; try (rewrite app_length; simpl); try lia. intros b Hb. apply arr_of_app_old. exact Hb. }
  destruct (go_make h (s_len l + s_len r)) as [h0 s0]. destruct H0 as (F0 & A0 & B0 & C0).
  pose proof (go_append_all_frame n0 (contents h l) h0 s0 C0 A0 B0) as H1.
  destruct (go_append_all h0 s0 (contents h l)) as [h1 s1]. destruct H1 as (F1 & A1 & B1 & C1).
  assert (Hn1 : n0 <= length h1) by lia.
  pose proof (go_append_all_frame n0 (contents h r) h1 s1 Hn1 A1 B1) as H2.
  destruct (go_append_all h1 s1 (contents h r)) as [h2 s2]. destruct H2 as (F2 & A2 & B2 & C2).
  simpl. unfold go_sort, arr_of. rewrite nth_set_nth_other by (unfold n0 in *; lia).
  fold (arr_of h2 a). rewrite F2, F1, F0; auto.
Qed.

(** ** the union as it was: the caller's node-set is overwritten and re-ordered when the
    left operand has spare capacity *)
Theorem union_asis_refuted :
  exists h l r caller, contents (fst (union_asis h l r)) caller <> contents h caller.
Proof.
  (* one array [1;5;9;7]; the caller holds all four nodes; the left operand is its
     first two cells with capacity 4; the right operand is [3] *)
  exists [[1; 5; 9; 7]; [3]], (Sl 0 0 2 4), (Sl 1 0 1 1), (Sl 0 0 4 4).
  vm_compute. discriminate.
Qed.

Example union_asis_witness :
  contents (fst (union_asis [[1; 5; 9; 7]; [3]] (Sl 0 0 2 4) (Sl 1 0 1 1))) (Sl 0 0 4 4) = [1; 3; 5; 7] /\
  contents (fst (union_fixed [[1; 5; 9; 7]; [3]] (Sl 0 0 2 4) (Sl 1 0 1 1))) (Sl 0 0 4 4) = [1; 5; 9; 7] /\
  contents (fst (union_fixed [[1; 5; 9; 7]; [3]] (Sl 0 0 2 4) (Sl 1 0 1 1))) (snd (union_fixed [[1; 5; 9; 7]; [3]] (Sl 0 0 2 4) (Sl 1 0 1 1))) = [1; 3; 5].
Proof. vm_compute. repeat split. Qed.

(** in-place filtering of a slice obtained from somebody else (s[:0] then append) is
    exactly what the discipline forbids: it overwrites the owner's cells *)
Example inplace_filter_overwrites_owner :
  let h := [[3; 6; 9]] in                                (* an element's children *)
  let kept := go_reslice (Sl 0 0 3 3) 0 0 in             (* nodeSet[:0] *)
  arr_of (fst (go_append h kept 6)) 0 = [6; 6; 9].
Proof. vm_compute. reflexivity. Qed.
