(** C15: Go slice expressions and indexing panic outside their bounds. The index
    arithmetic of the axis helpers (exec/axisselectors.go: [children[index+1:]],
    [children[:index]] with [index = childIndex(cursor)] in [-1, len)), of
    unmarshalStruct ([cursor[0]] after [len(cursor) == 1]) and of the predicate filter
    stays inside the bounds under exactly the guards the code establishes. *)
From Coq Require Import List ZArith Lia Bool.
Import ListNotations.
Local Open Scope Z_scope.
Local Open Scope bool_scope.

Inductive gores (A : Type) := GoOk (a : A) | GoPanic.
Arguments GoOk {A} a.
Arguments GoPanic {A}.

(** s[lo:hi]: panics unless 0 <= lo <= hi <= len(s) (cap = len here) *)
Definition go_slice {A} (s : list A) (lo hi : Z) : gores (list A) :=
  if (0 <=? lo) && (lo <=? hi) && (hi <=? Z.of_nat (length s))
  then GoOk (firstn (Z.to_nat (hi - lo)) (skipn (Z.to_nat lo) s))
  else GoPanic.

(** s[i] *)
Definition go_index {A} (s : list A) (i : Z) : gores A :=
  if (0 <=? i) && (i <? Z.of_nat (length s))
  then match nth_error s (Z.to_nat i) with Some a => GoOk a | None => GoPanic end
  else GoPanic.

(** childIndex: the index of the cursor among its parent's children, or -1 *)
Definition child_index_range (idx : Z) (n : nat) : Prop := idx = -1 \/ (0 <= idx < Z.of_nat n).

(** appendFollowing / appendFollowingSibling: children[index+1:] — safe for every index
    childIndex can return, including -1 (attributes and namespace nodes) *)
Theorem following_slice_safe {A} (children : list A) idx :
  child_index_range idx (length children) ->
  go_slice children (idx + 1) (Z.of_nat (length children)) <> GoPanic.
Proof.
  intros H. unfold go_slice.
  replace ((0 <=? idx + 1) && (idx + 1 <=? Z.of_nat (length children)) && (Z.of_nat (length children) <=? Z.of_nat (length children))) with true; [discriminate|].
  symmetry. rewrite !Bool.andb_true_iff, !Z.leb_le. unfold child_index_range in H. lia.
Qed.

(** appendPrecedingSibling: guarded by [index < 0 -> return]; appendPreceding: by [index > 0] *)
Theorem preceding_slice_safe {A} (children : list A) idx :
  child_index_range idx (length children) -> 0 <= idx ->
  go_slice children 0 idx <> GoPanic.
Proof.
  intros [->|H] H0; [lia|]. unfold go_slice.
  replace ((0 <=? 0) && (0 <=? idx) && (idx <=? Z.of_nat (length children))) with true; [discriminate|].
  symmetry. rewrite !Bool.andb_true_iff, !Z.leb_le. lia.
Qed.

(** without the guard the slice expression panics for attributes and namespace nodes:
    what the guard is for *)
Theorem preceding_slice_unguarded_panics {A} (children : list A) : go_slice children 0 (-1) = GoPanic.
Proof. reflexivity. Qed.

(** unmarshalStruct: cursor[0] after the check len(cursor) == 1 *)
Theorem first_of_singleton_safe {A} (s : list A) : length s = 1%nat -> go_index s 0 <> GoPanic.
Proof. destruct s as [|a [|b r]]; simpl; intros H; try discriminate. Qed.

(** execPredicate: nodeSet[i] for i ranging over the indices of nodeSet *)
Theorem range_index_safe {A} (s : list A) (i : nat) : (i < length s)%nat -> go_index s (Z.of_nat i) <> GoPanic.
Proof.
  intros H. unfold go_index.
  replace ((0 <=? Z.of_nat i) && (Z.of_nat i <? Z.of_nat (length s))) with true.
  - rewrite Nat2Z.id. destruct (nth_error s i) eqn:E; [discriminate|]. apply nth_error_None in E. lia.
  - symmetry. rewrite Bool.andb_true_iff, Z.leb_le, Z.ltb_lt. lia.
Qed.
