(** C14: threads that never write shared locations (the C13 discipline) compute their
    solo results under EVERY interleaving, leave the shared state as it was, and no
    pair of conflicting accesses exists; the CLI's output under -c N is the
    concatenation of the per-file blocks in completion order. The Go memory model,
    the scheduler and the atomicity of one write(2) are runtime facts outside this
    model (partial clause; measured with the race detector). *)
From Coq Require Import List Arith Lia Sorting.Permutation.
From XV Require Import Mem.Slices.
Import ListNotations.

(** ** threads over a shared store *)
Inductive action :=
| ARead (loc : nat)                 (* read a shared cell into the thread's log *)
| AWrite (loc val : nat)            (* write a shared cell *)
| ALocal (k : nat).                 (* anything on thread-private state: recorded as k *)

Definition thread := list action.

Record tstate := TS { t_todo : thread; t_log : list nat }.   (* what the thread observed / computed *)

(** one action of one thread *)
Definition step (shared : list nat) (t : tstate) : list nat * tstate :=
  match t_todo t with
  | [] => (shared, t)
  | ARead l :: r => (shared, TS r (t_log t ++ [nth l shared 0]))
  | AWrite l v :: r => (set_nth l v shared, TS r (t_log t))
  | ALocal k :: r => (shared, TS r (t_log t ++ [k]))
  end.

(** a schedule names the thread that moves next *)
Fixpoint run (sched : list nat) (shared : list nat) (ts : list tstate) : list nat * list tstate :=
  match sched with
  | [] => (shared, ts)
  | i :: rest =>
      match nth_error ts i with
      | None => run rest shared ts
      | Some t => let '(sh', t') := step shared t in run rest sh' (set_nth i t' ts)
      end
  end.

Definition read_only (t : thread) : Prop := Forall (fun a => match a with AWrite _ _ => False | _ => True end) t.

(** what a thread logs when it runs alone, all the way, on the initial shared state *)
Fixpoint solo (shared : list nat) (t : thread) : list nat :=
  match t with
  | [] => []
  | ARead l :: r => nth l shared 0 :: solo shared r
  | AWrite _ _ :: r => solo shared r
  | ALocal k :: r => k :: solo shared r
  end.

(** the invariant: every thread's log followed by the solo log of what it still has to
    do is its complete solo log *)
Definition consistent (shared : list nat) (orig : list thread) (ts : list tstate) : Prop :=
  Forall2 (fun o t => read_only (t_todo t) /\ t_log t ++ solo shared (t_todo t) = solo shared o) orig ts.

Lemma Forall2_set_nth {A B} (R : A -> B -> Prop) l1 l2 i x y :
  Forall2 R l1 l2 -> nth_error l1 i = Some x -> R x y -> Forall2 R l1 (set_nth i y l2).
Proof.
  intros H. revert i. induction H as [|a b l1 l2 Hab Hl IH]; intros i Hx Hr; [destruct i; discriminate|].
  destruct i; simpl in *.
  - inversion Hx; subst. constructor; auto.
  - constructor; auto.
Qed.

Lemma Forall2_nth_error {A B} (R : A -> B -> Prop) l1 l2 i y :
  Forall2 R l1 l2 -> nth_error l2 i = Some y -> exists x, nth_error l1 i = Some x /\ R x y.
Proof.
  intros H. revert i. induction H as [|a b l1 l2 Hab Hl IH]; intros i Hy; [destruct i; discriminate|].
  destruct i; simpl in *; [inversion Hy; subst; eauto|auto].
Qed.

(** THE interleaving theorem: read-only threads, any schedule *)
Theorem interleaving_preserves_solo_results sched : forall shared orig ts,
  consistent shared orig ts ->
  let '(sh', ts') := run sched shared ts in sh' = shared /\ consistent shared orig ts'.
Proof.
  induction sched as [|i rest IH]; intros shared orig ts Hc; simpl; [auto|].
  destruct (nth_error ts i) as [t|] eqn:Et; [|apply IH; exact Hc].
  destruct (Forall2_nth_error _ _ _ _ _ Hc Et) as (o & Ho & Hro & Hlog).
  unfold step. destruct (t_todo t) as [|a r] eqn:Etodo.
  - assert (E : set_nth i t ts = ts).
    { clear - Et. revert i Et. induction ts as [|x ts IHt]; intros [|i] E; simpl in *; try discriminate; auto.
      - now inversion E.
      - f_equal. now apply IHt. }
    rewrite E. apply IH. exact Hc.
  - inversion Hro as [|? ? Ha Hr]; subst. destruct a as [l|l v|k]; [| destruct Ha |].
    + apply IH. eapply Forall2_set_nth; eauto. simpl. split; [exact Hr|].
      rewrite <- Hlog. simpl. now rewrite <- app_assoc.
    + apply IH. eapply Forall2_set_nth; eauto. simpl. split; [exact Hr|].
      rewrite <- Hlog. simpl. now rewrite <- app_assoc.
Qed.

(** a thread that has finished has logged exactly its solo result *)
Corollary finished_thread_has_solo_result shared orig ts sched i t o :
  consistent shared orig ts ->
  nth_error (snd (run sched shared ts)) i = Some t -> nth_error orig i = Some o -> t_todo t = [] ->
  t_log t = solo shared o.
Proof.
  intros Hc Ht Ho Hdone. pose proof (interleaving_preserves_solo_results sched shared orig ts Hc) as H.
  destruct (run sched shared ts) as [sh' ts']. destruct H as [_ Hc']. simpl in Ht.
  destruct (Forall2_nth_error _ _ _ _ _ Hc' Ht) as (o' & Ho' & _ & Hlog).
  rewrite Ho in Ho'. inversion Ho'; subst. rewrite Hdone in Hlog. simpl in Hlog. now rewrite app_nil_r in Hlog.
Qed.

Lemma initial_consistent shared (orig : list thread) : Forall read_only orig ->
  consistent shared orig (map (fun t => TS t []) orig).
Proof. induction 1; simpl; constructor; auto. Qed.

(** a data race needs a write to a shared location: there is none *)
Definition conflicting (a b : action) : Prop :=
  match a, b with
  | AWrite l _, ARead l' | ARead l, AWrite l' _ | AWrite l _, AWrite l' _ => l = l'
  | _, _ => False
  end.

Theorem read_only_threads_have_no_conflicts t1 t2 a b :
  read_only t1 -> read_only t2 -> In a t1 -> In b t2 -> ~ conflicting a b.
Proof.
  intros H1 H2 Ha Hb. unfold read_only in *. rewrite Forall_forall in H1, H2.
  specialize (H1 a Ha). specialize (H2 b Hb). destruct a, b; simpl; auto.
Qed.

(** ** the CLI under -c N: each worker builds its file's block and prints it with one
    write; the output is the blocks in completion order *)
Definition cli_output {A} (block : A -> list nat) (completion_order : list A) : list nat :=
  concat (map block completion_order).

Theorem cli_output_is_blocks_in_some_order {A} (block : A -> list nat) files order :
  Permutation files order ->
  cli_output block order = concat (map block order) /\
  Permutation (map block files) (map block order).
Proof. intros H. split; [reflexivity|now apply Permutation_map]. Qed.

(** each block is contiguous and intact in the output *)
Theorem cli_blocks_contiguous {A} (block : A -> list nat) pre f post :
  cli_output block (pre ++ f :: post) = cli_output block pre ++ block f ++ cli_output block post.
Proof. unfold cli_output. rewrite map_app, concat_app. reflexivity. Qed.
