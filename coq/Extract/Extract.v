(** Extraction of the executable model to OCaml for the correspondence check.
    Only the ExtrOcamlBasic directives are used; nat/N/Z/positive stay Coq datatypes. *)
From Coq Require Import Extraction ExtrOcamlBasic.
From XV Require Import Base.Str Base.Num Doc.Tree Doc.Store Xp.Ast Xp.Nav Xp.Axes Xp.Values Xp.Funcs Xp.Eval Ad.JsonAdapter Ad.XmlAdapter Ad.XmlThm Ad.HtmlAdapter Unm.Unmarshal Cli.Cli Syn.Parse Syn.Render Syn.LexThm Syn.LexMin.
Extraction Language OCaml.
Extraction "xmodel.ml" build exec num_to_str str_to_num f_of_bits bits_of_f num_string_ok
  lookup string_value pos_of select path_ltb Z.add Z.mul Z.of_nat
  read_json_result json_spec_tree read_xml dm_list read_html unmarshal_top cli_stdout parse_string parse_string_readings canonical_text_ws.
