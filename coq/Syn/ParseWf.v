(** C08: the model parser produces only well-formed ASTs ([wf] of Syn/Render.v) - so [wf] is
    exactly the image of the parser: with the round trip of Syn/RoundTrip.v,
    [wf e = true <-> exists ts, parse_tokens false ts = Some e], and re-rendering a parsed tree
    and parsing it again gives the same tree. *)
From XV Require Import Base.Str Base.Num Xp.Ast Syn.Parse Syn.Render Syn.RoundTrip.
From Coq Require Import Lia Arith.
From Coq Require String.
Import String.StringSyntax.
Local Open Scope string_scope.

Definition steps_ok (steps : list stp) : Prop := forallb wf_step steps = true /\ steps <> [].

(** what each entry point returns is well-formed *)
Definition P_bin (f : nat) : Prop := forall lvl ts e r, parse_bin false f lvl ts = Some (e, r) -> wf e = true.
Definition P_loop (f : nat) : Prop := forall lvl lhs ts e r, wf lhs = true -> bin_loop false f lvl lhs ts = Some (e, r) -> wf e = true.
Definition P_unary (f : nat) : Prop := forall ts e r, parse_unary false f ts = Some (e, r) -> wf e = true.
Definition P_uloop (f : nat) : Prop := forall lhs ts e r, wf lhs = true -> union_loop false f lhs ts = Some (e, r) -> wf e = true.
Definition P_path (f : nat) : Prop := forall ts e r, parse_path false f ts = Some (e, r) -> wf e = true.
Definition P_rel (f : nat) : Prop := forall ts steps r, parse_relpath false f ts = Some (steps, r) ->
  steps_ok steps /\ (starts_primary false ts = false -> match steps with SCall _ _ :: _ => False | _ => True end).
Definition P_step (f : nat) : Prop := forall ts s r, parse_step false f ts = Some (s, r) ->
  wf_step s = true /\ (starts_primary false ts = false -> match s with SCall _ _ => False | _ => True end).
Definition P_preds (f : nat) : Prop := forall ts ps r, parse_preds false f ts = Some (ps, r) -> forallb wf ps = true.
Definition P_prim (f : nat) : Prop := forall ts e r, starts_primary false ts = true -> parse_primary false f ts = Some (e, r) -> wf e = true.
Definition P_args (f : nat) : Prop := forall ts es r, parse_args false f ts = Some (es, r) -> forallb wf es = true.

Definition P_all (f : nat) : Prop :=
  P_bin f /\ P_loop f /\ P_unary f /\ P_uloop f /\ P_path f /\ P_rel f /\ P_step f /\ P_preds f /\ P_prim f /\ P_args f.

Lemma op_at_wf lvl t mk a b : op_at lvl t = Some mk -> wf a = true -> wf b = true -> wf (mk a b) = true.
Proof.
  intros H Ha Hb.
  destruct t; try (destruct lvl as [|[|[|[|[|[|?]]]]]]; discriminate);
    destruct lvl as [|[|[|[|[|[|lvl]]]]]]; simpl in H; try discriminate;
    repeat match type of H with (if ?c then _ else _) = Some _ => destruct c; try discriminate end;
    injection H as <-; simpl; now rewrite Ha, Hb.
Qed.

Notation pb := (parse_bin false).
Notation bl := (bin_loop false).
Notation pu := (parse_unary false).
Notation ul := (union_loop false).
Notation pp := (parse_path false).
Notation prl := (parse_relpath false).
Notation pst := (parse_step false).
Notation ppr := (parse_preds false).
Notation ppm := (parse_primary false).
Notation pa := (parse_args false).

Lemma step_bin f : P_all f -> P_bin (S f).
Proof.
  intros (Hb & Hl & Hu & _) lvl ts e r H. rewrite pb_S in H.
  destruct (Nat.leb 6 lvl); [eapply Hu; eauto|].
  destruct (pb f (S lvl) ts) as [[lhs r0]|] eqn:E; [|discriminate]. eapply Hl; [eapply Hb; eauto|exact H].
Qed.

Lemma step_loop f : P_all f -> P_loop (S f).
Proof.
  intros (Hb & Hl & _) lvl lhs ts e r Hw H. rewrite bl_S in H.
  destruct ts as [|t ts]; [now injection H as <- _|].
  destruct (op_at lvl t) as [mk|] eqn:Eo; [|now injection H as <- _].
  destruct (pb f (S lvl) ts) as [[rhs r0]|] eqn:E; [|discriminate].
  eapply Hl; [|exact H]. eapply op_at_wf; eauto.
Qed.

Lemma step_unary f : P_all f -> P_unary (S f).
Proof.
  intros (_ & _ & Hu & Hul & Hp & _) ts e r H. rewrite pu_S in H.
  assert (Hgen : match pp f ts with Some (p, r0) => ul f p r0 | None => None end = Some (e, r) -> wf e = true).
  { destruct (pp f ts) as [[p r0]|] eqn:Ep; [|discriminate]. intros H'. eapply Hul; [eapply Hp; eauto|exact H']. }
  destruct ts as [|t ts]; [exact (Hgen H)|]. destruct t; try exact (Hgen H).
  destruct (pu f ts) as [[e0 r0]|] eqn:E; [|discriminate]. injection H as <- _. simpl. eapply Hu; eauto.
Qed.

Lemma step_uloop f : P_all f -> P_uloop (S f).
Proof.
  intros (_ & _ & _ & Hul & Hp & _) lhs ts e r Hw H. rewrite ul_S in H.
  destruct ts as [|t ts]; [now injection H as <- _|]. destruct t; try (now injection H as <- _).
  destruct (pp f ts) as [[p r0]|] eqn:Ep; [|discriminate].
  eapply Hul; [|exact H]. simpl. rewrite Hw. eapply Hp; eauto.
Qed.

Lemma step_preds f : P_all f -> P_preds (S f).
Proof.
  intros (Hb & _ & _ & _ & _ & _ & _ & Hpr & _) ts ps r H. rewrite ppr_S in H.
  destruct ts as [|t ts]; [now injection H as <- _|]. destruct t; try (now injection H as <- _).
  destruct (pb f 0 ts) as [[e [|t2 r2]]|] eqn:E; try discriminate. destruct t2; try discriminate.
  destruct (ppr f r2) as [[ps0 r3]|] eqn:Ep; [|discriminate]. injection H as <- _.
  simpl. rewrite (Hb _ _ _ _ E). eapply Hpr; eauto.
Qed.

Lemma step_args f : P_all f -> P_args (S f).
Proof.
  intros (Hb & _ & _ & _ & _ & _ & _ & _ & _ & Ha) ts es r H. rewrite pa_S in H.
  assert (Hgen : match pb f 0 ts with
                 | Some (e, TRPar :: r0) => Some ([e], r0)
                 | Some (e, TComma :: r0) => match r0 with TRPar :: _ => None | _ => match pa f r0 with Some (es0, r2) => Some (e :: es0, r2) | None => None end end
                 | _ => None end = Some (es, r) -> forallb wf es = true).
  { destruct (pb f 0 ts) as [[e [|t2 r2]]|] eqn:E; try discriminate. destruct t2; try discriminate.
    - intros [= <- _]. simpl. now rewrite (Hb _ _ _ _ E).
    - assert (Hg2 : match pa f r2 with Some (es0, r3) => Some (e :: es0, r3) | None => None end = Some (es, r) -> forallb wf es = true).
      { destruct (pa f r2) as [[es0 r3]|] eqn:Ea; [|discriminate]. intros [= <- _]. simpl. rewrite (Hb _ _ _ _ E). eapply Ha; eauto. }
      destruct r2 as [|t3 r3]; [exact Hg2|]. destruct t3; try exact Hg2. discriminate. }
  destruct ts as [|t ts]; [exact (Hgen H)|]. destruct t; try exact (Hgen H). now injection H as <- _.
Qed.

Lemma step_prim f : P_all f -> P_prim (S f).
Proof.
  intros (Hb & _ & _ & _ & _ & _ & _ & _ & _ & Ha) ts e r Hs H. rewrite ppm_S in H.
  destruct ts as [|t ts]; [discriminate|]. destruct t; try discriminate.
  - (* TName *) destruct ts as [|t2 ts2]; [discriminate|]. destruct t2; try discriminate.
    + (* f( *) destruct (pa f ts2) as [[args r2]|] eqn:Ea; [|discriminate]. injection H as <- _.
      simpl in Hs. rewrite fname_ok_false in Hs. simpl. rewrite Hs. eapply Ha; eauto.
    + (* p:f( *) destruct ts2 as [|t3 ts3]; [discriminate|]. destruct t3; try discriminate.
      destruct ts3 as [|t4 ts4]; [discriminate|]. destruct t4; try discriminate.
      destruct (pa f ts4) as [[args r2]|] eqn:Ea; [|discriminate]. injection H as <- _. simpl. eapply Ha; eauto.
  - now injection H as <- _.
  - now injection H as <- _.
  - now injection H as <- _.
  - (* ( *) destruct (pb f 0 ts) as [[e0 [|t2 r2]]|] eqn:E; try discriminate. destruct t2; try discriminate.
    injection H as <- _. eapply Hb; eauto.
Qed.

(** after the axis: node test and predicates *)
Lemma with_test_wf f a r s r' : P_preds f ->
  with_test_ f a r = Some (s, r') -> wf_step s = true /\ match s with SCall _ _ => False | _ => True end.
Proof.
  intros Hpr H. unfold with_test_ in H. destruct (parse_nodetest false r) as [[t r2]|]; [|discriminate].
  destruct (ppr f r2) as [[preds r3]|] eqn:Ep; [|discriminate]. injection H as <- _.
  split; [simpl; eapply Hpr; eauto|exact I].
Qed.

Lemma step_step f : P_all f -> P_step (S f).
Proof.
  intros (_ & _ & _ & _ & _ & _ & _ & Hpr & _ & Ha) ts s r H. rewrite pst_S in H. cbv zeta in H.
  assert (Hwt : forall a r0, with_test_ f a r0 = Some (s, r) ->
                wf_step s = true /\ (starts_primary false ts = false -> match s with SCall _ _ => False | _ => True end)).
  { intros a r0 H0. destruct (with_test_wf f a r0 s r Hpr H0) as [H1 H2]. split; [exact H1|intros _; exact H2]. }
  assert (Hdef : with_test_ f Child ts = Some (s, r) ->
                wf_step s = true /\ (starts_primary false ts = false -> match s with SCall _ _ => False | _ => True end)) by apply Hwt.
  unfold with_test_ in Hdef.
  destruct ts as [|t1 ts1]; [exact (Hdef H)|].
  destruct t1; try exact (Hdef H).
  - (* TName *) destruct ts1 as [|t2 ts2]; [exact (Hdef H)|].
    destruct t2; try exact (Hdef H).
    + (* n( *) destruct (fname_ok false s0) eqn:Ef; [|exact (Hdef H)].
      destruct (pa f ts2) as [[args r2]|] eqn:Ea; [|discriminate]. injection H as <- _. split.
      * simpl. rewrite fname_ok_false in Ef. rewrite Ef. eapply Ha; eauto.
      * simpl. rewrite Ef. discriminate.
    + (* a:: *) destruct (axis_asis false s0) as [ax|]; [|discriminate].
      change (with_test_ f ax ts2 = Some (s, r)) in H. exact (Hwt _ _ H).
    + (* p: *) destruct ts2 as [|t3 ts3]; [exact (Hdef H)|]. destruct t3; try exact (Hdef H).
      destruct ts3 as [|t4 ts4]; [exact (Hdef H)|]. destruct t4; try exact (Hdef H).
      rewrite pfname_ok_false in H.
      destruct (pa f ts4) as [[args r2]|] eqn:Ea; [|discriminate]. injection H as <- _. split.
      * simpl. eapply Ha; eauto.
      * simpl. discriminate.
  - (* . *) injection H as <- _. split; [reflexivity|intros _; exact I].
  - (* .. *) injection H as <- _. split; [reflexivity|intros _; exact I].
  - (* @ *) change (with_test_ f Attribute ts1 = Some (s, r)) in H. exact (Hwt _ _ H).
Qed.

Lemma step_rel f : P_all f -> P_rel (S f).
Proof.
  intros (_ & _ & _ & _ & _ & Hr & Hs & _) ts steps r H. rewrite prl_S in H.
  destruct (pst f ts) as [[s r0]|] eqn:Es; [|discriminate]. destruct (Hs _ _ _ Es) as [Hws Hns].
  assert (Hone : Some ([s], r0) = Some (steps, r) ->
            steps_ok steps /\ (starts_primary false ts = false -> match steps with SCall _ _ :: _ => False | _ => True end)).
  { intros [= <- _]. split; [split; [simpl; now rewrite Hws|discriminate]|exact Hns]. }
  destruct r0 as [|t r2]; [exact (Hone H)|]. destruct t; try exact (Hone H).
  - (* / *) destruct (prl f r2) as [[ss r3]|] eqn:Er; [|discriminate]. injection H as <- _.
    destruct (Hr _ _ _ Er) as [[Hss _] _]. split; [split; [simpl; now rewrite Hws, Hss|discriminate]|exact Hns].
  - (* // *) destruct (prl f r2) as [[ss r3]|] eqn:Er; [|discriminate]. injection H as <- _.
    destruct (Hr _ _ _ Er) as [[Hss _] _]. split; [split; [simpl; now rewrite Hws, Hss|discriminate]|exact Hns].
Qed.

Lemma pp_other f ts : match ts with TRoot :: _ | TSlash :: _ | TSlashSlash :: _ => False | _ => True end ->
  pp (S f) ts =
  if starts_primary false ts then
    match ppm f ts with
    | None => None
    | Some (e, r) => after_primary f e r
    end
  else match prl f ts with Some (steps, r) => Some (EPath false steps, r) | None => None end.
Proof. intros H. rewrite pp_S. destruct ts as [|[] ts]; try contradiction; reflexivity. Qed.

Lemma step_path f : P_all f -> P_path (S f).
Proof.
  intros (_ & _ & _ & _ & _ & Hr & _ & Hpr & Hpm & _) ts e r H.
  assert (Hother : match ts with TRoot :: _ | TSlash :: _ | TSlashSlash :: _ => False | _ => True end -> wf e = true).
  { intros Ho. rewrite (pp_other f ts Ho) in H. destruct (starts_primary false ts) eqn:Esp.
    - destruct (ppm f ts) as [[e0 r0]|] eqn:Em; [|discriminate]. pose proof (Hpm _ _ _ Esp Em) as Hw0.
      unfold after_primary in H. destruct (ppr f r0) as [[preds r2]|] eqn:Ep; [|discriminate].
      pose proof (Hpr _ _ _ Ep) as Hwp.
      assert (Hnone : Some (match preds with [] => e0 | _ => EFilter e0 preds [] end, r2) = Some (e, r) -> wf e = true).
      { intros [= <- _]. destruct preds; [exact Hw0|]. cbn [wf]. rewrite Hw0, Hwp. reflexivity. }
      destruct r2 as [|t r3]; [exact (Hnone H)|]. destruct t; try exact (Hnone H).
      + destruct (prl f r3) as [[steps r4]|] eqn:Er; [|discriminate]. injection H as <- _.
        destruct (Hr _ _ _ Er) as [[Hss Hne] _]. cbn [wf]. rewrite Hw0, Hwp, Hss.
        destruct preds, steps; try reflexivity. congruence.
      + destruct (prl f r3) as [[steps r4]|] eqn:Er; [|discriminate]. injection H as <- _.
        destruct (Hr _ _ _ Er) as [[Hss Hne] _]. cbn [wf]. rewrite Hw0, Hwp. cbn [forallb wf_step dos_step]. rewrite Hss.
        destruct preds; reflexivity.
    - destruct (prl f ts) as [[steps r0]|] eqn:Er; [|discriminate]. injection H as <- _.
      destruct (Hr _ _ _ Er) as [[Hss Hne] Hfirst]. specialize (Hfirst Esp). cbn [wf]. rewrite Hss. simpl.
      destruct steps as [|[] ?]; try reflexivity; [congruence|contradiction]. }
  destruct ts as [|t ts]; [exact (Hother I)|]. destruct t; try exact (Hother I); rewrite pp_S in H.
  - (* / *) destruct (starts_step false ts); [|now injection H as <- _].
    destruct (prl f ts) as [[steps r0]|] eqn:Er; [|discriminate]. injection H as <- _.
    destruct (Hr _ _ _ Er) as [[Hss _] _]. cbn [wf]. now rewrite Hss.
  - (* // *) destruct (prl f ts) as [[steps r0]|] eqn:Er; [|discriminate]. injection H as <- _.
    destruct (Hr _ _ _ Er) as [[Hss _] _]. cbn [wf forallb wf_step dos_step]. now rewrite Hss.
  - (* root token *) now injection H as <- _.
Qed.

Theorem all_wf : forall f, P_all f.
Proof.
  induction f as [|f IH].
  - unfold P_all, P_bin, P_loop, P_unary, P_uloop, P_path, P_rel, P_step, P_preds, P_prim, P_args.
    repeat split; intros; simpl in *; discriminate.
  - split; [apply step_bin; exact IH|]. split; [apply step_loop; exact IH|]. split; [apply step_unary; exact IH|].
    split; [apply step_uloop; exact IH|]. split; [apply step_path; exact IH|]. split; [apply step_rel; exact IH|].
    split; [apply step_step; exact IH|]. split; [apply step_preds; exact IH|]. split; [apply step_prim; exact IH|apply step_args; exact IH].
Qed.

(** ** the parser's image is exactly the well-formed ASTs *)
Theorem parse_tokens_wf ts e : parse_tokens false ts = Some e -> wf e = true.
Proof.
  unfold parse_tokens. destruct (pb _ 0 ts) as [[e0 [|? ?]]|] eqn:E; try discriminate.
  intros [= <-]. eapply (proj1 (all_wf _)); eauto.
Qed.

Theorem wf_is_the_image_of_the_parser e : wf e = true <-> exists ts, parse_tokens false ts = Some e.
Proof.
  split.
  - intros H. exists (rend minimal false 0 e). now apply parse_rend.
  - intros [ts H]. eapply parse_tokens_wf; eauto.
Qed.

(** rendering a parsed tree (in any of the canonical ways) and parsing it again gives the tree back *)
Theorem reparse ts e xp ab : parse_tokens false ts = Some e -> parse_tokens false (rend xp ab 0 e) = Some e.
Proof. intros H. apply parse_rend. eapply parse_tokens_wf; eauto. Qed.

Theorem parse_string_wf s e : parse_string false s = Some e -> wf e = true.
Proof.
  unfold parse_string. destruct (lex _ false s) as [ts|]; [|discriminate].
  destruct (parse_tokens false ts) as [e0|] eqn:E; [|discriminate]. intros [= <-]. eapply parse_tokens_wf; eauto.
Qed.
