(** C08: the model parser reads every canonical rendering back to the AST it was made
    from -- for every well-formed AST, with no bound on size or nesting:
      [parse_tokens false (rend 0 e) = Some e].
    This is where precedence (nine levels), left associativity, the grouping role of
    parentheses and the separation of steps, predicates, arguments and filter
    expressions are proved rather than sampled. The parser is fuelled; the proof
    tracks the fuel explicitly ([20 * tokens + constant] at every entry point), so the
    statement holds for the fuel [parse_tokens] really uses. *)
From XV Require Import Base.Str Base.Num Xp.Ast Xp.EvalThm Syn.Parse Syn.Render.
From Coq Require Import Lia Arith.
From Coq Require String.
Import String.StringSyntax.
Local Open Scope string_scope.

(** ** follow sets *)
Definition tok_level (t : tok) : option nat :=
  match t with
  | TName n => if str_eqb n (lit "or") then Some 0 else if str_eqb n (lit "and") then Some 1
               else if str_eqb n (lit "div") then Some 5 else if str_eqb n (lit "mod") then Some 5 else None
  | TEq | TNe => Some 2
  | TLt | TLe | TGt | TGe => Some 3
  | TPlus | TMinus => Some 4
  | TStar => Some 5
  | TPipe => Some 7
  | _ => None
  end.
Definition ender (t : tok) : bool := match t with TRPar | TRBr | TComma => true | _ => false end.
(** what may follow a chunk parsed at level [lvl]: nothing, a closing token, or an operator of a lower level *)
Definition fol (lvl : nat) (X : list tok) : bool :=
  match X with
  | [] => true
  | t :: _ => ender t || match tok_level t with Some l => Nat.ltb l lvl | None => false end
  end.

Lemma op_at_level l t mk : op_at l t = Some mk -> tok_level t = Some l.
Proof.
  destruct t; try (destruct l as [|[|[|[|[|[|?]]]]]]; discriminate);
    destruct l as [|[|[|[|[|[|l]]]]]]; simpl; intros H; try reflexivity; try discriminate.
  all: repeat match goal with
       | H : (if ?b then _ else _) = Some _ |- _ => destruct b eqn:?; try discriminate
       end.
  all: repeat match goal with
       | H : str_eqb _ _ = true |- _ => apply str_eqb_spec in H; subst
       end; reflexivity.
Qed.

Lemma fol_no_op lvl l t X : fol lvl (t :: X) = true -> lvl <= l -> op_at l t = None.
Proof.
  intros H Hl. destruct (op_at l t) eqn:E; [|reflexivity].
  apply op_at_level in E. simpl in H. rewrite E in H.
  destruct (ender t) eqn:Et.
  - destruct t; try discriminate.
  - simpl in H. apply Nat.ltb_lt in H. lia.
Qed.

Lemma fol_mono a b X : fol a X = true -> a <= b -> fol b X = true.
Proof.
  destruct X as [|t X]; [reflexivity|]. simpl. intros H Hab.
  destruct (ender t); [reflexivity|]. simpl in *. destruct (tok_level t); [|discriminate].
  apply Nat.ltb_lt in H. apply Nat.ltb_lt. lia.
Qed.

(** the tokens that would continue a step, a predicate list, a name or a path never follow *)
Definition quiet (X : list tok) : Prop :=
  match X with
  | [] => True
  | t :: _ => match t with TLPar | TLBr | TColon | TColonColon | TSlash | TSlashSlash | TRoot => False | _ => True end
  end.
Lemma fol_quiet lvl X : fol lvl X = true -> quiet X.
Proof. destruct X as [|[] X]; simpl; try discriminate; trivial. Qed.
Lemma fol_no_pipe X : fol 7 X = true -> match X with TPipe :: _ => False | _ => True end.
Proof. destruct X as [|[] X]; simpl; try discriminate; trivial. Qed.

(** ** fuel: 20 per token of the chunk plus a constant per entry point *)
Definition Nb (lvl n : nat) := 20 * n + 6 + 2 * (6 - lvl).
Definition Nu (n : nat) := 20 * n + 5.
Definition Np (n : nat) := 20 * n + 4.
Definition Nr (n : nat) := 20 * n + 3.
Definition Ns (n : nat) := 20 * n + 2.
Definition Npr (n : nat) := 20 * n + 1.
Definition Npm (n : nat) := 20 * n + 2.
Definition Na (n : nat) := 20 * n + 1.
Ltac fuel := unfold Nb, Nu, Np, Nr, Ns, Npr, Npm, Na in *; repeat rewrite app_length in *; cbn [length] in *; try lia.

(** ** small facts about names *)
Lemma axis_of_name_axis_name a : axis_of_name (axis_name a) = Some a.
Proof. destruct a; reflexivity. Qed.

Definition nt_ok (X : list tok) : Prop := match X with TLPar :: _ | TColon :: _ => False | _ => True end.
Definition no_lbr (X : list tok) : Prop := match X with TLBr :: _ => False | _ => True end.
Lemma quiet_nt_ok X : quiet X -> nt_ok X.
Proof. destruct X as [|[] X]; simpl; tauto. Qed.
Lemma quiet_no_lbr X : quiet X -> no_lbr X.
Proof. destruct X as [|[] X]; simpl; tauto. Qed.

Lemma parse_nodetest_rend t X : nt_ok X -> parse_nodetest false (rend_test t ++ X) = Some (t, X).
Proof.
  intros HX. destruct t; cbn [rend_test app parse_nodetest kw]; try reflexivity.
  - (* NTAny *) destruct X as [|[] X]; simpl in HX; try contradiction; reflexivity.
  - (* NTName *) destruct X as [|[] X]; simpl in HX; try contradiction; reflexivity.
Qed.

(** ** one-step unfoldings of the fuelled parser (asis = false) *)
Notation pb := (parse_bin false).
Notation bl := (bin_loop false).
Notation pu := (parse_unary false).
Notation ul := (union_loop false).
Notation pp := (parse_path false).
Notation prl := (parse_relpath false).
Notation pst := (parse_step false).
Notation ppr := (parse_preds false).
Notation ppm := (parse_primary false).
Notation pa := (parse_args false).

Lemma pb_S f lvl ts : pb (S f) lvl ts =
  if Nat.leb 6 lvl then pu f ts
  else match pb f (S lvl) ts with Some (lhs, r) => bl f lvl lhs r | None => None end.
Proof. reflexivity. Qed.
Lemma bl_S f lvl lhs ts : bl (S f) lvl lhs ts =
  match ts with
  | t :: r => match op_at lvl t with
              | Some mk => match pb f (S lvl) r with Some (rhs, r') => bl f lvl (mk lhs rhs) r' | None => None end
              | None => Some (lhs, ts)
              end
  | [] => Some (lhs, [])
  end.
Proof. reflexivity. Qed.
Lemma pu_S f ts : pu (S f) ts =
  match ts with
  | TMinus :: r => match pu f r with Some (e, r') => Some (ENeg e, r') | None => None end
  | _ => match pp f ts with Some (p, r) => ul f p r | None => None end
  end.
Proof. reflexivity. Qed.
Lemma ul_S f lhs ts : ul (S f) lhs ts =
  match ts with
  | TPipe :: r => match pp f r with Some (p, r') => ul f (EUnion lhs p) r' | None => None end
  | _ => Some (lhs, ts)
  end.
Proof. reflexivity. Qed.
Lemma ppr_S f ts : ppr (S f) ts =
  match ts with
  | TLBr :: r =>
      match pb f 0 r with
      | Some (e, TRBr :: r2) => match ppr f r2 with Some (ps, r3) => Some (e :: ps, r3) | None => None end
      | _ => None
      end
  | _ => Some ([], ts)
  end.
Proof. reflexivity. Qed.
Lemma pa_S f ts : pa (S f) ts =
  match ts with
  | TRPar :: r => Some ([], r)
  | _ =>
      match pb f 0 ts with
      | Some (e, TRPar :: r) => Some ([e], r)
      | Some (e, TComma :: r) =>
          match r with
          | TRPar :: _ => None
          | _ => match pa f r with Some (es, r2) => Some (e :: es, r2) | None => None end
          end
      | _ => None
      end
  end.
Proof. reflexivity. Qed.
Lemma prl_S f ts : prl (S f) ts =
  match pst f ts with
  | None => None
  | Some (s, r) =>
      match r with
      | TSlash :: r2 => match prl f r2 with Some (ss, r3) => Some (s :: ss, r3) | None => None end
      | TSlashSlash :: r2 => match prl f r2 with Some (ss, r3) => Some (s :: dos_step :: ss, r3) | None => None end
      | _ => Some ([s], r)
      end
  end.
Proof. reflexivity. Qed.

Lemma pp_S f ts : pp (S f) ts =
  match ts with
  | TRoot :: r => Some (EPath true [], r)
  | TSlash :: r =>
      if starts_step false r then
        match prl f r with Some (steps, r') => Some (EPath true steps, r') | None => None end
      else Some (EPath true [], r)
  | TSlashSlash :: r =>
      match prl f r with Some (steps, r') => Some (EPath true (dos_step :: steps), r') | None => None end
  | _ =>
      if starts_primary false ts then
        match ppm f ts with
        | None => None
        | Some (e, r) =>
            match ppr f r with
            | None => None
            | Some (preds, r2) =>
                match r2 with
                | TSlash :: r3 =>
                    match prl f r3 with Some (steps, r4) => Some (EFilter e preds steps, r4) | None => None end
                | TSlashSlash :: r3 =>
                    match prl f r3 with Some (steps, r4) => Some (EFilter e preds (dos_step :: steps), r4) | None => None end
                | _ => Some (match preds with [] => e | _ => EFilter e preds [] end, r2)
                end
            end
        end
      else match prl f ts with Some (steps, r) => Some (EPath false steps, r) | None => None end
  end.
Proof. reflexivity. Qed.
Lemma ppm_S f ts : ppm (S f) ts =
  match ts with
  | TLPar :: r => match pb f 0 r with Some (e, TRPar :: r2) => Some (e, r2) | _ => None end
  | TLiteral s :: r => Some (ELit s, r)
  | TNumber s :: r => Some (ENum s, r)
  | TVar q :: r => Some (EVar q, r)
  | TName n :: TLPar :: r =>
      match pa f r with Some (args, r2) => Some (ECall (None, n) args, r2) | None => None end
  | TName p :: TColon :: TName n :: TLPar :: r =>
      match pa f r with Some (args, r2) => Some (ECall (Some p, n) args, r2) | None => None end
  | _ => None
  end.
Proof. reflexivity. Qed.
Lemma pst_S f ts : pst (S f) ts =
  let with_test (a : axis) (r : list tok) :=
    match parse_nodetest false r with
    | None => None
    | Some (t, r2) => match ppr f r2 with Some (preds, r3) => Some (SAxis a t preds, r3) | None => None end
    end in
  match ts with
  | TDot :: r => Some (SAxis Self NTNode [], r)
  | TDotDot :: r => Some (SAxis Parent NTNode [], r)
  | TAt :: r => with_test Attribute r
  | TName a :: TColonColon :: r => match axis_asis false a with Some ax => with_test ax r | None => None end
  | TName n :: TLPar :: r =>
      if fname_ok false n then
        match pa f r with Some (args, r2) => Some (SCall (None, n) args, r2) | None => None end
      else with_test Child ts
  | TName p :: TColon :: TName n :: TLPar :: r =>
      if pfname_ok false p n then
        match pa f r with Some (args, r2) => Some (SCall (Some p, n) args, r2) | None => None end
      else with_test Child ts
  | _ => with_test Child ts
  end.
Proof. reflexivity. Qed.

(** the two left-folding loops, entered after their first operand *)
Definition PL (g lvl : nat) (ts : list tok) : option (expr * list tok) :=
  match pb g (S lvl) ts with Some (lhs, r) => bl g lvl lhs r | None => None end.
Definition PLU (g : nat) (ts : list tok) : option (expr * list tok) :=
  match pp g ts with Some (p, r) => ul g p r | None => None end.

Section AB.
(** [xp]: redundant pairs of parentheses per sub-expression; [ab = false]: steps written in
    full, [ab = true]: abbreviated steps and [//] *)
Variable xp : expr -> nat.
Variable ab : bool.
Local Notation rk := (Render.rendk xp ab).
Local Notation rz := (fun a : expr => Render.rendk xp ab (xp a) 0 a).
Local Notation rend_step := (Render.rend_step xp ab).
Local Notation join := (join_steps ab (Render.rend_step xp ab)).
Local Notation lead := (lead_steps ab (Render.rend_step xp ab)).

(** operators on the left spine of [e] at level [lvl], when [e] is written with [k] redundant pairs *)
Fixpoint nops0 (lvl : nat) (e : expr) : nat :=
  let sub a := match xp a with O => nops0 lvl a | S _ => 0 end in
  match e with
  | EOr a _ => if Nat.eqb lvl 0 then S (sub a) else 0
  | EAnd a _ => if Nat.eqb lvl 1 then S (sub a) else 0
  | ECmp op a _ => if Nat.eqb lvl (cmp_level op) then S (sub a) else 0
  | EArith op a _ => if Nat.eqb lvl (ar_level op) then S (sub a) else 0
  | _ => 0
  end.
Definition nops (k lvl : nat) (e : expr) : nat := match k with O => nops0 lvl e | S _ => 0 end.
Fixpoint nu0 (e : expr) : nat :=
  match e with EUnion a _ => S (match xp a with O => nu0 a | S _ => 0 end) | _ => 0 end.
Definition nu (k : nat) (e : expr) : nat := match k with O => nu0 e | S _ => 0 end.

Definition A (k : nat) (e : expr) (lvl : nat) : Prop := forall f X, fol lvl X = true ->
  Nb lvl (length (rk k lvl e)) <= f -> pb f lvl (rk k lvl e ++ X) = Some (e, X).
Definition C (k : nat) (e : expr) (lvl : nat) : Prop := forall f X, fol (S lvl) X = true ->
  Nb (S lvl) (length (rk k lvl e)) <= f + nops k lvl e ->
  PL (f + nops k lvl e) lvl (rk k lvl e ++ X) = bl f lvl e X.
Definition U (k : nat) (e : expr) : Prop := forall f X, fol 7 X = true ->
  Nu (length (rk k 6 e)) <= f -> pu f (rk k 6 e ++ X) = Some (e, X).
Definition B (k : nat) (e : expr) : Prop := forall f X, fol 8 X = true ->
  Np (length (rk k 8 e)) <= f -> pp f (rk k 8 e ++ X) = Some (e, X).
Definition D (k : nat) (e : expr) : Prop := forall f X, fol 8 X = true ->
  Np (length (rk k 7 e)) <= f + nu k e -> PLU (f + nu k e) (rk k 7 e ++ X) = ul f e X.
Definition E (k : nat) (e : expr) : Prop := simple_primary e = true -> forall f X,
  Npm (length (rk k 0 e)) <= f -> ppm f (rk k 0 e ++ X) = Some (e, X).
Definition Good (k : nat) (e : expr) : Prop :=
  (forall lvl, lvl <= 6 -> A k e lvl) /\ (forall lvl, lvl <= 5 -> C k e lvl) /\ U k e /\ B k e /\ D k e /\ E k e.

(** ** the shape of renderings *)
Definition body (e : expr) : list tok :=
  match e with
  | EOr a b => rk (xp a) 0 a ++ TName (lit "or") :: rk (xp b) 1 b
  | EAnd a b => rk (xp a) 1 a ++ TName (lit "and") :: rk (xp b) 2 b
  | ECmp op a b => rk (xp a) (cmp_level op) a ++ cmp_tok op :: rk (xp b) (S (cmp_level op)) b
  | EArith op a b => rk (xp a) (ar_level op) a ++ ar_tok op :: rk (xp b) (S (ar_level op)) b
  | ENeg a => TMinus :: rk (xp a) 6 a
  | EUnion a b => rk (xp a) 7 a ++ TPipe :: rk (xp b) 8 b
  | ELit s => [TLiteral s]
  | ENum s => [TNumber s]
  | EVar q => [TVar q]
  | ECall q args => qname_toks q ++ TLPar :: sep_by TComma rz args ++ [TRPar]
  | EPath abs steps => if abs then lead steps else join steps
  | EFilter e0 preds steps =>
      (if simple_primary e0 then rk (xp e0) 0 e0 else parens (rk (xp e0) 0 e0)) ++ brackets rz preds
      ++ match steps with [] => [] | _ => lead steps end
  end.

Lemma rend_unfold lvl e : rk 0 lvl e = if Nat.ltb (level e) lvl || bare_root e then parens (body e) else body e.
Proof. destruct e; reflexivity. Qed.
Lemma rend_wrapped k lvl e : rk (S k) lvl e = parensN (S k) (body e).
Proof. destruct e; reflexivity. Qed.

Lemma rend_same k lvl lvl' e : (k = 0 -> Nat.ltb (level e) lvl = Nat.ltb (level e) lvl') -> rk k lvl e = rk k lvl' e.
Proof.
  destruct k; intros H; [|now rewrite !rend_wrapped].
  rewrite (rend_unfold lvl), (rend_unfold lvl'). now rewrite H.
Qed.

Lemma rend_S k lvl e : (k = 0 -> level e <> lvl) -> rk k lvl e = rk k (S lvl) e.
Proof.
  intros H. apply rend_same. intros Hk. specialize (H Hk).
  destruct (Nat.ltb_spec (level e) lvl), (Nat.ltb_spec (level e) (S lvl)); try reflexivity; lia.
Qed.

Lemma rend_paren lvl e : level e < lvl -> bare_root e = false -> rk 0 lvl e = parens (rk 0 0 e).
Proof.
  intros H Hb. rewrite (rend_unfold lvl), (rend_unfold 0). rewrite Hb.
  replace (Nat.ltb (level e) lvl) with true by (symmetry; now apply Nat.ltb_lt).
  replace (Nat.ltb (level e) 0) with false by (symmetry; apply Nat.ltb_ge; lia). reflexivity.
Qed.

Lemma nops_0 k lvl e : (k = 0 -> level e <> lvl) -> nops k lvl e = 0.
Proof.
  destruct k; [|reflexivity]. intros H. specialize (H eq_refl).
  destruct e; unfold nops; cbn [nops0]; try reflexivity; simpl level in H.
  all: match goal with |- (if Nat.eqb ?a ?b then _ else _) = _ => destruct (Nat.eqb_spec a b); [congruence|reflexivity] end.
Qed.

Lemma nops_S lvl e a : (match e with EOr x _ | EAnd x _ | ECmp _ x _ | EArith _ x _ => x = a | _ => False end) ->
  level e = lvl -> nops 0 lvl e = S (nops (xp a) lvl a).
Proof.
  destruct e; try contradiction; intros -> <-; simpl; rewrite ?Nat.eqb_refl; reflexivity.
Qed.

Lemma parensN_length k T : length T <= length (parensN k T).
Proof. induction k; simpl; [lia|]. unfold parens. cbn [length]. rewrite app_length. lia. Qed.

Lemma nops_le e : forall k lvl, nops k lvl e <= length (rk k lvl e).
Proof.
  induction e; intros k lvl; destruct k; try (simpl; lia); unfold nops; cbn [nops0]; try lia.
  all: match goal with |- (if Nat.eqb ?a ?b then _ else _) <= _ => destruct (Nat.eqb_spec a b); [subst|lia] end.
  all: rewrite rend_unfold; simpl level; rewrite Nat.ltb_irrefl; simpl orb; cbv iota; cbn [body];
    rewrite app_length; simpl length.
  all: match goal with IH : forall k l, nops k l ?a <= _ |- S (match xp ?a with _ => _ end) <= length (rk _ ?l ?a) + _ =>
         specialize (IH (xp a) l); unfold nops in IH; lia end.
Qed.

Lemma nu_le e : forall k, nu k e <= length (rk k 7 e).
Proof.
  induction e; intros k; destruct k; try (simpl; lia); unfold nu; cbn [nu0]; try lia.
  rewrite rend_unfold; simpl. rewrite app_length. simpl. specialize (IHe1 (xp e1)). unfold nu in IHe1. lia.
Qed.

(** ** generic steps between the entry points *)
Lemma bl_stop f lvl e X : fol lvl X = true -> 1 <= f -> bl f lvl e X = Some (e, X).
Proof.
  intros HX Hf. destruct f as [|f]; [lia|]. rewrite bl_S.
  destruct X as [|t X]; [reflexivity|]. now rewrite (fol_no_op lvl lvl t X HX (le_n _)).
Qed.

Lemma ul_stop f e X : fol 7 X = true -> 1 <= f -> ul f e X = Some (e, X).
Proof.
  intros HX Hf. destruct f as [|f]; [lia|]. rewrite ul_S.
  apply fol_no_pipe in HX. destruct X as [|[] X]; try reflexivity. contradiction.
Qed.

Lemma A_from_C k e lvl : lvl <= 5 -> C k e lvl -> A k e lvl.
Proof.
  intros Hl HC f X HX Hf. pose proof (nops_le e k lvl) as Hn.
  destruct f as [|g]; [unfold Nb in Hf; lia|]. rewrite pb_S.
  replace (Nat.leb 6 lvl) with false by (symmetry; apply Nat.leb_gt; lia).
  replace g with ((g - nops k lvl e) + nops k lvl e) by (unfold Nb in Hf; lia).
  fold (PL (g - nops k lvl e + nops k lvl e) lvl (rk k lvl e ++ X)).
  rewrite HC.
  - apply bl_stop; [exact HX|]. unfold Nb in Hf. lia.
  - eapply fol_mono; [exact HX|lia].
  - unfold Nb in *. lia.
Qed.

Lemma C_from_A k e lvl : (k = 0 -> level e <> lvl) -> lvl <= 5 -> A k e (S lvl) -> C k e lvl.
Proof.
  intros Hne Hl HA f X HX Hf. rewrite (nops_0 k lvl e Hne) in *. rewrite Nat.add_0_r in *.
  rewrite (rend_S k lvl e Hne) in *. unfold PL. now rewrite HA.
Qed.

Lemma A6_from_U k e : U k e -> A k e 6.
Proof.
  intros HU f X HX Hf. destruct f as [|g]; [unfold Nb in Hf; lia|]. rewrite pb_S. simpl Nat.leb. cbv iota.
  apply HU; [eapply fol_mono; [exact HX|lia]|]. unfold Nb, Nu in *. lia.
Qed.

(** from [A e hi] down to [lo], when no level in between is [e]'s own *)
Lemma descend k e hi lo : hi <= 6 -> A k e hi -> (forall lvl, lo <= lvl < hi -> k = 0 -> level e <> lvl) ->
  forall n lvl, lvl + n = hi -> lo <= lvl -> A k e lvl /\ (lvl < hi -> C k e lvl).
Proof.
  intros Hhi HA Hne. induction n as [|n IH]; intros lvl Hk Hlo.
  - replace lvl with hi by lia. split; [exact HA|lia].
  - destruct (IH (S lvl)) as [HA' _]; [lia|lia|].
    assert (HC : C k e lvl) by (apply C_from_A; [apply Hne; lia|lia|exact HA']).
    split; [apply A_from_C; [lia|exact HC]|intros _; exact HC].
Qed.

Lemma ppr_none f X : no_lbr X -> 1 <= f -> ppr f X = Some ([], X).
Proof.
  intros HX Hf. destruct f as [|f]; [lia|]. rewrite ppr_S. destruct X as [|[] X]; try reflexivity. contradiction.
Qed.

(** [T] read at level 0 is [e] *)
Definition inner0 (e : expr) (T : list tok) : Prop :=
  forall f X, fol 0 X = true -> Nb 0 (length T) <= f -> pb f 0 (T ++ X) = Some (e, X).

Lemma paren_pp_gen T e : inner0 e T ->
  forall f X, fol 8 X = true -> Np (length (parens T)) <= f -> pp f (parens T ++ X) = Some (e, X).
Proof.
  intros HA f X HX Hf. unfold parens in *. cbn [app length] in *. rewrite app_length in Hf. cbn [length] in Hf.
  destruct f as [|f]; [unfold Np in Hf; lia|]. rewrite pp_S. cbn [starts_primary]. cbv iota.
  destruct f as [|g]; [unfold Np in Hf; lia|]. rewrite ppm_S.
  rewrite <- app_assoc. cbn [app].
  rewrite HA; [|reflexivity|unfold Nb, Np in *; lia].
  rewrite ppr_none; [|eapply quiet_no_lbr, fol_quiet; exact HX|unfold Np in Hf; lia].
  apply fol_quiet in HX. destruct X as [|[] X]; try reflexivity; contradiction.
Qed.

Lemma paren_pu_gen T e : inner0 e T -> forall f X, fol 7 X = true ->
  Nu (length (parens T)) <= f -> pu f (parens T ++ X) = Some (e, X).
Proof.
  intros HA f X HX Hf. destruct f as [|g]; [unfold Nu in Hf; lia|]. rewrite pu_S.
  change (parens T ++ X) with (TLPar :: (T ++ [TRPar]) ++ X). cbv iota.
  change (TLPar :: (T ++ [TRPar]) ++ X) with (parens T ++ X).
  rewrite (paren_pp_gen T e HA); [|eapply fol_mono; [exact HX|lia]|unfold Nu, Np in *; lia].
  apply ul_stop; [exact HX|]. unfold Nu in Hf. lia.
Qed.

Lemma paren_pp e : A 0 e 0 -> forall f X, fol 8 X = true ->
  Np (length (parens (rk 0 0 e))) <= f -> pp f (parens (rk 0 0 e) ++ X) = Some (e, X).
Proof. intros HA. apply paren_pp_gen. exact HA. Qed.

Lemma paren_pu e : A 0 e 0 -> forall f X, fol 7 X = true ->
  Nu (length (parens (rk 0 0 e))) <= f -> pu f (parens (rk 0 0 e) ++ X) = Some (e, X).
Proof. intros HA. apply paren_pu_gen. exact HA. Qed.

Lemma D_from_B k e : (k = 0 -> level e <> 7) -> B k e -> D k e.
Proof.
  intros Hne HB f X HX Hf.
  assert (Hnu : nu k e = 0) by (destruct k; [specialize (Hne eq_refl); destruct e; try reflexivity; simpl in Hne; congruence|reflexivity]).
  rewrite Hnu in *. rewrite Nat.add_0_r in *. rewrite (rend_S k 7 e Hne) in *. unfold PLU. now rewrite HB.
Qed.

Definition first_ok (t : tok) : bool :=
  match t with TLPar | TLiteral _ | TNumber _ | TVar _ | TName _ | TSlash | TSlashSlash | TStar | TAt | TDot | TDotDot => true | _ => false end.

Lemma U_from_D k e : (k = 0 -> 7 <= level e) -> (exists t r, rk k 7 e = t :: r /\ first_ok t = true) -> D k e -> U k e.
Proof.
  intros Hl (t & r & Hr & Ht) HD f X HX Hf. pose proof (nu_le e k) as Hn.
  assert (Hs : rk k 6 e = rk k 7 e) by (apply rend_S; intros Hk; specialize (Hl Hk); lia). rewrite Hs in *.
  destruct f as [|g]; [unfold Nu in Hf; lia|]. rewrite pu_S.
  assert (Hpu : forall ts, ts = rk k 7 e ++ X ->
            match ts with
            | TMinus :: r1 => match pu g r1 with Some (e0, r') => Some (ENeg e0, r') | None => None end
            | _ => match pp g ts with Some (p, r1) => ul g p r1 | None => None end
            end = PLU g ts).
  { intros ts ->. rewrite Hr. cbn [app]. destruct t; try discriminate; reflexivity. }
  rewrite (Hpu _ eq_refl).
  replace g with ((g - nu k e) + nu k e) by (unfold Nu in Hf; lia).
  rewrite HD; [|eapply fol_mono; [exact HX|lia]|unfold Nu, Np in *; lia].
  apply ul_stop; [exact HX|]. unfold Nu in Hf. lia.
Qed.

(** ** lists: predicates, arguments, steps *)
Lemma brackets_cons f p ps : brackets f (p :: ps) = TLBr :: f p ++ TRBr :: brackets f ps.
Proof. unfold brackets. cbn [map concat app]. now rewrite <- app_assoc. Qed.

Lemma preds_ok ps : Forall (fun p => A (xp p) p 0) ps -> forall f X, no_lbr X ->
  Npr (length (brackets rz ps)) <= f -> ppr f (brackets rz ps ++ X) = Some (ps, X).
Proof.
  induction 1 as [|p ps Hp _ IH]; intros f X HX Hf.
  - apply ppr_none; [exact HX|unfold Npr in Hf; lia].
  - rewrite brackets_cons in *. cbn [app length] in *. rewrite app_length in Hf. cbn [length] in Hf.
    destruct f as [|g]; [unfold Npr in Hf; lia|]. rewrite ppr_S. rewrite <- app_assoc. cbn [app].
    rewrite Hp; [|reflexivity|unfold Nb, Npr in *; lia].
    rewrite IH; [reflexivity|exact HX|unfold Npr in *; lia].
Qed.

Definition starts_ok (e : expr) : Prop := exists t r, rk (xp e) 0 e = t :: r /\ t <> TRPar.

Lemma pa_open f t r : t <> TRPar -> pa (S f) (t :: r) =
  match pb f 0 (t :: r) with
  | Some (e, TRPar :: r1) => Some ([e], r1)
  | Some (e, TComma :: r1) =>
      match r1 with
      | TRPar :: _ => None
      | _ => match pa f r1 with Some (es, r2) => Some (e :: es, r2) | None => None end
      end
  | _ => None
  end.
Proof. intros H. rewrite pa_S. destruct t; try reflexivity. congruence. Qed.

Lemma sep_by_cons2 {T} sep (f : T -> list tok) a b r : sep_by sep f (a :: b :: r) = f a ++ sep :: sep_by sep f (b :: r).
Proof. reflexivity. Qed.
Lemma sep_by_one {T} sep (f : T -> list tok) a : sep_by sep f [a] = f a.
Proof. reflexivity. Qed.

Lemma args_ok args : Forall (fun a => A (xp a) a 0) args -> Forall starts_ok args -> forall f X,
  Na (length (sep_by TComma rz args) + 1) <= f ->
  pa f (sep_by TComma rz args ++ TRPar :: X) = Some (args, X).
Proof.
  induction args as [|a r IH]; intros HA HS f X Hf.
  - destruct f as [|g]; [unfold Na in Hf; lia|]. reflexivity.
  - inversion HA as [|? ? Ha HAr]; subst. inversion HS as [|? ? (t & r0 & Ht & Hne) HSr]; subst.
    destruct f as [|g]; [unfold Na in Hf; lia|].
    destruct r as [|b r].
    + rewrite sep_by_one in *. rewrite Ht. cbn [app]. rewrite pa_open by exact Hne.
      change (t :: r0 ++ TRPar :: X) with ((t :: r0) ++ TRPar :: X). rewrite <- Ht.
      rewrite Ha; [reflexivity|reflexivity|unfold Na, Nb in *; lia].
    + rewrite sep_by_cons2 in *. rewrite app_length in Hf. cbn [length] in Hf.
      rewrite <- app_assoc. cbn [app]. rewrite Ht at 1. cbn [app]. rewrite pa_open by exact Hne.
      change (t :: r0 ++ TComma :: sep_by TComma rz (b :: r) ++ TRPar :: X)
        with ((t :: r0) ++ TComma :: sep_by TComma rz (b :: r) ++ TRPar :: X). rewrite <- Ht.
      rewrite Ha; [|reflexivity|unfold Na, Nb in *; lia].
      rewrite IH; [|exact HAr|exact HSr|unfold Na in *; lia].
      inversion HSr as [|? ? (t2 & r2 & Ht2 & Hne2) _]; subst.
      destruct r as [|c r]; [rewrite sep_by_one|rewrite sep_by_cons2]; rewrite Ht2; cbn [app];
        destruct t2; try reflexivity; congruence.
Qed.

Definition stepfol (X : list tok) : Prop :=
  match X with TSlash :: _ | TSlashSlash :: _ => True | _ => fol 8 X = true end.
Definition Qs (s : stp) : Prop := forall f X, stepfol X ->
  Ns (length (rend_step s)) <= f -> pst f (rend_step s ++ X) = Some (s, X).

Lemma is_dos_eq d : is_dos d = true -> d = dos_step.
Proof. destruct d as [[] [] [|]|]; try discriminate. reflexivity. Qed.

Lemma join_one (s : stp) : join [s] = rend_step s.
Proof. reflexivity. Qed.
Lemma join_two (s d : stp) : join [s; d] = rend_step s ++ TSlash :: join [d].
Proof. reflexivity. Qed.
Lemma join_three (s d x : stp) r : join (s :: d :: x :: r) =
  if ab && is_dos d then rend_step s ++ TSlashSlash :: join (x :: r) else rend_step s ++ TSlash :: join (d :: x :: r).
Proof. reflexivity. Qed.

Lemma relpath_ok n : forall steps, length steps <= n -> steps <> [] -> Forall Qs steps -> forall f X, fol 8 X = true ->
  Nr (length (join steps)) <= f -> prl f (join steps ++ X) = Some (steps, X).
Proof.
  induction n as [|n IH]; intros steps Hn Hne HQ f X HX Hf; [destruct steps; [congruence|simpl in Hn; lia]|].
  destruct steps as [|s r]; [congruence|]. inversion HQ as [|? ? Hs HQr]; subst.
  destruct f as [|g]; [unfold Nr in Hf; lia|]. rewrite prl_S.
  destruct r as [|d r].
  - rewrite join_one in *. rewrite Hs; [|destruct X as [|[] X]; simpl; trivial|unfold Nr, Ns in *; lia].
    apply fol_quiet in HX. destruct X as [|[] X]; try reflexivity; contradiction.
  - assert (Hslash : forall rest, rest = d :: r -> Nr (length (rend_step s ++ TSlash :: join rest)) <= S g ->
              match pst g ((rend_step s ++ TSlash :: join rest) ++ X) with
              | None => None
              | Some (s0, r0) =>
                  match r0 with
                  | TSlash :: r2 => match prl g r2 with Some (ss, r3) => Some (s0 :: ss, r3) | None => None end
                  | TSlashSlash :: r2 => match prl g r2 with Some (ss, r3) => Some (s0 :: dos_step :: ss, r3) | None => None end
                  | _ => Some ([s0], r0)
                  end
              end = Some (s :: rest, X)).
    { intros rest -> Hf'. rewrite app_length in Hf'. cbn [length] in Hf'. rewrite <- app_assoc. cbn [app].
      rewrite Hs; [|exact I|unfold Nr, Ns in *; lia].
      rewrite (IH (d :: r)); [reflexivity|simpl in *; lia|discriminate|exact HQr|exact HX|unfold Nr in *; lia]. }
    destruct r as [|x r].
    + rewrite join_two in *. now apply Hslash.
    + rewrite join_three in *. destruct (ab && is_dos d) eqn:Ed; [|now apply Hslash].
      apply andb_prop in Ed. destruct Ed as [_ Ed]. apply is_dos_eq in Ed. subst d.
      rewrite app_length in Hf. cbn [length] in Hf. rewrite <- app_assoc. cbn [app].
      rewrite Hs; [|exact I|unfold Nr, Ns in *; lia].
      inversion HQr as [|? ? _ HQx]; subst.
      rewrite (IH (x :: r)); [reflexivity|simpl in *; lia|discriminate|exact HQx|exact HX|unfold Nr in *; lia].
Qed.

(** ** first tokens *)
Definition step_first (t : tok) : bool := match t with TName _ | TStar | TAt | TDot | TDotDot => true | _ => false end.

Lemma rend_test_head t : exists x r, rend_test t = x :: r /\ step_first x = true.
Proof. destruct t; cbn [rend_test]; eauto. Qed.

Lemma rend_step_head s : exists t r, rend_step s = t :: r /\ step_first t = true.
Proof.
  destruct s as [a t ps|[[p|] n] args]; cbn [Render.rend_step qname_toks app]; eauto.
  destruct (rend_test_head t) as (x & r & Hx & Hfx).
  destruct ab; [|eauto]. destruct a; eauto; try (rewrite Hx; cbn [app]; eauto);
    destruct t; eauto; destruct ps; eauto.
Qed.

Lemma join_head s ss : exists t r, join (s :: ss) = t :: r /\ step_first t = true.
Proof.
  destruct (rend_step_head s) as (t & r & Hs & Ht).
  destruct ss as [|d [|x ss]]; [rewrite join_one|rewrite join_two|rewrite join_three; destruct (ab && is_dos d)];
    rewrite Hs; cbn [app]; eauto.
Qed.

Lemma lead_head steps : exists t r, lead steps = t :: r /\ (t = TSlash \/ t = TSlashSlash).
Proof.
  unfold lead_steps. destruct steps as [|d [|x r]]; eauto. destruct (ab && is_dos d); eauto.
Qed.

Lemma rend_head e : wf e = true -> forall k lvl, exists t r, rk k lvl e = t :: r /\
  (first_ok t = true \/ (t = TMinus /\ lvl <= 6)).
Proof.
  induction e as [a IHa b IHb|a IHa b IHb|op a IHa b IHb|op a IHa b IHb|a IHa|a IHa b IHb|v|t|q|q args|abs steps|e0 IHe0 preds steps];
    intros Hw k lvl; (destruct k; [|rewrite rend_wrapped; cbn [parensN]; unfold parens; cbn [app]; eauto]);
    rewrite rend_unfold;
    (destruct (Nat.ltb _ lvl || bare_root _) eqn:Ep; [unfold parens; cbn [app]; eauto|]);
    apply Bool.orb_false_iff in Ep; destruct Ep as [Ep Eb]; apply Nat.ltb_ge in Ep; simpl level in Ep; cbn [body].
  1-4: simpl in Hw; apply andb_prop in Hw; destruct Hw as [Hwa _];
    match goal with IH : wf ?x = true -> _ |- context [rk (xp ?x) ?l ?x ++ _] => destruct (IH Hwa (xp x) l) as (t0 & r & -> & Ht) end;
    cbn [app]; exists t0; eexists; split; [reflexivity|];
    destruct Ht as [Ht|[-> Hl]]; [now left|right; split; [reflexivity|]].
  1-4: try (destruct op; simpl in *; lia); lia.
  - (* ENeg *) exists TMinus. eexists. split; [reflexivity|]. right. split; [reflexivity|exact Ep].
  - (* EUnion *) simpl in Hw. apply andb_prop in Hw. destruct Hw as [Hwa _].
    destruct (IHa Hwa (xp a) 7) as (t0 & r & -> & Ht). cbn [app]. exists t0. eexists. split; [reflexivity|].
    destruct Ht as [Ht|[_ Hl]]; [now left|lia].
  - eauto. - eauto. - eauto.
  - (* ECall *) destruct q as [[p|] n]; cbn [qname_toks app]; eauto.
  - (* EPath *) destruct abs.
    + destruct (lead_head steps) as (t0 & r & -> & [->| ->]); eauto.
    + simpl in Hw. apply andb_prop in Hw. destruct Hw as [_ Hw]. simpl in Hw.
      destruct steps as [|s ss]; [discriminate|].
      destruct (join_head s ss) as (t0 & r & -> & Ht). exists t0, r. split; [reflexivity|left].
      destruct t0; try discriminate; reflexivity.
  - (* EFilter *) destruct (simple_primary e0) eqn:Es; [|unfold parens; cbn [app]; eauto].
    destruct e0; try discriminate; (destruct (xp _); [rewrite rend_unfold|rewrite rend_wrapped; cbn [parensN]; unfold parens; cbn [app]; eauto]);
      cbn [level Nat.ltb Nat.leb orb bare_root body app]; eauto.
    destruct q as [[p|] n]; cbn [qname_toks app]; eauto.
Qed.

Lemma wf_starts_ok e : wf e = true -> starts_ok e.
Proof.
  intros Hw. destruct (rend_head e Hw (xp e) 0) as (t & r & Hr & Ht). exists t, r. split; [exact Hr|].
  destruct Ht as [Ht|[-> _]]; [|discriminate]. intros ->. discriminate.
Qed.

Lemma forallb_Forall {T} (p : T -> bool) (P : T -> Prop) l :
  (forall x, p x = true -> P x) -> forallb p l = true -> Forall P l.
Proof.
  intros H. induction l as [|x l IH]; simpl; intros Hl; [constructor|].
  apply andb_prop in Hl. destruct Hl. constructor; auto.
Qed.

Lemma Forall_imp2 {T} (P Q R : T -> Prop) l : (forall x, P x -> Q x -> R x) -> Forall P l -> Forall Q l -> Forall R l.
Proof. intros H HP. induction HP; intros HQ; inversion HQ; subst; constructor; auto. Qed.

(** ** steps *)
Lemma stepfol_no_lbr X : stepfol X -> no_lbr X.
Proof. destruct X as [|[] X]; simpl; trivial; discriminate. Qed.
Lemma stepfol_nt_ok X : stepfol X -> nt_ok X.
Proof. destruct X as [|[] X]; simpl; trivial; discriminate. Qed.

Definition child_ok (Y : list tok) : Prop :=
  match Y with TLPar :: _ | TColon :: _ | TColonColon :: _ => False | _ => True end.
Lemma stepfol_child_ok X : stepfol X -> child_ok X.
Proof. destruct X as [|[] X]; simpl; trivial; discriminate. Qed.
Lemma child_ok_nt_ok Y : child_ok Y -> nt_ok Y.
Proof. destruct Y as [|[] Y]; simpl; tauto. Qed.

(** after the axis (explicit, [@], or none): node test and predicates *)
Definition with_test_ (g : nat) (a : axis) (r : list tok) : option (stp * list tok) :=
  match parse_nodetest false r with
  | None => None
  | Some (t, r2) => match ppr g r2 with Some (preds, r3) => Some (SAxis a t preds, r3) | None => None end
  end.

Lemma with_test_ok g a t preds X : Forall (fun p => A (xp p) p 0) preds -> stepfol X ->
  Npr (length (brackets rz preds)) <= g ->
  with_test_ g a (rend_test t ++ brackets rz preds ++ X) = Some (SAxis a t preds, X).
Proof.
  intros HP HX Hg. unfold with_test_. rewrite parse_nodetest_rend.
  - rewrite preds_ok; [reflexivity|exact HP|apply stepfol_no_lbr; exact HX|exact Hg].
  - destruct preds as [|p ps]; [apply stepfol_nt_ok; exact HX|rewrite brackets_cons; exact I].
Qed.

Lemma pst_explicit g a r : pst (S g) (TName (axis_name a) :: TColonColon :: r) = with_test_ g a r.
Proof. rewrite pst_S. cbv zeta. unfold axis_asis. rewrite axis_of_name_axis_name. reflexivity. Qed.
Lemma pst_at g r : pst (S g) (TAt :: r) = with_test_ g Attribute r.
Proof. reflexivity. Qed.
(** the implicit child axis: a node test that is followed by neither [(], [:] nor [::] *)
Lemma pst_implicit g t Y : child_ok Y -> pst (S g) (rend_test t ++ Y) = with_test_ g Child (rend_test t ++ Y).
Proof.
  intros HY. destruct t; cbn [rend_test app]; rewrite pst_S; cbv zeta; try reflexivity.
  - (* p:x *) destruct Y as [|[] Y]; simpl in HY; try contradiction; reflexivity.
  - (* x *) destruct Y as [|[] Y]; simpl in HY; try contradiction; reflexivity.
Qed.

Lemma step_axis a t preds : Forall (fun p => A (xp p) p 0) preds -> Qs (SAxis a t preds).
Proof.
  intros HP f X HX Hf.
  assert (Hexp : forall f, Ns (length (TName (axis_name a) :: TColonColon :: rend_test t ++ brackets rz preds)) <= f ->
            pst f ((TName (axis_name a) :: TColonColon :: rend_test t ++ brackets rz preds) ++ X) = Some (SAxis a t preds, X)).
  { intros f0 Hf0. cbn [length app] in *. rewrite app_length in Hf0.
    destruct f0 as [|g]; [unfold Ns in Hf0; lia|]. rewrite pst_explicit. rewrite <- app_assoc.
    apply with_test_ok; [exact HP|exact HX|unfold Ns, Npr in *; lia]. }
  assert (Himp : forall f, Ns (length (rend_test t ++ brackets rz preds)) <= f ->
            pst f ((rend_test t ++ brackets rz preds) ++ X) = Some (SAxis Child t preds, X)).
  { intros f0 Hf0. rewrite app_length in Hf0.
    destruct f0 as [|g]; [unfold Ns in Hf0; lia|]. rewrite <- app_assoc. rewrite pst_implicit.
    - apply with_test_ok; [exact HP|exact HX|unfold Ns, Npr in *; lia].
    - destruct preds as [|p ps]; [apply stepfol_child_ok; exact HX|rewrite brackets_cons; exact I]. }
  assert (Hat : forall f, Ns (length (TAt :: rend_test t ++ brackets rz preds)) <= f ->
            pst f ((TAt :: rend_test t ++ brackets rz preds) ++ X) = Some (SAxis Attribute t preds, X)).
  { intros f0 Hf0. cbn [length app] in *. rewrite app_length in Hf0.
    destruct f0 as [|g]; [unfold Ns in Hf0; lia|]. rewrite pst_at. rewrite <- app_assoc.
    apply with_test_ok; [exact HP|exact HX|unfold Ns, Npr in *; lia]. }
  cbn [Render.rend_step] in *. cbv zeta in *. destruct ab; [|now apply Hexp].
  destruct a; try (now apply Hexp); try (now apply Himp); try (now apply Hat).
  - (* parent *) destruct t; try (now apply Hexp). destruct preds; [|now apply Hexp].
    destruct f as [|g]; [unfold Ns in Hf; simpl in Hf; lia|]. reflexivity.
  - (* self *) destruct t; try (now apply Hexp). destruct preds; [|now apply Hexp].
    destruct f as [|g]; [unfold Ns in Hf; simpl in Hf; lia|]. reflexivity.
Qed.

Lemma fname_ok_false n : fname_ok false n = negb (is_node_type n).
Proof. unfold fname_ok, kw. cbn [andb negb]. now rewrite Bool.andb_true_r. Qed.
Lemma pfname_ok_false p n : pfname_ok false p n = true.
Proof. reflexivity. Qed.

Lemma rend_step_call q args : rend_step (SCall q args) = qname_toks q ++ TLPar :: sep_by TComma rz args ++ [TRPar].
Proof. reflexivity. Qed.

Lemma step_call q args : fn_ok q = true -> Forall (fun a => A (xp a) a 0) args -> Forall starts_ok args -> Qs (SCall q args).
Proof.
  intros Hq HA HS f X HX Hf. rewrite rend_step_call in *. destruct q as [[p|] n]; cbn [qname_toks app length] in *;
    rewrite app_length in Hf; cbn [length] in Hf;
    (destruct f as [|g]; [unfold Ns in Hf; lia|]); rewrite pst_S; cbv zeta; cbn [app].
  - rewrite pfname_ok_false. rewrite <- app_assoc. cbn [app].
    rewrite args_ok; [reflexivity|exact HA|exact HS|unfold Ns, Na in *; lia].
  - rewrite fname_ok_false. simpl in Hq. rewrite Hq. rewrite <- app_assoc. cbn [app].
    rewrite args_ok; [reflexivity|exact HA|exact HS|unfold Ns, Na in *; lia].
Qed.

(** ** path-level expressions *)
Definition after_primary (g : nat) (e : expr) (r : list tok) : option (expr * list tok) :=
  match ppr g r with
  | None => None
  | Some (preds, r2) =>
      match r2 with
      | TSlash :: r3 =>
          match prl g r3 with Some (steps, r4) => Some (EFilter e preds steps, r4) | None => None end
      | TSlashSlash :: r3 =>
          match prl g r3 with Some (steps, r4) => Some (EFilter e preds (dos_step :: steps), r4) | None => None end
      | _ => Some (match preds with [] => e | _ => EFilter e preds [] end, r2)
      end
  end.
(** [T] begins a primary expression *)
Definition prim_head (T : list tok) : Prop := forall Z g,
  pp (S g) (T ++ Z) = match ppm g (T ++ Z) with None => None | Some (e, r) => after_primary g e r end.
(** [T] is the primary expression [e0] *)
Definition Prim (e0 : expr) (T : list tok) : Prop := forall f Y, Npm (length T) <= f -> ppm f (T ++ Y) = Some (e0, Y).

Definition steps_part (steps : list stp) : list tok :=
  match steps with [] => [] | _ => lead steps end.

(** the continuation of an absolute path or of a filter expression: [/steps] or [//steps'] *)
Lemma lead_cases steps : steps <> [] ->
  lead steps = TSlash :: join steps \/
  (exists r, steps = dos_step :: r /\ r <> [] /\ lead steps = TSlashSlash :: join r).
Proof.
  intros Hne. unfold lead_steps. destruct steps as [|d [|x r]]; [congruence|now left|].
  destruct (ab && is_dos d) eqn:Ed; [|now left]. right.
  apply andb_prop in Ed. destruct Ed as [_ Ed]. apply is_dos_eq in Ed. subst d.
  exists (x :: r). repeat split. discriminate.
Qed.

Lemma pp_filter e0 T preds steps : prim_head T -> Prim e0 T ->
  Forall (fun p => A (xp p) p 0) preds -> Forall Qs steps ->
  forall f X, fol 8 X = true -> Np (length (T ++ brackets rz preds ++ steps_part steps)) <= f ->
  pp f (T ++ brackets rz preds ++ steps_part steps ++ X)
  = Some (match preds, steps with [], [] => e0 | _, _ => EFilter e0 preds steps end, X).
Proof.
  intros Hh HP Hpreds Hsteps f X HX Hf. repeat rewrite app_length in Hf.
  destruct f as [|g]; [unfold Np in Hf; lia|]. rewrite Hh.
  rewrite HP by (unfold Np, Npm in *; lia). unfold after_primary.
  rewrite preds_ok; [|exact Hpreds| |unfold Np, Npr in *; lia].
  - destruct steps as [|s ss]; cbn [steps_part app].
    + apply fol_quiet in HX. destruct preds; destruct X as [|[] X]; try reflexivity; contradiction.
    + cbn [steps_part] in Hf.
      destruct (lead_cases (s :: ss)) as [E|(r & Er & Hr & E)]; [discriminate| |]; rewrite E in *; cbn [app length] in *.
      * rewrite (relpath_ok (length (s :: ss))); [destruct preds; reflexivity|lia|discriminate|exact Hsteps|exact HX|unfold Np, Nr in *; lia].
      * rewrite Er in *. inversion Hsteps as [|? ? _ Hr']; subst.
        rewrite (relpath_ok (length r)); [destruct preds; reflexivity|lia|exact Hr|exact Hr'|exact HX|unfold Np, Nr in *; lia].
  - destruct steps as [|s ss]; cbn [steps_part app]; [apply quiet_no_lbr, (fol_quiet 8); exact HX|].
    destruct (lead_head (s :: ss)) as (t0 & r0 & -> & [->| ->]); exact I.
Qed.

Lemma prim_head_lit s : prim_head [TLiteral s]. Proof. intros Z g. reflexivity. Qed.
Lemma prim_head_num s : prim_head [TNumber s]. Proof. intros Z g. reflexivity. Qed.
Lemma prim_head_var q : prim_head [TVar q]. Proof. intros Z g. reflexivity. Qed.
Lemma prim_head_paren T : prim_head (TLPar :: T). Proof. intros Z g. reflexivity. Qed.
Lemma prim_head_call q T : fn_ok q = true -> prim_head (qname_toks q ++ TLPar :: T).
Proof.
  intros Hq Z g. destruct q as [[p|] n]; cbn [qname_toks app]; rewrite pp_S; cbn [starts_primary].
  - rewrite pfname_ok_false. reflexivity.
  - rewrite fname_ok_false. simpl in Hq. rewrite Hq. reflexivity.
Qed.

Lemma Prim_lit s : Prim (ELit s) [TLiteral s].
Proof. intros f Y Hf. destruct f; [unfold Npm in Hf; lia|reflexivity]. Qed.
Lemma Prim_num s : Prim (ENum s) [TNumber s].
Proof. intros f Y Hf. destruct f; [unfold Npm in Hf; lia|reflexivity]. Qed.
Lemma Prim_var q : Prim (EVar q) [TVar q].
Proof. intros f Y Hf. destruct f; [unfold Npm in Hf; lia|reflexivity]. Qed.
Lemma Prim_paren T e : inner0 e T -> Prim e (parens T).
Proof.
  intros HA f Y Hf. unfold parens in *. cbn [length app] in *. rewrite app_length in Hf. cbn [length] in Hf.
  destruct f as [|g]; [unfold Npm in Hf; lia|]. rewrite ppm_S. rewrite <- app_assoc. cbn [app].
  rewrite HA; [reflexivity|reflexivity|unfold Npm, Nb in *; lia].
Qed.
Lemma Prim_call q args : Forall (fun a => A (xp a) a 0) args -> Forall starts_ok args ->
  Prim (ECall q args) (qname_toks q ++ TLPar :: sep_by TComma rz args ++ [TRPar]).
Proof.
  intros HA HS f Y Hf. destruct q as [[p|] n]; cbn [qname_toks app length] in *; rewrite app_length in Hf; cbn [length] in Hf;
    (destruct f as [|g]; [unfold Npm in Hf; lia|]); rewrite ppm_S; rewrite <- app_assoc; cbn [app];
    (rewrite args_ok; [reflexivity|exact HA|exact HS|unfold Npm, Na in *; lia]).
Qed.

Lemma starts_step_join steps X : steps <> [] -> starts_step false (join steps ++ X) = true.
Proof.
  destruct steps as [|s ss]; [congruence|intros _]. destruct (join_head s ss) as (t & r & -> & Ht).
  destruct t; try discriminate; reflexivity.
Qed.

(** a token list that begins neither an absolute path nor a primary expression is a relative path *)
Lemma pp_rel_gen ts g : match ts with TRoot :: _ | TSlash :: _ | TSlashSlash :: _ => False | _ => True end ->
  starts_primary false ts = false ->
  pp (S g) ts = match prl g ts with Some (steps, r) => Some (EPath false steps, r) | None => None end.
Proof. intros H1 H2. rewrite pp_S. destruct ts as [|[] ts]; try contradiction; rewrite ?H2; reflexivity. Qed.

Lemma step_not_primary a t ps W : child_ok W ->
  match rend_step (SAxis a t ps) ++ W with TRoot :: _ | TSlash :: _ | TSlashSlash :: _ => False | _ => True end /\
  starts_primary false (rend_step (SAxis a t ps) ++ W) = false.
Proof.
  intros HW.
  assert (Hexp : forall R, match (TName (axis_name a) :: TColonColon :: R) ++ W with TRoot :: _ | TSlash :: _ | TSlashSlash :: _ => False | _ => True end /\
            starts_primary false ((TName (axis_name a) :: TColonColon :: R) ++ W) = false) by (intros R; split; [exact I|reflexivity]).
  assert (Himp : match (rend_test t ++ brackets rz ps) ++ W with TRoot :: _ | TSlash :: _ | TSlashSlash :: _ => False | _ => True end /\
            starts_primary false ((rend_test t ++ brackets rz ps) ++ W) = false).
  { rewrite <- app_assoc.
    assert (HY : child_ok (brackets rz ps ++ W)) by (destruct ps; [exact HW|rewrite brackets_cons; exact I]).
    destruct t; cbn [rend_test app]; try (split; [exact I|reflexivity]);
      destruct (brackets rz ps ++ W) as [|[] Y]; simpl in HY; try contradiction; split; try exact I; reflexivity. }
  cbn [Render.rend_step]. cbv zeta. destruct ab; [|apply Hexp].
  destruct a; try apply Hexp; try exact Himp; try (split; [exact I|reflexivity]);
    destruct t; try apply Hexp; destruct ps; try apply Hexp; split; try exact I; reflexivity.
Qed.

Lemma join_first_child_ok s ss X : fol 8 X = true ->
  exists W, join (s :: ss) ++ X = rend_step s ++ W /\ child_ok W.
Proof.
  intros HX. assert (HXc : child_ok X) by (apply fol_quiet in HX; destruct X as [|[] X]; simpl in *; tauto).
  destruct ss as [|d [|x ss]].
  - rewrite join_one. eauto.
  - rewrite join_two, <- app_assoc. cbn [app]. eexists. split; [reflexivity|exact I].
  - rewrite join_three. destruct (ab && is_dos d); rewrite <- app_assoc; cbn [app]; eexists; (split; [reflexivity|exact I]).
Qed.

Lemma pp_rel a t ps ss X g : fol 8 X = true -> pp (S g) (join (SAxis a t ps :: ss) ++ X) =
  match prl g (join (SAxis a t ps :: ss) ++ X) with
  | Some (steps, r) => Some (EPath false steps, r) | None => None end.
Proof.
  intros HX. destruct (join_first_child_ok (SAxis a t ps) ss X HX) as (W & E & HW). rewrite E.
  destruct (step_not_primary a t ps W HW) as [H1 H2]. now apply pp_rel_gen.
Qed.

(** ** assembling [Good] *)
Lemma good_from_U k e : (k = 0 -> 6 <= level e) -> U k e -> B k e -> D k e -> E k e -> Good k e.
Proof.
  intros Hl HU HB HD HE.
  assert (H6 : A k e 6) by (apply A6_from_U; exact HU).
  assert (Hd : forall lvl, lvl <= 6 -> A k e lvl /\ (lvl < 6 -> C k e lvl)).
  { intros lvl Hlvl. apply (descend k e 6 0) with (n := 6 - lvl); try lia; try exact H6;
      try (intros l Hl1 Hk; specialize (Hl Hk); lia). }
  split; [intros lvl H; apply Hd; exact H|]. split; [intros lvl H; apply Hd; lia|]. tauto.
Qed.

Lemma good_path e : level e = 8 -> wf e = true -> B 0 e -> E 0 e -> Good 0 e.
Proof.
  intros Hl Hw HB HE.
  assert (HD : D 0 e) by (apply D_from_B; [intros _; lia|exact HB]).
  apply good_from_U; try assumption; [intros _; lia|].
  apply U_from_D; [intros _; lia| |exact HD].
  destruct (rend_head e Hw 0 7) as (t & r & Hr & [Ht|[_ Hc]]); [eauto|lia].
Qed.

Lemma E_not_simple k e : simple_primary e = false -> E k e.
Proof. intros H H'. congruence. Qed.

Lemma good_paren_side e : level e <= 7 -> bare_root e = false -> A 0 e 0 -> B 0 e /\ (level e <> 7 -> D 0 e).
Proof.
  intros Hl Hb HA.
  assert (HB : B 0 e). { intros f X HX Hf. rewrite (rend_paren 8 e) in * by (assumption || lia). now apply paren_pp. }
  split; [exact HB|intros; apply D_from_B; [intros _; assumption|exact HB]].
Qed.

Lemma good_neg a : Good (xp a) a -> Good 0 (ENeg a).
Proof.
  intros (_ & _ & Ua & _).
  assert (HU : U 0 (ENeg a)).
  { intros f X HX Hf. rewrite (rend_unfold 6 (ENeg a)) in *. cbn [level Nat.ltb Nat.leb orb bare_root body app length] in *.
    destruct f as [|g]; [unfold Nu in Hf; lia|]. rewrite pu_S.
    rewrite Ua; [reflexivity|exact HX|unfold Nu in *; lia]. }
  assert (H6 : A 0 (ENeg a) 6) by (apply A6_from_U; exact HU).
  assert (H0 : A 0 (ENeg a) 0). { apply (descend 0 (ENeg a) 6 0) with (n := 6); try lia; try exact H6; try (simpl; intros; lia). }
  destruct (good_paren_side (ENeg a)) as [HB HD]; [simpl; lia|reflexivity|exact H0|].
  apply good_from_U; [simpl; lia|exact HU|exact HB|apply HD; simpl; lia|apply E_not_simple; reflexivity].
Qed.

Lemma good_union a b : wf (EUnion a b) = true -> Good (xp a) a -> Good (xp b) b -> Good 0 (EUnion a b).
Proof.
  intros Hw (_ & _ & _ & _ & Da & _) (_ & _ & _ & Bb & _).
  assert (HD : D 0 (EUnion a b)).
  { intros f X HX Hf. pose proof (nu_le a (xp a)) as Hn.
    change (nu 0 (EUnion a b)) with (S (nu (xp a) a)) in *. rewrite (rend_unfold 7 (EUnion a b)) in *.
    cbn [level Nat.ltb Nat.leb orb bare_root body] in *. rewrite app_length in Hf. cbn [length] in Hf.
    replace (f + S (nu (xp a) a)) with (S f + nu (xp a) a) by lia. rewrite <- app_assoc. cbn [app].
    rewrite Da; [|reflexivity|unfold Np in *; lia]. rewrite ul_S.
    rewrite Bb; [reflexivity|exact HX|unfold Np in *; lia]. }
  assert (HU : U 0 (EUnion a b)).
  { apply U_from_D; [simpl; lia| |exact HD].
    destruct (rend_head _ Hw 0 7) as (t & r & Hr & [Ht|[_ Hc]]); [eauto|lia]. }
  assert (H6 : A 0 (EUnion a b) 6) by (apply A6_from_U; exact HU).
  assert (H0 : A 0 (EUnion a b) 0). { apply (descend 0 _ 6 0) with (n := 6); try lia; try exact H6; try (simpl; intros; lia). }
  destruct (good_paren_side (EUnion a b)) as [HB _]; [simpl; lia|reflexivity|exact H0|].
  apply good_from_U; [simpl; lia|exact HU|exact HB|exact HD|apply E_not_simple; reflexivity].
Qed.

Lemma good_binary e a b L t (mk : expr -> expr -> expr) :
  L <= 5 -> level e = L -> op_at L t = Some mk -> e = mk a b ->
  (forall lvl, lvl <= L -> rk 0 lvl e = rk (xp a) L a ++ t :: rk (xp b) (S L) b) ->
  nops 0 L e = S (nops (xp a) L a) -> bare_root e = false -> simple_primary e = false ->
  Good (xp a) a -> Good (xp b) b -> Good 0 e.
Proof.
  intros HL Hlev Hop He Hrend Hnops Hbare Hsimple (Aa & Ca & _) (Ab & _).
  assert (HC : C 0 e L).
  { intros f X HX Hf. pose proof (nops_le a (xp a) L) as Hn. rewrite Hnops in *. rewrite (Hrend L (le_n _)) in *.
    rewrite app_length in Hf. cbn [length] in Hf.
    replace (f + S (nops (xp a) L a)) with (S f + nops (xp a) L a) by lia. rewrite <- app_assoc. cbn [app].
    rewrite (Ca L HL); [|simpl; rewrite (op_at_level _ _ _ Hop); replace (Nat.ltb L (S L)) with true by (symmetry; apply Nat.ltb_lt; lia); apply Bool.orb_true_r|unfold Nb in *; lia].
    rewrite bl_S. rewrite Hop.
    rewrite (Ab (S L)); [now subst e|lia|exact HX|unfold Nb in *; lia]. }
  assert (HAL : A 0 e L) by (apply A_from_C; assumption).
  assert (Hlow : forall lvl, lvl <= L -> A 0 e lvl /\ (lvl < L -> C 0 e lvl)).
  { intros lvl Hlvl. apply (descend 0 e L 0) with (n := L - lvl); try lia; try exact HAL; try (intros; lia). }
  assert (H0 : A 0 e 0) by (apply Hlow; lia).
  assert (HU : U 0 e). { intros f X HX Hf. rewrite (rend_paren 6 e) in * by (assumption || lia). now apply paren_pu. }
  assert (H6 : A 0 e 6) by (apply A6_from_U; exact HU).
  assert (Hhigh : forall lvl, L < lvl -> lvl <= 6 -> A 0 e lvl /\ (lvl < 6 -> C 0 e lvl)).
  { intros lvl H1 H2. apply (descend 0 e 6 (S L)) with (n := 6 - lvl); try lia; try exact H6; try (intros; lia). }
  destruct (good_paren_side e) as [HB HD]; [lia|exact Hbare|exact H0|].
  split; [|split; [|split; [exact HU|split; [exact HB|split; [apply HD; lia|apply E_not_simple; exact Hsimple]]]]].
  - intros lvl Hlvl. destruct (Nat.le_gt_cases lvl L); [apply Hlow; assumption|apply Hhigh; lia].
  - intros lvl Hlvl. destruct (Nat.lt_trichotomy lvl L) as [H|[H|H]]; [apply Hlow; lia|subst lvl; exact HC|apply Hhigh; lia].
Qed.

(** the bare root, always written [( / )] *)
Lemma fol0 X : fol 0 X = true -> match X with [] => True | t :: _ => ender t = true end.
Proof.
  destruct X as [|t X]; simpl; trivial. destruct (ender t); trivial. simpl.
  destruct (tok_level t); discriminate.
Qed.

Lemma bare_root_inner : inner0 (EPath true []) [TSlash].
Proof.
  intros f X HX Hf. unfold Nb in Hf. simpl in Hf.
  do 12 (destruct f as [|f]; [lia|]). apply fol0 in HX.
  destruct X as [|[] X]; try discriminate HX; reflexivity.
Qed.

Lemma B_bare_root : B 0 (EPath true []).
Proof.
  intros f X HX Hf. change (rk 0 8 (EPath true [])) with (parens [TSlash]) in *.
  apply paren_pp_gen; [exact bare_root_inner|exact HX|exact Hf].
Qed.

(** ** redundant parentheses: any number of pairs around something that reads as [e] at level 0 *)
Lemma parens_inj a b : parens a = parens b -> a = b.
Proof. unfold parens. intros H. injection H as H. now apply app_inv_tail in H. Qed.

Lemma good_wrapped e T : inner0 e T -> forall k, (forall lvl, rk (S k) lvl e = parensN (S k) T) -> Good (S k) e.
Proof.
  intros HT k. induction k as [|k IH]; intros Hr.
  - assert (Hin : inner0 e (parensN 0 T)) by exact HT.
    assert (HB : B 1 e) by (intros f X HX Hf; rewrite Hr in *; cbn [parensN] in *; now apply paren_pp_gen).
    assert (HD : D 1 e) by (apply D_from_B; [discriminate|exact HB]).
    apply good_from_U; try assumption; [discriminate| |].
    + intros f X HX Hf. rewrite Hr in *. cbn [parensN] in *. now apply paren_pu_gen.
    + intros _ f X Hf. rewrite Hr in *. cbn [parensN] in *. now apply Prim_paren.
  - (* one more pair around the rendering with [S k] pairs *)
    assert (Hk : Good (S k) e).
    { apply IH. intros lvl. pose proof (Hr lvl) as H. rewrite rend_wrapped in *.
      change (parensN (S (S k)) (body e)) with (parens (parensN (S k) (body e))) in H.
      change (parensN (S (S k)) T) with (parens (parensN (S k) T)) in H. now apply parens_inj in H. }
    destruct Hk as (HA & _).
    assert (Hin : inner0 e (parensN (S k) T)).
    { intros f X HX Hf. pose proof (HA 0 (Nat.le_0_l _) f X HX) as H.
      assert (Hrk : rk (S k) 0 e = parensN (S k) T).
      { pose proof (Hr 0) as H1. rewrite !rend_wrapped in *.
        change (parensN (S (S k)) (body e)) with (parens (parensN (S k) (body e))) in H1.
        change (parensN (S (S k)) T) with (parens (parensN (S k) T)) in H1. now apply parens_inj in H1. }
      rewrite Hrk in H. apply H. exact Hf. }
    assert (HB : B (S (S k)) e) by (intros f X HX Hf; rewrite Hr in *; change (parensN (S (S k)) T) with (parens (parensN (S k) T)) in *; now apply paren_pp_gen).
    assert (HD : D (S (S k)) e) by (apply D_from_B; [discriminate|exact HB]).
    apply good_from_U; try assumption; [discriminate| |].
    + intros f X HX Hf. rewrite Hr in *. change (parensN (S (S k)) T) with (parens (parensN (S k) T)) in *. now apply paren_pu_gen.
    + intros _ f X Hf. rewrite Hr in *. change (parensN (S (S k)) T) with (parens (parensN (S k) T)) in *. now apply Prim_paren.
Qed.

Lemma good_all e : Good 0 e -> forall k, Good k e.
Proof.
  intros H0 [|k]; [exact H0|].
  apply (good_wrapped e (body e)); [|intros lvl; apply rend_wrapped].
  destruct (bare_root e) eqn:Eb.
  - destruct e as [| | | | | | | | | |[] [|]|]; try discriminate. exact bare_root_inner.
  - destruct H0 as (HA & _). intros f X HX Hf. pose proof (HA 0 (Nat.le_0_l _) f X HX) as H.
    rewrite rend_unfold in H. rewrite Eb in H. replace (Nat.ltb (level e) 0) with false in H by (symmetry; apply Nat.ltb_ge; lia).
    apply H. exact Hf.
Qed.

(** ** the induction *)
Definition Pe (e : expr) : Prop := wf e = true -> forall k, Good k e.
Definition Ps (s : stp) : Prop := wf_step s = true -> Qs s.

Lemma args_facts args : Forall Pe args -> forallb wf args = true ->
  Forall (fun a => A (xp a) a 0) args /\ Forall starts_ok args.
Proof.
  intros HP Hw. assert (Hwf : Forall (fun a => wf a = true) args) by (eapply forallb_Forall; [|exact Hw]; auto).
  split.
  - eapply Forall_imp2; [|exact HP|exact Hwf]. intros x Hx Hwx. apply (Hx Hwx (xp x)). lia.
  - eapply Forall_impl; [|exact Hwf]. intros x. apply wf_starts_ok.
Qed.

Lemma steps_facts steps : Forall Ps steps -> forallb wf_step steps = true -> Forall Qs steps.
Proof.
  intros HP Hw. assert (Hwf : Forall (fun s => wf_step s = true) steps) by (eapply forallb_Forall; [|exact Hw]; auto).
  eapply Forall_imp2; [|exact HP|exact Hwf]. intros x Hx Hwx. exact (Hx Hwx).
Qed.

Ltac rend_low := intros lvl Hlvl; rewrite rend_unfold; cbn [level bare_root orb body];
  match goal with |- context [Nat.ltb ?L lvl] => replace (Nat.ltb L lvl) with false by (symmetry; apply Nat.ltb_ge; lia) end;
  rewrite Bool.orb_false_r || idtac; reflexivity.

Lemma all_good : (forall e, Pe e) /\ (forall s, Ps s).
Proof.
  apply expr_stp_ind.
  - (* EOr *) intros a b Ha Hb Hw. apply good_all. simpl in Hw. apply andb_prop in Hw. destruct Hw as [Hwa Hwb].
    apply (good_binary (EOr a b) a b 0 (TName (lit "or")) EOr); try reflexivity; try lia; auto. rend_low.
  - (* EAnd *) intros a b Ha Hb Hw. apply good_all. simpl in Hw. apply andb_prop in Hw. destruct Hw as [Hwa Hwb].
    apply (good_binary (EAnd a b) a b 1 (TName (lit "and")) EAnd); try reflexivity; try lia; auto. rend_low.
  - (* ECmp *) intros op a b Ha Hb Hw. apply good_all. simpl in Hw. apply andb_prop in Hw. destruct Hw as [Hwa Hwb].
    apply (good_binary (ECmp op a b) a b (cmp_level op) (cmp_tok op) (ECmp op)); try reflexivity; auto.
    + destruct op; simpl; lia.
    + destruct op; reflexivity.
    + rend_low.
    + unfold nops. cbn [nops0]. now rewrite Nat.eqb_refl.
  - (* EArith *) intros op a b Ha Hb Hw. apply good_all. simpl in Hw. apply andb_prop in Hw. destruct Hw as [Hwa Hwb].
    apply (good_binary (EArith op a b) a b (ar_level op) (ar_tok op) (EArith op)); try reflexivity; auto.
    + destruct op; simpl; lia.
    + destruct op; reflexivity.
    + rend_low.
    + unfold nops. cbn [nops0]. now rewrite Nat.eqb_refl.
  - (* ENeg *) intros a Ha Hw. apply good_all. simpl in Hw. apply good_neg. auto.
  - (* EUnion *) intros a b Ha Hb Hw. apply good_all. pose proof Hw as Hw'. simpl in Hw'. apply andb_prop in Hw'. destruct Hw' as [Hwa Hwb].
    apply good_union; auto.
  - (* ELit *) intros v Hw. apply good_all. apply good_path; [reflexivity|exact Hw| |].
    + intros f X HX Hf. exact (pp_filter (ELit v) [TLiteral v] [] [] (prim_head_lit v) (Prim_lit v) (Forall_nil _) (Forall_nil _) f X HX Hf).
    + intros _ f X Hf. exact (Prim_lit v f X Hf).
  - (* ENum *) intros v Hw. apply good_all. apply good_path; [reflexivity|exact Hw| |].
    + intros f X HX Hf. exact (pp_filter (ENum v) [TNumber v] [] [] (prim_head_num v) (Prim_num v) (Forall_nil _) (Forall_nil _) f X HX Hf).
    + intros _ f X Hf. exact (Prim_num v f X Hf).
  - (* EVar *) intros q Hw. apply good_all. apply good_path; [reflexivity|exact Hw| |].
    + intros f X HX Hf. exact (pp_filter (EVar q) [TVar q] [] [] (prim_head_var q) (Prim_var q) (Forall_nil _) (Forall_nil _) f X HX Hf).
    + intros _ f X Hf. exact (Prim_var q f X Hf).
  - (* ECall *) intros q args Hargs Hw. apply good_all. pose proof Hw as Hw'. simpl in Hw'. apply andb_prop in Hw'. destruct Hw' as [Hq Hwa].
    destruct (args_facts args Hargs Hwa) as [HA HS].
    assert (Hr : forall lvl, lvl <= 8 -> rk 0 lvl (ECall q args) = qname_toks q ++ TLPar :: (sep_by TComma rz args ++ [TRPar])).
    { intros lvl Hlvl. rewrite rend_unfold. cbn [level bare_root body].
      replace (Nat.ltb 8 lvl) with false by (symmetry; apply Nat.ltb_ge; lia). reflexivity. }
    apply good_path; [reflexivity|exact Hw| |].
    + intros f X HX Hf. rewrite (Hr 8 (le_n _)) in *.
      pose proof (pp_filter (ECall q args) _ [] [] (prim_head_call q _ Hq) (Prim_call q args HA HS) (Forall_nil _) (Forall_nil _) f X HX) as H.
      cbn [brackets map concat steps_part app] in H. rewrite app_nil_r in H. apply H. exact Hf.
    + intros _ f X Hf. rewrite (Hr 0 (Nat.le_0_l _)) in *. exact (Prim_call q args HA HS f X Hf).
  - (* EPath *) intros abs steps Hsteps Hw. apply good_all. pose proof Hw as Hw'. simpl in Hw'. apply andb_prop in Hw'. destruct Hw' as [Hws Hshape].
    pose proof (steps_facts steps Hsteps Hws) as HQ.
    apply good_path; [reflexivity|exact Hw| |apply E_not_simple; reflexivity].
    destruct abs.
    + destruct steps as [|s ss]; [exact B_bare_root|].
      intros f X HX Hf. rewrite rend_unfold in *. cbn [level bare_root Nat.ltb Nat.leb orb body] in *.
      destruct f as [|g]; [unfold Np in Hf; lia|]. rewrite pp_S.
      destruct (lead_cases (s :: ss)) as [E0|(r & Er & Hr & E0)]; [discriminate| |]; rewrite E0 in *; cbn [app length] in *.
      * rewrite starts_step_join by discriminate.
        rewrite (relpath_ok (length (s :: ss))); [reflexivity|lia|discriminate|exact HQ|exact HX|unfold Np, Nr in *; lia].
      * rewrite Er in *. inversion HQ as [|? ? _ HQr]; subst.
        rewrite (relpath_ok (length r)); [reflexivity|lia|exact Hr|exact HQr|exact HX|unfold Np, Nr in *; lia].
    + simpl in Hshape. destruct steps as [|[a t ps|q args] ss]; try discriminate.
      intros f X HX Hf. rewrite rend_unfold in *. cbn [level bare_root Nat.ltb Nat.leb orb body] in *.
      destruct f as [|g]; [unfold Np in Hf; lia|]. rewrite pp_rel by exact HX.
      rewrite (relpath_ok (length (SAxis a t ps :: ss))); [reflexivity|lia|discriminate|exact HQ|exact HX|unfold Np, Nr in *; lia].
  - (* EFilter *) intros e0 preds steps He0 Hpreds Hsteps Hw. apply good_all. pose proof Hw as Hw'. simpl in Hw'.
    apply andb_prop in Hw'. destruct Hw' as [Hw' Hshape]. apply andb_prop in Hw'. destruct Hw' as [Hw' Hws].
    apply andb_prop in Hw'. destruct Hw' as [Hw0 Hwp].
    destruct (args_facts preds Hpreds Hwp) as [HA _]. pose proof (steps_facts steps Hsteps Hws) as HQ.
    destruct (He0 Hw0 (xp e0)) as (A0 & _ & _ & _ & _ & E0).
    apply good_path; [reflexivity|exact Hw| |apply E_not_simple; reflexivity].
    intros f X HX Hf. rewrite rend_unfold in *. cbn [level bare_root Nat.ltb Nat.leb orb body] in *.
    fold (steps_part steps) in *.
    assert (Hres : match preds, steps with [], [] => e0 | _, _ => EFilter e0 preds steps end = EFilter e0 preds steps)
      by (destruct preds, steps; try reflexivity; discriminate).
    rewrite <- Hres. rewrite <- !app_assoc.
    destruct (simple_primary e0) eqn:Es.
    + apply pp_filter; try assumption.
      * destruct (xp e0) eqn:Ex; [|rewrite rend_wrapped; cbn [parensN]; apply prim_head_paren].
        destruct e0; try discriminate.
        -- apply prim_head_lit. -- apply prim_head_num. -- apply prim_head_var.
        -- simpl in Hw0. apply andb_prop in Hw0. destruct Hw0 as [Hq0 _].
           rewrite rend_unfold. cbn [level bare_root Nat.ltb Nat.leb orb body]. now apply prim_head_call.
      * intros f' Y Hf'. now apply E0.
    + apply pp_filter; try assumption; [apply prim_head_paren|apply Prim_paren; apply A0; lia].
  - (* SAxis *) intros a t preds Hpreds Hw. simpl in Hw. destruct (args_facts preds Hpreds Hw) as [HA _]. now apply step_axis.
  - (* SCall *) intros q args Hargs Hw. simpl in Hw. apply andb_prop in Hw. destruct Hw as [Hq Hwa].
    destruct (args_facts args Hargs Hwa) as [HA HS]. now apply step_call.
Qed.

(** ** the theorem *)
Theorem parse_rend : forall e, wf e = true -> parse_tokens false (Render.rend xp ab 0 e) = Some e.
Proof.
  intros e Hw. unfold Render.rend. destruct (proj1 all_good e Hw (xp e)) as (HA & _). unfold parse_tokens.
  specialize (HA 0 (Nat.le_0_l _) (30 * (length (rk (xp e) 0 e) + 2)) [] eq_refl). rewrite app_nil_r in HA.
  rewrite HA; [reflexivity|unfold Nb; lia].
Qed.
End AB.

(** abbreviated forms are their expansions, redundant parentheses change nothing: all renderings
    of one AST parse to the same tree *)
Corollary renderings_agree xp xp' ab ab' e : wf e = true ->
  parse_tokens false (rend xp ab 0 e) = parse_tokens false (rend xp' ab' 0 e).
Proof. intros H. now rewrite !parse_rend. Qed.

Corollary abbreviations_are_expansions_all e : wf e = true ->
  parse_tokens false (rend minimal true 0 e) = parse_tokens false (rend minimal false 0 e).
Proof. apply renderings_agree. Qed.

(** non-vacuity: a well-formed AST using every level, with steps that abbreviate ([.], [..], [@],
    implicit child, [//]), rendered in full, abbreviated, and with redundant parentheses around
    every sub-expression, and read back by the kernel *)
Example parse_rend_instance :
  let n1 := ENum (lit "1") in
  let a := EPath false [SAxis Child (NTName (lit "a")) [ECmp CEq (ECall (None, lit "position") []) n1];
                        SAxis DescendantOrSelf NTNode []; SAxis Attribute NTAny []; SAxis Parent NTNode []; SAxis Self NTNode []] in
  let e := EOr (EAnd (ECmp CLt (EArith ASub (EArith AMul (ENeg a) n1) n1) n1)
                     (EUnion a (EFilter (EVar (None, lit "v")) [n1] [SAxis DescendantOrSelf NTNode []; SAxis Child NTText []])))
               (EPath true []) in
  let twice := fun x : expr => match x with ENum _ => 2 | EPath _ _ => 1 | EAnd _ _ => 1 | _ => 0 end in
  wf e = true /\ parse_tokens false (rend minimal false 0 e) = Some e /\ parse_tokens false (rend minimal true 0 e) = Some e /\
  parse_tokens false (rend twice true 0 e) = Some e /\
  rend minimal true 0 e <> rend minimal false 0 e /\ rend twice true 0 e <> rend minimal true 0 e.
Proof. repeat split; try reflexivity; vm_compute; discriminate. Qed.
