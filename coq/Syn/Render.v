(** C08: a canonical rendering of every AST as a token list (and as text), with the
    minimal parentheses the precedence levels require: a sub-expression is put in
    parentheses exactly when its level is below the level of the position it stands in
    (left operands at the operator's level, right operands one above: binary operators
    associate to the left). With [ab = false] steps are written in full
    ([axis::test[p]...]), with [ab = true] in their abbreviated forms; the bare
    root [/] is always parenthesised (after [/] a [*] or an operator name would be
    read as a step). Syn/RoundTrip.v proves that the model parser reads every rendering
    back to the AST it was made from. *)
From XV Require Import Base.Str Base.Num Xp.Ast Syn.Parse.
From Coq Require String.
Import String.StringSyntax.
Local Open Scope string_scope.

Definition axis_name (a : axis) : str :=
  lit (match a with
       | Child => "child" | Descendant => "descendant" | DescendantOrSelf => "descendant-or-self"
       | Parent => "parent" | Ancestor => "ancestor" | AncestorOrSelf => "ancestor-or-self"
       | FollowingSibling => "following-sibling" | PrecedingSibling => "preceding-sibling"
       | Following => "following" | Preceding => "preceding"
       | Attribute => "attribute" | Namespace => "namespace" | Self => "self"
       end).

Definition cmp_level (op : cmpop) : nat := match op with CEq | CNe => 2 | _ => 3 end.
Definition ar_level (op : arop) : nat := match op with AAdd | ASub => 4 | _ => 5 end.
Definition cmp_tok (op : cmpop) : tok :=
  match op with CEq => TEq | CNe => TNe | CLt => TLt | CLe => TLe | CGt => TGt | CGe => TGe end.
Definition ar_tok (op : arop) : tok :=
  match op with AAdd => TPlus | ASub => TMinus | AMul => TStar | ADiv => TName (lit "div") | AMod => TName (lit "mod") end.

(** or 0 < and 1 < equality 2 < relational 3 < additive 4 < multiplicative 5 < unary 6 < union 7 < path 8 *)
Definition level (e : expr) : nat :=
  match e with
  | EOr _ _ => 0 | EAnd _ _ => 1
  | ECmp op _ _ => cmp_level op
  | EArith op _ _ => ar_level op
  | ENeg _ => 6 | EUnion _ _ => 7
  | _ => 8
  end.

Definition bare_root (e : expr) : bool := match e with EPath true [] => true | _ => false end.
Definition simple_primary (e : expr) : bool :=
  match e with ELit _ | ENum _ | EVar _ | ECall _ _ => true | _ => false end.

Definition qname_toks (q : rawq) : list tok :=
  match q with (None, n) => [TName n] | (Some p, n) => [TName p; TColon; TName n] end.

Definition rend_test (t : nodetest) : list tok :=
  match t with
  | NTNode => [TName (lit "node"); TLPar; TRPar]
  | NTText => [TName (lit "text"); TLPar; TRPar]
  | NTComment => [TName (lit "comment"); TLPar; TRPar]
  | NTPI => [TName (lit "processing-instruction"); TLPar; TRPar]
  | NTPITarget s => [TName (lit "processing-instruction"); TLPar; TLiteral s; TRPar]
  | NTAny => [TStar]
  | NTNsAny p => [TName p; TColon; TStar]
  | NTLocalAny l => [TStar; TColon; TName l]
  | NTQName p l => [TName p; TColon; TName l]
  | NTName l => [TName l]
  end.

(** [f a1 ++ sep :: f a2 ++ sep :: ... ++ f an] *)
Definition sep_by {A} (sep : tok) (f : A -> list tok) : list A -> list tok :=
  fix go (l : list A) : list tok :=
    match l with
    | [] => []
    | a :: r => match r with [] => f a | _ => f a ++ sep :: go r end
    end.

Definition brackets (f : expr -> list tok) (ps : list expr) : list tok :=
  concat (map (fun p => TLBr :: f p ++ [TRBr]) ps).

Definition parens (b : list tok) : list tok := TLPar :: b ++ [TRPar].

(** abbreviated steps ([ab = true]): [.], [..], [@test], the implicit child axis, and [//]
    for a [descendant-or-self::node()] step that stands between two steps (or between the
    root / a filter expression and a step) *)
Definition is_dos (s : stp) : bool := match s with SAxis DescendantOrSelf NTNode [] => true | _ => false end.

Definition join_steps (ab : bool) (f : stp -> list tok) : list stp -> list tok :=
  fix go (l : list stp) : list tok :=
    match l with
    | [] => []
    | s :: r =>
        match r with
        | [] => f s
        | d :: r2 =>
            match r2 with
            | [] => f s ++ TSlash :: go r
            | _ => if ab && is_dos d then f s ++ TSlashSlash :: go r2 else f s ++ TSlash :: go r
            end
        end
    end.

(** the steps after a leading [/] (absolute path, continuation of a filter expression) *)
Definition lead_steps (ab : bool) (f : stp -> list tok) (steps : list stp) : list tok :=
  match steps with
  | d :: (_ :: _) as r => if ab && is_dos d then TSlashSlash :: join_steps ab f r else TSlash :: join_steps ab f steps
  | _ => TSlash :: join_steps ab f steps
  end.

Fixpoint parensN (n : nat) (b : list tok) : list tok := match n with O => b | S k => parens (parensN k b) end.

(** [xp e]: how many REDUNDANT pairs of parentheses to put around each occurrence of the
    sub-expression [e] (an arbitrary function; [fun _ => 0] gives the minimal rendering).
    [rendk k lvl e]: [e] at a position of level [lvl] with [k] redundant pairs around it;
    when [k > 0] they also serve where a pair is required. *)
Section Rend.
  Variable xp : expr -> nat.
  Variable ab : bool.

  Fixpoint rendk (k : nat) (lvl : nat) (e : expr) {struct e} : list tok :=
    let body :=
      match e with
      | EOr a b => rendk (xp a) 0 a ++ TName (lit "or") :: rendk (xp b) 1 b
      | EAnd a b => rendk (xp a) 1 a ++ TName (lit "and") :: rendk (xp b) 2 b
      | ECmp op a b => rendk (xp a) (cmp_level op) a ++ cmp_tok op :: rendk (xp b) (S (cmp_level op)) b
      | EArith op a b => rendk (xp a) (ar_level op) a ++ ar_tok op :: rendk (xp b) (S (ar_level op)) b
      | ENeg a => TMinus :: rendk (xp a) 6 a
      | EUnion a b => rendk (xp a) 7 a ++ TPipe :: rendk (xp b) 8 b
      | ELit s => [TLiteral s]
      | ENum s => [TNumber s]
      | EVar q => [TVar q]
      | ECall q args => qname_toks q ++ TLPar :: sep_by TComma (fun a => rendk (xp a) 0 a) args ++ [TRPar]
      | EPath abs steps => if abs then lead_steps ab rend_step steps else join_steps ab rend_step steps
      | EFilter e0 preds steps =>
          (if simple_primary e0 then rendk (xp e0) 0 e0 else parens (rendk (xp e0) 0 e0))
          ++ brackets (fun p => rendk (xp p) 0 p) preds
          ++ match steps with [] => [] | _ => lead_steps ab rend_step steps end
      end in
    match k with
    | O => if Nat.ltb (level e) lvl || bare_root e then parens body else body
    | S _ => parensN k body
    end
  with rend_step (s : stp) {struct s} : list tok :=
    match s with
    | SAxis a t preds =>
        let explicit := TName (axis_name a) :: TColonColon :: rend_test t ++ brackets (fun p => rendk (xp p) 0 p) preds in
        if ab then
          match a with
          | Self => match t, preds with NTNode, [] => [TDot] | _, _ => explicit end
          | Parent => match t, preds with NTNode, [] => [TDotDot] | _, _ => explicit end
          | Attribute => TAt :: rend_test t ++ brackets (fun p => rendk (xp p) 0 p) preds
          | Child => rend_test t ++ brackets (fun p => rendk (xp p) 0 p) preds
          | _ => explicit
          end
        else explicit
    | SCall q args => qname_toks q ++ TLPar :: sep_by TComma (fun a => rendk (xp a) 0 a) args ++ [TRPar]
    end.

  Definition rend (lvl : nat) (e : expr) : list tok := rendk (xp e) lvl e.
End Rend.

(** no redundant parentheses *)
Definition minimal : expr -> nat := fun _ => 0.

(** the ASTs the grammar produces: a relative path has at least one step and does not
    begin with a function call (that is a filter expression); a filter expression has a
    predicate or a continuation; an unprefixed function name is not a node type *)
Definition fn_ok (q : rawq) : bool := match q with (None, n) => negb (is_node_type n) | _ => true end.

Fixpoint wf (e : expr) : bool :=
  match e with
  | EOr a b | EAnd a b | ECmp _ a b | EArith _ a b | EUnion a b => wf a && wf b
  | ENeg a => wf a
  | ELit _ | ENum _ | EVar _ => true
  | ECall q args => fn_ok q && forallb wf args
  | EPath abs steps =>
      forallb wf_step steps && (abs || match steps with [] => false | SCall _ _ :: _ => false | _ => true end)
  | EFilter e0 preds steps =>
      wf e0 && forallb wf preds && forallb wf_step steps && negb (match preds, steps with [], [] => true | _, _ => false end)
  end
with wf_step (s : stp) : bool :=
  match s with
  | SAxis _ _ preds => forallb wf preds
  | SCall q args => fn_ok q && forallb wf args
  end.

(** ** text: every token followed by one space *)
Definition qname_str (q : rawq) : str := match q with (None, n) => n | (Some p, n) => p ++ 58%N :: n end.
Definition quote_for (s : str) : N := if existsb (N.eqb 34) s then 39%N else 34%N.
Definition tok_str (t : tok) : str :=
  match t with
  | TName s => s | TNumber s => s
  | TLiteral s => quote_for s :: s ++ [quote_for s]
  | TVar q => 36%N :: qname_str q
  | TLPar => lit "(" | TRPar => lit ")" | TLBr => lit "[" | TRBr => lit "]"
  | TDot => lit "." | TDotDot => lit ".." | TAt => lit "@" | TComma => lit ","
  | TColonColon => lit "::" | TColon => lit ":"
  | TSlash => lit "/" | TSlashSlash => lit "//" | TRoot => lit "/" | TPipe => lit "|"
  | TPlus => lit "+" | TMinus => lit "-" | TEq => lit "=" | TNe => lit "!="
  | TLt => lit "<" | TLe => lit "<=" | TGt => lit ">" | TGe => lit ">=" | TStar => lit "*"
  end.

(** every token followed by one space (both the model lexer and the generated lexer allow
    white space between any two tokens, including around the colon of a QName) *)
Definition unlex (ts : list tok) : str := flat_map (fun t => tok_str t ++ [32%N]) ts.

Definition render (xp : expr -> nat) (ab : bool) (e : expr) : str := unlex (rend xp ab 0 e).
