(** C08: a canonical rendering of every AST as a token list (and as text), with the
    minimal parentheses the precedence levels require: a sub-expression is put in
    parentheses exactly when its level is below the level of the position it stands in
    (left operands at the operator's level, right operands one above: binary operators
    associate to the left). Steps are written in full ([axis::test[p]...]); the bare
    root [/] is always parenthesised (after [/] a [*] or an operator name would be
    read as a step). Syn/RoundTrip.v proves that the model parser reads every rendering
    back to the AST it was made from. *)
From XV Require Import Base.Str Base.Num Xp.Ast Syn.Parse.
From Coq Require String.
Import String.StringSyntax.
Local Open Scope string_scope.

Definition axis_name (a : axis) : str :=
  lit (match a with
       | Child => "child" | Descendant => "descendant" | DescendantOrSelf => "descendant-or-self"
       | Parent => "parent" | Ancestor => "ancestor" | AncestorOrSelf => "ancestor-or-self"
       | FollowingSibling => "following-sibling" | PrecedingSibling => "preceding-sibling"
       | Following => "following" | Preceding => "preceding"
       | Attribute => "attribute" | Namespace => "namespace" | Self => "self"
       end).

Definition cmp_level (op : cmpop) : nat := match op with CEq | CNe => 2 | _ => 3 end.
Definition ar_level (op : arop) : nat := match op with AAdd | ASub => 4 | _ => 5 end.
Definition cmp_tok (op : cmpop) : tok :=
  match op with CEq => TEq | CNe => TNe | CLt => TLt | CLe => TLe | CGt => TGt | CGe => TGe end.
Definition ar_tok (op : arop) : tok :=
  match op with AAdd => TPlus | ASub => TMinus | AMul => TStar | ADiv => TName (lit "div") | AMod => TName (lit "mod") end.

(** or 0 < and 1 < equality 2 < relational 3 < additive 4 < multiplicative 5 < unary 6 < union 7 < path 8 *)
Definition level (e : expr) : nat :=
  match e with
  | EOr _ _ => 0 | EAnd _ _ => 1
  | ECmp op _ _ => cmp_level op
  | EArith op _ _ => ar_level op
  | ENeg _ => 6 | EUnion _ _ => 7
  | _ => 8
  end.

Definition bare_root (e : expr) : bool := match e with EPath true [] => true | _ => false end.
Definition simple_primary (e : expr) : bool :=
  match e with ELit _ | ENum _ | EVar _ | ECall _ _ => true | _ => false end.

Definition qname_toks (q : rawq) : list tok :=
  match q with (None, n) => [TName n] | (Some p, n) => [TName p; TColon; TName n] end.

Definition rend_test (t : nodetest) : list tok :=
  match t with
  | NTNode => [TName (lit "node"); TLPar; TRPar]
  | NTText => [TName (lit "text"); TLPar; TRPar]
  | NTComment => [TName (lit "comment"); TLPar; TRPar]
  | NTPI => [TName (lit "processing-instruction"); TLPar; TRPar]
  | NTPITarget s => [TName (lit "processing-instruction"); TLPar; TLiteral s; TRPar]
  | NTAny => [TStar]
  | NTNsAny p => [TName p; TColon; TStar]
  | NTLocalAny l => [TStar; TColon; TName l]
  | NTQName p l => [TName p; TColon; TName l]
  | NTName l => [TName l]
  end.

(** [f a1 ++ sep :: f a2 ++ sep :: ... ++ f an] *)
Definition sep_by {A} (sep : tok) (f : A -> list tok) : list A -> list tok :=
  fix go (l : list A) : list tok :=
    match l with
    | [] => []
    | a :: r => match r with [] => f a | _ => f a ++ sep :: go r end
    end.

Definition brackets (f : expr -> list tok) (ps : list expr) : list tok :=
  concat (map (fun p => TLBr :: f p ++ [TRBr]) ps).

Definition parens (b : list tok) : list tok := TLPar :: b ++ [TRPar].

Fixpoint rend (lvl : nat) (e : expr) {struct e} : list tok :=
  let body :=
    match e with
    | EOr a b => rend 0 a ++ TName (lit "or") :: rend 1 b
    | EAnd a b => rend 1 a ++ TName (lit "and") :: rend 2 b
    | ECmp op a b => rend (cmp_level op) a ++ cmp_tok op :: rend (S (cmp_level op)) b
    | EArith op a b => rend (ar_level op) a ++ ar_tok op :: rend (S (ar_level op)) b
    | ENeg a => TMinus :: rend 6 a
    | EUnion a b => rend 7 a ++ TPipe :: rend 8 b
    | ELit s => [TLiteral s]
    | ENum s => [TNumber s]
    | EVar q => [TVar q]
    | ECall q args => qname_toks q ++ TLPar :: sep_by TComma (rend 0) args ++ [TRPar]
    | EPath abs steps => (if abs then [TSlash] else []) ++ sep_by TSlash rend_step steps
    | EFilter e0 preds steps =>
        (if simple_primary e0 then rend 0 e0 else parens (rend 0 e0)) ++ brackets (rend 0) preds
        ++ match steps with [] => [] | _ => TSlash :: sep_by TSlash rend_step steps end
    end in
  if Nat.ltb (level e) lvl || bare_root e then parens body else body
with rend_step (s : stp) {struct s} : list tok :=
  match s with
  | SAxis a t preds => TName (axis_name a) :: TColonColon :: rend_test t ++ brackets (rend 0) preds
  | SCall q args => qname_toks q ++ TLPar :: sep_by TComma (rend 0) args ++ [TRPar]
  end.

(** the ASTs the grammar produces: a relative path has at least one step and does not
    begin with a function call (that is a filter expression); a filter expression has a
    predicate or a continuation; an unprefixed function name is not a node type *)
Definition fn_ok (q : rawq) : bool := match q with (None, n) => negb (is_node_type n) | _ => true end.

Fixpoint wf (e : expr) : bool :=
  match e with
  | EOr a b | EAnd a b | ECmp _ a b | EArith _ a b | EUnion a b => wf a && wf b
  | ENeg a => wf a
  | ELit _ | ENum _ | EVar _ => true
  | ECall q args => fn_ok q && forallb wf args
  | EPath abs steps =>
      forallb wf_step steps && (abs || match steps with [] => false | SCall _ _ :: _ => false | _ => true end)
  | EFilter e0 preds steps =>
      wf e0 && forallb wf preds && forallb wf_step steps && negb (match preds, steps with [], [] => true | _, _ => false end)
  end
with wf_step (s : stp) : bool :=
  match s with
  | SAxis _ _ preds => forallb wf preds
  | SCall q args => fn_ok q && forallb wf args
  end.

(** ** text: every token followed by one space *)
Definition qname_str (q : rawq) : str := match q with (None, n) => n | (Some p, n) => p ++ 58%N :: n end.
Definition quote_for (s : str) : N := if existsb (N.eqb 34) s then 39%N else 34%N.
Definition tok_str (t : tok) : str :=
  match t with
  | TName s => s | TNumber s => s
  | TLiteral s => quote_for s :: s ++ [quote_for s]
  | TVar q => 36%N :: qname_str q
  | TLPar => lit "(" | TRPar => lit ")" | TLBr => lit "[" | TRBr => lit "]"
  | TDot => lit "." | TDotDot => lit ".." | TAt => lit "@" | TComma => lit ","
  | TColonColon => lit "::" | TColon => lit ":"
  | TSlash => lit "/" | TSlashSlash => lit "//" | TRoot => lit "/" | TPipe => lit "|"
  | TPlus => lit "+" | TMinus => lit "-" | TEq => lit "=" | TNe => lit "!="
  | TLt => lit "<" | TLe => lit "<=" | TGt => lit ">" | TGe => lit ">=" | TStar => lit "*"
  end.

(** every token followed by one space (both the model lexer and the generated lexer allow
    white space between any two tokens, including around the colon of a QName) *)
Definition unlex (ts : list tok) : str := flat_map (fun t => tok_str t ++ [32%N]) ts.

Definition render (e : expr) : str := unlex (rend 0 e).
