(** C08, the string side: facts about the model parser on hand-written strings. The
    round trip [parse (render e) = Some e] for every AST is proved in Syn/RoundTrip.v
    (tokens) and Syn/LexThm.v (characters); here: the precedence table is a function
    (every operator token belongs to exactly one level), and kernel-evaluated instances
    of precedence, associativity, token disambiguation and of the abbreviated forms
    ([@ . .. //], implicit child), which the canonical rendering does not use. *)
From XV Require Import Base.Str Base.Num Xp.Ast Syn.Parse.
From Coq Require String.
Import String.StringSyntax.
Local Open Scope string_scope.

(** every operator token belongs to exactly one precedence level *)
Theorem operator_level_unique t l1 l2 mk1 mk2 :
  op_at l1 t = Some mk1 -> op_at l2 t = Some mk2 -> l1 = l2.
Proof.
  destruct t; try (destruct l1 as [|[|[|[|[|[|?]]]]]]; discriminate);
    destruct l1 as [|[|[|[|[|[|l1]]]]]], l2 as [|[|[|[|[|[|l2]]]]]]; simpl; intros H1 H2;
    try reflexivity; try discriminate.
  all: repeat match goal with
       | H : (if ?b then _ else _) = Some _ |- _ => destruct b eqn:?; try discriminate
       end.
  all: repeat match goal with
       | H : str_eqb _ _ = true |- _ => apply str_eqb_spec in H; subst
       end; try discriminate.
Qed.

(** the levels, loosest first: or < and < = != < relational < additive < multiplicative *)
Example precedence_table :
  (exists mk, op_at 0 (TName (lit "or")) = Some mk) /\ (exists mk, op_at 1 (TName (lit "and")) = Some mk) /\
  (exists mk, op_at 2 TEq = Some mk) /\ (exists mk, op_at 2 TNe = Some mk) /\
  (exists mk, op_at 3 TLt = Some mk) /\ (exists mk, op_at 3 TGe = Some mk) /\
  (exists mk, op_at 4 TPlus = Some mk) /\ (exists mk, op_at 4 TMinus = Some mk) /\
  (exists mk, op_at 5 TStar = Some mk) /\ (exists mk, op_at 5 (TName (lit "div")) = Some mk) /\
  (exists mk, op_at 5 (TName (lit "mod")) = Some mk).
Proof. repeat split; eexists; reflexivity. Qed.

Definition P (s : String.string) : option expr := parse_string false (lit s).
Definition num (s : String.string) : expr := ENum (lit s).
Definition nm (s : String.string) : expr := EPath false [SAxis Child (NTName (lit s)) []].

(** kernel-evaluated instances (tests of the model, not the unbounded claim) *)
Example precedence_instances :
  P "1 + 2 * 3" = Some (EArith AAdd (num "1") (EArith AMul (num "2") (num "3"))) /\
  P "1 * 2 + 3" = Some (EArith AAdd (EArith AMul (num "1") (num "2")) (num "3")) /\
  P "1 - 2 - 3" = Some (EArith ASub (EArith ASub (num "1") (num "2")) (num "3")) /\
  P "8 div 4 div 2" = Some (EArith ADiv (EArith ADiv (num "8") (num "4")) (num "2")) /\
  P "1 or 2 and 3 = 4 < 5 + 6 * -7" =
    Some (EOr (num "1") (EAnd (num "2") (ECmp CEq (num "3") (ECmp CLt (num "4") (EArith AAdd (num "5") (EArith AMul (num "6") (ENeg (num "7")))))))) /\
  P "1 < 2 < 3" = Some (ECmp CLt (ECmp CLt (num "1") (num "2")) (num "3")) /\
  P "- a | b" = Some (ENeg (EUnion (nm "a") (nm "b"))) /\
  P "(1 + 2) * 3" = Some (EArith AMul (EArith AAdd (num "1") (num "2")) (num "3")).
Proof. vm_compute. repeat split. Qed.

Example token_disambiguation_instances :
  P "a-b" = Some (nm "a-b") /\
  P "a - b" = Some (EArith ASub (nm "a") (nm "b")) /\
  P "a -b" = Some (EArith ASub (nm "a") (nm "b")) /\
  P "* * *" = Some (EArith AMul (EPath false [SAxis Child NTAny []]) (EPath false [SAxis Child NTAny []])) /\
  P "div div div" = Some (EArith ADiv (nm "div") (nm "div")) /\
  P "child::child" = Some (nm "child") /\
  P "text" = Some (nm "text") /\
  P "text()" = Some (EPath false [SAxis Child NTText []]) /\
  P "/*/a * 3" = Some (EArith AMul (EPath true [SAxis Child NTAny []; SAxis Child (NTName (lit "a")) []]) (num "3")) /\
  P "/ * 3" = None /\ P "1 +" = None /\ P "a b" = None /\ P "a[" = None /\ P "f(1,)" = None /\ P "'abc" = None.
Proof. vm_compute. repeat split. Qed.

(** abbreviated forms are their expansions *)
Example abbreviations_are_expansions :
  P "//a" = P "/descendant-or-self::node()/child::a" /\
  P "a//b" = P "child::a/descendant-or-self::node()/child::b" /\
  P "." = P "self::node()" /\ P ".." = P "parent::node()" /\
  P "@x" = P "attribute::x" /\ P "x" = P "child::x" /\
  P "(//a)[1]//b" = P "(/descendant-or-self::node()/child::a)[1]/descendant-or-self::node()/child::b".
Proof. vm_compute. repeat split. Qed.

(** the as-is parser (generated lexer's restrictions) differs from XPath 1.0 on these:
    the open known finding *)
Theorem lexical_restrictions_refuted :
  exists s, parse_string true s <> parse_string false s.
Proof. exists (lit "//div"). vm_compute. discriminate. Qed.

Example lexical_restrictions_instances :
  parse_string true (lit "//div") = None /\ parse_string false (lit "//div") <> None /\
  parse_string true (lit "1.") = None /\ parse_string false (lit "1.") = Some (ENum (lit "1.")) /\
  parse_string true (lit "_a") = None /\ parse_string false (lit "_a") <> None /\
  parse_string true (lit "/ mod 7") <> None /\ parse_string false (lit "/ mod 7") = None /\
  parse_string true (lit "2*/*a") <> None /\ parse_string false (lit "2*/*a") = None.
Proof. vm_compute. repeat split; discriminate. Qed.
