(** Decidable side conditions on the tables the translator regenerates from the
    source on every run (tools/facts.py -> Facts.v). FactsCheck_Cnn.v proves each of
    them [= true] for the current source by computation over the finite tables. *)
From Coq Require Import String List Bool Arith.
Import ListNotations.
Local Open Scope string_scope.

Definition grammar := list (string * list (list string)).

Fixpoint mem (x : string) (l : list string) : bool :=
  match l with [] => false | y :: r => String.eqb x y || mem x r end.

Fixpoint assoc {A} (k : string) (l : list (string * A)) : option A :=
  match l with [] => None | (k', v) :: r => if String.eqb k k' then Some v else assoc k r end.

Fixpoint strs_eqb (a b : list string) : bool :=
  match a, b with
  | [], [] => true
  | x :: a', y :: b' => String.eqb x y && strs_eqb a' b'
  | _, _ => false
  end.

Fixpoint alts_eqb (a b : list (list string)) : bool :=
  match a, b with
  | [], [] => true
  | x :: a', y :: b' => strs_eqb x y && alts_eqb a' b'
  | _, _ => false
  end.

(** the grammar text and the generated parser's slot table describe the same productions *)
Definition grammar_eqb (g1 g2 : grammar) : bool :=
  Nat.eqb (length g1) (length g2) &&
  forallb (fun '(nt, alts) => match assoc nt g2 with Some alts' => alts_eqb alts alts' | None => false end) g1.

Definition is_nt (s : string) : bool := String.prefix "N:" s.
Definition nt_count (alt : list string) : nat := length (filter is_nt alt).

Definition handled (handlers : list (string * string)) (nt : string) : bool :=
  match assoc nt handlers with Some _ => true | None => false end.

Definition check_handled (handlers : list (string * string)) (nts : list string) : bool :=
  forallb (handled handlers) nts.

(** nonterminals whose children are consumed by gatherFunctionArgs, not by execContext *)
Definition arg_list_nts : list string :=
  ["FunctionSignature"; "FunctionCallArgumentList"; "FunctionCallArgumentListArgWithNext";
   "FunctionCallArgumentListEndArg"; "FunctionSignatureNoArgs"].

(** ... and they occur only below FunctionCall *)
Definition arg_list_closed (g : grammar) : bool :=
  forallb (fun '(nt, alts) =>
             if mem nt arg_list_nts || String.eqb nt "FunctionCall" then true
             else forallb (fun alt => forallb (fun s => negb (is_nt s && mem (String.substring 2 (String.length s - 2) s) arg_list_nts)) alt) alts) g.

(** A nonterminal without a handler is evaluated by evaluating its FIRST nonterminal
    child only (execChildren). So every production with two or more nonterminal
    children must have a handler, otherwise part of the expression is ignored. *)
Definition check_no_dropped (g : grammar) (handlers : list (string * string)) : bool :=
  arg_list_closed g &&
  forallb (fun '(nt, alts) =>
             if mem nt arg_list_nts then true
             else if existsb (fun alt => Nat.leb 2 (nt_count alt)) alts then handled handlers nt else true) g.

(** handlers that index the second / first nonterminal child *)
Definition needs_two : list string :=
  ["leftRightDependentResult"; "execOrExprOr"; "execAndExprAnd"; "execEqualityExprEqual"; "execEqualityExprNotEqual";
   "execRelationalExprLessThan"; "execRelationalExprGreaterThan"; "execRelationalExprLessThanOrEqual";
   "execRelationalExprGreaterThanOrEqual"; "execAdditiveExprAdd"; "execAdditiveExprSubtract";
   "execMultiplicativeExprMultiply"; "execMultiplicativeExprDivide"; "execMultiplicativeExprMod";
   "execUnionExprUnion"; "execFunctionCall"; "execAbbreviatedRelativeLocationPath";
   "execFilterExprWithPredicate"; "execPathExprFilterWithPath";
   "execNameTestQNameNamespaceWithLocalReservedNameConflictBoth"].
Definition needs_one : list string :=
  ["execUnaryExprNegate"; "execPredicate"; "execNodeTestProcInstTargetTest"; "execStep";
   "execNameTestNamespaceAnyLocalReservedNameConflict"; "execNameTestLocalAnyNamespaceReservedNameConflict";
   "execNameTestQNameNamespaceWithLocalReservedNameConflictNamespace";
   "execNameTestQNameNamespaceWithLocalReservedNameConflictLocal"].

Definition check_two_children (g : grammar) (handlers : list (string * string)) : bool :=
  forallb (fun '(nt, h) =>
             match assoc nt g with
             | None => false
             | Some alts =>
                 if mem h needs_two then forallb (fun alt => Nat.leb 2 (nt_count alt)) alts
                 else if mem h needs_one then forallb (fun alt => Nat.leb 1 (nt_count alt)) alts
                 else true
             end) handlers.

Definition expected_axes : list (string * string) :=
  [("child", "selectChild"); ("attribute", "selectAttributes"); ("ancestor", "selectAncestor");
   ("ancestor-or-self", "selectAncestorOrSelf"); ("descendant", "selectDescendant");
   ("descendant-or-self", "selectDescendantOrSelf"); ("following", "selectFollowing");
   ("following-sibling", "selectFollowingSibling"); ("namespace", "selectNamespace"); ("parent", "selectParent");
   ("preceding", "selectPreceding"); ("preceding-sibling", "selectPrecedingSibling")].

(** every axis name is dispatched to the selector of that axis, nothing else is *)
Definition check_axis_switch (sw : list (string * string)) : bool :=
  Nat.eqb (length sw) (length expected_axes) &&
  forallb (fun '(a, f) => match assoc a sw with Some f' => String.eqb f f' | None => false end) expected_axes.

(** the implicit child axis is applied exactly to the Step alternatives that start
    with a node test *)
Definition check_implicit_child (g : grammar) (l : list string) : bool :=
  match assoc "Step" g with
  | None => false
  | Some alts =>
      forallb (fun alt =>
                 match alt with
                 | [s] =>
                     let nt := String.substring 2 (String.length s - 2) s in
                     if mem nt ["NodeTest"; "NodeTestAndPredicate"] then mem nt l
                     else negb (mem nt l)
                 | _ => false
                 end) alts
  end.

Definition check_builtins (b : list (string * string * list nat)) (names : list string) : bool :=
  forallb (fun n => existsb (fun '(sp, l, _) => String.eqb sp "" && String.eqb l n) b) names.

(** XPath 1.0 core function library (section 4) without id() *)
Definition xpath_core_library : list string :=
  ["last"; "position"; "count"; "local-name"; "namespace-uri"; "name";
   "string"; "concat"; "starts-with"; "contains"; "substring-before"; "substring-after"; "substring";
   "string-length"; "normalize-space"; "translate";
   "boolean"; "not"; "true"; "false"; "lang";
   "number"; "sum"; "floor"; "ceiling"; "round"].

(** C13 / C14: every append and every sort.Sort in exec/ operates on a slice the
    function allocated itself (or received from callers that all pass such a slice);
    at least 30 sites must have been found, so that an empty extraction cannot pass *)
Definition check_slice_discipline (sites : list (string * string * bool)) : bool :=
  forallb (fun s => snd s) sites && Nat.leb 30 (length sites).

(** C13 / C14: outside init(), no function of the library packages writes package-level
    state (assignment, ++/--, address-of, delete, or a method call on a package-level
    sync/atomic object); [npkgs] is the number of package directories the translator
    read, so that an extraction that read nothing cannot pass *)
Definition check_no_global_writes (npkgs : nat) (sites : list (string * string)) : bool :=
  match sites with [] => Nat.leb 5 npkgs | _ => false end.
