(** The expression language as strings (C08): an executable lexer and recursive-descent
    parser for XPath 1.0 plus xsel's documented extensions (function call as a step,
    [*:x], [#] in names), producing the AST of Xp/Ast.v with the abbreviations
    expanded. Precedence: or < and < equality < relational < additive <
    multiplicative < unary < union < path; binary operators associate to the left.
    [asis = true] adds the lexical restrictions of the generated lexer that cannot be
    repaired here (known findings: the operator names are reserved everywhere, [1.]
    is not a number, names cannot start with [_]); it is used ONLY to recognise those
    findings. The generated GLL parser itself is modelled, not verified. *)
From XV Require Import Base.Str Base.Num Xp.Ast.
From Coq Require String.
Import String.StringSyntax.
Local Open Scope string_scope.

Inductive tok :=
| TName (s : str) | TNumber (s : str) | TLiteral (s : str) | TVar (q : rawq)
| TLPar | TRPar | TLBr | TRBr | TDot | TDotDot | TAt | TComma | TColonColon | TColon
| TSlash | TSlashSlash | TRoot | TPipe | TPlus | TMinus | TEq | TNe | TLt | TLe | TGt | TGe | TStar.

(** ** lexer *)
Definition is_ascii_letter (c : N) : bool := (N.leb 65 c && N.leb c 90) || (N.leb 97 c && N.leb c 122).
(** the name alphabet the harness generates from: ASCII letters, '_', '#', and the
    non-ASCII letters of Latin-1 and beyond (tabulated ranges; C15's fuzzing covers
    the rest of Unicode for crashes only) *)
Definition is_letter (c : N) : bool :=
  is_ascii_letter c || (N.leb 192 c && N.leb c 8191 && negb (N.eqb c 215) && negb (N.eqb c 247) && negb (N.leb 768 c && N.leb c 879))
  || (N.leb 12352 c && N.leb c 55295).
Definition name_start (asis : bool) (c : N) : bool := is_letter c || N.eqb c 35 || (negb asis && N.eqb c 95).
Definition name_char (asis : bool) (c : N) : bool :=
  is_letter c || N.eqb c 35 || N.eqb c 95 || is_digit c || N.eqb c 45 || N.eqb c 46 || N.eqb c 183 || (N.leb 768 c && N.leb c 879).

Fixpoint span (f : N -> bool) (s : str) : str * str :=
  match s with
  | c :: r => if f c then let '(a, b) := span f r in (c :: a, b) else ([], s)
  | [] => ([], [])
  end.

Fixpoint until_quote (q : N) (s : str) : option (str * str) :=
  match s with
  | [] => None
  | c :: r => if N.eqb c q then Some ([], r)
              else match until_quote q r with Some (a, b) => Some (c :: a, b) | None => None end
  end.

Fixpoint lex (fuel : nat) (asis : bool) (s : str) : option (list tok) :=
  match fuel with
  | O => None
  | S f =>
      match s with
      | [] => Some []
      | c :: r =>
          let one (t : tok) (rest : str) := match lex f asis rest with Some l => Some (t :: l) | None => None end in
          (* as-is only: a numeral written with white space between its parts passes BuildExpr and fails when it is
             evaluated; it is read as a call of a function that cannot be bound *)
          let bad (rest : str) := match lex f asis rest with
                                  | Some l => Some (TName (35%N :: lit "bad-number") :: TLPar :: TRPar :: l) | None => None end in
          if is_xml_ws c then lex f asis r
          else if N.eqb c 40 then one TLPar r else if N.eqb c 41 then one TRPar r
          else if N.eqb c 91 then one TLBr r else if N.eqb c 93 then one TRBr r
          else if N.eqb c 64 then one TAt r else if N.eqb c 44 then one TComma r
          else if N.eqb c 124 then one TPipe r else if N.eqb c 43 then one TPlus r
          else if N.eqb c 45 then one TMinus r else if N.eqb c 61 then one TEq r
          else if N.eqb c 42 then one TStar r
          else if N.eqb c 33 then match r with c2 :: r2 => if N.eqb c2 61 then one TNe r2 else None | [] => None end
          else if N.eqb c 60 then match r with c2 :: r2 => if N.eqb c2 61 then one TLe r2 else one TLt r | [] => one TLt r end
          else if N.eqb c 62 then match r with c2 :: r2 => if N.eqb c2 61 then one TGe r2 else one TGt r | [] => one TGt r end
          else if N.eqb c 47 then match r with c2 :: r2 => if N.eqb c2 47 then one TSlashSlash r2 else one TSlash r | [] => one TSlash r end
          else if N.eqb c 58 then match r with c2 :: r2 => if N.eqb c2 58 then one TColonColon r2 else one TColon r | [] => one TColon r end
          else if N.eqb c 34 || N.eqb c 39 then
            match until_quote c r with Some (v, rest) => one (TLiteral v) rest | None => None end
          else if N.eqb c 46 then
            match r with
            | c2 :: r2 =>
                if is_digit c2 then let '(ds, rest) := span is_digit r in one (TNumber (46%N :: ds)) rest
                else if N.eqb c2 46 then one TDotDot r2
                else if asis && is_xml_ws c2 then
                  (* as-is: [. 5] is the grammar's Number ("." digits with white space between its
                     tokens); it builds, and evaluating it is an error *)
                  match span is_digit (snd (span is_xml_ws r)) with
                  | (_ :: _, rest) => bad rest
                  | _ => one TDot r
                  end
                else one TDot r
            | [] => one TDot r
            end
          else if is_digit c then
            let '(ds, rest) := span is_digit s in
            let '(w1, rest1) := if asis then span is_xml_ws rest else ([], rest) in
            match rest1 with
            | c2 :: r2 =>
                if N.eqb c2 46 then
                  let '(w2, r3) := if asis then span is_xml_ws r2 else ([], r2) in
                  let '(fs, rest2) := span is_digit r3 in
                  match fs with
                  | [] => if asis then one (TNumber ds) rest else one (TNumber (ds ++ [46%N])) rest2
                  | _ => match w1, w2 with
                         | [], [] => one (TNumber (ds ++ 46%N :: fs)) rest2
                         | _, _ => bad rest2      (* as-is: [2 .0], [2 . 0], [2. 0] *)
                         end
                  end
                else one (TNumber ds) rest
            | [] => one (TNumber ds) rest
            end
          else if N.eqb c 36 then
            match r with
            | c2 :: _ =>
                if name_start asis c2 then
                  let '(n1, rest) := span (name_char asis) r in
                  match rest with
                  | c3 :: c4 :: _ =>
                      if N.eqb c3 58 && name_start asis c4 then
                        let '(n2, rest2) := span (name_char asis) (tl rest) in one (TVar (Some n1, n2)) rest2
                      else one (TVar (None, n1)) rest
                  | _ => one (TVar (None, n1)) rest
                  end
                else None
            | [] => None
            end
          else if name_start asis c then
            let '(n, rest) := span (name_char asis) s in one (TName n) rest
          else None
      end
  end.

(** ** parser *)

(** As-is only: in the generated lexer the hyphen of the five hyphenated keywords also
    matches the other non-letter name characters (digits, '.', '_', ...), so that
    [following5sibling::*] is read as the following-sibling axis. *)
Fixpoint kw_match (k n : str) : bool :=
  match k, n with
  | [], [] => true
  | c :: k', d :: n' =>
      (if N.eqb c 45 then name_char true d && negb (is_letter d) && negb (N.eqb d 35) else N.eqb c d) && kw_match k' n'
  | _, _ => false
  end.
Definition hyphenated_keywords : list str :=
  [lit "ancestor-or-self"; lit "descendant-or-self"; lit "following-sibling"; lit "preceding-sibling"; lit "processing-instruction"].
Definition kw (asis : bool) (n : str) : str :=
  if asis then match find (fun k => kw_match k n) hyphenated_keywords with Some k => k | None => n end else n.

Definition axis_of_name (n : str) : option axis :=
  if str_eqb n (lit "child") then Some Child else if str_eqb n (lit "descendant") then Some Descendant
  else if str_eqb n (lit "descendant-or-self") then Some DescendantOrSelf else if str_eqb n (lit "parent") then Some Parent
  else if str_eqb n (lit "ancestor") then Some Ancestor else if str_eqb n (lit "ancestor-or-self") then Some AncestorOrSelf
  else if str_eqb n (lit "following-sibling") then Some FollowingSibling else if str_eqb n (lit "preceding-sibling") then Some PrecedingSibling
  else if str_eqb n (lit "following") then Some Following else if str_eqb n (lit "preceding") then Some Preceding
  else if str_eqb n (lit "attribute") then Some Attribute else if str_eqb n (lit "namespace") then Some Namespace
  else if str_eqb n (lit "self") then Some Self else None.

(** As-is only: an axis keyword spelt with another character in place of its hyphen is
    still the axis token of the generated lexer, but the evaluator's switch on the spelling
    falls through to its default, the self axis ([//following5sibling::*] is [//self::*]). *)
Definition axis_asis (asis : bool) (n : str) : option axis :=
  match axis_of_name n with
  | Some a => Some a
  | None => if asis then match axis_of_name (kw true n) with Some _ => Some Self | None => None end else None
  end.

Definition is_node_type (n : str) : bool :=
  str_eqb n (lit "node") || str_eqb n (lit "text") || str_eqb n (lit "comment") || str_eqb n (lit "processing-instruction").
Definition is_operator_name (n : str) : bool :=
  str_eqb n (lit "and") || str_eqb n (lit "or") || str_eqb n (lit "div") || str_eqb n (lit "mod").

(** a name usable as a name test / function name / prefix; the generated lexer reserves
    the operator names everywhere and keeps axis names and node types out of function names *)
Definition name_ok (asis : bool) (n : str) : bool := negb (asis && is_operator_name n).
Definition fname_ok (asis : bool) (n0 : str) : bool :=
  let n := kw asis n0 in
  negb (is_node_type n) && negb (asis && (is_operator_name n || match axis_of_name n with Some _ => true | None => false end)).

Definition op_at (lvl : nat) (t : tok) : option (expr -> expr -> expr) :=
  match lvl, t with
  | 0, TName n => if str_eqb n (lit "or") then Some EOr else None
  | 1, TName n => if str_eqb n (lit "and") then Some EAnd else None
  | 2, TEq => Some (ECmp CEq) | 2, TNe => Some (ECmp CNe)
  | 3, TLt => Some (ECmp CLt) | 3, TLe => Some (ECmp CLe) | 3, TGt => Some (ECmp CGt) | 3, TGe => Some (ECmp CGe)
  | 4, TPlus => Some (EArith AAdd) | 4, TMinus => Some (EArith ASub)
  | 5, TStar => Some (EArith AMul)
  | 5, TName n => if str_eqb n (lit "div") then Some (EArith ADiv) else if str_eqb n (lit "mod") then Some (EArith AMod) else None
  | _, _ => None
  end.

Definition dos_step : stp := SAxis DescendantOrSelf NTNode [].

Definition starts_step (asis : bool) (ts : list tok) : bool :=
  match ts with
  | TName n :: _ => name_ok asis n        (* as-is: "/ mod 7" is the root node mod 7 *)
  | TStar :: _ | TAt :: _ | TDot :: _ | TDotDot :: _ => true
  | _ => false
  end.

(** the generated lexer has keyword tokens for axis names and node types: they cannot be
    part of a function name *)
Definition reserved_word (n : str) : bool :=
  is_operator_name n || is_node_type n || match axis_of_name n with Some _ => true | None => false end.
Definition pfname_ok (asis : bool) (p n : str) : bool := negb (asis && (reserved_word (kw asis p) || reserved_word (kw asis n))).

(** does a primary expression start here (a function call, not a node type)? *)
Definition starts_primary (asis : bool) (ts : list tok) : bool :=
  match ts with
  | TLPar :: _ | TLiteral _ :: _ | TNumber _ :: _ | TVar _ :: _ => true
  | TName n :: TLPar :: _ => fname_ok asis n
  | TName p :: TColon :: TName n :: TLPar :: _ => pfname_ok asis p n
  | _ => false
  end.

Section Parser.
  Variable asis : bool.

  Definition parse_nodetest (ts : list tok) : option (nodetest * list tok) :=
    match ts with
    | TStar :: TColon :: TName l :: r => if name_ok asis l then Some (NTLocalAny l, r) else None
    | TStar :: r => Some (NTAny, r)
    | TName n0 :: TLPar :: TRPar :: r =>
        let n := kw asis n0 in
        if str_eqb n (lit "node") then Some (NTNode, r) else if str_eqb n (lit "text") then Some (NTText, r)
        else if str_eqb n (lit "comment") then Some (NTComment, r)
        else if str_eqb n (lit "processing-instruction") then
               (* as-is: [processing.instruction()] is the node-type token but matches no case of the
                  evaluator's switch: it selects nothing (no PI has a target containing a space) *)
               Some ((if str_eqb n0 n then NTPI else NTPITarget [32%N]), r)
             else None
    | TName n :: TLPar :: TLiteral s :: TRPar :: r =>
        if str_eqb (kw asis n) (lit "processing-instruction") then Some (NTPITarget s, r) else None
    | TName p :: TColon :: TStar :: r => if name_ok asis p then Some (NTNsAny p, r) else None
    | TName p :: TColon :: TName l :: r => if name_ok asis p && name_ok asis l then Some (NTQName p l, r) else None
    | TName l :: r => if name_ok asis l then Some (NTName l, r) else None
    | _ => None
    end.

  Fixpoint parse_bin (fuel : nat) (lvl : nat) (ts : list tok) {struct fuel} : option (expr * list tok) :=
    match fuel with
    | O => None
    | S f =>
        if Nat.leb 6 lvl then parse_unary f ts
        else match parse_bin f (S lvl) ts with
             | Some (lhs, r) => bin_loop f lvl lhs r
             | None => None
             end
    end
  with bin_loop (fuel : nat) (lvl : nat) (lhs : expr) (ts : list tok) {struct fuel} : option (expr * list tok) :=
    match fuel with
    | O => None
    | S f =>
        match ts with
        | t :: r =>
            match op_at lvl t with
            | Some mk => match parse_bin f (S lvl) r with
                         | Some (rhs, r') => bin_loop f lvl (mk lhs rhs) r'
                         | None => None
                         end
            | None => Some (lhs, ts)
            end
        | [] => Some (lhs, [])
        end
    end
  with parse_unary (fuel : nat) (ts : list tok) {struct fuel} : option (expr * list tok) :=
    match fuel with
    | O => None
    | S f =>
        match ts with
        | TMinus :: r => match parse_unary f r with Some (e, r') => Some (ENeg e, r') | None => None end
        | _ => match parse_path f ts with
               | Some (p, r) => union_loop f p r
               | None => None
               end
        end
    end
  with union_loop (fuel : nat) (lhs : expr) (ts : list tok) {struct fuel} : option (expr * list tok) :=
    match fuel with
    | O => None
    | S f =>
        match ts with
        | TPipe :: r => match parse_path f r with
                        | Some (p, r') => union_loop f (EUnion lhs p) r'
                        | None => None
                        end
        | _ => Some (lhs, ts)
        end
    end
  with parse_path (fuel : nat) (ts : list tok) {struct fuel} : option (expr * list tok) :=
    match fuel with
    | O => None
    | S f =>
        match ts with
        | TRoot :: r => Some (EPath true [], r)
        | TSlash :: r =>
            if starts_step asis r then
              match parse_relpath f r with Some (steps, r') => Some (EPath true steps, r') | None => None end
            else Some (EPath true [], r)
        | TSlashSlash :: r =>
            match parse_relpath f r with Some (steps, r') => Some (EPath true (dos_step :: steps), r') | None => None end
        | _ =>
            if starts_primary asis ts then
              match parse_primary f ts with
              | None => None
              | Some (e, r) =>
                  match parse_preds f r with
                  | None => None
                  | Some (preds, r2) =>
                      match r2 with
                      | TSlash :: r3 =>
                          match parse_relpath f r3 with Some (steps, r4) => Some (EFilter e preds steps, r4) | None => None end
                      | TSlashSlash :: r3 =>
                          match parse_relpath f r3 with Some (steps, r4) => Some (EFilter e preds (dos_step :: steps), r4) | None => None end
                      | _ => Some (match preds with [] => e | _ => EFilter e preds [] end, r2)
                      end
                  end
              end
            else match parse_relpath f ts with Some (steps, r) => Some (EPath false steps, r) | None => None end
        end
    end
  with parse_relpath (fuel : nat) (ts : list tok) {struct fuel} : option (list stp * list tok) :=
    match fuel with
    | O => None
    | S f =>
        match parse_step f ts with
        | None => None
        | Some (s, r) =>
            match r with
            | TSlash :: r2 => match parse_relpath f r2 with Some (ss, r3) => Some (s :: ss, r3) | None => None end
            | TSlashSlash :: r2 => match parse_relpath f r2 with Some (ss, r3) => Some (s :: dos_step :: ss, r3) | None => None end
            | _ => Some ([s], r)
            end
        end
    end
  with parse_step (fuel : nat) (ts : list tok) {struct fuel} : option (stp * list tok) :=
    match fuel with
    | O => None
    | S f =>
        let with_test (a : axis) (r : list tok) :=
          match parse_nodetest r with
          | None => None
          | Some (t, r2) => match parse_preds f r2 with Some (preds, r3) => Some (SAxis a t preds, r3) | None => None end
          end in
        match ts with
        | TDot :: r => Some (SAxis Self NTNode [], r)
        | TDotDot :: r => Some (SAxis Parent NTNode [], r)
        | TAt :: r => with_test Attribute r
        | TName a :: TColonColon :: r => match axis_asis asis a with Some ax => with_test ax r | None => None end
        | TName n :: TLPar :: r =>
            if fname_ok asis n then
              match parse_args f r with Some (args, r2) => Some (SCall (None, n) args, r2) | None => None end
            else with_test Child ts
        | TName p :: TColon :: TName n :: TLPar :: r =>
            if pfname_ok asis p n then
              match parse_args f r with Some (args, r2) => Some (SCall (Some p, n) args, r2) | None => None end
            else with_test Child ts
        | _ => with_test Child ts
        end
    end
  with parse_preds (fuel : nat) (ts : list tok) {struct fuel} : option (list expr * list tok) :=
    match fuel with
    | O => None
    | S f =>
        match ts with
        | TLBr :: r =>
            match parse_bin f 0 r with
            | Some (e, TRBr :: r2) => match parse_preds f r2 with Some (ps, r3) => Some (e :: ps, r3) | None => None end
            | _ => None
            end
        | _ => Some ([], ts)
        end
    end
  with parse_primary (fuel : nat) (ts : list tok) {struct fuel} : option (expr * list tok) :=
    match fuel with
    | O => None
    | S f =>
        match ts with
        | TLPar :: r => match parse_bin f 0 r with Some (e, TRPar :: r2) => Some (e, r2) | _ => None end
        | TLiteral s :: r => Some (ELit s, r)
        | TNumber s :: r => Some (ENum s, r)
        | TVar q :: r => Some (EVar q, r)
        | TName n :: TLPar :: r =>
            match parse_args f r with Some (args, r2) => Some (ECall (None, n) args, r2) | None => None end
        | TName p :: TColon :: TName n :: TLPar :: r =>
            match parse_args f r with Some (args, r2) => Some (ECall (Some p, n) args, r2) | None => None end
        | _ => None
        end
    end
  (** after the opening parenthesis: the arguments and the closing parenthesis *)
  with parse_args (fuel : nat) (ts : list tok) {struct fuel} : option (list expr * list tok) :=
    match fuel with
    | O => None
    | S f =>
        match ts with
        | TRPar :: r => Some ([], r)
        | _ =>
            match parse_bin f 0 ts with
            | Some (e, TRPar :: r) => Some ([e], r)
            | Some (e, TComma :: r) =>
                match r with
                | TRPar :: _ => None
                | _ => match parse_args f r with Some (es, r2) => Some (e :: es, r2) | None => None end
                end
            | _ => None
            end
        end
    end.

  Definition parse_tokens (ts : list tok) : option expr :=
    match parse_bin (30 * (length ts + 2)) 0 ts with
    | Some (e, []) => Some e
    | _ => None
    end.
End Parser.

(** the generated grammar is ambiguous where XPath's lexical rule ("a [*] after [/] is a
    name test") decides: it also reads [/ * x] as the root node times x. As-is only:
    the [/] tokens followed by [*] that are read as the bare root, chosen by the bits of [m] *)
Fixpoint root_reading (m : nat) (ts : list tok) : list tok :=
  match ts with
  | TSlash :: ((TStar :: _) as r) => (if Nat.odd m then TRoot else TSlash) :: root_reading (Nat.div2 m) r
  | t :: r => t :: root_reading m r
  | [] => []
  end.
Fixpoint slash_stars (ts : list tok) : nat :=
  match ts with
  | TSlash :: ((TStar :: _) as r) => S (slash_stars r)
  | _ :: r => slash_stars r
  | [] => 0
  end.

Fixpoint first_some {A} (f : nat -> option A) (n : nat) : option A :=
  match n with
  | O => None
  | S k => match first_some f k with Some a => Some a | None => f k end
  end.

Definition readings (ts : list tok) : nat := Nat.pow 2 (Nat.min (slash_stars ts) 8).

Definition parse_string (asis : bool) (s : str) : option expr :=
  match lex (length s + 1) asis s with
  | Some ts =>
      match parse_tokens asis ts with
      | Some e => Some e
      | None => if asis then first_some (fun k => parse_tokens asis (root_reading k ts)) (readings ts) else None
      end
  | None => None
  end.

(** As-is only, for the matcher of the known finding: every reading of the string *)
Definition parse_string_readings (s : str) : list expr :=
  match lex (length s + 1) true s with
  | Some ts =>
      flat_map (fun k => match parse_tokens true (root_reading k ts) with Some e => [e] | None => [] end)
               (seq 0 (readings ts))
  | None => []
  end.
