(** C08, the lexical half of the round trip: the model lexer reads the canonical text of a
    token list (every token followed by one space) back to the same tokens, for every
    token list whose payloads are lexable (names made of name characters, numerals in one
    of the three numeral shapes, literals that do not contain both kinds of quote).
    With Syn/RoundTrip.v: [parse_string false (render e) = Some e] for every well-formed
    AST whose names, numerals and literals are lexable. *)
From XV Require Import Base.Str Base.Num Xp.Ast Syn.Parse Syn.Render Syn.RoundTrip.
From Coq Require Import Lia Arith NArith ZifyBool ZifyN.
From Coq Require String.
Import String.StringSyntax.
Local Open Scope string_scope.

Definition name_okb (s : str) : bool :=
  match s with c :: r => name_start false c && forallb (name_char false) r | [] => false end.
Definition digits_okb (s : str) : bool := match s with [] => false | _ => forallb is_digit s end.
(** [ddd], [ddd.], [ddd.ddd], [.ddd] *)
Definition number_okb (s : str) : bool :=
  let '(ds, rest) := span is_digit s in
  match ds, rest with
  | _ :: _, [] => true
  | _ :: _, c :: fs => N.eqb c 46 && forallb is_digit fs
  | [], c :: fs => N.eqb c 46 && digits_okb fs
  | [], [] => false
  end.
Definition literal_okb (s : str) : bool := negb (existsb (N.eqb 34) s && existsb (N.eqb 39) s).
Definition tok_okb (t : tok) : bool :=
  match t with
  | TName s => name_okb s
  | TNumber s => number_okb s
  | TLiteral s => literal_okb s
  | TVar (None, n) => name_okb n
  | TVar (Some p, n) => name_okb p && name_okb n
  | TRoot => false
  | _ => true
  end.

Lemma span_app (f : N -> bool) a x R : forallb f a = true -> f x = false -> span f (a ++ x :: R) = (a, x :: R).
Proof.
  induction a as [|c a IH]; simpl; intros Ha Hx.
  - now rewrite Hx.
  - apply andb_prop in Ha. destruct Ha as [Hc Ha]. rewrite Hc. now rewrite IH.
Qed.

Lemma span_all (f : N -> bool) a : forallb f a = true -> span f a = (a, []).
Proof. induction a as [|c a IH]; simpl; intros Ha; [reflexivity|]. apply andb_prop in Ha. destruct Ha as [Hc Ha]. rewrite Hc. now rewrite IH. Qed.

Lemma span_spec (f : N -> bool) s : let '(a, b) := span f s in s = a ++ b /\ forallb f a = true /\ match b with c :: _ => f c = false | [] => True end.
Proof.
  induction s as [|c s IH]; simpl; [auto|]. destruct (f c) eqn:Ec.
  - destruct (span f s) as [a b]. destruct IH as (-> & Ha & Hb). simpl. rewrite Ec. auto.
  - simpl. auto.
Qed.

Lemma until_quote_app q s R : existsb (N.eqb q) s = false -> until_quote q (s ++ q :: R) = Some (s, R).
Proof.
  induction s as [|c s IH]; simpl; intros H.
  - now rewrite N.eqb_refl.
  - apply Bool.orb_false_iff in H. destruct H as [Hc Hs]. rewrite N.eqb_sym in Hc. rewrite Hc. now rewrite IH.
Qed.

(** a name-start character is none of the characters the lexer tests before names *)
Lemma name_start_tests c : name_start false c = true ->
  is_xml_ws c = false /\ N.eqb c 40 = false /\ N.eqb c 41 = false /\ N.eqb c 91 = false /\ N.eqb c 93 = false /\
  N.eqb c 64 = false /\ N.eqb c 44 = false /\ N.eqb c 124 = false /\ N.eqb c 43 = false /\ N.eqb c 45 = false /\
  N.eqb c 61 = false /\ N.eqb c 42 = false /\ N.eqb c 33 = false /\ N.eqb c 60 = false /\ N.eqb c 62 = false /\
  N.eqb c 47 = false /\ N.eqb c 58 = false /\ N.eqb c 34 = false /\ N.eqb c 39 = false /\ N.eqb c 46 = false /\
  is_digit c = false /\ N.eqb c 36 = false.
Proof.
  unfold name_start, is_letter, is_ascii_letter, is_xml_ws, is_digit. intros H. repeat split; lia.
Qed.

Lemma name_start_char c : name_start false c = true -> name_char false c = true.
Proof. unfold name_start, name_char, is_letter, is_ascii_letter, is_digit. lia. Qed.

Definition one_ (f : nat) (t : tok) (rest : str) : option (list tok) :=
  match lex f false rest with Some l => Some (t :: l) | None => None end.

Lemma lex_S f c r : lex (S f) false (c :: r) =
  let s := c :: r in
  let one := one_ f in
  if is_xml_ws c then lex f false r
  else if N.eqb c 40 then one TLPar r else if N.eqb c 41 then one TRPar r
  else if N.eqb c 91 then one TLBr r else if N.eqb c 93 then one TRBr r
  else if N.eqb c 64 then one TAt r else if N.eqb c 44 then one TComma r
  else if N.eqb c 124 then one TPipe r else if N.eqb c 43 then one TPlus r
  else if N.eqb c 45 then one TMinus r else if N.eqb c 61 then one TEq r
  else if N.eqb c 42 then one TStar r
  else if N.eqb c 33 then match r with c2 :: r2 => if N.eqb c2 61 then one TNe r2 else None | [] => None end
  else if N.eqb c 60 then match r with c2 :: r2 => if N.eqb c2 61 then one TLe r2 else one TLt r | [] => one TLt r end
  else if N.eqb c 62 then match r with c2 :: r2 => if N.eqb c2 61 then one TGe r2 else one TGt r | [] => one TGt r end
  else if N.eqb c 47 then match r with c2 :: r2 => if N.eqb c2 47 then one TSlashSlash r2 else one TSlash r | [] => one TSlash r end
  else if N.eqb c 58 then match r with c2 :: r2 => if N.eqb c2 58 then one TColonColon r2 else one TColon r | [] => one TColon r end
  else if N.eqb c 34 || N.eqb c 39 then
    match until_quote c r with Some (v, rest) => one (TLiteral v) rest | None => None end
  else if N.eqb c 46 then
    match r with
    | c2 :: r2 =>
        if is_digit c2 then let '(ds, rest) := span is_digit r in one (TNumber (46%N :: ds)) rest
        else if N.eqb c2 46 then one TDotDot r2 else one TDot r
    | [] => one TDot r
    end
  else if is_digit c then
    let '(ds, rest) := span is_digit s in
    match rest with
    | c2 :: r2 =>
        if N.eqb c2 46 then
          let '(fs, rest2) := span is_digit r2 in
          match fs with
          | [] => one (TNumber (ds ++ [46%N])) rest2
          | _ => one (TNumber (ds ++ 46%N :: fs)) rest2
          end
        else one (TNumber ds) rest
    | [] => one (TNumber ds) rest
    end
  else if N.eqb c 36 then
    match r with
    | c2 :: _ =>
        if name_start false c2 then
          let '(n1, rest) := span (name_char false) r in
          match rest with
          | c3 :: c4 :: _ =>
              if N.eqb c3 58 && name_start false c4 then
                let '(n2, rest2) := span (name_char false) (tl rest) in one (TVar (Some n1, n2)) rest2
              else one (TVar (None, n1)) rest
          | _ => one (TVar (None, n1)) rest
          end
        else None
    | [] => None
    end
  else if name_start false c then
    let '(n, rest) := span (name_char false) s in one (TName n) rest
  else None.
Proof. reflexivity. Qed.

Definition wsc (c : N) : Prop := c = 32%N \/ c = 9%N \/ c = 10%N \/ c = 13%N.
Lemma ws_cases c : is_xml_ws c = true -> wsc c.
Proof. unfold is_xml_ws, wsc. lia. Qed.
Ltac ws4 H := destruct H as [->|[->|[->| ->]]].

Lemma lex_skip f c R : wsc c -> lex (S f) false (c :: R) = lex f false R.
Proof. intros H. ws4 H; reflexivity. Qed.

Lemma digit_tests c : is_digit c = true ->
  is_xml_ws c = false /\ N.eqb c 40 = false /\ N.eqb c 41 = false /\ N.eqb c 91 = false /\ N.eqb c 93 = false /\
  N.eqb c 64 = false /\ N.eqb c 44 = false /\ N.eqb c 124 = false /\ N.eqb c 43 = false /\ N.eqb c 45 = false /\
  N.eqb c 61 = false /\ N.eqb c 42 = false /\ N.eqb c 33 = false /\ N.eqb c 60 = false /\ N.eqb c 62 = false /\
  N.eqb c 47 = false /\ N.eqb c 58 = false /\ N.eqb c 34 = false /\ N.eqb c 39 = false /\ N.eqb c 46 = false.
Proof. unfold is_xml_ws, is_digit. intros H. repeat split; lia. Qed.

Ltac rw_tests H :=
  repeat match type of H with
         | ?a /\ ?b => let H1 := fresh in destruct H as [H1 H]; rewrite ?H1
         end; rewrite ?H.

Lemma ws_not_name c : wsc c -> name_char false c = false.
Proof. intros H. ws4 H; reflexivity. Qed.
Lemma ws_not_digit c : wsc c -> is_digit c = false.
Proof. intros H. ws4 H; reflexivity. Qed.

(** each token followed by a white-space character: the token is read and lexing continues at that character *)
Lemma lex_name f n c R : name_okb n = true -> wsc c ->
  lex (S f) false (n ++ c :: R) = one_ f (TName n) (c :: R).
Proof.
  destruct n as [|a r]; [discriminate|]. simpl name_okb. intros H Hc. apply andb_prop in H. destruct H as [Ha Hr].
  cbn [app]. rewrite lex_S. cbv zeta. pose proof (name_start_tests a Ha) as T. rw_tests T. cbn [orb]. rewrite Ha.
  change (a :: r ++ c :: R) with ((a :: r) ++ c :: R).
  rewrite span_app; [reflexivity|simpl; now rewrite (name_start_char a Ha), Hr|now apply ws_not_name].
Qed.

Lemma lex_number f s c R : number_okb s = true -> wsc c ->
  lex (S f) false (s ++ c :: R) = one_ f (TNumber s) (c :: R).
Proof.
  unfold number_okb. pose proof (span_spec is_digit s) as Hs. destruct (span is_digit s) as [ds rest].
  destruct Hs as (-> & Hds & Hrest). intros H Hc. pose proof (ws_not_digit c Hc) as Hcd.
  assert (Hc46 : N.eqb c 46 = false) by (ws4 Hc; reflexivity).
  destruct ds as [|d ds].
  - (* .ddd *) destruct rest as [|x fs]; [discriminate|]. apply andb_prop in H. destruct H as [Hx Hfs].
    apply N.eqb_eq in Hx. subst x. destruct fs as [|d fs]; [discriminate|]. simpl digits_okb in Hfs.
    cbn [app]. rewrite lex_S. cbv zeta. cbn [is_xml_ws N.eqb Pos.eqb orb is_digit N.leb N.compare Pos.compare Pos.compare_cont andb].
    pose proof Hfs as Hd. simpl in Hd. apply andb_prop in Hd. destruct Hd as [Hd _]. rewrite Hd.
    change (d :: fs ++ c :: R) with ((d :: fs) ++ c :: R). rewrite span_app; [reflexivity|exact Hfs|exact Hcd].
  - simpl in Hds. apply andb_prop in Hds. destruct Hds as [Hd Hds].
    cbn [app]. rewrite lex_S. cbv zeta. pose proof (digit_tests d Hd) as T. rw_tests T. cbn [orb]. rewrite Hd.
    destruct rest as [|x fs].
    + (* ddd *) rewrite app_nil_r. change (d :: ds ++ c :: R) with ((d :: ds) ++ c :: R).
      rewrite span_app; [|simpl; now rewrite Hd, Hds|exact Hcd]. now rewrite Hc46.
    + (* ddd. / ddd.ddd *) apply andb_prop in H. destruct H as [Hx Hfs]. apply N.eqb_eq in Hx. subst x.
      rewrite <- app_assoc. cbn [app].
      change (d :: ds ++ 46%N :: fs ++ c :: R) with ((d :: ds) ++ 46%N :: fs ++ c :: R).
      rewrite span_app; [|simpl; now rewrite Hd, Hds|reflexivity]. cbn [N.eqb Pos.eqb].
      rewrite span_app; [|exact Hfs|exact Hcd].
      destruct fs; reflexivity.
Qed.

Lemma quote_for_absent s : literal_okb s = true -> existsb (N.eqb (quote_for s)) s = false.
Proof.
  unfold literal_okb, quote_for. destruct (existsb (N.eqb 34) s) eqn:E34; simpl; intros H.
  - now apply Bool.negb_true_iff in H.
  - exact E34.
Qed.

Lemma lex_literal f s c R : literal_okb s = true ->
  lex (S f) false ((quote_for s :: s ++ [quote_for s]) ++ c :: R) = one_ f (TLiteral s) (c :: R).
Proof.
  intros H. pose proof (quote_for_absent s H) as Hq. cbn [app]. rewrite <- app_assoc. cbn [app].
  rewrite lex_S. cbv zeta. unfold quote_for in *. destruct (existsb (N.eqb 34) s);
    cbn [is_xml_ws N.eqb Pos.eqb orb]; rewrite until_quote_app by exact Hq; reflexivity.
Qed.

Lemma name_okb_split n : name_okb n = true -> exists c r, n = c :: r /\ name_start false c = true /\ forallb (name_char false) (c :: r) = true.
Proof.
  destruct n as [|c r]; [discriminate|]. simpl. intros H. apply andb_prop in H. destruct H as [Hc Hr].
  exists c, r. repeat split; [exact Hc|]. now rewrite (name_start_char c Hc), Hr.
Qed.

Lemma lex_var f q c R : tok_okb (TVar q) = true -> wsc c ->
  lex (S f) false ((36%N :: qname_str q) ++ c :: R) = one_ f (TVar q) (c :: R).
Proof.
  intros H Hc. pose proof (ws_not_name c Hc) as Hcn. assert (Hc58 : N.eqb c 58 = false) by (ws4 Hc; reflexivity).
  destruct q as [[p|] n]; simpl tok_okb in H.
  - apply andb_prop in H. destruct H as [Hp Hn].
    destruct (name_okb_split p Hp) as (a & r & -> & Ha & Hall). destruct (name_okb_split n Hn) as (a' & r' & -> & Ha' & Hall').
    cbn [qname_str app]. rewrite lex_S. cbv zeta. cbn [is_xml_ws N.eqb Pos.eqb orb is_digit N.leb N.compare Pos.compare Pos.compare_cont andb].
    rewrite Ha. rewrite <- app_assoc. cbn [app].
    change (a :: r ++ 58%N :: a' :: r' ++ c :: R) with ((a :: r) ++ 58%N :: a' :: r' ++ c :: R).
    rewrite span_app; [|exact Hall|reflexivity]. cbn [N.eqb Pos.eqb andb]. rewrite Ha'. cbn [tl].
    change (a' :: r' ++ c :: R) with ((a' :: r') ++ c :: R). rewrite span_app; [reflexivity|exact Hall'|exact Hcn].
  - destruct (name_okb_split n H) as (a & r & -> & Ha & Hall).
    cbn [qname_str app]. rewrite lex_S. cbv zeta. cbn [is_xml_ws N.eqb Pos.eqb orb is_digit N.leb N.compare Pos.compare Pos.compare_cont andb].
    rewrite Ha. change (a :: r ++ c :: R) with ((a :: r) ++ c :: R).
    rewrite span_app; [|exact Hall|exact Hcn].
    destruct R as [|c4 R]; [reflexivity|]. rewrite Hc58. reflexivity.
Qed.

Lemma lex_one t f c R : tok_okb t = true -> wsc c ->
  lex (S f) false (tok_str t ++ c :: R) = one_ f t (c :: R).
Proof.
  intros H Hc. destruct t; try discriminate H;
    [now apply lex_name|now apply lex_number|now apply lex_literal|now apply lex_var|..];
    ws4 Hc; reflexivity.
Qed.

(** white space between tokens: any non-empty run of XML white-space characters *)
Definition ws_okb (w : str) : bool := match w with [] => false | _ => forallb is_xml_ws w end.

Lemma lex_ws w f R : forallb is_xml_ws w = true -> lex (length w + f) false (w ++ R) = lex f false R.
Proof.
  induction w as [|c w IH]; cbn [length app Nat.add forallb]; intros H; [reflexivity|]. apply andb_prop in H. destruct H as [Hc Hw].
  rewrite lex_skip by (now apply ws_cases). now apply IH.
Qed.

Definition unlex_seps (l : list (tok * str)) : str := flat_map (fun tw => tok_str (fst tw) ++ snd tw) l.
Definition seps_okb (l : list (tok * str)) : bool := forallb (fun tw => tok_okb (fst tw) && ws_okb (snd tw)) l.
Definition fuel_of (l : list (tok * str)) : nat := fold_right (fun tw n => S (length (snd tw) + n)) 1 l.

Theorem lex_unlex_seps l : seps_okb l = true -> forall f, fuel_of l <= f -> lex f false (unlex_seps l) = Some (map fst l).
Proof.
  induction l as [|[t w] l IH]; intros H f Hf.
  - destruct f; [simpl in Hf; lia|reflexivity].
  - simpl in H. apply andb_prop in H. destruct H as [H Hl]. apply andb_prop in H. destruct H as [Ht Hw].
    destruct w as [|c w]; [discriminate|]. simpl in Hw. pose proof Hw as Hw'. apply andb_prop in Hw'. destruct Hw' as [Hc Hw'].
    cbn [fuel_of fold_right snd length] in Hf. fold (fuel_of l) in Hf.
    destruct f as [|g]; [lia|].
    cbn [unlex_seps flat_map fst snd]. fold (unlex_seps l). rewrite <- app_assoc. cbn [app].
    rewrite lex_one; [|exact Ht|now apply ws_cases]. unfold one_.
    replace g with (length (c :: w) + (g - length (c :: w))) by (cbn [length] in *; lia).
    change (c :: w ++ unlex_seps l) with ((c :: w) ++ unlex_seps l).
    rewrite lex_ws by exact Hw. rewrite IH; [reflexivity|exact Hl|cbn [length] in *; lia].
Qed.

Lemma fuel_of_le l : seps_okb l = true -> fuel_of l <= length (unlex_seps l) + 1.
Proof.
  induction l as [|[t w] l IH]; intros H; [simpl; lia|].
  simpl in H. apply andb_prop in H. destruct H as [H Hl]. apply andb_prop in H. destruct H as [Ht Hw].
  cbn [fuel_of fold_right unlex_seps flat_map fst snd]. fold (fuel_of l). fold (unlex_seps l).
  rewrite !app_length. specialize (IH Hl).
  assert (1 <= length (tok_str t)).
  { destruct t; try (simpl; lia); simpl tok_okb in Ht; simpl tok_str.
    - destruct s; [discriminate|simpl; lia].
    - unfold number_okb in Ht. destruct s; [simpl in Ht; discriminate|simpl; lia]. }
  lia.
Qed.

(** the one-space text of Syn/Render.v is the instance with every separator a single space *)
Lemma unlex_is_seps ts : unlex ts = unlex_seps (map (fun t => (t, [32%N])) ts).
Proof. induction ts as [|t ts IH]; [reflexivity|]. unfold unlex, unlex_seps in *. cbn [flat_map map fst snd]. now rewrite IH. Qed.

Theorem lex_unlex ts : forallb tok_okb ts = true -> forall f, 2 * length ts + 1 <= f -> lex f false (unlex ts) = Some ts.
Proof.
  intros H f Hf. rewrite unlex_is_seps. rewrite lex_unlex_seps.
  - rewrite map_map. cbn [fst]. now rewrite map_id.
  - unfold seps_okb. rewrite forallb_forall in *. intros [t w] Hin. apply in_map_iff in Hin. destruct Hin as (t0 & [= <- <-] & Hin).
    cbn [fst snd]. rewrite (H t0 Hin). reflexivity.
  - clear H. revert f Hf. induction ts as [|t ts IH]; intros f Hf; [simpl in *; lia|].
    cbn [map fuel_of fold_right snd length] in *. fold (fuel_of (map (fun t => (t, [32%N])) ts)).
    specialize (IH (f - 2)). lia.
Qed.

Lemma tok_str_nonempty t : tok_okb t = true -> 1 <= length (tok_str t).
Proof.
  destruct t; try (simpl; lia); simpl tok_okb; simpl tok_str.
  - destruct s; [discriminate|simpl; lia].
  - unfold number_okb. destruct s; [simpl; discriminate|simpl; lia].
Qed.

Lemma unlex_length ts : forallb tok_okb ts = true -> 2 * length ts <= length (unlex ts).
Proof.
  induction ts as [|t ts IH]; [simpl; lia|]. simpl forallb. intros H. apply andb_prop in H. destruct H as [Ht Hts].
  unfold unlex in *. cbn [flat_map length]. rewrite !app_length. cbn [length].
  pose proof (tok_str_nonempty t Ht). specialize (IH Hts). lia.
Qed.

(** ** C08: the model parser inverts every canonical rendering: steps in full or abbreviated,
    any number of redundant parentheses around any sub-expressions, any white space *)
Theorem parse_string_render : forall xp ab e, wf e = true -> forallb tok_okb (rend xp ab 0 e) = true ->
  parse_string false (render xp ab e) = Some e.
Proof.
  intros xp ab e Hw Hl. unfold parse_string, render.
  rewrite lex_unlex; [|exact Hl|pose proof (unlex_length _ Hl); lia].
  now rewrite parse_rend.
Qed.

(** ... with ANY non-empty run of white-space characters (space, tab, CR, LF) after each token *)
Lemma map_fst_combine {A B} (l : list A) (m : list B) : length m = length l -> map fst (combine l m) = l.
Proof.
  revert m. induction l as [|a l IH]; intros [|b m] H; try reflexivity; try discriminate.
  simpl. f_equal. apply IH. now injection H.
Qed.

Theorem parse_string_any_whitespace : forall xp ab e seps, wf e = true ->
  length seps = length (rend xp ab 0 e) -> seps_okb (combine (rend xp ab 0 e) seps) = true ->
  parse_string false (unlex_seps (combine (rend xp ab 0 e) seps)) = Some e.
Proof.
  intros xp ab e seps Hw Hlen Hok. unfold parse_string.
  rewrite lex_unlex_seps; [|exact Hok|apply fuel_of_le; exact Hok].
  rewrite map_fst_combine by exact Hlen. now rewrite parse_rend.
Qed.

(** abbreviated forms equal their expansions and redundant parentheses change nothing, as strings *)
Corollary renderings_agree_as_text xp xp' ab ab' e : wf e = true ->
  forallb tok_okb (rend xp ab 0 e) = true -> forallb tok_okb (rend xp' ab' 0 e) = true ->
  parse_string false (render xp ab e) = parse_string false (render xp' ab' e).
Proof. intros. now rewrite !parse_string_render. Qed.

(** two redundant pairs around every operator node, one around everything else *)
Definition heavy (e : expr) : nat :=
  match e with EOr _ _ | EAnd _ _ | ECmp _ _ _ | EArith _ _ _ => 2 | _ => 1 end.

Example parse_string_render_instance :
  let n1 := ENum (lit "1.5") in
  let a := EPath false [SAxis Child (NTQName (lit "p") (lit "a-b")) [ECmp CEq (ECall (None, lit "position") []) n1];
                        SAxis DescendantOrSelf NTNode []; SAxis Attribute (NTName (lit "div")) []; SAxis Parent NTNode []] in
  let e := EOr (EAnd (ECmp CLt (EArith ASub (EArith AMul (ENeg a) n1) (ELit (lit "it's"))) n1)
                     (EUnion a (EFilter (EVar (Some (lit "q"), lit "v")) [n1] [SAxis Parent NTNode []])))
               (EPath true []) in
  wf e = true /\ forallb tok_okb (rend minimal true 0 e) = true /\ forallb tok_okb (rend minimal false 0 e) = true /\
  parse_string false (render minimal true e) = Some e /\ parse_string false (render minimal false e) = Some e /\
  parse_string false (render heavy true e) = Some e /\
  render minimal true e <> render minimal false e /\ render heavy true e <> render minimal true e.
Proof. repeat split; try reflexivity; vm_compute; discriminate. Qed.

Example any_whitespace_instance :
  let e := EArith AMul (EPath false [SAxis Child (NTName (lit "a")) [ENum (lit "1")]]) (EVar (None, lit "n")) in
  let seps := [[9%N]; [32%N; 32%N]; [10%N]; [13%N; 10%N]; [32%N]; [9%N; 9%N]] in
  wf e = true /\ length seps = length (rend minimal true 0 e) /\ seps_okb (combine (rend minimal true 0 e) seps) = true /\
  parse_string false (unlex_seps (combine (rend minimal true 0 e) seps)) = Some e.
Proof. repeat split; reflexivity. Qed.

(** what the correspondence check asks for: a canonical text of an AST, when it has one;
    mode 0: steps in full; 1: abbreviated; 2: abbreviated with redundant parentheses everywhere *)
Definition canonical_text (mode : nat) (e : expr) : option str :=
  let xp := match mode with 2 => heavy | _ => minimal end in
  let ab := match mode with 0 => false | _ => true end in
  if wf e && forallb tok_okb (rend xp ab 0 e) then Some (render xp ab e) else None.

Theorem canonical_text_parses mode e s : canonical_text mode e = Some s -> parse_string false s = Some e.
Proof.
  unfold canonical_text. cbv zeta. destruct (wf e && forallb tok_okb (rend _ _ 0 e)) eqn:H; [|discriminate].
  intros [= <-]. apply andb_prop in H. destruct H. now apply parse_string_render.
Qed.
