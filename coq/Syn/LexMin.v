(** C08, the lexical half with OPTIONAL white space: between two tokens the white space
    may be omitted altogether whenever the character that follows could not be read as
    part of the token before it ([clash]): [a/b[1]|$v] needs none, [a - b], [1 .5] and
    [/ /] need one. [lex_unlex_glued] covers every choice of separators (empty where
    that is allowed, any run of white space elsewhere); [unlex_min] is the text with no
    optional white space at all. With Syn/RoundTrip.v the parser reads all of them back. *)
From XV Require Import Base.Str Base.Num Xp.Ast Syn.Parse Syn.Render Syn.RoundTrip Syn.LexThm.
From Coq Require Import Lia Arith NArith ZifyBool ZifyN.
From Coq Require String.
Import String.StringSyntax.
Local Open Scope string_scope.

(** [clash t c]: the character [c] directly after the text of [t] would be taken into the
    token (a longer name or numeral, [//], [<=], [::], [..], a prefixed variable) *)
Definition clash (t : tok) (c : N) : bool :=
  match t with
  | TName _ => name_char false c
  | TVar _ => name_char false c || N.eqb c 58
  | TNumber _ => is_digit c || N.eqb c 46
  | TSlash => N.eqb c 47
  | TLt | TGt => N.eqb c 61
  | TColon => N.eqb c 58
  | TDot => N.eqb c 46 || is_digit c
  | _ => false
  end.
Definition next_ok (t : tok) (R : str) : bool := match R with [] => true | c :: _ => negb (clash t c) end.

Lemma ws_no_clash t c : is_xml_ws c = true -> clash t c = false.
Proof. intros H. apply ws_cases in H. destruct t; ws4 H; reflexivity. Qed.

Lemma lex_name_gen f n R : name_okb n = true -> next_ok (TName n) R = true ->
  lex (S f) false (n ++ R) = one_ f (TName n) R.
Proof.
  destruct n as [|a r]; [discriminate|]. simpl name_okb. intros H Hn. apply andb_prop in H. destruct H as [Ha Hr].
  cbn [app]. rewrite lex_S. cbv zeta. pose proof (name_start_tests a Ha) as T. rw_tests T. cbn [orb]. rewrite Ha.
  assert (Hall : forallb (name_char false) (a :: r) = true) by (simpl; now rewrite (name_start_char a Ha), Hr).
  destruct R as [|c R].
  - rewrite app_nil_r. change (a :: r) with ((a :: r)) . rewrite (span_all _ (a :: r) Hall). reflexivity.
  - change (a :: r ++ c :: R) with ((a :: r) ++ c :: R). simpl in Hn. apply Bool.negb_true_iff in Hn.
    rewrite span_app; [reflexivity|exact Hall|exact Hn].
Qed.

Lemma span_app_nil (f : N -> bool) a : forallb f a = true -> span f (a ++ []) = (a, []).
Proof. rewrite app_nil_r. apply span_all. Qed.

(** [span] up to the end of the text or a character that fails the test *)
Lemma span_stop (f : N -> bool) a R : forallb f a = true -> match R with [] => True | c :: _ => f c = false end ->
  span f (a ++ R) = (a, R).
Proof. destruct R as [|c R]; intros Ha Hc; [now apply span_app_nil|now apply span_app]. Qed.

Lemma lex_number_gen f s R : number_okb s = true -> next_ok (TNumber s) R = true ->
  lex (S f) false (s ++ R) = one_ f (TNumber s) R.
Proof.
  unfold number_okb. pose proof (span_spec is_digit s) as Hs. destruct (span is_digit s) as [ds rest].
  destruct Hs as (-> & Hds & Hrest). intros H Hn.
  assert (HR : match R with [] => True | c :: _ => is_digit c = false end).
  { destruct R as [|c R]; [exact I|]. simpl in Hn. apply Bool.negb_true_iff, Bool.orb_false_iff in Hn. tauto. }
  assert (HR46 : match R with [] => True | c :: _ => N.eqb c 46 = false end).
  { destruct R as [|c R]; [exact I|]. simpl in Hn. apply Bool.negb_true_iff, Bool.orb_false_iff in Hn. tauto. }
  destruct ds as [|d ds].
  - (* .ddd *) destruct rest as [|x fs]; [discriminate|]. apply andb_prop in H. destruct H as [Hx Hfs].
    apply N.eqb_eq in Hx. subst x. destruct fs as [|d fs]; [discriminate|]. simpl digits_okb in Hfs.
    cbn [app]. rewrite lex_S. cbv zeta. cbn [is_xml_ws N.eqb Pos.eqb orb is_digit N.leb N.compare Pos.compare Pos.compare_cont andb].
    pose proof Hfs as Hd. simpl in Hd. apply andb_prop in Hd. destruct Hd as [Hd _]. rewrite Hd.
    change (d :: fs ++ R) with ((d :: fs) ++ R). rewrite span_stop; [reflexivity|exact Hfs|exact HR].
  - simpl in Hds. apply andb_prop in Hds. destruct Hds as [Hd Hds].
    assert (Hall : forallb is_digit (d :: ds) = true) by (simpl; now rewrite Hd, Hds).
    cbn [app]. rewrite lex_S. cbv zeta. pose proof (digit_tests d Hd) as T. rw_tests T. cbn [orb]. rewrite Hd.
    destruct rest as [|x fs].
    + (* ddd *) rewrite app_nil_r. change (d :: ds ++ R) with ((d :: ds) ++ R).
      rewrite span_stop; [|exact Hall|exact HR]. destruct R as [|c R]; [reflexivity|]. now rewrite HR46.
    + (* ddd. / ddd.ddd *) apply andb_prop in H. destruct H as [Hx Hfs]. apply N.eqb_eq in Hx. subst x.
      rewrite <- app_assoc. cbn [app].
      change (d :: ds ++ 46%N :: fs ++ R) with ((d :: ds) ++ 46%N :: fs ++ R).
      rewrite span_app; [|exact Hall|reflexivity]. cbn [N.eqb Pos.eqb].
      rewrite span_stop; [|exact Hfs|exact HR].
      destruct fs; reflexivity.
Qed.

Lemma lex_literal_gen f s R : literal_okb s = true ->
  lex (S f) false ((quote_for s :: s ++ [quote_for s]) ++ R) = one_ f (TLiteral s) R.
Proof.
  intros H. pose proof (quote_for_absent s H) as Hq. cbn [app]. rewrite <- app_assoc. cbn [app].
  rewrite lex_S. cbv zeta. unfold quote_for in *. destruct (existsb (N.eqb 34) s);
    cbn [is_xml_ws N.eqb Pos.eqb orb]; rewrite until_quote_app by exact Hq; reflexivity.
Qed.

Lemma lex_var_gen f q R : tok_okb (TVar q) = true -> next_ok (TVar q) R = true ->
  lex (S f) false ((36%N :: qname_str q) ++ R) = one_ f (TVar q) R.
Proof.
  intros H Hn.
  assert (HRn : match R with [] => True | c :: _ => name_char false c = false end).
  { destruct R as [|c R]; [exact I|]. simpl in Hn. apply Bool.negb_true_iff, Bool.orb_false_iff in Hn. tauto. }
  assert (HR58 : match R with [] => True | c :: _ => N.eqb c 58 = false end).
  { destruct R as [|c R]; [exact I|]. simpl in Hn. apply Bool.negb_true_iff, Bool.orb_false_iff in Hn. tauto. }
  destruct q as [[p|] n]; simpl tok_okb in H.
  - apply andb_prop in H. destruct H as [Hp Hn'].
    destruct (name_okb_split p Hp) as (a & r & -> & Ha & Hall). destruct (name_okb_split n Hn') as (a' & r' & -> & Ha' & Hall').
    cbn [qname_str app]. rewrite lex_S. cbv zeta. cbn [is_xml_ws N.eqb Pos.eqb orb is_digit N.leb N.compare Pos.compare Pos.compare_cont andb].
    rewrite Ha. rewrite <- app_assoc. cbn [app].
    change (a :: r ++ 58%N :: a' :: r' ++ R) with ((a :: r) ++ 58%N :: a' :: r' ++ R).
    rewrite span_app; [|exact Hall|reflexivity]. cbn [N.eqb Pos.eqb andb]. rewrite Ha'. cbn [tl].
    change (a' :: r' ++ R) with ((a' :: r') ++ R). rewrite span_stop; [reflexivity|exact Hall'|exact HRn].
  - destruct (name_okb_split n H) as (a & r & -> & Ha & Hall).
    cbn [qname_str app]. rewrite lex_S. cbv zeta. cbn [is_xml_ws N.eqb Pos.eqb orb is_digit N.leb N.compare Pos.compare Pos.compare_cont andb].
    rewrite Ha. change (a :: r ++ R) with ((a :: r) ++ R).
    rewrite span_stop; [|exact Hall|exact HRn].
    destruct R as [|c3 R]; [reflexivity|]. destruct R as [|c4 R]; [reflexivity|]. rewrite HR58. reflexivity.
Qed.

Lemma lex_one_gen t f R : tok_okb t = true -> next_ok t R = true ->
  lex (S f) false (tok_str t ++ R) = one_ f t R.
Proof.
  intros H Hn. destruct t; try discriminate H;
    [now apply lex_name_gen|now apply lex_number_gen|now apply lex_literal_gen|now apply lex_var_gen|..];
    (destruct R as [|c R]; [reflexivity|]); simpl in Hn; try reflexivity;
    try (apply Bool.negb_true_iff in Hn);
    try (apply Bool.orb_false_iff in Hn; destruct Hn as [Hn Hn2]);
    cbn [tok_str lit app]; rewrite lex_S; cbv zeta;
    cbn [is_xml_ws N.eqb Pos.eqb orb is_digit N.leb N.compare Pos.compare Pos.compare_cont andb];
    rewrite ?Hn, ?Hn2; reflexivity.
Qed.

(** ** every legal spacing: after each token any run of white space, empty where the next
    character does not clash with the token *)
Fixpoint glue_okb (l : list (tok * str)) : bool :=
  match l with
  | [] => true
  | (t, w) :: r =>
      tok_okb t && forallb is_xml_ws w && (match w with [] => next_ok t (unlex_seps r) | _ => true end) && glue_okb r
  end.

Theorem lex_unlex_glued l : glue_okb l = true -> forall f, fuel_of l <= f -> lex f false (unlex_seps l) = Some (map fst l).
Proof.
  induction l as [|[t w] l IH]; intros H f Hf.
  - destruct f; [simpl in Hf; lia|reflexivity].
  - cbn [glue_okb] in H. apply andb_prop in H. destruct H as [H Hl]. apply andb_prop in H. destruct H as [H Hnext].
    apply andb_prop in H. destruct H as [Ht Hw].
    cbn [fuel_of fold_right snd length] in Hf. fold (fuel_of l) in Hf.
    destruct f as [|g]; [lia|].
    cbn [unlex_seps flat_map fst snd]. fold (unlex_seps l). rewrite <- app_assoc.
    rewrite lex_one_gen; [|exact Ht|].
    + unfold one_.
      replace g with (length w + (g - length w)) by lia.
      rewrite lex_ws by exact Hw. rewrite IH; [reflexivity|exact Hl|lia].
    + destruct w as [|c w]; [exact Hnext|]. cbn [app next_ok]. simpl in Hw. apply andb_prop in Hw. destruct Hw as [Hc _].
      now rewrite (ws_no_clash t c Hc).
Qed.

Lemma glue_fuel_le l : glue_okb l = true -> fuel_of l <= length (unlex_seps l) + 1.
Proof.
  induction l as [|[t w] l IH]; intros H; [simpl; lia|].
  cbn [glue_okb] in H. apply andb_prop in H. destruct H as [H Hl]. apply andb_prop in H. destruct H as [H _].
  apply andb_prop in H. destruct H as [Ht _].
  cbn [fuel_of fold_right unlex_seps flat_map fst snd]. fold (fuel_of l). fold (unlex_seps l).
  rewrite !app_length. specialize (IH Hl). pose proof (tok_str_nonempty t Ht). lia.
Qed.

(** the spacing of Syn/LexThm.v (a non-empty run everywhere) is one of them *)
Lemma seps_are_glue l : seps_okb l = true -> glue_okb l = true.
Proof.
  induction l as [|[t w] l IH]; [reflexivity|]. cbn [seps_okb forallb fst snd glue_okb]. intros H. apply andb_prop in H. destruct H as [H Hl].
  apply andb_prop in H. destruct H as [Ht Hw]. fold (seps_okb l) in Hl. rewrite Ht, (IH Hl). destruct w as [|c w]; [discriminate|].
  unfold ws_okb in Hw. rewrite Hw. reflexivity.
Qed.

(** ** no optional white space at all: a single space only where two tokens would run together *)
Fixpoint min_seps (ts : list tok) : list (tok * str) :=
  match ts with
  | [] => []
  | t :: r => let m := min_seps r in (t, if next_ok t (unlex_seps m) then [] else [32%N]) :: m
  end.
Definition unlex_min (ts : list tok) : str := unlex_seps (min_seps ts).

Lemma min_seps_fst ts : map fst (min_seps ts) = ts.
Proof. induction ts as [|t r IH]; [reflexivity|]. cbn [min_seps map fst]. now rewrite IH. Qed.

Lemma min_seps_glue ts : forallb tok_okb ts = true -> glue_okb (min_seps ts) = true.
Proof.
  induction ts as [|t r IH]; [reflexivity|]. cbn [forallb min_seps glue_okb]. intros H. apply andb_prop in H. destruct H as [Ht Hr].
  rewrite Ht, (IH Hr). destruct (next_ok t (unlex_seps (min_seps r))) eqn:E; reflexivity.
Qed.

Theorem lex_unlex_min ts : forallb tok_okb ts = true -> lex (length (unlex_min ts) + 1) false (unlex_min ts) = Some ts.
Proof.
  intros H. unfold unlex_min. rewrite lex_unlex_glued; [now rewrite min_seps_fst|now apply min_seps_glue|].
  apply glue_fuel_le. now apply min_seps_glue.
Qed.

Definition render_min (xp : expr -> nat) (ab : bool) (e : expr) : str := unlex_min (rend xp ab 0 e).

(** C08: the parser inverts the rendering with NO optional white space ... *)
Theorem parse_string_render_min : forall xp ab e, wf e = true -> forallb tok_okb (rend xp ab 0 e) = true ->
  parse_string false (render_min xp ab e) = Some e.
Proof.
  intros xp ab e Hw Hl. unfold parse_string, render_min. rewrite lex_unlex_min by exact Hl. now rewrite parse_rend.
Qed.

(** ... and with ANY legal white space: after each token any run of space, tab, CR, LF,
    which may be empty exactly where the following character does not clash *)
Theorem parse_string_any_legal_whitespace : forall xp ab e seps, wf e = true ->
  length seps = length (rend xp ab 0 e) -> glue_okb (combine (rend xp ab 0 e) seps) = true ->
  parse_string false (unlex_seps (combine (rend xp ab 0 e) seps)) = Some e.
Proof.
  intros xp ab e seps Hw Hlen Hok. unfold parse_string.
  rewrite lex_unlex_glued; [|exact Hok|apply glue_fuel_le; exact Hok].
  rewrite map_fst_combine by exact Hlen. now rewrite parse_rend.
Qed.

(** leading white space is skipped too *)
Theorem parse_string_leading_whitespace : forall w s, forallb is_xml_ws w = true ->
  parse_string false (w ++ s) = parse_string false s.
Proof.
  intros w s Hw. unfold parse_string. rewrite app_length.
  replace (length w + length s + 1) with (length w + (length s + 1)) by lia. now rewrite lex_ws.
Qed.

Example render_min_instance :
  let n1 := ENum (lit "1.5") in
  let a := EPath false [SAxis Child (NTQName (lit "p") (lit "a-b")) [ECmp CEq (ECall (None, lit "position") []) n1];
                        SAxis DescendantOrSelf NTNode []; SAxis Attribute (NTName (lit "div")) []; SAxis Parent NTNode []] in
  let e := EOr (EAnd (ECmp CLt (EArith ASub (EArith AMul (ENeg a) n1) (ELit (lit "it's"))) n1)
                     (EUnion a (EFilter (EVar (Some (lit "q"), lit "v")) [n1] [SAxis Parent NTNode []])))
               (EPath true []) in
  render_min minimal true e = lit "-p:a-b[position()=1.5]//@div/..*1.5-""it's""<1.5and p:a-b[position()=1.5]//@div/..|$q:v[1.5]/..or(/)" /\
  parse_string false (render_min minimal true e) = Some e /\
  parse_string false (render_min minimal false e) = Some e /\ parse_string false (render_min heavy true e) = Some e.
Proof. cbv zeta. split; [vm_compute; reflexivity|]. split; [vm_compute; reflexivity|]. split; vm_compute; reflexivity. Qed.

(** what the correspondence check asks for: modes 0-2 as [canonical_text]; 3: abbreviated,
    4: steps in full, 5: abbreviated with redundant parentheses everywhere -- each with no
    optional white space *)
Definition canonical_text_ws (mode : nat) (e : expr) : option str :=
  match mode with
  | 0 | 1 | 2 => canonical_text mode e
  | _ =>
      let xp := match mode with 5 => heavy | _ => minimal end in
      let ab := match mode with 4 => false | _ => true end in
      if wf e && forallb tok_okb (rend xp ab 0 e) then Some (render_min xp ab e) else None
  end.

Theorem canonical_text_ws_parses mode e s : canonical_text_ws mode e = Some s -> parse_string false s = Some e.
Proof.
  unfold canonical_text_ws.
  destruct mode as [|[|[|m]]]; try apply canonical_text_parses.
  cbv zeta. destruct (wf e && forallb tok_okb (rend _ _ 0 e)) eqn:H; [|discriminate].
  intros [= <-]. apply andb_prop in H. destruct H. now apply parse_string_render_min.
Qed.
