(** C20: number and shape of the records per result and flag combination, the prefix
    rule, which files are visited, and that a failing file changes nothing else. *)
From Coq Require Import Lia.
From XV Require Import Base.Str Base.Num Doc.Tree Xp.Nav Xp.Values Cli.Cli.

Section Thm.
  Variable ser : anode -> path -> str.

  Theorem empty_nodeset_prints_nothing fl p stdin d : records ser fl p stdin d (Some (VNodes [])) = [].
  Proof. reflexivity. Qed.

  Theorem failing_file_prints_nothing fl p stdin d : records ser fl p stdin d None = [].
  Proof. reflexivity. Qed.

  (** default mode: exactly one record — the result's string value (first node in
      document order for a node-set) and a newline *)
  Theorem default_mode_one_record fl p stdin d v :
    f_xml fl = false -> f_all fl = false -> v <> VNodes [] ->
    records ser fl p stdin d (Some v) = [prefix_of fl p stdin ++ to_str d v ++ [newline]].
  Proof.
    intros H1 H2 Hv. unfold records. destruct v as [[|n l]| | |]; try reflexivity; [congruence|].
    now rewrite H1, H2.
  Qed.

  (** -a: one record per node, in result order *)
  Theorem all_mode_one_record_per_node fl p stdin d n l :
    f_xml fl = false -> f_all fl = true ->
    records ser fl p stdin d (Some (VNodes (n :: l))) =
    map (fun x => prefix_of fl p stdin ++ to_str d (VNodes [x]) ++ [newline]) (n :: l).
  Proof. intros H1 H2. unfold records. now rewrite H1, H2. Qed.

  (** -m: one record per node, each a single line *)
  Theorem xml_mode_one_record_per_node fl p stdin d n l :
    f_xml fl = true ->
    records ser fl p stdin d (Some (VNodes (n :: l))) =
    map (fun x => one_line (prefix_of fl p stdin ++ ser d x) ++ [newline]) (n :: l).
  Proof. intros H1. unfold records. now rewrite H1. Qed.

  Theorem one_line_has_no_newline s : ~ In newline (one_line s).
  Proof.
    unfold one_line. intros H. apply in_flat_map in H as (c & _ & H).
    destruct (N.eqb_spec c newline) as [E|Hne].
    - simpl in H. unfold newline in H. repeat (destruct H as [H|H]; [discriminate|]). destruct H.
    - destruct H as [E|[]]. congruence.
  Qed.

  Corollary xml_records_are_single_lines fl p stdin d l r :
    f_xml fl = true -> In r (records ser fl p stdin d (Some (VNodes l))) ->
    exists body, r = body ++ [newline] /\ ~ In newline body.
  Proof.
    intros H1 Hr. destruct l as [|n l]; [destruct Hr|].
    rewrite xml_mode_one_record_per_node in Hr by exact H1. apply in_map_iff in Hr as (x & <- & _).
    eexists. split; [reflexivity|apply one_line_has_no_newline].
  Qed.

  (** number of records *)
  Theorem record_count fl p stdin d l :
    length (records ser fl p stdin d (Some (VNodes l))) =
    match l with [] => 0 | _ => if f_xml fl || f_all fl then length l else 1 end.
  Proof.
    destruct l as [|n l]; [reflexivity|]. unfold records.
    destruct (f_xml fl); [now rewrite map_length|]. destruct (f_all fl); [now rewrite map_length|reflexivity].
  Qed.

  (** the prefix: "path: " unless -n is given or the input is standard input *)
  Theorem prefix_rule fl p stdin :
    prefix_of fl p stdin = if f_noname fl || stdin then [] else p ++ [58; 32]%N.
  Proof. reflexivity. Qed.

  (** a file that cannot be read / parsed / queried does not affect the output for the others *)
  Theorem failing_file_does_not_affect_others fl pre post p stdin d :
    cli_stdout ser fl (pre ++ (p, stdin, d, None) :: post) = cli_stdout ser fl pre ++ cli_stdout ser fl post.
  Proof. unfold cli_stdout. rewrite flat_map_app. reflexivity. Qed.

  Theorem stdout_is_file_by_file fl a b :
    cli_stdout ser fl (a ++ b) = cli_stdout ser fl a ++ cli_stdout ser fl b.
  Proof. unfold cli_stdout. apply flat_map_app. Qed.
End Thm.

(** directories are descended only with -r; files given as arguments are always processed *)
Theorem directory_needs_r fl name entries : f_rec fl = false -> files_of_arg fl (FDir name entries) = [].
Proof. intros H. unfold files_of_arg. now rewrite H. Qed.

Theorem file_argument_processed fl name : files_of_arg fl (FFile name) = [name].
Proof. reflexivity. Qed.

Definition files_under_list (prefix : str) (l : list fsnode) : list str := flat_map (files_under prefix) l.

Theorem recursive_visits_all_descendants fl name entries : f_rec fl = true ->
  files_of_arg fl (FDir name entries) = files_under_list (name ++ s_slash) entries.
Proof.
  intros H. unfold files_of_arg. rewrite H. simpl.
  unfold files_under_list. induction entries as [|e r IH]; simpl; [reflexivity|]. now rewrite IH.
Qed.
