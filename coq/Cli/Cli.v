(** Model of xsel/xsel.go (the command-line tool): which files are processed, what is
    printed for each — records, prefix, the three output modes — and that a file that
    cannot be read, parsed or queried contributes nothing to standard output. The
    XML serialisation of -m is encoding/xml's encoder (an oracle [ser]); newline
    replacement is modelled. OS, file system and mime tables are observed by the
    harness. *)
From XV Require Import Base.Str Base.Num Doc.Tree Xp.Nav Xp.Values.

Record flags := Flags {
  f_all : bool;        (* -a *)
  f_xml : bool;        (* -m *)
  f_noname : bool;     (* -n *)
  f_rec : bool         (* -r *)
}.

(** ** which files *)
Inductive fsnode :=
| FFile (name : str)
| FDir (name : str) (entries : list fsnode).   (* entries in lexical order, as WalkDir visits them *)

Definition s_slash : str := [47%N].

(** filepath.WalkDir from one argument: a file is processed; a directory is descended
    only with -r (otherwise a diagnostic and SkipDir) *)
Fixpoint files_under (prefix : str) (n : fsnode) {struct n} : list str :=
  match n with
  | FFile name => [prefix ++ name]
  | FDir name entries =>
      (fix go (l : list fsnode) : list str :=
         match l with [] => [] | e :: r => files_under (prefix ++ name ++ s_slash) e ++ go r end) entries
  end.

Definition files_of_arg (fl : flags) (n : fsnode) : list str :=
  match n with
  | FFile name => [name]
  | FDir _ _ => if f_rec fl then files_under [] n else []
  end.

(** ** what is printed for one file *)
Definition newline : N := 10.

(** bytes.ReplaceAll(record, "\n", "&#10;") *)
Definition one_line (s : str) : str :=
  flat_map (fun c => if N.eqb c newline then [38; 35; 49; 48; 59]%N else [c]) s.

Section Records.
  Variable ser : anode -> path -> str.     (* encodeCursorToXml through encoding/xml's encoder *)

  Definition prefix_of (fl : flags) (path : str) (stdin : bool) : str :=
    if f_noname fl || stdin then [] else path ++ [58; 32]%N.

  (** [res]: the result of the query on the file's document, or None when the file could
      not be read / parsed / queried (a diagnostic goes to stderr) *)
  Definition records (fl : flags) (path : str) (stdin : bool) (d : anode) (res : option value) : list str :=
    let pre := prefix_of fl path stdin in
    match res with
    | None => []
    | Some (VNodes []) => []
    | Some (VNodes l) =>
        if f_xml fl then map (fun n => one_line (pre ++ ser d n) ++ [newline]) l
        else if f_all fl then map (fun n => pre ++ to_str d (VNodes [n]) ++ [newline]) l
        else [pre ++ to_str d (VNodes l) ++ [newline]]
    | Some v => [pre ++ to_str d v ++ [newline]]
    end.

  (** standard output: the records of the processed files, file by file *)
  Definition cli_stdout (fl : flags) (files : list (str * bool * anode * option value)) : str :=
    flat_map (fun f => let '(p, stdin, d, res) := f in concat (records fl p stdin d res)) files.
End Records.
