(** C03: node-sets produced by steps and unions are strictly monotone in Pos (hence
    duplicate-free and never a mixture of directions); the union laws. *)
From Coq Require Import Sorting.Sorted Sorting.Permutation Lia.
From XV Require Import Base.Str Base.Num Doc.Tree Xp.Ast Xp.Nav Xp.Axes Xp.Values Xp.Funcs Xp.Eval Xp.SortThm.
Local Open Scope Z_scope.

Lemma pos_inj_on_incl d l l' : (forall p, In p l' -> In p l) -> pos_inj_on d l -> pos_inj_on d l'.
Proof. intros Hi H p q Hp Hq. apply H; auto. Qed.

Section Union.
  Variable d : anode.

  Definition union (l r : list path) : list path := cleanup_forward d (l ++ r).

  Lemma union_sorted l r : StronglySorted (pos_lt d) (union l r).
  Proof. apply cleanup_forward_sorted. Qed.

  Lemma union_mem l r p : pos_inj_on d (l ++ r) -> (In p (union l r) <-> In p l \/ In p r).
  Proof. intros H. unfold union. rewrite cleanup_forward_mem by exact H. apply in_app_iff. Qed.

  Theorem union_comm l r : pos_inj_on d (l ++ r) -> union l r = union r l.
  Proof.
    intros H. apply (sorted_lt_canonical d); try apply union_sorted.
    intros p. rewrite union_mem by exact H.
    rewrite union_mem; [tauto|].
    eapply pos_inj_on_incl; [|exact H]. intros q. rewrite !in_app_iff. tauto.
  Qed.

  Theorem union_idem l : pos_inj_on d l -> union l l = cleanup_forward d l.
  Proof.
    intros H. apply (sorted_lt_canonical d); [apply union_sorted|apply cleanup_forward_sorted|].
    assert (H2 : pos_inj_on d (l ++ l)).
    { eapply pos_inj_on_incl; [|exact H]. intros q. rewrite in_app_iff. tauto. }
    intros p. rewrite union_mem by exact H2. rewrite cleanup_forward_mem by exact H. tauto.
  Qed.

  Theorem union_assoc l r t :
    pos_inj_on d (l ++ r ++ t) -> union (union l r) t = union l (union r t).
  Proof.
    intros H.
    assert (Hlr : pos_inj_on d (l ++ r)).
    { eapply pos_inj_on_incl; [|exact H]. intros q. rewrite !in_app_iff. tauto. }
    assert (Hrt : pos_inj_on d (r ++ t)).
    { eapply pos_inj_on_incl; [|exact H]. intros q. rewrite !in_app_iff. tauto. }
    assert (H1 : pos_inj_on d (union l r ++ t)).
    { eapply pos_inj_on_incl; [|exact H]. intros q. rewrite !in_app_iff.
      intros [Hq|Hq]; [apply union_mem in Hq; tauto|tauto]. }
    assert (H2 : pos_inj_on d (l ++ union r t)).
    { eapply pos_inj_on_incl; [|exact H]. intros q. rewrite !in_app_iff.
      intros [Hq|Hq]; [tauto|apply union_mem in Hq; tauto]. }
    apply (sorted_lt_canonical d); try apply union_sorted.
    intros p. rewrite (union_mem _ _ _ H1), (union_mem _ _ _ H2), (union_mem _ _ _ Hlr), (union_mem _ _ _ Hrt). tauto.
  Qed.

  (** an already clean node-set is a fixed point: A | {} = A *)
  Theorem union_nil_r l : StronglySorted (pos_lt d) l -> pos_inj_on d l -> union l [] = l.
  Proof.
    intros Hs Hi. apply (sorted_lt_canonical d); [apply union_sorted|exact Hs|].
    intros p. rewrite union_mem by (rewrite app_nil_r; exact Hi). simpl. tauto.
  Qed.
End Union.

(** subsequences of monotone lists are monotone: predicates keep the order *)
Lemma filter_pred_incl en f size i l l' p :
  filter_pred en f size i l = Ok l' -> In p l' -> In p l.
Proof.
  revert i l'; induction l as [|q r IH]; intros i l' H Hp; simpl in H.
  - inversion H; subst. exact Hp.
  - destruct (f (Ctx [q] i size)) as [v|]; [|discriminate].
    destruct (filter_pred en f size (i + 1) r) as [r'|] eqn:E; [|discriminate].
    inversion H; subst. destruct (pred_keeps en i v).
    + destruct Hp as [->|Hp]; [now left|right; eapply IH; eauto].
    + right; eapply IH; eauto.
Qed.

Lemma filter_pred_sublist en f size i l l' :
  filter_pred en f size i l = Ok l' -> forall R : path -> path -> Prop, StronglySorted R l -> StronglySorted R l'.
Proof.
  revert i l'; induction l as [|p r IH]; intros i l' H R Hs; simpl in H.
  - inversion H; subst; constructor.
  - destruct (f (Ctx [p] i size)) as [v|]; [|discriminate].
    destruct (filter_pred en f size (i + 1) r) as [r'|] eqn:E; [|discriminate].
    inversion Hs as [|? ? Hr Hp]; subst.
    pose proof (IH _ _ E R Hr) as IH'.
    inversion H; subst. destruct (pred_keeps en i v); [|exact IH'].
    constructor; [exact IH'|].
    apply Forall_forall. intros q Hq. rewrite Forall_forall in Hp. apply Hp.
    eapply filter_pred_incl; eauto.
Qed.

Lemma apply_preds_sublist en fs l l' :
  apply_preds en fs l = Ok l' -> forall R : path -> path -> Prop, StronglySorted R l -> StronglySorted R l'.
Proof.
  revert l l'; induction fs as [|f fs IH]; intros l l' H R Hs; simpl in H.
  - inversion H; subst; exact Hs.
  - destruct (filter_pred en f (Z.of_nat (length l)) 1 l) as [l1|] eqn:E; [|discriminate].
    eapply IH; [exact H|]. eapply filter_pred_sublist; eauto.
Qed.

Lemma apply_preds_incl en fs l l' p : apply_preds en fs l = Ok l' -> In p l' -> In p l.
Proof.
  revert l l'; induction fs as [|f fs IH]; intros l l' H Hp; simpl in H.
  - inversion H; subst; exact Hp.
  - destruct (filter_pred en f (Z.of_nat (length l)) 1 l) as [l1|] eqn:E; [|discriminate].
    eapply filter_pred_incl; [exact E|]. eapply IH; eauto.
Qed.

(** every axis step returns a strictly monotone node-set: ascending for forward
    axes, descending for reverse axes *)
Theorem axis_step_monotone en a t preds v l :
  axis_step en a t preds v = Ok (VNodes l) ->
  if axis_reverse a then StronglySorted (pos_gt (e_doc en)) l else StronglySorted (pos_lt (e_doc en)) l.
Proof.
  unfold axis_step. destruct v as [l0| | |]; try discriminate.
  destruct (concat_res (step_from en a t preds) l0) as [all|] eqn:E; [|discriminate].
  intros H; inversion H; subst; clear H.
  destruct l0 as [|p0 r0].
  - simpl in E. inversion E; subst. unfold cleanup_forward; simpl.
    destruct (axis_reverse a); constructor.
  - destruct (axis_reverse a); [apply cleanup_backward_sorted|apply cleanup_forward_sorted].
Qed.

Theorem axis_step_NoDup en a t preds v l : axis_step en a t preds v = Ok (VNodes l) -> NoDup l.
Proof.
  intros H. apply axis_step_monotone in H. destruct (axis_reverse a).
  - eapply sorted_gt_NoDup; eauto.
  - eapply sorted_lt_NoDup; eauto.
Qed.

(** every union is ascending and duplicate-free *)
Theorem eval_union_ascending en a b c l :
  eval en (EUnion a b) c = Ok (VNodes l) ->
  StronglySorted (pos_lt (e_doc en)) l /\ NoDup l.
Proof.
  simpl. destruct (eval en a c) as [x|]; [|discriminate].
  destruct (eval en b c) as [y|]; [|discriminate].
  destruct x as [lx| | |]; try discriminate. destruct y as [ly| | |]; try discriminate.
  intros H; inversion H; subst. split; [apply cleanup_forward_sorted|].
  eapply sorted_lt_NoDup. apply cleanup_forward_sorted.
Qed.

Lemma run_steps_app fs gs c v :
  run_steps (fs ++ gs) c v = match run_steps fs c v with Ok v' => run_steps gs c v' | Err => Err end.
Proof.
  revert v; induction fs as [|f fs IH]; intros v; simpl; [reflexivity|].
  destruct (f c v); [apply IH|reflexivity].
Qed.

(** a location path that ends in an axis step returns a strictly monotone node-set,
    whatever came before (reverse axes, several context nodes, predicates) *)
Theorem path_result_monotone en abs steps a t preds c l :
  eval en (EPath abs (steps ++ [SAxis a t preds])) c = Ok (VNodes l) ->
  if axis_reverse a then StronglySorted (pos_gt (e_doc en)) l else StronglySorted (pos_lt (e_doc en)) l.
Proof.
  simpl. rewrite map_app, run_steps_app. simpl.
  destruct (run_steps _ c _) as [v'|]; [|discriminate].
  destruct (axis_step en a t _ v') as [v''|] eqn:E; [|discriminate].
  intros H; inversion H; subst. eapply axis_step_monotone; eauto.
Qed.

(** a filter expression with predicates numbers and returns the nodes in document order *)
Theorem filter_result_ascending en e0 p preds c l :
  eval en (EFilter e0 (p :: preds) []) c = Ok (VNodes l) -> StronglySorted (pos_lt (e_doc en)) l.
Proof.
  simpl. destruct (eval en e0 c) as [v0|]; [|discriminate].
  destruct v0 as [l0| | |]; try discriminate.
  destruct (filter_pred en (eval en p) _ 1 _) as [l1|] eqn:E1; [|discriminate].
  destruct (apply_preds en _ l1) as [l2|] eqn:E2; [|discriminate].
  intros H; inversion H; subst.
  eapply apply_preds_sublist; [exact E2|].
  eapply filter_pred_sublist; [exact E1|]. apply cleanup_forward_sorted.
Qed.
