(** Navigation over the annotated tree by paths: what Cursor.Parent/Children/
    Attributes/Namespaces/Pos/Node give the evaluator. *)
From XV Require Import Base.Str Doc.Tree.
Local Open Scope Z_scope.

Section Nav.
  Variable d : anode.

  Definition pos_of (p : path) : Z :=
    match lookup d p with Some it => item_pos it | None => -1 end.

  Definition kind_of (p : path) : option nkind :=
    match lookup d p with Some it => Some (item_kind p it) | None => None end.

  Definition valid (p : path) : bool :=
    match lookup d p with Some _ => true | None => false end.

  Definition subtree (p : path) : option anode :=
    match lookup d p with Some (ITree n) => Some n | _ => None end.

  Definition idx_paths (p : path) (mk : nat -> step) (n : nat) : list path :=
    map (fun i => p ++ [mk i]) (seq 0 n).

  Definition children (p : path) : list path :=
    match subtree p with Some n => idx_paths p SCh (length (akids n)) | None => [] end.
  Definition attributes (p : path) : list path :=
    match subtree p with Some n => idx_paths p SAt (length (aats n)) | None => [] end.
  Definition namespaces (p : path) : list path :=
    match subtree p with Some n => idx_paths p SNs (length (anss n)) | None => [] end.

  Definition is_root (p : path) : bool := match p with [] => true | _ => false end.

  (** index among the parent's children; None for root, attributes, namespaces *)
  Definition child_index (p : path) : option nat :=
    match last_step p with Some (SCh i) => Some i | _ => None end.
End Nav.

(** pre-order listing of the descendants of the subtree [n] located at [p] *)
Fixpoint desc_of (p : path) (n : anode) {struct n} : list path :=
  match n with
  | AElem _ _ _ _ kids =>
      (fix go (i : nat) (l : list anode) {struct l} : list path :=
         match l with
         | [] => []
         | k :: r => (p ++ [SCh i]) :: desc_of (p ++ [SCh i]) k ++ go (S i) r
         end) O kids
  | ALeaf _ _ => []
  end.

Definition descendants (d : anode) (p : path) : list path :=
  match subtree d p with Some n => desc_of p n | None => [] end.

(** string-value pieces *)
Fixpoint text_of (n : anode) {struct n} : str :=
  match n with
  | AElem _ _ _ _ kids =>
      (fix go (l : list anode) {struct l} : str :=
         match l with
         | [] => []
         | k :: r => text_of k ++ go r
         end) kids
  | ALeaf _ (LText v) => v
  | ALeaf _ _ => []
  end.

Definition string_value (d : anode) (p : path) : str :=
  match lookup d p with
  | Some (ITree (AElem _ _ _ _ _ as n)) => text_of n
  | Some (ITree (ALeaf _ (LText v))) => v
  | Some (ITree (ALeaf _ (LComment v))) => v
  | Some (ITree (ALeaf _ (LPI _ data))) => data
  | Some (INs a) => ns_uri a
  | Some (IAt a) => at_val a
  | None => []
  end.
