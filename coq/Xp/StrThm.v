(** C07: the string functions over lists of Unicode scalar values. *)
From Coq Require Import Lia.
From XV Require Import Base.Str Base.Num Base.NumThm Doc.Tree Xp.Funcs.
Local Open Scope Z_scope.

(** ** starts-with, contains, substring-before / substring-after *)
Theorem starts_with_spec sv t : fn_starts_with sv t = true <-> exists b, sv = t ++ b.
Proof. apply is_prefix_spec. Qed.

Lemma skipn_length_app {A} (t b : list A) : skipn (length t) (t ++ b) = b.
Proof. induction t; simpl; auto. Qed.

Lemma prefix_skipn t s : is_prefix t s = true -> s = t ++ skipn (length t) s.
Proof. intros H. apply is_prefix_spec in H as [b ->]. now rewrite skipn_length_app. Qed.

(** [split_at t s = Some (a, b)] iff [s = a ++ t ++ b] with [a] the shortest such prefix *)
Theorem split_at_some t : forall s a b,
  split_at t s = Some (a, b) ->
  s = a ++ t ++ b /\
  (forall a' b', s = a' ++ t ++ b' -> (length a <= length a')%nat).
Proof.
  induction s as [|x s IH]; intros a b H.
  - simpl in H. destruct (is_prefix t []) eqn:E; [|discriminate].
    inversion H; subst. split; [|intros; simpl; lia]. simpl. now apply prefix_skipn.
  - cbn [split_at] in H. destruct (is_prefix t (x :: s)) eqn:E.
    + inversion H; subst. split; [|intros; simpl; lia]. simpl. now apply prefix_skipn.
    + destruct (split_at t s) as [[a0 b0]|] eqn:Es; [|discriminate].
      inversion H; subst. destruct (IH a0 b eq_refl) as [Hs Hmin]. split.
      * simpl. now rewrite Hs at 1.
      * intros a' b' H'. destruct a' as [|y a'].
        -- exfalso. simpl in H'. assert (is_prefix t (x :: s) = true); [|congruence].
           apply is_prefix_spec. now exists b'.
        -- simpl in H'. injection H' as _ H2. simpl. specialize (Hmin a' b' H2). lia.
Qed.

Theorem split_at_none t : forall s, split_at t s = None -> forall a b, s <> a ++ t ++ b.
Proof.
  induction s as [|x s IH]; intros H a b Hs.
  - simpl in H. destruct (is_prefix t []) eqn:E; [discriminate|].
    assert (is_prefix t [] = true); [|congruence]. apply is_prefix_spec.
    destruct a; [now exists b|discriminate].
  - cbn [split_at] in H. destruct (is_prefix t (x :: s)) eqn:E; [discriminate|].
    destruct (split_at t s) as [[a0 b0]|] eqn:Es; [discriminate|].
    destruct a as [|y a].
    + assert (is_prefix t (x :: s) = true); [|congruence]. apply is_prefix_spec. now exists b.
    + simpl in Hs. inversion Hs; subst. exact (IH eq_refl a b eq_refl).
Qed.

Theorem contains_spec sv t : fn_contains sv t = true <-> exists a b, sv = a ++ t ++ b.
Proof.
  unfold fn_contains. destruct (split_at t sv) as [[a b]|] eqn:E; split.
  - intros _. apply split_at_some in E as [H _]. eauto.
  - reflexivity.
  - discriminate.
  - intros (a & b & H). exfalso. eapply split_at_none; eauto.
Qed.

Theorem substring_before_after_spec sv t :
  (fn_contains sv t = true ->
     sv = fn_substring_before sv t ++ t ++ fn_substring_after sv t /\
     forall a b, sv = a ++ t ++ b -> (length (fn_substring_before sv t) <= length a)%nat) /\
  (fn_contains sv t = false -> fn_substring_before sv t = [] /\ fn_substring_after sv t = []).
Proof.
  unfold fn_contains, fn_substring_before, fn_substring_after.
  destruct (split_at t sv) as [[a b]|] eqn:E; split; try discriminate; auto.
  intros _. now apply split_at_some in E.
Qed.

(** ** string-length counts characters *)
Theorem string_length_is_character_count sv : fn_string_length sv = f_of_Z (Z.of_nat (length sv)).
Proof. reflexivity. Qed.

(** ** substring: the characters at the 1-based positions q with
    round(p) <= q < round(p) + round(l) under IEEE comparison *)
Definition in_window (b e : fl) (q : Z) : bool := fleb b (f_of_Z q) && fltb (f_of_Z q) e.

Theorem substring_from_spec b e : forall sv q,
  substring_from q b e sv =
  map snd (filter (fun p => in_window b e (fst p)) (combine (map (fun i => q + Z.of_nat i) (seq 0 (length sv))) sv)).
Proof.
  induction sv as [|c r IH]; intros q; [reflexivity|].
  cbn [substring_from length seq map combine filter]. rewrite Z.add_0_r.
  rewrite <- seq_shift, map_map.
  replace (map (fun i => q + Z.of_nat (S i)) (seq 0 (length r)))
    with (map (fun i => q + 1 + Z.of_nat i) (seq 0 (length r)))
    by (apply map_ext; intros; lia).
  rewrite (IH (q + 1)). cbn [fst].
  change (fleb b (f_of_Z q) && fltb (f_of_Z q) e) with (in_window b e q).
  destruct (in_window b e q); reflexivity.
Qed.

Theorem substring_nan_selects_nothing sv l :
  fn_substring sv S754_nan l = [].
Proof.
  unfold fn_substring. cbn [f_round_half_up].
  generalize 1. induction sv as [|c r IH]; intros q; simpl; [reflexivity|]. apply IH.
Qed.

Theorem substring_members sv p l c : In c (fn_substring sv p l) -> In c sv.
Proof.
  unfold fn_substring. generalize 1.
  induction sv as [|x r IH]; intros q H; simpl in *; [exact H|].
  destruct (_ && _); [destruct H as [->|H]; [now left|right; eauto]|right; eauto].
Qed.

(** ** normalize-space *)
Lemma words_aux_nonempty cur sv w : In w (words_aux cur sv) -> w <> [].
Proof.
  revert cur; induction sv as [|c r IH]; intros cur H; simpl in H.
  - destruct cur as [|x cur]; [destruct H|]. destruct H as [<-|[]].
    intro E. apply (f_equal (@length N)) in E. rewrite rev_length in E. discriminate.
  - destruct (is_xml_ws c).
    + destruct cur as [|x cur]; [eauto|]. destruct H as [<-|H]; [|eauto].
      intro E. apply (f_equal (@length N)) in E. rewrite rev_length in E. discriminate.
    + eauto.
Qed.

Lemma words_aux_no_ws cur sv w : forallb (fun c => negb (is_xml_ws c)) cur = true ->
  In w (words_aux cur sv) -> forallb (fun c => negb (is_xml_ws c)) w = true.
Proof.
  revert cur; induction sv as [|c r IH]; intros cur Hc H; simpl in H.
  - destruct cur as [|x cur]; [destruct H|]. destruct H as [<-|[]].
    rewrite forallb_forall in *. intros y Hy. apply Hc. now apply in_rev.
  - destruct (is_xml_ws c) eqn:E.
    + destruct cur as [|x cur]; [eapply (IH []); [reflexivity|exact H]|].
      destruct H as [<-|H]; [|eapply (IH []); [reflexivity|exact H]].
      rewrite forallb_forall in *. intros y Hy. apply Hc. now apply in_rev.
    + eapply IH; [|exact H]. simpl. now rewrite E.
Qed.

(** the words of the result contain no XML white space and are not empty; the result
    is those words joined by single spaces *)
Theorem normalize_space_words sv :
  fn_normalize_space sv = join_sp (words sv) /\
  Forall (fun w => w <> [] /\ forallb (fun c => negb (is_xml_ws c)) w = true) (words sv).
Proof.
  split; [reflexivity|]. apply Forall_forall. intros w Hw. split.
  - eapply words_aux_nonempty; eauto.
  - eapply words_aux_no_ws; [|exact Hw]. reflexivity.
Qed.

Lemma words_aux_app_nonws cur w r : forallb (fun c => negb (is_xml_ws c)) w = true ->
  words_aux cur (w ++ r) = words_aux (rev w ++ cur) r.
Proof.
  revert cur; induction w as [|c w IH]; intros cur H; simpl; [reflexivity|].
  simpl in H. apply andb_true_iff in H as [H1 H2]. apply negb_true_iff in H1. rewrite H1.
  rewrite IH by exact H2. now rewrite <- app_assoc.
Qed.

Lemma words_join l :
  Forall (fun w => w <> [] /\ forallb (fun c => negb (is_xml_ws c)) w = true) l ->
  words (join_sp l) = l.
Proof.
  unfold words. induction 1 as [|w l [Hne Hw] Hl IH]; [reflexivity|].
  destruct l as [|w2 l].
  - simpl. rewrite <- (app_nil_r w) at 1. rewrite words_aux_app_nonws by exact Hw. simpl.
    rewrite app_nil_r. destruct (rev w) eqn:E.
    + apply (f_equal (@length N)) in E. rewrite rev_length in E. destruct w; [congruence|discriminate].
    + rewrite <- E. now rewrite rev_involutive.
  - change (join_sp (w :: w2 :: l)) with (w ++ 32%N :: join_sp (w2 :: l)).
    rewrite words_aux_app_nonws by exact Hw. simpl. rewrite app_nil_r.
    destruct (rev w) eqn:E.
    + apply (f_equal (@length N)) in E. rewrite rev_length in E. destruct w; [congruence|discriminate].
    + rewrite <- E, rev_involutive. f_equal. exact IH.
Qed.

(** idempotent, and the word sequence is preserved *)
Theorem normalize_space_idempotent sv :
  fn_normalize_space (fn_normalize_space sv) = fn_normalize_space sv.
Proof.
  unfold fn_normalize_space. rewrite words_join; [reflexivity|].
  apply (proj2 (normalize_space_words sv)).
Qed.

Theorem normalize_space_preserves_words sv : words (fn_normalize_space sv) = words sv.
Proof. unfold fn_normalize_space. apply words_join. apply (proj2 (normalize_space_words sv)). Qed.

(** only #x20 #x9 #xD #xA are white space: NBSP and the other Unicode spaces are not *)
Example xml_whitespace_only :
  map is_xml_ws [32; 9; 13; 10; 160; 8195; 133; 8232; 12288; 11; 12]%N =
  [true; true; true; true; false; false; false; false; false; false; false].
Proof. reflexivity. Qed.

(** ** translate: every character mapped simultaneously by its FIRST occurrence in
    [from]; deleted when [to] is shorter *)
Theorem translate_is_per_character sv from to :
  fn_translate sv from to = flat_map (translate_char from to) sv.
Proof. reflexivity. Qed.

Lemma index_of_first c l : forall i k,
  index_of c l i = Some k ->
  exists pre post, l = pre ++ c :: post /\ ~ In c pre /\ k = (i + length pre)%nat.
Proof.
  induction l as [|x r IH]; intros i k H; simpl in H; [discriminate|].
  destruct (N.eqb_spec x c) as [->|Hne].
  - inversion H; subst. exists [], r. simpl. repeat split; auto; lia.
  - destruct (IH (S i) k H) as (pre & post & -> & Hnin & ->).
    exists (x :: pre), post. simpl. split; [reflexivity|]. split; [|lia]. intros [E|E]; [congruence|tauto].
Qed.

Lemma index_of_none c l : forall i, index_of c l i = None -> ~ In c l.
Proof.
  induction l as [|x r IH]; intros i H; simpl in H; [tauto|].
  destruct (N.eqb_spec x c) as [->|Hne]; [discriminate|].
  intros [E|E]; [congruence|]. eapply IH; eauto.
Qed.

Theorem translate_char_spec from to c :
  (~ In c from -> translate_char from to c = [c]) /\
  (forall pre post, from = pre ++ c :: post -> ~ In c pre ->
     translate_char from to c = match nth_error to (length pre) with Some c' => [c'] | None => [] end).
Proof.
  unfold translate_char. split.
  - intros Hn. destruct (index_of c from 0) as [k|] eqn:E; [|reflexivity].
    apply index_of_first in E as (pre & post & -> & _ & _). exfalso. apply Hn. apply in_or_app. right. now left.
  - intros pre post -> Hn. destruct (index_of c (pre ++ c :: post) 0) as [k|] eqn:E.
    + apply index_of_first in E as (pre' & post' & E & Hn' & ->). simpl.
      assert (pre = pre').
      { clear - E Hn Hn'. revert pre' E Hn'. induction pre as [|x pre IH]; intros [|y pre'] E Hn'; simpl in *.
        - reflexivity.
        - inversion E; subst. exfalso. apply Hn'. now left.
        - inversion E; subst. exfalso. apply Hn. now left.
        - inversion E; subst. f_equal. apply IH; auto. }
      now subst.
    + apply index_of_none in E. exfalso. apply E. apply in_or_app. right. now left.
Qed.

(** simultaneous, not sequential: a <-> b swap *)
Example translate_is_simultaneous :
  fn_translate [97; 98; 99]%N [97; 98]%N [98; 97]%N = [98; 97; 99]%N.
Proof. reflexivity. Qed.

(** ** results only contain characters of the arguments (UTF-8 validity preserved) *)
Theorem translate_members sv from to c : In c (fn_translate sv from to) -> In c sv \/ In c to.
Proof.
  unfold fn_translate. intros H. apply in_flat_map in H as (x & Hx & H).
  unfold translate_char in H. destruct (index_of x from 0) as [k|].
  - destruct (nth_error to k) as [c'|] eqn:E; [|destruct H].
    destruct H as [<-|[]]. right. eapply nth_error_In; eauto.
  - destruct H as [<-|[]]. now left.
Qed.

Lemma join_sp_members l c : In c (join_sp l) -> c = 32%N \/ exists w, In w l /\ In c w.
Proof.
  induction l as [|w l IH]; simpl; [tauto|]. destruct l as [|w2 l].
  - intros H. right. exists w. auto.
  - intros H. apply in_app_iff in H as [H|[H|H]].
    + right. exists w. auto.
    + left. auto.
    + destruct (IH H) as [E|(w' & Hw' & Hc)]; [now left|]. right. exists w'. split; [now right|exact Hc].
Qed.

Theorem split_members t s a b c : split_at t s = Some (a, b) -> In c a \/ In c b -> In c s.
Proof.
  intros H Hc. apply split_at_some in H as [-> _]. rewrite !in_app_iff. tauto.
Qed.
