(** Theorems about the evaluator model: predicates (C02), composition of steps and
    sub-queries (C18), name resolution through the query's bindings (C11), absolute
    paths (C01). *)
From Coq Require Import Sorting.Sorted Lia.
From XV Require Import Base.Str Base.Num Doc.Tree Xp.Ast Xp.Nav Xp.Axes Xp.Values Xp.Funcs Xp.Eval
  Xp.SortThm Xp.NodeSetThm.
From Coq Require String.
Import String.StringSyntax.
Local Open Scope Z_scope.
Local Open Scope string_scope.

(** ** induction over expressions with their nested lists *)
Section expr_ind.
  Variables (P : expr -> Prop) (Q : stp -> Prop).
  Hypothesis HOr : forall a b, P a -> P b -> P (EOr a b).
  Hypothesis HAnd : forall a b, P a -> P b -> P (EAnd a b).
  Hypothesis HCmp : forall op a b, P a -> P b -> P (ECmp op a b).
  Hypothesis HArith : forall op a b, P a -> P b -> P (EArith op a b).
  Hypothesis HNeg : forall a, P a -> P (ENeg a).
  Hypothesis HUnion : forall a b, P a -> P b -> P (EUnion a b).
  Hypothesis HLit : forall v, P (ELit v).
  Hypothesis HNum : forall t, P (ENum t).
  Hypothesis HVar : forall q, P (EVar q).
  Hypothesis HCall : forall q args, Forall P args -> P (ECall q args).
  Hypothesis HPath : forall abs steps, Forall Q steps -> P (EPath abs steps).
  Hypothesis HFilter : forall e preds steps, P e -> Forall P preds -> Forall Q steps -> P (EFilter e preds steps).
  Hypothesis HAxis : forall a t preds, Forall P preds -> Q (SAxis a t preds).
  Hypothesis HSCall : forall q args, Forall P args -> Q (SCall q args).

  Fixpoint expr_ind' (e : expr) : P e :=
    match e with
    | EOr a b => HOr a b (expr_ind' a) (expr_ind' b)
    | EAnd a b => HAnd a b (expr_ind' a) (expr_ind' b)
    | ECmp op a b => HCmp op a b (expr_ind' a) (expr_ind' b)
    | EArith op a b => HArith op a b (expr_ind' a) (expr_ind' b)
    | ENeg a => HNeg a (expr_ind' a)
    | EUnion a b => HUnion a b (expr_ind' a) (expr_ind' b)
    | ELit v => HLit v
    | ENum t => HNum t
    | EVar q => HVar q
    | ECall q args =>
        HCall q args ((fix go (l : list expr) : Forall P l :=
                         match l with [] => Forall_nil P | x :: r => Forall_cons x (expr_ind' x) (go r) end) args)
    | EPath abs steps =>
        HPath abs steps ((fix go (l : list stp) : Forall Q l :=
                            match l with [] => Forall_nil Q | x :: r => Forall_cons x (stp_ind' x) (go r) end) steps)
    | EFilter e0 preds steps =>
        HFilter e0 preds steps (expr_ind' e0)
          ((fix go (l : list expr) : Forall P l :=
              match l with [] => Forall_nil P | x :: r => Forall_cons x (expr_ind' x) (go r) end) preds)
          ((fix go (l : list stp) : Forall Q l :=
              match l with [] => Forall_nil Q | x :: r => Forall_cons x (stp_ind' x) (go r) end) steps)
    end
  with stp_ind' (s : stp) : Q s :=
    match s with
    | SAxis a t preds =>
        HAxis a t preds ((fix go (l : list expr) : Forall P l :=
                            match l with [] => Forall_nil P | x :: r => Forall_cons x (expr_ind' x) (go r) end) preds)
    | SCall q args =>
        HSCall q args ((fix go (l : list expr) : Forall P l :=
                          match l with [] => Forall_nil P | x :: r => Forall_cons x (expr_ind' x) (go r) end) args)
    end.

  Lemma expr_stp_ind : (forall e, P e) /\ (forall s, Q s).
  Proof. split; [exact expr_ind'|exact stp_ind']. Qed.
End expr_ind.

(** ** C02 — predicates *)

Definition not_shadowed (en : env) (name : String.string) : Prop :=
  assoc_q (QN [] (lit name)) (e_funs en) = None.

Lemma eval_position en c : not_shadowed en "position" ->
  eval en (ECall (None, lit "position") []) c = Ok (VNum (f_of_Z (c_pos c))).
Proof. intros H. unfold not_shadowed in H. cbn in H |- *. unfold call_function. cbn. now rewrite H. Qed.

Lemma eval_last en c : not_shadowed en "last" ->
  eval en (ECall (None, lit "last") []) c = Ok (VNum (f_of_Z (c_size c))).
Proof. intros H. unfold not_shadowed in H. cbn in H |- *. unfold call_function. cbn. now rewrite H. Qed.

(** [E[n]] is [E[position() = n]] for every predicate whose value is a number *)
Definition pos_eq (e : expr) : expr := ECmp CEq (ECall (None, lit "position") []) e.

Lemma pos_eq_keeps en e c x : not_shadowed en "position" -> eval en e c = Ok (VNum x) ->
  exists v, eval en (pos_eq e) c = Ok v /\ pred_keeps en (c_pos c) v = pred_keeps en (c_pos c) (VNum x).
Proof.
  intros Hs He. unfold pos_eq.
  assert (E : eval en (ECmp CEq (ECall (None, lit "position") []) e) c
              = Ok (VBool (feqb (f_of_Z (c_pos c)) x))).
  { change (eval en (ECmp CEq (ECall (None, lit "position") []) e) c)
      with (match eval en (ECall (None, lit "position") []) c with
            | Err => Err
            | Ok x0 => match eval en e c with
                       | Err => Err
                       | Ok y => Ok (VBool (compare_values (e_doc en) CEq x0 y))
                       end
            end).
    rewrite (eval_position en c Hs), He. reflexivity. }
  eexists; split; [exact E|]. reflexivity.
Qed.

Theorem numeric_predicate_is_position_test en e size : not_shadowed en "position" ->
  forall l i,
  (forall p k, In p l -> exists x, eval en e (Ctx [p] k size) = Ok (VNum x)) ->
  filter_pred en (eval en e) size i l = filter_pred en (eval en (pos_eq e)) size i l.
Proof.
  intros Hs l; induction l as [|p r IH]; intros i Hnum; cbn [filter_pred]; [reflexivity|].
  destruct (Hnum p i (or_introl eq_refl)) as [x Hx].
  destruct (pos_eq_keeps en e (Ctx [p] i size) x Hs Hx) as [v [Hv Hk]].
  rewrite Hx, Hv. rewrite IH by (intros; apply Hnum; now right).
  cbn [c_pos] in Hk. now rewrite Hk.
Qed.

(** a numeric predicate keeps a candidate only at the position equal to the number:
    NaN, fractions and out-of-range numbers select nothing *)
Lemma feqb_nan_r x : feqb x S754_nan = false.
Proof. now destruct x. Qed.

Theorem nan_predicate_selects_nothing en i : pred_keeps en i (VNum S754_nan) = false.
Proof. apply feqb_nan_r. Qed.

Lemma filter_pred_const_num en x size : forall l i l',
  filter_pred en (fun _ => Ok (VNum x)) size i l = Ok l' ->
  forall p, In p l' -> exists k, nth_error l k = Some p /\ feqb (f_of_Z (i + Z.of_nat k)) x = true.
Proof.
  induction l as [|q r IH]; intros i l' H p Hp; cbn [filter_pred] in H.
  - inversion H; subst. destruct Hp.
  - destruct (filter_pred en (fun _ => Ok (VNum x)) size (i + 1) r) as [r'|] eqn:Er; [|discriminate].
    inversion H; subst; clear H.
    change (feqb (f_of_Z i) x) with (pred_keeps en i (VNum x)) in Hp.
    destruct (pred_keeps en i (VNum x)) eqn:Ek.
    + simpl in Hp. destruct Hp as [->|Hp].
      * exists O. simpl. split; [reflexivity|]. rewrite Z.add_0_r. exact Ek.
      * destruct (IH (i + 1) r' Er p Hp) as [k [Hk Hf]]. exists (S k). split; [exact Hk|].
        replace (i + Z.of_nat (S k)) with (i + 1 + Z.of_nat k) by lia. exact Hf.
    + destruct (IH (i + 1) r' Er p Hp) as [k [Hk Hf]]. exists (S k). split; [exact Hk|].
      replace (i + Z.of_nat (S k)) with (i + 1 + Z.of_nat k) by lia. exact Hf.
Qed.

(** every candidate is evaluated as the single context node, with its 1-based index
    in candidate order as position and the number of candidates as size *)
Theorem filter_pred_contexts en f size : forall l i l',
  filter_pred en f size i l = Ok l' ->
  forall k p, nth_error l k = Some p ->
  exists v, f (Ctx [p] (i + Z.of_nat k) size) = Ok v /\
            (pred_keeps en (i + Z.of_nat k) v = true -> In p l').
Proof.
  induction l as [|q r IH]; intros i l' H k p Hk; [destruct k; discriminate|].
  simpl in H. destruct (f (Ctx [q] i size)) as [v|] eqn:Ev; [|discriminate].
  destruct (filter_pred en f size (i + 1) r) as [r'|] eqn:Er; [|discriminate].
  inversion H; subst; clear H. destruct k as [|k]; simpl in Hk.
  - inversion Hk; subst q. exists v. rewrite Z.add_0_r. split; [exact Ev|].
    intros ->. now left.
  - destruct (IH (i + 1) r' Er k p Hk) as [w [Hw Hin]]. exists w.
    replace (i + Z.of_nat (S k)) with (i + 1 + Z.of_nat k) by lia. split; [exact Hw|].
    intros Hkeep. specialize (Hin Hkeep). destruct (pred_keeps en i v); [now right|exact Hin].
Qed.

(** successive predicates renumber the survivors: the second predicate sees the
    result of the first as its candidate list, with its own size *)
Theorem apply_preds_app en fs gs l :
  apply_preds en (fs ++ gs) l =
  match apply_preds en fs l with Ok l' => apply_preds en gs l' | Err => Err end.
Proof.
  revert l; induction fs as [|f fs IH]; intros l; simpl; [reflexivity|].
  destruct (filter_pred en f (Z.of_nat (length l)) 1 l); [apply IH|reflexivity].
Qed.

Theorem apply_preds_cons_size en f fs l :
  apply_preds en (f :: fs) l =
  match filter_pred en f (Z.of_nat (length l)) 1 l with
  | Ok l' => apply_preds en fs l'
  | Err => Err
  end.
Proof. reflexivity. Qed.

(** the candidates of a step from one context node are in axis order: nearest first
    for a reverse axis, document order otherwise; predicates filter that list *)
Theorem step_candidates_in_axis_order en a t preds p l :
  step_from en a t preds p = Ok l ->
  exists rt cands,
    resolve_test en a t = Ok rt /\
    cands = filter (test_node (e_doc en) (principal_of a) rt) (select (e_doc en) a [p]) /\
    apply_preds en preds cands = Ok l /\
    (if axis_reverse a then StronglySorted (pos_gt (e_doc en)) cands
     else StronglySorted (pos_lt (e_doc en)) cands).
Proof.
  unfold step_from. destruct (resolve_test en a t) as [rt|]; [|discriminate]. intros H.
  exists rt, (filter (test_node (e_doc en) (principal_of a) rt) (select (e_doc en) a [p])).
  repeat split; auto.
  assert (Hsub : forall (R : path -> path -> Prop) l0, StronglySorted R l0 ->
                 StronglySorted R (filter (test_node (e_doc en) (principal_of a) rt) l0)).
  { intros R l0 Hs. induction Hs as [|x l0 Hs IH Hx]; simpl; [constructor|].
    destruct (test_node _ _ _ x); [|exact IH]. constructor; [exact IH|].
    apply Forall_forall. intros y Hy. apply filter_In in Hy as [Hy _].
    rewrite Forall_forall in Hx. now apply Hx. }
  destruct a; cbn [axis_reverse select]; apply Hsub;
    try apply cleanup_forward_sorted; try apply cleanup_backward_sorted.
  constructor; constructor.
Qed.

(** a predicate on a filter expression numbers the node-set in document order, and
    a path continued after the filter starts from the filtered nodes *)
Theorem filter_expr_numbers_in_document_order en e0 p ps c l' :
  eval en (EFilter e0 (p :: ps) []) c = Ok (VNodes l') ->
  exists l, eval en e0 c = Ok (VNodes l) /\
            apply_preds en (map (fun q => eval en q) (p :: ps)) (cleanup_forward (e_doc en) l) = Ok l'.
Proof.
  simpl. destruct (eval en e0 c) as [[l| | |]|]; try discriminate.
  destruct (filter_pred _ _ _ _ _) as [l1|] eqn:E1; [|discriminate].
  destruct (apply_preds _ _ l1) as [l2|] eqn:E2; [|discriminate].
  intros H; inversion H; subst. exists l. split; [reflexivity|]. simpl. now rewrite E1.
Qed.

Theorem filter_expr_path_continues_from_filtered en e0 preds s steps c :
  eval en (EFilter e0 preds (s :: steps)) c =
  match eval en (EFilter e0 preds []) c with
  | Ok (VNodes l) => run_steps (map (fun s => eval_step en s) (s :: steps)) c (VNodes l)
  | Ok _ => Err
  | Err => Err
  end.
Proof.
  simpl. destruct (eval en e0 c) as [v0|]; [|reflexivity].
  destruct preds as [|p ps].
  - destruct v0; reflexivity.
  - destruct v0 as [l| | |]; try reflexivity.
    destruct (apply_preds _ _ _) as [l'|]; reflexivity.
Qed.

(** ** C18 — composition *)

(** evaluating [P/R] is evaluating [R] from the value of [P] *)
Theorem path_composition en abs P R c :
  eval en (EPath abs (P ++ R)) c =
  match eval en (EPath abs P) c with
  | Ok v => run_steps (map (fun s => eval_step en s) R) c v
  | Err => Err
  end.
Proof. simpl. rewrite map_app. apply run_steps_app. Qed.

(** a relative path evaluated with a node-set as context is the rest of the path *)
Theorem relative_path_from_nodes en R l pos size :
  eval en (EPath false R) (Ctx l pos size) =
  run_steps (map (fun s => eval_step en s) R) (Ctx l pos size) (VNodes l).
Proof. reflexivity. Qed.

(** Exec seeds the context with the given cursor, position 1 and size 1 *)
Theorem exec_context en e : exec en e = eval en e (Ctx [e_root en] 1 1).
Proof. reflexivity. Qed.

(** axis steps do not look at the enclosing context *)
Lemma run_axis_steps_ctx en R : Forall (fun s => match s with SAxis _ _ _ => True | _ => False end) R ->
  forall c c' v, run_steps (map (fun s => eval_step en s) R) c v = run_steps (map (fun s => eval_step en s) R) c' v.
Proof.
  induction 1 as [|s R Hs HR IH]; intros c c' v; simpl; [reflexivity|].
  destruct s as [a t preds|]; [|destruct Hs]. simpl.
  destruct (axis_step en a t _ v); [apply IH|reflexivity].
Qed.

(** [P/R] from the root = [R] evaluated as a sub-query whose context node-set is the
    result of [P] (for paths of axis steps) *)
Theorem subquery_composition en abs P R c l :
  Forall (fun s => match s with SAxis _ _ _ => True | _ => False end) R ->
  eval en (EPath abs P) c = Ok (VNodes l) ->
  eval en (EPath abs (P ++ R)) c = eval en (EPath false R) (Ctx l 1 1).
Proof.
  intros HR HP. rewrite path_composition, HP, relative_path_from_nodes.
  now apply run_axis_steps_ctx.
Qed.

(** a step over a node-set is the cleaned-up concatenation of the step from each node *)
Theorem axis_step_distributes en a t preds l out :
  axis_step en a t preds (VNodes l) = Ok (VNodes out) ->
  exists parts, concat_res (step_from en a t preds) l = Ok parts /\
    (forall q, In q out -> In q parts) /\
    (pos_inj_on (e_doc en) parts -> forall q, In q parts -> In q out).
Proof.
  unfold axis_step. destruct (concat_res _ l) as [parts|] eqn:E; [|discriminate].
  intros H; inversion H; subst; clear H. exists parts. split; [reflexivity|].
  split.
  - intros q Hq. destruct l; [now apply cleanup_forward_incl in Hq|].
    destruct (axis_reverse a); [now apply cleanup_backward_incl in Hq|now apply cleanup_forward_incl in Hq].
  - intros Hinj q Hq. destruct l; [now apply cleanup_forward_mem|].
    destruct (axis_reverse a); [now apply cleanup_backward_mem|now apply cleanup_forward_mem].
Qed.

Lemma concat_res_in {A} (f : A -> res (list path)) l parts :
  concat_res f l = Ok parts ->
  forall q, In q parts <-> exists x lx, In x l /\ f x = Ok lx /\ In q lx.
Proof.
  revert parts; induction l as [|x r IH]; intros parts H q; simpl in H.
  - inversion H; subst. split; [intros []|intros (x & lx & [] & _)].
  - destruct (f x) as [a|] eqn:Ex; [|discriminate].
    destruct (concat_res f r) as [b|] eqn:Er; [|discriminate].
    inversion H; subst; clear H. rewrite in_app_iff, (IH b eq_refl q). split.
    + intros [Hq|(y & ly & Hy & Ey & Hq)].
      * exists x, a. simpl; auto.
      * exists y, ly. simpl; auto.
    + intros (y & ly & [->|Hy] & Ey & Hq).
      * left. congruence.
      * right. exists y, ly. auto.
Qed.

(** the nodes [P/step] selects are exactly the union of the nodes [step] selects
    from each node selected by [P] *)
Theorem step_is_union_over_context_nodes en a t preds l out :
  axis_step en a t preds (VNodes l) = Ok (VNodes out) ->
  (forall parts, concat_res (step_from en a t preds) l = Ok parts -> pos_inj_on (e_doc en) parts) ->
  forall q, In q out <-> exists p lp, In p l /\ step_from en a t preds p = Ok lp /\ In q lp.
Proof.
  intros H Hinj q. destruct (axis_step_distributes en a t preds l out H) as (parts & Ep & H1 & H2).
  rewrite <- (concat_res_in _ _ _ Ep q). split; [apply H1|apply H2; now apply Hinj].
Qed.

(** the function-in-path extension: [P/f(args)] calls [f] with the result of [P] as
    the context node-set, i.e. it is [f] evaluated in that context *)
Theorem function_step_is_call_on_context en abs P q args c l :
  eval en (EPath abs P) c = Ok (VNodes l) ->
  eval en (EPath abs (P ++ [SCall q args])) c = eval en (ECall q args) (Ctx l (c_pos c) (c_size c)).
Proof.
  intros HP. rewrite path_composition, HP. simpl.
  destruct (eval_args _ _); [|reflexivity]. destruct (call_function _ _ _ _); reflexivity.
Qed.

(** ** C11 — names resolve through the query's bindings only *)

Theorem variable_is_bound_value en q c v :
  eval en (EVar q) c = Ok v <->
  exists qn, resolve_q en q = Ok qn /\ assoc_q qn (e_vars en) = Some v.
Proof.
  simpl. destruct (resolve_q en q) as [qn|].
  - destruct (assoc_q qn (e_vars en)) as [w|] eqn:E; split.
    + intros H; inversion H; subst. now exists qn.
    + intros (qn' & H1 & H2). inversion H1; subst. congruence.
    + discriminate.
    + intros (qn' & H1 & H2). inversion H1; subst. congruence.
  - split; [discriminate|]. intros (qn & H & _). discriminate.
Qed.

Theorem unbound_prefix_is_error en p l :
  assoc_str p (e_ns en) = None -> resolve_q en (Some p, l) = Err.
Proof. intros H. simpl. now rewrite H. Qed.

Theorem unbound_variable_is_error en q c :
  (forall qn, resolve_q en q = Ok qn -> assoc_q qn (e_vars en) = None) -> eval en (EVar q) c = Err.
Proof.
  intros H. simpl. destruct (resolve_q en q) as [qn|]; [|reflexivity]. now rewrite (H qn eq_refl).
Qed.

Theorem unresolved_call_is_error en q args c :
  resolve_q en q = Err -> eval en (ECall q args) c = Err.
Proof.
  intros H. simpl. destruct (eval_args _ _); [|reflexivity]. unfold call_function. now rewrite H.
Qed.

Theorem unknown_function_is_error en q qn args c :
  resolve_q en q = Ok qn -> assoc_q qn (e_funs en) = None -> q_space qn <> [] ->
  eval en (ECall q args) c = Err.
Proof.
  intros H1 H2 H3. simpl. destruct (eval_args _ _); [|reflexivity]. unfold call_function.
  rewrite H1, H2. destruct (q_space qn); [congruence|reflexivity].
Qed.

(** a user function registered under the call's expanded name is the one called —
    also when a builtin has that name — with the evaluated arguments in order and
    the current context *)
Theorem user_function_takes_precedence en q qn f args c :
  resolve_q en q = Ok qn -> assoc_q qn (e_funs en) = Some f ->
  eval en (ECall q args) c =
  match eval_args (map (fun a => eval en a) args) c with
  | Ok vs => call_ufun f vs c
  | Err => Err
  end.
Proof.
  intros H1 H2. simpl. destruct (eval_args _ _); [|reflexivity]. unfold call_function. now rewrite H1, H2.
Qed.

Theorem eval_args_in_order fs c vs :
  eval_args fs c = Ok vs -> Forall2 (fun f v => f c = Ok v) fs vs.
Proof.
  revert vs; induction fs as [|f r IH]; intros vs H; simpl in H.
  - inversion H; constructor.
  - destruct (f c) as [v|] eqn:Ev; [|discriminate].
    destruct (eval_args r c) as [ws|]; [|discriminate].
    inversion H; subst. constructor; [exact Ev|now apply IH].
Qed.

Theorem unbound_prefix_in_name_test_is_error en a pf l preds p :
  assoc_str pf (e_ns en) = None -> step_from en a (NTQName pf l) preds p = Err.
Proof. intros H. unfold step_from. simpl. now rewrite H. Qed.

(** name tests compare the expanded name of the node with the URI the QUERY binds
    to the prefix; document prefixes play no part *)
Theorem qname_test_matches_expanded_name d u l p :
  test_node d PElem (RQName u l) p = true <->
  exists pos nm nss ats kids, p <> [] /\ lookup d p = Some (ITree (AElem pos nm nss ats kids)) /\
                              q_space nm = u /\ q_local nm = l.
Proof.
  unfold test_node. destruct (lookup d p) as [[[pos nm nss ats kids|pos lf]|a|a]|] eqn:E; simpl.
  - destruct p as [|s p].
    + split; [discriminate|]. intros (? & ? & ? & ? & ? & H & _). congruence.
    + rewrite andb_true_iff, !str_eqb_spec. split.
      * intros [H1 H2]. exists pos, nm, nss, ats, kids. repeat split; auto. discriminate.
      * intros (? & ? & ? & ? & ? & _ & H & H1 & H2). inversion H; subst. auto.
  - split; [discriminate|]. intros (? & ? & ? & ? & ? & _ & H & _). discriminate.
  - split; [discriminate|]. intros (? & ? & ? & ? & ? & _ & H & _). discriminate.
  - split; [discriminate|]. intros (? & ? & ? & ? & ? & _ & H & _). discriminate.
  - split; [discriminate|]. intros (? & ? & ? & ? & ? & _ & H & _). discriminate.
Qed.

Theorem unprefixed_test_matches_no_namespace_only d l p :
  test_node d PElem (RName l) p = true <->
  exists pos nm nss ats kids, p <> [] /\ lookup d p = Some (ITree (AElem pos nm nss ats kids)) /\
                              q_space nm = [] /\ q_local nm = l.
Proof.
  unfold test_node. destruct (lookup d p) as [[[pos nm nss ats kids|pos lf]|a|a]|] eqn:E; simpl.
  - destruct p as [|s p].
    + split; [discriminate|]. intros (? & ? & ? & ? & ? & H & _). congruence.
    + rewrite andb_true_iff, !str_eqb_spec. split.
      * intros [H1 H2]. exists pos, nm, nss, ats, kids. repeat split; auto. discriminate.
      * intros (? & ? & ? & ? & ? & _ & H & H1 & H2). inversion H; subst. auto.
  - split; [discriminate|]. intros (? & ? & ? & ? & ? & _ & H & _). discriminate.
  - split; [discriminate|]. intros (? & ? & ? & ? & ? & _ & H & _). discriminate.
  - split; [discriminate|]. intros (? & ? & ? & ? & ? & _ & H & _). discriminate.
  - split; [discriminate|]. intros (? & ? & ? & ? & ? & _ & H & _). discriminate.
Qed.

(** *** renaming invariance: consistently renaming the prefixes of the query and of
    its bindings does not change any result *)
Definition rn_rawq (rho : str -> str) (q : rawq) : rawq :=
  match q with (Some p, l) => (Some (rho p), l) | (None, l) => (None, l) end.

(** on the namespace axis the library reads an unprefixed name test as a reference to a
    prefix of the query's bindings (Eval.resolve_test), so it is renamed with them *)
Definition rn_test (rho : str -> str) (a : axis) (t : nodetest) : nodetest :=
  match t with
  | NTNsAny p => NTNsAny (rho p)
  | NTQName p l => NTQName (rho p) l
  | NTName l => match a with Namespace => NTName (rho l) | _ => t end
  | _ => t
  end.

Fixpoint rn_expr (rho : str -> str) (e : expr) {struct e} : expr :=
  match e with
  | EOr a b => EOr (rn_expr rho a) (rn_expr rho b)
  | EAnd a b => EAnd (rn_expr rho a) (rn_expr rho b)
  | ECmp op a b => ECmp op (rn_expr rho a) (rn_expr rho b)
  | EArith op a b => EArith op (rn_expr rho a) (rn_expr rho b)
  | ENeg a => ENeg (rn_expr rho a)
  | EUnion a b => EUnion (rn_expr rho a) (rn_expr rho b)
  | ELit v => ELit v
  | ENum t => ENum t
  | EVar q => EVar (rn_rawq rho q)
  | ECall q args => ECall (rn_rawq rho q) (map (rn_expr rho) args)
  | EPath abs steps => EPath abs (map (rn_stp rho) steps)
  | EFilter e0 preds steps => EFilter (rn_expr rho e0) (map (rn_expr rho) preds) (map (rn_stp rho) steps)
  end
with rn_stp (rho : str -> str) (s : stp) {struct s} : stp :=
  match s with
  | SAxis a t preds => SAxis a (rn_test rho a t) (map (rn_expr rho) preds)
  | SCall q args => SCall (rn_rawq rho q) (map (rn_expr rho) args)
  end.

Section Renaming.
  Variables (en en' : env) (rho : str -> str).
  Hypothesis Hdoc : e_doc en' = e_doc en.
  Hypothesis Hroot : e_root en' = e_root en.
  Hypothesis Hvars : e_vars en' = e_vars en.
  Hypothesis Hfuns : e_funs en' = e_funs en.
  Hypothesis Hasis : e_asis en' = e_asis en.
  (** the renamed prefix is bound, in the renamed bindings, to what the prefix was bound to *)
  Hypothesis Hns : forall p, assoc_str (rho p) (e_ns en') = assoc_str p (e_ns en).

  Lemma rn_resolve_q q : resolve_q en' (rn_rawq rho q) = resolve_q en q.
  Proof. destruct q as [[p|] l]; simpl; [now rewrite Hns|reflexivity]. Qed.

  Lemma rn_resolve_test a t : resolve_test en' a (rn_test rho a t) = resolve_test en a t.
  Proof. destruct t; simpl; try reflexivity; try (now rewrite Hns). destruct a; simpl; try reflexivity. now rewrite Hns. Qed.

  Lemma rn_call_function q vs c : call_function en' (rn_rawq rho q) vs c = call_function en q vs c.
  Proof.
    unfold call_function. rewrite rn_resolve_q. destruct (resolve_q en q) as [qn|]; [|reflexivity].
    rewrite Hfuns. destruct (assoc_q qn (e_funs en)); [reflexivity|].
    destruct (q_space qn); [|reflexivity]. unfold call_builtin. now rewrite Hdoc, Hasis.
  Qed.

  Lemma eval_args_ext (fs gs : list (ctx -> res value)) c :
    Forall2 (fun f g => forall c, f c = g c) fs gs -> eval_args fs c = eval_args gs c.
  Proof.
    induction 1 as [|f g fs gs Hfg H IH]; simpl; [reflexivity|]. now rewrite Hfg, IH.
  Qed.

  Lemma filter_pred_ext en1 en2 (f g : ctx -> res value) size :
    (forall c, f c = g c) -> forall l i, filter_pred en1 f size i l = filter_pred en2 g size i l.
  Proof.
    intros Hfg l; induction l as [|p r IH]; intros i; simpl; [reflexivity|].
    rewrite Hfg, IH. reflexivity.
  Qed.

  Lemma apply_preds_ext en1 en2 (fs gs : list (ctx -> res value)) :
    Forall2 (fun f g => forall c, f c = g c) fs gs -> forall l, apply_preds en1 fs l = apply_preds en2 gs l.
  Proof.
    induction 1 as [|f g fs gs Hfg H IH]; intros l; simpl; [reflexivity|].
    rewrite (filter_pred_ext en1 en2 f g _ Hfg). destruct (filter_pred en2 g _ 1 l); [apply IH|reflexivity].
  Qed.

  Lemma run_steps_ext (fs gs : list stepf) :
    Forall2 (fun f g => forall c v, f c v = g c v) fs gs -> forall c v, run_steps fs c v = run_steps gs c v.
  Proof.
    induction 1 as [|f g fs gs Hfg H IH]; intros c v; simpl; [reflexivity|].
    rewrite Hfg. destruct (g c v); [apply IH|reflexivity].
  Qed.

  Lemma Forall_map2 {A B C} (P : B -> C -> Prop) (f : A -> B) (g : A -> C) l :
    Forall (fun x => P (f x) (g x)) l -> Forall2 P (map f l) (map g l).
  Proof. induction 1; simpl; constructor; auto. Qed.

  Lemma concat_res_ext (f g : path -> res (list path)) l :
    (forall p, f p = g p) -> concat_res f l = concat_res g l.
  Proof. intros H. induction l as [|x r IH]; simpl; [reflexivity|]. now rewrite H, IH. Qed.

  Theorem renaming_invariance :
    (forall e c, eval en' (rn_expr rho e) c = eval en e c) /\
    (forall s c v, eval_step en' (rn_stp rho s) c v = eval_step en s c v).
  Proof.
    apply expr_stp_ind.
    - intros a b Ha Hb c. simpl. now rewrite Ha, Hb.
    - intros a b Ha Hb c. simpl. now rewrite Ha, Hb.
    - intros op a b Ha Hb c. simpl. now rewrite Ha, Hb, Hdoc.
    - intros op a b Ha Hb c. simpl. now rewrite Ha, Hb, Hdoc.
    - intros a Ha c. simpl. now rewrite Ha, Hdoc.
    - intros a b Ha Hb c. simpl. now rewrite Ha, Hb, Hdoc.
    - reflexivity.
    - reflexivity.
    - intros q c. simpl. now rewrite rn_resolve_q, Hvars.
    - intros q args Hargs c. simpl. rewrite map_map.
      rewrite (eval_args_ext _ (map (fun a => eval en a) args)).
      + destruct (eval_args _ c); [apply rn_call_function|reflexivity].
      + apply Forall_map2. exact Hargs.
    - intros abs steps Hsteps c. simpl. rewrite map_map, Hroot.
      apply run_steps_ext. apply Forall_map2. exact Hsteps.
    - intros e0 preds steps He0 Hpreds Hsteps c. simpl. rewrite He0.
      destruct (eval en e0 c) as [v0|]; [|reflexivity].
      assert (Hp : forall l, apply_preds en' (map (fun p => eval en' p) (map (rn_expr rho) preds)) l
                             = apply_preds en (map (fun p => eval en p) preds) l).
      { intros l. rewrite map_map. apply apply_preds_ext. apply Forall_map2. exact Hpreds. }
      assert (Hs : forall c v, run_steps (map (fun s => eval_step en' s) (map (rn_stp rho) steps)) c v
                               = run_steps (map (fun s => eval_step en s) steps) c v).
      { intros c0 v. rewrite map_map. apply run_steps_ext. apply Forall_map2. exact Hsteps. }
      destruct preds as [|p ps]; simpl map at 1.
      + destruct steps as [|s ss]; [reflexivity|]. destruct v0; try reflexivity. apply Hs.
      + destruct v0 as [l| | |]; try reflexivity. rewrite Hdoc.
        change (rn_expr rho p :: map (rn_expr rho) ps) with (map (rn_expr rho) (p :: ps)).
        rewrite Hp. destruct (apply_preds en _ _) as [l'|]; [|reflexivity].
        destruct steps as [|s ss]; [reflexivity|]. apply Hs.
    - intros a t preds Hpreds c v. simpl. unfold axis_step. destruct v as [l| | |]; try reflexivity.
      rewrite (concat_res_ext _ (step_from en a t (map (fun p => eval en p) preds))).
      + now rewrite Hdoc.
      + intros p. unfold step_from. rewrite rn_resolve_test, Hdoc.
        destruct (resolve_test en a t); [|reflexivity].
        rewrite map_map. apply apply_preds_ext. apply Forall_map2. exact Hpreds.
    - intros q args Hargs c v. simpl. destruct v as [l| | |]; try reflexivity.
      rewrite map_map. rewrite (eval_args_ext _ (map (fun a => eval en a) args)).
      + destruct (eval_args _ _); [apply rn_call_function|reflexivity].
      + apply Forall_map2. exact Hargs.
  Qed.
End Renaming.

(** ** C01 — absolute paths start from the root wherever they occur *)
Theorem absolute_path_ignores_context_nodes en steps l1 l2 pos size :
  eval en (EPath true steps) (Ctx l1 pos size) = eval en (EPath true steps) (Ctx l2 pos size) \/
  exists s, In s steps /\ match s with SCall _ _ => True | _ => False end.
Proof.
  induction steps as [|s steps IH] using rev_ind; [left; reflexivity|].
  destruct s as [a t preds|q args].
  - destruct IH as [IH|(s & Hs & H)].
    + left. rewrite !path_composition, IH. destruct (eval en (EPath true steps) _); reflexivity.
    + right. exists s. split; [apply in_or_app; now left|exact H].
  - right. exists (SCall q args). split; [apply in_or_app; right; now left|exact I].
Qed.

Theorem absolute_path_starts_at_root en steps c :
  eval en (EPath true steps) c = run_steps (map (fun s => eval_step en s) steps) c (VNodes [e_root en]).
Proof. reflexivity. Qed.
