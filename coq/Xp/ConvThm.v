(** C04 (conversions) and C12 (node functions): string-values, the first node of a
    node-set in document order, boolean/number/string conversions, names, lang(). *)
From Coq Require Import Sorting.Sorted Lia.
From XV Require Import Base.Str Base.Num Base.NumThm Doc.Tree Doc.Store Doc.StoreThm Doc.DocOrder
  Xp.Ast Xp.Nav Xp.Axes Xp.Values Xp.Funcs Xp.Eval Xp.SortThm.
From Coq Require String.
Import String.StringSyntax.
Local Open Scope Z_scope.

(** ** string-value of an element / the root: the concatenation of the values of its
    descendant text nodes, in document order *)

(** the value a node contributes: its text when it is a text node *)
Definition text_at (n : anode) (q : path) : str :=
  match lookup n q with Some (ITree (ALeaf _ (LText v))) => v | _ => [] end.

Section DescRel.
  Variable f : anode -> list path.
  Fixpoint kids_desc (i : nat) (l : list anode) : list path :=
    match l with
    | [] => []
    | k :: r => [SCh i] :: map (cons (SCh i)) (f k) ++ kids_desc (S i) r
    end.
End DescRel.

(** descendants as relative paths, pre-order *)
Fixpoint desc_rel (n : anode) : list path :=
  match n with
  | AElem _ _ _ _ kids => kids_desc desc_rel 0 kids
  | ALeaf _ _ => []
  end.

Lemma desc_of_rel : forall n p, desc_of p n = map (app p) (desc_rel n).
Proof.
  induction n as [pos l|pos nm nss ats kids IH] using anode_ind'; intros p; [reflexivity|].
  cbn [desc_of desc_rel]. generalize 0%nat.
  induction IH as [|k r Hk Hr IHr]; intros i; [reflexivity|].
  cbn [kids_desc map]. rewrite map_app, map_map. f_equal.
  rewrite (Hk (p ++ [SCh i])). rewrite IHr. f_equal.
  apply map_ext. intros q. now rewrite <- app_assoc.
Qed.

Lemma flat_map_map {A B C} (f : B -> list C) (g : A -> B) l :
  flat_map f (map g l) = flat_map (fun x => f (g x)) l.
Proof. induction l as [|x l IH]; simpl; [reflexivity|]. now rewrite IH. Qed.

Lemma text_of_leaf_or_desc k :
  text_of k = text_at k [] ++ flat_map (text_at k) (desc_rel k) ->
  True.
Proof. trivial. Qed.

Theorem text_of_is_descendant_text : forall n,
  text_of n = text_at n [] ++ flat_map (text_at n) (desc_rel n).
Proof.
  induction n as [pos l|pos nm nss ats kids IH] using anode_ind'.
  - destruct l; simpl; now rewrite ?app_nil_r.
  - cbn [text_of desc_rel]. change (text_at (AElem pos nm nss ats kids) []) with (@nil N). simpl app.
    assert (G : forall pre ks, kids = pre ++ ks ->
              (fix go (l : list anode) : str := match l with [] => [] | k :: r => text_of k ++ go r end) ks
              = flat_map (text_at (AElem pos nm nss ats kids)) (kids_desc desc_rel (length pre) ks)).
    { intros pre ks; revert pre; induction ks as [|k ks IHks]; intros pre E; [reflexivity|].
      cbn [kids_desc flat_map]. rewrite flat_map_app.
      assert (Hn : nth_error kids (length pre) = Some k).
      { rewrite E, nth_error_app2 by lia. now rewrite Nat.sub_diag. }
      assert (Hk : forall q, text_at (AElem pos nm nss ats kids) (SCh (length pre) :: q) = text_at k q).
      { intros q. unfold text_at. simpl. now rewrite Hn. }
      rewrite Hk. rewrite Forall_forall in IH.
      rewrite (IH k) by (rewrite E; apply in_or_app; right; now left).
      rewrite <- app_assoc. f_equal. f_equal.
      - rewrite flat_map_map. apply flat_map_ext. intros q. symmetry. apply Hk.
      - replace (S (length pre)) with (length (pre ++ [k])) by (rewrite app_length; simpl; lia).
        apply IHks. now rewrite <- app_assoc. }
    exact (G [] kids eq_refl).
Qed.

(** stated on the document: the string-value of an element (or the root) at [p] is the
    concatenation, over its descendants in document order, of the text nodes' values *)
Theorem element_string_value d p n pos nm nss ats kids :
  subtree d p = Some n -> n = AElem pos nm nss ats kids ->
  string_value d p = flat_map (text_at n) (desc_rel n) /\
  descendants d p = map (app p) (desc_rel n).
Proof.
  intros Hs ->. unfold string_value, descendants. rewrite Hs.
  unfold subtree in Hs. destruct (lookup d p) as [[m| |]|]; try discriminate. inversion Hs; subst.
  split; [|apply desc_of_rel].
  now rewrite text_of_is_descendant_text.
Qed.

(** the other node kinds: their own value *)
Theorem leaf_string_values d p :
  match lookup d p with
  | Some (ITree (ALeaf _ (LText v))) => string_value d p = v
  | Some (ITree (ALeaf _ (LComment v))) => string_value d p = v
  | Some (ITree (ALeaf _ (LPI _ data))) => string_value d p = data
  | Some (INs a) => string_value d p = ns_uri a
  | Some (IAt a) => string_value d p = at_val a
  | _ => True
  end.
Proof. unfold string_value. destruct (lookup d p) as [[[|? []]| |]|]; trivial. Qed.

(** ** the first node of a node-set: smallest Pos = first in document order *)
Lemma min_pos_from_spec d : forall l best,
  let r := min_pos_from d best (pos_of d best) l in
  In r (best :: l) /\ forall q, In q (best :: l) -> pos_of d r <= pos_of d q.
Proof.
  induction l as [|x l IH]; intros best; cbn [min_pos_from].
  - split; [now left|]. intros q [<-|[]]. lia.
  - destruct (Z.ltb_spec (pos_of d x) (pos_of d best)) as [Hlt|Hge].
    + destruct (IH x) as [Hin Hmin]. split.
      * destruct Hin as [<-|Hin]; [right; now left|right; now right].
      * intros q [<-|[<-|Hq]].
        -- specialize (Hmin x (or_introl eq_refl)). lia.
        -- apply Hmin. now left.
        -- apply Hmin. now right.
    + destruct (IH best) as [Hin Hmin]. split.
      * destruct Hin as [<-|Hin]; [now left|right; now right].
      * intros q [<-|[<-|Hq]].
        -- apply Hmin. now left.
        -- specialize (Hmin best (or_introl eq_refl)). lia.
        -- apply Hmin. now right.
Qed.

Theorem first_node_is_first_in_document_order d l p :
  doc_ordered d -> Forall (fun q => valid d q = true) l ->
  first_node d l = Some p ->
  In p l /\ forall q, In q l -> q = p \/ path_ltb p q = true.
Proof.
  intros Ho Hv H. destruct l as [|x l]; [discriminate|]. simpl in H. inversion H; subst; clear H.
  destruct (min_pos_from_spec d l x) as [Hin Hmin]. split; [exact Hin|].
  intros q Hq. specialize (Hmin q Hq). rewrite Forall_forall in Hv.
  destruct (path_tricho (min_pos_from d x (pos_of d x) l) q) as [E|[E|E]]; auto.
  pose proof (pos_monotone d _ _ Ho (Hv q Hq) (Hv _ Hin) E). lia.
Qed.

Theorem first_node_none d l : first_node d l = None <-> l = [].
Proof. destruct l; simpl; split; congruence. Qed.

(** node-set -> string: the string-value of that first node; -> boolean: non-empty *)
Theorem nodeset_to_string d l :
  to_str d (VNodes l) = match first_node d l with Some p => string_value d p | None => [] end.
Proof. reflexivity. Qed.
Theorem nodeset_to_bool l : to_bool (VNodes l) = negb (Nat.eqb (length l) 0).
Proof. destruct l; reflexivity. Qed.
Theorem nodeset_to_number d l : to_num d (VNodes l) = str_to_num (to_str d (VNodes l)).
Proof. reflexivity. Qed.

(** ** scalars *)
Local Open Scope string_scope.
Theorem bool_conversions d :
  to_str d (VBool true) = lit "true" /\ to_str d (VBool false) = lit "false" /\
  to_num d (VBool true) = f_of_Z 1 /\ to_num d (VBool false) = S754_zero false.
Proof. repeat split. Qed.

Theorem number_to_bool x : to_bool (VNum x) = true <-> (is_zero x = false /\ is_nan x = false).
Proof. simpl. rewrite andb_true_iff, !negb_true_iff. tauto. Qed.

Theorem string_to_bool v : to_bool (VStr v) = negb (Nat.eqb (length v) 0).
Proof. destruct v; reflexivity. Qed.

Theorem number_to_string_special :
  num_to_str S754_nan = lit "NaN" /\ num_to_str (S754_infinity false) = lit "Infinity" /\
  num_to_str (S754_infinity true) = lit "-Infinity" /\
  (forall s, num_to_str (S754_zero s) = lit "0").
Proof. repeat split. Qed.

(** the relational clause for finite numbers: an accepted rendering is plain decimal
    notation that reads back to the same double *)
Theorem num_string_ok_finite s m e r :
  num_string_ok (S754_finite s m e) r = true ->
  plain_decimal_shape r = true /\ fsame (str_to_num r) (S754_finite s m e) = true.
Proof. simpl. intros H. now apply andb_true_iff in H. Qed.

(** the model's own rendering on a spread of doubles (integers have no point, no
    exponent for large and small magnitudes, shortest digits that read back) *)
Example num_to_str_examples :
  map (fun z => num_to_str (f_of_bits z))
      [4607182418800017408; 4611686018427387904; 13826050856027422720; 4591870180066957722;
       4921056587992461136; 4367597403136100796; 4599075939470750515]%Z
  = [lit "1"; lit "2"; lit "-0.5"; lit "0.1"; lit "1000000000000000000000"; lit "0.0000000000000001"; lit "0.3"].
Proof. vm_compute. reflexivity. Qed.

(** ** the conversions are the ones the evaluator applies implicitly *)
Theorem arithmetic_converts_with_number en op a b c x y :
  eval en a c = Ok x -> eval en b c = Ok y ->
  eval en (EArith op a b) c = Ok (VNum (arith op (to_num (e_doc en) x) (to_num (e_doc en) y))).
Proof. intros Ha Hb. simpl. now rewrite Ha, Hb. Qed.

Theorem negation_converts_with_number en a c x :
  eval en a c = Ok x -> eval en (ENeg a) c = Ok (VNum (fopp (to_num (e_doc en) x))).
Proof. intros Ha. simpl. now rewrite Ha. Qed.

Theorem logic_converts_with_boolean en a b c x y :
  eval en a c = Ok x -> eval en b c = Ok y ->
  eval en (EOr a b) c = Ok (VBool (to_bool x || to_bool y)) /\
  eval en (EAnd a b) c = Ok (VBool (to_bool x && to_bool y)).
Proof. intros Ha Hb. simpl. now rewrite Ha, Hb. Qed.

Theorem predicate_converts_with_boolean en i v :
  (forall x, v <> VNum x) -> pred_keeps en i v = to_bool v.
Proof. intros H. destruct v; try reflexivity. exfalso. eapply H. reflexivity. Qed.

Theorem conversion_functions en c v :
  call_builtin en (lit "string") [v] c = Ok (VStr (to_str (e_doc en) v)) /\
  call_builtin en (lit "number") [v] c = Ok (VNum (to_num (e_doc en) v)) /\
  call_builtin en (lit "boolean") [v] c = Ok (VBool (to_bool v)) /\
  call_builtin en (lit "not") [v] c = Ok (VBool (negb (to_bool v))).
Proof. repeat split. Qed.

Theorem string_functions_convert_arguments en c a b :
  call_builtin en (lit "contains") [a; b] c
  = Ok (VBool (fn_contains (to_str (e_doc en) a) (to_str (e_doc en) b))) /\
  call_builtin en (lit "string-length") [a] c = Ok (VNum (fn_string_length (to_str (e_doc en) a))) /\
  call_builtin en (lit "substring") [a; b] c
  = Ok (VStr (fn_substring (to_str (e_doc en) a) (to_num (e_doc en) b) None)) /\
  call_builtin en (lit "floor") [a] c = Ok (VNum (f_floor (to_num (e_doc en) a))).
Proof. repeat split. Qed.

(** ** C12: names *)
Theorem name_is_local_or_expanded d p :
  name_of d LocalAndNamespace p =
  match name_of d NamespaceOnly p with
  | [] => name_of d LocalOnly p
  | sp => 123%N :: sp ++ 125%N :: name_of d LocalOnly p
  end.
Proof.
  unfold name_of. destruct (lookup d p) as [[[pos nm nss ats kids|pos [v|v|t dt]]|a|a]|]; try reflexivity.
  destruct p; [reflexivity|]. destruct (q_space nm); reflexivity.
Qed.

Theorem name_parts_by_kind d p :
  match lookup d p with
  | Some (ITree (AElem _ nm _ _ _)) =>
      p <> [] -> name_of d LocalOnly p = q_local nm /\ name_of d NamespaceOnly p = q_space nm
  | Some (IAt a) =>
      name_of d LocalOnly p = q_local (at_name a) /\ name_of d NamespaceOnly p = q_space (at_name a)
  | Some (ITree (ALeaf _ (LPI t _))) => name_of d LocalOnly p = t /\ name_of d NamespaceOnly p = []
  | Some (INs a) => name_of d LocalOnly p = ns_prefix a /\ name_of d NamespaceOnly p = []
  | _ => name_of d LocalOnly p = [] /\ name_of d NamespaceOnly p = []
  end.
Proof.
  unfold name_of. destruct (lookup d p) as [[[pos nm nss ats kids|pos [v|v|t dt]]|a|a]|]; auto.
  destruct p; [congruence|auto].
Qed.

Theorem name_functions_use_first_node d part l :
  name_fn d part l = match first_node d l with None => VStr [] | Some p => VStr (name_of d part p) end.
Proof. reflexivity. Qed.

Theorem count_of_non_nodeset_is_error en c v :
  (forall l, v <> VNodes l) -> call_builtin en (lit "count") [v] c = Err.
Proof. intros H. destruct v; try reflexivity. exfalso. eapply H. reflexivity. Qed.

Theorem count_is_set_size en c l :
  call_builtin en (lit "count") [VNodes l] c = Ok (VNum (f_of_Z (Z.of_nat (length l)))).
Proof. reflexivity. Qed.

(** ** C12: lang() *)
Theorem lang_match_spec l v :
  lang_match l v = true <->
  map ascii_lower v = map ascii_lower l \/
  exists r, map ascii_lower v = map ascii_lower l ++ 45%N :: r.
Proof.
  unfold lang_match. rewrite orb_true_iff, str_eqb_spec, is_prefix_spec. split.
  - intros [H|[b H]]; [now left|right]. exists b. now rewrite H, <- app_assoc.
  - intros [H|[r H]]; [now left|right]. exists r. now rewrite H, <- app_assoc.
Qed.

Definition lang_at (d : anode) (q : path) : option str :=
  match subtree d q with Some n => find_attr xml_ns s_lang (aats n) | None => None end.

Lemma parent_length p : p <> [] -> S (length (parent_path p)) = length p.
Proof.
  intros H. unfold parent_path. destruct (exists_last H) as (q & s & ->).
  rewrite removelast_last, app_length. simpl. lia.
Qed.

(** the nearest xml:lang on the ancestor-or-self ELEMENTS of the context node: its own
    when it is an element carrying one, else its parent's chain; nothing at the root *)
Theorem nearest_lang_unfold d p :
  nearest_lang d p (S (length p)) =
  match p with
  | [] => None
  | _ => match lang_at d p with
         | Some v => Some v
         | None => nearest_lang d (parent_path p) (S (length (parent_path p)))
         end
  end.
Proof.
  destruct p as [|s p]; [reflexivity|].
  rewrite (parent_length (s :: p)) by discriminate.
  cbn [nearest_lang]. unfold lang_at.
  destruct (subtree d (s :: p)) as [n|]; [destruct (find_attr xml_ns s_lang (aats n))|]; reflexivity.
Qed.

(** attributes, namespace nodes, text, comments and PIs carry no xml:lang themselves *)
Theorem lang_at_non_element d p :
  match lookup d p with
  | Some (ITree (AElem _ _ _ _ _)) => True
  | _ => lang_at d p = None
  end.
Proof. unfold lang_at, subtree. destruct (lookup d p) as [[[|]| |]|]; trivial. Qed.

Theorem lang_is_nearest_match d l p :
  fn_lang d l [p] = match nearest_lang d p (S (length p)) with Some v => lang_match l v | None => false end.
Proof. reflexivity. Qed.

Theorem lang_function en c a :
  call_builtin en (lit "lang") [a] c = Ok (VBool (fn_lang (e_doc en) (to_str (e_doc en) a) (c_set c))).
Proof. reflexivity. Qed.
