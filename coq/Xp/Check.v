(** Comparison helpers for the in-Coq cross-check of the extracted model
    (cases.v, written by the harness on every run). *)
From XV Require Import Base.Str Base.Num Doc.Tree Doc.Store Xp.Ast Xp.Values Xp.Eval.

Fixpoint paths_eqb (a b : list path) : bool :=
  match a, b with
  | [], [] => true
  | p :: a', q :: b' => path_eqb p q && paths_eqb a' b'
  | _, _ => false
  end.

Definition value_eqb (a b : value) : bool :=
  match a, b with
  | VNodes l, VNodes r => paths_eqb l r
  | VNum x, VNum y => fsame x y
  | VStr x, VStr y => str_eqb x y
  | VBool x, VBool y => Bool.eqb x y
  | _, _ => false
  end.

Definition res_eqb (a b : res value) : bool :=
  match a, b with
  | Ok x, Ok y => value_eqb x y
  | Err, Err => true
  | _, _ => false
  end.

(** indices of the cases on which the model, evaluated by the kernel's VM, does
    not give the recorded answer *)
Fixpoint mismatches (i : nat) (cases : list (env * expr * res value)) : list nat :=
  match cases with
  | [] => []
  | (en, e, r) :: rest =>
      if res_eqb (exec en e) r then mismatches (S i) rest else i :: mismatches (S i) rest
  end.
