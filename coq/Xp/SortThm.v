(** Sorting on Pos and dropping equal neighbours (cleanup_forward / cleanup_backward /
    unionCleanup): the result is strictly monotone, has the same members, and is
    canonical — the facts C03 and the union laws rest on. *)
From Coq Require Import Sorting.Sorted Sorting.Permutation Lia.
From XV Require Import Base.Str Doc.Tree Xp.Ast Xp.Nav Xp.Axes.
Local Open Scope Z_scope.

Section Sort.
  Variable le : Z -> Z -> bool.
  Hypothesis le_total : forall a b, le a b = true \/ le b a = true.
  Hypothesis le_trans : forall a b c, le a b = true -> le b c = true -> le a c = true.

  Definition leP (x y : Z * path) : Prop := le (fst x) (fst y) = true.

  Lemma insert_by_perm x l : Permutation (insert_by le x l) (x :: l).
  Proof.
    induction l as [|y r IH]; simpl; [reflexivity|].
    destruct (le (fst x) (fst y)); [reflexivity|].
    rewrite IH. apply perm_swap.
  Qed.

  Lemma sort_by_perm l : Permutation (sort_by le l) l.
  Proof.
    induction l as [|x r IH]; simpl; [reflexivity|].
    rewrite insert_by_perm. now constructor.
  Qed.

  Lemma insert_by_sorted x l : StronglySorted leP l -> StronglySorted leP (insert_by le x l).
  Proof.
    induction l as [|y r IH]; intros Hs; simpl.
    - constructor; constructor.
    - destruct (le (fst x) (fst y)) eqn:E.
      + constructor; [exact Hs|]. constructor; [exact E|].
        inversion Hs as [|? ? Hr Hall]; subst.
        eapply Forall_impl; [|exact Hall]. intros z Hz. unfold leP in *. eapply le_trans; eauto.
      + inversion Hs as [|? ? Hr Hall]; subst.
        constructor; [now apply IH|].
        assert (Hyx : le (fst y) (fst x) = true) by (destruct (le_total (fst x) (fst y)); congruence).
        eapply Permutation_Forall; [symmetry; apply insert_by_perm|].
        constructor; assumption.
  Qed.

  Lemma sort_by_sorted l : StronglySorted leP (sort_by le l).
  Proof.
    induction l as [|x r IH]; simpl; [constructor|]. now apply insert_by_sorted.
  Qed.
End Sort.

Lemma unique_from_incl last l x : In x (unique_from last l) -> In x l.
Proof.
  revert last; induction l as [|y r IH]; intros last H; simpl in *; [exact H|].
  destruct (Z.eqb (fst y) last).
  - right. eapply IH; eauto.
  - destruct H as [->|H]; [now left|right; eapply IH; eauto].
Qed.

Lemma unique_incl l x : In x (unique l) -> In x l.
Proof.
  destruct l as [|y r]; simpl; [tauto|]. intros [->|H]; [now left|right; eapply unique_from_incl; eauto].
Qed.

(** every member of the input is represented by a member with the same position *)
Lemma unique_from_complete last l x :
  In x l -> fst x = last \/ exists y, In y (unique_from last l) /\ fst y = fst x.
Proof.
  revert last; induction l as [|y r IH]; intros last H; simpl in *; [tauto|].
  destruct H as [->|H].
  - destruct (Z.eqb_spec (fst x) last); [now left|right; exists x; simpl; auto].
  - destruct (Z.eqb_spec (fst y) last) as [E|E].
    + apply IH; exact H.
    + destruct (IH (fst y) H) as [E'|[z [Hz Ez]]].
      * right; exists y; simpl; auto.
      * right; exists z; simpl; auto.
Qed.

Lemma unique_complete l x : In x l -> exists y, In y (unique l) /\ fst y = fst x.
Proof.
  destruct l as [|y r]; simpl; [tauto|]. intros [->|H].
  - exists x; auto.
  - destruct (unique_from_complete (fst y) r x H) as [E|[z [Hz Ez]]].
    + exists y; auto.
    + exists z; auto.
Qed.

Definition ltP (x y : Z * path) : Prop := fst x < fst y.
Definition gtP (x y : Z * path) : Prop := fst x > fst y.

Lemma unique_from_strict_fwd last l :
  StronglySorted (leP Z.leb) l -> Forall (fun y => last <= fst y) l ->
  StronglySorted ltP (unique_from last l) /\ Forall (fun y => last < fst y) (unique_from last l).
Proof.
  revert last; induction l as [|y r IH]; intros last Hs Hall; simpl.
  - split; constructor.
  - inversion Hs as [|? ? Hr Hy]; subst. inversion Hall as [|? ? Hy0 Hr0]; subst.
    destruct (Z.eqb_spec (fst y) last) as [E|E].
    + apply IH; assumption.
    + assert (Hy' : Forall (fun z => fst y <= fst z) r).
      { eapply Forall_impl; [|exact Hy]. intros z Hz. unfold leP in Hz. now apply Z.leb_le in Hz. }
      destruct (IH (fst y) Hr Hy') as [S1 S2]. split.
      * constructor; [exact S1|]. exact S2.
      * constructor; [lia|]. eapply Forall_impl; [|exact S2]. simpl; intros; lia.
Qed.

Lemma unique_strict_fwd l : StronglySorted (leP Z.leb) l -> StronglySorted ltP (unique l).
Proof.
  destruct l as [|y r]; simpl; intros Hs; [constructor|].
  inversion Hs as [|? ? Hr Hy]; subst.
  assert (Hy' : Forall (fun z => fst y <= fst z) r).
  { eapply Forall_impl; [|exact Hy]. intros z Hz. unfold leP in Hz. now apply Z.leb_le in Hz. }
  destruct (unique_from_strict_fwd (fst y) r Hr Hy') as [S1 S2].
  constructor; assumption.
Qed.

Lemma unique_from_strict_bwd last l :
  StronglySorted (leP Z.geb) l -> Forall (fun y => last >= fst y) l ->
  StronglySorted gtP (unique_from last l) /\ Forall (fun y => last > fst y) (unique_from last l).
Proof.
  revert last; induction l as [|y r IH]; intros last Hs Hall; simpl.
  - split; constructor.
  - inversion Hs as [|? ? Hr Hy]; subst. inversion Hall as [|? ? Hy0 Hr0]; subst.
    destruct (Z.eqb_spec (fst y) last) as [E|E].
    + apply IH; assumption.
    + assert (Hy' : Forall (fun z => fst y >= fst z) r).
      { eapply Forall_impl; [|exact Hy]. intros z Hz. unfold leP in Hz. rewrite Z.geb_le in Hz. lia. }
      destruct (IH (fst y) Hr Hy') as [S1 S2]. split.
      * constructor; [exact S1|]. exact S2.
      * constructor; [lia|]. eapply Forall_impl; [|exact S2]. simpl; intros; lia.
Qed.

Lemma unique_strict_bwd l : StronglySorted (leP Z.geb) l -> StronglySorted gtP (unique l).
Proof.
  destruct l as [|y r]; simpl; intros Hs; [constructor|].
  inversion Hs as [|? ? Hr Hy]; subst.
  assert (Hy' : Forall (fun z => fst y >= fst z) r).
  { eapply Forall_impl; [|exact Hy]. intros z Hz. unfold leP in Hz. rewrite Z.geb_le in Hz. lia. }
  destruct (unique_from_strict_bwd (fst y) r Hr Hy') as [S1 S2].
  constructor; assumption.
Qed.

Lemma leb_total a b : Z.leb a b = true \/ Z.leb b a = true.
Proof. destruct (Z.leb_spec a b); [now left|right; apply Z.leb_le; lia]. Qed.
Lemma leb_trans a b c : Z.leb a b = true -> Z.leb b c = true -> Z.leb a c = true.
Proof. rewrite !Z.leb_le; lia. Qed.
Lemma geb_total a b : Z.geb a b = true \/ Z.geb b a = true.
Proof. rewrite !Z.geb_le. lia. Qed.
Lemma geb_trans a b c : Z.geb a b = true -> Z.geb b c = true -> Z.geb a c = true.
Proof. rewrite !Z.geb_le; lia. Qed.

Section Cleanup.
  Variable d : anode.

  Definition pos_lt (p q : path) : Prop := pos_of d p < pos_of d q.
  Definition pos_gt (p q : path) : Prop := pos_of d p > pos_of d q.

  Lemma decorate_fst l x : In x (decorate d l) -> fst x = pos_of d (snd x) /\ In (snd x) l.
  Proof.
    unfold decorate. intros H. apply in_map_iff in H as [p [<- Hp]]. simpl. auto.
  Qed.

  Lemma strongly_sorted_map_snd (R : Z * path -> Z * path -> Prop) (S : path -> path -> Prop) l :
    (forall x y, In x l -> In y l -> R x y -> S (snd x) (snd y)) ->
    StronglySorted R l -> StronglySorted S (map snd l).
  Proof.
    induction l as [|x r IH]; intros HR Hs; simpl; [constructor|].
    inversion Hs as [|? ? Hr Hx]; subst. constructor.
    - apply IH; [|exact Hr]. intros; apply HR; simpl; auto.
    - apply Forall_forall. intros q Hq. apply in_map_iff in Hq as [y [<- Hy]].
      apply HR; simpl; auto. rewrite Forall_forall in Hx. now apply Hx.
  Qed.

  (** members of the cleaned list come from the input *)
  Lemma cleanup_forward_incl l p : In p (cleanup_forward d l) -> In p l.
  Proof.
    unfold cleanup_forward. intros H. apply in_map_iff in H as [x [<- Hx]].
    apply unique_incl in Hx.
    apply (Permutation_in _ (sort_by_perm Z.leb (decorate d l))) in Hx.
    now apply decorate_fst in Hx.
  Qed.

  Lemma cleanup_backward_incl l p : In p (cleanup_backward d l) -> In p l.
  Proof.
    unfold cleanup_backward. intros H. apply in_map_iff in H as [x [<- Hx]].
    apply unique_incl in Hx.
    apply (Permutation_in _ (sort_by_perm Z.geb (decorate d l))) in Hx.
    now apply decorate_fst in Hx.
  Qed.

  (** every input node is represented by an output node with the same position *)
  Lemma cleanup_forward_complete l p :
    In p l -> exists q, In q (cleanup_forward d l) /\ pos_of d q = pos_of d p.
  Proof.
    intros H. unfold cleanup_forward.
    assert (Hin : In (pos_of d p, p) (sort_by Z.leb (decorate d l))).
    { apply (Permutation_in _ (Permutation_sym (sort_by_perm Z.leb (decorate d l)))).
      unfold decorate. apply in_map_iff. now exists p. }
    destruct (unique_complete _ _ Hin) as [y [Hy Ey]].
    exists (snd y). split; [apply in_map; exact Hy|].
    assert (Hy' : In y (decorate d l)).
    { apply unique_incl in Hy. now apply (Permutation_in _ (sort_by_perm Z.leb (decorate d l))) in Hy. }
    apply decorate_fst in Hy' as [E _]. simpl in Ey. congruence.
  Qed.

  Lemma cleanup_backward_complete l p :
    In p l -> exists q, In q (cleanup_backward d l) /\ pos_of d q = pos_of d p.
  Proof.
    intros H. unfold cleanup_backward.
    assert (Hin : In (pos_of d p, p) (sort_by Z.geb (decorate d l))).
    { apply (Permutation_in _ (Permutation_sym (sort_by_perm Z.geb (decorate d l)))).
      unfold decorate. apply in_map_iff. now exists p. }
    destruct (unique_complete _ _ Hin) as [y [Hy Ey]].
    exists (snd y). split; [apply in_map; exact Hy|].
    assert (Hy' : In y (decorate d l)).
    { apply unique_incl in Hy. now apply (Permutation_in _ (sort_by_perm Z.geb (decorate d l))) in Hy. }
    apply decorate_fst in Hy' as [E _]. simpl in Ey. congruence.
  Qed.

  (** the result is strictly ascending (descending) in Pos: no duplicates, one direction *)
  Lemma cleanup_forward_sorted l : StronglySorted pos_lt (cleanup_forward d l).
  Proof.
    unfold cleanup_forward.
    apply strongly_sorted_map_snd with (R := ltP).
    - intros x y Hx Hy Hlt. unfold pos_lt, ltP in *.
      assert (Hd : forall z, In z (unique (sort_by Z.leb (decorate d l))) -> fst z = pos_of d (snd z)).
      { intros z Hz. apply unique_incl in Hz.
        apply (Permutation_in _ (sort_by_perm Z.leb (decorate d l))) in Hz. now apply decorate_fst in Hz. }
      rewrite <- (Hd x Hx), <- (Hd y Hy). exact Hlt.
    - apply unique_strict_fwd. apply sort_by_sorted; [apply leb_total|apply leb_trans].
  Qed.

  Lemma cleanup_backward_sorted l : StronglySorted pos_gt (cleanup_backward d l).
  Proof.
    unfold cleanup_backward.
    apply strongly_sorted_map_snd with (R := gtP).
    - intros x y Hx Hy Hlt. unfold pos_gt, gtP in *.
      assert (Hd : forall z, In z (unique (sort_by Z.geb (decorate d l))) -> fst z = pos_of d (snd z)).
      { intros z Hz. apply unique_incl in Hz.
        apply (Permutation_in _ (sort_by_perm Z.geb (decorate d l))) in Hz. now apply decorate_fst in Hz. }
      rewrite <- (Hd x Hx), <- (Hd y Hy). exact Hlt.
    - apply unique_strict_bwd. apply sort_by_sorted; [apply geb_total|apply geb_trans].
  Qed.

  Lemma sorted_lt_NoDup l : StronglySorted pos_lt l -> NoDup l.
  Proof.
    induction l as [|x r IH]; intros Hs; [constructor|].
    inversion Hs as [|? ? Hr Hx]; subst. constructor; [|now apply IH].
    intros Hin. rewrite Forall_forall in Hx. specialize (Hx x Hin). unfold pos_lt in Hx. lia.
  Qed.

  Lemma sorted_gt_NoDup l : StronglySorted pos_gt l -> NoDup l.
  Proof.
    induction l as [|x r IH]; intros Hs; [constructor|].
    inversion Hs as [|? ? Hr Hx]; subst. constructor; [|now apply IH].
    intros Hin. rewrite Forall_forall in Hx. specialize (Hx x Hin). unfold pos_gt in Hx. lia.
  Qed.

  (** With positions that identify nodes (C10, for every tree the store builds),
      cleaning up keeps exactly the members of the input. *)
  Definition pos_inj_on (l : list path) : Prop :=
    forall p q, In p l -> In q l -> pos_of d p = pos_of d q -> p = q.

  Lemma cleanup_forward_mem l p : pos_inj_on l -> (In p (cleanup_forward d l) <-> In p l).
  Proof.
    intros Hinj. split; [apply cleanup_forward_incl|].
    intros H. destruct (cleanup_forward_complete l p H) as [q [Hq E]].
    assert (q = p) by (apply Hinj; auto using cleanup_forward_incl). now subst.
  Qed.

  Lemma cleanup_backward_mem l p : pos_inj_on l -> (In p (cleanup_backward d l) <-> In p l).
  Proof.
    intros Hinj. split; [apply cleanup_backward_incl|].
    intros H. destruct (cleanup_backward_complete l p H) as [q [Hq E]].
    assert (q = p) by (apply Hinj; auto using cleanup_backward_incl). now subst.
  Qed.

  (** two strictly ascending lists with the same members are equal *)
  Lemma sorted_lt_canonical l1 l2 :
    StronglySorted pos_lt l1 -> StronglySorted pos_lt l2 ->
    (forall p, In p l1 <-> In p l2) -> l1 = l2.
  Proof.
    revert l2; induction l1 as [|x r IH]; intros l2 H1 H2 Hm.
    - destruct l2 as [|y r2]; [reflexivity|]. exfalso. apply (proj2 (Hm y)). now left.
    - destruct l2 as [|y r2]; [exfalso; apply (proj1 (Hm x)); now left|].
      inversion H1 as [|? ? Hr1 Hx]; subst. inversion H2 as [|? ? Hr2 Hy]; subst.
      rewrite Forall_forall in Hx, Hy. unfold pos_lt in *.
      assert (x = y).
      { destruct (proj1 (Hm x) (or_introl eq_refl)) as [E|Hin]; [now subst|].
        destruct (proj2 (Hm y) (or_introl eq_refl)) as [E|Hin2]; [now subst|].
        specialize (Hx y Hin2). specialize (Hy x Hin). lia. }
      subst y. f_equal. apply IH; auto.
      intros p; split; intros Hp.
      + destruct (proj1 (Hm p) (or_intror Hp)) as [E|Hin]; [|exact Hin].
        subst p. specialize (Hx x Hp). lia.
      + destruct (proj2 (Hm p) (or_intror Hp)) as [E|Hin]; [|exact Hin].
        subst p. specialize (Hy x Hp). lia.
  Qed.
End Cleanup.
