(** Model of the string / name / lang builtins of exec/function.go, over lists of
    Unicode scalar values. *)
From XV Require Import Base.Str Base.Num Doc.Tree Xp.Nav.
Local Open Scope Z_scope.

(** ** string functions *)

Definition fn_contains (sv t : str) : bool :=
  match split_at t sv with Some _ => true | None => false end.

Definition fn_starts_with (sv t : str) : bool := is_prefix t sv.

Definition fn_substring_before (sv t : str) : str :=
  match split_at t sv with Some (a, _) => a | None => [] end.

Definition fn_substring_after (sv t : str) : str :=
  match split_at t sv with Some (_, b) => b | None => [] end.

(** characters at 1-based positions q with  b <= q < e  (IEEE comparisons) *)
Fixpoint substring_from (q : Z) (b e : fl) (sv : str) : str :=
  match sv with
  | [] => []
  | c :: r =>
      let fq := f_of_Z q in
      if fleb b fq && fltb fq e then c :: substring_from (q + 1) b e r
      else substring_from (q + 1) b e r
  end.

Definition fn_substring (sv : str) (p : fl) (l : option fl) : str :=
  let b := f_round_half_up p in
  let e := match l with
           | None => S754_infinity false
           | Some l => fadd b (f_round_half_up l)
           end in
  substring_from 1 b e sv.

Definition fn_string_length (sv : str) : fl := f_of_Z (Z.of_nat (length sv)).

(** words separated by XML whitespace; [cur] is the current word reversed *)
Fixpoint words_aux (cur : str) (sv : str) : list str :=
  match sv with
  | [] => match cur with [] => [] | _ => [rev cur] end
  | c :: r =>
      if is_xml_ws c then
        match cur with
        | [] => words_aux [] r
        | _ => rev cur :: words_aux [] r
        end
      else words_aux (c :: cur) r
  end.

Definition words (sv : str) : list str := words_aux [] sv.

Fixpoint join_sp (l : list str) : str :=
  match l with
  | [] => []
  | [w] => w
  | w :: r => w ++ 32%N :: join_sp r
  end.

Definition fn_normalize_space (sv : str) : str := join_sp (words sv).

Fixpoint index_of (c : N) (l : str) (i : nat) : option nat :=
  match l with
  | [] => None
  | x :: r => if N.eqb x c then Some i else index_of c r (S i)
  end.

Definition translate_char (from to : str) (c : N) : str :=
  match index_of c from 0 with
  | None => [c]
  | Some i => match nth_error to i with Some c' => [c'] | None => [] end
  end.

Definition fn_translate (sv from to : str) : str := flat_map (translate_char from to) sv.

(** ** lang *)

Definition ascii_lower (c : N) : N := if N.leb 65 c && N.leb c 90 then (c + 32)%N else c.

Definition lang_match (l v : str) : bool :=
  let l' := map ascii_lower l in
  let v' := map ascii_lower v in
  str_eqb v' l' || is_prefix (l' ++ [45%N]) v'.

Definition xml_ns : str :=
  map N.of_nat
    [104; 116; 116; 112; 58; 47; 47; 119; 119; 119; 46; 119; 51; 46; 111; 114; 103; 47;
     88; 77; 76; 47; 49; 57; 57; 56; 47; 110; 97; 109; 101; 115; 112; 97; 99; 101]%nat.
Definition s_lang : str := [108; 97; 110; 103]%N.

Fixpoint find_attr (space local : str) (l : list aat) : option str :=
  match l with
  | [] => None
  | a :: r => if str_eqb (q_space (at_name a)) space && str_eqb (q_local (at_name a)) local
              then Some (at_val a) else find_attr space local r
  end.

Section NodeFns.
  Variable d : anode.

  (** nearest xml:lang walking up from [p] (not looking at the root) *)
  Fixpoint nearest_lang (p : path) (fuel : nat) : option str :=
    match fuel with
    | O => None
    | S f =>
        match p with
        | [] => None
        | _ => match subtree d p with
               | Some n => match find_attr xml_ns s_lang (aats n) with
                           | Some v => Some v
                           | None => nearest_lang (parent_path p) f
                           end
               | None => nearest_lang (parent_path p) f
               end
        end
    end.

  (** the Go loop: the first context node that has an xml:lang in scope decides *)
  Fixpoint fn_lang (l : str) (nodes : list path) : bool :=
    match nodes with
    | [] => false
    | p :: r => match nearest_lang p (S (length p)) with
                | Some v => lang_match l v
                | None => fn_lang l r
                end
    end.

  Inductive name_part := LocalOnly | NamespaceOnly | LocalAndNamespace.

  Definition name_of (part : name_part) (p : path) : str :=
    match lookup d p with
    | Some (ITree (ALeaf _ (LPI t _))) =>
        match part with NamespaceOnly => [] | _ => t end
    | Some (INs a) =>
        match part with NamespaceOnly => [] | _ => ns_prefix a end
    | Some (ITree (AElem _ nm _ _ _)) =>
        match p with
        | [] => []                          (* the root has no name *)
        | _ =>
            match part with
            | LocalOnly => q_local nm
            | NamespaceOnly => q_space nm
            | LocalAndNamespace =>
                match q_space nm with
                | [] => q_local nm
                | sp => 123%N :: sp ++ 125%N :: q_local nm
                end
            end
        end
    | Some (IAt a) =>
        let nm := at_name a in
        match part with
        | LocalOnly => q_local nm
        | NamespaceOnly => q_space nm
        | LocalAndNamespace =>
            match q_space nm with
            | [] => q_local nm
            | sp => 123%N :: sp ++ 125%N :: q_local nm
            end
        end
    | _ => []
    end.
End NodeFns.
