(** C01: the selectors of the model (exec/axisselectors.go) select exactly the nodes
    the XPath axes relate to the context node — for every document whose positions
    follow document order (every tree the store builds, C10), every valid context
    node of every kind, every axis. *)
From Coq Require Import Sorting.Sorted Lia.
From XV Require Import Base.Str Doc.Tree Doc.Store Doc.StoreThm Doc.DocOrder
  Xp.Ast Xp.Nav Xp.Axes Xp.Values Xp.Funcs Xp.Eval Xp.SortThm Xp.AxesSpec Xp.ConvThm.
Local Open Scope Z_scope.

(** ** looking up a path in two stages *)
Lemma lookup_app : forall p d r, r <> [] ->
  lookup d (p ++ r) = match subtree d p with Some n => lookup n r | None => None end.
Proof.
  induction p as [|s p IH]; intros d r Hr; [reflexivity|].
  destruct s as [i|i|i]; simpl.
  - destruct (p ++ r) eqn:E; [apply app_eq_nil in E as [_ E]; congruence|].
    unfold subtree. simpl. destruct p; [|reflexivity]. now destruct (nth_error (anss d) i).
  - destruct (p ++ r) eqn:E; [apply app_eq_nil in E as [_ E]; congruence|].
    unfold subtree. simpl. destruct p; [|reflexivity]. now destruct (nth_error (aats d) i).
  - unfold subtree. simpl. destruct (nth_error (akids d) i) as [c|]; [|reflexivity].
    apply (IH c r Hr).
Qed.

Lemma valid_prefix d p r : valid d (p ++ r) = true -> valid d p = true.
Proof.
  destruct r as [|s r]; [now rewrite app_nil_r|].
  unfold valid. rewrite lookup_app by discriminate. unfold subtree.
  destruct (lookup d p) as [[n| |]|]; congruence.
Qed.

Lemma valid_proper_prefix_subtree d p r : r <> [] -> valid d (p ++ r) = true -> exists n, subtree d p = Some n.
Proof.
  intros Hr. unfold valid. rewrite lookup_app by exact Hr.
  destruct (subtree d p) as [n|]; [eauto|discriminate].
Qed.

(** every proper prefix of a valid path consists of child steps *)
Lemma subtree_allch : forall p d n, subtree d p = Some n -> allch p = true.
Proof.
  induction p as [|s p IH]; intros d n H; [reflexivity|].
  unfold subtree in H. destruct s as [i|i|i]; simpl in *.
  - destruct p; [destruct (nth_error (anss d) i)|]; discriminate.
  - destruct p; [destruct (nth_error (aats d) i)|]; discriminate.
  - destruct (nth_error (akids d) i) as [c|]; [|discriminate]. apply (IH c n). exact H.
Qed.

Lemma valid_proper_prefix_allch d a s rest : valid d (a ++ s :: rest) = true -> allch a = true.
Proof.
  intros H. destruct (valid_proper_prefix_subtree d a (s :: rest)) as [n Hn]; [discriminate|exact H|].
  eapply subtree_allch; eauto.
Qed.

(** ** children, attributes, namespace nodes *)
Lemma in_idx_paths p mk n q : In q (idx_paths p mk n) <-> exists i, (i < n)%nat /\ q = p ++ [mk i].
Proof.
  unfold idx_paths. rewrite in_map_iff. split.
  - intros (i & <- & Hi). apply in_seq in Hi. exists i. split; [lia|reflexivity].
  - intros (i & Hi & ->). exists i. split; [reflexivity|]. apply in_seq. lia.
Qed.

Theorem children_spec d p q : In q (children d p) <-> exists i, q = p ++ [SCh i] /\ valid d q = true.
Proof.
  unfold children. destruct (subtree d p) as [n|] eqn:Hs.
  - rewrite in_idx_paths. split.
    + intros (i & Hi & ->). exists i. split; [reflexivity|]. unfold valid.
      rewrite lookup_app, Hs by discriminate. simpl.
      destruct (nth_error (akids n) i) eqn:E; [reflexivity|]. apply nth_error_None in E. lia.
    + intros (i & -> & Hv). exists i. split; [|reflexivity]. unfold valid in Hv.
      rewrite lookup_app, Hs in Hv by discriminate. simpl in Hv.
      destruct (nth_error (akids n) i) eqn:E; [|discriminate].
      apply nth_error_Some. congruence.
  - split; [intros []|]. intros (i & -> & Hv). unfold valid in Hv.
    rewrite lookup_app, Hs in Hv by discriminate. discriminate.
Qed.

Theorem attributes_spec d p q : In q (attributes d p) <-> exists i, q = p ++ [SAt i] /\ valid d q = true.
Proof.
  unfold attributes. destruct (subtree d p) as [n|] eqn:Hs.
  - rewrite in_idx_paths. split.
    + intros (i & Hi & ->). exists i. split; [reflexivity|]. unfold valid.
      rewrite lookup_app, Hs by discriminate. simpl.
      destruct (nth_error (aats n) i) eqn:E; [reflexivity|]. apply nth_error_None in E. lia.
    + intros (i & -> & Hv). exists i. split; [|reflexivity]. unfold valid in Hv.
      rewrite lookup_app, Hs in Hv by discriminate. simpl in Hv.
      destruct (nth_error (aats n) i) eqn:E; [|discriminate].
      apply nth_error_Some. congruence.
  - split; [intros []|]. intros (i & -> & Hv). unfold valid in Hv.
    rewrite lookup_app, Hs in Hv by discriminate. discriminate.
Qed.

Theorem namespaces_spec d p q : In q (namespaces d p) <-> exists i, q = p ++ [SNs i] /\ valid d q = true.
Proof.
  unfold namespaces. destruct (subtree d p) as [n|] eqn:Hs.
  - rewrite in_idx_paths. split.
    + intros (i & Hi & ->). exists i. split; [reflexivity|]. unfold valid.
      rewrite lookup_app, Hs by discriminate. simpl.
      destruct (nth_error (anss n) i) eqn:E; [reflexivity|]. apply nth_error_None in E. lia.
    + intros (i & -> & Hv). exists i. split; [|reflexivity]. unfold valid in Hv.
      rewrite lookup_app, Hs in Hv by discriminate. simpl in Hv.
      destruct (nth_error (anss n) i) eqn:E; [|discriminate].
      apply nth_error_Some. congruence.
  - split; [intros []|]. intros (i & -> & Hv). unfold valid in Hv.
    rewrite lookup_app, Hs in Hv by discriminate. discriminate.
Qed.

(** ** descendants *)
Lemma kids_desc_in f i ks q :
  In q (kids_desc f i ks) <->
  exists j c, nth_error ks j = Some c /\ (q = [SCh (i + j)] \/ exists r, q = SCh (i + j) :: r /\ In r (f c)).
Proof.
  revert i; induction ks as [|k ks IH]; intros i; simpl.
  - split; [tauto|]. intros (j & c & H & _). destruct j; discriminate.
  - rewrite in_app_iff, in_map_iff, IH. split.
    + intros [<-|[(r & <- & Hr)|(j & c & Hj & H)]].
      * exists O, k. rewrite Nat.add_0_r. auto.
      * exists O, k. rewrite Nat.add_0_r. split; [reflexivity|]. right. eauto.
      * exists (S j), c. split; [exact Hj|]. replace (i + S j)%nat with (S i + j)%nat by lia. exact H.
    + intros (j & c & Hj & H). destruct j as [|j]; simpl in Hj.
      * inversion Hj; subst c. rewrite Nat.add_0_r in H. destruct H as [->|(r & -> & Hr)]; [now left|].
        right; left. eauto.
      * right; right. exists j, c. split; [exact Hj|]. replace (S i + j)%nat with (i + S j)%nat by lia. exact H.
Qed.

Theorem desc_rel_spec : forall n r,
  In r (desc_rel n) <-> r <> [] /\ allch r = true /\ lookup n r <> None.
Proof.
  induction n as [pos l|pos nm nss ats kids IH] using anode_ind'; intros r.
  - simpl. split; [tauto|]. intros (Hr & Hc & Hl). destruct r as [|[i|i|i] r]; simpl in *; try congruence.
    destruct i; simpl in Hl; congruence.
  - cbn [desc_rel]. rewrite kids_desc_in. rewrite Forall_forall in IH. simpl Nat.add. split.
    + intros (j & c & Hj & [->|(r' & -> & Hr')]).
      * simpl. rewrite Hj. repeat split; congruence.
      * apply (IH c (nth_error_In _ _ Hj)) in Hr' as (Hr1 & Hr2 & Hr3).
        simpl. rewrite Hj. repeat split; try congruence; try exact Hr2.
    + intros (Hr & Hc & Hl). destruct r as [|[i|i|i] r]; simpl in Hc; try congruence; try discriminate.
      simpl in Hl. destruct (nth_error kids i) as [c|] eqn:Hi; [|congruence].
      exists i, c. split; [exact Hi|]. destruct r as [|s r]; [now left|right].
      exists (s :: r). split; [reflexivity|]. apply (IH c (nth_error_In _ _ Hi)).
      repeat split; [discriminate|exact Hc|exact Hl].
Qed.

Theorem descendants_spec d p q :
  In q (descendants d p) <-> exists r, r <> [] /\ allch r = true /\ q = p ++ r /\ valid d q = true.
Proof.
  unfold descendants. destruct (subtree d p) as [n|] eqn:Hs.
  - rewrite desc_of_rel, in_map_iff. split.
    + intros (r & <- & Hr). apply desc_rel_spec in Hr as (H1 & H2 & H3).
      exists r. repeat split; auto. unfold valid. rewrite lookup_app, Hs by exact H1.
      destruct (lookup n r); congruence.
    + intros (r & H1 & H2 & -> & Hv). exists r. split; [reflexivity|]. apply desc_rel_spec.
      repeat split; auto. unfold valid in Hv. rewrite lookup_app, Hs in Hv by exact H1.
      destruct (lookup n r); congruence.
  - split; [intros []|]. intros (r & H1 & _ & -> & Hv). unfold valid in Hv.
    rewrite lookup_app, Hs in Hv by exact H1. discriminate.
Qed.

(** ** ancestors *)
Lemma parent_path_snoc p s : parent_path (p ++ [s]) = p.
Proof. unfold parent_path. apply removelast_last. Qed.

Theorem anc_or_self_spec p q : In q (anc_or_self p) <-> prefix q p.
Proof.
  unfold anc_or_self. induction p as [|s p IH] using rev_ind.
  - simpl. split.
    + intros [<-|[]]. now exists [].
    + intros [r H]. symmetry in H. apply app_eq_nil in H as [-> _]. now left.
  - rewrite app_length. simpl length. replace (length p + 1)%nat with (S (length p)) by lia.
    cbn [ancestors_or_self]. destruct (p ++ [s]) eqn:E; [apply app_eq_nil in E as [_ E]; discriminate|].
    rewrite <- E, parent_path_snoc. cbn [In]. rewrite IH. split.
    + intros [<-|[r ->]]; [exists []; now rewrite app_nil_r|]. exists (r ++ [s]). now rewrite app_assoc.
    + intros [r H]. destruct r as [|x r] using rev_ind.
      * left. now rewrite app_nil_r in H.
      * right. rewrite app_assoc in H. apply app_inj_tail in H as [-> _]. now exists r.
Qed.

(** ** following *)
Definition after (s : step) (j : nat) : Prop := match s with SCh i => (i < j)%nat | _ => True end.

Lemma skipn_seq' n : forall s len, skipn n (seq s len) = seq (s + n) (len - n).
Proof.
  induction n as [|n IH]; intros s len; simpl.
  - now rewrite Nat.add_0_r, Nat.sub_0_r.
  - destruct len as [|len]; simpl; [reflexivity|]. rewrite IH. f_equal; lia.
Qed.

Lemma firstn_seq' n : forall s len, firstn n (seq s len) = seq s (min n len).
Proof.
  induction n as [|n IH]; intros s len; simpl; [reflexivity|].
  destruct len as [|len]; simpl; [reflexivity|]. f_equal. apply IH.
Qed.

Lemma In_skipn' {A} n : forall (l : list A) x, In x (skipn n l) -> In x l.
Proof.
  induction n as [|n IH]; intros l x H; simpl in H; [exact H|].
  destruct l; [destruct H|]. right. now apply IH.
Qed.

Lemma In_firstn' {A} n : forall (l : list A) x, In x (firstn n l) -> In x l.
Proof.
  induction n as [|n IH]; intros l x H; simpl in H; [destruct H|].
  destruct l; [destruct H|]. destruct H as [->|H]; [now left|right; now apply IH].
Qed.

Lemma skipn_idx_paths p mk from n q :
  In q (skipn from (idx_paths p mk n)) <-> exists j, (from <= j < n)%nat /\ q = p ++ [mk j].
Proof.
  unfold idx_paths. rewrite skipn_map, skipn_seq', in_map_iff. split.
  - intros (j & <- & Hj). apply in_seq in Hj. exists j. split; [lia|reflexivity].
  - intros (j & Hj & ->). exists j. split; [reflexivity|]. apply in_seq. lia.
Qed.

Lemma firstn_idx_paths p mk upto n q :
  In q (firstn upto (idx_paths p mk n)) <-> exists j, (j < upto /\ j < n)%nat /\ q = p ++ [mk j].
Proof.
  unfold idx_paths. rewrite firstn_map, firstn_seq', in_map_iff. split.
  - intros (j & <- & Hj). apply in_seq in Hj. exists j. split; [lia|reflexivity].
  - intros (j & Hj & ->). exists j. split; [reflexivity|]. apply in_seq. lia.
Qed.

Lemma with_desc_spec d c q :
  In q (with_desc d c) <-> q = c \/ exists r, r <> [] /\ allch r = true /\ q = c ++ r /\ valid d q = true.
Proof. unfold with_desc. cbn [In]. rewrite descendants_spec. split; intros [H|H]; auto. Qed.

(** the children of [p] from index [from] on, with their descendants *)
Lemma kids_from_spec d p from q :
  In q (kids_from d p from) <->
  exists j r, (from <= j)%nat /\ allch r = true /\ q = p ++ SCh j :: r /\ valid d q = true.
Proof.
  unfold kids_from. rewrite in_flat_map. split.
  - intros (c & Hc & Hq).
    assert (Hc' : In c (children d p)) by (eapply In_skipn'; eauto).
    apply children_spec in Hc' as (j0 & -> & Hv).
    unfold children in Hc. destruct (subtree d p) as [n|]; [|now rewrite skipn_nil in Hc].
    apply skipn_idx_paths in Hc as (j & Hj & E). apply app_inv_head in E. inversion E; subst j0.
    apply with_desc_spec in Hq as [->|(r & Hr & Hcr & -> & Hv')].
    + exists j, []. repeat split; auto. lia.
    + exists j, r. repeat split; auto; [lia|]. now rewrite <- app_assoc.
  - intros (j & r & Hj & Hr & -> & Hv).
    assert (Hvc : valid d (p ++ [SCh j]) = true).
    { apply (valid_prefix d (p ++ [SCh j]) r). now rewrite <- app_assoc. }
    exists (p ++ [SCh j]). split.
    + unfold children. destruct (subtree d p) as [n|] eqn:Hs.
      * apply skipn_idx_paths. exists j. split; [|reflexivity]. split; [exact Hj|].
        unfold valid in Hvc. rewrite lookup_app, Hs in Hvc by discriminate. simpl in Hvc.
        destruct (nth_error (akids n) j) eqn:E; [|discriminate]. apply nth_error_Some. congruence.
      * unfold valid in Hvc. rewrite lookup_app, Hs in Hvc by discriminate. discriminate.
    + apply with_desc_spec. destruct r as [|s r]; [left; reflexivity|right].
      exists (s :: r). repeat split; auto; [discriminate|]. now rewrite <- app_assoc.
Qed.

Lemma kids_before_spec d p upto q :
  In q (kids_before d p upto) <->
  exists j r, (j < upto)%nat /\ allch r = true /\ q = p ++ SCh j :: r /\ valid d q = true.
Proof.
  unfold kids_before. rewrite in_flat_map. split.
  - intros (c & Hc & Hq).
    assert (Hc' : In c (children d p)) by (eapply In_firstn'; eauto).
    apply children_spec in Hc' as (j0 & -> & Hv).
    unfold children in Hc. destruct (subtree d p) as [n|]; [|now rewrite firstn_nil in Hc].
    apply firstn_idx_paths in Hc as (j & Hj & E). apply app_inv_head in E. inversion E; subst j0.
    apply with_desc_spec in Hq as [->|(r & Hr & Hcr & -> & Hv')].
    + exists j, []. repeat split; auto. lia.
    + exists j, r. repeat split; auto; [lia|]. now rewrite <- app_assoc.
  - intros (j & r & Hj & Hr & -> & Hv).
    assert (Hvc : valid d (p ++ [SCh j]) = true).
    { apply (valid_prefix d (p ++ [SCh j]) r). now rewrite <- app_assoc. }
    exists (p ++ [SCh j]). split.
    + unfold children. destruct (subtree d p) as [n|] eqn:Hs.
      * apply firstn_idx_paths. exists j. split; [|reflexivity]. split; [exact Hj|].
        unfold valid in Hvc. rewrite lookup_app, Hs in Hvc by discriminate. simpl in Hvc.
        destruct (nth_error (akids n) j) eqn:E; [|discriminate]. apply nth_error_Some. congruence.
      * unfold valid in Hvc. rewrite lookup_app, Hs in Hvc by discriminate. discriminate.
    + apply with_desc_spec. destruct r as [|s r]; [left; reflexivity|right].
      exists (s :: r). repeat split; auto; [discriminate|]. now rewrite <- app_assoc.
Qed.

Lemma child_index_snoc p s : child_index (p ++ [s]) = match s with SCh i => Some i | _ => None end.
Proof. unfold child_index, last_step. now rewrite rev_app_distr. Qed.

(** the structural form of "following": the paths branch at a common ancestor [a], the
    context continuing with step [s], the target with a later child *)
Definition branches_after (p q : path) : Prop :=
  exists a s rest j r, p = a ++ s :: rest /\ q = a ++ SCh j :: r /\ after s j /\ allch r = true.

Theorem following_of_spec d p q :
  In q (following_of d p (length p)) <-> branches_after p q /\ valid d q = true.
Proof.
  induction p as [|s p IH] using rev_ind.
  - simpl. split; [tauto|]. intros [(a & s & rest & _ & _ & H & _) _]. destruct a; discriminate.
  - rewrite app_length. simpl length. replace (length p + 1)%nat with (S (length p)) by lia.
    cbn [following_of]. destruct (p ++ [s]) eqn:E; [apply app_eq_nil in E as [_ E]; discriminate|].
    rewrite <- E, parent_path_snoc, child_index_snoc, in_app_iff, IH, kids_from_spec. split.
    + intros [(j & r & Hj & Hr & -> & Hv)|[(a & s' & rest & j & r & -> & -> & Ha & Hr) Hv]].
      * split; [|exact Hv]. exists p, s, [], j, r. repeat split; auto.
        destruct s; simpl; auto; lia.
      * split; [|exact Hv]. exists a, s', (rest ++ [s]), j, r. repeat split; auto.
        now rewrite <- app_assoc.
    + intros [(a & s' & rest & j & r & Hp & -> & Ha & Hr) Hv].
      destruct rest as [|x rest] using rev_ind.
      * apply app_inj_tail in Hp as [-> ->]. left. exists j, r. repeat split; auto.
        destruct s'; simpl in *; lia.
      * clear IHrest. right. replace (a ++ s' :: rest ++ [x]) with ((a ++ s' :: rest) ++ [x]) in Hp
          by now rewrite <- app_assoc.
        apply app_inj_tail in Hp as [-> ->]. split; [|exact Hv]. exists a, s', rest, j, r. auto.
Qed.

(** the structural form and the document-order form agree on valid nodes *)
Theorem branches_after_iff_order d p q : valid d p = true -> valid d q = true ->
  (branches_after p q <-> allch q = true /\ plt p q /\ ~ prefix p q).
Proof.
  intros Hp Hq. split.
  - intros (a & s & rest & j & r & -> & -> & Ha & Hr).
    assert (Hac : allch a = true) by (eapply valid_proper_prefix_allch; eauto).
    repeat split.
    + rewrite allch_app, Hac. simpl. exact Hr.
    + unfold plt. clear Hp Hq Hac. induction a as [|x a IHa]; simpl.
      * destruct s as [i|i|i]; simpl in *; try reflexivity.
        destruct (Nat.eqb_spec i j); [lia|]. apply Nat.ltb_lt. exact Ha.
      * now rewrite step_eqb_refl.
    + intros [t E]. rewrite <- app_assoc in E. apply app_inv_common in E as [E _].
      subst s. simpl in Ha. lia.
  - intros (Hc & Hlt & Hnp). destruct (plt_split p q Hlt) as [(r & Hr & ->)|(a & s & t & rest & r' & -> & -> & Hst & Hne)].
    + exfalso. apply Hnp. now exists r.
    + rewrite allch_app in Hc. apply andb_true_iff in Hc as [_ Hc]. simpl in Hc.
      apply andb_true_iff in Hc as [Ht Hr']. destruct t as [j|j|j]; try discriminate.
      exists a, s, rest, j, r'. repeat split; auto.
      destruct s as [i|i|i]; simpl in *; auto. apply Nat.ltb_lt. exact Hst.
Qed.

(** ** preceding *)
Definition branches_before (p q : path) : Prop :=
  exists a i rest j r, p = a ++ SCh i :: rest /\ q = a ++ SCh j :: r /\ (j < i)%nat /\ allch r = true.

Theorem preceding_of_spec d p q :
  In q (preceding_of d p (length p)) <-> branches_before p q /\ valid d q = true.
Proof.
  induction p as [|s p IH] using rev_ind.
  - simpl. split; [tauto|]. intros [(a & s & rest & _ & _ & H & _) _]. destruct a; discriminate.
  - rewrite app_length. simpl length. replace (length p + 1)%nat with (S (length p)) by lia.
    cbn [preceding_of]. destruct (p ++ [s]) eqn:E; [apply app_eq_nil in E as [_ E]; discriminate|].
    rewrite <- E, parent_path_snoc, child_index_snoc, in_app_iff, IH, kids_before_spec. split.
    + intros [(j & r & Hj & Hr & -> & Hv)|[(a & i & rest & j & r & -> & -> & Ha & Hr) Hv]].
      * split; [|exact Hv]. destruct s as [i|i|i]; try lia. exists p, i, [], j, r. repeat split; auto.
      * split; [|exact Hv]. exists a, i, (rest ++ [s]), j, r. repeat split; auto.
        now rewrite <- app_assoc.
    + intros [(a & i & rest & j & r & Hp & -> & Ha & Hr) Hv].
      destruct rest as [|x rest] using rev_ind.
      * apply app_inj_tail in Hp as [-> ->]. left. exists j, r. repeat split; auto.
      * clear IHrest. right. replace (a ++ SCh i :: rest ++ [x]) with ((a ++ SCh i :: rest) ++ [x]) in Hp
          by now rewrite <- app_assoc.
        apply app_inj_tail in Hp as [-> ->]. split; [|exact Hv]. exists a, i, rest, j, r. auto.
Qed.

Theorem branches_before_iff_order d p q : valid d p = true -> valid d q = true ->
  (branches_before p q <-> allch q = true /\ plt q p /\ ~ prefix q p).
Proof.
  intros Hp Hq. split.
  - intros (a & i & rest & j & r & -> & -> & Ha & Hr).
    assert (Hac : allch a = true) by (eapply valid_proper_prefix_allch; eauto).
    repeat split.
    + rewrite allch_app, Hac. simpl. exact Hr.
    + unfold plt. clear Hp Hq Hac. induction a as [|x a IHa]; simpl.
      * destruct (Nat.eqb_spec j i); [lia|]. apply Nat.ltb_lt. exact Ha.
      * now rewrite step_eqb_refl.
    + intros [t E]. rewrite <- app_assoc in E. apply app_inv_common in E as [E _].
      inversion E. lia.
  - intros (Hc & Hlt & Hnp). destruct (plt_split q p Hlt) as [(r & Hr & ->)|(a & t & s & r' & rest & -> & -> & Hst & Hne)].
    + exfalso. apply Hnp. now exists r.
    + rewrite allch_app in Hc. apply andb_true_iff in Hc as [_ Hc]. simpl in Hc.
      apply andb_true_iff in Hc as [Ht Hr']. destruct t as [j|j|j]; try discriminate.
      destruct s as [i|i|i]; simpl in Hst; try discriminate.
      exists a, i, rest, j, r'. repeat split; auto. apply Nat.ltb_lt. exact Hst.
Qed.

(** ** siblings *)
Theorem following_siblings_spec d p q :
  In q (following_siblings d p) <->
  (exists a i j, p = a ++ [SCh i] /\ q = a ++ [SCh j] /\ (i < j)%nat) /\ valid d q = true.
Proof.
  unfold following_siblings. destruct p as [|s p] using rev_ind.
  - simpl. split; [tauto|]. intros [(a & i & j & H & _) _]. destruct a; discriminate.
  - clear IHp. rewrite child_index_snoc, parent_path_snoc. destruct s as [i|i|i].
    + split; [intros []|]. intros [(a & i' & j & H & _) _]. apply app_inj_tail in H as [_ H]. discriminate.
    + split; [intros []|]. intros [(a & i' & j & H & _) _]. apply app_inj_tail in H as [_ H]. discriminate.
    + split.
      * intros H. assert (Hc : In q (children d p)) by (eapply In_skipn'; eauto).
        apply children_spec in Hc as (j0 & -> & Hv). split; [|exact Hv].
        unfold children in H. destruct (subtree d p) as [n|]; [|now rewrite skipn_nil in H].
        apply skipn_idx_paths in H as (j & Hj & E). apply app_inv_head in E. inversion E; subst j0.
        exists p, i, j. repeat split; auto. lia.
      * intros [(a & i' & j & H1 & -> & Hlt) Hv]. apply app_inj_tail in H1 as [<- H1]. inversion H1; subst i'.
        unfold children. destruct (subtree d p) as [n|] eqn:Hs.
        -- apply skipn_idx_paths. exists j. split; [|reflexivity]. split; [lia|].
           unfold valid in Hv. rewrite lookup_app, Hs in Hv by discriminate. simpl in Hv.
           destruct (nth_error (akids n) j) eqn:E; [|discriminate]. apply nth_error_Some. congruence.
        -- unfold valid in Hv. rewrite lookup_app, Hs in Hv by discriminate. discriminate.
Qed.

Theorem preceding_siblings_spec d p q :
  In q (preceding_siblings d p) <->
  (exists a i j, p = a ++ [SCh i] /\ q = a ++ [SCh j] /\ (j < i)%nat) /\ valid d q = true.
Proof.
  unfold preceding_siblings. destruct p as [|s p] using rev_ind.
  - simpl. split; [tauto|]. intros [(a & i & j & H & _) _]. destruct a; discriminate.
  - clear IHp. rewrite child_index_snoc, parent_path_snoc. destruct s as [i|i|i].
    + split; [intros []|]. intros [(a & i' & j & H & _) _]. apply app_inj_tail in H as [_ H]. discriminate.
    + split; [intros []|]. intros [(a & i' & j & H & _) _]. apply app_inj_tail in H as [_ H]. discriminate.
    + split.
      * intros H. assert (Hc : In q (children d p)) by (eapply In_firstn'; eauto).
        apply children_spec in Hc as (j0 & -> & Hv). split; [|exact Hv].
        unfold children in H. destruct (subtree d p) as [n|]; [|now rewrite firstn_nil in H].
        apply firstn_idx_paths in H as (j & Hj & E). apply app_inv_head in E. inversion E; subst j0.
        exists p, i, j. repeat split; auto. lia.
      * intros [(a & i' & j & H1 & -> & Hlt) Hv]. apply app_inj_tail in H1 as [<- H1]. inversion H1; subst i'.
        unfold children. destruct (subtree d p) as [n|] eqn:Hs.
        -- apply firstn_idx_paths. exists j. split; [|reflexivity]. split; [lia|].
           unfold valid in Hv. rewrite lookup_app, Hs in Hv by discriminate. simpl in Hv.
           destruct (nth_error (akids n) j) eqn:E; [|discriminate]. apply nth_error_Some. congruence.
        -- unfold valid in Hv. rewrite lookup_app, Hs in Hv by discriminate. discriminate.
Qed.

(** ** the selectors *)
Section Select.
  Variable d : anode.
  Hypothesis Hord : doc_ordered d.

  Lemma pos_inj_on_valid l : (forall q, In q l -> valid d q = true) -> pos_inj_on d l.
  Proof. intros H p q Hp Hq E. apply (pos_injective d); auto. Qed.

  Lemma fwd_mem l q : (forall x, In x l -> valid d x = true) -> (In q (cleanup_forward d l) <-> In q l).
  Proof. intros H. apply cleanup_forward_mem. now apply pos_inj_on_valid. Qed.
  Lemma bwd_mem l q : (forall x, In x l -> valid d x = true) -> (In q (cleanup_backward d l) <-> In q l).
  Proof. intros H. apply cleanup_backward_mem. now apply pos_inj_on_valid. Qed.

  (** THE theorem of C01: from a valid context node of any kind, every selector
      returns exactly the valid nodes the axis relates to it *)
  Theorem select_exact a p q : valid d p = true ->
    (In q (select d a [p]) <-> valid d q = true /\ AxisRel a p q).
  Proof.
    intros Hp. destruct a; cbn [select flat_map AxisRel]; rewrite ?app_nil_r.
    - (* child *)
      rewrite fwd_mem by (intros x Hx; apply children_spec in Hx as (i & _ & H); exact H).
      rewrite children_spec. split; [intros (i & -> & H)|intros (H & i & ->)]; eauto.
    - (* descendant *)
      rewrite fwd_mem by (intros x Hx; apply descendants_spec in Hx as (r & _ & _ & _ & H); exact H).
      rewrite descendants_spec. split; [intros (r & H1 & H2 & -> & H)|intros (H & r & H1 & H2 & ->)]; eauto 8.
    - (* descendant-or-self *)
      rewrite fwd_mem.
      + rewrite with_desc_spec. split.
        * intros [->|(r & H1 & H2 & -> & H)]; [auto|]. split; [exact H|]. right. eauto.
        * intros (H & [->|(r & H1 & H2 & ->)]); [now left|right; eauto 8].
      + intros x Hx. apply with_desc_spec in Hx as [->|(r & _ & _ & _ & H)]; auto.
    - (* parent *)
      destruct p as [|s p] using rev_ind.
      + simpl. split; [intros []|]. intros (_ & s & H). destruct q; discriminate.
      + clear IHp. assert (Hnr : is_root (p ++ [s]) = false) by (destruct p; reflexivity).
        rewrite Hnr, parent_path_snoc.
        assert (Hvp : valid d p = true) by (eapply valid_prefix; eauto).
        rewrite fwd_mem by (intros x [<-|[]]; exact Hvp). cbn [In]. split.
        * intros [<-|[]]. split; [exact Hvp|]. now exists s.
        * intros (_ & s' & H). apply app_inj_tail in H as [-> _]. now left.
    - (* ancestor *)
      destruct p as [|s p] using rev_ind.
      + simpl. split; [intros []|]. intros (_ & r & Hr & H). symmetry in H. apply app_eq_nil in H as [_ ->]. congruence.
      + clear IHp. assert (Hnr : is_root (p ++ [s]) = false) by (destruct p; reflexivity).
        rewrite Hnr, parent_path_snoc.
        assert (Hvp : valid d p = true) by (eapply valid_prefix; eauto).
        rewrite bwd_mem.
        * rewrite anc_or_self_spec. split.
          -- intros [r ->]. split; [eapply valid_prefix; eauto|]. exists (r ++ [s]). split; [|now rewrite app_assoc].
             intro E. apply app_eq_nil in E as [_ E]. discriminate.
          -- intros (_ & r & Hr & H). destruct r as [|x r] using rev_ind; [congruence|].
             rewrite app_assoc in H. apply app_inj_tail in H as [-> _]. now exists r.
        * intros x Hx. apply anc_or_self_spec in Hx as [r ->]. eapply valid_prefix; eauto.
    - (* ancestor-or-self *)
      rewrite bwd_mem.
      + rewrite anc_or_self_spec. split; [intros H|intros [_ H]; exact H].
        split; [|exact H]. destruct H as [r ->]. eapply valid_prefix; eauto.
      + intros x Hx. apply anc_or_self_spec in Hx as [r ->]. eapply valid_prefix; eauto.
    - (* following-sibling *)
      rewrite fwd_mem by (intros x Hx; apply following_siblings_spec in Hx as [_ H]; exact H).
      rewrite following_siblings_spec. tauto.
    - (* preceding-sibling *)
      rewrite bwd_mem by (intros x Hx; apply preceding_siblings_spec in Hx as [_ H]; exact H).
      rewrite preceding_siblings_spec. tauto.
    - (* following *)
      rewrite fwd_mem by (intros x Hx; apply following_of_spec in Hx as [_ H]; exact H).
      rewrite following_of_spec. split.
      + intros [H Hv]. split; [exact Hv|]. now apply (branches_after_iff_order d).
      + intros [Hv H]. split; [|exact Hv]. now apply (branches_after_iff_order d).
    - (* preceding *)
      rewrite bwd_mem by (intros x Hx; apply preceding_of_spec in Hx as [_ H]; exact H).
      rewrite preceding_of_spec. split.
      + intros [H Hv]. split; [exact Hv|]. now apply (branches_before_iff_order d).
      + intros [Hv H]. split; [|exact Hv]. now apply (branches_before_iff_order d).
    - (* attribute *)
      rewrite fwd_mem by (intros x Hx; apply attributes_spec in Hx as (i & _ & H); exact H).
      rewrite attributes_spec. split; [intros (i & -> & H)|intros (H & i & ->)]; eauto.
    - (* namespace *)
      rewrite fwd_mem by (intros x Hx; apply namespaces_spec in Hx as (i & _ & H); exact H).
      rewrite namespaces_spec. split; [intros (i & -> & H)|intros (H & i & ->)]; eauto.
    - (* self *)
      cbn [In]. split; [intros [<-|[]]; auto|intros [_ ->]; now left].
  Qed.

  (** every selected node is a node of the document *)
  Corollary select_valid a p q : valid d p = true -> In q (select d a [p]) -> valid d q = true.
  Proof. intros Hp H. now apply select_exact in H. Qed.

  (** in document order for the forward axes, reverse document order for the four
      reverse axes (C03 in terms of the order on paths) *)
  Theorem select_in_document_order a p : valid d p = true ->
    if axis_reverse a then StronglySorted (fun x y => plt y x) (select d a [p])
    else StronglySorted plt (select d a [p]).
  Proof.
    intros Hp.
    assert (Hs : if axis_reverse a then StronglySorted (pos_gt d) (select d a [p])
                 else StronglySorted (pos_lt d) (select d a [p])).
    { destruct a; cbn [select axis_reverse]; try apply cleanup_forward_sorted; try apply cleanup_backward_sorted.
      constructor; constructor. }
    assert (Hv : forall q, In q (select d a [p]) -> valid d q = true) by (intros; eapply select_valid; eauto).
    assert (Hm : forall (R S : path -> path -> Prop) l,
               (forall x y, In x l -> In y l -> R x y -> S x y) -> StronglySorted R l -> StronglySorted S l).
    { intros R S l HRS H. induction H as [|x l H IH Hx]; constructor.
      - apply IH. intros; apply HRS; simpl; auto.
      - rewrite Forall_forall in *. intros y Hy. apply HRS; simpl; auto. }
    destruct (axis_reverse a).
    - eapply Hm; [|exact Hs]. intros x y Hx Hy H. unfold pos_gt in H. apply (pos_reflects d); auto. lia.
    - eapply Hm; [|exact Hs]. intros x y Hx Hy H. unfold pos_lt in H. apply (pos_reflects d); auto.
  Qed.
End Select.

(** ** node tests by node kind and principal node type *)
Theorem node_type_tests d pr p :
  test_node d pr RNode p = valid d p /\
  (test_node d pr RText p = true <-> kind_of d p = Some KText) /\
  (test_node d pr RComment p = true <-> kind_of d p = Some KComment) /\
  (test_node d pr RPI p = true <-> kind_of d p = Some KPI).
Proof.
  unfold test_node, valid, kind_of.
  destruct (lookup d p) as [[[pos nm nss ats kids|pos [v|v|t dt]]|a|a]|]; simpl;
    repeat split; try reflexivity; try discriminate; try congruence;
    destruct p; simpl; try reflexivity; try discriminate; try congruence.
Qed.

(** [*] selects the nodes of the axis's principal node type: elements (not the root),
    attributes on the attribute axis, namespace nodes on the namespace axis *)
Theorem any_name_test_is_principal_type d p :
  (test_node d PElem RAny p = true <-> kind_of d p = Some KElem) /\
  (test_node d PAttr RAny p = true <-> kind_of d p = Some KAttr) /\
  (test_node d PNs RAny p = true <-> kind_of d p = Some KNs).
Proof.
  unfold test_node, kind_of.
  destruct (lookup d p) as [[[pos nm nss ats kids|pos [v|v|t dt]]|a|a]|]; simpl;
    repeat split; try reflexivity; try discriminate; try congruence;
    destruct p; simpl; try reflexivity; try discriminate; try congruence.
Qed.

Theorem pi_target_test d pr t p :
  test_node d pr (RPITarget t) p = true <->
  exists pos dt, lookup d p = Some (ITree (ALeaf pos (LPI t dt))).
Proof.
  unfold test_node. destruct (lookup d p) as [[[pos nm nss ats kids|pos [v|v|t' dt]]|a|a]|]; simpl;
    try (split; [discriminate|intros (? & ? & H); discriminate]).
  rewrite str_eqb_spec. split; [intros ->; eauto|intros (? & ? & H); congruence].
Qed.
