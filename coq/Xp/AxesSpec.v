(** The XPath 1.0 axes as relations on node paths (sections 2.2-2.4), independent of
    the selector algorithms, and their algebra: the five-way partition, the converse
    pairs, the root clauses. *)
From Coq Require Import Lia.
From XV Require Import Base.Str Doc.Tree Doc.DocOrder Xp.Ast.

Definition is_ch (s : step) : bool := match s with SCh _ => true | _ => false end.
(** a tree node (root, element, text, comment, PI): every step is a child step *)
Definition allch (r : path) : bool := forallb is_ch r.

Definition prefix (q p : path) : Prop := exists r, p = q ++ r.

Definition AxisRel (a : axis) (p q : path) : Prop :=
  match a with
  | Child => exists i, q = p ++ [SCh i]
  | Attribute => exists i, q = p ++ [SAt i]
  | Namespace => exists i, q = p ++ [SNs i]
  | Self => q = p
  | Parent => exists s, p = q ++ [s]
  | Ancestor => exists r, r <> [] /\ p = q ++ r
  | AncestorOrSelf => prefix q p
  | Descendant => exists r, r <> [] /\ allch r = true /\ q = p ++ r
  | DescendantOrSelf => q = p \/ exists r, r <> [] /\ allch r = true /\ q = p ++ r
  | FollowingSibling => exists a i j, p = a ++ [SCh i] /\ q = a ++ [SCh j] /\ (i < j)%nat
  | PrecedingSibling => exists a i j, p = a ++ [SCh i] /\ q = a ++ [SCh j] /\ (j < i)%nat
  | Following => allch q = true /\ plt p q /\ ~ prefix p q
  | Preceding => allch q = true /\ plt q p /\ ~ prefix q p
  end.

Lemma allch_app a b : allch (a ++ b) = allch a && allch b.
Proof. apply forallb_app. Qed.

Lemma prefix_plt q p : prefix q p -> q = p \/ plt q p.
Proof.
  intros [r ->]. destruct r as [|s r]; [left; now rewrite app_nil_r|right].
  apply plt_prefix. discriminate.
Qed.

(** the first difference of two paths in document order *)
Lemma plt_split p q : plt p q ->
  (exists r, r <> [] /\ q = p ++ r) \/
  (exists a s t rest r', p = a ++ s :: rest /\ q = a ++ t :: r' /\ step_ltb s t = true /\ s <> t).
Proof.
  unfold plt. revert q; induction p as [|x p IH]; intros [|y q] H; simpl in H; try discriminate.
  - left. exists (y :: q). split; [discriminate|reflexivity].
  - destruct (step_eqb x y) eqn:E.
    + apply step_eqb_spec in E; subst y. destruct (IH q H) as [(r & Hr & ->)|(a & s & t & rest & r' & -> & -> & Hst & Hne)].
      * left. exists r. auto.
      * right. exists (x :: a), s, t, rest, r'. auto.
    + right. exists [], x, y, p, q. repeat split; auto. intros ->. now rewrite step_eqb_refl in E.
Qed.

Lemma app_inv_common {A} (a : list A) s1 r1 s2 r2 :
  a ++ s1 :: r1 = a ++ s2 :: r2 -> s1 = s2 /\ r1 = r2.
Proof. intros H. apply app_inv_head in H. now inversion H. Qed.

(** ** the five axes partition the tree nodes *)
Theorem partition_total p q : allch p = true -> allch q = true ->
  AxisRel Self p q \/ AxisRel Ancestor p q \/ AxisRel Descendant p q \/
  AxisRel Following p q \/ AxisRel Preceding p q.
Proof.
  intros Hp Hq. destruct (path_tricho p q) as [->|[H|H]]; [now left| |].
  - destruct (plt_split p q H) as [(r & Hr & ->)|(a & s & t & rest & r' & -> & -> & Hst & Hne)].
    + right; right; left. exists r. rewrite allch_app in Hq. apply andb_true_iff in Hq as [_ Hq]. auto.
    + right; right; right; left. repeat split; auto. intros [r E].
      rewrite <- app_assoc in E. apply app_inv_common in E as [E _]. congruence.
  - destruct (plt_split q p H) as [(r & Hr & ->)|(a & s & t & rest & r' & -> & -> & Hst & Hne)].
    + right; left. exists r. auto.
    + right; right; right; right. repeat split; auto. intros [r E].
      rewrite <- app_assoc in E. apply app_inv_common in E as [E _]. congruence.
Qed.

Lemma plt_irrefl p : ~ plt p p.
Proof. unfold plt. now rewrite path_ltb_irrefl. Qed.
Lemma plt_asym p q : plt p q -> ~ plt q p.
Proof. unfold plt. intros H H'. apply path_ltb_asym in H. congruence. Qed.

Lemma proper_prefix_plt p r : r <> [] -> plt p (p ++ r).
Proof. apply plt_prefix. Qed.

Theorem partition_disjoint p q :
  (AxisRel Self p q -> ~ AxisRel Ancestor p q /\ ~ AxisRel Descendant p q /\ ~ AxisRel Following p q /\ ~ AxisRel Preceding p q) /\
  (AxisRel Ancestor p q -> ~ AxisRel Descendant p q /\ ~ AxisRel Following p q /\ ~ AxisRel Preceding p q) /\
  (AxisRel Descendant p q -> ~ AxisRel Following p q /\ ~ AxisRel Preceding p q) /\
  (AxisRel Following p q -> ~ AxisRel Preceding p q).
Proof.
  simpl. split; [|split; [|split]].
  - intros ->. repeat split.
    + intros (r & Hr & E). pose proof (proper_prefix_plt p r Hr) as H. rewrite <- E in H. now apply plt_irrefl in H.
    + intros (r & Hr & _ & E). pose proof (proper_prefix_plt p r Hr) as H. rewrite <- E in H. now apply plt_irrefl in H.
    + intros (_ & H & _). now apply plt_irrefl in H.
    + intros (_ & H & _). now apply plt_irrefl in H.
  - intros (r & Hr & ->). repeat split.
    + intros (r' & Hr' & _ & E). apply (plt_asym q (q ++ r)); [now apply proper_prefix_plt|].
      pose proof (proper_prefix_plt (q ++ r) r' Hr') as H. now rewrite <- E in H.
    + intros (_ & H & _). apply (plt_asym q (q ++ r)); [now apply proper_prefix_plt|exact H].
    + intros (_ & _ & H). apply H. now exists r.
  - intros (r & Hr & _ & ->). repeat split.
    + intros (_ & _ & H). apply H. now exists r.
    + intros (_ & H & _). apply (plt_asym p (p ++ r)); [now apply proper_prefix_plt|exact H].
  - intros (_ & H & _) (_ & H' & _). now apply (plt_asym p q).
Qed.

(** ** every axis is the converse of its dual (on tree nodes) *)
Theorem child_parent_converse p q : allch q = true -> (AxisRel Child p q <-> AxisRel Parent q p).
Proof.
  intros Hq. simpl. split.
  - intros [i ->]. now exists (SCh i).
  - intros [s ->]. rewrite allch_app in Hq. apply andb_true_iff in Hq as [_ Hq]. simpl in Hq.
    destruct s; try discriminate. now exists i.
Qed.

Theorem descendant_ancestor_converse p q : allch q = true -> (AxisRel Descendant p q <-> AxisRel Ancestor q p).
Proof.
  intros Hq. simpl. split.
  - intros (r & Hr & _ & ->). now exists r.
  - intros (r & Hr & ->). exists r. rewrite allch_app in Hq. apply andb_true_iff in Hq as [_ Hq]. auto.
Qed.

Theorem following_preceding_converse p q : allch p = true -> allch q = true ->
  (AxisRel Following p q <-> AxisRel Preceding q p).
Proof. intros Hp Hq. simpl. tauto. Qed.

Theorem sibling_converse p q : AxisRel FollowingSibling p q <-> AxisRel PrecedingSibling q p.
Proof.
  simpl. split; intros (a & i & j & H1 & H2 & H3); exists a; [exists j, i|exists j, i]; auto.
Qed.

(** ** the root *)
Theorem ancestor_axes_reach_the_root p : AxisRel AncestorOrSelf p [] /\ (p <> [] -> AxisRel Ancestor p []).
Proof. split; [now exists p|]. intros H. now exists p. Qed.

Theorem root_has_no_parent q : ~ AxisRel Parent [] q.
Proof. intros [s H]. destruct q; discriminate. Qed.

Theorem root_has_no_siblings q : ~ AxisRel FollowingSibling [] q /\ ~ AxisRel PrecedingSibling [] q.
Proof. split; intros (a & i & j & H & _); destruct a; discriminate. Qed.

Theorem root_children_are_siblings i j : (i < j)%nat ->
  AxisRel FollowingSibling [SCh i] [SCh j] /\ AxisRel PrecedingSibling [SCh j] [SCh i].
Proof. intros H. split; [exists [], i, j|exists [], j, i]; auto. Qed.
