(** Model of exec/result.go: the four result types and String()/Number()/Bool(). *)
From XV Require Import Base.Str Base.Num Doc.Tree Xp.Nav.
From Coq Require String.
Import String.StringSyntax.
Local Open Scope Z_scope.
Local Open Scope string_scope.

Inductive value :=
| VNodes (l : list path)
| VNum (x : fl)
| VStr (v : str)
| VBool (b : bool).

Inductive res (A : Type) :=
| Ok (a : A)
| Err.
Arguments Ok {A} a.
Arguments Err {A}.

Definition bind {A B} (r : res A) (f : A -> res B) : res B :=
  match r with Ok a => f a | Err => Err end.

Section Conv.
  Variable d : anode.

  (** NodeSet.first(): the node with the smallest Pos *)
  Fixpoint min_pos_from (best : path) (bp : Z) (l : list path) : path :=
    match l with
    | [] => best
    | p :: r => let pp := pos_of d p in
                if Z.ltb pp bp then min_pos_from p pp r else min_pos_from best bp r
    end.

  Definition first_node (l : list path) : option path :=
    match l with
    | [] => None
    | p :: r => Some (min_pos_from p (pos_of d p) r)
    end.

  Definition to_str (v : value) : str :=
    match v with
    | VNodes l => match first_node l with Some p => string_value d p | None => [] end
    | VNum x => num_to_str x
    | VStr v => v
    | VBool true => lit "true"
    | VBool false => lit "false"
    end.

  Definition to_num (v : value) : fl :=
    match v with
    | VNodes _ => str_to_num (to_str v)
    | VNum x => x
    | VStr v => str_to_num v
    | VBool true => fone
    | VBool false => fzero
    end.

  Definition to_bool (v : value) : bool :=
    match v with
    | VNodes l => match l with [] => false | _ => true end
    | VNum x => negb (is_zero x) && negb (is_nan x)
    | VStr v => match v with [] => false | _ => true end
    | VBool b => b
    end.
End Conv.
