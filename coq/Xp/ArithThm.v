(** C06 at the evaluator level: operators and numeric functions are total on
    number()-converted operands; sum/count. *)
From Coq Require Import Lia.
From XV Require Import Base.Str Base.Num Base.NumThm Doc.Tree Xp.Ast Xp.Nav Xp.Values Xp.Funcs Xp.Eval.
From Coq Require String.
Import String.StringSyntax.
Local Open Scope Z_scope.
Local Open Scope string_scope.

(** whatever the operands evaluate to, a binary arithmetic expression evaluates to
    a number: no error, for any operator and any operand values *)
Theorem arith_never_fails en op a b c x y :
  eval en a c = Ok x -> eval en b c = Ok y ->
  exists z, eval en (EArith op a b) c = Ok (VNum z) /\
            z = arith op (to_num (e_doc en) x) (to_num (e_doc en) y).
Proof. intros Ha Hb. simpl. rewrite Ha, Hb. eauto. Qed.

Definition sum_nodes (d : anode) (l : list path) : fl :=
  fold_left (fun acc p => fadd acc (str_to_num (string_value d p))) l fzero.

Theorem sum_is_fold_of_numbers en c l :
  call_builtin en (lit "sum") [VNodes l] c = Ok (VNum (sum_nodes (e_doc en) l)).
Proof. reflexivity. Qed.

Theorem sum_snoc d l p :
  sum_nodes d (l ++ [p])%list = fadd (sum_nodes d l) (str_to_num (string_value d p)).
Proof. unfold sum_nodes. now rewrite fold_left_app. Qed.

Theorem numeric_functions_never_fail en c v :
  call_builtin en (lit "floor") [v] c = Ok (VNum (f_floor (to_num (e_doc en) v))) /\
  call_builtin en (lit "ceiling") [v] c = Ok (VNum (f_ceil (to_num (e_doc en) v))) /\
  call_builtin en (lit "round") [v] c
    = Ok (VNum ((if e_asis en then f_round_go else f_round_xpath) (to_num (e_doc en) v))) /\
  call_builtin en (lit "number") [v] c = Ok (VNum (to_num (e_doc en) v)).
Proof. repeat split. Qed.
