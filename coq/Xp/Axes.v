(** Model of exec/axisselectors.go: the thirteen selectors and their helpers,
    in the shape of the Go code (append to a result list, then clean up by
    sorting on Pos and dropping neighbours with equal Pos). *)
From XV Require Import Base.Str Doc.Tree Xp.Ast Xp.Nav.
Local Open Scope Z_scope.

(** ** sort.Sort(forwardSort) + unique, on (Pos, node) pairs.
    Go's sort is not stable; with unique positions the result is unique. *)
Fixpoint insert_by (le : Z -> Z -> bool) (x : Z * path) (l : list (Z * path)) : list (Z * path) :=
  match l with
  | [] => [x]
  | y :: r => if le (fst x) (fst y) then x :: l else y :: insert_by le x r
  end.

Fixpoint sort_by (le : Z -> Z -> bool) (l : list (Z * path)) : list (Z * path) :=
  match l with
  | [] => []
  | x :: r => insert_by le x (sort_by le r)
  end.

(** unique: keep an element iff its Pos differs from the last kept one *)
Fixpoint unique_from (last : Z) (l : list (Z * path)) : list (Z * path) :=
  match l with
  | [] => []
  | x :: r => if Z.eqb (fst x) last then unique_from last r else x :: unique_from (fst x) r
  end.

Definition unique (l : list (Z * path)) : list (Z * path) :=
  match l with
  | [] => []
  | x :: r => x :: unique_from (fst x) r
  end.

Section Axes.
  Variable d : anode.

  Definition decorate (l : list path) : list (Z * path) := map (fun p => (pos_of d p, p)) l.

  Definition cleanup_forward (l : list path) : list path :=
    map snd (unique (sort_by Z.leb (decorate l))).
  Definition cleanup_backward (l : list path) : list path :=
    map snd (unique (sort_by Z.geb (decorate l))).

  (** appendAncestors: the node, its parent, ... , the root *)
  Fixpoint ancestors_or_self (p : path) (fuel : nat) : list path :=
    match fuel with
    | O => [p]
    | S f => match p with
             | [] => [[]]
             | _ => p :: ancestors_or_self (parent_path p) f
             end
    end.
  Definition anc_or_self (p : path) : list path := ancestors_or_self p (length p).

  Definition with_desc (p : path) : list path := p :: descendants d p.

  (** children of [p] from index [from] on, each followed by its descendants *)
  Definition kids_from (p : path) (from : nat) : list path :=
    flat_map with_desc (skipn from (children d p)).
  Definition kids_before (p : path) (upto : nat) : list path :=
    flat_map with_desc (firstn upto (children d p)).

  (** appendFollowing *)
  Fixpoint following_of (p : path) (fuel : nat) : list path :=
    match fuel with
    | O => []
    | S f =>
        match p with
        | [] => []
        | _ =>
            let par := parent_path p in
            let from := match child_index p with Some i => S i | None => O end in
            kids_from par from ++ following_of par f
        end
    end.

  (** appendPreceding *)
  Fixpoint preceding_of (p : path) (fuel : nat) : list path :=
    match fuel with
    | O => []
    | S f =>
        match p with
        | [] => []
        | _ =>
            let par := parent_path p in
            let upto := match child_index p with Some i => i | None => O end in
            kids_before par upto ++ preceding_of par f
        end
    end.

  Definition following_siblings (p : path) : list path :=
    match child_index p with
    | Some i => skipn (S i) (children d (parent_path p))
    | None => []
    end.

  Definition preceding_siblings (p : path) : list path :=
    match child_index p with
    | Some i => firstn i (children d (parent_path p))
    | None => []
    end.

  (** the selectors, on a whole node list as in the Go code *)
  Definition select (a : axis) (l : list path) : list path :=
    match a with
    | Child => cleanup_forward (flat_map (children d) l)
    | Attribute => cleanup_forward (flat_map (attributes d) l)
    | Namespace => cleanup_forward (flat_map (namespaces d) l)
    | Ancestor =>
        cleanup_backward
          (flat_map (fun p => if is_root p then [] else anc_or_self (parent_path p)) l)
    | AncestorOrSelf => cleanup_backward (flat_map anc_or_self l)
    | Descendant => cleanup_forward (flat_map (descendants d) l)
    | DescendantOrSelf => cleanup_forward (flat_map with_desc l)
    | Following => cleanup_forward (flat_map (fun p => following_of p (length p)) l)
    | FollowingSibling => cleanup_forward (flat_map following_siblings l)
    | Parent => cleanup_forward (flat_map (fun p => if is_root p then [] else [parent_path p]) l)
    | Preceding => cleanup_backward (flat_map (fun p => preceding_of p (length p)) l)
    | PrecedingSibling => cleanup_backward (flat_map preceding_siblings l)
    | Self => l
    end.
End Axes.
