(** Abstract syntax of XPath 1.0 expressions plus xsel's documented extensions
    (function call as a step, [*:x]). Abbreviations ([@], [.], [..], [//], implicit
    child) are harness-level renderings of these constructors. *)
From XV Require Import Base.Str Base.Num.

Inductive axis :=
| Child | Descendant | DescendantOrSelf | Parent | Ancestor | AncestorOrSelf
| FollowingSibling | PrecedingSibling | Following | Preceding
| Attribute | Namespace | Self.

Definition axis_reverse (a : axis) : bool :=
  match a with
  | Ancestor | AncestorOrSelf | Preceding | PrecedingSibling => true
  | _ => false
  end.

Inductive nodetest :=
| NTNode | NTText | NTComment | NTPI
| NTPITarget (t : str)
| NTAny                          (* *   *)
| NTNsAny (prefix : str)         (* p:* *)
| NTLocalAny (local : str)       (* *:x *)
| NTQName (prefix local : str)   (* p:x *)
| NTName (local : str).          (* x   *)

Inductive cmpop := CEq | CNe | CLt | CLe | CGt | CGe.
Inductive arop := AAdd | ASub | AMul | ADiv | AMod.

(** a QName as written: optional prefix, local part *)
Definition rawq := (option str * str)%type.

Inductive expr :=
| EOr (a b : expr)
| EAnd (a b : expr)
| ECmp (op : cmpop) (a b : expr)
| EArith (op : arop) (a b : expr)
| ENeg (a : expr)
| EUnion (a b : expr)
| ELit (v : str)
| ENum (text : str)
| EVar (q : rawq)
| ECall (q : rawq) (args : list expr)
| EPath (abs : bool) (steps : list stp)                 (* abs, [] is "/" *)
| EFilter (e : expr) (preds : list expr) (steps : list stp)   (* (E)[p]..[p]/steps *)
with stp :=
| SAxis (a : axis) (t : nodetest) (preds : list expr)
| SCall (q : rawq) (args : list expr).
