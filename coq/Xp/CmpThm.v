(** C05: the comparison cascade is XPath 1.0 section 3.4 — existential over
    node-sets, typed otherwise; NaN, empty node-sets, converse operators. *)
From Coq Require Import Lia.
From XV Require Import Base.Str Base.Num Base.NumThm Doc.Tree Xp.Ast Xp.Nav Xp.Values Xp.Funcs Xp.Eval.
Local Open Scope Z_scope.

Section Cmp.
  Variable d : anode.
  Notation sv := (string_value d).

  (** ** node-set operands: existential semantics *)
  Theorem cmp_nodes_nodes op a b :
    compare_values d op (VNodes a) (VNodes b) = true <->
    exists x y, In x a /\ In y b /\ cmp_strs op (sv x) (sv y) = true.
  Proof.
    simpl. rewrite existsb_exists. split.
    - intros (x & Hx & H). apply existsb_exists in H as (y & Hy & H). eauto.
    - intros (x & y & Hx & Hy & H). exists x. split; [exact Hx|]. apply existsb_exists. eauto.
  Qed.

  Theorem cmp_nodes_num op a y :
    compare_values d op (VNodes a) (VNum y) = true <->
    exists x, In x a /\ cmp_num op (str_to_num (sv x)) y = true.
  Proof. simpl. apply existsb_exists. Qed.

  Theorem cmp_num_nodes op x b :
    compare_values d op (VNum x) (VNodes b) = true <->
    exists y, In y b /\ cmp_num op x (str_to_num (sv y)) = true.
  Proof. simpl. apply existsb_exists. Qed.

  Theorem cmp_nodes_str op a y :
    compare_values d op (VNodes a) (VStr y) = true <->
    exists x, In x a /\ cmp_strs op (sv x) y = true.
  Proof. simpl. apply existsb_exists. Qed.

  Theorem cmp_str_nodes op x b :
    compare_values d op (VStr x) (VNodes b) = true <->
    exists y, In y b /\ cmp_strs op x (sv y) = true.
  Proof. simpl. apply existsb_exists. Qed.

  (** against a boolean the node-set counts as its boolean value *)
  Theorem cmp_nodes_bool op a y :
    compare_values d op (VNodes a) (VBool y) = cmp_bools op (to_bool (VNodes a)) y.
  Proof. reflexivity. Qed.
  Theorem cmp_bool_nodes op x b :
    compare_values d op (VBool x) (VNodes b) = cmp_bools op x (to_bool (VNodes b)).
  Proof. reflexivity. Qed.

  (** two strings: equality compares the strings, the relational operators their numbers *)
  Theorem cmp_strs_spec op a b :
    cmp_strs op a b =
    match op with
    | CEq => str_eqb a b
    | CNe => negb (str_eqb a b)
    | _ => cmp_num op (str_to_num a) (str_to_num b)
    end.
  Proof. destruct op; reflexivity. Qed.

  (** ** no node-set: booleans first, then numbers, then strings; relational always numeric *)
  Definition is_nodes (v : value) : bool := match v with VNodes _ => true | _ => false end.
  Definition is_bool (v : value) : bool := match v with VBool _ => true | _ => false end.
  Definition is_num (v : value) : bool := match v with VNum _ => true | _ => false end.

  Theorem cmp_scalars_relational op l r :
    is_nodes l = false -> is_nodes r = false -> is_relational op = true ->
    compare_values d op l r = cmp_num op (to_num d l) (to_num d r).
  Proof. destruct l, r, op; simpl; intros; try discriminate; reflexivity. Qed.

  Theorem cmp_scalars_equality_bool op l r :
    is_nodes l = false -> is_nodes r = false -> is_relational op = false ->
    is_bool l || is_bool r = true ->
    compare_values d op l r = cmp_bools op (to_bool l) (to_bool r).
  Proof. destruct l, r, op; simpl; intros; try discriminate; reflexivity. Qed.

  Theorem cmp_scalars_equality_num op l r :
    is_nodes l = false -> is_nodes r = false -> is_relational op = false ->
    is_bool l || is_bool r = false -> is_num l || is_num r = true ->
    compare_values d op l r = cmp_num op (to_num d l) (to_num d r).
  Proof. destruct l, r, op; simpl; intros; try discriminate; reflexivity. Qed.

  Theorem cmp_scalars_equality_str op x y :
    is_relational op = false ->
    compare_values d op (VStr x) (VStr y) = cmp_strs op x y.
  Proof. destruct op; simpl; intros; try discriminate; reflexivity. Qed.

  (** ** NaN is unequal to everything, itself included *)
  Theorem nan_compares_false op y :
    cmp_num op S754_nan y = match op with CNe => true | _ => false end /\
    cmp_num op y S754_nan = match op with CNe => true | _ => false end.
  Proof. destruct op, y; split; reflexivity. Qed.

  Theorem nan_neq_nan :
    compare_values d CEq (VNum S754_nan) (VNum S754_nan) = false /\
    compare_values d CNe (VNum S754_nan) (VNum S754_nan) = true.
  Proof. split; reflexivity. Qed.

  (** ** an empty node-set makes every comparison with a non-boolean false *)
  Theorem empty_nodeset_compares_false op v :
    is_bool v = false ->
    compare_values d op (VNodes []) v = false /\ compare_values d op v (VNodes []) = false.
  Proof.
    destruct v as [l| | |]; simpl; intros H; try discriminate; split; try reflexivity.
    induction l as [|x l IH]; simpl; [reflexivity|exact IH].
  Qed.

  (** ** converse operators *)
  Definition flip (op : cmpop) : cmpop :=
    match op with CEq => CEq | CNe => CNe | CLt => CGt | CLe => CGe | CGt => CLt | CGe => CLe end.

  Lemma cmp_num_flip op x y : cmp_num (flip op) y x = cmp_num op x y.
  Proof. destruct op; simpl; try reflexivity; now rewrite feqb_sym. Qed.

  Lemma str_eqb_sym a b : str_eqb a b = str_eqb b a.
  Proof.
    destruct (str_eqb a b) eqn:E1, (str_eqb b a) eqn:E2; try reflexivity.
    - apply str_eqb_spec in E1; subst. now rewrite str_eqb_refl in E2.
    - apply str_eqb_spec in E2; subst. now rewrite str_eqb_refl in E1.
  Qed.

  Lemma cmp_strs_flip op a b : cmp_strs (flip op) b a = cmp_strs op a b.
  Proof.
    destruct op; simpl; try (now rewrite str_eqb_sym);
      try apply (cmp_num_flip CLt); try apply (cmp_num_flip CLe);
      try apply (cmp_num_flip CGt); try apply (cmp_num_flip CGe).
  Qed.

  Lemma eqb_sym a b : Bool.eqb a b = Bool.eqb b a.
  Proof. destruct a, b; reflexivity. Qed.

  Lemma cmp_bools_flip op a b : cmp_bools (flip op) b a = cmp_bools op a b.
  Proof.
    destruct op; simpl; try (now rewrite eqb_sym);
      try apply (cmp_num_flip CLt); try apply (cmp_num_flip CLe);
      try apply (cmp_num_flip CGt); try apply (cmp_num_flip CGe).
  Qed.

  Lemma existsb_swap {A B} (f : A -> B -> bool) a b :
    existsb (fun x => existsb (fun y => f x y) b) a = existsb (fun y => existsb (fun x => f x y) a) b.
  Proof.
    destruct (existsb (fun x => existsb (fun y => f x y) b) a) eqn:E1; symmetry.
    - apply existsb_exists in E1 as (x & Hx & H). apply existsb_exists in H as (y & Hy & H).
      apply existsb_exists. exists y. split; [exact Hy|]. apply existsb_exists. eauto.
    - destruct (existsb (fun y => existsb (fun x => f x y) a) b) eqn:E2; [|reflexivity].
      apply existsb_exists in E2 as (y & Hy & H). apply existsb_exists in H as (x & Hx & H).
      assert (existsb (fun x => existsb (fun y => f x y) b) a = true); [|congruence].
      apply existsb_exists. exists x. split; [exact Hx|]. apply existsb_exists. eauto.
  Qed.

  Lemma existsb_ext {A} (f g : A -> bool) l : (forall x, f x = g x) -> existsb f l = existsb g l.
  Proof. intros H. induction l as [|x l IH]; simpl; [reflexivity|]. now rewrite H, IH. Qed.

  (** L < R iff R > L, L <= R iff R >= L, = and != are symmetric — for all operand values *)
  Theorem compare_flip op l r : compare_values d (flip op) r l = compare_values d op l r.
  Proof.
    destruct l as [a|x|x|x], r as [b|y|y|y]; cbn [compare_values].
    - rewrite existsb_swap. apply existsb_ext. intros x. apply existsb_ext. intros y. apply cmp_strs_flip.
    - apply existsb_ext. intros x. apply cmp_num_flip.
    - apply existsb_ext. intros x. apply cmp_strs_flip.
    - apply cmp_bools_flip.
    - apply existsb_ext. intros y'. apply cmp_num_flip.
    - destruct op; simpl; first [reflexivity | apply feqb_sym | (f_equal; apply feqb_sym) | apply eqb_sym | (f_equal; apply eqb_sym) | apply str_eqb_sym | (f_equal; apply str_eqb_sym)].
    - destruct op; simpl; first [reflexivity | apply feqb_sym | (f_equal; apply feqb_sym) | apply eqb_sym | (f_equal; apply eqb_sym) | apply str_eqb_sym | (f_equal; apply str_eqb_sym)].
    - destruct op; simpl; first [reflexivity | apply feqb_sym | (f_equal; apply feqb_sym) | apply eqb_sym | (f_equal; apply eqb_sym) | apply str_eqb_sym | (f_equal; apply str_eqb_sym)].
    - apply existsb_ext. intros y'. apply cmp_strs_flip.
    - destruct op; simpl; first [reflexivity | apply feqb_sym | (f_equal; apply feqb_sym) | apply eqb_sym | (f_equal; apply eqb_sym) | apply str_eqb_sym | (f_equal; apply str_eqb_sym)].
    - destruct op; simpl; first [reflexivity | apply feqb_sym | (f_equal; apply feqb_sym) | apply eqb_sym | (f_equal; apply eqb_sym) | apply str_eqb_sym | (f_equal; apply str_eqb_sym)].
    - destruct op; simpl; first [reflexivity | apply feqb_sym | (f_equal; apply feqb_sym) | apply eqb_sym | (f_equal; apply eqb_sym) | apply str_eqb_sym | (f_equal; apply str_eqb_sym)].
    - apply cmp_bools_flip.
    - destruct op; simpl; first [reflexivity | apply feqb_sym | (f_equal; apply feqb_sym) | apply eqb_sym | (f_equal; apply eqb_sym) | apply str_eqb_sym | (f_equal; apply str_eqb_sym)].
    - destruct op; simpl; first [reflexivity | apply feqb_sym | (f_equal; apply feqb_sym) | apply eqb_sym | (f_equal; apply eqb_sym) | apply str_eqb_sym | (f_equal; apply str_eqb_sym)].
    - destruct op; simpl; first [reflexivity | apply feqb_sym | (f_equal; apply feqb_sym) | apply eqb_sym | (f_equal; apply eqb_sym) | apply str_eqb_sym | (f_equal; apply str_eqb_sym)].
  Qed.

  Corollary lt_iff_gt l r : compare_values d CLt l r = compare_values d CGt r l.
  Proof. symmetry. apply (compare_flip CLt). Qed.
  Corollary le_iff_ge l r : compare_values d CLe l r = compare_values d CGe r l.
  Proof. symmetry. apply (compare_flip CLe). Qed.
  Corollary eq_symmetric l r : compare_values d CEq l r = compare_values d CEq r l.
  Proof. symmetry. apply (compare_flip CEq). Qed.
  Corollary ne_symmetric l r : compare_values d CNe l r = compare_values d CNe r l.
  Proof. symmetry. apply (compare_flip CNe). Qed.
End Cmp.
