(** C03, closing the loop with C10: every node an evaluation returns is a node of the
    document (given a valid cursor and valid bound node-sets), so for every tree the
    store builds, "sorted by Pos" IS "sorted in document order" and positions identify
    nodes: the hypotheses [pos_inj_on] of the union laws are discharged, and the
    results of steps, unions and filters are strictly ascending (descending after a
    reverse axis) for the order on nodes itself. *)
From Coq Require Import Sorting.Sorted Lia.
From XV Require Import Base.Str Base.Num Doc.Tree Doc.Store Doc.StoreThm Doc.Conform Doc.DocOrder Xp.Ast Xp.Nav Xp.Axes Xp.Values Xp.Funcs Xp.Eval
  Xp.SortThm Xp.NodeSetThm Xp.AxesSpec Xp.AxesThm Xp.EvalThm.
From Coq Require String.
Import String.StringSyntax.
Local Open Scope Z_scope.
Local Open Scope string_scope.

Lemma call_builtin_scalar en name args c l : call_builtin en name args c = Ok (VNodes l) -> False.
Proof.
  unfold call_builtin, name_fn. cbv zeta.
  repeat match goal with |- (if ?b then _ else _) = _ -> _ => destruct b end;
    intros H;
    repeat match type of H with
           | context [match ?a with _ => _ end] => destruct a; try discriminate H
           end; discriminate H.
Qed.

Section Valid.
  Variable en : env.
  Let d := e_doc en.
  Hypothesis Hord : doc_ordered d.

  (** a value all of whose nodes are nodes of the document *)
  Definition vok (v : value) : Prop :=
    match v with VNodes l => forall p, In p l -> valid d p = true | _ => True end.
  Definition cok (c : ctx) : Prop := forall p, In p (c_set c) -> valid d p = true.

  Hypothesis Hroot : valid d (e_root en) = true.
  Hypothesis Hvars : forall q v, assoc_q q (e_vars en) = Some v -> vok v.
  Hypothesis Hfuns : forall q v, assoc_q q (e_funs en) = Some (UConst v) -> vok v.

  Lemma eval_args_vok fs c vs : Forall (fun f => forall v, f c = Ok v -> vok v) fs ->
    eval_args fs c = Ok vs -> Forall vok vs.
  Proof.
    intros HF. revert vs. induction HF as [|f fs Hf _ IH]; simpl; intros vs H.
    - injection H as <-. constructor.
    - destruct (f c) as [v|] eqn:E; [|discriminate]. destruct (eval_args fs c) as [vs'|]; [|discriminate].
      injection H as <-. constructor; [now apply Hf|now apply IH].
  Qed.

  Lemma call_function_vok q args c v : cok c -> Forall vok args -> call_function en q args c = Ok v -> vok v.
  Proof.
    intros Hc Ha. unfold call_function. destruct (resolve_q en q) as [qn|]; [|discriminate].
    destruct (assoc_q qn (e_funs en)) as [f|] eqn:Ef.
    - destruct f; simpl.
      + destruct (nth_error args k) as [a|] eqn:En; [|discriminate]. intros [= <-].
        rewrite Forall_forall in Ha. apply Ha. eapply nth_error_In; eauto.
      + intros [= <-]. exact I.
      + intros [= <-]. exact Hc.
      + intros [= <-]. eapply Hfuns; eauto.
      + intros [= <-]. exact I.
    - destruct (q_space qn); [|discriminate]. intros H. destruct v; try exact I.
      now apply call_builtin_scalar in H.
  Qed.

  Lemma concat_res_vok (f : path -> res (list path)) l all :
    (forall p r, In p l -> f p = Ok r -> forall q, In q r -> valid d q = true) ->
    concat_res f l = Ok all -> forall q, In q all -> valid d q = true.
  Proof.
    revert all. induction l as [|x l IH]; simpl; intros all Hf H q Hq.
    - injection H as <-. destruct Hq.
    - destruct (f x) as [a|] eqn:Ea; [|discriminate]. destruct (concat_res f l) as [b|] eqn:Eb; [|discriminate].
      injection H as <-. apply in_app_iff in Hq. destruct Hq as [Hq|Hq].
      + eapply Hf; eauto.
      + eapply IH; eauto.
  Qed.

  Lemma axis_step_vok a t preds v v' : vok v -> axis_step en a t preds v = Ok v' -> vok v'.
  Proof.
    intros Hv. unfold axis_step. destruct v as [l| | |]; try discriminate.
    destruct (concat_res (step_from en a t preds) l) as [all|] eqn:E; [|discriminate].
    intros [= <-]. simpl.
    assert (Hall : forall q, In q all -> valid d q = true).
    { eapply concat_res_vok; [|exact E]. intros p r Hp Hr q Hq. unfold step_from in Hr.
      destruct (resolve_test en a t) as [rt|]; [|discriminate].
      eapply apply_preds_incl in Hq; [|exact Hr]. apply filter_In in Hq. destruct Hq as [Hq _].
      eapply (select_valid d Hord); [|exact Hq]. apply Hv. exact Hp. }
    intros q Hq. apply Hall. destruct l; [now apply cleanup_forward_incl in Hq|].
    destruct (axis_reverse a); [now apply cleanup_backward_incl in Hq|now apply cleanup_forward_incl in Hq].
  Qed.

  Lemma run_steps_vok fs c v v' : Forall (fun f => forall v v', vok v -> f c v = Ok v' -> vok v') fs ->
    vok v -> run_steps fs c v = Ok v' -> vok v'.
  Proof.
    intros HF. revert v. induction HF as [|f fs Hf _ IH]; simpl; intros v Hv H.
    - now injection H as <-.
    - destruct (f c v) as [v1|] eqn:E; [|discriminate]. eapply IH; [|exact H]. eapply Hf; eauto.
  Qed.

  Theorem eval_valid :
    (forall e c v, cok c -> eval en e c = Ok v -> vok v) /\
    (forall s c v v', cok c -> vok v -> eval_step en s c v = Ok v' -> vok v').
  Proof.
    apply expr_stp_ind.
    - intros a b _ _ c v _. simpl. destruct (eval en a c); [|discriminate]. destruct (eval en b c); [|discriminate]. now intros [= <-].
    - intros a b _ _ c v _. simpl. destruct (eval en a c); [|discriminate]. destruct (eval en b c); [|discriminate]. now intros [= <-].
    - intros op a b _ _ c v _. simpl. destruct (eval en a c); [|discriminate]. destruct (eval en b c); [|discriminate]. now intros [= <-].
    - intros op a b _ _ c v _. simpl. destruct (eval en a c); [|discriminate]. destruct (eval en b c); [|discriminate]. now intros [= <-].
    - intros a _ c v _. simpl. destruct (eval en a c); [|discriminate]. now intros [= <-].
    - (* union *) intros a b Ha Hb c v Hc. simpl.
      destruct (eval en a c) as [x|] eqn:Ea; [|discriminate]. destruct (eval en b c) as [y|] eqn:Eb; [|discriminate].
      destruct x as [l| | |]; try discriminate. destruct y as [r| | |]; try discriminate. intros [= <-]. simpl.
      intros p Hp. apply cleanup_forward_incl in Hp. apply in_app_iff in Hp.
      destruct Hp; [eapply (Ha c _ Hc Ea)|eapply (Hb c _ Hc Eb)]; assumption.
    - intros s c v _ [= <-]. exact I.
    - intros s c v _ [= <-]. exact I.
    - (* variable *) intros q c v _. simpl. destruct (resolve_q en q) as [qn|]; [|discriminate].
      destruct (assoc_q qn (e_vars en)) eqn:E; [|discriminate]. intros [= <-]. eapply Hvars; eauto.
    - (* call *) intros q args Hargs c v Hc. simpl.
      destruct (eval_args (map (fun a => eval en a) args) c) as [vs|] eqn:E; [|discriminate].
      apply call_function_vok; [exact Hc|]. eapply eval_args_vok; [|exact E].
      apply Forall_map. eapply Forall_impl; [|exact Hargs]. intros a Ha v0 Hv0. eapply Ha; eauto.
    - (* path *) intros abs steps Hsteps c v Hc. simpl. apply run_steps_vok.
      + apply Forall_map. eapply Forall_impl; [|exact Hsteps]. intros s Hs v0 v1 Hv0 Hv1. eapply Hs; eauto.
      + simpl. destruct abs; [intros p [<-|[]]; exact Hroot|exact Hc].
    - (* filter *) intros e0 preds steps He0 _ Hsteps c v Hc. simpl.
      destruct (eval en e0 c) as [v0|] eqn:E0; [|discriminate]. pose proof (He0 c v0 Hc E0) as Hv0.
      assert (Hrun : forall v1 v2, vok v1 -> run_steps (map (fun s => eval_step en s) steps) c v1 = Ok v2 -> vok v2).
      { intros v1 v2 H1. apply run_steps_vok; [|exact H1].
        apply Forall_map. eapply Forall_impl; [|exact Hsteps]. intros s Hs va vb Hva Hvb. eapply Hs; eauto. }
      destruct preds as [|p ps].
      + destruct steps as [|s ss]; [now intros [= <-]|]. destruct v0; try discriminate. now apply Hrun.
      + destruct v0 as [l| | |]; try discriminate.
        destruct (apply_preds en (map (fun p0 => eval en p0) (p :: ps)) (cleanup_forward (e_doc en) l)) as [l'|] eqn:Ep; [|discriminate].
        assert (Hl' : vok (VNodes l')).
        { intros q Hq. eapply apply_preds_incl in Hq; [|exact Ep]. apply cleanup_forward_incl in Hq. now apply Hv0. }
        destruct steps as [|s ss]; [now intros [= <-]|]. now apply Hrun.
    - (* axis step *) intros a t preds _ c v v' _ Hv. simpl. now apply axis_step_vok.
    - (* call step *) intros q args Hargs c v v' Hc Hv. simpl. destruct v as [l| | |]; try discriminate.
      destruct (eval_args (map (fun a => eval en a) args) (Ctx l (c_pos c) (c_size c))) as [vs|] eqn:E; [|discriminate].
      apply call_function_vok; [exact Hv|]. eapply eval_args_vok; [|exact E].
      apply Forall_map. eapply Forall_impl; [|exact Hargs]. intros a Ha v0 Hv0. eapply Ha; [|exact Hv0]. exact Hv.
  Qed.

  (** ** consequences: Pos order is document order on everything an evaluation returns *)
  Lemma sorted_transfer (R S : path -> path -> Prop) l :
    (forall x y, In x l -> In y l -> R x y -> S x y) -> StronglySorted R l -> StronglySorted S l.
  Proof.
    intros HRS H. induction H as [|x l H IH Hx]; constructor.
    - apply IH. intros; apply HRS; simpl; auto.
    - rewrite Forall_forall in *. intros y Hy. apply HRS; simpl; auto.
  Qed.

  Lemma pos_lt_is_plt l : (forall p, In p l -> valid d p = true) ->
    StronglySorted (pos_lt d) l -> StronglySorted plt l.
  Proof.
    intros Hv. apply sorted_transfer. intros x y Hx Hy H. apply (pos_reflects d); auto.
  Qed.
  Lemma pos_gt_is_plt_rev l : (forall p, In p l -> valid d p = true) ->
    StronglySorted (pos_gt d) l -> StronglySorted (fun x y => plt y x) l.
  Proof.
    intros Hv. apply sorted_transfer. intros x y Hx Hy H. unfold pos_gt in H. apply (pos_reflects d); auto. lia.
  Qed.

  (** a location path ending in an axis step returns its nodes strictly ascending in
      DOCUMENT order, strictly descending after a reverse axis; each node once *)
  Theorem path_result_document_order abs steps a t preds c l : cok c ->
    eval en (EPath abs (steps ++ [SAxis a t preds])) c = Ok (VNodes l) ->
    (forall p, In p l -> valid d p = true) /\
    if axis_reverse a then StronglySorted (fun x y => plt y x) l else StronglySorted plt l.
  Proof.
    intros Hc H. pose proof (proj1 eval_valid _ _ _ Hc H) as Hv. split; [exact Hv|].
    pose proof (path_result_monotone en abs steps a t preds c l H) as Hs.
    destruct (axis_reverse a); [now apply pos_gt_is_plt_rev|now apply pos_lt_is_plt].
  Qed.

  Theorem union_document_order a b c l : cok c -> eval en (EUnion a b) c = Ok (VNodes l) ->
    (forall p, In p l -> valid d p = true) /\ StronglySorted plt l /\ NoDup l.
  Proof.
    intros Hc H. pose proof (proj1 eval_valid _ _ _ Hc H) as Hv.
    destruct (eval_union_ascending en a b c l H) as [Hs Hn]. repeat split; [exact Hv| |exact Hn].
    now apply pos_lt_is_plt.
  Qed.

  Theorem filter_document_order e0 p preds c l : cok c ->
    eval en (EFilter e0 (p :: preds) []) c = Ok (VNodes l) ->
    (forall q, In q l -> valid d q = true) /\ StronglySorted plt l.
  Proof.
    intros Hc H. pose proof (proj1 eval_valid _ _ _ Hc H) as Hv. split; [exact Hv|].
    apply pos_lt_is_plt; [exact Hv|]. eapply filter_result_ascending; eauto.
  Qed.

  (** the union laws for evaluated operands, with no hypothesis left about positions *)
  Lemma vok_inj l r : vok (VNodes l) -> vok (VNodes r) -> pos_inj_on d (l ++ r).
  Proof.
    intros Hl Hr. apply (pos_inj_on_valid d Hord). intros q Hq. apply in_app_iff in Hq. destruct Hq; auto.
  Qed.

  Theorem eval_union_commutative a b c : cok c -> eval en (EUnion a b) c = eval en (EUnion b a) c.
  Proof.
    intros Hc. simpl.
    destruct (eval en a c) as [x|] eqn:Ea; destruct (eval en b c) as [y|] eqn:Eb; try reflexivity.
    destruct x as [l| | |], y as [r| | |]; try reflexivity.
    fold d. f_equal. f_equal. apply (union_comm d).
    apply vok_inj; [exact (proj1 eval_valid _ _ _ Hc Ea)|exact (proj1 eval_valid _ _ _ Hc Eb)].
  Qed.

  Theorem eval_union_associative a b e c : cok c ->
    eval en (EUnion (EUnion a b) e) c = eval en (EUnion a (EUnion b e)) c.
  Proof.
    intros Hc. cbn [eval].
    destruct (eval en a c) as [x|] eqn:Ea; [|reflexivity].
    destruct (eval en b c) as [y|] eqn:Eb; [|destruct x; reflexivity].
    destruct (eval en e c) as [z|] eqn:Ee.
    2:{ destruct x, y; reflexivity. }
    destruct x as [l| | |], y as [r| | |]; try reflexivity; try (destruct z; reflexivity).
    destruct z as [t| | |]; try reflexivity.
    fold d. f_equal. f_equal. apply (union_assoc d).
    pose proof (proj1 eval_valid _ _ _ Hc Ea) as Hl. pose proof (proj1 eval_valid _ _ _ Hc Eb) as Hr.
    pose proof (proj1 eval_valid _ _ _ Hc Ee) as Ht.
    apply (pos_inj_on_valid d Hord). intros q Hq. rewrite !in_app_iff in Hq. destruct Hq as [|[|]]; auto.
  Qed.

  (** [A | A] has exactly the nodes of [A], in document order *)
  Theorem eval_union_idempotent a c l : cok c -> eval en a c = Ok (VNodes l) ->
    exists l', eval en (EUnion a a) c = Ok (VNodes l') /\ StronglySorted plt l' /\ (forall p, In p l' <-> In p l).
  Proof.
    intros Hc Ha. pose proof (proj1 eval_valid _ _ _ Hc Ha) as Hl. simpl. rewrite Ha. eexists. split; [reflexivity|].
    fold d. split.
    - apply pos_lt_is_plt; [|apply cleanup_forward_sorted].
      intros p Hp. apply cleanup_forward_incl in Hp. apply in_app_iff in Hp. destruct Hp; auto.
    - intros p. change (cleanup_forward d (l ++ l)) with (union d l l). rewrite (union_mem d) by (now apply vok_inj). tauto.
  Qed.
End Valid.

(** ** for every tree the store builds *)
Theorem built_results_in_document_order evs en abs steps a t preds c l :
  conforming store_init evs -> e_doc en = build evs ->
  valid (e_doc en) (e_root en) = true ->
  (forall q v, assoc_q q (e_vars en) = Some v -> vok en v) ->
  (forall q v, assoc_q q (e_funs en) = Some (UConst v) -> vok en v) ->
  cok en c ->
  eval en (EPath abs (steps ++ [SAxis a t preds])) c = Ok (VNodes l) ->
  (forall p, In p l -> valid (e_doc en) p = true) /\
  if axis_reverse a then StronglySorted (fun x y => plt y x) l else StronglySorted plt l.
Proof.
  intros Hconf Hd Hroot Hvars Hfuns Hc H. eapply path_result_document_order; eauto.
  rewrite Hd. now apply built_doc_ordered.
Qed.

(** non-vacuity: Exec's own context on a built document meets the hypotheses *)
Lemma exec_context_ok en : valid (e_doc en) (e_root en) = true -> cok en (Ctx [e_root en] 1 1).
Proof. intros H p [<-|[]]. exact H. Qed.
