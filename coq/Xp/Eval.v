(** Model of the evaluator (exec/contextfn*.go, exec/exec.go, exec/function.go
    dispatch): structurally recursive over the AST, no fuel. *)
From XV Require Import Base.Str Base.Num Doc.Tree Xp.Ast Xp.Nav Xp.Axes Xp.Values Xp.Funcs.
From Coq Require String.
Import String.StringSyntax.
Local Open Scope Z_scope.
Local Open Scope string_scope.

(** behaviours of the instrumented user functions the harness registers *)
Inductive ufun :=
| UArg (k : nat)          (* returns its k-th argument unchanged *)
| UCtxPos                 (* returns Context.ContextPosition()+1 as a number *)
| UCtxNodes               (* returns Context.Result() *)
| UConst (v : value)      (* returns a constant *)
| UArgCount.              (* returns the number of arguments *)

Record env := Env {
  e_doc : anode;
  e_root : path;                        (* the cursor Exec was called with *)
  e_ns : list (str * str);              (* prefix -> URI *)
  e_vars : list (qname * value);
  e_funs : list (qname * ufun);
  (** [true]: evaluate with the literal transcription of the one defect that stays
      open (round() sends negative ties away from zero); used ONLY by the
      correspondence check to recognise that known finding. The theorems and the
      default comparison use [false], the property-conformant round(). *)
  e_asis : bool
}.

Record ctx := Ctx {
  c_set : list path;                    (* Context.Result(), a node-set *)
  c_pos : Z;                            (* 1-based *)
  c_size : Z
}.

Fixpoint assoc_str {A} (k : str) (l : list (str * A)) : option A :=
  match l with
  | [] => None
  | (k', v) :: r => if str_eqb k k' then Some v else assoc_str k r
  end.

Fixpoint assoc_q {A} (k : qname) (l : list (qname * A)) : option A :=
  match l with
  | [] => None
  | (k', v) :: r => if qname_eqb k k' then Some v else assoc_q k r
  end.

Definition resolve_q (en : env) (q : rawq) : res qname :=
  match q with
  | (None, l) => Ok (QN [] l)
  | (Some p, l) => match assoc_str p (e_ns en) with
                   | Some u => Ok (QN u l)
                   | None => Err
                   end
  end.

(** ** node tests *)

Inductive principal := PElem | PAttr | PNs.
Definition principal_of (a : axis) : principal :=
  match a with Attribute => PAttr | Namespace => PNs | _ => PElem end.

Definition named_principal (pr : principal) (p : path) (it : item) : option qname :=
  match pr, it with
  | PAttr, IAt a => Some (at_name a)
  | PElem, ITree (AElem _ nm _ _ _) => match p with [] => None | _ => Some nm end
  | _, _ => None
  end.

(** a node test whose prefix has been resolved through the query's bindings *)
Inductive rtest :=
| RNode | RText | RComment | RPI
| RPITarget (t : str)
| RAny
| RNsAny (uri : str)
| RLocalAny (local : str)
| RQName (uri local : str)
| RName (local : str)
| RNsValue (uri : str).   (* namespace::q, the library's own rule: namespace nodes whose VALUE is the URI the query binds q to *)

(** Err on an unbound prefix: the handler looks the prefix up before it looks at
    any candidate node *)
Definition resolve_test (en : env) (a : axis) (t : nodetest) : res rtest :=
  match t with
  | NTNode => Ok RNode
  | NTText => Ok RText
  | NTComment => Ok RComment
  | NTPI => Ok RPI
  | NTPITarget tg => Ok (RPITarget tg)
  | NTAny => Ok RAny
  | NTNsAny pf => match assoc_str pf (e_ns en) with Some u => Ok (RNsAny u) | None => Err end
  | NTLocalAny l => Ok (RLocalAny l)
  | NTQName pf l => match assoc_str pf (e_ns en) with Some u => Ok (RQName u l) | None => Err end
  | NTName l =>
      match a with
      | Namespace =>
          (* outside XPath 1.0 (which compares the prefix): the unprefixed name is looked up in the
             query's bindings like a prefix; unbound means the empty URI *)
          Ok (RNsValue (match assoc_str l (e_ns en) with Some u => u | None => [] end))
      | _ => Ok (RName l)
      end
  end.

(** [test_node] : does the candidate pass the (resolved) node test? *)
Definition test_node (d : anode) (pr : principal) (t : rtest) (p : path) : bool :=
  match lookup d p with
  | None => false
  | Some it =>
      let k := item_kind p it in
      match t with
      | RNode => true
      | RText => match k with KText => true | _ => false end
      | RComment => match k with KComment => true | _ => false end
      | RPI => match k with KPI => true | _ => false end
      | RPITarget tg =>
          match it with ITree (ALeaf _ (LPI t' _)) => str_eqb t' tg | _ => false end
      | RAny =>
          match named_principal pr p it with
          | Some _ => true
          | None => match pr, it with PNs, INs _ => true | _, _ => false end
          end
      | RNsAny u =>
          match named_principal pr p it with
          | Some nm => str_eqb (q_space nm) u
          | None => false
          end
      | RLocalAny l =>
          match named_principal pr p it with
          | Some nm => str_eqb (q_local nm) l
          | None => false
          end
      | RQName u l =>
          match named_principal pr p it with
          | Some nm => str_eqb (q_local nm) l && str_eqb (q_space nm) u
          | None => false
          end
      | RName l =>
          match named_principal pr p it with
          | Some nm => str_eqb (q_space nm) [] && str_eqb (q_local nm) l
          | None => false
          end
      | RNsValue u =>
          match pr, it with PNs, INs a => str_eqb (ns_uri a) u | _, _ => false end
      end
  end.

Fixpoint filter_res {A} (f : A -> res bool) (l : list A) : res (list A) :=
  match l with
  | [] => Ok []
  | x :: r => match f x with
              | Err => Err
              | Ok b => match filter_res f r with
                        | Err => Err
                        | Ok r' => Ok (if b then x :: r' else r')
                        end
              end
  end.

(** ** predicates (execPredicate) *)

Definition pred_keeps (en : env) (i : Z) (v : value) : bool :=
  match v with
  | VNum x => feqb (f_of_Z i) x
  | _ => to_bool v
  end.

Fixpoint filter_pred (en : env) (f : ctx -> res value) (size i : Z) (l : list path)
  : res (list path) :=
  match l with
  | [] => Ok []
  | p :: r =>
      match f (Ctx [p] i size) with
      | Err => Err
      | Ok v => match filter_pred en f size (i + 1) r with
                | Err => Err
                | Ok r' => Ok (if pred_keeps en i v then p :: r' else r')
                end
      end
  end.

Fixpoint apply_preds (en : env) (fs : list (ctx -> res value)) (l : list path)
  : res (list path) :=
  match fs with
  | [] => Ok l
  | f :: r => match filter_pred en f (Z.of_nat (length l)) 1 l with
              | Err => Err
              | Ok l' => apply_preds en r l'
              end
  end.

(** ** comparisons (exec/contextfn_comparisons.go) *)

Definition cmp_num (op : cmpop) (x y : fl) : bool :=
  match op with
  | CEq => feqb x y
  | CNe => negb (feqb x y)
  | CLt => fltb x y
  | CLe => fleb x y
  | CGt => fltb y x
  | CGe => fleb y x
  end.

Definition is_relational (op : cmpop) : bool :=
  match op with CEq | CNe => false | _ => true end.

(** two strings: equality compares strings, the relational operators numbers *)
Definition cmp_strs (op : cmpop) (a b : str) : bool :=
  match op with
  | CEq => str_eqb a b
  | CNe => negb (str_eqb a b)
  | _ => cmp_num op (str_to_num a) (str_to_num b)
  end.

Definition cmp_bools (op : cmpop) (a b : bool) : bool :=
  match op with
  | CEq => Bool.eqb a b
  | CNe => negb (Bool.eqb a b)
  | _ => cmp_num op (if a then fone else fzero) (if b then fone else fzero)
  end.

Definition compare_values (d : anode) (op : cmpop) (l r : value) : bool :=
  let sv := string_value d in
  match l, r with
  | VNodes a, VNodes b => existsb (fun x => existsb (fun y => cmp_strs op (sv x) (sv y)) b) a
  | VNum x, VNodes b => existsb (fun y => cmp_num op x (str_to_num (sv y))) b
  | VNodes a, VNum y => existsb (fun x => cmp_num op (str_to_num (sv x)) y) a
  | VStr x, VNodes b => existsb (fun y => cmp_strs op x (sv y)) b
  | VNodes a, VStr y => existsb (fun x => cmp_strs op (sv x) y) a
  | VBool x, VNodes b => cmp_bools op x (to_bool r)
  | VNodes a, VBool y => cmp_bools op (to_bool l) y
  | _, _ =>
      if is_relational op then cmp_num op (to_num d l) (to_num d r)
      else match l, r with
           | VBool _, _ | _, VBool _ => cmp_bools op (to_bool l) (to_bool r)
           | VNum _, _ | _, VNum _ => cmp_num op (to_num d l) (to_num d r)
           | _, _ => cmp_strs op (to_str d l) (to_str d r)
           end
  end.

Definition arith (op : arop) (x y : fl) : fl :=
  match op with
  | AAdd => fadd x y
  | ASub => fsub x y
  | AMul => fmul x y
  | ADiv => fdiv x y
  | AMod => f_fmod x y
  end.

(** ** builtin functions (exec/function.go) *)

Definition nodes_arg (v : value) : res (list path) :=
  match v with VNodes l => Ok l | _ => Err end.

Definition name_fn (d : anode) (part : name_part) (l : list path) : value :=
  match first_node d l with
  | None => VStr []
  | Some p => VStr (name_of d part p)
  end.

Definition call_builtin (en : env) (name : str) (args : list value) (c : ctx) : res value :=
  let d := e_doc en in
  let is n := str_eqb name (lit n) in
  let cv := VNodes (c_set c) in
  if is "last" then Ok (VNum (f_of_Z (c_size c)))
  else if is "position" then Ok (VNum (f_of_Z (c_pos c)))
  else if is "count" then
    match args with [VNodes l] => Ok (VNum (f_of_Z (Z.of_nat (length l)))) | _ => Err end
  else if is "local-name" then
    match args with [] => Ok (name_fn d LocalOnly (c_set c))
               | [VNodes l] => Ok (name_fn d LocalOnly l) | _ => Err end
  else if is "namespace-uri" then
    match args with [] => Ok (name_fn d NamespaceOnly (c_set c))
               | [VNodes l] => Ok (name_fn d NamespaceOnly l) | _ => Err end
  else if is "name" then
    match args with [] => Ok (name_fn d LocalAndNamespace (c_set c))
               | [VNodes l] => Ok (name_fn d LocalAndNamespace l) | _ => Err end
  else if is "string" then
    match args with [] => Ok (VStr (to_str d cv)) | [a] => Ok (VStr (to_str d a)) | _ => Err end
  else if is "concat" then Ok (VStr (flat_map (to_str d) args))
  else if is "starts-with" then
    match args with [a; b] => Ok (VBool (fn_starts_with (to_str d a) (to_str d b))) | _ => Err end
  else if is "contains" then
    match args with [a; b] => Ok (VBool (fn_contains (to_str d a) (to_str d b))) | _ => Err end
  else if is "substring-before" then
    match args with [a; b] => Ok (VStr (fn_substring_before (to_str d a) (to_str d b))) | _ => Err end
  else if is "substring-after" then
    match args with [a; b] => Ok (VStr (fn_substring_after (to_str d a) (to_str d b))) | _ => Err end
  else if is "substring" then
    match args with
    | [a; b] => Ok (VStr (fn_substring (to_str d a) (to_num d b) None))
    | [a; b; l] => Ok (VStr (fn_substring (to_str d a) (to_num d b) (Some (to_num d l))))
    | _ => Err
    end
  else if is "string-length" then
    match args with [] => Ok (VNum (fn_string_length (to_str d cv)))
               | [a] => Ok (VNum (fn_string_length (to_str d a))) | _ => Err end
  else if is "normalize-space" then
    match args with [] => Ok (VStr (fn_normalize_space (to_str d cv)))
               | [a] => Ok (VStr (fn_normalize_space (to_str d a))) | _ => Err end
  else if is "translate" then
    match args with
    | [a; b; t] => Ok (VStr (fn_translate (to_str d a) (to_str d b) (to_str d t)))
    | _ => Err
    end
  else if is "boolean" then
    match args with [a] => Ok (VBool (to_bool a)) | _ => Err end
  else if is "not" then
    match args with [a] => Ok (VBool (negb (to_bool a))) | _ => Err end
  else if is "true" then match args with [] => Ok (VBool true) | _ => Err end
  else if is "false" then match args with [] => Ok (VBool false) | _ => Err end
  else if is "lang" then
    match args with [a] => Ok (VBool (fn_lang d (to_str d a) (c_set c))) | _ => Err end
  else if is "number" then
    match args with [] => Ok (VNum (to_num d cv)) | [a] => Ok (VNum (to_num d a)) | _ => Err end
  else if is "sum" then
    match args with
    | [VNodes l] => Ok (VNum (fold_left (fun acc p => fadd acc (str_to_num (string_value d p))) l fzero))
    | _ => Err
    end
  else if is "floor" then
    match args with [a] => Ok (VNum (f_floor (to_num d a))) | _ => Err end
  else if is "ceiling" then
    match args with [a] => Ok (VNum (f_ceil (to_num d a))) | _ => Err end
  else if is "round" then
    match args with
    | [a] => Ok (VNum ((if e_asis en then f_round_go else f_round_xpath) (to_num d a)))
    | _ => Err
    end
  else Err.

Definition call_ufun (f : ufun) (args : list value) (c : ctx) : res value :=
  match f with
  | UArg k => match nth_error args k with Some v => Ok v | None => Err end
  | UCtxPos => Ok (VNum (f_of_Z (c_pos c)))
  | UCtxNodes => Ok (VNodes (c_set c))
  | UConst v => Ok v
  | UArgCount => Ok (VNum (f_of_Z (Z.of_nat (length args))))
  end.

(** execFunctionCall after the arguments have been evaluated *)
Definition call_function (en : env) (q : rawq) (args : list value) (c : ctx) : res value :=
  match resolve_q en q with
  | Err => Err
  | Ok qn =>
      match assoc_q qn (e_funs en) with
      | Some f => call_ufun f args c
      | None => match q_space qn with
                | [] => call_builtin en (q_local qn) args c
                | _ => Err
                end
      end
  end.

Fixpoint eval_args (fs : list (ctx -> res value)) (c : ctx) : res (list value) :=
  match fs with
  | [] => Ok []
  | f :: r => match f c with
              | Err => Err
              | Ok v => match eval_args r c with
                        | Err => Err
                        | Ok vs => Ok (v :: vs)
                        end
              end
  end.

(** ** steps *)

(** one axis step from one context node: candidates in axis order, node test, predicates *)
Definition step_from (en : env) (a : axis) (t : nodetest) (preds : list (ctx -> res value))
           (p : path) : res (list path) :=
  match resolve_test en a t with
  | Err => Err
  | Ok rt =>
      apply_preds en preds
                  (filter (test_node (e_doc en) (principal_of a) rt) (select (e_doc en) a [p]))
  end.

Fixpoint concat_res {A} (f : A -> res (list path)) (l : list A) : res (list path) :=
  match l with
  | [] => Ok []
  | x :: r => match f x with
              | Err => Err
              | Ok a => match concat_res f r with
                        | Err => Err
                        | Ok b => Ok (a ++ b)
                        end
              end
  end.

(** execStep for an axis step over the whole context node-set *)
Definition axis_step (en : env) (a : axis) (t : nodetest) (preds : list (ctx -> res value))
           (input : value) : res value :=
  match input with
  | VNodes l =>
      match concat_res (step_from en a t preds) l with
      | Err => Err
      | Ok all =>
          Ok (VNodes (match l with
                      | [] => cleanup_forward (e_doc en) all
                      | _ => if axis_reverse a then cleanup_backward (e_doc en) all
                             else cleanup_forward (e_doc en) all
                      end))
      end
  | _ => Err
  end.

(** a step maps the current value (threaded through the path) to the next one;
    it also sees the enclosing context (position, size) for function-call steps *)
Definition stepf := ctx -> value -> res value.

Fixpoint run_steps (fs : list stepf) (c : ctx) (v : value) : res value :=
  match fs with
  | [] => Ok v
  | f :: r => match f c v with
              | Err => Err
              | Ok v' => run_steps r c v'
              end
  end.

Fixpoint eval (en : env) (e : expr) (c : ctx) {struct e} : res value :=
  let d := e_doc en in
  match e with
  | EOr a b =>
      match eval en a c with
      | Err => Err
      | Ok x => match eval en b c with
                | Err => Err
                | Ok y => Ok (VBool (to_bool x || to_bool y))
                end
      end
  | EAnd a b =>
      match eval en a c with
      | Err => Err
      | Ok x => match eval en b c with
                | Err => Err
                | Ok y => Ok (VBool (to_bool x && to_bool y))
                end
      end
  | ECmp op a b =>
      match eval en a c with
      | Err => Err
      | Ok x => match eval en b c with
                | Err => Err
                | Ok y => Ok (VBool (compare_values d op x y))
                end
      end
  | EArith op a b =>
      match eval en a c with
      | Err => Err
      | Ok x => match eval en b c with
                | Err => Err
                | Ok y => Ok (VNum (arith op (to_num d x) (to_num d y)))
                end
      end
  | ENeg a =>
      match eval en a c with
      | Err => Err
      | Ok x => Ok (VNum (fopp (to_num d x)))
      end
  | EUnion a b =>
      match eval en a c with
      | Err => Err
      | Ok x => match eval en b c with
                | Err => Err
                | Ok y => match x, y with
                          | VNodes l, VNodes r => Ok (VNodes (cleanup_forward d (l ++ r)))
                          | _, _ => Err
                          end
                end
      end
  | ELit v => Ok (VStr v)
  | ENum t => Ok (VNum (str_to_num t))
  | EVar q =>
      match resolve_q en q with
      | Err => Err
      | Ok qn => match assoc_q qn (e_vars en) with Some v => Ok v | None => Err end
      end
  | ECall q args =>
      match eval_args (map (fun a => eval en a) args) c with
      | Err => Err
      | Ok vs => call_function en q vs c
      end
  | EPath abs steps =>
      run_steps (map (fun s => eval_step en s) steps) c
                (VNodes (if abs then [e_root en] else c_set c))
  | EFilter e0 preds steps =>
      match eval en e0 c with
      | Err => Err
      | Ok v0 =>
          let filtered :=
            match preds with
            | [] => Ok v0
            | _ => match v0 with
                   | VNodes l =>
                       match apply_preds en (map (fun p => eval en p) preds)
                                         (cleanup_forward d l) with
                       | Err => Err
                       | Ok l' => Ok (VNodes l')
                       end
                   | _ => Err
                   end
            end in
          match filtered with
          | Err => Err
          | Ok v1 =>
              match steps with
              | [] => Ok v1
              | _ => match v1 with
                     | VNodes _ => run_steps (map (fun s => eval_step en s) steps) c v1
                     | _ => Err
                     end
              end
          end
      end
  end
with eval_step (en : env) (s : stp) {struct s} : stepf :=
  match s with
  | SAxis a t preds =>
      fun _ v => axis_step en a t (map (fun p => eval en p) preds) v
  | SCall q args =>
      fun c v =>
        match v with
        | VNodes l =>
            let c' := Ctx l (c_pos c) (c_size c) in
            match eval_args (map (fun a => eval en a) args) c' with
            | Err => Err
            | Ok vs => call_function en q vs c'
            end
        | _ => Err
        end
  end.

(** Exec(cursor, expr, settings...) *)
Definition exec (en : env) (e : expr) : res value :=
  eval en e (Ctx [e_root en] 1 1).
