(** Document order on node paths vs. the positions the store assigns.
    For a tree whose positions increase along the document-order listing [flat]
    (which C10 proves of every tree built from a conforming stream), [Pos] is
    strictly monotone for [path_ltb] on valid paths: positions identify nodes and
    sorting on them is sorting in document order. This is the bridge between C10
    and the evaluator theorems (C01, C03, C18). *)
From Coq Require Import Sorting.Sorted Lia.
From XV Require Import Base.Str Doc.Tree Doc.Store Doc.StoreThm Xp.Nav.
Local Open Scope Z_scope.

(** ** nested induction over annotated trees *)
Section anode_ind.
  Variable P : anode -> Prop.
  Hypothesis Hleaf : forall p l, P (ALeaf p l).
  Hypothesis Helem : forall p nm nss ats kids, Forall P kids -> P (AElem p nm nss ats kids).
  Fixpoint anode_ind' (n : anode) : P n :=
    match n with
    | ALeaf p l => Hleaf p l
    | AElem p nm nss ats kids =>
        Helem p nm nss ats kids
          ((fix go (l : list anode) : Forall P l :=
              match l with
              | [] => Forall_nil P
              | k :: r => Forall_cons k (anode_ind' k) (go r)
              end) kids)
    end.
End anode_ind.

(** ** the order on paths *)
Definition plt (p q : path) : Prop := path_ltb p q = true.

Lemma step_eqb_refl a : step_eqb a a = true.
Proof. now apply step_eqb_spec. Qed.

Lemma step_ltb_irrefl a : step_ltb a a = false.
Proof. destruct a; simpl; apply Nat.ltb_irrefl. Qed.

Lemma step_ltb_asym a b : step_ltb a b = true -> step_ltb b a = false.
Proof.
  destruct a, b; simpl; intros H; try reflexivity; try discriminate;
    apply Nat.ltb_lt in H; apply Nat.ltb_ge; lia.
Qed.

Lemma step_tricho a b : a = b \/ step_ltb a b = true \/ step_ltb b a = true.
Proof.
  destruct a as [i|i|i], b as [j|j|j]; simpl; auto;
    destruct (Nat.lt_trichotomy i j) as [H|[H|H]];
    try (subst; now left);
    try (right; left; now apply Nat.ltb_lt);
    try (right; right; now apply Nat.ltb_lt).
Qed.

Lemma step_eqb_sym a b : step_eqb a b = step_eqb b a.
Proof. destruct a, b; simpl; try reflexivity; apply Nat.eqb_sym. Qed.

Lemma path_ltb_irrefl p : path_ltb p p = false.
Proof. induction p as [|a p IH]; simpl; [reflexivity|]. now rewrite step_eqb_refl. Qed.

Lemma path_ltb_asym p q : path_ltb p q = true -> path_ltb q p = false.
Proof.
  revert q; induction p as [|a p IH]; intros [|b q]; simpl; intros H; try reflexivity; try discriminate.
  rewrite (step_eqb_sym b a). destruct (step_eqb a b); [now apply IH|now apply step_ltb_asym].
Qed.

Lemma path_tricho p q : p = q \/ path_ltb p q = true \/ path_ltb q p = true.
Proof.
  revert q; induction p as [|a p IH]; intros [|b q]; simpl; auto.
  rewrite (step_eqb_sym b a). destruct (step_eqb a b) eqn:E.
  - apply step_eqb_spec in E; subst b. destruct (IH q) as [->|[H|H]]; auto.
  - destruct (step_tricho a b) as [->|[H|H]]; auto.
    rewrite step_eqb_refl in E; discriminate.
Qed.

Lemma path_ltb_cons a p q : path_ltb (a :: p) (a :: q) = path_ltb p q.
Proof. simpl. now rewrite step_eqb_refl. Qed.

Lemma path_ltb_trans p q r : path_ltb p q = true -> path_ltb q r = true -> path_ltb p r = true.
Proof.
  revert q r; induction p as [|a p IH]; intros [|b q] [|c r]; simpl; try discriminate; auto.
  destruct (step_eqb a b) eqn:Eab.
  - apply step_eqb_spec in Eab; subst b. destruct (step_eqb a c); eauto.
  - destruct (step_eqb b c) eqn:Ebc.
    + apply step_eqb_spec in Ebc; subst c. rewrite Eab. auto.
    + intros H1 H2.
      assert (Hac : step_ltb a c = true).
      { destruct a as [i|i|i], b as [j|j|j], c as [k|k|k]; simpl in *; try discriminate; try reflexivity;
          apply Nat.ltb_lt in H1; apply Nat.ltb_lt in H2; apply Nat.ltb_lt; lia. }
      destruct (step_eqb a c) eqn:Eac; [|exact Hac].
      apply step_eqb_spec in Eac; subst c. rewrite step_ltb_irrefl in Hac. discriminate.
Qed.

(** a proper prefix comes first: an element precedes everything inside it *)
Lemma plt_prefix p r : r <> [] -> plt p (p ++ r).
Proof.
  unfold plt. induction p as [|a p IH]; simpl; intros H.
  - destruct r; [congruence|reflexivity].
  - rewrite step_eqb_refl. now apply IH.
Qed.

(** ** the document-order listing of all paths of a subtree (relative paths) *)
Section KidsRel.
  Variable f : anode -> list path.
  Fixpoint kids_rel (i : nat) (l : list anode) : list path :=
    match l with
    | [] => []
    | k :: r => map (cons (SCh i)) (f k) ++ kids_rel (S i) r
    end.
End KidsRel.

Fixpoint all_rel (n : anode) : list path :=
  match n with
  | AElem _ _ nss ats kids =>
      [] :: map (fun i => [SNs i]) (seq 0 (length nss))
         ++ map (fun i => [SAt i]) (seq 0 (length ats))
         ++ kids_rel all_rel 0 kids
  | ALeaf _ _ => [[]]
  end.

Definition pos_rel (n : anode) (r : path) : Z :=
  match lookup n r with Some it => item_pos it | None => -1 end.

Lemma pos_of_rel d p : pos_of d p = pos_rel d p.
Proof. reflexivity. Qed.

Lemma map_nth_seq {A B} (h : A -> B) (g : nat -> B) (l : list A) :
  (forall i a, nth_error l i = Some a -> g i = h a) ->
  map g (seq 0 (length l)) = map h l.
Proof.
  revert g; induction l as [|a l IH]; intros g Hg; simpl; [reflexivity|].
  f_equal; [apply (Hg O); reflexivity|].
  rewrite <- seq_shift, map_map. apply IH. intros i b Hb. apply (Hg (S i)). exact Hb.
Qed.

Lemma kids_rel_in f i ks q :
  In q (kids_rel f i ks) <->
  exists j c r, nth_error ks j = Some c /\ q = SCh (i + j) :: r /\ In r (f c).
Proof.
  revert i; induction ks as [|k ks IH]; intros i; simpl.
  - split; [tauto|]. intros (j & c & r & H & _). destruct j; discriminate.
  - rewrite in_app_iff, in_map_iff, IH. split.
    + intros [(r & <- & Hr)|(j & c & r & Hj & -> & Hr)].
      * exists O, k, r. rewrite Nat.add_0_r. auto.
      * exists (S j), c, r. split; [exact Hj|]. split; [f_equal; f_equal; lia|exact Hr].
    + intros (j & c & r & Hj & -> & Hr). destruct j as [|j]; simpl in Hj.
      * inversion Hj; subst c. left. exists r. rewrite Nat.add_0_r. auto.
      * right. exists j, c, r. split; [exact Hj|]. split; [f_equal; f_equal; lia|exact Hr].
Qed.

(** membership = validity *)
Theorem all_rel_valid n : forall r, In r (all_rel n) <-> lookup n r <> None.
Proof.
  induction n as [p l|p nm nss ats kids IH] using anode_ind'; intros r.
  - simpl. destruct r as [|[i|i|i] r]; simpl.
    + split; [discriminate|auto].
    + split; [intros [H|[]]; discriminate|]. destruct r, i; simpl; congruence.
    + split; [intros [H|[]]; discriminate|]. destruct r, i; simpl; congruence.
    + split; [intros [H|[]]; discriminate|]. destruct i; simpl; congruence.
  - cbn [all_rel]. rewrite Forall_forall in IH.
    destruct r as [|[i|i|i] r].
    + simpl. split; [discriminate|auto].
    + cbn [In]. rewrite !in_app_iff, !in_map_iff, kids_rel_in. simpl.
      split.
      * intros [H|[(j & E & Hj)|[(j & E & Hj)|(j & c & r' & _ & E & _)]]]; try discriminate.
        inversion E; subst. apply in_seq in Hj.
        destruct (nth_error nss i) eqn:En; [discriminate|].
        apply nth_error_None in En. lia.
      * intros H. right. left. destruct r; [|now destruct (nth_error nss i)].
        exists i. split; [reflexivity|]. apply in_seq.
        destruct (nth_error nss i) eqn:En; [|congruence].
        assert (nth_error nss i <> None) by congruence. apply nth_error_Some in H0. lia.
    + cbn [In]. rewrite !in_app_iff, !in_map_iff, kids_rel_in. simpl.
      split.
      * intros [H|[(j & E & Hj)|[(j & E & Hj)|(j & c & r' & _ & E & _)]]]; try discriminate.
        inversion E; subst. apply in_seq in Hj.
        destruct (nth_error ats i) eqn:En; [discriminate|].
        apply nth_error_None in En. lia.
      * intros H. right. right. left. destruct r; [|now destruct (nth_error ats i)].
        exists i. split; [reflexivity|]. apply in_seq.
        destruct (nth_error ats i) eqn:En; [|congruence].
        assert (nth_error ats i <> None) by congruence. apply nth_error_Some in H0. lia.
    + cbn [In]. rewrite !in_app_iff, !in_map_iff, kids_rel_in. simpl.
      split.
      * intros [H|[(j & E & Hj)|[(j & E & Hj)|(j & c & r' & Hc & E & Hr)]]]; try discriminate.
        inversion E; subst. rewrite Hc. apply IH; [eapply nth_error_In; eauto|exact Hr].
      * intros H. right. right. right.
        destruct (nth_error kids i) as [c|] eqn:En; [|congruence].
        exists i, c, r. split; [exact En|]. split; [reflexivity|].
        apply IH; [eapply nth_error_In; eauto|exact H].
Qed.

(** the listing carries exactly the positions of [flat], in the same order *)
Lemma kids_rel_pos (n : anode) kids :
  akids n = kids ->
  Forall (fun k => map (pos_rel k) (all_rel k) = flat k) kids ->
  forall pre ks, kids = pre ++ ks ->
  map (pos_rel n) (kids_rel all_rel (length pre) ks) = flat_list ks.
Proof.
  intros Hk IH pre ks; revert pre; induction ks as [|k ks IHks]; intros pre E; simpl; [reflexivity|].
  rewrite map_app, map_map. f_equal.
  - rewrite Forall_forall in IH. rewrite <- (IH k) by (rewrite E; apply in_or_app; right; now left).
    apply map_ext. intros r. unfold pos_rel. simpl. rewrite Hk, E.
    rewrite nth_error_app2 by lia. now rewrite Nat.sub_diag.
  - replace (S (length pre)) with (length (pre ++ [k])) by (rewrite app_length; simpl; lia).
    apply IHks. now rewrite <- app_assoc.
Qed.

Theorem all_rel_positions n : map (pos_rel n) (all_rel n) = flat n.
Proof.
  induction n as [p l|p nm nss ats kids IH] using anode_ind'; [reflexivity|].
  rewrite flat_elem. cbn [all_rel map]. f_equal. rewrite !map_app, !map_map. f_equal; [|f_equal].
  - apply map_nth_seq. intros i a Ha. unfold pos_rel. simpl. now rewrite Ha.
  - apply map_nth_seq. intros i a Ha. unfold pos_rel. simpl. now rewrite Ha.
  - apply (kids_rel_pos (AElem p nm nss ats kids) kids eq_refl IH []). reflexivity.
Qed.

(** ** the listing is strictly ascending for [plt] *)
Lemma sorted_app {A} (R : A -> A -> Prop) l1 l2 :
  StronglySorted R l1 -> StronglySorted R l2 ->
  (forall x y, In x l1 -> In y l2 -> R x y) -> StronglySorted R (l1 ++ l2).
Proof.
  induction l1 as [|a l1 IH]; intros H1 H2 H; simpl; [exact H2|].
  inversion H1 as [|? ? Hr Ha]; subst. constructor.
  - apply IH; auto. intros; apply H; simpl; auto.
  - apply Forall_app; split; [exact Ha|]. apply Forall_forall. intros y Hy. apply H; simpl; auto.
Qed.

Lemma sorted_map_seq {A} (R : A -> A -> Prop) (g : nat -> A) s n :
  (forall i j, (i < j)%nat -> R (g i) (g j)) -> StronglySorted R (map g (seq s n)).
Proof.
  intros H. revert s; induction n as [|n IH]; intros s; simpl; constructor; [apply IH|].
  apply Forall_forall. intros y Hy. apply in_map_iff in Hy as (j & <- & Hj). apply in_seq in Hj. apply H. lia.
Qed.

Lemma sorted_map_cons a l : StronglySorted plt l -> StronglySorted plt (map (cons a) l).
Proof.
  induction 1 as [|x l Hs IH Hx]; simpl; constructor; [exact IH|].
  apply Forall_forall. intros y Hy. apply in_map_iff in Hy as (z & <- & Hz).
  unfold plt. rewrite path_ltb_cons. rewrite Forall_forall in Hx. now apply Hx.
Qed.

Lemma kids_rel_sorted ks : Forall (fun k => StronglySorted plt (all_rel k)) ks ->
  forall i, StronglySorted plt (kids_rel all_rel i ks).
Proof.
  induction 1 as [|k ks Hk Hks IH]; intros i; simpl; [constructor|].
  apply sorted_app; [now apply sorted_map_cons|apply IH|].
  intros x y Hx Hy. apply in_map_iff in Hx as (r & <- & _).
  apply kids_rel_in in Hy as (j & c & r' & _ & -> & _).
  unfold plt. cbn [path_ltb step_eqb step_ltb].
  destruct (Nat.eqb_spec i (S i + j)) as [E|_]; [lia|]. apply Nat.ltb_lt. lia.
Qed.

Theorem all_rel_sorted n : StronglySorted plt (all_rel n).
Proof.
  induction n as [p l|p nm nss ats kids IH] using anode_ind'; simpl.
  - constructor; constructor.
  - constructor.
    + apply sorted_app; [|apply sorted_app|].
      * apply sorted_map_seq. intros i j H. unfold plt. cbn [path_ltb step_eqb step_ltb].
        destruct (Nat.eqb_spec i j) as [E|_]; [lia|]. apply Nat.ltb_lt; lia.
      * apply sorted_map_seq. intros i j H. unfold plt. cbn [path_ltb step_eqb step_ltb].
        destruct (Nat.eqb_spec i j) as [E|_]; [lia|]. apply Nat.ltb_lt; lia.
      * now apply kids_rel_sorted.
      * intros x y Hx Hy. apply in_map_iff in Hx as (i & <- & _).
        apply kids_rel_in in Hy as (j & c & r' & _ & -> & _). reflexivity.
      * intros x y Hx Hy. apply in_map_iff in Hx as (i & <- & _).
        apply in_app_iff in Hy as [Hy|Hy].
        -- apply in_map_iff in Hy as (j & <- & _). reflexivity.
        -- apply kids_rel_in in Hy as (j & c & r' & _ & -> & _). reflexivity.
    + apply Forall_forall. intros y Hy. rewrite !in_app_iff in Hy.
      destruct Hy as [Hy|[Hy|Hy]].
      * apply in_map_iff in Hy as (j & <- & _). reflexivity.
      * apply in_map_iff in Hy as (j & <- & _). reflexivity.
      * apply kids_rel_in in Hy as (j & c & r' & _ & -> & _). reflexivity.
Qed.

(** ** positions are monotone for document order *)
Lemma sorted_pair_monotone {A} (R : A -> A -> Prop) (f : A -> Z) l :
  (forall x, ~ R x x) -> (forall x y, R x y -> ~ R y x) ->
  StronglySorted R l -> StronglySorted Z.lt (map f l) ->
  forall x y, In x l -> In y l -> R x y -> f x < f y.
Proof.
  intros Hirr Hasym. induction l as [|a l IH]; intros HR HZ x y Hx Hy Hxy; [destruct Hx|].
  inversion HR as [|? ? HR' Ha]; subst. simpl in HZ. inversion HZ as [|? ? HZ' Hfa]; subst.
  rewrite Forall_forall in Ha, Hfa.
  destruct Hx as [->|Hx], Hy as [->|Hy].
  - exfalso. eapply Hirr; eauto.
  - apply Hfa. now apply in_map.
  - exfalso. eapply Hasym; [exact Hxy|]. now apply Ha.
  - now apply IH.
Qed.

Definition doc_ordered (d : anode) : Prop := StronglySorted Z.lt (flat d).

Lemma valid_in_all d p : valid d p = true <-> In p (all_rel d).
Proof.
  rewrite all_rel_valid. unfold valid. destruct (lookup d p); split; congruence.
Qed.

Theorem pos_monotone d p q :
  doc_ordered d -> valid d p = true -> valid d q = true ->
  path_ltb p q = true -> pos_of d p < pos_of d q.
Proof.
  intros Ho Hp Hq Hlt. rewrite !pos_of_rel.
  apply (sorted_pair_monotone plt (pos_rel d) (all_rel d)); auto.
  - intros x H. unfold plt in H. now rewrite path_ltb_irrefl in H.
  - intros x y H H'. unfold plt in *. apply path_ltb_asym in H. congruence.
  - apply all_rel_sorted.
  - rewrite all_rel_positions. exact Ho.
  - now apply valid_in_all.
  - now apply valid_in_all.
Qed.

Theorem pos_injective d p q :
  doc_ordered d -> valid d p = true -> valid d q = true -> pos_of d p = pos_of d q -> p = q.
Proof.
  intros Ho Hp Hq E. destruct (path_tricho p q) as [H|[H|H]]; [exact H| |].
  - pose proof (pos_monotone d p q Ho Hp Hq H). lia.
  - pose proof (pos_monotone d q p Ho Hq Hp H). lia.
Qed.

Theorem pos_reflects d p q :
  doc_ordered d -> valid d p = true -> valid d q = true ->
  pos_of d p < pos_of d q -> path_ltb p q = true.
Proof.
  intros Ho Hp Hq E. destruct (path_tricho p q) as [H|[H|H]]; [subst; lia|exact H|].
  pose proof (pos_monotone d q p Ho Hq Hp H). lia.
Qed.

(** every tree the store builds from a stream that meets the Parser contract is
    document-ordered (C10) *)
Theorem built_doc_ordered evs : conforming store_init evs -> doc_ordered (build evs).
Proof. apply build_positions_increase. Qed.
