(** The Parser contract, syntactically: a stream is a sequence of top-level items;
    an item is a leaf, or a start event followed by the element's namespace events,
    then its attribute events, then its items, then an end event; surplus end events
    may occur at the top level. Every such stream satisfies the state-based
    side condition [conforming] under which the position invariant was proved. *)
From Coq Require Import Lia.
From XV Require Import Base.Str Doc.Tree Doc.Store Doc.StoreThm.

Inductive snode :=
| SElem (nm : qname) (nss : list (str * str)) (ats : list (qname * str)) (kids : list snode)
| SLeaf (l : leaf).

Section snode_ind.
  Variable P : snode -> Prop.
  Hypothesis HL : forall l, P (SLeaf l).
  Hypothesis HE : forall nm nss ats kids, Forall P kids -> P (SElem nm nss ats kids).
  Fixpoint snode_ind' (n : snode) : P n :=
    match n with
    | SLeaf l => HL l
    | SElem nm nss ats kids =>
        HE nm nss ats kids
           ((fix go (l : list snode) : Forall P l :=
               match l with
               | [] => Forall_nil P
               | k :: r => Forall_cons k (snode_ind' k) (go r)
               end) kids)
    end.
End snode_ind.

Definition ns_events (l : list (str * str)) : list event := map (fun x => EvNs (fst x) (snd x)) l.
Definition at_events (l : list (qname * str)) : list event := map (fun x => EvAttr (fst x) (snd x)) l.

Fixpoint events_of (n : snode) {struct n} : list event :=
  match n with
  | SElem nm nss ats kids =>
      EvStart nm :: ns_events nss ++ at_events ats ++
        (fix go (l : list snode) {struct l} : list event :=
           match l with [] => [] | k :: r => events_of k ++ go r end) kids ++ [EvEnd]
  | SLeaf l => [EvLeaf l]
  end.

Definition events_of_list (l : list snode) : list event := flat_map events_of l.

Lemma events_of_elem nm nss ats kids :
  events_of (SElem nm nss ats kids) =
  EvStart nm :: ns_events nss ++ at_events ats ++ events_of_list kids ++ [EvEnd].
Proof.
  simpl.
  assert (E : (fix go (l : list snode) : list event :=
                 match l with [] => [] | k :: r => events_of k ++ go r end) kids = events_of_list kids).
  { induction kids as [|k r IH]; simpl; [reflexivity|]. now rewrite IH. }
  now rewrite E.
Qed.

(** a top-level stream: items and surplus end events *)
Definition top_events (l : list (option snode)) : list event :=
  flat_map (fun o => match o with Some n => events_of n | None => [EvEnd] end) l.

Lemma conforming_app a : forall st b,
  conforming st (a ++ b) <-> conforming st a /\ conforming (fold_left store_step a st) b.
Proof.
  induction a as [|ev r IH]; intros st b; simpl; [tauto|].
  rewrite IH. tauto.
Qed.

Lemma inherit_ats_kids st :
  f_kids (s_cur (inherit st)) = f_kids (s_cur st) /\ f_ats (s_cur (inherit st)) = f_ats (s_cur st).
Proof.
  unfold inherit. destruct (f_pending (s_cur st)); [|auto].
  destruct (inherit_from _ _ _). simpl. auto.
Qed.

Lemma ns_events_conform l : forall st,
  f_ats (s_cur st) = [] -> f_kids (s_cur st) = [] ->
  conforming st (ns_events l) /\
  f_ats (s_cur (fold_left store_step (ns_events l) st)) = [] /\
  f_kids (s_cur (fold_left store_step (ns_events l) st)) = [].
Proof.
  induction l as [|[p u] r IH]; intros st Ha Hk; simpl; [auto|].
  assert (H : f_ats (s_cur (store_step st (EvNs p u))) = [] /\ f_kids (s_cur (store_step st (EvNs p u))) = []).
  { unfold store_step. destruct (replace_ns p u (f_nss (s_cur st))); simpl; auto. }
  destruct H as [Ha' Hk']. destruct (IH _ Ha' Hk') as [H1 [H2 H3]]. auto.
Qed.

Lemma at_events_conform l : forall st,
  f_kids (s_cur st) = [] -> conforming st (at_events l).
Proof.
  induction l as [|[nm v] r IH]; intros st Hk; simpl; [auto|].
  split; [exact Hk|]. apply IH. unfold store_step. simpl.
  destruct (inherit_ats_kids st) as [E _]. now rewrite E.
Qed.

Lemma kids_conform kids :
  Forall (fun n => forall st, conforming st (events_of n)) kids ->
  forall s, conforming s (events_of_list kids ++ [EvEnd]).
Proof.
  induction kids as [|k r IHr]; intros IH s; simpl.
  - auto.
  - inversion IH as [|? ? Hk Hr]; subst. rewrite <- app_assoc.
    apply conforming_app. split; [apply Hk|]. apply IHr. exact Hr.
Qed.

Theorem events_of_conform n : forall st, conforming st (events_of n).
Proof.
  induction n as [l|nm nss ats kids IH] using snode_ind'; intros st.
  - simpl. auto.
  - rewrite events_of_elem. simpl. split; [exact I|].
    set (st1 := store_step st (EvStart nm)).
    assert (Ha1 : f_ats (s_cur st1) = []) by reflexivity.
    assert (Hk1 : f_kids (s_cur st1) = []) by reflexivity.
    destruct (ns_events_conform nss st1 Ha1 Hk1) as [C1 [Ha2 Hk2]].
    apply conforming_app. split; [exact C1|].
    apply conforming_app. split; [now apply at_events_conform|].
    now apply kids_conform.
Qed.

(** every stream the Parser contract allows *)
Theorem top_events_conform l : forall st, conforming st (top_events l).
Proof.
  induction l as [|o r IH]; intros st; simpl; [exact I|].
  apply conforming_app. split; [|apply IH].
  destruct o as [n|]; [apply events_of_conform|simpl; auto].
Qed.

(** ... hence, for every conforming stream, unique strictly increasing positions *)
Theorem contract_positions l :
  Sorted.StronglySorted Z.lt (flat (build (top_events l))) /\
  NoDup (flat (build (top_events l))) /\ apos (build (top_events l)) = 0%Z.
Proof.
  repeat split.
  - apply build_positions_increase. apply top_events_conform.
  - apply build_positions_unique. apply top_events_conform.
  - apply build_root_zero.
Qed.
