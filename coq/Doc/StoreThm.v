(** C10: for every event stream that satisfies the Parser contract, the positions the
    store assigns are strictly increasing in document order (element, then its
    namespace nodes, then its attributes, then its children and everything after):
    unique, 0 only at the root. Invariant proof over the event consumer. *)
From Coq Require Import Sorting.Sorted Lia.
From XV Require Import Base.Str Doc.Tree Doc.Store.
Local Open Scope Z_scope.

(** positions of a subtree in document order *)
Fixpoint flat (n : anode) {struct n} : list Z :=
  match n with
  | AElem p _ nss ats kids =>
      p :: map ns_pos nss ++ map at_pos ats ++
        (fix go (l : list anode) {struct l} : list Z :=
           match l with [] => [] | k :: r => flat k ++ go r end) kids
  | ALeaf p _ => [p]
  end.

Fixpoint flat_list (l : list anode) : list Z :=
  match l with [] => [] | k :: r => flat k ++ flat_list r end.

Lemma flat_elem p nm nss ats kids :
  flat (AElem p nm nss ats kids) = p :: map ns_pos nss ++ map at_pos ats ++ flat_list kids.
Proof.
  simpl.
  assert (E : (fix go (l : list anode) : list Z :=
                 match l with [] => [] | k :: r => flat k ++ go r end) kids = flat_list kids).
  { induction kids as [|k r IH]; simpl; [reflexivity|]. now rewrite IH. }
  now rewrite E.
Qed.

Lemma flat_list_app a b : flat_list (a ++ b) = flat_list a ++ flat_list b.
Proof. induction a as [|k r IH]; simpl; [reflexivity|]. now rewrite IH, app_assoc. Qed.

Definition frame_flat (f : frame) : list Z :=
  f_pos f :: map ns_pos (f_nss f) ++ map at_pos (f_ats f) ++ flat_list (f_kids f).

(** the open frames, outermost first, then the current one *)
Definition state_flat (st : sstate) : list Z :=
  concat (map frame_flat (rev (s_stack st))) ++ frame_flat (s_cur st).

(** strictly increasing and bounded by the counter *)
Definition incr_below (l : list Z) (c : Z) : Prop :=
  StronglySorted Z.lt l /\ Forall (fun z => z <= c) l.

Lemma sorted_app_one l c :
  StronglySorted Z.lt l -> Forall (fun z => z <= c) l -> StronglySorted Z.lt (l ++ [c + 1]).
Proof.
  induction l as [|x r IH]; intros Hs Hb; simpl.
  - constructor; constructor.
  - inversion Hs as [|? ? Hr Hx]; subst. inversion Hb as [|? ? Hxc Hrc]; subst.
    constructor; [now apply IH|].
    apply Forall_app; split; [exact Hx|]. constructor; [lia|constructor].
Qed.

Lemma incr_below_snoc l c : incr_below l c -> incr_below (l ++ [c + 1]) (c + 1).
Proof.
  intros [Hs Hb]. split; [now apply sorted_app_one|].
  apply Forall_app; split.
  - eapply Forall_impl; [|exact Hb]. simpl; intros; lia.
  - constructor; [lia|constructor].
Qed.

Lemma sorted_remove (a : list Z) x b :
  StronglySorted Z.lt (a ++ x :: b) -> StronglySorted Z.lt (a ++ b).
Proof.
  induction a as [|y r IH]; simpl; intros Hs.
  - now inversion Hs.
  - inversion Hs as [|? ? Hr Hy]; subst. constructor; [now apply IH|].
    apply Forall_app in Hy as [H1 H2]. apply Forall_app; split; [exact H1|now inversion H2].
Qed.

Lemma incr_below_remove a x b c : incr_below (a ++ x :: b) c -> incr_below (a ++ b) c.
Proof.
  intros [Hs Hb]. split; [eapply sorted_remove; eauto|].
  apply Forall_app in Hb as [H1 H2]. apply Forall_app; split; [exact H1|now inversion H2].
Qed.

(** inherited namespace nodes get the next positions *)
Lemma inherit_from_incr pn own ctr l c' L :
  inherit_from pn own ctr = (l, c') -> incr_below L ctr ->
  incr_below (L ++ map ns_pos l) c' /\ ctr <= c'.
Proof.
  revert ctr l c' L; induction pn as [|a r IH]; intros ctr l c' L H HL; simpl in H.
  - inversion H; subst. simpl. rewrite app_nil_r. split; [exact HL|lia].
  - destruct (has_prefix (ns_prefix a) own).
    + eapply IH; eauto.
    + destruct (inherit_from r own (ctr + 1)) as [l1 c1] eqn:E. inversion H; subst.
      destruct (IH _ _ _ (L ++ [ctr + 1]) E (incr_below_snoc _ _ HL)) as [H1 H2].
      simpl. rewrite <- app_assoc in H1. simpl in H1. split; [exact H1|lia].
Qed.

Lemma drop_empty_default_split l :
  drop_empty_default l = l \/
  exists a x b, l = a ++ x :: b /\ drop_empty_default l = a ++ b.
Proof.
  induction l as [|y r IH]; simpl; [now left|].
  destruct (str_eqb (ns_prefix y) [] && str_eqb (ns_uri y) []).
  - right. exists [], y, r. auto.
  - destruct IH as [E|[a [x [b [E1 E2]]]]].
    + left. now rewrite E.
    + right. exists (y :: a), x, b. simpl. now rewrite E1 at 1; rewrite E2.
Qed.

Lemma replace_ns_pos p u l l' : replace_ns p u l = Some l' -> map ns_pos l' = map ns_pos l.
Proof.
  revert l'; induction l as [|a r IH]; intros l' H; simpl in H; [discriminate|].
  destruct (str_eqb (ns_prefix a) p).
  - inversion H; subst. reflexivity.
  - destruct (replace_ns p u r) as [r'|]; [|discriminate]. inversion H; subst. simpl. f_equal. now apply IH.
Qed.

(** ** the invariant *)

Record Inv (st : sstate) : Prop := {
  inv_sorted : incr_below (state_flat st) (s_ctr st);
  inv_pending : f_pending (s_cur st) = true -> f_ats (s_cur st) = [] /\ f_kids (s_cur st) = [];
  inv_stack : Forall (fun f => f_pending f = false) (s_stack st)
}.

(** the Parser contract, as far as positions depend on it: namespace nodes come
    before attributes and children, attributes before children *)
Definition conforms (st : sstate) (ev : event) : Prop :=
  match ev with
  | EvNs _ _ => f_ats (s_cur st) = [] /\ f_kids (s_cur st) = []
  | EvAttr _ _ => f_kids (s_cur st) = []
  | _ => True
  end.

Lemma state_flat_cur pre c :
  forall st, s_cur st = c -> concat (map frame_flat (rev (s_stack st))) = pre ->
  state_flat st = pre ++ frame_flat c.
Proof. intros st <- <-. reflexivity. Qed.

Lemma inherit_inv st : Inv st -> Inv (inherit st) /\ f_pending (s_cur (inherit st)) = false
                                  /\ s_stack (inherit st) = s_stack st
                                  /\ (f_pending (s_cur st) = false -> inherit st = st).
Proof.
  intros [Hs Hp Hstk]. unfold inherit. destruct (f_pending (s_cur st)) eqn:Ep.
  - destruct (Hp eq_refl) as [Ha Hk].
    destruct (inherit_from (parent_nss st) (f_nss (s_cur st)) (s_ctr st)) as [l ctr] eqn:E.
    assert (Hsorted : incr_below
              (state_flat (SState (Frame (f_pos (s_cur st)) (f_name (s_cur st))
                                         (drop_empty_default (f_nss (s_cur st) ++ l))
                                         (f_ats (s_cur st)) (f_kids (s_cur st)) false)
                                  (s_stack st) ctr)) ctr).
    { unfold state_flat in *. simpl. unfold frame_flat in *. simpl.
      rewrite Ha, Hk in *. simpl in *. rewrite !app_nil_r in *.
      set (pre := concat (map _ (rev (s_stack st)))) in *.
      assert (H1 : incr_below ((pre ++ f_pos (s_cur st) :: map ns_pos (f_nss (s_cur st))) ++ map ns_pos l) ctr).
      { eapply inherit_from_incr; eauto. }
      rewrite <- app_assoc in H1. simpl in H1. rewrite <- map_app in H1.
      destruct (drop_empty_default_split (f_nss (s_cur st) ++ l)) as [E0|[a [x [b [E1 E2]]]]].
      - rewrite E0. exact H1.
      - rewrite E2. rewrite E1 in H1. rewrite map_app in H1. simpl in H1.
        rewrite map_app.
        replace (pre ++ f_pos (s_cur st) :: map ns_pos a ++ map ns_pos b)
          with ((pre ++ f_pos (s_cur st) :: map ns_pos a) ++ map ns_pos b)
          by (rewrite <- app_assoc; reflexivity).
        eapply incr_below_remove with (x := ns_pos x).
        rewrite <- app_assoc. simpl. exact H1. }
    split; [constructor; simpl; [exact Hsorted|intros; discriminate|exact Hstk]|].
    split; [reflexivity|]. split; [reflexivity|]. intros; discriminate.
  - split; [constructor; [exact Hs|rewrite Ep; discriminate|exact Hstk]|]. split; [exact Ep|]. split; reflexivity.
Qed.

Lemma snoc_assoc (pre : list Z) x m y : pre ++ x :: m ++ [y] = (pre ++ x :: m) ++ [y].
Proof. now rewrite <- app_assoc. Qed.

Lemma add_kid_flat f k : frame_flat (add_kid f k) = frame_flat f ++ flat k.
Proof.
  unfold frame_flat, add_kid; simpl. rewrite flat_list_app. simpl. rewrite app_nil_r.
  rewrite !app_comm_cons, !app_assoc. reflexivity.
Qed.

Lemma close_frame_flat c : flat (close_frame c) = frame_flat c.
Proof. unfold close_frame. now rewrite flat_elem. Qed.

Theorem store_step_inv st ev : Inv st -> conforms st ev -> Inv (store_step st ev).
Proof.
  intros HI Hc. unfold store_step.
  destruct ev as [nm|p u|nm v|l|].
  - (* EvStart *)
    destruct (inherit_inv st HI) as [[Hs Hp Hstk] [Hpf [Hst _]]].
    constructor; simpl; [|auto|constructor; assumption].
    unfold state_flat in *; simpl. rewrite map_app, concat_app. simpl. rewrite app_nil_r.
    unfold frame_flat at 2; simpl.
    rewrite <- app_assoc.
    replace (frame_flat (s_cur (inherit st)) ++ [s_ctr (inherit st) + 1])
      with (frame_flat (s_cur (inherit st)) ++ [s_ctr (inherit st) + 1]) by reflexivity.
    rewrite app_assoc. now apply incr_below_snoc.
  - (* EvNs *)
    destruct HI as [Hs Hp Hstk]. simpl in Hc. destruct Hc as [Ha Hk].
    destruct (replace_ns p u (f_nss (s_cur st))) as [l'|] eqn:E.
    + constructor; simpl; [|auto|exact Hstk].
      unfold state_flat in *; simpl. unfold frame_flat in *; simpl.
      now rewrite (replace_ns_pos _ _ _ _ E).
    + constructor; simpl; [|auto|exact Hstk].
      unfold state_flat in *; simpl. unfold frame_flat in *; simpl.
      rewrite Ha, Hk in *. simpl in *. rewrite !app_nil_r in *.
      rewrite map_app. simpl. rewrite snoc_assoc.
      now apply incr_below_snoc.
  - (* EvAttr *)
    simpl in Hc.
    destruct (inherit_inv st HI) as [[Hs Hp Hstk] [Hpf [Hst Hsame]]].
    assert (Hk : f_kids (s_cur (inherit st)) = []).
    { unfold inherit. destruct (f_pending (s_cur st)) eqn:Ep; [|exact Hc].
      destruct (inherit_from _ _ _). simpl. exact Hc. }
    constructor; simpl; [|rewrite Hpf; discriminate|exact Hstk].
    unfold state_flat in *; simpl. unfold frame_flat in *; simpl.
    rewrite Hk in *. simpl in *. rewrite !app_nil_r in *. rewrite map_app. simpl.
    rewrite app_assoc, snoc_assoc. now apply incr_below_snoc.
  - (* EvLeaf *)
    destruct (inherit_inv st HI) as [[Hs Hp Hstk] [Hpf [Hst _]]].
    constructor; simpl; [|rewrite Hpf; discriminate|exact Hstk].
    unfold state_flat in *; cbn [s_cur s_stack s_ctr]. rewrite add_kid_flat. cbn [flat].
    rewrite app_assoc. now apply incr_below_snoc.
  - (* EvEnd *)
    destruct (inherit_inv st HI) as [[Hs Hp Hstk] [Hpf [Hst _]]].
    destruct (s_stack (inherit st)) as [|par rest] eqn:Es.
    + constructor; try assumption. rewrite Es. constructor.
    + inversion Hstk as [|? ? Hpar Hrest]; subst.
      constructor; simpl.
      * unfold state_flat in *; simpl in *. rewrite Es in Hs. simpl in Hs.
        rewrite map_app, concat_app in Hs. simpl in Hs. rewrite app_nil_r in Hs.
        rewrite add_kid_flat, close_frame_flat. rewrite <- app_assoc in Hs. exact Hs.
      * rewrite Hpar. discriminate.
      * exact Hrest.
Qed.

(** ** whole streams *)

Fixpoint conforming (st : sstate) (evs : list event) : Prop :=
  match evs with
  | [] => True
  | ev :: r => conforms st ev /\ conforming (store_step st ev) r
  end.

Lemma init_inv : Inv store_init.
Proof.
  constructor; simpl.
  - unfold state_flat, incr_below; simpl. split.
    + constructor; constructor.
    + constructor; [reflexivity|constructor].
  - discriminate.
  - constructor.
Qed.

Lemma fold_inv evs : forall st, Inv st -> conforming st evs -> Inv (fold_left store_step evs st).
Proof.
  induction evs as [|ev r IH]; intros st HI Hc; simpl; [exact HI|].
  destruct Hc as [H1 H2]. apply IH; [now apply store_step_inv|exact H2].
Qed.

Theorem store_run_inv evs : conforming store_init evs -> Inv (store_run evs).
Proof. intros H. apply fold_inv; [apply init_inv|exact H]. Qed.

Lemma close_all_flat stack : forall c,
  flat (close_all c stack) = concat (map frame_flat (rev stack)) ++ frame_flat c.
Proof.
  induction stack as [|p rest IH]; intros c; simpl.
  - apply close_frame_flat.
  - rewrite IH, add_kid_flat, close_frame_flat, map_app, concat_app.
    cbn [map concat]. rewrite app_nil_r. now rewrite <- app_assoc.
Qed.

(** positions of the finished tree, in document order, strictly increase *)
Theorem build_positions_increase evs :
  conforming store_init evs -> StronglySorted Z.lt (flat (build evs)).
Proof.
  intros H. unfold build. rewrite close_all_flat.
  destruct (store_run_inv evs H) as [[Hs _] _ _]. exact Hs.
Qed.

Lemma sorted_lt_NoDupZ (l : list Z) : StronglySorted Z.lt l -> NoDup l.
Proof.
  induction l as [|x r IH]; intros Hs; [constructor|].
  inversion Hs as [|? ? Hr Hx]; subst. constructor; [|now apply IH].
  intros Hin. rewrite Forall_forall in Hx. specialize (Hx x Hin). lia.
Qed.

Theorem build_positions_unique evs : conforming store_init evs -> NoDup (flat (build evs)).
Proof. intros H. apply sorted_lt_NoDupZ. now apply build_positions_increase. Qed.

(** the root keeps position 0 through every step *)
Lemma last_indep {A} (a : A) l d1 d2 : last (a :: l) d1 = last (a :: l) d2.
Proof. revert a; induction l as [|b r IH]; intros a; [reflexivity|]. simpl in *. apply IH. Qed.

Definition bottom_pos (st : sstate) : Z := f_pos (last (s_stack st) (s_cur st)).

Lemma bottom_pos_eq stack c c' : f_pos c = f_pos c' -> f_pos (last stack c) = f_pos (last stack c').
Proof. destruct stack as [|a r]; intros H; [exact H|]. now rewrite (last_indep a r c c'). Qed.

Lemma bottom_pos_inherit s : bottom_pos (inherit s) = bottom_pos s.
Proof.
  unfold bottom_pos, inherit. destruct (f_pending (s_cur s)); [|reflexivity].
  destruct (inherit_from _ _ _). simpl. now apply bottom_pos_eq.
Qed.

Lemma bottom_pos_step st ev : bottom_pos (store_step st ev) = bottom_pos st.
Proof.
  unfold store_step. destruct ev as [nm|p u|nm v|l|].
  - rewrite <- (bottom_pos_inherit st). unfold bottom_pos. simpl.
    destruct (s_stack (inherit st)) as [|a r]; [reflexivity|]. apply (f_equal f_pos). apply last_indep.
  - unfold bottom_pos. destruct (replace_ns p u (f_nss (s_cur st))); simpl; now apply bottom_pos_eq.
  - rewrite <- (bottom_pos_inherit st). unfold bottom_pos. simpl. now apply bottom_pos_eq.
  - rewrite <- (bottom_pos_inherit st). unfold bottom_pos. simpl. now apply bottom_pos_eq.
  - rewrite <- (bottom_pos_inherit st). unfold bottom_pos.
    destruct (s_stack (inherit st)) as [|a r] eqn:E; [now rewrite E|].
    simpl. destruct r as [|b r']; [reflexivity|]. apply (f_equal f_pos). apply last_indep.
Qed.

Lemma root_pos_fold evs : forall st, bottom_pos (fold_left store_step evs st) = bottom_pos st.
Proof.
  induction evs as [|ev r IH]; intros st; simpl; [reflexivity|].
  rewrite IH. apply bottom_pos_step.
Qed.

Lemma close_all_pos stack : forall c, apos (close_all c stack) = f_pos (last stack c).
Proof.
  induction stack as [|p rest IH]; intros c; simpl; [reflexivity|].
  rewrite IH. destruct rest as [|b r]; [reflexivity|]. apply (f_equal f_pos). apply last_indep.
Qed.

Theorem build_root_zero evs : apos (build evs) = 0.
Proof.
  unfold build. rewrite close_all_pos. fold (bottom_pos (store_run evs)).
  unfold store_run. rewrite root_pos_fold. reflexivity.
Qed.
