(** Namespace scoping of the store (C09, C10): when an element's start tag is
    complete, its namespace nodes bind exactly the prefixes in scope — its own
    declarations, else the parent's bindings; xmlns="" removes the default binding —
    and they are nodes of the element itself (fresh positions, see StoreThm). *)
From Coq Require Import Lia.
From XV Require Import Base.Str Doc.Tree Doc.Store.
Local Open Scope Z_scope.

Fixpoint find_ns (p : str) (l : list ans) : option str :=
  match l with
  | [] => None
  | a :: r => if str_eqb (ns_prefix a) p then Some (ns_uri a) else find_ns p r
  end.

Lemma find_ns_app p a b : find_ns p (a ++ b) = match find_ns p a with Some u => Some u | None => find_ns p b end.
Proof. induction a as [|x a IH]; simpl; [reflexivity|]. destruct (str_eqb (ns_prefix x) p); auto. Qed.

Lemma has_prefix_find p l : has_prefix p l = true <-> find_ns p l <> None.
Proof.
  induction l as [|a l IH]; simpl; [split; congruence|].
  destruct (str_eqb (ns_prefix a) p); simpl; [split; congruence|exact IH].
Qed.

(** the copies inherited from the parent bind what the parent binds, for the prefixes
    the element did not declare itself *)
Lemma inherit_from_find p : forall pn own ctr l c,
  inherit_from pn own ctr = (l, c) ->
  find_ns p l = match find_ns p own with Some _ => None | None => find_ns p pn end.
Proof.
  induction pn as [|a pn IH]; intros own ctr l c H; simpl in H.
  - inversion H; subst. simpl. now destruct (find_ns p own).
  - destruct (has_prefix (ns_prefix a) own) eqn:Eh.
    + rewrite (IH own ctr l c H). simpl. destruct (str_eqb (ns_prefix a) p) eqn:Ep; [|reflexivity].
      apply str_eqb_spec in Ep; subst p. apply has_prefix_find in Eh.
      destruct (find_ns (ns_prefix a) own); congruence.
    + destruct (inherit_from pn own (ctr + 1)) as [l' c'] eqn:E. inversion H; subst. simpl.
      rewrite (IH own (ctr + 1) l' c E).
      destruct (str_eqb (ns_prefix a) p) eqn:Ep; [|reflexivity].
      apply str_eqb_spec in Ep; subst p.
      destruct (find_ns (ns_prefix a) own) eqn:Ef; [|reflexivity].
      assert (has_prefix (ns_prefix a) own = true) by (apply has_prefix_find; congruence). congruence.
Qed.

Definition nodup_prefixes (l : list ans) : Prop := NoDup (map ns_prefix l).

Lemma find_ns_not_in p l : ~ In p (map ns_prefix l) -> find_ns p l = None.
Proof.
  induction l as [|a l IH]; simpl; [reflexivity|]. intros H.
  destruct (str_eqb (ns_prefix a) p) eqn:E; [apply str_eqb_spec in E; tauto|]. apply IH. tauto.
Qed.

(** xmlns="" is not a binding: it only removes the default one *)
Definition undeclare (p : str) (r : option str) : option str :=
  match p, r with [], Some [] => None | _, _ => r end.

(** dropping the empty default declaration: only the default binding is affected *)
Lemma drop_empty_default_find p l : nodup_prefixes l ->
  find_ns p (drop_empty_default l) = undeclare p (find_ns p l).
Proof.
  unfold nodup_prefixes. induction l as [|a l IH]; intros Hnd.
  - destruct p; reflexivity.
  - inversion Hnd as [|? ? Hnin Hnd']; subst. cbn [drop_empty_default find_ns].
    destruct (str_eqb (ns_prefix a) []) eqn:Ea.
    + apply str_eqb_spec in Ea. destruct (str_eqb (ns_uri a) []) eqn:Eu; cbn [andb].
      * apply str_eqb_spec in Eu. destruct (str_eqb (ns_prefix a) p) eqn:Ep.
        -- apply str_eqb_spec in Ep. subst p. rewrite Ea, Eu. cbn [undeclare].
           apply find_ns_not_in. now rewrite <- Ea.
        -- rewrite Ea in Ep. destruct p as [|c p]; [discriminate|]. reflexivity.
      * cbn [find_ns]. destruct (str_eqb (ns_prefix a) p) eqn:Ep.
        -- apply str_eqb_spec in Ep. subst p. rewrite Ea. unfold undeclare.
           destruct (ns_uri a); [discriminate|reflexivity].
        -- apply IH; exact Hnd'.
    + cbn [andb find_ns]. destruct (str_eqb (ns_prefix a) p) eqn:Ep.
      * apply str_eqb_spec in Ep. subst p. unfold undeclare. destruct (ns_prefix a); [discriminate|reflexivity].
      * apply IH; exact Hnd'.
Qed.

Lemma inherit_from_prefixes : forall pn own ctr l c,
  inherit_from pn own ctr = (l, c) ->
  forall p, In p (map ns_prefix l) -> In p (map ns_prefix pn) /\ ~ In p (map ns_prefix own).
Proof.
  induction pn as [|a pn IH]; intros own ctr l c H p Hp; simpl in H.
  - inversion H; subst. destruct Hp.
  - destruct (has_prefix (ns_prefix a) own) eqn:Eh.
    + destruct (IH own ctr l c H p Hp). split; [now right|assumption].
    + destruct (inherit_from pn own (ctr + 1)) as [l' c'] eqn:E. inversion H; subst. simpl in Hp.
      destruct Hp as [<-|Hp].
      * split; [now left|]. intros Hin. assert (has_prefix (ns_prefix a) own = true); [|congruence].
        apply has_prefix_find. intro Hf. apply in_map_iff in Hin as (x & Ex & Hx).
        clear - Ex Hx Hf. induction own as [|y own IHo]; [destruct Hx|]. simpl in Hf.
        destruct (str_eqb (ns_prefix y) (ns_prefix a)) eqn:Ey; [discriminate|].
        destruct Hx as [->|Hx]; [rewrite Ex, str_eqb_refl in Ey; discriminate|now apply IHo].
      * destruct (IH own (ctr + 1) l' c E p Hp). split; [now right|assumption].
Qed.

Lemma inherit_from_nodup : forall pn own ctr l c,
  nodup_prefixes pn -> inherit_from pn own ctr = (l, c) -> nodup_prefixes l.
Proof.
  unfold nodup_prefixes. induction pn as [|a pn IH]; intros own ctr l c Hnd H; simpl in H.
  - inversion H; subst. constructor.
  - inversion Hnd as [|? ? Hnin Hnd']; subst. destruct (has_prefix (ns_prefix a) own).
    + eapply IH; eauto.
    + destruct (inherit_from pn own (ctr + 1)) as [l' c'] eqn:E. inversion H; subst. simpl. constructor.
      * intros Hin. apply (inherit_from_prefixes pn own (ctr + 1) l' c E) in Hin as [Hin _]. tauto.
      * eapply IH; eauto.
Qed.

Lemma NoDup_app' {A} (a b : list A) : NoDup a -> NoDup b -> (forall x, In x a -> ~ In x b) -> NoDup (a ++ b).
Proof.
  induction 1 as [|x a Hx Ha IH]; intros Hb H; simpl; [exact Hb|]. constructor.
  - rewrite in_app_iff. intros [Hi|Hi]; [tauto|]. apply (H x); simpl; auto.
  - apply IH; auto. intros y Hy. apply H. now right.
Qed.

(** THE scoping theorem: the bindings of an element after inheritance *)
Theorem inherited_scope p pn own ctr l c :
  nodup_prefixes pn -> nodup_prefixes own -> inherit_from pn own ctr = (l, c) ->
  find_ns p (drop_empty_default (own ++ l)) =
  undeclare p (match find_ns p own with Some u => Some u | None => find_ns p pn end).
Proof.
  intros Hpn Hown H.
  assert (Hnd : nodup_prefixes (own ++ l)).
  { unfold nodup_prefixes. rewrite map_app. apply NoDup_app'.
    - exact Hown.
    - exact (inherit_from_nodup pn own ctr l c Hpn H).
    - intros x Hx Hl. apply (inherit_from_prefixes pn own ctr l c H) in Hl as [_ Hl]. tauto. }
  rewrite (drop_empty_default_find p _ Hnd), find_ns_app, (inherit_from_find p pn own ctr l c H).
  now destruct (find_ns p own).
Qed.
