(** Model of store/inmemory.go: the event consumer [createInMemory] as a fold of
    [store_step] over the events. One frame per open element (the Go cursor chain
    current -> parent -> ... -> root); the running position counter; the parent's
    namespace nodes are copied to an element (as its own nodes, numbered after its
    declared ones) when the first non-namespace event for it arrives. *)
From XV Require Import Base.Str Doc.Tree.
Local Open Scope Z_scope.

Record frame := Frame {
  f_pos : Z;
  f_name : qname;
  f_nss : list ans;
  f_ats : list aat;
  f_kids : list anode;          (* in document order *)
  f_pending : bool              (* inheritPending *)
}.

Record sstate := SState {
  s_cur : frame;                (* cursor *)
  s_stack : list frame;         (* its ancestors, nearest first *)
  s_ctr : Z                     (* pos *)
}.

Definition root_frame : frame := Frame 0 (QN [] []) [] [] [] false.
Definition store_init : sstate := SState root_frame [] 0.

Definition has_prefix (p : str) (l : list ans) : bool :=
  existsb (fun a => str_eqb (ns_prefix a) p) l.

(** the parent's namespace nodes not redeclared by the element, renumbered *)
Fixpoint inherit_from (pn own : list ans) (ctr : Z) : list ans * Z :=
  match pn with
  | [] => ([], ctr)
  | a :: r =>
      if has_prefix (ns_prefix a) own then inherit_from r own ctr
      else let '(l, c) := inherit_from r own (ctr + 1) in
           (ANs (ctr + 1) (ns_prefix a) (ns_uri a) :: l, c)
  end.

(** remove the first namespace node with empty prefix and empty URI *)
Fixpoint drop_empty_default (l : list ans) : list ans :=
  match l with
  | [] => []
  | a :: r => if str_eqb (ns_prefix a) [] && str_eqb (ns_uri a) []
              then r else a :: drop_empty_default r
  end.

Definition parent_nss (st : sstate) : list ans :=
  match s_stack st with
  | p :: _ => f_nss p
  | [] => f_nss (s_cur st)          (* root.parent = root *)
  end.

Definition inherit (st : sstate) : sstate :=
  let c := s_cur st in
  if f_pending c then
    let '(l, ctr) := inherit_from (parent_nss st) (f_nss c) (s_ctr st) in
    SState (Frame (f_pos c) (f_name c) (drop_empty_default (f_nss c ++ l))
                  (f_ats c) (f_kids c) false)
           (s_stack st) ctr
  else st.

Fixpoint replace_ns (p u : str) (l : list ans) : option (list ans) :=
  match l with
  | [] => None
  | a :: r =>
      if str_eqb (ns_prefix a) p then Some (ANs (ns_pos a) p u :: r)
      else match replace_ns p u r with
           | Some r' => Some (a :: r')
           | None => None
           end
  end.

Definition close_frame (c : frame) : anode :=
  AElem (f_pos c) (f_name c) (f_nss c) (f_ats c) (f_kids c).

Definition add_kid (f : frame) (k : anode) : frame :=
  Frame (f_pos f) (f_name f) (f_nss f) (f_ats f) (f_kids f ++ [k]) (f_pending f).

Definition store_step (st0 : sstate) (ev : event) : sstate :=
  let st := match ev with EvNs _ _ => st0 | _ => inherit st0 end in
  let c := s_cur st in
  match ev with
  | EvEnd =>
      match s_stack st with
      | p :: rest => SState (add_kid p (close_frame c)) rest (s_ctr st)
      | [] => st                                     (* surplus end at the root *)
      end
  | EvNs p u =>
      match replace_ns p u (f_nss c) with
      | Some l => SState (Frame (f_pos c) (f_name c) l (f_ats c) (f_kids c) (f_pending c))
                         (s_stack st) (s_ctr st)
      | None => SState (Frame (f_pos c) (f_name c) (f_nss c ++ [ANs (s_ctr st + 1) p u])
                              (f_ats c) (f_kids c) (f_pending c))
                       (s_stack st) (s_ctr st + 1)
      end
  | EvAttr nm v =>
      SState (Frame (f_pos c) (f_name c) (f_nss c) (f_ats c ++ [AAt (s_ctr st + 1) nm v])
                    (f_kids c) (f_pending c))
             (s_stack st) (s_ctr st + 1)
  | EvStart nm =>
      SState (Frame (s_ctr st + 1) nm [] [] [] true) (c :: s_stack st) (s_ctr st + 1)
  | EvLeaf l =>
      SState (add_kid c (ALeaf (s_ctr st + 1) l)) (s_stack st) (s_ctr st + 1)
  end.

(** end of input: elements still open stay attached to their parents *)
Fixpoint close_all (c : frame) (stack : list frame) : anode :=
  match stack with
  | [] => close_frame c
  | p :: rest => close_all (add_kid p (close_frame c)) rest
  end.

Definition store_run (evs : list event) : sstate := fold_left store_step evs store_init.

Definition build (evs : list event) : anode :=
  let st := store_run evs in close_all (s_cur st) (s_stack st).
