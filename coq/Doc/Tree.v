(** Documents: parser events, the annotated tree the store builds, node paths. *)
From XV Require Import Base.Str.
Local Open Scope Z_scope.

Record qname := QN { q_space : str; q_local : str }.

Definition qname_eqb (a b : qname) : bool :=
  str_eqb (q_space a) (q_space b) && str_eqb (q_local a) (q_local b).

Inductive leaf :=
| LText (v : str)
| LComment (v : str)
| LPI (target data : str).

(** What a [parser.Parser] hands to the store, one per Pull. *)
Inductive event :=
| EvStart (nm : qname)
| EvNs (prefix uri : str)
| EvAttr (nm : qname) (v : str)
| EvLeaf (l : leaf)
| EvEnd.

Record ans := ANs { ns_pos : Z; ns_prefix : str; ns_uri : str }.
Record aat := AAt { at_pos : Z; at_name : qname; at_val : str }.

(** The tree the store holds: every cursor with its [Pos()]. The root is an
    [AElem] with position 0 (its name is unused). *)
Inductive anode :=
| AElem (pos : Z) (nm : qname) (nss : list ans) (ats : list aat) (kids : list anode)
| ALeaf (pos : Z) (l : leaf).

Definition apos (n : anode) : Z :=
  match n with AElem p _ _ _ _ => p | ALeaf p _ => p end.

Definition akids (n : anode) : list anode :=
  match n with AElem _ _ _ _ k => k | ALeaf _ _ => [] end.
Definition anss (n : anode) : list ans :=
  match n with AElem _ _ n _ _ => n | ALeaf _ _ => [] end.
Definition aats (n : anode) : list aat :=
  match n with AElem _ _ _ a _ => a | ALeaf _ _ => [] end.

(** A node is the path to it from the root; [[]] is the root. *)
Inductive step := SNs (i : nat) | SAt (i : nat) | SCh (i : nat).
Definition path := list step.

Definition step_eqb (a b : step) : bool :=
  match a, b with
  | SNs i, SNs j | SAt i, SAt j | SCh i, SCh j => Nat.eqb i j
  | _, _ => false
  end.

Fixpoint path_eqb (p q : path) : bool :=
  match p, q with
  | [], [] => true
  | a :: p', b :: q' => step_eqb a b && path_eqb p' q'
  | _, _ => false
  end.

Lemma step_eqb_spec a b : step_eqb a b = true <-> a = b.
Proof.
  destruct a, b; simpl; split; intro H; try discriminate;
    try (apply Nat.eqb_eq in H; now subst); inversion H; subst; apply Nat.eqb_refl.
Qed.

Lemma path_eqb_spec p q : path_eqb p q = true <-> p = q.
Proof.
  revert q; induction p as [|a p IH]; intros [|b q]; simpl; split; intro H;
    try reflexivity; try discriminate.
  - apply andb_true_iff in H as [H1 H2]. apply step_eqb_spec in H1. apply IH in H2. now subst.
  - inversion H; subst. apply andb_true_iff. split; [now apply step_eqb_spec | now apply IH].
Qed.

(** What a path denotes. *)
Inductive item :=
| ITree (n : anode)
| INs (a : ans)
| IAt (a : aat).

Fixpoint lookup (n : anode) (p : path) : option item :=
  match p with
  | [] => Some (ITree n)
  | SCh i :: r => match nth_error (akids n) i with
                  | Some c => lookup c r
                  | None => None
                  end
  | SNs i :: r => match r, nth_error (anss n) i with
                  | [], Some a => Some (INs a)
                  | _, _ => None
                  end
  | SAt i :: r => match r, nth_error (aats n) i with
                  | [], Some a => Some (IAt a)
                  | _, _ => None
                  end
  end.

Definition item_pos (it : item) : Z :=
  match it with
  | ITree n => apos n
  | INs a => ns_pos a
  | IAt a => at_pos a
  end.

Inductive nkind := KRoot | KElem | KAttr | KNs | KText | KComment | KPI.

Definition item_kind (p : path) (it : item) : nkind :=
  match it with
  | ITree (AElem _ _ _ _ _) => match p with [] => KRoot | _ => KElem end
  | ITree (ALeaf _ (LText _)) => KText
  | ITree (ALeaf _ (LComment _)) => KComment
  | ITree (ALeaf _ (LPI _ _)) => KPI
  | INs _ => KNs
  | IAt _ => KAttr
  end.

Definition parent_path (p : path) : path := removelast p.

Definition last_step (p : path) : option step :=
  match rev p with [] => None | s :: _ => Some s end.

(** Document order on paths: a proper prefix first, then lexicographic with
    namespaces before attributes before children. *)
Definition step_ltb (a b : step) : bool :=
  match a, b with
  | SNs i, SNs j | SAt i, SAt j | SCh i, SCh j => Nat.ltb i j
  | SNs _, (SAt _ | SCh _) => true
  | SAt _, SCh _ => true
  | _, _ => false
  end.

Fixpoint path_ltb (p q : path) : bool :=
  match p, q with
  | [], [] => false
  | [], _ :: _ => true
  | _ :: _, [] => false
  | a :: p', b :: q' => if step_eqb a b then path_ltb p' q' else step_ltb a b
  end.
