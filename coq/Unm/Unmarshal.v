(** Model of exec/unmarshal.go. Go types and values as trees; the [reflect] operations
    the code performs are primitives that PANIC outside their domain (Type of the
    invalid Value, Elem of a non-pointer, Addr of an unaddressable value, Set of an
    unsettable one, Interface of the invalid Value, NumField of a non-struct, index of
    an empty node-set), called in the order the Go code calls them. The guards of the
    code are separate tests, so that "Unmarshal never panics" is a theorem about the
    guards and not a convention of the model. [reflect] itself is modelled from its
    documentation (trusted, exercised by the correspondence check). *)
From XV Require Import Base.Str Base.Num Doc.Tree Xp.Ast Xp.Nav Xp.Values Xp.Funcs Xp.Eval.
Local Open Scope Z_scope.

Inductive nkind :=
| KInt (bits : Z) (signed : bool)     (* int8..int64, uint8..uint64; int and uint are 64 bits *)
| KF32 | KF64.

Inductive gtag := NoTag | BadTag | Tag (e : expr).    (* BadTag: the tag does not compile *)

Inductive gty :=
| TStr | TBool | TNum (k : nkind)
| TPtr (t : gty)
| TSlice (t : gty)
| TStruct (fields : list (bool * gtag * gty))          (* exported?, xsel tag, type *)
| TOther.                                              (* map, array, chan, func, interface *)

Inductive gval :=
| GStr (s : str) | GBool (b : bool) | GNum (x : fl)
| GUnspec                        (* float -> integer conversion out of range: implementation-defined in Go *)
| GPtr (p : option gval)         (* nil or a pointer to a value *)
| GSlice (l : list gval)
| GStruct (l : list gval)
| GOther.

Fixpoint zero (t : gty) {struct t} : gval :=
  match t with
  | TStr => GStr []
  | TBool => GBool false
  | TNum _ => GNum (S754_zero false)
  | TPtr _ => GPtr None
  | TSlice _ => GSlice []
  | TStruct fs => GStruct ((fix go (l : list (bool * gtag * gty)) : list gval :=
                              match l with [] => [] | (_, _, ft) :: r => zero ft :: go r end) fs)
  | TOther => GOther
  end.

Inductive uout (A : Type) := UOk (a : A) | UErr | UPanic | UFuel.
Arguments UOk {A} a.
Arguments UErr {A}.
Arguments UPanic {A}.
Arguments UFuel {A}.

Definition ubind {A B} (x : uout A) (f : A -> uout B) : uout B :=
  match x with UOk a => f a | UErr => UErr | UPanic => UPanic | UFuel => UFuel end.

(** ** reflect.Value *)
Inductive rvalue :=
| RV (t : gty) (v : gval) (addressable : bool)
| RInvalid.                                            (* the zero Value *)

Definition r_is_valid (r : rvalue) : bool := match r with RV _ _ _ => true | RInvalid => false end.
Definition r_type (r : rvalue) : uout gty := match r with RV t _ _ => UOk t | RInvalid => UPanic end.
Definition r_is_nil (r : rvalue) : uout bool :=
  match r with
  | RV (TPtr _) (GPtr p) _ => UOk (match p with None => true | Some _ => false end)
  | RV (TSlice _) (GSlice l) _ => UOk (match l with [] => true | _ => false end)
  | _ => UPanic
  end.
(** Value.Elem: the pointee (addressable); the zero Value for a nil pointer *)
Definition r_elem (r : rvalue) : uout rvalue :=
  match r with
  | RV (TPtr t) (GPtr (Some x)) _ => UOk (RV t x true)
  | RV (TPtr _) (GPtr None) _ => UOk RInvalid
  | _ => UPanic
  end.
Definition r_can_addr (r : rvalue) : bool := match r with RV _ _ a => a | RInvalid => false end.
(** Value.Interface: panics on the zero Value *)
Definition r_interface (r : rvalue) : uout (gty * gval) := match r with RV t v _ => UOk (t, v) | RInvalid => UPanic end.

(** ** conversions of results to field values (createValue) *)
Definition is_basic (t : gty) : bool := match t with TStr | TBool | TNum _ => true | _ => false end.

(** float64 -> float32 -> (exactly) float64 *)
Definition to_f32 (x : fl) : fl :=
  match x with
  | S754_finite s m e =>
      match binary_normalize 24 128 (if s then Zneg m else Zpos m) e s with
      | S754_finite s' m' e' => binary_normalize prec emax (if s' then Zneg m' else Zpos m') e' s'   (* exact *)
      | y => y
      end
  | _ => x
  end.

(** truncation toward zero of the exact value *)
Definition trunc_Z (x : fl) : option Z :=
  match x with
  | S754_zero _ => Some 0
  | S754_finite s m e =>
      let a := if Z.leb 0 e then Zpos m * 2 ^ e else Zpos m / 2 ^ (- e) in
      Some (if s then - a else a)
  | _ => None
  end.

Definition conv_num (k : nkind) (x : fl) : gval :=
  match k with
  | KF64 => GNum x
  | KF32 => GNum (to_f32 x)
  | KInt bits signed =>
      match trunc_Z x with
      | None => GUnspec
      | Some z =>
          let lo := if signed then - 2 ^ (bits - 1) else 0 in
          let hi := if signed then 2 ^ (bits - 1) - 1 else 2 ^ bits - 1 in
          if Z.leb lo z && Z.leb z hi then GNum (f_of_Z z) else GUnspec
      end
  end.

Definition create_value (d : anode) (t : gty) (r : value) : option gval :=
  match t with
  | TStr => Some (GStr (to_str d r))
  | TBool => Some (GBool (to_bool r))
  | TNum k => Some (conv_num k (to_num d r))
  | _ => None
  end.

(** pointer stripping of a TYPE (fieldType.Elem() while Kind() == Pointer) *)
Fixpoint strip_ty (t : gty) : gty * nat :=
  match t with TPtr t' => let '(b, n) := strip_ty t' in (b, S n) | _ => (t, O) end.

(** wrap a value in [n] freshly allocated pointers (reflect.New + Set) *)
Fixpoint wrap_ptrs (n : nat) (v : gval) : gval :=
  match n with O => v | S k => GPtr (Some (wrap_ptrs k v)) end.

(** setField(name, field, val, false): [exported] is what makes the field settable;
    the new value has the field's base type by construction, so it is assignable *)
Definition set_field (exported : bool) (ft : gty) (v : gval) : uout gval :=
  let '(_, n) := strip_ty ft in
  if exported then UOk (wrap_ptrs n v) else UErr.     (* "field %s is not settable" *)

Section Unm.
  Variable en : env.                                   (* document and bindings of the settings *)

  (** the sub-query of a field tag, from the struct's node *)
  Definition exec_tag (c : path) (e : expr) : res value :=
    exec (Env (e_doc en) c (e_ns en) (e_vars en) (e_funs en) (e_asis en)) e.

  (** unmarshalStruct's loop over the fields; [rec] is the recursive [unmarshal] *)
  Fixpoint fields_fn (rec : value -> rvalue -> uout gval) (c : path)
           (fs : list (bool * gtag * gty)) (vals : list gval) {struct fs} : uout gval :=
    match fs, vals with
    | [], _ => UOk (GStruct [])
    | (exported, tag, ft) :: fr, old :: vr =>
        let keep (nv : gval) :=
          ubind (fields_fn rec c fr vr) (fun g => match g with GStruct l => UOk (GStruct (nv :: l)) | _ => UPanic end) in
        match tag with
        | NoTag => keep old                               (* untagged fields are left untouched *)
        | BadTag => UErr                                  (* the tag does not compile *)
        | Tag e =>
            match exec_tag c e with
            | Err => UErr
            | Ok res =>
                let bt := fst (strip_ty ft) in
                match create_value (e_doc en) bt res with
                | Some nv => ubind (set_field exported ft nv) keep
                | None =>
                    (* ptr := reflect.New(fieldType); unmarshal(result, ptr.Interface()) *)
                    ubind (rec res (RV (TPtr bt) (GPtr (Some (zero bt))) false)) (fun pv =>
                    match pv with
                    | GPtr (Some nv) => ubind (set_field exported ft nv) keep
                    | _ => UPanic
                    end)
                end
            end
        end
    | _ :: _, [] => UPanic
    end.

  (** unmarshalSlice's loop over the nodes *)
  Fixpoint elems_fn (rec : value -> rvalue -> uout gval) (bt : gty) (n : nat) (settable : bool)
           (l : list path) (acc : list gval) {struct l} : uout gval :=
    match l with
    | [] => UOk (GSlice acc)
    | i :: rest =>
        match bt with
        | TSlice _ => UErr                                (* 1-dimensional slices only *)
        | TStruct _ =>
            ubind (rec (VNodes [i]) (RV (TPtr bt) (GPtr (Some (zero bt))) false)) (fun pv =>
            match pv with
            | GPtr (Some nv) => if settable then elems_fn rec bt n settable rest (acc ++ [wrap_ptrs n nv]) else UErr
            | _ => UPanic
            end)
        | _ =>
            match create_value (e_doc en) bt (VNodes [i]) with
            | Some nv => if settable then elems_fn rec bt n settable rest (acc ++ [wrap_ptrs n nv]) else UErr
            | None => UErr                                (* "invalid slice element type" *)
            end
        end
    end.

  (** [unmarshal result (value any)]: fuel bounds the nesting of types *)
  Fixpoint unmarshal (fuel : nat) (result : value) (r : rvalue) {struct fuel} : uout gval :=
    match fuel with
    | O => UFuel
    | S fuel' =>
        (* for typ.Kind() == Pointer { if val.IsNil() -> error; val = val.Elem() } *)
        ubind (r_type r) (fun t =>
        match t with
        | TPtr _ =>
            ubind (r_is_nil r) (fun isnil =>
            if isnil then UErr
            else ubind (r_elem r) (fun r' =>
                 ubind (unmarshal fuel' result r') (fun v' => UOk (GPtr (Some v')))))
        | TStruct fs =>
            if negb (r_can_addr r) then UErr              (* "struct unmarshals must operate on a pointer" *)
            else
              match r with
              | RV _ (GStruct vals) _ =>
                  match result with
                  | VNodes [c] => fields_fn (unmarshal fuel') c fs vals
                  | _ => UErr                             (* not a node-set with one result *)
                  end
              | _ => UPanic
              end
        | TSlice et =>
            match result with
            | VNodes nodes =>
                (* reflect.TypeOf(val.Interface()) *)
                ubind (r_interface r) (fun _ =>
                match r with
                | RV _ (GSlice old) settable =>
                    elems_fn (unmarshal fuel') (fst (strip_ty et)) (snd (strip_ty et)) settable nodes old
                | _ => UPanic
                end)
            | _ => UErr                                   (* "slice unmarshals must operate on a NodeSet" *)
            end
        | _ => UErr                                       (* "unsupported data type" *)
        end)
    end.

  (** what the caller hands to Unmarshal: the nil interface, or a value of some type *)
  Inductive target := TgNil | TgVal (t : gty) (v : gval).

  Fixpoint ty_depth (t : gty) {struct t} : nat :=
    match t with
    | TPtr t' | TSlice t' => S (ty_depth t')
    | TStruct fs => S ((fix go (l : list (bool * gtag * gty)) : nat :=
                          match l with [] => O | (_, _, ft) :: r => Nat.max (ty_depth ft) (go r) end) fs)
    | _ => 1%nat
    end.

  Definition unmarshal_top (result : value) (tg : target) : uout gval :=
    match tg with
    | TgNil => UErr                                    (* !val.IsValid() *)
    | TgVal t v => unmarshal (2 * ty_depth t + 4) result (RV t v false)
    end.
End Unm.
