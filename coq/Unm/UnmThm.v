(** C19 / C15: Unmarshal never reaches a panicking reflect operation, fills tagged
    fields with the converted results of their tag queries, leaves untagged fields
    untouched, appends one element per node to slice targets, and rejects targets it
    cannot fill with an error. *)
From Coq Require Import Lia.
From XV Require Import Base.Str Base.Num Doc.Tree Xp.Ast Xp.Nav Xp.Values Xp.Funcs Xp.Eval Unm.Unmarshal.

(** a value of a type *)
Fixpoint has_ty (t : gty) (v : gval) {struct t} : Prop :=
  match t with
  | TStr => exists s, v = GStr s
  | TBool => exists b, v = GBool b
  | TNum _ => (exists x, v = GNum x) \/ v = GUnspec
  | TPtr t' => v = GPtr None \/ exists x, v = GPtr (Some x) /\ has_ty t' x
  | TSlice t' => exists l, v = GSlice l /\ Forall (has_ty t') l
  | TStruct fs =>
      exists vals, v = GStruct vals /\
        (fix go (fs : list (bool * gtag * gty)) (vals : list gval) {struct fs} : Prop :=
           match fs, vals with
           | [], [] => True
           | (_, _, ft) :: fr, x :: vr => has_ty ft x /\ go fr vr
           | _, _ => False
           end) fs vals
  | TOther => True
  end.

Fixpoint fields_ty (fs : list (bool * gtag * gty)) (vals : list gval) {struct fs} : Prop :=
  match fs, vals with
  | [], [] => True
  | (_, _, ft) :: fr, x :: vr => has_ty ft x /\ fields_ty fr vr
  | _, _ => False
  end.

Lemma has_ty_struct fs v : has_ty (TStruct fs) v <-> exists vals, v = GStruct vals /\ fields_ty fs vals.
Proof.
  assert (E : forall vals,
             (fix go (fs : list (bool * gtag * gty)) (vals : list gval) {struct fs} : Prop :=
                match fs, vals with
                | [], [] => True
                | (_, _, ft) :: fr, x :: vr => has_ty ft x /\ go fr vr
                | _, _ => False
                end) fs vals = fields_ty fs vals).
  { intros vals. reflexivity. }
  simpl. split; intros (vals & -> & H); exists vals; (split; [reflexivity|]); [rewrite <- E|rewrite E]; exact H.
Qed.

Section gty_ind.
  Variable P : gty -> Prop.
  Hypothesis HS : P TStr.
  Hypothesis HB : P TBool.
  Hypothesis HN : forall k, P (TNum k).
  Hypothesis HP : forall t, P t -> P (TPtr t).
  Hypothesis HL : forall t, P t -> P (TSlice t).
  Hypothesis HT : forall fs, Forall (fun f => P (snd f)) fs -> P (TStruct fs).
  Hypothesis HO : P TOther.
  Fixpoint gty_ind' (t : gty) : P t :=
    match t with
    | TStr => HS | TBool => HB | TNum k => HN k
    | TPtr t' => HP t' (gty_ind' t')
    | TSlice t' => HL t' (gty_ind' t')
    | TStruct fs => HT fs ((fix go (l : list (bool * gtag * gty)) : Forall (fun f => P (snd f)) l :=
                              match l with [] => Forall_nil _ | f :: r => Forall_cons f (gty_ind' (snd f)) (go r) end) fs)
    | TOther => HO
    end.
End gty_ind.

Lemma zero_struct fs : zero (TStruct fs) = GStruct (map (fun f => zero (snd f)) fs).
Proof.
  simpl. f_equal. induction fs as [|[[ex tg] ft] fr IH]; simpl; [reflexivity|]. now rewrite IH.
Qed.

Lemma zero_has_ty : forall t, has_ty t (zero t).
Proof.
  induction t as [| |k|t IH|t IH|fs IH|] using gty_ind'.
  - now exists [].
  - now exists false.
  - left. eexists. reflexivity.
  - now left.
  - exists []. split; [reflexivity|constructor].
  - apply has_ty_struct. rewrite zero_struct. eexists. split; [reflexivity|].
    induction IH as [|[[ex tg] ft] fr Hf Hr IHr]; simpl; auto.
  - exact I.
Qed.

Section Thm.
  Variable en : env.

  (** the pointer branch returns a pointer to the filled pointee *)
  Lemma unmarshal_ptr_shape fuel result t v a g :
    unmarshal en fuel result (RV (TPtr t) v a) = UOk g -> exists x, g = GPtr (Some x).
  Proof.
    destruct fuel as [|f]; [discriminate|]. cbn [unmarshal r_type ubind].
    destruct (r_is_nil (RV (TPtr t) v a)) as [b| | |]; cbn [ubind]; try discriminate.
    destruct b; [discriminate|].
    destruct (r_elem (RV (TPtr t) v a)) as [r'| | |]; cbn [ubind]; try discriminate.
    destruct (unmarshal en f result r') as [v'| | |]; cbn [ubind]; try discriminate.
    intros H; inversion H; eauto.
  Qed.

  Definition rec_ok (rec : value -> rvalue -> uout gval) : Prop :=
    (forall result t v a, has_ty t v -> rec result (RV t v a) <> UPanic) /\
    (forall result t v a g, rec result (RV (TPtr t) v a) = UOk g -> exists x, g = GPtr (Some x)).

  Lemma fields_fn_shape rec c : forall fs vals g, fields_fn en rec c fs vals = UOk g -> exists l, g = GStruct l.
  Proof.
    induction fs as [|[[ex tg] ft] fr IH]; intros vals g H; simpl in H.
    - inversion H; eauto.
    - destruct vals as [|old vr]; [discriminate|].
      assert (Hkeep : forall nv g',
                ubind (fields_fn en rec c fr vr)
                      (fun g0 => match g0 with GStruct l => UOk (GStruct (nv :: l)) | _ => UPanic end) = UOk g' ->
                exists l, g' = GStruct l).
      { intros nv g' Hk. destruct (fields_fn en rec c fr vr) as [g0| | |] eqn:E; cbn [ubind] in Hk; try discriminate.
        destruct (IH vr g0 E) as [l ->]. inversion Hk; eauto. }
      destruct tg as [| |e].
      + eapply Hkeep; eauto.
      + discriminate.
      + destruct (exec_tag en c e) as [res|]; [|discriminate].
        destruct (create_value (e_doc en) (fst (strip_ty ft)) res) as [nv|].
        * unfold set_field in H. destruct (strip_ty ft) as [b n]. destruct ex; cbn [ubind] in H; [|discriminate].
          eapply Hkeep; eauto.
        * destruct (rec res _) as [pv| | |]; cbn [ubind] in H; try discriminate.
          destruct pv as [| | | |[nv|]| | |]; try discriminate.
          unfold set_field in H. destruct (strip_ty ft) as [b n]. destruct ex; cbn [ubind] in H; [|discriminate].
          eapply Hkeep; eauto.
  Qed.

  Lemma fields_fn_no_panic rec c : rec_ok rec -> forall fs vals, fields_ty fs vals -> fields_fn en rec c fs vals <> UPanic.
  Proof.
    intros [Hrec Hshape]. induction fs as [|[[ex tg] ft] fr IH]; intros vals Hty; simpl.
    - discriminate.
    - destruct vals as [|old vr]; [destruct Hty|]. destruct Hty as [_ Hty].
      assert (Hkeep : forall nv,
                ubind (fields_fn en rec c fr vr)
                      (fun g0 => match g0 with GStruct l => UOk (GStruct (nv :: l)) | _ => UPanic end) <> UPanic).
      { intros nv. destruct (fields_fn en rec c fr vr) as [g0| | |] eqn:E; cbn [ubind]; try discriminate.
        - destruct (fields_fn_shape rec c fr vr g0 E) as [l ->]. discriminate.
        - exfalso. eapply IH; eauto. }
      destruct tg as [| |e]; [apply Hkeep|discriminate|].
      destruct (exec_tag en c e) as [res|]; [|discriminate].
      destruct (create_value (e_doc en) (fst (strip_ty ft)) res) as [nv|].
      + unfold set_field. destruct (strip_ty ft) as [b n]. destruct ex; cbn [ubind]; [apply Hkeep|discriminate].
      + destruct (rec res (RV (TPtr (fst (strip_ty ft))) (GPtr (Some (zero (fst (strip_ty ft))))) false)) as [pv| | |] eqn:E;
          cbn [ubind]; try discriminate.
        * destruct (Hshape _ _ _ _ _ E) as [x ->].
          unfold set_field. destruct (strip_ty ft) as [b n]. destruct ex; cbn [ubind]; [apply Hkeep|discriminate].
        * exfalso. eapply Hrec; [|exact E]. right. eexists. split; [reflexivity|apply zero_has_ty].
  Qed.

  Lemma elems_fn_no_panic rec bt n settable : rec_ok rec -> forall l acc, elems_fn en rec bt n settable l acc <> UPanic.
  Proof.
    intros [Hrec Hshape]. induction l as [|i rest IH]; intros acc; simpl; [discriminate|].
    destruct bt; try (destruct (create_value _ _ _); [destruct settable; [apply IH|discriminate]|discriminate]);
      try discriminate.
    destruct (rec (VNodes [i]) _) as [pv| | |] eqn:E; cbn [ubind]; try discriminate.
    - destruct (Hshape _ _ _ _ _ E) as [x ->]. destruct settable; [apply IH|discriminate].
    - exfalso. eapply Hrec; [|exact E]. right. eexists. split; [reflexivity|apply zero_has_ty].
  Qed.

  (** THE no-panic theorem (C15 / C19): for every fuel, result and well-typed target
      value, Unmarshal never reaches a reflect operation outside its domain *)
  Theorem unmarshal_no_panic : forall fuel result t v a, has_ty t v -> unmarshal en fuel result (RV t v a) <> UPanic.
  Proof.
    induction fuel as [|f IH]; intros result t v a Hty; [discriminate|].
    assert (Hrec : rec_ok (unmarshal en f)).
    { split; [exact IH|]. intros. eapply unmarshal_ptr_shape; eauto. }
    cbn [unmarshal r_type ubind]. destruct t as [| |k|t'|t'|fs|].
    - discriminate.
    - discriminate.
    - discriminate.
    - simpl in Hty. destruct Hty as [->|(x & -> & Hx)]; cbn [r_is_nil r_elem ubind]; [discriminate|].
      destruct (unmarshal en f result (RV t' x true)) eqn:E; cbn [ubind]; try discriminate.
      exfalso. eapply IH; eauto.
    - destruct result; try discriminate. cbn [r_interface ubind].
      simpl in Hty. destruct Hty as (l0 & -> & Hl). now apply elems_fn_no_panic.
    - apply has_ty_struct in Hty as (vals & -> & Hvals).
      destruct (negb (r_can_addr (RV (TStruct fs) (GStruct vals) a))); [discriminate|].
      destruct result as [[|c [|c2 l]]| | |]; try discriminate. now apply fields_fn_no_panic.
    - discriminate.
  Qed.

  Corollary unmarshal_top_no_panic result tg :
    match tg with TgNil => True | TgVal t v => has_ty t v end -> unmarshal_top en result tg <> UPanic.
  Proof. destruct tg; [discriminate|]. intros H. now apply unmarshal_no_panic. Qed.

  (** ** what is filled *)

  (** untagged fields keep their previous value *)
  Theorem untagged_field_untouched rec c ex ft fr old vr g :
    fields_fn en rec c ((ex, NoTag, ft) :: fr) (old :: vr) = UOk g ->
    exists l, g = GStruct (old :: l) /\ fields_fn en rec c fr vr = UOk (GStruct l).
  Proof.
    simpl. destruct (fields_fn en rec c fr vr) as [g0| | |] eqn:E; cbn [ubind]; try discriminate.
    destruct g0; try discriminate. intros H; inversion H; eauto.
  Qed.

  (** a tagged field of a basic type (behind any number of pointers) receives the
      conversion of the tag query's result, evaluated from the struct's node, behind
      that many freshly allocated pointers *)
  Theorem tagged_basic_field rec c ft e fr old vr g res nv :
    exec_tag en c e = Ok res -> create_value (e_doc en) (fst (strip_ty ft)) res = Some nv ->
    fields_fn en rec c ((true, Tag e, ft) :: fr) (old :: vr) = UOk g ->
    exists l, g = GStruct (wrap_ptrs (snd (strip_ty ft)) nv :: l) /\ fields_fn en rec c fr vr = UOk (GStruct l).
  Proof.
    intros He Hc. simpl. rewrite He, Hc. unfold set_field. destruct (strip_ty ft) as [b n]. cbn [ubind snd].
    destruct (fields_fn en rec c fr vr) as [g0| | |] eqn:E; cbn [ubind]; try discriminate.
    destruct g0; try discriminate. intros H; inversion H; eauto.
  Qed.

  Theorem create_value_conversions d r :
    create_value d TStr r = Some (GStr (to_str d r)) /\
    create_value d TBool r = Some (GBool (to_bool r)) /\
    (forall k, create_value d (TNum k) r = Some (conv_num k (to_num d r))) /\
    create_value d TOther r = None.
  Proof. repeat split. Qed.

  (** errors of the field loop *)
  Theorem unexported_tagged_field_is_error rec c ft e fr old vr res nv :
    exec_tag en c e = Ok res -> create_value (e_doc en) (fst (strip_ty ft)) res = Some nv ->
    fields_fn en rec c ((false, Tag e, ft) :: fr) (old :: vr) = UErr.
  Proof. intros He Hc. simpl. rewrite He, Hc. unfold set_field. now destruct (strip_ty ft). Qed.

  Theorem failing_tag_query_is_error rec c ex ft e fr old vr :
    exec_tag en c e = Err -> fields_fn en rec c ((ex, Tag e, ft) :: fr) (old :: vr) = UErr.
  Proof. intros He. simpl. now rewrite He. Qed.

  (** a slice target grows by one element per node, in node-set order, after its
      previous contents *)
  Theorem slice_one_element_per_node rec bt n : forall l acc g,
    elems_fn en rec bt n true l acc = UOk g ->
    exists added, g = GSlice (acc ++ added) /\ length added = length l.
  Proof.
    induction l as [|i rest IH]; intros acc g H; simpl in H.
    - inversion H. exists []. now rewrite app_nil_r.
    - assert (Hstep : forall nv, elems_fn en rec bt n true rest (acc ++ [wrap_ptrs n nv]) = UOk g ->
                exists added, g = GSlice (acc ++ added) /\ length added = S (length rest)).
      { intros nv Hs. destruct (IH _ _ Hs) as (added & -> & Hl). exists (wrap_ptrs n nv :: added).
        split; [now rewrite <- app_assoc|simpl; lia]. }
      destruct bt; try discriminate;
        try (destruct (create_value _ _ _) as [nv|]; [eapply Hstep; eauto|discriminate]).
      destruct (rec (VNodes [i]) _) as [pv| | |]; cbn [ubind] in H; try discriminate.
      destruct pv as [| | | |[nv|]| | |]; try discriminate. eapply Hstep; eauto.
  Qed.

  (** ** targets that cannot be filled *)
  Theorem nil_target_is_error result : unmarshal_top en result TgNil = UErr.
  Proof. reflexivity. Qed.

  Theorem non_pointer_struct_is_error fuel result fs v : unmarshal en (S fuel) result (RV (TStruct fs) v false) = UErr.
  Proof. reflexivity. Qed.

  Theorem nil_pointer_is_error fuel result t a : unmarshal en (S fuel) result (RV (TPtr t) (GPtr None) a) = UErr.
  Proof. reflexivity. Qed.

  (** a nil pointer anywhere in the chain *)
  Theorem nil_inner_pointer_is_error fuel result t a :
    unmarshal en (S (S fuel)) result (RV (TPtr (TPtr t)) (GPtr (Some (GPtr None))) a) = UErr.
  Proof. reflexivity. Qed.

  Theorem unsupported_kind_is_error fuel result v a :
    unmarshal en (S fuel) result (RV TOther v a) = UErr /\
    unmarshal en (S fuel) result (RV TStr v a) = UErr /\
    unmarshal en (S fuel) result (RV TBool v a) = UErr /\
    (forall k, unmarshal en (S fuel) result (RV (TNum k) v a) = UErr).
  Proof. repeat split. Qed.

  Theorem multi_dimensional_slice_is_error rec n s i rest acc t :
    elems_fn en rec (TSlice t) n s (i :: rest) acc = UErr.
  Proof. reflexivity. Qed.

  Theorem unsupported_slice_element_is_error rec n s i rest acc :
    elems_fn en rec TOther n s (i :: rest) acc = UErr.
  Proof. reflexivity. Qed.

  Theorem non_settable_slice_is_error rec n i rest acc bt nv :
    create_value (e_doc en) bt (VNodes [i]) = Some nv ->
    match bt with TSlice _ | TStruct _ => False | _ => True end ->
    elems_fn en rec bt n false (i :: rest) acc = UErr.
  Proof. intros Hc Hb. simpl. destruct bt; try destruct Hb; now rewrite Hc. Qed.

  Theorem struct_needs_one_node fuel fs vals v :
    (forall c, v <> VNodes [c]) -> unmarshal en (S fuel) v (RV (TStruct fs) (GStruct vals) true) = UErr.
  Proof.
    intros H. cbn [unmarshal r_type ubind r_can_addr negb].
    destruct v as [[|c [|c2 l]]| | |]; try reflexivity. exfalso. eapply H. reflexivity.
  Qed.

  Theorem slice_needs_a_nodeset fuel t v r :
    (forall l, v <> VNodes l) -> unmarshal en (S fuel) v (RV (TSlice t) r true) = UErr.
  Proof.
    intros H. cbn [unmarshal r_type ubind]. destruct v; try reflexivity. exfalso. eapply H. reflexivity.
  Qed.
End Thm.
