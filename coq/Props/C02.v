(** Property C02 — predicates use per-context-node proximity position and the true
    context size. Statements only; proofs are in Xp/EvalThm.v and Xp/NodeSetThm.v. *)
From Coq Require Import Sorting.Sorted.
From XV Require Import Base.Str Base.Num Doc.Tree Doc.Store Xp.Ast Xp.Nav Xp.Axes Xp.Values Xp.Eval
  Xp.SortThm Xp.NodeSetThm Xp.EvalThm.
From Coq Require String.
Import String.StringSyntax.
Local Open Scope Z_scope.
Local Open Scope string_scope.

(** a step is evaluated separately for each context node: from one context node the
    candidates are listed in AXIS order (nearest first for a reverse axis, document
    order otherwise), pass the node test, and are then filtered by the predicates *)
Theorem C02_candidates_per_context_node_in_axis_order : forall en a t preds p l,
  step_from en a t preds p = Ok l ->
  exists rt cands,
    resolve_test en a t = Ok rt /\
    cands = filter (test_node (e_doc en) (principal_of a) rt) (select (e_doc en) a [p]) /\
    apply_preds en preds cands = Ok l /\
    (if axis_reverse a then StronglySorted (pos_gt (e_doc en)) cands
     else StronglySorted (pos_lt (e_doc en)) cands).
Proof. exact step_candidates_in_axis_order. Qed.

(** every candidate is the single context node of its own predicate evaluation, its
    position is its 1-based index among the candidates and the size their number *)
Theorem C02_position_is_index_size_is_count : forall en f size l i l',
  filter_pred en f size i l = Ok l' ->
  forall k p, nth_error l k = Some p ->
  exists v, f (Ctx [p] (i + Z.of_nat k) size) = Ok v /\
            (pred_keeps en (i + Z.of_nat k) v = true -> In p l').
Proof. exact filter_pred_contexts. Qed.

Theorem C02_last_is_number_of_candidates_that_reached_the_predicate : forall en f fs l,
  apply_preds en (f :: fs) l =
  match filter_pred en f (Z.of_nat (length l)) 1 l with
  | Ok l' => apply_preds en fs l'
  | Err => Err
  end.
Proof. exact apply_preds_cons_size. Qed.

Theorem C02_position_function : forall en c, not_shadowed en "position" ->
  eval en (ECall (None, lit "position") []) c = Ok (VNum (f_of_Z (c_pos c))).
Proof. exact eval_position. Qed.

Theorem C02_last_function : forall en c, not_shadowed en "last" ->
  eval en (ECall (None, lit "last") []) c = Ok (VNum (f_of_Z (c_size c))).
Proof. exact eval_last. Qed.

(** [n] is exactly [position() = n] for every number-valued predicate *)
Theorem C02_numeric_predicate_is_position_test : forall en e size, not_shadowed en "position" ->
  forall l i,
  (forall p k, In p l -> exists x, eval en e (Ctx [p] k size) = Ok (VNum x)) ->
  filter_pred en (eval en e) size i l = filter_pred en (eval en (pos_eq e)) size i l.
Proof. exact numeric_predicate_is_position_test. Qed.

Theorem C02_nan_selects_nothing : forall en i, pred_keeps en i (VNum S754_nan) = false.
Proof. exact nan_predicate_selects_nothing. Qed.

(** a constant number keeps only the candidate whose index equals it under IEEE
    equality: fractions and out-of-range numbers select nothing *)
Theorem C02_constant_number_selects_by_index : forall en x size l i l',
  filter_pred en (fun _ => Ok (VNum x)) size i l = Ok l' ->
  forall p, In p l' -> exists k, nth_error l k = Some p /\ feqb (f_of_Z (i + Z.of_nat k)) x = true.
Proof. exact filter_pred_const_num. Qed.

(** successive predicates renumber the survivors *)
Theorem C02_successive_predicates_renumber : forall en fs gs l,
  apply_preds en (fs ++ gs)%list l =
  match apply_preds en fs l with Ok l' => apply_preds en gs l' | Err => Err end.
Proof. exact apply_preds_app. Qed.

(** predicates only remove candidates and keep their order *)
Theorem C02_result_is_ordered_subsequence : forall en fs l l',
  apply_preds en fs l = Ok l' -> forall R : path -> path -> Prop, StronglySorted R l -> StronglySorted R l'.
Proof. exact apply_preds_sublist. Qed.

(** a predicate on a filter expression numbers the node-set in document order ... *)
Theorem C02_filter_expression_numbers_in_document_order : forall en e0 p ps c l',
  eval en (EFilter e0 (p :: ps) []) c = Ok (VNodes l') ->
  exists l, eval en e0 c = Ok (VNodes l) /\
            apply_preds en (map (fun q => eval en q) (p :: ps)) (cleanup_forward (e_doc en) l) = Ok l'.
Proof. exact filter_expr_numbers_in_document_order. Qed.

(** ... and a path continued after it is evaluated from the filtered nodes *)
Theorem C02_path_after_filter_starts_from_filtered_nodes : forall en e0 preds s steps c,
  eval en (EFilter e0 preds (s :: steps)) c =
  match eval en (EFilter e0 preds []) c with
  | Ok (VNodes l) => run_steps (map (fun s => eval_step en s) (s :: steps)) c (VNodes l)
  | Ok _ => Err
  | Err => Err
  end.
Proof. exact filter_expr_path_continues_from_filtered. Qed.

(** non-vacuity: //b/ancestor::*[1] style numbering on a concrete document — the
    nearest ancestor is position 1 on the reverse axis, [2.5] selects nothing *)
Definition ex_doc : anode :=
  build [EvStart (QN [] [97%N]); EvStart (QN [] [98%N]); EvStart (QN [] [99%N]); EvEnd; EvEnd; EvEnd].
Definition ex_env : env := Env ex_doc [] [] [] [] false.
Example C02_example_reverse_axis_position :
  exec ex_env (EPath true [SAxis Descendant (NTName [99%N]) [];
                           SAxis Ancestor NTAny [ENum [49%N]]]) = Ok (VNodes [[SCh 0; SCh 0]]) /\
  exec ex_env (EPath true [SAxis Descendant (NTName [99%N]) [];
                           SAxis Ancestor NTAny [ENum [50%N; 46%N; 53%N]]]) = Ok (VNodes []) /\
  exec ex_env (EPath true [SAxis Descendant (NTName [99%N]) [];
                           SAxis Ancestor NTAny [ECall (None, lit "last") []]]) = Ok (VNodes [[SCh 0]]).
Proof. vm_compute. repeat split. Qed.
