(** Property C03 — node-set results are duplicate-free, ordered, closed under the
    union laws. Statements only; proofs are in Xp/SortThm.v, Xp/NodeSetThm.v and
    Xp/ValidThm.v (the bridge to C10: every returned node is a node of the document, so
    on every tree the store builds "sorted by Pos" is "sorted in document order"). *)
From Coq Require Import Sorting.Sorted.
From XV Require Import Base.Str Base.Num Doc.Tree Doc.Store Doc.StoreThm Doc.Conform Doc.DocOrder Xp.Ast Xp.Nav Xp.Axes Xp.Values Xp.Eval Xp.SortThm Xp.NodeSetThm Xp.ValidThm.
Local Open Scope Z_scope.

(** every location path ending in an axis step: strictly ascending for a forward
    axis, strictly descending for a reverse axis — never a mixture, never a duplicate *)
Theorem C03_path_monotone : forall en abs steps a t preds c l,
  eval en (EPath abs (steps ++ [SAxis a t preds])) c = Ok (VNodes l) ->
  if axis_reverse a then StronglySorted (pos_gt (e_doc en)) l else StronglySorted (pos_lt (e_doc en)) l.
Proof. exact path_result_monotone. Qed.

Theorem C03_step_no_duplicates : forall en a t preds v l,
  axis_step en a t preds v = Ok (VNodes l) -> NoDup l.
Proof. exact axis_step_NoDup. Qed.

Theorem C03_union_ascending : forall en a b c l,
  eval en (EUnion a b) c = Ok (VNodes l) -> StronglySorted (pos_lt (e_doc en)) l /\ NoDup l.
Proof. exact eval_union_ascending. Qed.

Theorem C03_filter_ascending : forall en e0 p preds c l,
  eval en (EFilter e0 (p :: preds) []) c = Ok (VNodes l) -> StronglySorted (pos_lt (e_doc en)) l.
Proof. exact filter_result_ascending. Qed.

(** only nodes the step reached are returned (no foreign node appears) *)
Theorem C03_cleanup_members : forall d l p, In p (cleanup_forward d l) -> In p l.
Proof. exact cleanup_forward_incl. Qed.

(** union laws, as equalities of the returned lists; the hypothesis (positions
    identify nodes) is what C10 proves of every tree the store builds *)
Theorem C03_union_commutative : forall d l r, pos_inj_on d (l ++ r) -> union d l r = union d r l.
Proof. exact union_comm. Qed.
Theorem C03_union_associative : forall d l r t,
  pos_inj_on d (l ++ r ++ t) -> union d (union d l r) t = union d l (union d r t).
Proof. exact union_assoc. Qed.
Theorem C03_union_idempotent : forall d l, pos_inj_on d l -> union d l l = cleanup_forward d l.
Proof. exact union_idem. Qed.
Theorem C03_union_members : forall d l r p,
  pos_inj_on d (l ++ r) -> (In p (union d l r) <-> In p l \/ In p r).
Proof. exact union_mem. Qed.

(** non-vacuity: a concrete document and node lists on which the hypotheses hold
    and the union is not trivial *)
Definition ex_doc : anode :=
  build [EvStart (QN [] [97%N]); EvStart (QN [] [98%N]); EvEnd; EvStart (QN [] [99%N]); EvEnd; EvEnd].
Example C03_union_example :
  union ex_doc [[SCh 0; SCh 1]; [SCh 0]] [[SCh 0; SCh 0]; [SCh 0]] = [[SCh 0]; [SCh 0; SCh 0]; [SCh 0; SCh 1]].
Proof. vm_compute. reflexivity. Qed.

(** ** the same in DOCUMENT order (the order on nodes itself), with nothing assumed about
    positions: for a document-ordered tree (every tree the store builds: C10), a valid
    cursor and bound node-sets made of nodes of the document *)

(** every node an evaluation returns is a node of the document *)
Theorem C03_results_are_document_nodes : forall en : env,
  doc_ordered (e_doc en) -> valid (e_doc en) (e_root en) = true ->
  (forall q v, assoc_q q (e_vars en) = Some v -> vok en v) ->
  (forall q v, assoc_q q (e_funs en) = Some (UConst v) -> vok en v) ->
  (forall e c v, cok en c -> eval en e c = Ok v -> vok en v) /\
  (forall s c v v', cok en c -> vok en v -> eval_step en s c v = Ok v' -> vok en v').
Proof. exact eval_valid. Qed.

Theorem C03_path_document_order : forall en : env,
  doc_ordered (e_doc en) -> valid (e_doc en) (e_root en) = true ->
  (forall q v, assoc_q q (e_vars en) = Some v -> vok en v) ->
  (forall q v, assoc_q q (e_funs en) = Some (UConst v) -> vok en v) ->
  forall abs steps a t preds c l, cok en c ->
  eval en (EPath abs (steps ++ [SAxis a t preds])) c = Ok (VNodes l) ->
  (forall p, In p l -> valid (e_doc en) p = true) /\
  (if axis_reverse a then StronglySorted (fun x y => plt y x) l else StronglySorted plt l).
Proof. exact path_result_document_order. Qed.

Theorem C03_union_document_order : forall en : env,
  doc_ordered (e_doc en) -> valid (e_doc en) (e_root en) = true ->
  (forall q v, assoc_q q (e_vars en) = Some v -> vok en v) ->
  (forall q v, assoc_q q (e_funs en) = Some (UConst v) -> vok en v) ->
  forall a b c l, cok en c -> eval en (EUnion a b) c = Ok (VNodes l) ->
  (forall p, In p l -> valid (e_doc en) p = true) /\ StronglySorted plt l /\ NoDup l.
Proof. exact union_document_order. Qed.

Theorem C03_filter_document_order : forall en : env,
  doc_ordered (e_doc en) -> valid (e_doc en) (e_root en) = true ->
  (forall q v, assoc_q q (e_vars en) = Some v -> vok en v) ->
  (forall q v, assoc_q q (e_funs en) = Some (UConst v) -> vok en v) ->
  forall e0 p preds c l, cok en c -> eval en (EFilter e0 (p :: preds) []) c = Ok (VNodes l) ->
  (forall q, In q l -> valid (e_doc en) q = true) /\ StronglySorted plt l.
Proof. exact filter_document_order. Qed.

(** the union laws for evaluated operands: A|B = B|A and (A|B)|C = A|(B|C) as equalities of
    results (errors included), A|A has exactly the nodes of A *)
Theorem C03_union_commutative_eval : forall en : env,
  doc_ordered (e_doc en) -> valid (e_doc en) (e_root en) = true ->
  (forall q v, assoc_q q (e_vars en) = Some v -> vok en v) ->
  (forall q v, assoc_q q (e_funs en) = Some (UConst v) -> vok en v) ->
  forall a b c, cok en c -> eval en (EUnion a b) c = eval en (EUnion b a) c.
Proof. exact eval_union_commutative. Qed.

Theorem C03_union_associative_eval : forall en : env,
  doc_ordered (e_doc en) -> valid (e_doc en) (e_root en) = true ->
  (forall q v, assoc_q q (e_vars en) = Some v -> vok en v) ->
  (forall q v, assoc_q q (e_funs en) = Some (UConst v) -> vok en v) ->
  forall a b e c, cok en c -> eval en (EUnion (EUnion a b) e) c = eval en (EUnion a (EUnion b e)) c.
Proof. exact eval_union_associative. Qed.

Theorem C03_union_idempotent_eval : forall en : env,
  doc_ordered (e_doc en) -> valid (e_doc en) (e_root en) = true ->
  (forall q v, assoc_q q (e_vars en) = Some v -> vok en v) ->
  (forall q v, assoc_q q (e_funs en) = Some (UConst v) -> vok en v) ->
  forall a c l, cok en c -> eval en a c = Ok (VNodes l) ->
  exists l', eval en (EUnion a a) c = Ok (VNodes l') /\ StronglySorted plt l' /\ (forall p, In p l' <-> In p l).
Proof. exact eval_union_idempotent. Qed.

(** for every tree the store builds from a conforming stream (C10) *)
Theorem C03_built_results_in_document_order : forall evs en abs steps a t preds c l,
  conforming store_init evs -> e_doc en = build evs ->
  valid (e_doc en) (e_root en) = true ->
  (forall q v, assoc_q q (e_vars en) = Some v -> vok en v) ->
  (forall q v, assoc_q q (e_funs en) = Some (UConst v) -> vok en v) ->
  cok en c ->
  eval en (EPath abs (steps ++ [SAxis a t preds])) c = Ok (VNodes l) ->
  (forall p, In p l -> valid (e_doc en) p = true) /\
  (if axis_reverse a then StronglySorted (fun x y => plt y x) l else StronglySorted plt l).
Proof. exact built_results_in_document_order. Qed.

(** non-vacuity: the hypotheses hold for Exec's own context on a built document with no
    bindings, and a reverse-axis path over it returns several nodes *)
Example C03_document_order_example :
  let en := Env ex_doc [] [] [] [] false in
  doc_ordered (e_doc en) /\ valid (e_doc en) (e_root en) = true /\ cok en (Ctx [e_root en] 1 1) /\
  eval en (EPath true ([SAxis Descendant NTAny []] ++ [SAxis AncestorOrSelf NTAny []])) (Ctx [e_root en] 1 1)
  = Ok (VNodes [[SCh 0; SCh 1]; [SCh 0; SCh 0]; [SCh 0]]).
Proof.
  split; [|split; [reflexivity|split; [intros p [<-|[]]; reflexivity|vm_compute; reflexivity]]].
  change ex_doc with (build (top_events [Some (SElem (QN [] [97%N]) [] [] [SElem (QN [] [98%N]) [] [] []; SElem (QN [] [99%N]) [] [] []])])).
  apply built_doc_ordered, top_events_conform.
Qed.
