(** Property C03 — node-set results are duplicate-free, ordered, closed under the
    union laws. Statements only; proofs are in Xp/SortThm.v and Xp/NodeSetThm.v. *)
From Coq Require Import Sorting.Sorted.
From XV Require Import Base.Str Base.Num Doc.Tree Doc.Store Xp.Ast Xp.Nav Xp.Axes Xp.Values Xp.Eval Xp.SortThm Xp.NodeSetThm.
Local Open Scope Z_scope.

(** every location path ending in an axis step: strictly ascending for a forward
    axis, strictly descending for a reverse axis — never a mixture, never a duplicate *)
Theorem C03_path_monotone : forall en abs steps a t preds c l,
  eval en (EPath abs (steps ++ [SAxis a t preds])) c = Ok (VNodes l) ->
  if axis_reverse a then StronglySorted (pos_gt (e_doc en)) l else StronglySorted (pos_lt (e_doc en)) l.
Proof. exact path_result_monotone. Qed.

Theorem C03_step_no_duplicates : forall en a t preds v l,
  axis_step en a t preds v = Ok (VNodes l) -> NoDup l.
Proof. exact axis_step_NoDup. Qed.

Theorem C03_union_ascending : forall en a b c l,
  eval en (EUnion a b) c = Ok (VNodes l) -> StronglySorted (pos_lt (e_doc en)) l /\ NoDup l.
Proof. exact eval_union_ascending. Qed.

Theorem C03_filter_ascending : forall en e0 p preds c l,
  eval en (EFilter e0 (p :: preds) []) c = Ok (VNodes l) -> StronglySorted (pos_lt (e_doc en)) l.
Proof. exact filter_result_ascending. Qed.

(** only nodes the step reached are returned (no foreign node appears) *)
Theorem C03_cleanup_members : forall d l p, In p (cleanup_forward d l) -> In p l.
Proof. exact cleanup_forward_incl. Qed.

(** union laws, as equalities of the returned lists; the hypothesis (positions
    identify nodes) is what C10 proves of every tree the store builds *)
Theorem C03_union_commutative : forall d l r, pos_inj_on d (l ++ r) -> union d l r = union d r l.
Proof. exact union_comm. Qed.
Theorem C03_union_associative : forall d l r t,
  pos_inj_on d (l ++ r ++ t) -> union d (union d l r) t = union d l (union d r t).
Proof. exact union_assoc. Qed.
Theorem C03_union_idempotent : forall d l, pos_inj_on d l -> union d l l = cleanup_forward d l.
Proof. exact union_idem. Qed.
Theorem C03_union_members : forall d l r p,
  pos_inj_on d (l ++ r) -> (In p (union d l r) <-> In p l \/ In p r).
Proof. exact union_mem. Qed.

(** non-vacuity: a concrete document and node lists on which the hypotheses hold
    and the union is not trivial *)
Definition ex_doc : anode :=
  build [EvStart (QN [] [97%N]); EvStart (QN [] [98%N]); EvEnd; EvStart (QN [] [99%N]); EvEnd; EvEnd].
Example C03_union_example :
  union ex_doc [[SCh 0; SCh 1]; [SCh 0]] [[SCh 0; SCh 0]; [SCh 0]] = [[SCh 0]; [SCh 0; SCh 0]; [SCh 0; SCh 1]].
Proof. vm_compute. reflexivity. Qed.
