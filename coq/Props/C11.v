(** Property C11 — names resolve through the query's bindings, never through
    document prefixes. Statements only; proofs are in Xp/EvalThm.v. *)
From XV Require Import Base.Str Base.Num Doc.Tree Doc.Store Xp.Ast Xp.Nav Xp.Axes Xp.Values Xp.Eval Xp.EvalThm.
From Coq Require String.
Import String.StringSyntax.
Local Open Scope Z_scope.
Local Open Scope string_scope.

(** p:x matches exactly the elements whose namespace URI is the URI the QUERY binds
    to p and whose local name is x (the resolved test carries the URI) *)
Theorem C11_prefix_resolved_through_query_bindings : forall en a pf l,
  resolve_test en a (NTQName pf l) =
  match assoc_str pf (e_ns en) with Some u => Ok (RQName u l) | None => Err end.
Proof. reflexivity. Qed.

(** an unprefixed name test is the local name in no namespace on every axis but the
    namespace axis, where the library applies its own rule (outside C01 and outside the
    clause above): the name is looked up in the query's bindings and selects the namespace
    nodes with that URI - so it too depends on the query's bindings only *)
Theorem C11_unprefixed_test_resolution : forall en a l,
  resolve_test en a (NTName l) =
  match a with
  | Namespace => Ok (RNsValue (match assoc_str l (e_ns en) with Some u => u | None => [] end))
  | _ => Ok (RName l)
  end.
Proof. intros en a l. destruct a; reflexivity. Qed.

Theorem C11_qname_test_matches_expanded_name : forall d u l p,
  test_node d PElem (RQName u l) p = true <->
  exists pos nm nss ats kids, p <> [] /\ lookup d p = Some (ITree (AElem pos nm nss ats kids)) /\
                              q_space nm = u /\ q_local nm = l.
Proof. exact qname_test_matches_expanded_name. Qed.

Theorem C11_unprefixed_test_matches_no_namespace_only : forall d l p,
  test_node d PElem (RName l) p = true <->
  exists pos nm nss ats kids, p <> [] /\ lookup d p = Some (ITree (AElem pos nm nss ats kids)) /\
                              q_space nm = [] /\ q_local nm = l.
Proof. exact unprefixed_test_matches_no_namespace_only. Qed.

(** invariance under consistent renaming of the prefixes in the query and its
    bindings, for every expression *)
Theorem C11_renaming_invariance : forall en en' rho,
  e_doc en' = e_doc en -> e_root en' = e_root en -> e_vars en' = e_vars en -> e_funs en' = e_funs en -> e_asis en' = e_asis en ->
  (forall p, assoc_str (rho p) (e_ns en') = assoc_str p (e_ns en)) ->
  forall e c, eval en' (rn_expr rho e) c = eval en e c.
Proof. intros en en' rho H1 H2 H3 H4 H5 H6. exact (proj1 (renaming_invariance en en' rho H1 H2 H3 H4 H5 H6)). Qed.

(** a variable evaluates to exactly the bound value *)
Theorem C11_variable_is_bound_value : forall en q c v,
  eval en (EVar q) c = Ok v <-> exists qn, resolve_q en q = Ok qn /\ assoc_q qn (e_vars en) = Some v.
Proof. exact variable_is_bound_value. Qed.

(** a registered user function is called in preference to a builtin of the same
    name, with the evaluated arguments in order and the current context *)
Theorem C11_user_function_takes_precedence : forall en q qn f args c,
  resolve_q en q = Ok qn -> assoc_q qn (e_funs en) = Some f ->
  eval en (ECall q args) c =
  match eval_args (map (fun a => eval en a) args) c with
  | Ok vs => call_ufun f vs c
  | Err => Err
  end.
Proof. exact user_function_takes_precedence. Qed.

Theorem C11_arguments_evaluated_in_order : forall fs c vs,
  eval_args fs c = Ok vs -> Forall2 (fun f v => f c = Ok v) fs vs.
Proof. exact eval_args_in_order. Qed.

(** evaluated references to unbound prefixes, variables and functions are errors *)
Theorem C11_unbound_prefix_is_error : forall en p l,
  assoc_str p (e_ns en) = None -> resolve_q en (Some p, l) = Err.
Proof. exact unbound_prefix_is_error. Qed.
Theorem C11_unbound_variable_is_error : forall en q c,
  (forall qn, resolve_q en q = Ok qn -> assoc_q qn (e_vars en) = None) -> eval en (EVar q) c = Err.
Proof. exact unbound_variable_is_error. Qed.
Theorem C11_unresolved_call_is_error : forall en q args c,
  resolve_q en q = Err -> eval en (ECall q args) c = Err.
Proof. exact unresolved_call_is_error. Qed.
Theorem C11_unknown_function_is_error : forall en q qn args c,
  resolve_q en q = Ok qn -> assoc_q qn (e_funs en) = None -> q_space qn <> [] ->
  eval en (ECall q args) c = Err.
Proof. exact unknown_function_is_error. Qed.
Theorem C11_unbound_prefix_in_name_test_is_error : forall en a pf l preds p,
  assoc_str pf (e_ns en) = None -> step_from en a (NTQName pf l) preds p = Err.
Proof. exact unbound_prefix_in_name_test_is_error. Qed.

(** non-vacuity: the document says prefix "d", the query says "q" for the same URI;
    a user function shadows the builtin count *)
Definition ex_doc : anode :=
  build [EvStart (QN [117%N] [97%N]); EvNs [100%N] [117%N]; EvEnd].
Example C11_example :
  exec (Env ex_doc [] [([113%N], [117%N])] [] [] false)
       (EPath true [SAxis Child (NTQName [113%N] [97%N]) []]) = Ok (VNodes [[SCh 0]]) /\
  exec (Env ex_doc [] [] [] [(QN [] (lit "count"), UArgCount)] false)
       (ECall (None, lit "count") [ELit []; ELit []]) = Ok (VNum (f_of_Z 2)).
Proof. vm_compute. split; reflexivity. Qed.
