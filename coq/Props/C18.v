(** Property C18 — sub-queries from any node compose like steps inside one query.
    Statements only; proofs are in Xp/EvalThm.v. *)
From Coq Require Import Sorting.Sorted.
From XV Require Import Base.Str Base.Num Doc.Tree Doc.Store Xp.Ast Xp.Nav Xp.Axes Xp.Values Xp.Eval
  Xp.SortThm Xp.NodeSetThm Xp.EvalThm.
Local Open Scope Z_scope.

(** Exec starts with the given cursor (any node kind) as the context node,
    position 1 and size 1 *)
Theorem C18_exec_seeds_context : forall en e, exec en e = eval en e (Ctx [e_root en] 1 1).
Proof. exact exec_context. Qed.

(** P/R is R evaluated from the value of P *)
Theorem C18_path_composition : forall en abs P R c,
  eval en (EPath abs (P ++ R)) c =
  match eval en (EPath abs P) c with
  | Ok v => run_steps (map (fun s => eval_step en s) R) c v
  | Err => Err
  end.
Proof. exact path_composition. Qed.

(** ... which, for a relative path R of axis steps, is the sub-query R run with
    the nodes selected by P as context (position 1, size 1) *)
Theorem C18_subquery_composition : forall en abs P R c l,
  Forall (fun s => match s with SAxis _ _ _ => True | _ => False end) R ->
  eval en (EPath abs P) c = Ok (VNodes l) ->
  eval en (EPath abs (P ++ R)) c = eval en (EPath false R) (Ctx l 1 1).
Proof. exact subquery_composition. Qed.

(** the nodes P/step selects are exactly the union over the nodes p selected by P of
    the nodes the step selects from p (given positions identify nodes: C10) *)
Theorem C18_step_is_union_over_context_nodes : forall en a t preds l out,
  axis_step en a t preds (VNodes l) = Ok (VNodes out) ->
  (forall parts, concat_res (step_from en a t preds) l = Ok parts -> pos_inj_on (e_doc en) parts) ->
  forall q, In q out <-> exists p lp, In p l /\ step_from en a t preds p = Ok lp /\ In q lp.
Proof. exact step_is_union_over_context_nodes. Qed.

(** the function-in-path extension: P/f(args) is f(args) evaluated with the nodes of
    P as the context node-set *)
Theorem C18_function_step : forall en abs P q args c l,
  eval en (EPath abs P) c = Ok (VNodes l) ->
  eval en (EPath abs (P ++ [SCall q args])) c = eval en (ECall q args) (Ctx l (c_pos c) (c_size c)).
Proof. exact function_step_is_call_on_context. Qed.

(** non-vacuity: from an attribute cursor a relative path leaves the subtree *)
Definition ex_doc : anode :=
  build [EvStart (QN [] [97%N]); EvStart (QN [] [98%N]); EvAttr (QN [] [105%N]) [49%N]; EvEnd;
         EvStart (QN [] [99%N]); EvEnd; EvEnd].
Example C18_example_from_attribute :
  exec (Env ex_doc [SCh 0; SCh 0; SAt 0] [] [] [] false)
       (EPath false [SAxis Parent NTNode []; SAxis FollowingSibling NTAny []]) = Ok (VNodes [[SCh 0; SCh 1]]).
Proof. vm_compute. reflexivity. Qed.
