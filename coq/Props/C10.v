(** Property C10 — the in-memory store honours the Cursor contract for any
    conforming Parser. Statements only; proofs in Doc/StoreThm.v, Doc/Conform.v. *)
From Coq Require Import Sorting.Sorted.
From XV Require Import Base.Str Doc.Tree Doc.Store Doc.StoreThm Doc.Conform.
Local Open Scope Z_scope.

(** For EVERY stream allowed by the Parser contract (any forest of elements with
    namespace events before attribute events before children, leaves anywhere,
    surplus end events at the top level): listing the finished tree in document order
    — element, its namespace nodes, its attributes, its children recursively — the
    positions strictly increase. So Pos() is unique per cursor and increases in
    document order. *)
Theorem C10_positions_increase_in_document_order : forall l : list (option snode),
  StronglySorted Z.lt (flat (build (top_events l))).
Proof. intros l. apply build_positions_increase, top_events_conform. Qed.

Theorem C10_positions_unique : forall l : list (option snode),
  NoDup (flat (build (top_events l))).
Proof. intros l. apply build_positions_unique, top_events_conform. Qed.

(** 0 is the root's position, for every event sequence whatsoever *)
Theorem C10_root_is_zero : forall evs, apos (build evs) = 0.
Proof. exact build_root_zero. Qed.

(** the one-step invariant the above rests on (also covers streams that are only
    state-conforming, e.g. produced by user-supplied parsers) *)
Theorem C10_step_invariant : forall st ev, Inv st -> conforms st ev -> Inv (store_step st ev).
Proof. exact store_step_inv. Qed.

(** inherited namespace nodes are fresh nodes of the element, numbered after its own
    declarations: they extend the increasing sequence *)
Theorem C10_inherited_namespaces_numbered : forall pn own ctr l c' L,
  inherit_from pn own ctr = (l, c') -> incr_below L ctr ->
  incr_below (L ++ map ns_pos l) c' /\ ctr <= c'.
Proof. exact inherit_from_incr. Qed.

(** non-vacuity: a concrete conforming stream with namespaces that are inherited,
    overridden and undeclared *)
Example C10_example :
  flat (build (top_events
    [Some (SLeaf (LComment [])); None;
     Some (SElem (QN [] [97%N]) [([], [117%N]); ([112%N], [118%N])] [(QN [] [105%N], [])]
        [SElem (QN [] [98%N]) [([], [])] [] [SLeaf (LText [120%N])];
         SElem (QN [] [99%N]) [([112%N], [119%N])] [] []])]))
  = [0; 1; 2; 3; 4; 5; 6; 8; 9; 10; 11; 12].
Proof. vm_compute. reflexivity. Qed.
