(** Property C10 — the in-memory store honours the Cursor contract for any
    conforming Parser. Statements only; proofs in Doc/StoreThm.v, Doc/Conform.v. *)
From Coq Require Import Sorting.Sorted.
From XV Require Import Base.Str Doc.Tree Doc.Store Doc.StoreThm Doc.Conform Doc.NsScope.
Local Open Scope Z_scope.

(** For EVERY stream allowed by the Parser contract (any forest of elements with
    namespace events before attribute events before children, leaves anywhere,
    surplus end events at the top level): listing the finished tree in document order
    — element, its namespace nodes, its attributes, its children recursively — the
    positions strictly increase. So Pos() is unique per cursor and increases in
    document order. *)
Theorem C10_positions_increase_in_document_order : forall l : list (option snode),
  StronglySorted Z.lt (flat (build (top_events l))).
Proof. intros l. apply build_positions_increase, top_events_conform. Qed.

Theorem C10_positions_unique : forall l : list (option snode),
  NoDup (flat (build (top_events l))).
Proof. intros l. apply build_positions_unique, top_events_conform. Qed.

(** 0 is the root's position, for every event sequence whatsoever *)
Theorem C10_root_is_zero : forall evs, apos (build evs) = 0.
Proof. exact build_root_zero. Qed.

(** the one-step invariant the above rests on (also covers streams that are only
    state-conforming, e.g. produced by user-supplied parsers) *)
Theorem C10_step_invariant : forall st ev, Inv st -> conforms st ev -> Inv (store_step st ev).
Proof. exact store_step_inv. Qed.

(** inherited namespace nodes are fresh nodes of the element, numbered after its own
    declarations: they extend the increasing sequence *)
Theorem C10_inherited_namespaces_numbered : forall pn own ctr l c' L,
  inherit_from pn own ctr = (l, c') -> incr_below L ctr ->
  incr_below (L ++ map ns_pos l) c' /\ ctr <= c'.
Proof. exact inherit_from_incr. Qed.

(** each element owns its namespace nodes - its own declarations and, for EVERY prefix it
    does not declare itself, a copy of what its parent has in scope, however many those are
    (no bound on the lengths of [pn] and [own]); xmlns="" removes the default binding *)
Theorem C10_each_element_owns_its_scope :
  forall (p : str) (pn own : list ans) (ctr : Z) (l : list ans) (c : Z),
    nodup_prefixes pn -> nodup_prefixes own -> inherit_from pn own ctr = (l, c) ->
    find_ns p (drop_empty_default (own ++ l)) =
    undeclare p match find_ns p own with Some u => Some u | None => find_ns p pn end.
Proof. exact (@inherited_scope). Qed.

(** and nothing else: the inherited nodes are copies for prefixes the parent has in scope and
    the element did not declare *)
Theorem C10_inherited_are_undeclared_prefixes :
  forall (pn own : list ans) (ctr : Z) (l : list ans) (c : Z),
    inherit_from pn own ctr = (l, c) ->
    forall p : str, In p (map ns_prefix l) -> In p (map ns_prefix pn) /\ ~ In p (map ns_prefix own).
Proof. exact (@inherit_from_prefixes). Qed.

(** non-vacuity: a concrete conforming stream with namespaces that are inherited,
    overridden and undeclared *)
Example C10_example :
  flat (build (top_events
    [Some (SLeaf (LComment [])); None;
     Some (SElem (QN [] [97%N]) [([], [117%N]); ([112%N], [118%N])] [(QN [] [105%N], [])]
        [SElem (QN [] [98%N]) [([], [])] [] [SLeaf (LText [120%N])];
         SElem (QN [] [99%N]) [([112%N], [119%N])] [] []])]))
  = [0; 1; 2; 3; 4; 5; 6; 8; 9; 10; 11; 12].
Proof. vm_compute. reflexivity. Qed.
