(** IEEE-754 binary64 numbers as the standard library's executable, axiom-free
    [spec_float] (prec = 53, emax = 1024), plus the integer-arithmetic helpers the
    XPath number functions need. One NaN (payloads are not observable through xsel). *)
From Coq Require Import ZArith List Bool Lia.
From Coq Require Export Floats.SpecFloat.
From XV Require Import Base.Str.
From Coq Require String.
Import String.StringSyntax.
Local Open Scope Z_scope.
Local Open Scope string_scope.

Definition prec : Z := 53.
Definition emax : Z := 1024.

Notation fl := spec_float.

Definition fadd : fl -> fl -> fl := SFadd prec emax.
Definition fsub : fl -> fl -> fl := SFsub prec emax.
Definition fmul : fl -> fl -> fl := SFmul prec emax.
Definition fdiv : fl -> fl -> fl := SFdiv prec emax.
Definition fopp : fl -> fl := SFopp.
Definition feqb : fl -> fl -> bool := SFeqb.
Definition fltb : fl -> fl -> bool := SFltb.
Definition fleb : fl -> fl -> bool := SFleb.

Definition fnan : fl := S754_nan.
Definition fzero : fl := S754_zero false.
Definition f_of_Z (z : Z) : fl := binary_normalize prec emax z 0 false.
Definition fone : fl := f_of_Z 1.

Definition is_nan (x : fl) : bool := match x with S754_nan => true | _ => false end.
Definition is_inf (x : fl) : bool := match x with S754_infinity _ => true | _ => false end.
Definition is_zero (x : fl) : bool := match x with S754_zero _ => true | _ => false end.
Definition fsign (x : fl) : bool :=
  match x with
  | S754_zero s | S754_infinity s | S754_finite s _ _ => s
  | S754_nan => false
  end.

(** Structural equality (distinguishes the zeros; NaN equals NaN): the observable
    "same double" of the correspondence check. *)
Definition fsame (x y : fl) : bool :=
  match x, y with
  | S754_nan, S754_nan => true
  | S754_zero a, S754_zero b => Bool.eqb a b
  | S754_infinity a, S754_infinity b => Bool.eqb a b
  | S754_finite a m e, S754_finite b m' e' => Bool.eqb a b && Pos.eqb m m' && Z.eqb e e'
  | _, _ => false
  end.

(** ** Bits *)

Definition f_of_bits (b : Z) : fl :=
  let sgn := Z.odd (Z.shiftr b 63) in
  let ex := Z.land (Z.shiftr b 52) 2047 in
  let fr := Z.land b (Z.ones 52) in
  if Z.eqb ex 2047 then (if Z.eqb fr 0 then S754_infinity sgn else S754_nan)
  else if Z.eqb ex 0 then
         match fr with Zpos m => S754_finite sgn m (-1074) | _ => S754_zero sgn end
       else match fr + Z.shiftl 1 52 with
            | Zpos m => S754_finite sgn m (ex - 1075)
            | _ => S754_nan
            end.

Definition bits_of_f (x : fl) : Z :=
  let sb (s : bool) := if s then Z.shiftl 1 63 else 0 in
  match x with
  | S754_nan => Z.shiftl 2047 52 + Z.shiftl 1 51
  | S754_zero s => sb s
  | S754_infinity s => sb s + Z.shiftl 2047 52
  | S754_finite s m e =>
      if Z.ltb (Zpos m) (Z.shiftl 1 52) then sb s + Zpos m
      else sb s + Z.shiftl (e + 1075) 52 + (Zpos m - Z.shiftl 1 52)
  end.

(** ** Integer part functions, exact on the dyadic value [m * 2^e] *)

(** floor of [(-1)^s * m * 2^e] as a signed integer together with "was integral". *)
Definition floor_parts (sg : bool) (m : positive) (e : Z) : Z * bool :=
  if Z.leb 0 e then ((if sg then - (Zpos m * 2 ^ e) else Zpos m * 2 ^ e), true)
  else
    let d := 2 ^ (- e) in
    let q := Zpos m / d in
    let r := Zpos m mod d in
    if Z.eqb r 0 then ((if sg then - q else q), true)
    else ((if sg then - (q + 1) else q), false).

(** [math.Floor]: zeros, infinities and NaN pass through; a negative fraction in
    (-1,0) gives -1; a positive fraction in (0,1) gives +0. *)
Definition f_floor (x : fl) : fl :=
  match x with
  | S754_finite sg m e =>
      if Z.leb 0 e then x
      else let '(z, integral) := floor_parts sg m e in
           if integral then x else f_of_Z z
  | _ => x
  end.

(** [math.Ceil(x) = -Floor(-x)] (so Ceil(-0.5) = -0). *)
Definition f_ceil (x : fl) : fl := fopp (f_floor (fopp x)).

(** Twice the value as an integer plus the fractional remainder test: used to
    decide ties exactly. [frac_cmp_half sg m e] compares [x - floor x] with 1/2. *)
Definition frac_cmp_half (sg : bool) (m : positive) (e : Z) : comparison :=
  if Z.leb 0 e then Lt
  else
    let d := 2 ^ (- e) in
    let r := Zpos m mod d in            (* |x| - floor |x|, scaled by d *)
    let r' := if sg then (if Z.eqb r 0 then 0 else d - r) else r in  (* x - floor x *)
    Z.compare (2 * r') d.

(** XPath round(): the integer closest to x, ties toward +infinity; NaN and the
    infinities pass through.  The zero returned for x in [-0.5, 0.5) is +0 here;
    the sign of a zero result is latitude (DESIGN 11). *)
Definition f_round_xpath (x : fl) : fl :=
  match x with
  | S754_finite sg m e =>
      if Z.leb 0 e then x
      else
        let '(fz, _) := floor_parts sg m e in
        match frac_cmp_half sg m e with
        | Lt => if Z.eqb fz 0 then fzero else f_of_Z fz
        | _ => if Z.eqb (fz + 1) 0 then fzero else f_of_Z (fz + 1)
        end
  | S754_zero _ => fzero
  | _ => x
  end.

(** What the library computes (getRound after the F4 repair): half-up for
    x >= 0.5, [-(half-up (-x))] for x < -0.5 (negative ties go away from zero:
    an existing test demands round(-1.5) = -2), +0 in between. *)
Definition f_round_go (x : fl) : fl :=
  match x with
  | S754_finite sg m e =>
      if Z.leb 0 e then x
      else
        if sg then
          (* -x > 0 : half-up on |x| *)
          let '(fz, _) := floor_parts false m e in
          match frac_cmp_half false m e with
          | Lt => if Z.eqb fz 0 then fzero else fopp (f_of_Z fz)
          | Eq => if Z.eqb fz 0 then fzero (* -0.5 is not < -0.5 *) else fopp (f_of_Z (fz + 1))
          | Gt => fopp (f_of_Z (fz + 1))
          end
        else
          let '(fz, _) := floor_parts false m e in
          match frac_cmp_half false m e with
          | Lt => if Z.eqb fz 0 then fzero else f_of_Z fz
          | _ => f_of_Z (fz + 1)
          end
  | S754_zero _ => fzero
  | _ => x
  end.

(** The rounding used by substring(): floor(x + 0.5) computed exactly
    (roundHalfUp in the library); NaN and infinities pass through. Zero results keep
    whatever sign; callers only compare. *)
Definition f_round_half_up (x : fl) : fl :=
  match x with
  | S754_finite sg m e =>
      if Z.leb 0 e then x
      else
        let '(fz, _) := floor_parts sg m e in
        match frac_cmp_half sg m e with
        | Lt => f_of_Z fz
        | _ => f_of_Z (fz + 1)
        end
  | _ => x
  end.

(** ** fmod: sign-of-dividend remainder of truncating division, exact *)

Definition f_fmod (x y : fl) : fl :=
  match x, y with
  | S754_nan, _ | _, S754_nan => S754_nan
  | S754_infinity _, _ => S754_nan
  | _, S754_zero _ => S754_nan
  | S754_zero _, _ => x
  | S754_finite _ _ _, S754_infinity _ => x
  | S754_finite sx mx ex, S754_finite _ my ey =>
      let e := Z.min ex ey in
      let X := Zpos mx * 2 ^ (ex - e) in
      let Y := Zpos my * 2 ^ (ey - e) in
      let R := X mod Y in
      match R with
      | Zpos r => binary_normalize prec emax (if sx then Zneg r else Zpos r) e false
      | _ => S754_zero sx
      end
  end.

(** ** Decimal numerals to doubles, correctly rounded *)

(** [(-1)^sg * n / 10^k]. Division of the exact integers with the standard
    library's correctly rounding [SFdiv] core. *)
Definition f_of_decimal (sg : bool) (n : Z) (k : Z) : fl :=
  match n with
  | Zpos _ =>
      if Z.leb k 0 then
        binary_normalize prec emax (if sg then - (n * 10 ^ (- k)) else n * 10 ^ (- k)) 0 false
      else
        let '(q, e', l) := SFdiv_core_binary prec emax n 0 (10 ^ k) 0 in
        binary_round_aux prec emax sg q e' l
  | _ => S754_zero sg
  end.

(** Digits (most significant first) to an integer. *)
Fixpoint digits_val (acc : Z) (ds : str) : Z :=
  match ds with
  | [] => acc
  | c :: r => digits_val (10 * acc + (Z.of_N c - 48)) r
  end.

Fixpoint span_digits (x : str) : str * str :=
  match x with
  | c :: r => if is_digit c then let '(a, b) := span_digits r in (c :: a, b) else ([], x)
  | [] => ([], [])
  end.

Fixpoint drop_ws (x : str) : str :=
  match x with
  | c :: r => if is_xml_ws c then drop_ws r else x
  | [] => []
  end.

Definition all_ws (x : str) : bool := forallb is_xml_ws x.

(** XPath 1.0 number(string): optional XML whitespace, optional '-', Number
    (Digits ('.' Digits?)? | '.' Digits), optional whitespace; anything else NaN. *)
Definition str_to_num (x : str) : fl :=
  let x1 := drop_ws x in
  let '(sg, x2) := match x1 with
                   | c :: r => if N.eqb c 45 then (true, r) else (false, x1)
                   | [] => (false, x1)
                   end in
  let '(ip, x3) := span_digits x2 in
  match x3 with
  | c :: r =>
      if N.eqb c 46 then
        let '(fp, x4) := span_digits r in
        if all_ws x4 && negb (Nat.eqb (length ip + length fp) 0)
        then f_of_decimal sg (digits_val 0 (ip ++ fp)) (Z.of_nat (length fp))
        else S754_nan
      else if all_ws x3 && negb (Nat.eqb (length ip) 0)
           then f_of_decimal sg (digits_val 0 ip) 0
           else S754_nan
  | [] => if negb (Nat.eqb (length ip) 0) then f_of_decimal sg (digits_val 0 ip) 0 else S754_nan
  end.

(** ** Doubles to decimal strings: fewest significant digits that read back,
    closest to the value among those; plain notation (no exponent). *)

(** number of decimal digits of a positive integer: 1233/4096 is just below
    log10 2, so the estimate is floor(log10 n) or one less *)
Definition ndigits (n : Z) : Z :=
  let est := (Z.log2 n * 1233) / 4096 in
  if Z.leb (10 ^ (est + 1)) n then est + 2 else est + 1.

(** A decimal prefix of the exact value m * 2^e: (D, sticky, t) with
    D * 10^t <= m * 2^e < (D + 1) * 10^t, sticky iff the left inequality is strict,
    and D has at least 19 digits unless the value is exact with fewer. *)
Definition decimal_prefix (m : positive) (e : Z) : Z * bool * Z :=
  if Z.leb 0 e then
    let N := Zpos m * 2 ^ e in
    let drop := Z.max 0 (ndigits N - 19) in
    let '(q, r) := Z.div_eucl N (10 ^ drop) in
    (q, negb (Z.eqb r 0), drop)
  else
    let sh := - e in
    let k := 19 - ((Z.log2 (Zpos m) - sh) * 1233) / 4096 in
    let N := Zpos m * 10 ^ k in
    (Z.shiftr N sh, negb (Z.eqb (Z.land N (Z.ones sh)) 0), - k).

(** value c * 10^t as a double *)
Definition f_of_scaled (c t : Z) : fl := f_of_decimal false c (- t).

(** Does the decimal C * 10^t19 round to the double m * 2^e ? Exact integer
    comparison with the midpoints to the neighbouring doubles (closed when the
    mantissa is even: round-half-even). Equivalent to reading the numeral back
    with [f_of_decimal], without the long division. The scale factors depend only on
    (m, e, t19) and are computed once: (LS, lowR, highR, closed) with
    C * 10^t19 in the rounding interval  iff  lowR <(=) C * LS <(=) highR. *)
Definition interval_ctx (m : positive) (e t19 : Z) : Z * Z * Z * bool :=
  let boundary := Pos.eqb m 4503599627370496 && Z.ltb (-1074) e in
  let lowM := 4 * Zpos m - (if boundary then 1 else 2) in
  let highM := 4 * Zpos m + 2 in
  let b := e - 2 in
  let LS := (if Z.leb 0 t19 then 10 ^ t19 else 1) * (if Z.ltb b 0 then 2 ^ (- b) else 1) in
  let sR := (if Z.leb 0 b then 2 ^ b else 1) * (if Z.ltb t19 0 then 10 ^ (- t19) else 1) in
  (LS, lowM * sR, highM * sR, Z.even (Zpos m)).

Definition in_interval (ctx : Z * Z * Z * bool) (C : Z) : bool :=
  let '(LS, lowR, highR, closed) := ctx in
  let L := C * LS in
  if closed then Z.leb lowR L && Z.leb L highR else Z.ltb lowR L && Z.ltb L highR.

(** Try [n] significant digits on the decimal prefix D19 (sticky: digits were
    dropped to get D19). Returns the chosen (c, t), value c*10^t. *)
Definition try_digits (ctx : Z * Z * Z * bool) (D19 : Z) (sticky : bool) (t19 nd19 n : Z) : option (Z * Z) :=
  let sh := nd19 - n in                       (* digits of D19 dropped *)
  if Z.leb sh 0 then (if sticky then None else Some (D19, t19))
  else
    let p := 10 ^ sh in
    let lo := D19 / p in
    let hi := lo + 1 in
    let t := sh + t19 in
    let oklo := in_interval ctx (lo * p) in
    let okhi := in_interval ctx (hi * p) in
    let r := D19 mod p in
    if oklo && okhi then
      match Z.compare (2 * r) p with
      | Lt => Some (lo, t)
      | Gt => Some (hi, t)
      | Eq => if sticky then Some (hi, t) else if Z.even lo then Some (lo, t) else Some (hi, t)
      end
    else if oklo then Some (lo, t)
    else if okhi then Some (hi, t)
    else None.

Fixpoint shortest_fuel (fuel : nat) (ctx : Z * Z * Z * bool) (D19 : Z) (sticky : bool) (t19 nd19 n : Z)
         (dflt : Z * Z) : Z * Z :=
  match fuel with
  | O => dflt
  | S f => match try_digits ctx D19 sticky t19 nd19 n with
           | Some r => r
           | None => shortest_fuel f ctx D19 sticky t19 nd19 (n + 1) dflt
           end
  end.

(** strip trailing zeros of c while t < 0 *)
Fixpoint strip_zeros (fuel : nat) (c t : Z) : Z * Z :=
  match fuel with
  | O => (c, t)
  | S f => if Z.ltb t 0 && Z.eqb (c mod 10) 0 && negb (Z.eqb c 0)
           then strip_zeros f (c / 10) (t + 1) else (c, t)
  end.

Fixpoint digits_of_fuel (fuel : nat) (n : Z) (acc : str) : str :=
  match fuel with
  | O => acc
  | S f => let acc' := Z.to_N (n mod 10 + 48) :: acc in
           if Z.ltb n 10 then acc' else digits_of_fuel f (n / 10) acc'
  end.

Definition digits_of (n : Z) : str := digits_of_fuel (S (Z.to_nat (Z.log2 n))) n [].

(** plain decimal rendering of c * 10^t, c > 0 *)
Definition render_scaled (c t : Z) : str :=
  let ds := digits_of c in
  if Z.leb 0 t then ds ++ repeat 48%N (Z.to_nat t)
  else
    let nfrac := Z.to_nat (- t) in
    let len := length ds in
    if Nat.ltb nfrac len then
      firstn (len - nfrac) ds ++ 46%N :: skipn (len - nfrac) ds
    else 48%N :: 46%N :: repeat 48%N (nfrac - len) ++ ds.

Definition num_to_str (x : fl) : str :=
  match x with
  | S754_nan => lit "NaN"
  | S754_infinity false => lit "Infinity"
  | S754_infinity true => lit "-Infinity"
  | S754_zero _ => lit "0"
  | S754_finite sg m e =>
      let '(D19, sticky, t19) := decimal_prefix m e in
      let '(c, t) := shortest_fuel 24 (interval_ctx m e t19) D19 sticky t19 (ndigits D19) 1 (D19, t19) in
      let '(c', t') := strip_zeros (Z.to_nat (- t)) c t in
      (if sg then [45%N] else []) ++ render_scaled c' t'
  end.

(** The relational property of C04: [s] is an acceptable rendering of [x]. *)
Definition plain_decimal_shape (x : str) : bool :=
  let x1 := match x with c :: r => if N.eqb c 45 then r else x | [] => x end in
  let '(ip, x2) := span_digits x1 in
  negb (Nat.eqb (length ip) 0) &&
  match x2 with
  | [] => true
  | c :: r => N.eqb c 46 && let '(fp, x3) := span_digits r in
                            negb (Nat.eqb (length fp) 0) && Nat.eqb (length x3) 0
  end.

Definition num_string_ok (x : fl) (r : str) : bool :=
  match x with
  | S754_nan => str_eqb r (lit "NaN")
  | S754_infinity false => str_eqb r (lit "Infinity")
  | S754_infinity true => str_eqb r (lit "-Infinity")
  | S754_zero _ => str_eqb r (lit "0")
  | S754_finite _ _ _ => plain_decimal_shape r && fsame (str_to_num r) x
  end.
