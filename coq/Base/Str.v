(** Strings are lists of Unicode scalar values. UTF-8 coding is Go's
    ([]rune(s) / string(r)) and lives in the harness. *)
From Coq Require Export List NArith ZArith Bool Lia.
Export ListNotations.

Definition str := list N.

Fixpoint str_eqb (a b : str) : bool :=
  match a, b with
  | [], [] => true
  | x :: a', y :: b' => N.eqb x y && str_eqb a' b'
  | _, _ => false
  end.

Lemma str_eqb_spec a b : str_eqb a b = true <-> a = b.
Proof.
  revert b; induction a as [|x a IH]; intros [|y b]; simpl; split; intro H;
    try reflexivity; try discriminate.
  - apply andb_true_iff in H as [H1 H2]. apply N.eqb_eq in H1.
    apply IH in H2. now subst.
  - inversion H; subst. apply andb_true_iff; split; [apply N.eqb_refl | now apply IH].
Qed.

Lemma str_eqb_refl a : str_eqb a a = true.
Proof. now apply str_eqb_spec. Qed.

(** [is_prefix t s]: [t] is a prefix of [s]. *)
Fixpoint is_prefix (t s : str) : bool :=
  match t, s with
  | [], _ => true
  | x :: t', y :: s' => N.eqb x y && is_prefix t' s'
  | _ :: _, [] => false
  end.

Lemma is_prefix_spec t s : is_prefix t s = true <-> exists b, s = t ++ b.
Proof.
  revert s; induction t as [|x t IH]; intros s; simpl.
  - split; [intros _; now exists s | reflexivity].
  - destruct s as [|y s]; split; intro H; try discriminate.
    + destruct H as [b Hb]; discriminate.
    + apply andb_true_iff in H as [H1 H2]. apply N.eqb_eq in H1; subst.
      apply IH in H2 as [b ->]. now exists b.
    + destruct H as [b Hb]. inversion Hb; subst.
      apply andb_true_iff; split; [apply N.eqb_refl|]. apply IH. now exists b.
Qed.

(** [split_at t s]: the shortest prefix [a] of [s] with [s = a ++ t ++ b], with [b]. *)
Fixpoint split_at (t s : str) : option (str * str) :=
  if is_prefix t s then Some ([], skipn (length t) s)
  else match s with
       | [] => None
       | x :: s' => match split_at t s' with
                    | Some (a, b) => Some (x :: a, b)
                    | None => None
                    end
       end.

(* ASCII constants *)
Definition c_space : N := 32.
Definition c_tab : N := 9.
Definition c_cr : N := 13.
Definition c_lf : N := 10.
Definition c_minus : N := 45.
Definition c_dot : N := 46.
Definition c_zero : N := 48.
Definition c_colon : N := 58.

Definition is_xml_ws (c : N) : bool :=
  N.eqb c 32 || N.eqb c 9 || N.eqb c 13 || N.eqb c 10.

Definition is_digit (c : N) : bool := N.leb 48 c && N.leb c 57.

(** ASCII letters of a literal written in the source, e.g. [lit "NaN"]. *)
From Coq Require Import Ascii String.
Fixpoint lit (x : string) : str :=
  match x with
  | EmptyString => []
  | String c r => N_of_ascii c :: lit r
  end.
