(** Facts about the double model: comparison is IEEE comparison (NaN unordered,
    antisymmetric), the integer-part functions are exact on the dyadic value, the
    literal transcription of the library's round() differs from XPath round() on
    negative ties only. *)
From Coq Require Import ZArith List Bool Lia.
From XV Require Import Base.Str Base.Num.
From Coq Require String.
Import String.StringSyntax.
Local Open Scope Z_scope.

(** ** comparison *)
Lemma SFcompare_swap x y : SFcompare y x = option_map CompOpp (SFcompare x y).
Proof.
  destruct x as [sx|sx| |sx mx ex], y as [sy|sy| |sy my ey]; simpl; try reflexivity;
    try (destruct sx; reflexivity); try (destruct sy; reflexivity);
    try (destruct sx, sy; reflexivity).
  destruct sx, sy; simpl; try reflexivity; rewrite (Z.compare_antisym ex ey);
    destruct (ex ?= ey); simpl; try reflexivity;
    change (Pcompare my mx Eq) with (Pos.compare my mx);
    change (Pcompare mx my Eq) with (Pos.compare mx my);
    rewrite (Pos.compare_antisym mx my); destruct (Pos.compare mx my); reflexivity.
Qed.

Lemma feqb_sym x y : feqb x y = feqb y x.
Proof. unfold feqb, SFeqb. rewrite (SFcompare_swap x y). destruct (SFcompare x y) as [[]|]; reflexivity. Qed.

Lemma fltb_gtb x y : fltb x y = match SFcompare y x with Some Gt => true | _ => false end.
Proof. unfold fltb, SFltb. rewrite (SFcompare_swap x y). destruct (SFcompare x y) as [[]|]; reflexivity. Qed.

Lemma feqb_nan_l y : feqb S754_nan y = false.  Proof. reflexivity. Qed.
Lemma feqb_nan_r' x : feqb x S754_nan = false.  Proof. now destruct x. Qed.
Lemma fltb_nan_l y : fltb S754_nan y = false.  Proof. reflexivity. Qed.
Lemma fltb_nan_r x : fltb x S754_nan = false.  Proof. now destruct x. Qed.
Lemma fleb_nan_l y : fleb S754_nan y = false.  Proof. reflexivity. Qed.
Lemma fleb_nan_r x : fleb x S754_nan = false.  Proof. now destruct x. Qed.

(** ** the sign passes through the rounding of an integer *)
Lemma binary_round_aux_opp sx m e l :
  binary_round_aux prec emax (negb sx) m e l = SFopp (binary_round_aux prec emax sx m e l).
Proof.
  unfold binary_round_aux.
  destruct (shr_fexp prec emax m e l) as [mrs' e'].
  destruct (shr_fexp prec emax _ e' loc_Exact) as [mrs'' e''].
  destruct (shr_m mrs''); simpl; try reflexivity.
  destruct (e'' <=? _); reflexivity.
Qed.

Lemma f_of_Z_opp p : f_of_Z (Zneg p) = fopp (f_of_Z (Zpos p)).
Proof.
  unfold f_of_Z, binary_normalize, binary_round.
  destruct (shl_align p 0 _) as [mz ez].
  apply (binary_round_aux_opp false).
Qed.

Lemma f_of_Z_opp' z : 0 < z -> f_of_Z (- z) = fopp (f_of_Z z).
Proof. destruct z; try lia. intros _. apply f_of_Z_opp. Qed.

(** ** floor_parts computes floor of the exact value *)
Lemma floor_parts_spec sg m e : e < 0 ->
  let '(z, integral) := floor_parts sg m e in
  let d := 2 ^ (- e) in
  let v := if sg then - Zpos m else Zpos m in      (* value = v / d *)
  z * d <= v < (z + 1) * d /\ (integral = true <-> z * d = v).
Proof.
  intros He. unfold floor_parts. destruct (Z.leb_spec 0 e) as [H|_]; [lia|].
  set (d := 2 ^ (- e)). assert (Hd : 0 < d) by (apply Z.pow_pos_nonneg; lia).
  pose proof (Z.div_mod (Zpos m) d ltac:(lia)) as Hdm.
  pose proof (Z.mod_pos_bound (Zpos m) d Hd) as Hb.
  destruct (Z.eqb_spec (Zpos m mod d) 0) as [Hr|Hr]; destruct sg; cbv zeta; split; try nia;
    split; intros; try reflexivity; try discriminate; nia.
Qed.

(** ** round(): the library's function vs XPath's *)

(** a negative tie: finite, negative, fractional part exactly one half, below -0.5 *)
Definition negative_tie (x : fl) : Prop :=
  match x with
  | S754_finite true m e => e < 0 /\ 2 * (Zpos m mod 2 ^ (- e)) = 2 ^ (- e) /\ 0 < Zpos m / 2 ^ (- e)
  | _ => False
  end.

Theorem f_round_go_refuted : exists x, f_round_go x <> f_round_xpath x.
Proof. exists (f_of_bits 13832806255468478464) (* -1.5 *). vm_compute. discriminate. Qed.

Example f_round_go_refuted_values :
  f_round_go (f_of_bits 13832806255468478464) = f_of_Z (-2) /\
  f_round_xpath (f_of_bits 13832806255468478464) = f_of_Z (-1).
Proof. vm_compute. split; reflexivity. Qed.

Theorem round_go_differs_only_on_negative_ties x :
  f_round_go x = f_round_xpath x \/ negative_tie x.
Proof.
  destruct x as [s|s| |sg m e]; try (left; reflexivity).
  unfold f_round_go, f_round_xpath.
  destruct (Z.leb_spec 0 e) as [He|He]; [left; reflexivity|].
  unfold floor_parts, frac_cmp_half. destruct (Z.leb_spec 0 e) as [H|_]; [lia|].
  set (d := 2 ^ (- e)). assert (Hd : 0 < d) by (apply Z.pow_pos_nonneg; lia).
  pose proof (Z.div_mod (Zpos m) d ltac:(lia)) as Hdm.
  pose proof (Z.mod_pos_bound (Zpos m) d Hd) as Hb.
  pose proof (Z.div_pos (Zpos m) d ltac:(lia) Hd) as Hq.
  set (q := Zpos m / d) in *. set (r := Zpos m mod d) in *.
  destruct sg.
  - (* negative *)
    destruct (Z.eqb_spec r 0) as [Hr|Hr].
    + (* integral value *)
      rewrite Hr. replace (2 * 0 ?= d) with Lt by (symmetry; apply Z.compare_lt_iff; lia).
      assert (Hq0 : q <> 0) by nia.
      destruct (Z.eqb_spec q 0); [lia|]. destruct (Z.eqb_spec (- q) 0); [lia|].
      left. symmetry. apply f_of_Z_opp'. lia.
    + destruct (Z.compare_spec (2 * r) d) as [Heq|Hlt|Hgt].
      * (* tie *)
        replace (2 * (d - r) ?= d) with Eq by (symmetry; apply Z.compare_eq_iff; lia).
        destruct (Z.eqb_spec q 0) as [Hq0|Hq0].
        -- left. subst q. rewrite Hq0. reflexivity.
        -- right. change (e < 0 /\ 2 * r = d /\ 0 < q). lia.
      * (* |frac| < 1/2 : x - floor x > 1/2 *)
        replace (2 * (d - r) ?= d) with Gt by (symmetry; apply Z.compare_gt_iff; lia).
        left. replace (- (q + 1) + 1) with (- q) by lia.
        destruct (Z.eqb_spec q 0) as [Hq0|Hq0].
        -- rewrite Hq0. reflexivity.
        -- destruct (Z.eqb_spec (- q) 0); [lia|]. symmetry. apply f_of_Z_opp'. lia.
      * (* |frac| > 1/2 : x - floor x < 1/2 *)
        replace (2 * (d - r) ?= d) with Lt by (symmetry; apply Z.compare_lt_iff; lia).
        left. destruct (Z.eqb_spec (- (q + 1)) 0); [lia|]. symmetry. apply f_of_Z_opp'. lia.
  - (* positive: identical *)
    left. destruct (r =? 0); destruct (2 * r ?= d); try reflexivity; destruct (Z.eqb_spec (q + 1) 0); try lia; reflexivity.
Qed.

(** XPath round() is the integer n with n - 1/2 <= x < n + 1/2 (ties toward
    +infinity), on the exact dyadic value of x: stated on the integer that is
    handed to [f_of_Z] *)
Definition round_int (sg : bool) (m : positive) (e : Z) : Z :=
  let '(fz, _) := floor_parts sg m e in
  match frac_cmp_half sg m e with Lt => fz | _ => fz + 1 end.

Theorem round_int_spec sg m e : e < 0 ->
  let n := round_int sg m e in
  let d := 2 ^ (- e) in
  let v := if sg then - Zpos m else Zpos m in
  (2 * n - 1) * d <= 2 * v < (2 * n + 1) * d.
Proof.
  intros He. unfold round_int, floor_parts, frac_cmp_half.
  destruct (Z.leb_spec 0 e) as [H|_]; [lia|].
  set (d := 2 ^ (- e)). assert (Hd : 0 < d) by (apply Z.pow_pos_nonneg; lia).
  pose proof (Z.div_mod (Zpos m) d ltac:(lia)) as Hdm.
  pose proof (Z.mod_pos_bound (Zpos m) d Hd) as Hb.
  set (q := Zpos m / d) in *. set (r := Zpos m mod d) in *.
  destruct sg; destruct (Z.eqb_spec r 0) as [Hr|Hr]; cbv zeta.
  - rewrite Hr in *. destruct (Z.compare_spec (2 * 0) d); nia.
  - destruct (Z.compare_spec (2 * (d - r)) d); nia.
  - rewrite Hr in *. destruct (Z.compare_spec (2 * 0) d); nia.
  - destruct (Z.compare_spec (2 * r) d); nia.
Qed.

Theorem f_round_xpath_is_round_int sg m e : e < 0 ->
  f_round_xpath (S754_finite sg m e) =
  if Z.eqb (round_int sg m e) 0 then fzero else f_of_Z (round_int sg m e).
Proof.
  intros He. unfold f_round_xpath, round_int.
  destruct (Z.leb_spec 0 e) as [H|_]; [lia|].
  destruct (floor_parts sg m e) as [fz i]. destruct (frac_cmp_half sg m e); reflexivity.
Qed.

Theorem round_passes_special_values :
  f_round_xpath S754_nan = S754_nan /\
  (forall s, f_round_xpath (S754_infinity s) = S754_infinity s) /\
  (forall s, f_round_xpath (S754_zero s) = fzero) /\
  (forall s m e, 0 <= e -> f_round_xpath (S754_finite s m e) = S754_finite s m e).
Proof.
  repeat split; try reflexivity. intros s m e He. unfold f_round_xpath.
  destruct (Z.leb_spec 0 e); [reflexivity|lia].
Qed.

(** floor / ceiling *)
Theorem f_floor_spec sg m e : e < 0 ->
  let '(z, integral) := floor_parts sg m e in
  f_floor (S754_finite sg m e) = if integral then S754_finite sg m e else f_of_Z z.
Proof.
  intros He. unfold f_floor. destruct (Z.leb_spec 0 e); [lia|].
  destruct (floor_parts sg m e) as [z i]. reflexivity.
Qed.

Theorem floor_passes_special_values :
  f_floor S754_nan = S754_nan /\ (forall s, f_floor (S754_infinity s) = S754_infinity s) /\
  (forall s, f_floor (S754_zero s) = S754_zero s) /\
  (forall s m e, 0 <= e -> f_floor (S754_finite s m e) = S754_finite s m e).
Proof.
  repeat split; try reflexivity. intros s m e He. unfold f_floor.
  destruct (Z.leb_spec 0 e); [reflexivity|lia].
Qed.

Theorem f_ceil_is_neg_floor_neg x : f_ceil x = fopp (f_floor (fopp x)).
Proof. reflexivity. Qed.

(** ** mod: sign-of-dividend remainder of the truncating division, exact *)
Theorem f_fmod_special :
  (forall y, f_fmod S754_nan y = S754_nan) /\ (forall x, f_fmod x S754_nan = S754_nan) /\
  (forall s y, f_fmod (S754_infinity s) y = S754_nan) /\
  (forall x s, f_fmod x (S754_zero s) = S754_nan) /\
  (forall s m e s', f_fmod (S754_finite s m e) (S754_infinity s') = S754_finite s m e) /\
  (forall s s' m e, f_fmod (S754_zero s) (S754_finite s' m e) = S754_zero s).
Proof.
  repeat split; intros; try reflexivity.
  - destruct x; reflexivity.
  - destruct y; reflexivity.
  - destruct x; reflexivity.
Qed.

(** on finite operands the result is built from R = X mod Y on the operands scaled to
    the common exponent: X = Y*q + R with 0 <= R < Y (so |r| < |y|, r has the sign of
    x, and q = floor(|x|/|y|) is the truncated quotient) *)
Theorem f_fmod_finite sx mx ex sy my ey :
  let e := Z.min ex ey in
  let X := Zpos mx * 2 ^ (ex - e) in
  let Y := Zpos my * 2 ^ (ey - e) in
  let R := X mod Y in
  0 <= R < Y /\ X = Y * (X / Y) + R /\
  f_fmod (S754_finite sx mx ex) (S754_finite sy my ey) =
  match R with
  | Zpos r => binary_normalize prec emax (if sx then Zneg r else Zpos r) e false
  | _ => S754_zero sx
  end.
Proof.
  cbv zeta. set (e := Z.min ex ey).
  assert (H1 : 0 < 2 ^ (ex - e)) by (apply Z.pow_pos_nonneg; lia).
  assert (H2 : 0 < 2 ^ (ey - e)) by (apply Z.pow_pos_nonneg; lia).
  set (Y := Zpos my * 2 ^ (ey - e)). assert (HY : 0 < Y) by (unfold Y; nia).
  split; [apply Z.mod_pos_bound; exact HY|]. split; [apply Z.div_mod; lia|reflexivity].
Qed.

(** ** string -> number: the XPath Number grammar *)

(** the numeral shapes number() accepts: optional XML white space, optional '-',
    Digits ('.' Digits?)? | '.' Digits, optional white space *)
Inductive xnumber : str -> Prop :=
| XN_int ws1 sg ip ws2 :
    forallb is_xml_ws ws1 = true -> forallb is_xml_ws ws2 = true ->
    forallb is_digit ip = true -> ip <> [] -> (sg = [] \/ sg = [45%N]) ->
    xnumber (ws1 ++ sg ++ ip ++ ws2)
| XN_frac ws1 sg ip fp ws2 :
    forallb is_xml_ws ws1 = true -> forallb is_xml_ws ws2 = true ->
    forallb is_digit ip = true -> forallb is_digit fp = true -> (ip <> [] \/ fp <> []) ->
    (sg = [] \/ sg = [45%N]) ->
    xnumber (ws1 ++ sg ++ ip ++ [46%N] ++ fp ++ ws2).

Lemma digit_not_ws c : is_digit c = true -> is_xml_ws c = false.
Proof.
  unfold is_digit, is_xml_ws. intros H. apply andb_true_iff in H as [H1 H2].
  apply N.leb_le in H1, H2.
  repeat (apply orb_false_iff; split); apply N.eqb_neq; lia.
Qed.

Lemma drop_ws_app ws r : forallb is_xml_ws ws = true -> drop_ws (ws ++ r) = drop_ws r.
Proof.
  induction ws as [|c ws IH]; simpl; intros H; [reflexivity|].
  apply andb_true_iff in H as [H1 H2]. rewrite H1. now apply IH.
Qed.

Lemma drop_ws_nonws c r : is_xml_ws c = false -> drop_ws (c :: r) = c :: r.
Proof. intros H. simpl. now rewrite H. Qed.

Lemma span_digits_app ds r :
  forallb is_digit ds = true -> (match r with c :: _ => is_digit c = false | [] => True end) ->
  span_digits (ds ++ r) = (ds, r).
Proof.
  induction ds as [|c ds IH]; simpl; intros H Hr.
  - destruct r as [|c r]; [reflexivity|]. simpl. now rewrite Hr.
  - apply andb_true_iff in H as [H1 H2]. rewrite H1. now rewrite (IH H2 Hr).
Qed.

Lemma ws_not_digit c : is_xml_ws c = true -> is_digit c = false.
Proof.
  intros H. destruct (is_digit c) eqn:E; [|reflexivity]. apply digit_not_ws in E. congruence.
Qed.

Lemma all_ws_head ws : forallb is_xml_ws ws = true ->
  match ws with c :: _ => is_digit c = false | [] => True end.
Proof. destruct ws as [|c ws]; simpl; [trivial|]. intros H. apply andb_true_iff in H as [H _]. now apply ws_not_digit. Qed.

Lemma length_zero_iff {A} (l : list A) : Nat.eqb (length l) 0 = true <-> l = [].
Proof. destruct l; simpl; split; congruence. Qed.

(** every numeral of the grammar converts to the correctly rounded value of its
    digits — never to NaN by shape *)
Theorem str_to_num_accepts_int ws1 (neg : bool) ip ws2 :
  forallb is_xml_ws ws1 = true -> forallb is_xml_ws ws2 = true ->
  forallb is_digit ip = true -> ip <> [] ->
  str_to_num (ws1 ++ (if neg then [45%N] else ([] : str)) ++ ip ++ ws2) = f_of_decimal neg (digits_val 0 ip) 0.
Proof.
  intros H1 H2 Hd Hne. unfold str_to_num. rewrite drop_ws_app by exact H1.
  destruct ip as [|c ip]; [congruence|]. simpl in Hd. apply andb_true_iff in Hd as [Hc Hd].
  assert (Hnw : is_xml_ws c = false) by now apply digit_not_ws.
  assert (Hc45 : N.eqb c 45 = false).
  { unfold is_digit in Hc. apply andb_true_iff in Hc as [A B]. apply N.leb_le in A. apply N.eqb_neq. lia. }
  assert (Hspan : span_digits ((c :: ip) ++ ws2) = (c :: ip, ws2)).
  { apply span_digits_app; [simpl; now rewrite Hc|now apply all_ws_head]. }
  destruct neg.
  - change ([45%N] ++ (c :: ip) ++ ws2) with (45%N :: (c :: ip) ++ ws2).
    rewrite drop_ws_nonws by reflexivity. change (N.eqb 45 45) with true. cbv beta iota zeta.
    rewrite Hspan. destruct ws2 as [|w ws2]; [reflexivity|].
    simpl in H2. apply andb_true_iff in H2 as [Hw Hws].
    assert (Hw46 : N.eqb w 46 = false).
    { unfold is_xml_ws in Hw. repeat (apply orb_true_iff in Hw as [Hw|Hw]); apply N.eqb_eq in Hw; subst; reflexivity. }
    rewrite Hw46. unfold all_ws. simpl forallb. rewrite Hw, Hws. reflexivity.
  - change ([] ++ (c :: ip) ++ ws2) with (c :: ip ++ ws2).
    rewrite drop_ws_nonws by exact Hnw. rewrite Hc45.
    change (c :: ip ++ ws2) with ((c :: ip) ++ ws2). rewrite Hspan.
    destruct ws2 as [|w ws2]; [reflexivity|].
    simpl in H2. apply andb_true_iff in H2 as [Hw Hws].
    assert (Hw46 : N.eqb w 46 = false).
    { unfold is_xml_ws in Hw. repeat (apply orb_true_iff in Hw as [Hw|Hw]); apply N.eqb_eq in Hw; subst; reflexivity. }
    rewrite Hw46. unfold all_ws. simpl forallb. rewrite Hw, Hws. reflexivity.
Qed.

(** strings the grammar rejects are NaN: a selection of the shapes the property names *)
Local Open Scope string_scope.
Example str_to_num_rejects :
  map (fun s => str_to_num (lit s))
      ["1e3"; "+1"; "0x10"; "Infinity"; "-Infinity"; "NaN"; ""; " "; "-"; "."; "- 1"; "1 2"; "1_0"; "--1"; "1.2.3"]
  = repeat S754_nan 15.
Proof. vm_compute. reflexivity. Qed.
Local Close Scope string_scope.

(** a character that is neither a digit, '.', '-' nor XML white space anywhere makes the string NaN *)
Definition numeral_char (c : N) : bool := is_digit c || is_xml_ws c || N.eqb c 45 || N.eqb c 46.

Lemma span_digits_eq x a b : span_digits x = (a, b) -> x = a ++ b /\ forallb is_digit a = true.
Proof.
  revert a b; induction x as [|c r IH]; intros a b H; simpl in H.
  - inversion H; subst. auto.
  - destruct (is_digit c) eqn:E.
    + destruct (span_digits r) as [a' b'] eqn:Er. inversion H; subst.
      destruct (IH a' b eq_refl) as [-> Hd]. split; [reflexivity|]. simpl. now rewrite E.
    + inversion H; subst. auto.
Qed.

Lemma drop_ws_eq x : exists ws, x = ws ++ drop_ws x /\ forallb is_xml_ws ws = true.
Proof.
  induction x as [|c r IH]; simpl; [exists []; auto|].
  destruct (is_xml_ws c) eqn:E.
  - destruct IH as [ws [H1 H2]]. exists (c :: ws). simpl. rewrite E, H2. split; [congruence|reflexivity].
  - exists []. auto.
Qed.

Theorem str_to_num_not_nan_only_numeral_chars x :
  str_to_num x <> S754_nan -> forallb numeral_char x = true.
Proof.
  unfold str_to_num. destruct (drop_ws_eq x) as [ws [Hx Hws]].
  set (x1 := drop_ws x) in *.
  assert (Hall : forall l, forallb is_xml_ws l = true -> forallb numeral_char l = true).
  { induction l as [|c l IH]; simpl; [reflexivity|]. intros H. apply andb_true_iff in H as [A B].
    apply andb_true_iff. split; [|now apply IH]. unfold numeral_char. rewrite A. now rewrite ?orb_true_r. }
  assert (Hdig : forall l, forallb is_digit l = true -> forallb numeral_char l = true).
  { induction l as [|c l IH]; simpl; [reflexivity|]. intros H. apply andb_true_iff in H as [A B].
    apply andb_true_iff. split; [|now apply IH]. unfold numeral_char. now rewrite A. }
  destruct (match x1 with c :: r => if N.eqb c 45 then (true, r) else (false, x1) | [] => (false, x1) end)
    as [sg x2] eqn:Esg.
  assert (Hx1 : forallb numeral_char x2 = true -> forallb numeral_char x1 = true).
  { destruct x1 as [|c r]; [inversion Esg; auto|].
    destruct (N.eqb c 45) eqn:E45; inversion Esg; subst; auto.
    intros H. simpl. rewrite H. unfold numeral_char. rewrite E45. now rewrite orb_true_r. }
  destruct (span_digits x2) as [ip x3] eqn:Eip. apply span_digits_eq in Eip as [-> Hip].
  intros Hn. rewrite Hx, forallb_app, (Hall ws Hws). simpl. apply Hx1. rewrite forallb_app, (Hdig ip Hip). simpl.
  destruct x3 as [|c r]; [reflexivity|].
  destruct (N.eqb c 46) eqn:E46.
  - destruct (span_digits r) as [fp x4] eqn:Efp. apply span_digits_eq in Efp as [-> Hfp].
    destruct (all_ws x4) eqn:Eaw; [|simpl in Hn; congruence].
    simpl. unfold numeral_char at 1. rewrite E46. rewrite !orb_true_r. simpl.
    rewrite forallb_app, (Hdig fp Hfp), (Hall x4 Eaw). reflexivity.
  - destruct (all_ws (c :: r)) eqn:Eaw; [|simpl in Hn; congruence].
    now apply Hall.
Qed.
