(** C09: for every abstract document and every way of writing it (attribute order,
    text split into character data / CDATA pieces, XML declaration, DOCTYPE, white
    space around the document element), the adapter's event stream is the XPath data
    model of the document; a decoder error never yields a tree. *)
From Coq Require Import Lia.
From XV Require Import Base.Str Doc.Tree Doc.Store Ad.XmlAdapter.
Local Open Scope Z_scope.

Section xitem_ind.
  Variable P : xitem -> Prop.
  Hypothesis HE : forall nm raw kids, Forall P kids -> P (XE nm raw kids).
  Hypothesis HT : forall ps, P (XT ps).
  Hypothesis HC : forall s, P (XC s).
  Hypothesis HP : forall t d, P (XP t d).
  Hypothesis HD : forall i, P (XDeclItem i).
  Hypothesis HR : P XDirItem.
  Fixpoint xitem_ind' (x : xitem) : P x :=
    match x with
    | XE nm raw kids =>
        HE nm raw kids ((fix go (l : list xitem) : Forall P l :=
                           match l with [] => Forall_nil P | k :: r => Forall_cons k (xitem_ind' k) (go r) end) kids)
    | XT ps => HT ps
    | XC s => HC s
    | XP t d => HP t d
    | XDeclItem i => HD i
    | XDirItem => HR
    end.
End xitem_ind.

Definition toks_list (l : list xitem) : list xtok := flat_map item_toks l.
Definition dm_list (depth : Z) (l : list xitem) : list event := flat_map (dm_events depth) l.

Lemma item_toks_elem nm raw kids :
  item_toks (XE nm raw kids) = XStart nm (map render_attr raw) :: toks_list kids ++ [XEnd].
Proof.
  assert (E : (fix go (l : list xitem) : list xtok := match l with [] => [] | k :: r => item_toks k ++ go r end) kids
              = toks_list kids).
  { induction kids as [|k r IH]; simpl; [reflexivity|]. now rewrite IH. }
  simpl. now rewrite E.
Qed.

Lemma dm_events_elem d nm raw kids :
  dm_events d (XE nm raw kids) =
  EvStart nm :: map (fun x => EvNs (fst x) (snd x)) ((s_xml, xml_ns_uri) :: raw_decls raw)
             ++ map (fun a => EvAttr (fst a) (snd a)) (raw_attrs raw)
             ++ dm_list (d + 1) kids ++ [EvEnd].
Proof.
  assert (E : (fix go (l : list xitem) : list event :=
                 match l with [] => [] | k :: r => dm_events (d + 1) k ++ go r end) kids = dm_list (d + 1) kids).
  { induction kids as [|k r IH]; simpl; [reflexivity|]. now rewrite IH. }
  simpl. now rewrite E.
Qed.

(** ** namespace declarations vs ordinary attributes *)
Definition plain_attr (a : rawattr) : Prop :=
  match a with
  | RAttr nm _ => q_space nm <> s_xmlns /\ q_local nm <> s_xmlns
  | RDecl _ _ => True
  end.

Lemma str_eqb_false a b : a <> b -> str_eqb a b = false.
Proof. intros H. destruct (str_eqb a b) eqn:E; [apply str_eqb_spec in E; congruence|reflexivity]. Qed.

Theorem declarations_and_attributes_split raw : Forall plain_attr raw ->
  create_ns (map render_attr raw) = (s_xml, xml_ns_uri) :: raw_decls raw /\
  create_attrs (map render_attr raw) = raw_attrs raw.
Proof.
  unfold create_ns. induction 1 as [|a raw Ha Hr [IH1 IH2]]; [split; reflexivity|].
  inversion IH1 as [IH1']. split.
  - f_equal. destruct a as [p u|nm v]; cbn [map render_attr decl_attrs raw_decls flat_map].
    + destruct p as [|c p]; cbn [fst snd q_space q_local].
      * rewrite !str_eqb_refl. simpl. now rewrite IH1'.
      * replace (str_eqb s_xmlns []) with false by reflexivity. rewrite str_eqb_refl. simpl. now rewrite IH1'.
    + destruct Ha as [H1 H2]. destruct nm as [sp lo]. cbn [fst snd q_space q_local] in *.
      rewrite (str_eqb_false lo s_xmlns H2), (str_eqb_false sp s_xmlns H1), andb_false_r. simpl. exact IH1'.
  - unfold create_attrs in *. destruct a as [p u|nm v]; cbn [map render_attr raw_attrs flat_map filter].
    + destruct p as [|c p]; cbn [fst snd q_space q_local]; rewrite str_eqb_refl, ?orb_true_r; simpl; exact IH2.
    + destruct Ha as [H1 H2]. destruct nm as [sp lo]. cbn [fst snd q_space q_local] in *.
      rewrite (str_eqb_false lo s_xmlns H2), (str_eqb_false sp s_xmlns H1). simpl. now rewrite IH2.
Qed.

(** ** character data *)
Definition pend_str (p : option str) : str := match p with Some v => v | None => [] end.

Lemma text_pieces_merge ps : ps <> [] -> forall d pend rest,
  xml_events d pend (map XChar ps ++ rest) = xml_events d (Some (pend_str pend ++ concat ps)) rest.
Proof.
  induction ps as [|s ps IH]; intros Hne d pend rest; [congruence|].
  cbn [map app xml_events]. destruct ps as [|s2 ps].
  - simpl. destruct pend; simpl; now rewrite app_nil_r.
  - rewrite IH by discriminate. f_equal. f_equal. destruct pend; simpl; now rewrite ?app_assoc.
Qed.

Definition nochar (ts : list xtok) : Prop := match ts with XChar _ :: _ => False | _ => True end.

Lemma flush_out d v rest : nochar rest ->
  xml_events d (Some v) rest = flush d (Some v) ++ xml_events d None rest.
Proof.
  destruct rest as [|[nm at_|  |s|s|t i| ] rest]; intros H; try reflexivity; try destruct H.
  simpl. now rewrite app_nil_r.
Qed.

Lemma flush_any d pend rest : nochar rest ->
  xml_events d pend rest = flush d pend ++ xml_events d None rest.
Proof. destruct pend; [apply flush_out|reflexivity]. Qed.

(** ** well-formed abstract documents *)
Definition is_text (x : xitem) : bool := match x with XT _ => true | _ => false end.

(** no two text items side by side (they would be one text node) *)
Fixpoint sep (l : list xitem) : Prop :=
  match l with
  | a :: ((b :: _) as r) => (is_text a && is_text b = false) /\ sep r
  | _ => True
  end.

Fixpoint wf (x : xitem) : Prop :=
  match x with
  | XE _ raw kids =>
      Forall plain_attr raw /\ sep kids /\
      (fix go (l : list xitem) : Prop := match l with [] => True | k :: r => wf k /\ go r end) kids
  | XT ps => ps <> []
  | XP t _ => t <> s_xml
  | _ => True
  end.

Fixpoint wf_list (l : list xitem) : Prop := match l with [] => True | k :: r => wf k /\ wf_list r end.

Lemma wf_elem nm raw kids : wf (XE nm raw kids) <-> Forall plain_attr raw /\ sep kids /\ wf_list kids.
Proof.
  assert (E : (fix go (l : list xitem) : Prop := match l with [] => True | k :: r => wf k /\ go r end) kids = wf_list kids).
  { induction kids as [|k r IH]; simpl; [reflexivity|]. now rewrite IH. }
  simpl. now rewrite E.
Qed.

Lemma nochar_item x rest : is_text x = false -> nochar (item_toks x ++ rest).
Proof. destruct x; intros H; try discriminate; exact I. Qed.

Definition item_ok (x : xitem) : Prop :=
  wf x -> is_text x = false -> forall d pend rest,
  xml_events d pend (item_toks x ++ rest) = flush d pend ++ dm_events d x ++ xml_events d None rest.

(** a sibling list, given the statement for each non-text member *)
Lemma list_ok l : Forall item_ok l -> wf_list l -> sep l -> forall d rest, nochar rest ->
  xml_events d None (toks_list l ++ rest) = dm_list d l ++ xml_events d None rest.
Proof.
  induction 1 as [|x l Hx Hl IH]; intros Hwf Hsep d rest Hrest; [reflexivity|].
  destruct Hwf as [Hwx Hwl]. cbn [toks_list flat_map dm_list]. rewrite <- !app_assoc.
  assert (Hsep' : sep l) by (destruct l; [exact I|apply Hsep]).
  destruct (is_text x) eqn:Et.
  - destruct x; try discriminate. simpl in Hwx. cbn [item_toks dm_events].
    rewrite text_pieces_merge by exact Hwx. cbn [pend_str app].
    rewrite flush_out.
    + f_equal. apply IH; auto.
    + destruct l as [|y l]; [exact Hrest|]. destruct Hsep as [Hs _]. simpl in Hs.
      cbn [flat_map]. rewrite <- app_assoc. apply nochar_item. exact Hs.
  - rewrite (Hx Hwx Et d None). cbn [flush app]. f_equal. apply IH; auto.
Qed.

Theorem item_events : forall x, item_ok x.
Proof.
  induction x as [nm raw kids IH|ps|s|t dt|i|] using xitem_ind'; intros Hwf Ht d pend rest; try discriminate.
  - apply wf_elem in Hwf as (Hraw & Hsep & Hwl).
    rewrite item_toks_elem, dm_events_elem. cbn [app xml_events].
    destruct (declarations_and_attributes_split raw Hraw) as [-> ->].
    f_equal. f_equal. rewrite <- !app_assoc. f_equal. f_equal.
    rewrite (list_ok kids IH Hwl Hsep (d + 1) ([XEnd] ++ rest) I).
    f_equal. cbn [app xml_events flush]. f_equal. f_equal. lia.
  - reflexivity.
  - simpl in Hwf. cbn [item_toks app xml_events dm_events]. rewrite (str_eqb_false t s_xml Hwf). reflexivity.
  - cbn [item_toks app xml_events dm_events]. rewrite str_eqb_refl. reflexivity.
  - reflexivity.
Qed.

(** THE theorem of C09 (adapter part): the event stream for the tokens of any
    well-formed abstract document, however it is written, is its data model *)
Theorem xml_adapter_is_data_model (doc : list xitem) :
  wf_list doc -> sep doc -> xml_events 0 None (toks_list doc) = dm_list 0 doc.
Proof.
  intros Hwf Hsep.
  rewrite <- (app_nil_r (toks_list doc)).
  rewrite (list_ok doc); auto; [now rewrite app_nil_r| |exact I].
  apply Forall_forall. intros x _. apply item_events.
Qed.

Corollary read_xml_builds_data_model doc : wf_list doc -> sep doc ->
  read_xml (toks_list doc) false = Some (build (dm_list 0 doc)).
Proof. intros H1 H2. unfold read_xml. now rewrite xml_adapter_is_data_model. Qed.

(** a decoder error (syntax, entity, encoding) is an error: never a partial tree *)
Theorem decoder_error_is_an_error ts : read_xml ts true = None.
Proof. reflexivity. Qed.

(** white space (and a byte order mark) around the document element is not a node; inside
    the document element every non-empty run of character data is *)
Theorem top_level_whitespace_dropped ps : forallb top_ignorable (concat ps) = true ->
  dm_events 0 (XT ps) = [] /\ forall d, d <> 0 -> concat ps <> [] -> dm_events d (XT ps) = [EvLeaf (LText (concat ps))].
Proof.
  intros H. split; [simpl; rewrite H; now rewrite Bool.orb_true_r|]. intros d Hd Hne. simpl.
  destruct (concat ps) eqn:E; [congruence|]. destruct (Z.eqb_spec d 0); [congruence|reflexivity].
Qed.

(** a text node has at least one character: character data that is empty altogether (an empty
    CDATA section on its own) is no node, at any depth *)
Theorem empty_character_data_is_no_node ps d : concat ps = [] -> dm_events d (XT ps) = [].
Proof. intros H. simpl. now rewrite H. Qed.

(** adjacent character data (text, CDATA sections, references) is ONE text node *)
Theorem adjacent_character_data_is_one_text_node ps d : ps <> [] -> d <> 0 -> concat ps <> [] ->
  xml_events d None (map XChar ps ++ [XEnd]) = EvLeaf (LText (concat ps)) :: EvEnd :: xml_events (d - 1) None [].
Proof.
  intros Hp Hd Hne. rewrite text_pieces_merge by exact Hp. simpl.
  destruct (concat ps) eqn:E; [congruence|]. destruct (Z.eqb_spec d 0); [congruence|reflexivity].
Qed.

(** ** the one place where the adapter departs from the data model (open known
    finding C09-attribute-named-xmlns): an ordinary attribute whose local name is
    [xmlns] in some namespace violates [plain_attr]; the adapter reads it as a
    namespace declaration *)
Theorem legacy_xmlns_attribute_refuted :
  exists x, xml_events 0 None (item_toks x) <> dm_events 0 x.
Proof.
  exists (XE (QN [] [97%N]) [RDecl [113%N] [117%N]; RAttr (QN [117%N] s_xmlns) [118%N]] []).
  vm_compute. discriminate.
Qed.
