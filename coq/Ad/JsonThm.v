(** C16: for every JSON value (any nesting) the adapter's event stream is the
    documented #obj/#arr mapping; truncated token streams end in an error; the
    adapter never pops an empty stack on the token streams of JSON values. *)
From Coq Require Import Lia.
From XV Require Import Base.Str Doc.Tree Doc.Store Doc.Conform Ad.JsonAdapter.

(** ** induction over JSON values *)
Section jval_ind.
  Variable P : jval -> Prop.
  Hypothesis Hs : forall s, P (JScalar s).
  Hypothesis Ha : forall l, Forall P l -> P (JArr l).
  Hypothesis Ho : forall ms, Forall (fun kv => P (snd kv)) ms -> P (JObj ms).
  Fixpoint jval_ind' (v : jval) : P v :=
    match v with
    | JScalar s => Hs s
    | JArr l => Ha l ((fix go (l : list jval) : Forall P l :=
                         match l with [] => Forall_nil P | x :: r => Forall_cons x (jval_ind' x) (go r) end) l)
    | JObj ms => Ho ms ((fix go (l : list (str * jval)) : Forall (fun kv => P (snd kv)) l :=
                           match l with
                           | [] => Forall_nil _
                           | kv :: r => Forall_cons kv (jval_ind' (snd kv)) (go r)
                           end) ms)
    end.
End jval_ind.

Definition toks_list (l : list jval) : list jtok := flat_map toks l.
Definition toks_members (ms : list (str * jval)) : list jtok := flat_map (fun kv => TVal (fst kv) :: toks (snd kv)) ms.
Definition jevents_list (l : list jval) : list event := flat_map jevents l.
Definition jevents_members (ms : list (str * jval)) : list event :=
  flat_map (fun kv => EvStart (QN [] (fst kv)) :: jevents (snd kv) ++ [EvEnd]) ms.

Lemma toks_arr l : toks (JArr l) = TOpen JArrS :: toks_list l ++ [TClose JArrS].
Proof.
  assert (E : (fix go (l : list jval) : list jtok := match l with [] => [] | x :: r => toks x ++ go r end) l = toks_list l).
  { induction l as [|x r IH]; simpl; [reflexivity|]. now rewrite IH. }
  simpl. now rewrite E.
Qed.
Lemma toks_obj ms : toks (JObj ms) = TOpen JObjS :: toks_members ms ++ [TClose JObjS].
Proof.
  assert (E : (fix go (l : list (str * jval)) : list jtok :=
                 match l with [] => [] | (k, x) :: r => TVal k :: toks x ++ go r end) ms = toks_members ms).
  { induction ms as [|[k x] r IH]; simpl; [reflexivity|]. now rewrite IH. }
  simpl. now rewrite E.
Qed.
Lemma jevents_arr l : jevents (JArr l) = EvStart (jname JArrS) :: jevents_list l ++ [EvEnd].
Proof.
  assert (E : (fix go (l : list jval) : list event := match l with [] => [] | x :: r => jevents x ++ go r end) l = jevents_list l).
  { induction l as [|x r IH]; simpl; [reflexivity|]. now rewrite IH. }
  simpl. now rewrite E.
Qed.
Lemma jevents_obj ms : jevents (JObj ms) = EvStart (jname JObjS) :: jevents_members ms ++ [EvEnd].
Proof.
  assert (E : (fix go (l : list (str * jval)) : list event :=
                 match l with [] => [] | (k, x) :: r => EvStart (QN [] k) :: jevents x ++ EvEnd :: go r end) ms
              = jevents_members ms).
  { induction ms as [|[k x] r IH]; simpl; [reflexivity|]. rewrite IH. now rewrite <- app_assoc. }
  simpl. now rewrite E.
Qed.

(** ** the run of the adapter, without fuel *)
Inductive runs : list jframe -> list jtok -> list event -> jout -> Prop :=
| run_stop st ts st' ts' o : pull st ts = (st', ts', o) -> (forall e, o <> JEv e) -> runs st ts [] o
| run_event st ts st' ts' e evs o : pull st ts = (st', ts', JEv e) -> runs st' ts' evs o -> runs st ts (e :: evs) o.

Lemma drain_runs : forall fuel st ts evs o, drain fuel st ts = Some (evs, o) -> runs st ts evs o.
Proof.
  induction fuel as [|f IH]; intros st ts evs o H; simpl in H; [discriminate|].
  destruct (pull st ts) as [[st' ts'] out] eqn:Ep. destruct out as [e| | |].
  - destruct (drain f st' ts') as [[evs' o']|] eqn:Ed; [|discriminate]. inversion H; subst.
    eapply run_event; eauto.
  - inversion H; subst. eapply run_stop; eauto. discriminate.
  - inversion H; subst. eapply run_stop; eauto. discriminate.
  - inversion H; subst. eapply run_stop; eauto. discriminate.
Qed.

Lemma runs_deterministic st ts evs o : runs st ts evs o -> forall evs' o', runs st ts evs' o' -> evs = evs' /\ o = o'.
Proof.
  induction 1 as [st ts st' ts' o Hp Hn|st ts st' ts' e evs o Hp Hr IH]; intros evs' o' H'.
  - inversion H'; subst.
    + rewrite Hp in H. inversion H; subst. auto.
    + rewrite Hp in H. inversion H; subst. exfalso. eapply Hn; eauto.
  - inversion H'; subst.
    + rewrite Hp in H. inversion H; subst. exfalso. eapply H0; eauto.
    + rewrite Hp in H. inversion H; subst. destruct (IH _ _ H0) as [-> ->]. auto.
Qed.

(** ** value position *)
(** a stack on which a value may start: no pending end, and the top frame is not
    waiting for a key (array frames never are) *)
Definition vpos (st : list jframe) : Prop :=
  match st with [] => True | f :: _ => jf_emitEnd f = false /\ jf_onField f = false end.

(** the stack after a complete value: inside an object the next token is a key and
    the key's element must be closed first *)
Definition after (st : list jframe) : list jframe :=
  match st with
  | f :: r => match jf_ty f with JObjS => JF JObjS true true :: r | JArrS => st end
  | [] => []
  end.

Lemma vpos_array_frame st : vpos (JF JArrS false false :: st).
Proof. simpl. auto. Qed.

(** consuming the tokens of a value from a value position emits exactly the events of
    the README mapping, leaves the frames below untouched and ends in [after] *)
Theorem runs_value : forall v st ts evs o,
  vpos st -> runs (after st) ts evs o -> runs st (toks v ++ ts) (jevents v ++ evs) o.
Proof.
  induction v as [s|l IH|ms IH] using jval_ind'; intros st ts evs o Hv Hr.
  - (* scalar *)
    simpl. eapply run_event; [|exact Hr]. unfold pull.
    destruct st as [|[ty onf em] r]; [reflexivity|]. simpl in Hv. destruct Hv as [-> ->]. simpl.
    destruct ty; reflexivity.
  - (* array *)
    rewrite toks_arr, jevents_arr. simpl app.
    set (st1 := if cur_is_obj st then set_on_field true st else st).
    (* the items *)
    assert (Hitems : forall evs' o', runs (JF JArrS false false :: st1) ([TClose JArrS] ++ ts) evs' o' ->
              runs (JF JArrS false false :: st1) (toks_list l ++ [TClose JArrS] ++ ts) (jevents_list l ++ evs') o').
    { induction IH as [|x r Hx Hr' IHr]; intros evs' o' H; [exact H|].
      simpl. rewrite <- !app_assoc. apply Hx; [apply vpos_array_frame|]. simpl. now apply IHr. }
    assert (Hopen : pull st (TOpen JArrS :: (toks_list l ++ [TClose JArrS]) ++ ts)
                    = (JF JArrS false false :: st1, (toks_list l ++ [TClose JArrS]) ++ ts, JEv (EvStart (jname JArrS)))).
    { unfold pull. destruct st as [|[ty onf em] r]; [reflexivity|]. simpl in Hv. destruct Hv as [-> ->]. reflexivity. }
    eapply run_event; [exact Hopen|]. rewrite <- !app_assoc.
    apply Hitems. simpl. eapply run_event; [|exact Hr].
    unfold pull. simpl. unfold st1. destruct st as [|[ty onf em] r]; [reflexivity|].
    simpl in Hv. destruct Hv as [-> ->]. destruct ty; reflexivity.
  - (* object *)
    rewrite toks_obj, jevents_obj. simpl app.
    set (st1 := if cur_is_obj st then set_on_field true st else st).
    assert (Hmem : forall evs' o', runs (JF JObjS true false :: st1) ([TClose JObjS] ++ ts) evs' o' ->
              runs (JF JObjS true false :: st1) (toks_members ms ++ [TClose JObjS] ++ ts) (jevents_members ms ++ evs') o').
    { induction IH as [|[k x] r Hx Hr' IHr]; intros evs' o' H; [exact H|].
      simpl. rewrite <- !app_assoc. simpl.
      (* the key *)
      eapply run_event; [reflexivity|].
      (* the value, from the value position {obj, onField = false} *)
      simpl in Hx. apply Hx; [simpl; auto|]. simpl.
      (* the deferred end of the key's element *)
      eapply run_event; [reflexivity|]. simpl. now apply IHr. }
    assert (Hopen : pull st (TOpen JObjS :: (toks_members ms ++ [TClose JObjS]) ++ ts)
                    = (JF JObjS true false :: st1, (toks_members ms ++ [TClose JObjS]) ++ ts, JEv (EvStart (jname JObjS)))).
    { unfold pull. destruct st as [|[ty onf em] r]; [reflexivity|]. simpl in Hv. destruct Hv as [-> ->]. reflexivity. }
    eapply run_event; [exact Hopen|]. rewrite <- !app_assoc.
    apply Hmem. simpl. eapply run_event; [|exact Hr].
    unfold pull. simpl. unfold st1. destruct st as [|[ty onf em] r]; [reflexivity|].
    simpl in Hv. destruct Hv as [-> ->]. destruct ty; reflexivity.
Qed.

(** THE theorem of C16: for every list of top-level JSON values, ReadJson followed by
    the store's loop sees exactly the events of the documented mapping, then EOF *)
Theorem read_json_is_documented_mapping (vs : list jval) :
  runs [] (toks_list vs) (jevents_list vs) JEof.
Proof.
  induction vs as [|v vs IH]; simpl.
  - eapply run_stop; [reflexivity|discriminate].
  - apply runs_value; [exact I|]. exact IH.
Qed.

(** the executable adapter (what the correspondence check runs) agrees, whenever it
    returns *)
Corollary read_json_computes_mapping vs evs o :
  read_json (toks_list vs) = Some (evs, o) -> evs = jevents_list vs /\ o = JEof.
Proof.
  intros H. apply drain_runs in H. exact (runs_deterministic _ _ _ _ H _ _ (read_json_is_documented_mapping vs)).
Qed.

(** ** the mapping as a tree: what the store builds from these events *)
Fixpoint json_snode (v : jval) {struct v} : snode :=
  match v with
  | JScalar s => SLeaf (LText s)
  | JArr items => SElem (jname JArrS) [] [] (map json_snode items)
  | JObj ms => SElem (jname JObjS) [] [] (map (fun kv => SElem (QN [] (fst kv)) [] [] [json_snode (snd kv)]) ms)
  end.

Theorem jevents_are_tree_events : forall v, jevents v = events_of (json_snode v).
Proof.
  induction v as [s|l IH|ms IH] using jval_ind'.
  - reflexivity.
  - rewrite jevents_arr. change (json_snode (JArr l)) with (SElem (jname JArrS) [] [] (map json_snode l)). rewrite events_of_elem. simpl. f_equal. f_equal.
    unfold jevents_list, events_of_list. induction IH as [|x r Hx Hr IHr]; simpl; [reflexivity|].
    now rewrite Hx, IHr.
  - rewrite jevents_obj. change (json_snode (JObj ms)) with (SElem (jname JObjS) [] [] (map (fun kv => SElem (QN [] (fst kv)) [] [] [json_snode (snd kv)]) ms)). rewrite events_of_elem. simpl. f_equal. f_equal.
    unfold jevents_members, events_of_list. induction IH as [|[k x] r Hx Hr IHr]; [reflexivity|].
    cbn [flat_map map fst snd]. cbn [snd] in Hx. rewrite events_of_elem. unfold events_of_list at 1.
    cbn [flat_map ns_events at_events map app]. rewrite app_nil_r.
    rewrite Hx, IHr. now rewrite <- !app_assoc.
Qed.

(** ** truncation: a token stream that stops inside a container is an error *)
Fixpoint depth_after (d : nat) (ts : list jtok) : option nat :=
  match ts with
  | [] => Some d
  | TOpen _ :: r => depth_after (S d) r
  | TClose _ :: r => match d with O => None | S d' => depth_after d' r end
  | TVal _ :: r => depth_after d r
  end.

Lemma pull_length st ts st' ts' e : pull st ts = (st', ts', JEv e) ->
  (ts' = ts /\ length st' = length st) \/
  (exists t, ts = t :: ts' /\ depth_after (length st) [t] = Some (length st')).
Proof.
  unfold pull. destruct (is_emit_end st) eqn:Ee.
  - intros H; inversion H; subst. left. split; [reflexivity|]. destruct st; reflexivity.
  - destruct ts as [|[t|t|s] ts0].
    + destruct st; discriminate.
    + intros H; inversion H; subst. right. exists (TOpen t). split; [reflexivity|]. simpl.
      destruct (cur_is_obj st); [destruct st; reflexivity|reflexivity].
    + destruct st as [|f r]; [discriminate|]. intros H; inversion H; subst. right. exists (TClose t).
      split; [reflexivity|]. simpl. destruct (is_on_field r); [destruct r; reflexivity|reflexivity].
    + destruct st as [|f r].
      * intros H; inversion H; subst. right. exists (TVal s). auto.
      * destruct (jf_ty f); [|destruct (jf_onField f)]; intros H; inversion H; subst; right; exists (TVal s); auto.
Qed.

Lemma depth_after_app d a b : depth_after d (a ++ b) = match depth_after d a with Some d' => depth_after d' b | None => None end.
Proof.
  revert d; induction a as [|[t|t|s] a IH]; intros d; simpl; auto.
  destruct d; [reflexivity|apply IH].
Qed.

(** when the run ends with a stack the tokens leave non-empty, it ends in an error *)
Theorem runs_outcome st ts evs o : runs st ts evs o ->
  forall n, depth_after (length st) ts = Some n -> (n = O -> o = JEof) /\ (n <> O -> o = JErr).
Proof.
  induction 1 as [st ts st' ts' o Hp Hn|st ts st' ts' e evs o Hp Hr IH]; intros n Hd.
  - unfold pull in Hp. destruct (is_emit_end st); [inversion Hp; subst; exfalso; eapply Hn; eauto|].
    destruct ts as [|[t|t|s] ts0].
    + simpl in Hd. inversion Hd; subst. destruct st; inversion Hp; subst; split; intros; simpl in *; congruence.
    + inversion Hp; subst. exfalso; eapply Hn; eauto.
    + destruct st; [simpl in Hd; discriminate|]. inversion Hp; subst. exfalso; eapply Hn; eauto.
    + destruct st as [|f r]; [inversion Hp; subst; exfalso; eapply Hn; eauto|].
      destruct (jf_ty f); [|destruct (jf_onField f)]; inversion Hp; subst; exfalso; eapply Hn; eauto.
  - apply pull_length in Hp as [[-> Hl]|(t & -> & Ht)].
    + apply IH. now rewrite Hl.
    + apply IH. change (t :: ts') with ([t] ++ ts') in Hd. rewrite depth_after_app, Ht in Hd. exact Hd.
Qed.

(** inside a container the depth is positive: every proper, non-empty prefix of the
    tokens of an array or object leaves the stack non-empty *)
Lemma toks_depth : forall v d,
  depth_after d (toks v) = Some d /\
  forall pre suf, toks v = pre ++ suf -> exists d', depth_after d pre = Some d' /\ d <= d' /\
    (pre <> [] -> suf <> [] -> d < d').
Proof.
  induction v as [s|l IH|ms IH] using jval_ind'; intros d.
  - split; [reflexivity|]. intros pre suf H. simpl in H.
    destruct pre as [|t pre]; [exists d; simpl; repeat split; auto; congruence|].
    inversion H; subst. destruct pre; [|discriminate]. simpl in *. subst suf.
    exists d. repeat split; auto. congruence.
  - rewrite toks_arr.
    assert (Hl : depth_after (S d) (toks_list l) = Some (S d) /\
                 forall pre suf, toks_list l = pre ++ suf -> exists d', depth_after (S d) pre = Some d' /\ S d <= d').
    { induction IH as [|x r Hx Hr IHr]; [split; [reflexivity|]; intros pre suf H; destruct pre; [|discriminate];
                                         exists (S d); auto|].
      destruct IHr as [E1 E2]. destruct (Hx (S d)) as [F1 F2]. split.
      - simpl. rewrite depth_after_app, F1. exact E1.
      - intros pre suf H. simpl in H.
        destruct (app_eq_app _ _ _ _ H) as (m & [[Ha Hb]|[Ha Hb]]).
        + destruct (F2 pre m Ha) as (d' & D1 & D2 & _). eauto.
        + subst pre. destruct (E2 m suf Hb) as (d' & D1 & D2). exists d'.
          rewrite depth_after_app, F1. auto. }
    destruct Hl as [L1 L2]. split.
    + simpl. rewrite depth_after_app, L1. reflexivity.
    + intros pre suf H. destruct pre as [|t pre].
      * exists d. simpl. repeat split; auto. congruence.
      * simpl in H. inversion H; subst t. clear H.
        destruct (app_eq_app _ _ _ _ H2) as (m & [[Ha Hb]|[Ha Hb]]).
        -- destruct (L2 pre m Ha) as (d' & D1 & D2). exists d'. simpl. repeat split; auto; lia.
        -- subst pre. destruct m as [|t m].
           ++ rewrite app_nil_r. exists (S d). simpl. repeat split; auto; lia.
           ++ inversion Hb; subst. destruct m; [|discriminate]. simpl in *. subst suf.
              exists d. simpl. rewrite depth_after_app, L1. simpl. repeat split; auto. congruence.
  - rewrite toks_obj.
    assert (Hl : depth_after (S d) (toks_members ms) = Some (S d) /\
                 forall pre suf, toks_members ms = pre ++ suf -> exists d', depth_after (S d) pre = Some d' /\ S d <= d').
    { induction IH as [|[k x] r Hx Hr IHr]; [split; [reflexivity|]; intros pre suf H; destruct pre; [|discriminate];
                                             exists (S d); auto|].
      destruct IHr as [E1 E2]. simpl in Hx. destruct (Hx (S d)) as [F1 F2]. split.
      - simpl. rewrite depth_after_app, F1. exact E1.
      - intros pre suf H. simpl in H. destruct pre as [|t pre]; [exists (S d); auto|].
        inversion H; subst t. clear H. simpl.
        destruct (app_eq_app _ _ _ _ H2) as (m & [[Ha Hb]|[Ha Hb]]).
        + destruct (F2 pre m Ha) as (d' & D1 & D2 & _). eauto.
        + subst pre. destruct (E2 m suf Hb) as (d' & D1 & D2). exists d'.
          rewrite depth_after_app, F1. auto. }
    destruct Hl as [L1 L2]. split.
    + simpl. rewrite depth_after_app, L1. reflexivity.
    + intros pre suf H. destruct pre as [|t pre].
      * exists d. simpl. repeat split; auto. congruence.
      * simpl in H. inversion H; subst t. clear H.
        destruct (app_eq_app _ _ _ _ H2) as (m & [[Ha Hb]|[Ha Hb]]).
        -- destruct (L2 pre m Ha) as (d' & D1 & D2). exists d'. simpl. repeat split; auto; lia.
        -- subst pre. destruct m as [|t m].
           ++ rewrite app_nil_r. exists (S d). simpl. repeat split; auto; lia.
           ++ inversion Hb; subst. destruct m; [|discriminate]. simpl in *. subst suf.
              exists d. simpl. rewrite depth_after_app, L1. simpl. repeat split; auto. congruence.
Qed.

Lemma toks_list_depth vs : forall d, depth_after d (toks_list vs) = Some d.
Proof.
  induction vs as [|x vs IH]; intros d; [reflexivity|]. simpl. rewrite depth_after_app.
  destruct (toks_depth x d) as [E _]. rewrite E. apply IH.
Qed.

(** THE truncation theorem: complete top-level values followed by a proper, non-empty
    prefix of one more value: the run ends in an error, whatever events came first *)
Theorem truncated_json_is_an_error vs v pre suf evs o :
  toks v = pre ++ suf -> pre <> [] -> suf <> [] ->
  runs [] (toks_list vs ++ pre) evs o -> o = JErr.
Proof.
  intros Hsplit Hp Hs Hr.
  pose proof (toks_list_depth vs) as Hvs.
  destruct (toks_depth v O) as [_ H]. destruct (H pre suf Hsplit) as (d' & D1 & _ & D3).
  specialize (D3 Hp Hs).
  destruct (runs_outcome _ _ _ _ Hr d') as [_ He].
  - simpl. now rewrite depth_after_app, Hvs.
  - apply He. lia.
Qed.

(** no panic: the adapter never pops an empty stack on (a prefix of) the tokens of
    JSON values *)
Theorem no_panic_on_value_tokens vs v pre suf evs o :
  toks v = pre ++ suf -> runs [] (toks_list vs ++ pre) evs o -> o <> JPanic.
Proof.
  intros Hsplit Hr.
  pose proof (toks_list_depth vs) as Hvs.
  destruct (toks_depth v O) as [_ H]. destruct (H pre suf Hsplit) as (d' & D1 & _ & _).
  destruct (runs_outcome _ _ _ _ Hr d') as [H0 He].
  - simpl. now rewrite depth_after_app, Hvs.
  - destruct d'; [rewrite H0 by reflexivity|rewrite He by discriminate]; discriminate.
Qed.
